import OdakProofs.Lemmas.Index
import OdakProofs.Lemmas.GenPadCropRound

/-! # C08 – zero-pad and centre-crop are exact inverses that keep the optical axis fixed
  Statements are over the axis maps of `OdakModel/Index.lean`, whose integer expressions
  (`Odak.Gen.*`) are regenerated from `/repo` on every run.  All sides `h, w` (both parities,
  `h ≠ w`), all explicit sizes `S ≥ shape`.  Two-dimensional statements follow because both
  functions act on the two spatial axes independently (validated by the correspondence). -/
namespace Odak
open Odak.Index Odak.Gen

/-- the start index the property demands: the FFT-centre sample `side/2` of the input lands on the
    FFT-centre sample `size/2` of the output -/
def axisStart (size side : Nat) : Nat := size / 2 - side / 2

theorem C08_axisStart_keeps_fft_centre (size side : Nat) (h : side ≤ size) :
    axisStart size side + side / 2 = size / 2 ∧ axisStart size side + side ≤ size := by
  unfold axisStart; omega

section torch

/-- torch `zero_pad`, default size: each side doubles, content unchanged inside a frame of zeros,
    content starts at `axisStart (2h) h`. -/
theorem C08_torch_pad_default (h w : Nat) :
    ((torchPad false 0 h w 0 0).1 = true ∧ (torchPad false 0 h w 0 0).2.IsPad h (axisStart (2 * h) h) (2 * h)) ∧
    ((torchPad false 1 h w 0 0).1 = true ∧ (torchPad false 1 h w 0 0).2.IsPad w (axisStart (2 * w) w) (2 * w)) := by
  constructor
  · apply storeAxis_isPad <;>
      simp only [torchPadDef_res0, torchPadDef_lo0, torchPadDef_hi0, axisStart] <;> omega
  · apply storeAxis_isPad <;>
      simp only [torchPadDef_res1, torchPadDef_lo1, torchPadDef_hi1, axisStart] <;> omega

/-- torch `zero_pad` with an explicit size `S ≥ shape`: exactly the requested size, content intact. -/
theorem C08_torch_pad_explicit (h w S0 S1 : Nat) (h0 : h ≤ S0) (h1 : w ≤ S1) :
    ((torchPad true 0 h w S0 S1).1 = true ∧ (torchPad true 0 h w S0 S1).2.IsPad h (axisStart S0 h) S0) ∧
    ((torchPad true 1 h w S0 S1).1 = true ∧ (torchPad true 1 h w S0 S1).2.IsPad w (axisStart S1 w) S1) := by
  constructor
  · apply storeAxis_isPad <;>
      simp only [torchPadExp_res0, torchPadExp_lo0, torchPadExp_hi0, axisStart] <;> omega
  · apply storeAxis_isPad <;>
      simp only [torchPadExp_res1, torchPadExp_lo1, torchPadExp_hi1, axisStart] <;> omega

/-- torch: `crop_center (zero_pad u) = u` sample for sample, every side length and parity. -/
theorem C08_torch_crop_pad_id (h w : Nat) :
    ((torchCrop false 0 (2 * h) (2 * w) 0 0).comp (torchPad false 0 h w 0 0).2).IsId h ∧
    ((torchCrop false 1 (2 * h) (2 * w) 0 0).comp (torchPad false 1 h w 0 0).2).IsId w := by
  have hp := C08_torch_pad_default h w
  constructor
  · obtain ⟨c1, c2⟩ := loadAxis_spec (2 * h) (torchCropDef_lo0 (2 * h) (2 * w) 0 0)
      (torchCropDef_hi0 (2 * h) (2 * w) 0 0) (axisStart (2 * h) h) h
      (by simp only [torchCropDef_lo0, axisStart]; omega)
      (by simp only [torchCropDef_hi0, axisStart]; omega)
      (by simp only [torchCropDef_hi0]; omega)
    exact crop_pad_id _ _ h _ _ h _ hp.1.2 c1 c2 rfl rfl
  · obtain ⟨c1, c2⟩ := loadAxis_spec (2 * w) (torchCropDef_lo1 (2 * h) (2 * w) 0 0)
      (torchCropDef_hi1 (2 * h) (2 * w) 0 0) (axisStart (2 * w) w) w
      (by simp only [torchCropDef_lo1, axisStart]; omega)
      (by simp only [torchCropDef_hi1, axisStart]; omega)
      (by simp only [torchCropDef_hi1]; omega)
    exact crop_pad_id _ _ w _ _ w _ hp.2.2 c1 c2 rfl rfl

/-- torch: cropping an explicitly sized pad back to the original size returns the original. -/
theorem C08_torch_crop_pad_id_explicit (h w S0 S1 : Nat) (h0 : h ≤ S0) (h1 : w ≤ S1) :
    ((torchCrop true 0 S0 S1 h w).comp (torchPad true 0 h w S0 S1).2).IsId h ∧
    ((torchCrop true 1 S0 S1 h w).comp (torchPad true 1 h w S0 S1).2).IsId w := by
  have hp := C08_torch_pad_explicit h w S0 S1 h0 h1
  constructor
  · obtain ⟨c1, c2⟩ := loadAxis_spec S0 (torchCropExp_lo0 S0 S1 h w) (torchCropExp_hi0 S0 S1 h w)
      (axisStart S0 h) h
      (by simp only [torchCropExp_lo0, axisStart]; omega)
      (by simp only [torchCropExp_hi0, axisStart]; omega)
      (by simp only [torchCropExp_hi0]; omega)
    exact crop_pad_id _ _ h _ _ h _ hp.1.2 c1 c2 rfl rfl
  · obtain ⟨c1, c2⟩ := loadAxis_spec S1 (torchCropExp_lo1 S0 S1 h w) (torchCropExp_hi1 S0 S1 h w)
      (axisStart S1 w) w
      (by simp only [torchCropExp_lo1, axisStart]; omega)
      (by simp only [torchCropExp_hi1, axisStart]; omega)
      (by simp only [torchCropExp_hi1]; omega)
    exact crop_pad_id _ _ w _ _ w _ hp.2.2 c1 c2 rfl rfl

end torch

section numpy

/-- NumPy `zero_pad`, default size (all `h, w ≥ 0`, in particular odd sides and `h = 1`). -/
theorem C08_np_pad_default (h w : Nat) :
    ((npPad false 0 h w 0 0).1 = true ∧ (npPad false 0 h w 0 0).2.IsPad h (axisStart (2 * h) h) (2 * h)) ∧
    ((npPad false 1 h w 0 0).1 = true ∧ (npPad false 1 h w 0 0).2.IsPad w (axisStart (2 * w) w) (2 * w)) := by
  constructor
  · apply npPadAxis_isPad <;> simp only [npPadDef_b0, npPadDef_a0, axisStart] <;> omega
  · apply npPadAxis_isPad <;> simp only [npPadDef_b1, npPadDef_a1, axisStart] <;> omega

/-- auxiliary: the trailing cut `[0:size]` of the NumPy explicit-size pad keeps a pad a pad -/
theorem cut_isPad (p : AxisMap) (n : Int) (lo hi : Int) (hh start len len' : Nat)
    (hp : p.IsPad hh start len) (hn : n = len) (hlo : lo = 0) (hhi : hi = len') (h1 : start + hh ≤ len')
    (h2 : len' ≤ len) : ((loadAxis n lo hi).comp p).IsPad hh start len' := by
  obtain ⟨c1, c2⟩ := loadAxis_spec n lo hi 0 len' (by omega) (by omega) (by omega)
  refine ⟨by simp [AxisMap.comp, c1], h1, ?_⟩
  intro i hi'
  simp only [AxisMap.comp, c2, Option.bind, Nat.add_zero]
  exact hp.2.2 i (by omega)

/-- NumPy `zero_pad` with an explicit size. -/
theorem C08_np_pad_explicit (h w S0 S1 : Nat) (h0 : h ≤ S0) (h1 : w ≤ S1) :
    ((npPad true 0 h w S0 S1).1 = true ∧ (npPad true 0 h w S0 S1).2.IsPad h (axisStart S0 h) S0) ∧
    ((npPad true 1 h w S0 S1).1 = true ∧ (npPad true 1 h w S0 S1).2.IsPad w (axisStart S1 w) S1) := by
  constructor
  · have hp := npPadAxis_isPad h (npPadExp_b0 h w S0 S1) (npPadExp_a0 h w S0 S1) h (axisStart S0 h)
      (npPadExp_b0 h w S0 S1 + h + npPadExp_a0 h w S0 S1).toNat
      (by simp only [npPadExp_b0, axisStart]; omega) rfl
      (by simp only [npPadExp_b0, npPadExp_a0]; omega) (by simp only [npPadExp_b0, npPadExp_a0]; omega)
    refine ⟨hp.1, ?_⟩
    simp only [npPad]
    apply cut_isPad _ _ _ _ h _ _ S0 hp.2
    · exact hp.2.1 ▸ rfl
    · simp only [npPadExp_cutlo0]
    · simp only [npPadExp_cuthi0, npPadAxis, npPadExp_b0, npPadExp_a0]; omega
    · unfold axisStart; omega
    · simp only [npPadExp_b0, npPadExp_a0]; omega
  · have hp := npPadAxis_isPad w (npPadExp_b1 h w S0 S1) (npPadExp_a1 h w S0 S1) w (axisStart S1 w)
      (npPadExp_b1 h w S0 S1 + w + npPadExp_a1 h w S0 S1).toNat
      (by simp only [npPadExp_b1, axisStart]; omega) rfl
      (by simp only [npPadExp_b1, npPadExp_a1]; omega) (by simp only [npPadExp_b1, npPadExp_a1]; omega)
    refine ⟨hp.1, ?_⟩
    simp only [npPad]
    apply cut_isPad _ _ _ _ w _ _ S1 hp.2
    · exact hp.2.1 ▸ rfl
    · simp only [npPadExp_cutlo1]
    · simp only [npPadExp_cuthi1, npPadAxis, npPadExp_b1, npPadExp_a1]; omega
    · unfold axisStart; omega
    · simp only [npPadExp_b1, npPadExp_a1]; omega

/-- NumPy: `crop_center (zero_pad u) = u` for every side, odd sides and `h = 1` included. -/
theorem C08_np_crop_pad_id (h w : Nat) :
    ((npCrop false 0 (2 * h) (2 * w) 0 0).comp (npPad false 0 h w 0 0).2).IsId h ∧
    ((npCrop false 1 (2 * h) (2 * w) 0 0).comp (npPad false 1 h w 0 0).2).IsId w := by
  have hp := C08_np_pad_default h w
  constructor
  · obtain ⟨c1, c2⟩ := loadAxis_spec (2 * h) (npCropDef_lo0 (2 * h) (2 * w) 0 0)
      (npCropDef_hi0 (2 * h) (2 * w) 0 0) (axisStart (2 * h) h) h
      (by simp only [npCropDef_lo0, axisStart]; omega)
      (by simp only [npCropDef_hi0, axisStart]; omega)
      (by simp only [npCropDef_hi0]; omega)
    exact crop_pad_id _ _ h _ _ h _ hp.1.2 c1 c2 rfl rfl
  · obtain ⟨c1, c2⟩ := loadAxis_spec (2 * w) (npCropDef_lo1 (2 * h) (2 * w) 0 0)
      (npCropDef_hi1 (2 * h) (2 * w) 0 0) (axisStart (2 * w) w) w
      (by simp only [npCropDef_lo1, axisStart]; omega)
      (by simp only [npCropDef_hi1, axisStart]; omega)
      (by simp only [npCropDef_hi1]; omega)
    exact crop_pad_id _ _ w _ _ w _ hp.2.2 c1 c2 rfl rfl

/-- NumPy: explicit size round trip. -/
theorem C08_np_crop_pad_id_explicit (h w S0 S1 : Nat) (h0 : h ≤ S0) (h1 : w ≤ S1) :
    ((npCrop true 0 S0 S1 h w).comp (npPad true 0 h w S0 S1).2).IsId h ∧
    ((npCrop true 1 S0 S1 h w).comp (npPad true 1 h w S0 S1).2).IsId w := by
  have hp := C08_np_pad_explicit h w S0 S1 h0 h1
  constructor
  · obtain ⟨c1, c2⟩ := loadAxis_spec S0 (npCropExp_lo0 S0 S1 h w) (npCropExp_hi0 S0 S1 h w)
      (axisStart S0 h) h
      (by simp only [npCropExp_lo0, axisStart]; omega)
      (by simp only [npCropExp_hi0, axisStart]; omega)
      (by simp only [npCropExp_hi0]; omega)
    exact crop_pad_id _ _ h _ _ h _ hp.1.2 c1 c2 rfl rfl
  · obtain ⟨c1, c2⟩ := loadAxis_spec S1 (npCropExp_lo1 S0 S1 h w) (npCropExp_hi1 S0 S1 h w)
      (axisStart S1 w) w
      (by simp only [npCropExp_lo1, axisStart]; omega)
      (by simp only [npCropExp_hi1, axisStart]; omega)
      (by simp only [npCropExp_hi1]; omega)
    exact crop_pad_id _ _ w _ _ w _ hp.2.2 c1 c2 rfl rfl

end numpy

/-- NumPy and torch place content identically, default and explicit sizes, every parity. -/
theorem C08_np_torch_same_placement (h w S0 S1 : Nat) (h0 : h ≤ S0) (h1 : w ≤ S1) :
    (∀ ax, ax < 2 → (npPad false ax h w 0 0).2.len = (torchPad false ax h w 0 0).2.len ∧
        ∀ i, i < (npPad false ax h w 0 0).2.len → (npPad false ax h w 0 0).2.src i = (torchPad false ax h w 0 0).2.src i) ∧
    (∀ ax, ax < 2 → (npPad true ax h w S0 S1).2.len = (torchPad true ax h w S0 S1).2.len ∧
        ∀ i, i < (npPad true ax h w S0 S1).2.len → (npPad true ax h w S0 S1).2.src i = (torchPad true ax h w S0 S1).2.src i) := by
  have a := C08_np_pad_default h w
  have b := C08_torch_pad_default h w
  have c := C08_np_pad_explicit h w S0 S1 h0 h1
  have d := C08_torch_pad_explicit h w S0 S1 h0 h1
  constructor
  · intro ax hax
    have : ax = 0 ∨ ax = 1 := by omega
    rcases this with rfl | rfl
    · exact isPad_unique _ _ _ _ _ a.1.2 b.1.2
    · exact isPad_unique _ _ _ _ _ a.2.2 b.2.2
  · intro ax hax
    have : ax = 0 ∨ ax = 1 := by omega
    rcases this with rfl | rfl
    · exact isPad_unique _ _ _ _ _ c.1.2 d.1.2
    · exact isPad_unique _ _ _ _ _ c.2.2 d.2.2

/-- layouts: for every documented rank/layout with sides ≥ 5 and fewer than 5 channels the torch
    functions pick exactly the two spatial axes (never a channel axis). -/
theorem C08_torch_layouts (b c h w : Nat) (hh : 5 ≤ h) (hw : 5 ≤ w) (hc : c < 5) :
    torchSpatialAxes [h, w] = some (0, 1) ∧
    torchSpatialAxes [c, h, w] = some (1, 2) ∧
    torchSpatialAxes [b, c, h, w] = some (2, 3) ∧
    torchSpatialAxes [b, h, w, c] = some (1, 2) := by
  have hw' : ¬ w < 5 := by omega
  refine ⟨?_, ?_, ?_, ?_⟩ <;> simp [torchSpatialAxes, hw', hc]

/-- non-vacuity: a 5 × 7 field, default and explicit (11 × 8) sizes satisfy every hypothesis above -/
example : (5 ≤ 11 ∧ 7 ≤ 8) ∧ (torchPad false 0 5 7 0 0).1 = true ∧ (npPad true 1 5 7 11 8).1 = true := by decide

end Odak

/-! ## The regenerated tensor programs (`Generated/PadCrop.lean`, regenerated from `/repo` on every run by
  `harness/translate/padcrop.py`): rank handling, channels-last heuristic, allocation, slice store / `np.pad`, slice read and the
  squeezes on the way out, statement by statement.  `C08_gen_*`: for every documented rank / layout (`Layout`: `[m x n]`,
  `[c x m x n]` - a single channel `[1 x m x n]` included -, `[k x c x m x n]`, `[k x m x n x c]`) output shape, output element,
  `crop_center (zero_pad x) = x` as TENSORS, NumPy = torch; `*_tie`: the regenerated programs are the hand-written axis maps of
  `OdakModel/Index.lean` (`torchPad`, `torchCrop`, `npPad`, `npCrop`, `torchSpatialAxes`) applied on the spatial axes.
  Every scalar type `α` (the theorems are index logic; `Num.ofNat 0` is the zero `torch.zeros` / `np.pad` write). -/
namespace Odak
open Odak.Index Odak.Gen Tensor
set_option linter.unusedSectionVars false
set_option linter.unusedVariables false
variable {α : Type} [Num α]

/-- torch `zero_pad`, `size = None`: Python accepts the store, every spatial side doubles, rank and layout are kept, the output
    element is the input element at the index shifted by `axisStart` inside the window and 0 outside -/
theorem C08_gen_torch_pad_default (L : Layout) (x : Tensor α) (k c h w : Nat) (hs : x.shape = L.shape k c h w)
    (ha : L.Accepts c w) :
    GenPC.torch_zero_pad_default_ok x = true ∧
    (GenPC.torch_zero_pad_default x).shape = L.shape k c (2 * h) (2 * w) ∧
    ∀ b ch i j, b < k → ch < c → i < 2 * h → j < 2 * w →
      (GenPC.torch_zero_pad_default x).get (L.idx b ch i j) =
        if (axisStart (2 * h) h ≤ i ∧ i < axisStart (2 * h) h + h) ∧ (axisStart (2 * w) w ≤ j ∧ j < axisStart (2 * w) w + w) then
          x.get (L.idx b ch (i - axisStart (2 * h) h) (j - axisStart (2 * w) w)) else Num.ofNat 0 :=
  torch_zero_pad_default_spec L x k c h w hs ha

/-- torch `zero_pad` with an explicit size `[S0, S1]`, `S0 ≥ h`, `S1 ≥ w` -/
theorem C08_gen_torch_pad_explicit (L : Layout) (x : Tensor α) (k c h w S0 S1 : Nat) (hs : x.shape = L.shape k c h w)
    (ha : L.Accepts c w) (h0 : h ≤ S0) (h1 : w ≤ S1) :
    GenPC.torch_zero_pad_explicit_ok x [S0, S1] = true ∧
    (GenPC.torch_zero_pad_explicit x [S0, S1]).shape = L.shape k c S0 S1 ∧
    ∀ b ch i j, b < k → ch < c → i < S0 → j < S1 →
      (GenPC.torch_zero_pad_explicit x [S0, S1]).get (L.idx b ch i j) =
        if (axisStart S0 h ≤ i ∧ i < axisStart S0 h + h) ∧ (axisStart S1 w ≤ j ∧ j < axisStart S1 w + w) then
          x.get (L.idx b ch (i - axisStart S0 h) (j - axisStart S1 w)) else Num.ofNat 0 :=
  torch_zero_pad_explicit_spec L x k c h w S0 S1 hs ha h0 h1

/-- torch `crop_center`: rank and layout are kept, the sides are halved (or become the requested size), the window starts at
    `axisStart` (the FFT-centre sample stays the FFT-centre sample) -/
theorem C08_gen_torch_crop (L : Layout) (x : Tensor α) (k c H W s0 s1 : Nat) (hs : x.shape = L.shape k c H W)
    (ha : L.Accepts c W) (h0 : s0 ≤ H) (h1 : s1 ≤ W) :
    ((GenPC.torch_crop_center_default x).shape = L.shape k c (H / 2) (W / 2) ∧
      ∀ b ch i j, b < k → ch < c → i < H / 2 → j < W / 2 →
        (GenPC.torch_crop_center_default x).get (L.idx b ch i j) =
          x.get (L.idx b ch (i + axisStart H (H / 2)) (j + axisStart W (W / 2)))) ∧
    ((GenPC.torch_crop_center_explicit x [s0, s1]).shape = L.shape k c s0 s1 ∧
      ∀ b ch i j, b < k → ch < c → i < s0 → j < s1 →
        (GenPC.torch_crop_center_explicit x [s0, s1]).get (L.idx b ch i j) =
          x.get (L.idx b ch (i + axisStart H s0) (j + axisStart W s1))) :=
  ⟨torch_crop_center_default_spec L x k c H W hs ha, torch_crop_center_explicit_spec L x k c H W s0 s1 hs ha h0 h1⟩

/-- torch: `crop_center (zero_pad x) = x` as tensors - the same shape (rank and layout included) and the same element at every
    multi-index - for every documented rank / layout, every side length and parity, default and explicit sizes -/
theorem C08_gen_torch_crop_pad_id (L : Layout) (x : Tensor α) (k c h w S0 S1 : Nat) (hs : x.shape = L.shape k c h w)
    (ha : L.Accepts c w) (h0 : h ≤ S0) (h1 : w ≤ S1) :
    ((GenPC.torch_crop_center_default (GenPC.torch_zero_pad_default x)).shape = x.shape ∧
      ∀ b ch i j, b < k → ch < c → i < h → j < w →
        (GenPC.torch_crop_center_default (GenPC.torch_zero_pad_default x)).get (L.idx b ch i j) = x.get (L.idx b ch i j)) ∧
    ((GenPC.torch_crop_center_explicit (GenPC.torch_zero_pad_explicit x [S0, S1]) [h, w]).shape = x.shape ∧
      ∀ b ch i j, b < k → ch < c → i < h → j < w →
        (GenPC.torch_crop_center_explicit (GenPC.torch_zero_pad_explicit x [S0, S1]) [h, w]).get (L.idx b ch i j) =
          x.get (L.idx b ch i j)) :=
  ⟨torch_crop_pad_default L x k c h w hs ha, torch_crop_pad_explicit L x k c h w S0 S1 hs ha h0 h1⟩

/-- the single-channel image `[1 x m x n]`: the channel axis survives both functions (only the axes the functions added
    themselves are squeezed away) -/
theorem C08_gen_torch_single_channel (x : Tensor α) (m n : Nat) (hs : x.shape = [1, m, n]) (hn : 5 ≤ n) :
    (GenPC.torch_zero_pad_default x).shape = [1, 2 * m, 2 * n] ∧
    (GenPC.torch_crop_center_default (GenPC.torch_zero_pad_default x)).shape = [1, m, n] ∧
    ∀ i j, i < m → j < n →
      (GenPC.torch_crop_center_default (GenPC.torch_zero_pad_default x)).get [0, i, j] = x.get [0, i, j] := by
  have a := (torch_zero_pad_default_spec Layout.chw x 1 1 m n hs hn).2.1
  have b := torch_crop_pad_default Layout.chw x 1 1 m n hs hn
  exact ⟨a, hs ▸ b.1, fun i j hi hj => b.2 0 0 i j (by omega) (by omega) hi hj⟩

/-- NumPy `zero_pad` (rank 2): accepted, sides double / become the requested size for every parity, content at `axisStart` -/
theorem C08_gen_np_pad (x : Tensor α) (h w S0 S1 : Nat) (hs : x.shape = [h, w]) (h0 : h ≤ S0) (h1 : w ≤ S1) :
    (GenPC.np_zero_pad_default_ok x = true ∧ (GenPC.np_zero_pad_default x).shape = [2 * h, 2 * w] ∧
      ∀ i j, i < 2 * h → j < 2 * w →
        (GenPC.np_zero_pad_default x).get [i, j] =
          if (axisStart (2 * h) h ≤ i ∧ i < axisStart (2 * h) h + h) ∧ (axisStart (2 * w) w ≤ j ∧ j < axisStart (2 * w) w + w) then
            x.get [i - axisStart (2 * h) h, j - axisStart (2 * w) w] else Num.ofNat 0) ∧
    (GenPC.np_zero_pad_explicit_ok x [S0, S1] = true ∧ (GenPC.np_zero_pad_explicit x [S0, S1]).shape = [S0, S1] ∧
      ∀ i j, i < S0 → j < S1 →
        (GenPC.np_zero_pad_explicit x [S0, S1]).get [i, j] =
          if (axisStart S0 h ≤ i ∧ i < axisStart S0 h + h) ∧ (axisStart S1 w ≤ j ∧ j < axisStart S1 w + w) then
            x.get [i - axisStart S0 h, j - axisStart S1 w] else Num.ofNat 0) :=
  ⟨np_zero_pad_default_spec x h w hs, np_zero_pad_explicit_spec x h w S0 S1 hs h0 h1⟩

/-- NumPy `zero_pad` hands `np.pad` one pair of widths per spatial axis: an array that is not 2-D is rejected (the NumPy API has no
    rank / layout handling at all) -/
theorem C08_gen_np_pad_rank2_only (x : Tensor α) (S : List Nat) (hr : x.shape.length ≠ 2) :
    GenPC.np_zero_pad_default_ok x = false ∧ GenPC.np_zero_pad_explicit_ok x S = false :=
  np_zero_pad_rank2_only x S hr

/-- NumPy `crop_center` (rank 2; on height x width x channels the two leading axes are cropped and the channels kept) -/
theorem C08_gen_np_crop (x : Tensor α) (H W s0 s1 : Nat) (hs : x.shape = [H, W]) (h0 : s0 ≤ H) (h1 : s1 ≤ W) :
    ((GenPC.np_crop_center_default x).shape = [H / 2, W / 2] ∧
      ∀ i j, i < H / 2 → j < W / 2 →
        (GenPC.np_crop_center_default x).get [i, j] = x.get [i + axisStart H (H / 2), j + axisStart W (W / 2)]) ∧
    ((GenPC.np_crop_center_explicit x [s0, s1]).shape = [s0, s1] ∧
      ∀ i j, i < s0 → j < s1 →
        (GenPC.np_crop_center_explicit x [s0, s1]).get [i, j] = x.get [i + axisStart H s0, j + axisStart W s1]) :=
  ⟨np_crop_center_default_spec x H W hs, np_crop_center_explicit_spec x H W s0 s1 hs h0 h1⟩

theorem C08_gen_np_crop_channels_last (x : Tensor α) (H W c : Nat) (hs : x.shape = [H, W, c]) :
    (GenPC.np_crop_center_default x).shape = [H / 2, W / 2, c] ∧
    ∀ i j ch, i < H / 2 → j < W / 2 → ch < c →
      (GenPC.np_crop_center_default x).get [i, j, ch] = x.get [i + axisStart H (H / 2), j + axisStart W (W / 2), ch] :=
  np_crop_center_default_spec_hwc x H W c hs

/-- NumPy: `crop_center (zero_pad x) = x` as tensors, every side (odd sides and 1 included), default and explicit sizes -/
theorem C08_gen_np_crop_pad_id (x : Tensor α) (h w S0 S1 : Nat) (hs : x.shape = [h, w]) (h0 : h ≤ S0) (h1 : w ≤ S1) :
    ((GenPC.np_crop_center_default (GenPC.np_zero_pad_default x)).shape = x.shape ∧
      ∀ i j, i < h → j < w → (GenPC.np_crop_center_default (GenPC.np_zero_pad_default x)).get [i, j] = x.get [i, j]) ∧
    ((GenPC.np_crop_center_explicit (GenPC.np_zero_pad_explicit x [S0, S1]) [h, w]).shape = x.shape ∧
      ∀ i j, i < h → j < w →
        (GenPC.np_crop_center_explicit (GenPC.np_zero_pad_explicit x [S0, S1]) [h, w]).get [i, j] = x.get [i, j]) :=
  ⟨np_crop_pad_default x h w hs, np_crop_pad_explicit x h w S0 S1 hs h0 h1⟩

/-- NumPy and torch `zero_pad` return the same tensor (shape and every element), default and explicit sizes, every parity -/
theorem C08_gen_np_torch_same_placement (x : Tensor α) (h w S0 S1 : Nat) (hs : x.shape = [h, w]) (hw : 5 ≤ w)
    (h0 : h ≤ S0) (h1 : w ≤ S1) :
    ((GenPC.np_zero_pad_default x).shape = (GenPC.torch_zero_pad_default x).shape ∧
      ∀ i j, i < 2 * h → j < 2 * w → (GenPC.np_zero_pad_default x).get [i, j] = (GenPC.torch_zero_pad_default x).get [i, j]) ∧
    ((GenPC.np_zero_pad_explicit x [S0, S1]).shape = (GenPC.torch_zero_pad_explicit x [S0, S1]).shape ∧
      ∀ i j, i < S0 → j < S1 →
        (GenPC.np_zero_pad_explicit x [S0, S1]).get [i, j] = (GenPC.torch_zero_pad_explicit x [S0, S1]).get [i, j]) :=
  np_torch_pad_same x h w S0 S1 hs hw h0 h1

/-- what the regenerated torch programs do with a rank-3 channels-LAST image `[m x n x c]` (not a documented layout):
    `zero_pad` keeps the layout, `crop_center` returns the crop channels FIRST - so `crop_center (zero_pad x)` has the shape
    `[c, m, n]`, not the shape of `x` -/
theorem C08_gen_torch_rank3_channels_last (x : Tensor α) (m n c : Nat) (hs : x.shape = [m, n, c]) (hc : c < 5) :
    (GenPC.torch_zero_pad_default x).shape = [2 * m, 2 * n, c] ∧
    (GenPC.torch_crop_center_default (GenPC.torch_zero_pad_default x)).shape = [c, 2 * m / 2, 2 * n / 2] :=
  ⟨(torch_zero_pad_default_hwc x m n c hs hc).1,
   (torch_crop_center_default_hwc _ (2 * m) (2 * n) c (torch_zero_pad_default_hwc x m n c hs hc).1 hc).1⟩

/-- the allocation of torch `zero_pad` takes device and dtype from the input; the default placement is `'center'` in both APIs -/
theorem C08_gen_alloc_and_defaults :
    GenPC.torch_zero_pad_alloc = [[("device", "field.device"), ("dtype", "field.dtype")]] ∧
    GenPC.torch_zero_pad_method = "center" ∧ GenPC.np_zero_pad_method = "center" := by decide

/-! ### tie: the regenerated programs are the hand-written axis maps on the spatial axes -/

/-- reading the input through two axis maps of `OdakModel/Index.lean` (`none` = a zero written by padding) -/
def readVia (x : Tensor α) (L : Layout) (b ch : Nat) : Option Nat → Option Nat → α
  | some a, some a' => x.get (L.idx b ch a a')
  | _, _ => Num.ofNat 0

theorem readVia_pad (x : Tensor α) (L : Layout) (b ch : Nat) (p q : AxisMap) (h s len w t len' i j : Nat)
    (hp : p.IsPad h s len) (hq : q.IsPad w t len') (hi : i < len) (hj : j < len') :
    readVia x L b ch (p.src i) (q.src j) =
      if (s ≤ i ∧ i < s + h) ∧ (t ≤ j ∧ j < t + w) then x.get (L.idx b ch (i - s) (j - t)) else Num.ofNat 0 := by
  rw [hp.2.2 i hi, hq.2.2 j hj]
  by_cases h1 : s ≤ i ∧ i < s + h <;> by_cases h2 : t ≤ j ∧ j < t + w <;> simp [h1, h2, readVia]

theorem torchSpatialAxes_layout (L : Layout) (k c h w : Nat) (ha : L.Accepts c w) :
    torchSpatialAxes (L.shape k c h w) = some L.spatial := by
  cases L <;> simp only [Layout.Accepts] at ha <;>
    simp [torchSpatialAxes, Layout.shape, Layout.spatial, ha, Nat.not_lt.mpr] <;> omega

/-- torch `zero_pad` = `torchPad` on the axes `torchSpatialAxes` names: acceptance flag, shape, every element -/
theorem C08_gen_torch_pad_tie (L : Layout) (x : Tensor α) (k c h w S0 S1 : Nat) (hs : x.shape = L.shape k c h w)
    (ha : L.Accepts c w) (h0 : h ≤ S0) (h1 : w ≤ S1) :
    torchSpatialAxes x.shape = some L.spatial ∧
    (GenPC.torch_zero_pad_default_ok x = ((torchPad false 0 h w 0 0).1 && (torchPad false 1 h w 0 0).1) ∧
      (GenPC.torch_zero_pad_default x).shape = L.shape k c (torchPad false 0 h w 0 0).2.len (torchPad false 1 h w 0 0).2.len ∧
      ∀ b ch i j, b < k → ch < c → i < (torchPad false 0 h w 0 0).2.len → j < (torchPad false 1 h w 0 0).2.len →
        (GenPC.torch_zero_pad_default x).get (L.idx b ch i j) =
          readVia x L b ch ((torchPad false 0 h w 0 0).2.src i) ((torchPad false 1 h w 0 0).2.src j)) ∧
    (GenPC.torch_zero_pad_explicit_ok x [S0, S1] = ((torchPad true 0 h w S0 S1).1 && (torchPad true 1 h w S0 S1).1) ∧
      (GenPC.torch_zero_pad_explicit x [S0, S1]).shape =
        L.shape k c (torchPad true 0 h w S0 S1).2.len (torchPad true 1 h w S0 S1).2.len ∧
      ∀ b ch i j, b < k → ch < c → i < (torchPad true 0 h w S0 S1).2.len → j < (torchPad true 1 h w S0 S1).2.len →
        (GenPC.torch_zero_pad_explicit x [S0, S1]).get (L.idx b ch i j) =
          readVia x L b ch ((torchPad true 0 h w S0 S1).2.src i) ((torchPad true 1 h w S0 S1).2.src j)) := by
  obtain ⟨⟨f0, p0⟩, ⟨f1, p1⟩⟩ := C08_torch_pad_default h w
  obtain ⟨⟨g0, q0⟩, ⟨g1, q1⟩⟩ := C08_torch_pad_explicit h w S0 S1 h0 h1
  obtain ⟨a1, a2, a3⟩ := C08_gen_torch_pad_default L x k c h w hs ha
  obtain ⟨b1, b2, b3⟩ := C08_gen_torch_pad_explicit L x k c h w S0 S1 hs ha h0 h1
  refine ⟨hs ▸ torchSpatialAxes_layout L k c h w ha, ⟨?_, ?_, ?_⟩, ⟨?_, ?_, ?_⟩⟩
  · rw [a1, f0, f1]; rfl
  · rw [a2, p0.1, p1.1]
  · intro b ch i j hb hch hi hj
    rw [p0.1] at hi; rw [p1.1] at hj
    rw [a3 b ch i j hb hch hi hj, readVia_pad x L b ch _ _ _ _ _ _ _ _ i j p0 p1 hi hj]
  · rw [b1, g0, g1]; rfl
  · rw [b2, q0.1, q1.1]
  · intro b ch i j hb hch hi hj
    rw [q0.1] at hi; rw [q1.1] at hj
    rw [b3 b ch i j hb hch hi hj, readVia_pad x L b ch _ _ _ _ _ _ _ _ i j q0 q1 hi hj]

/-- torch `crop_center` = `torchCrop` on the spatial axes: shape and every element -/
theorem C08_gen_torch_crop_tie (L : Layout) (x : Tensor α) (k c H W s0 s1 : Nat) (hs : x.shape = L.shape k c H W)
    (ha : L.Accepts c W) (h0 : s0 ≤ H) (h1 : s1 ≤ W) :
    ((GenPC.torch_crop_center_default x).shape = L.shape k c (torchCrop false 0 H W 0 0).len (torchCrop false 1 H W 0 0).len ∧
      ∀ b ch i j, b < k → ch < c → i < (torchCrop false 0 H W 0 0).len → j < (torchCrop false 1 H W 0 0).len →
        (GenPC.torch_crop_center_default x).get (L.idx b ch i j) =
          readVia x L b ch ((torchCrop false 0 H W 0 0).src i) ((torchCrop false 1 H W 0 0).src j)) ∧
    ((GenPC.torch_crop_center_explicit x [s0, s1]).shape =
        L.shape k c (torchCrop true 0 H W s0 s1).len (torchCrop true 1 H W s0 s1).len ∧
      ∀ b ch i j, b < k → ch < c → i < (torchCrop true 0 H W s0 s1).len → j < (torchCrop true 1 H W s0 s1).len →
        (GenPC.torch_crop_center_explicit x [s0, s1]).get (L.idx b ch i j) =
          readVia x L b ch ((torchCrop true 0 H W s0 s1).src i) ((torchCrop true 1 H W s0 s1).src j)) := by
  obtain ⟨c1, c2⟩ := loadAxis_spec H (torchCropDef_lo0 H W 0 0) (torchCropDef_hi0 H W 0 0) (axisStart H (H / 2)) (H / 2)
    (by simp only [torchCropDef_lo0, axisStart]; omega) (by simp only [torchCropDef_hi0, axisStart]; omega)
    (by simp only [torchCropDef_hi0]; omega)
  obtain ⟨d1, d2⟩ := loadAxis_spec W (torchCropDef_lo1 H W 0 0) (torchCropDef_hi1 H W 0 0) (axisStart W (W / 2)) (W / 2)
    (by simp only [torchCropDef_lo1, axisStart]; omega) (by simp only [torchCropDef_hi1, axisStart]; omega)
    (by simp only [torchCropDef_hi1]; omega)
  obtain ⟨e1, e2⟩ := loadAxis_spec H (torchCropExp_lo0 H W s0 s1) (torchCropExp_hi0 H W s0 s1) (axisStart H s0) s0
    (by simp only [torchCropExp_lo0, axisStart]; omega) (by simp only [torchCropExp_hi0, axisStart]; omega)
    (by simp only [torchCropExp_hi0]; omega)
  obtain ⟨f1, f2⟩ := loadAxis_spec W (torchCropExp_lo1 H W s0 s1) (torchCropExp_hi1 H W s0 s1) (axisStart W s1) s1
    (by simp only [torchCropExp_lo1, axisStart]; omega) (by simp only [torchCropExp_hi1, axisStart]; omega)
    (by simp only [torchCropExp_hi1]; omega)
  obtain ⟨⟨a1, a2⟩, ⟨b1, b2⟩⟩ := C08_gen_torch_crop L x k c H W s0 s1 hs ha h0 h1
  simp only [torchCrop]
  refine ⟨⟨by rw [a1, c1, d1], ?_⟩, ⟨by rw [b1, e1, f1], ?_⟩⟩
  · intro b ch i j hb hch hi hj
    rw [c1] at hi; rw [d1] at hj
    rw [a2 b ch i j hb hch hi hj, c2, d2]; rfl
  · intro b ch i j hb hch hi hj
    rw [e1] at hi; rw [f1] at hj
    rw [b2 b ch i j hb hch hi hj, e2, f2]; rfl

/-- NumPy `zero_pad` / `crop_center` (rank 2) = `npPad` / `npCrop` -/
theorem C08_gen_np_tie (x : Tensor α) (h w S0 S1 : Nat) (hs : x.shape = [h, w]) (h0 : h ≤ S0) (h1 : w ≤ S1) :
    (GenPC.np_zero_pad_default_ok x = ((npPad false 0 h w 0 0).1 && (npPad false 1 h w 0 0).1) ∧
      (GenPC.np_zero_pad_default x).shape = [(npPad false 0 h w 0 0).2.len, (npPad false 1 h w 0 0).2.len] ∧
      ∀ i j, i < (npPad false 0 h w 0 0).2.len → j < (npPad false 1 h w 0 0).2.len →
        (GenPC.np_zero_pad_default x).get [i, j] =
          readVia x Layout.hw 0 0 ((npPad false 0 h w 0 0).2.src i) ((npPad false 1 h w 0 0).2.src j)) ∧
    (GenPC.np_zero_pad_explicit_ok x [S0, S1] = ((npPad true 0 h w S0 S1).1 && (npPad true 1 h w S0 S1).1) ∧
      (GenPC.np_zero_pad_explicit x [S0, S1]).shape = [(npPad true 0 h w S0 S1).2.len, (npPad true 1 h w S0 S1).2.len] ∧
      ∀ i j, i < (npPad true 0 h w S0 S1).2.len → j < (npPad true 1 h w S0 S1).2.len →
        (GenPC.np_zero_pad_explicit x [S0, S1]).get [i, j] =
          readVia x Layout.hw 0 0 ((npPad true 0 h w S0 S1).2.src i) ((npPad true 1 h w S0 S1).2.src j)) ∧
    ((GenPC.np_crop_center_default x).shape = [(npCrop false 0 h w 0 0).len, (npCrop false 1 h w 0 0).len] ∧
      ∀ i j, i < (npCrop false 0 h w 0 0).len → j < (npCrop false 1 h w 0 0).len →
        (GenPC.np_crop_center_default x).get [i, j] =
          readVia x Layout.hw 0 0 ((npCrop false 0 h w 0 0).src i) ((npCrop false 1 h w 0 0).src j)) := by
  obtain ⟨⟨f0, p0⟩, ⟨f1, p1⟩⟩ := C08_np_pad_default h w
  obtain ⟨⟨g0, q0⟩, ⟨g1, q1⟩⟩ := C08_np_pad_explicit h w S0 S1 h0 h1
  obtain ⟨⟨a1, a2, a3⟩, ⟨b1, b2, b3⟩⟩ := C08_gen_np_pad x h w S0 S1 hs h0 h1
  obtain ⟨c1, c2⟩ := loadAxis_spec h (npCropDef_lo0 h w 0 0) (npCropDef_hi0 h w 0 0) (axisStart h (h / 2)) (h / 2)
    (by simp only [npCropDef_lo0, axisStart]; omega) (by simp only [npCropDef_hi0, axisStart]; omega)
    (by simp only [npCropDef_hi0]; omega)
  obtain ⟨d1, d2⟩ := loadAxis_spec w (npCropDef_lo1 h w 0 0) (npCropDef_hi1 h w 0 0) (axisStart w (w / 2)) (w / 2)
    (by simp only [npCropDef_lo1, axisStart]; omega) (by simp only [npCropDef_hi1, axisStart]; omega)
    (by simp only [npCropDef_hi1]; omega)
  obtain ⟨e1, e2⟩ := (C08_gen_np_crop x h w 0 0 hs (by omega) (by omega)).1
  refine ⟨⟨?_, ?_, ?_⟩, ⟨?_, ?_, ?_⟩, ⟨?_, ?_⟩⟩
  · rw [a1, f0, f1]; rfl
  · rw [a2, p0.1, p1.1]
  · intro i j hi hj
    rw [p0.1] at hi; rw [p1.1] at hj
    rw [a3 i j hi hj, readVia_pad x Layout.hw 0 0 _ _ _ _ _ _ _ _ i j p0 p1 hi hj]; rfl
  · rw [b1, g0, g1]; rfl
  · rw [b2, q0.1, q1.1]
  · intro i j hi hj
    rw [q0.1] at hi; rw [q1.1] at hj
    rw [b3 i j hi hj, readVia_pad x Layout.hw 0 0 _ _ _ _ _ _ _ _ i j q0 q1 hi hj]; rfl
  · simp only [npCrop]; rw [e1, c1, d1]
  · simp only [npCrop]
    intro i j hi hj
    rw [c1] at hi; rw [d1] at hj
    rw [e2 i j hi hj, c2, d2]; rfl

/-- non-vacuity: a 5 x 7 field in the layout `[2 x 3 x 5 x 7]`, padded to 11 x 8, satisfies every hypothesis above -/
example : Layout.bchw.Accepts 3 7 ∧ Layout.bhwc.Accepts 3 7 ∧ (Tensor.zeros (α := ℝ) (Layout.bchw.shape 2 3 5 7)).shape = [2, 3, 5, 7] ∧
    (5 ≤ 11 ∧ 7 ≤ 8) := by
  refine ⟨by simp [Layout.Accepts], by simp [Layout.Accepts], rfl, by omega⟩

end Odak
