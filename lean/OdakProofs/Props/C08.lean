import OdakProofs.Lemmas.Index

/-! # C08 – zero-pad and centre-crop are exact inverses that keep the optical axis fixed
  Statements are over the axis maps of `OdakModel/Index.lean`, whose integer expressions
  (`Odak.Gen.*`) are regenerated from `/repo` on every run.  All sides `h, w` (both parities,
  `h ≠ w`), all explicit sizes `S ≥ shape`.  Two-dimensional statements follow because both
  functions act on the two spatial axes independently (validated by the correspondence). -/
namespace Odak
open Odak.Index Odak.Gen

/-- the start index the property demands: the FFT-centre sample `side/2` of the input lands on the
    FFT-centre sample `size/2` of the output -/
def axisStart (size side : Nat) : Nat := size / 2 - side / 2

theorem C08_axisStart_keeps_fft_centre (size side : Nat) (h : side ≤ size) :
    axisStart size side + side / 2 = size / 2 ∧ axisStart size side + side ≤ size := by
  unfold axisStart; omega

section torch

/-- torch `zero_pad`, default size: each side doubles, content unchanged inside a frame of zeros,
    content starts at `axisStart (2h) h`. -/
theorem C08_torch_pad_default (h w : Nat) :
    ((torchPad false 0 h w 0 0).1 = true ∧ (torchPad false 0 h w 0 0).2.IsPad h (axisStart (2 * h) h) (2 * h)) ∧
    ((torchPad false 1 h w 0 0).1 = true ∧ (torchPad false 1 h w 0 0).2.IsPad w (axisStart (2 * w) w) (2 * w)) := by
  constructor
  · apply storeAxis_isPad <;>
      simp only [torchPadDef_res0, torchPadDef_lo0, torchPadDef_hi0, axisStart] <;> omega
  · apply storeAxis_isPad <;>
      simp only [torchPadDef_res1, torchPadDef_lo1, torchPadDef_hi1, axisStart] <;> omega

/-- torch `zero_pad` with an explicit size `S ≥ shape`: exactly the requested size, content intact. -/
theorem C08_torch_pad_explicit (h w S0 S1 : Nat) (h0 : h ≤ S0) (h1 : w ≤ S1) :
    ((torchPad true 0 h w S0 S1).1 = true ∧ (torchPad true 0 h w S0 S1).2.IsPad h (axisStart S0 h) S0) ∧
    ((torchPad true 1 h w S0 S1).1 = true ∧ (torchPad true 1 h w S0 S1).2.IsPad w (axisStart S1 w) S1) := by
  constructor
  · apply storeAxis_isPad <;>
      simp only [torchPadExp_res0, torchPadExp_lo0, torchPadExp_hi0, axisStart] <;> omega
  · apply storeAxis_isPad <;>
      simp only [torchPadExp_res1, torchPadExp_lo1, torchPadExp_hi1, axisStart] <;> omega

/-- torch: `crop_center (zero_pad u) = u` sample for sample, every side length and parity. -/
theorem C08_torch_crop_pad_id (h w : Nat) :
    ((torchCrop false 0 (2 * h) (2 * w) 0 0).comp (torchPad false 0 h w 0 0).2).IsId h ∧
    ((torchCrop false 1 (2 * h) (2 * w) 0 0).comp (torchPad false 1 h w 0 0).2).IsId w := by
  have hp := C08_torch_pad_default h w
  constructor
  · obtain ⟨c1, c2⟩ := loadAxis_spec (2 * h) (torchCropDef_lo0 (2 * h) (2 * w) 0 0)
      (torchCropDef_hi0 (2 * h) (2 * w) 0 0) (axisStart (2 * h) h) h
      (by simp only [torchCropDef_lo0, axisStart]; omega)
      (by simp only [torchCropDef_hi0, axisStart]; omega)
      (by simp only [torchCropDef_hi0]; omega)
    exact crop_pad_id _ _ h _ _ h _ hp.1.2 c1 c2 rfl rfl
  · obtain ⟨c1, c2⟩ := loadAxis_spec (2 * w) (torchCropDef_lo1 (2 * h) (2 * w) 0 0)
      (torchCropDef_hi1 (2 * h) (2 * w) 0 0) (axisStart (2 * w) w) w
      (by simp only [torchCropDef_lo1, axisStart]; omega)
      (by simp only [torchCropDef_hi1, axisStart]; omega)
      (by simp only [torchCropDef_hi1]; omega)
    exact crop_pad_id _ _ w _ _ w _ hp.2.2 c1 c2 rfl rfl

/-- torch: cropping an explicitly sized pad back to the original size returns the original. -/
theorem C08_torch_crop_pad_id_explicit (h w S0 S1 : Nat) (h0 : h ≤ S0) (h1 : w ≤ S1) :
    ((torchCrop true 0 S0 S1 h w).comp (torchPad true 0 h w S0 S1).2).IsId h ∧
    ((torchCrop true 1 S0 S1 h w).comp (torchPad true 1 h w S0 S1).2).IsId w := by
  have hp := C08_torch_pad_explicit h w S0 S1 h0 h1
  constructor
  · obtain ⟨c1, c2⟩ := loadAxis_spec S0 (torchCropExp_lo0 S0 S1 h w) (torchCropExp_hi0 S0 S1 h w)
      (axisStart S0 h) h
      (by simp only [torchCropExp_lo0, axisStart]; omega)
      (by simp only [torchCropExp_hi0, axisStart]; omega)
      (by simp only [torchCropExp_hi0]; omega)
    exact crop_pad_id _ _ h _ _ h _ hp.1.2 c1 c2 rfl rfl
  · obtain ⟨c1, c2⟩ := loadAxis_spec S1 (torchCropExp_lo1 S0 S1 h w) (torchCropExp_hi1 S0 S1 h w)
      (axisStart S1 w) w
      (by simp only [torchCropExp_lo1, axisStart]; omega)
      (by simp only [torchCropExp_hi1, axisStart]; omega)
      (by simp only [torchCropExp_hi1]; omega)
    exact crop_pad_id _ _ w _ _ w _ hp.2.2 c1 c2 rfl rfl

end torch

section numpy

/-- NumPy `zero_pad`, default size (all `h, w ≥ 0`, in particular odd sides and `h = 1`). -/
theorem C08_np_pad_default (h w : Nat) :
    ((npPad false 0 h w 0 0).1 = true ∧ (npPad false 0 h w 0 0).2.IsPad h (axisStart (2 * h) h) (2 * h)) ∧
    ((npPad false 1 h w 0 0).1 = true ∧ (npPad false 1 h w 0 0).2.IsPad w (axisStart (2 * w) w) (2 * w)) := by
  constructor
  · apply npPadAxis_isPad <;> simp only [npPadDef_b0, npPadDef_a0, axisStart] <;> omega
  · apply npPadAxis_isPad <;> simp only [npPadDef_b1, npPadDef_a1, axisStart] <;> omega

/-- auxiliary: the trailing cut `[0:size]` of the NumPy explicit-size pad keeps a pad a pad -/
theorem cut_isPad (p : AxisMap) (n : Int) (lo hi : Int) (hh start len len' : Nat)
    (hp : p.IsPad hh start len) (hn : n = len) (hlo : lo = 0) (hhi : hi = len') (h1 : start + hh ≤ len')
    (h2 : len' ≤ len) : ((loadAxis n lo hi).comp p).IsPad hh start len' := by
  obtain ⟨c1, c2⟩ := loadAxis_spec n lo hi 0 len' (by omega) (by omega) (by omega)
  refine ⟨by simp [AxisMap.comp, c1], h1, ?_⟩
  intro i hi'
  simp only [AxisMap.comp, c2, Option.bind, Nat.add_zero]
  exact hp.2.2 i (by omega)

/-- NumPy `zero_pad` with an explicit size. -/
theorem C08_np_pad_explicit (h w S0 S1 : Nat) (h0 : h ≤ S0) (h1 : w ≤ S1) :
    ((npPad true 0 h w S0 S1).1 = true ∧ (npPad true 0 h w S0 S1).2.IsPad h (axisStart S0 h) S0) ∧
    ((npPad true 1 h w S0 S1).1 = true ∧ (npPad true 1 h w S0 S1).2.IsPad w (axisStart S1 w) S1) := by
  constructor
  · have hp := npPadAxis_isPad h (npPadExp_b0 h w S0 S1) (npPadExp_a0 h w S0 S1) h (axisStart S0 h)
      (npPadExp_b0 h w S0 S1 + h + npPadExp_a0 h w S0 S1).toNat
      (by simp only [npPadExp_b0, axisStart]; omega) rfl
      (by simp only [npPadExp_b0, npPadExp_a0]; omega) (by simp only [npPadExp_b0, npPadExp_a0]; omega)
    refine ⟨hp.1, ?_⟩
    simp only [npPad]
    apply cut_isPad _ _ _ _ h _ _ S0 hp.2
    · exact hp.2.1 ▸ rfl
    · simp only [npPadExp_cutlo0]
    · simp only [npPadExp_cuthi0, npPadAxis, npPadExp_b0, npPadExp_a0]; omega
    · unfold axisStart; omega
    · simp only [npPadExp_b0, npPadExp_a0]; omega
  · have hp := npPadAxis_isPad w (npPadExp_b1 h w S0 S1) (npPadExp_a1 h w S0 S1) w (axisStart S1 w)
      (npPadExp_b1 h w S0 S1 + w + npPadExp_a1 h w S0 S1).toNat
      (by simp only [npPadExp_b1, axisStart]; omega) rfl
      (by simp only [npPadExp_b1, npPadExp_a1]; omega) (by simp only [npPadExp_b1, npPadExp_a1]; omega)
    refine ⟨hp.1, ?_⟩
    simp only [npPad]
    apply cut_isPad _ _ _ _ w _ _ S1 hp.2
    · exact hp.2.1 ▸ rfl
    · simp only [npPadExp_cutlo1]
    · simp only [npPadExp_cuthi1, npPadAxis, npPadExp_b1, npPadExp_a1]; omega
    · unfold axisStart; omega
    · simp only [npPadExp_b1, npPadExp_a1]; omega

/-- NumPy: `crop_center (zero_pad u) = u` for every side, odd sides and `h = 1` included. -/
theorem C08_np_crop_pad_id (h w : Nat) :
    ((npCrop false 0 (2 * h) (2 * w) 0 0).comp (npPad false 0 h w 0 0).2).IsId h ∧
    ((npCrop false 1 (2 * h) (2 * w) 0 0).comp (npPad false 1 h w 0 0).2).IsId w := by
  have hp := C08_np_pad_default h w
  constructor
  · obtain ⟨c1, c2⟩ := loadAxis_spec (2 * h) (npCropDef_lo0 (2 * h) (2 * w) 0 0)
      (npCropDef_hi0 (2 * h) (2 * w) 0 0) (axisStart (2 * h) h) h
      (by simp only [npCropDef_lo0, axisStart]; omega)
      (by simp only [npCropDef_hi0, axisStart]; omega)
      (by simp only [npCropDef_hi0]; omega)
    exact crop_pad_id _ _ h _ _ h _ hp.1.2 c1 c2 rfl rfl
  · obtain ⟨c1, c2⟩ := loadAxis_spec (2 * w) (npCropDef_lo1 (2 * h) (2 * w) 0 0)
      (npCropDef_hi1 (2 * h) (2 * w) 0 0) (axisStart (2 * w) w) w
      (by simp only [npCropDef_lo1, axisStart]; omega)
      (by simp only [npCropDef_hi1, axisStart]; omega)
      (by simp only [npCropDef_hi1]; omega)
    exact crop_pad_id _ _ w _ _ w _ hp.2.2 c1 c2 rfl rfl

/-- NumPy: explicit size round trip. -/
theorem C08_np_crop_pad_id_explicit (h w S0 S1 : Nat) (h0 : h ≤ S0) (h1 : w ≤ S1) :
    ((npCrop true 0 S0 S1 h w).comp (npPad true 0 h w S0 S1).2).IsId h ∧
    ((npCrop true 1 S0 S1 h w).comp (npPad true 1 h w S0 S1).2).IsId w := by
  have hp := C08_np_pad_explicit h w S0 S1 h0 h1
  constructor
  · obtain ⟨c1, c2⟩ := loadAxis_spec S0 (npCropExp_lo0 S0 S1 h w) (npCropExp_hi0 S0 S1 h w)
      (axisStart S0 h) h
      (by simp only [npCropExp_lo0, axisStart]; omega)
      (by simp only [npCropExp_hi0, axisStart]; omega)
      (by simp only [npCropExp_hi0]; omega)
    exact crop_pad_id _ _ h _ _ h _ hp.1.2 c1 c2 rfl rfl
  · obtain ⟨c1, c2⟩ := loadAxis_spec S1 (npCropExp_lo1 S0 S1 h w) (npCropExp_hi1 S0 S1 h w)
      (axisStart S1 w) w
      (by simp only [npCropExp_lo1, axisStart]; omega)
      (by simp only [npCropExp_hi1, axisStart]; omega)
      (by simp only [npCropExp_hi1]; omega)
    exact crop_pad_id _ _ w _ _ w _ hp.2.2 c1 c2 rfl rfl

end numpy

/-- NumPy and torch place content identically, default and explicit sizes, every parity. -/
theorem C08_np_torch_same_placement (h w S0 S1 : Nat) (h0 : h ≤ S0) (h1 : w ≤ S1) :
    (∀ ax, ax < 2 → (npPad false ax h w 0 0).2.len = (torchPad false ax h w 0 0).2.len ∧
        ∀ i, i < (npPad false ax h w 0 0).2.len → (npPad false ax h w 0 0).2.src i = (torchPad false ax h w 0 0).2.src i) ∧
    (∀ ax, ax < 2 → (npPad true ax h w S0 S1).2.len = (torchPad true ax h w S0 S1).2.len ∧
        ∀ i, i < (npPad true ax h w S0 S1).2.len → (npPad true ax h w S0 S1).2.src i = (torchPad true ax h w S0 S1).2.src i) := by
  have a := C08_np_pad_default h w
  have b := C08_torch_pad_default h w
  have c := C08_np_pad_explicit h w S0 S1 h0 h1
  have d := C08_torch_pad_explicit h w S0 S1 h0 h1
  constructor
  · intro ax hax
    have : ax = 0 ∨ ax = 1 := by omega
    rcases this with rfl | rfl
    · exact isPad_unique _ _ _ _ _ a.1.2 b.1.2
    · exact isPad_unique _ _ _ _ _ a.2.2 b.2.2
  · intro ax hax
    have : ax = 0 ∨ ax = 1 := by omega
    rcases this with rfl | rfl
    · exact isPad_unique _ _ _ _ _ c.1.2 d.1.2
    · exact isPad_unique _ _ _ _ _ c.2.2 d.2.2

/-- layouts: for every documented rank/layout with sides ≥ 5 and fewer than 5 channels the torch
    functions pick exactly the two spatial axes (never a channel axis). -/
theorem C08_torch_layouts (b c h w : Nat) (hh : 5 ≤ h) (hw : 5 ≤ w) (hc : c < 5) :
    torchSpatialAxes [h, w] = some (0, 1) ∧
    torchSpatialAxes [c, h, w] = some (1, 2) ∧
    torchSpatialAxes [b, c, h, w] = some (2, 3) ∧
    torchSpatialAxes [b, h, w, c] = some (1, 2) := by
  have hw' : ¬ w < 5 := by omega
  refine ⟨?_, ?_, ?_, ?_⟩ <;> simp [torchSpatialAxes, hw', hc]

/-- non-vacuity: a 5 × 7 field, default and explicit (11 × 8) sizes satisfy every hypothesis above -/
example : (5 ≤ 11 ∧ 7 ≤ 8) ∧ (torchPad false 0 5 7 0 0).1 = true ∧ (npPad true 1 5 7 11 8).1 = true := by decide

end Odak
