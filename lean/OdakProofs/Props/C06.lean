import OdakProofs.Lemmas.Kernels
import OdakProofs.Lemmas.PropagateLemmas
import OdakModel.Propagator
import OdakProofs.Lemmas.GenPropagator
import OdakProofs.Lemmas.GenPropagatorObject5
import OdakProofs.Lemmas.PropagatorObjectInst6

/-! # C06 – the propagator forward model is history-independent and matches its documented model -/
namespace Odak
open CGrid

variable {n m : Nat}

/-- cache invariant: every stored kernel is the kernel a fresh object would build for that key -/
def CacheInv (kf : Nat → Nat → CGrid ℝ n m) (s : PState ℝ n m) : Prop :=
  ∀ d c H, s.cache.lookup (d, c) = some H → H = kf d c

theorem cacheInv_init (kf : Nat → Nat → CGrid ℝ n m) : CacheInv kf (PState.init : PState ℝ n m) := by
  intro d c H h; simp [PState.init] at h

/-- one call preserves the invariant and returns what a fresh propagator returns -/
theorem callStep_spec (kf : Nat → Nat → CGrid ℝ n m) (A : CGrid ℝ n m) (s : PState ℝ n m) (hs : CacheInv kf s)
    (d c : Nat) (u : CGrid ℝ n m) :
    CacheInv kf (callStep kf A s d c u).1 ∧ (callStep kf A s d c u).2 = freshCall kf A d c u := by
  unfold callStep freshCall
  cases hl : s.cache.lookup (d, c) with
  | some H =>
    simp only
    exact ⟨hs, by rw [hs d c H hl]⟩
  | none =>
    simp only
    refine ⟨?_, trivial⟩
    intro d' c' H' h'
    simp only [List.lookup_cons] at h'
    by_cases hk : ((d', c') == (d, c)) = true
    · rw [hk] at h'
      have e : (d', c') = (d, c) := by simpa using hk
      injection e with e1 e2
      subst e1 e2
      injection h' with h'
      exact h'.symm
    · have hk' : ((d', c') == (d, c)) = false := by simpa using hk
      rw [hk'] at h'
      exact hs d' c' H' h'

/-- **history independence**: for ANY sequence of forward calls over (depth, channel, field), in any
    order and of any length, the i-th result equals what a freshly built propagator returns for the
    same arguments (induction over the call list; the invariant is carried along) -/
theorem C06_history_independent (kf : Nat → Nat → CGrid ℝ n m) (A : CGrid ℝ n m)
    (ops : List (Nat × Nat × CGrid ℝ n m)) (s : PState ℝ n m) (hs : CacheInv kf s) :
    (runCalls kf A s ops).2 = ops.map (fun o => freshCall kf A o.1 o.2.1 o.2.2) ∧
    CacheInv kf (runCalls kf A s ops).1 := by
  induction ops generalizing s with
  | nil => exact ⟨rfl, hs⟩
  | cons o rest ih =>
    obtain ⟨d, c, u⟩ := o
    obtain ⟨h1, h2⟩ := callStep_spec kf A s hs d c u
    obtain ⟨i1, i2⟩ := ih (callStep kf A s d c u).1 h1
    simp only [runCalls, List.map_cons]
    exact ⟨by rw [i1, h2], i2⟩

/-- from a new object (empty cache) in particular -/
theorem C06_history_independent_from_init (kf : Nat → Nat → CGrid ℝ n m) (A : CGrid ℝ n m)
    (ops : List (Nat × Nat × CGrid ℝ n m)) :
    (runCalls kf A PState.init ops).2 = ops.map (fun o => freshCall kf A o.1 o.2.1 o.2.2) :=
  (C06_history_independent kf A ops PState.init (cacheInv_init kf)).1

/-- `reconstruct` is the frames × depths × channels loop over `__call__`: each of its results is the
    fresh result too (it is a particular call list) -/
theorem C06_reconstruct_history_independent (kf : Nat → Nat → CGrid ℝ n m) (A : CGrid ℝ n m)
    (frames depths channels : Nat) (field : Nat → Nat → CGrid ℝ n m) (s : PState ℝ n m) (hs : CacheInv kf s) :
    (runCalls kf A s (reconstructOps frames depths channels field)).2
      = (reconstructOps frames depths channels field).map (fun o => freshCall kf A o.1 o.2.1 o.2.2) :=
  (C06_history_independent kf A _ s hs).1

/-- the documented model: multiply once by the kernel and once by the Fourier-plane aperture
    (any aperture, binary or not) -/
theorem C06_call_is_documented_model (u H A : CGrid ℝ n m) : custom u H A = customDocumented u H A := by
  have key : mul H (mul (fftshift (fft2 u)) A) = mul (mul H A) (fftshift (fft2 u)) := by
    apply toCG_injective
    simp only [toCG_mul]
    ring
  unfold custom customDocumented
  rw [key]

/-- with unit-modulus, distance-additive kernels (angular spectrum, Fresnel transfer function) a
    'back and forth' propagator equals one 'forward' propagation by the net distance `distance - offset` -/
theorem C06_back_and_forth_net (dx z0 offset : ℝ) (lams dists : List ℝ) (d c : Nat) :
    kernelFor n m ⟨true, .as, dx, lams, dists, offset, z0⟩ d c
      = asKernel n m dx (lams.getD c 0) (dists.getD d 0 - offset) ∧
    kernelFor n m ⟨true, .tf, dx, lams, dists, offset, z0⟩ d c
      = tfKernel n m dx (lams.getD c 0) (wavenumber (lams.getD c 0)) (dists.getD d 0 - offset) := by
  constructor
  · simp only [kernelFor, methodKernel, if_true]
    apply Grid.ext_get; intro i j
    rw [CGrid.get_mul, as_add, show z0 + -(z0 + offset - dists.getD d 0) = dists.getD d 0 - offset by ring]
  · simp only [kernelFor, methodKernel, if_true]
    apply Grid.ext_get; intro i j
    rw [CGrid.get_mul, tf_add, show z0 + -(z0 + offset - dists.getD d 0) = dists.getD d 0 - offset by ring]

/-- non-vacuity: the invariant holds for a non-empty cache reached by a real call -/
example (kf : Nat → Nat → CGrid ℝ 2 2) (A u : CGrid ℝ 2 2) :
    CacheInv kf (callStep kf A PState.init 1 0 u).1 ∧ ((callStep kf A PState.init 1 0 u).1.generated 1 0 = true) := by
  refine ⟨(callStep_spec kf A PState.init (cacheInv_init kf) 1 0 u).1, ?_⟩
  simp [callStep, PState.init, PState.generated]

end Odak

/-! ## The same statements for `propagator.__call__` / `reconstruct` REGENERATED from the Python source on this run
  (`Gen.propagatorCallT`, `Gen.reconstructCallsT` of `OdakModel/Generated/Pipelines.lean`; tied to the hand model's `callStep`
  by `gen_propagatorCallT_eq`).  They stop compiling when the cache key, the stored expression (e.g. kernel times aperture), the
  kernel built for a propagator type, or the pad -> custom -> crop sequence of the source changes. -/
namespace Odak
open CGrid Gen

variable {h w : Nat}

/-- a sequence of calls `(depth, channel, field)` of the regenerated step function, collecting the outputs -/
def runCallsT {α : Type} [Num α] (self_ : PropagatorSelf α h w) :
    PState α (2 * h) (2 * w) → List (Nat × Nat × CGrid α h w) → Option (PState α (2 * h) (2 * w) × List (CGrid α h w))
  | s, [] => some (s, [])
  | s, (d, c, u) :: rest =>
    (propagatorCallT self_ s u c d).bind fun r => (runCallsT self_ r.1 rest).map fun q => (q.1, r.2 :: q.2)

/-- **history independence of the regenerated `__call__`**: for ANY sequence of calls over (depth, channel, field), the source
    never raises and the i-th result is what a freshly built propagator returns for the same arguments:
    `crop_center(custom(zero_pad(u), kernel(depth, channel), aperture))`; the cache invariant is preserved -/
theorem C06_gen_history_independent (cfg : PropCfg ℝ) (A : CGrid ℝ (2 * h) (2 * w)) (s0 s1 s2 s3 : Nat)
    (ops : List (Nat × Nat × CGrid ℝ h w)) (s : PState ℝ (2 * h) (2 * w)) (hs : CacheInv (kernelFor (2 * h) (2 * w) cfg) s) :
    ∃ s', runCallsT (cfg.toSelf A s0 s1 s2 s3) s ops
        = some (s', ops.map fun o => cropGrid (freshCall (kernelFor (2 * h) (2 * w) cfg) A o.1 o.2.1 (padGrid o.2.2))) ∧
      CacheInv (kernelFor (2 * h) (2 * w) cfg) s' := by
  induction ops generalizing s with
  | nil => exact ⟨s, rfl, hs⟩
  | cons o rest ih =>
    obtain ⟨d, c, u⟩ := o
    obtain ⟨h1, h2⟩ := callStep_spec (kernelFor (2 * h) (2 * w) cfg) A s hs d c (padGrid u)
    obtain ⟨s', e, hs'⟩ := ih _ h1
    refine ⟨s', ?_, hs'⟩
    simp only [runCallsT, gen_propagatorCallT_eq, Option.bind_some, callStepPC, e, Option.map_some, List.map_cons, h2]

/-- from a new object (empty cache): the first call stores the kernel the source builds for (depth, channel) WITHOUT the aperture,
    under the key (depth, channel) -/
theorem C06_gen_first_call_caches_kernel_without_aperture (cfg : PropCfg ℝ) (A : CGrid ℝ (2 * h) (2 * w)) (s0 s1 s2 s3 : Nat)
    (d c : Nat) (u : CGrid ℝ h w) :
    (propagatorCallT (cfg.toSelf A s0 s1 s2 s3) PState.init u c d).map (fun r => r.1.cache)
      = some [((d, c), kernelFor (2 * h) (2 * w) cfg d c)] := by
  simp [gen_propagatorCallT_eq, callStepPC, callStep, PState.init]

/-- `reconstruct` makes the calls the hand model lists (frames > depths > channels; the field depends on frame and channel), so
    each of its results is the fresh result too -/
theorem C06_gen_reconstruct_history_independent (cfg : PropCfg ℝ) (A : CGrid ℝ (2 * h) (2 * w)) (s0 s1 s2 s3 : Nat)
    (frames depths channels : Nat) (field : Nat → Nat → CGrid ℝ h w) (s : PState ℝ (2 * h) (2 * w))
    (hs : CacheInv (kernelFor (2 * h) (2 * w) cfg) s) :
    reconstructCallsT frames depths channels field = reconstructOps frames depths channels field ∧
    ∃ s', runCallsT (cfg.toSelf A s0 s1 s2 s3) s (reconstructCallsT frames depths channels field)
        = some (s', (reconstructCallsT frames depths channels field).map
            fun o => cropGrid (freshCall (kernelFor (2 * h) (2 * w) cfg) A o.1 o.2.1 (padGrid o.2.2))) :=
  ⟨rfl, (C06_gen_history_independent cfg A s0 s1 s2 s3 _ s hs).imp fun _ hh => hh.1⟩

/-- the regenerated `custom` is the documented model: once the kernel, once the Fourier-plane aperture -/
theorem C06_gen_call_is_documented_model {n m : Nat} (u H A : CGrid ℝ n m) : customT u H A = customDocumented u H A := by
  rw [gen_customT_eq]; exact C06_call_is_documented_model u H A

end Odak

/-! ## The propagator OBJECT regenerated from the Python source on this run (work package 13)
  (`OdakModel/Generated/PropagatorObject.lean`, written by `harness/translate/propobject.py`: EVERY attribute the class stores anywhere is a
  field of `Gen.PropagatorAttrs`; `__init__` and its helpers, `get_laser_powers` / `set_laser_powers`, `set_aperture`, `get_kernels`, `__call__`
  and `reconstruct` are step functions over (attributes, heap of tensor objects), translated statement by statement; tied to the hand-written
  object by `Lemmas/GenPropagatorObject*.lean`).  The numerics are uninterpreted (`PropOps`): what the kernels, `custom`, pad and crop compute
  is the subject of the theorems above; these theorems are about WHICH attribute and WHICH object every call reads, writes and hands out.
  They stop compiling when the source keeps a result buffer on `self`, keys the kernel slot differently, stores the kernel with the
  aperture, or gains an attribute. -/
namespace Odak
open Gen
variable {T R : Type} [DecidableEq R]

/-- a constructed object is in the state the call-list theorems start from -/
theorem pRel_of_init (E : PropOps T R) (L : PropLaws E) (a : PropArgs T R) (h : Heap T) (o : PropObj T R) (h' : Heap T)
    (hi : pInit E a h = some (o, h')) (hp : ∀ p, a.laser_channel_power = some p → p < h.size) :
    ∃ dists ap, pInitCall E a h = some (o.toSelf, h', (), pInitLog a) ∧ PRel E o dists h' (o.toSelf, h') ⟨o.channel_power, ap⟩ := by
  obtain ⟨dists, ap, cp, inv, -⟩ := pInit_inv E L a h o h' hi hp
  refine ⟨dists, ap, gen_propagatorInitG_eq E a h o h' hi, o.aperture, cp, ?_, ?_, inv.hc, Nat.le_refl _, fun _ _ _ _ => rfl⟩
  · cases o; rfl
  · have e : o.cfg o.channel_power o.aperture = o := by cases o; rfl
    simp only [e]; exact inv

/-- **every list of calls on a NEWLY CONSTRUCTED propagator** (regenerated `__init__`, then forward calls, reconstructions,
    `set_laser_powers`, `get_laser_powers`, `set_aperture` in any order): every returned value is the value of the reference semantics, which
    has NO kernel cache - it computes each value from the constructor arguments, the laser powers and aperture in force, and the arguments
    of that call alone -/
theorem C06_gen_object_every_call_list (E : PropOps T R) (L : PropLaws E) (a : PropArgs T R) (h : Heap T) (o : PropObj T R) (h' : Heap T)
    (hi : pInit E a h = some (o, h')) (hp : ∀ p, a.laser_channel_power = some p → p < h.size) :
    ∃ dists ap, pInitCall E a h = some (o.toSelf, h', (), pInitLog a) ∧
      ∀ (xs : List (PCall T)) (g' : PRef T) (zs : List (List T)), (∀ x ∈ xs, x.valid o h') →
        runSteps (pRefStep E o dists h') ⟨o.channel_power, ap⟩ xs = some (g', zs) →
        ∃ s' ys, runSteps (pStep E) (o.toSelf, h') xs = some (s', ys) ∧ ys.map PRet.vals = zs := by
  obtain ⟨dists, ap, e, hr⟩ := pRel_of_init E L a h o h' hi hp
  refine ⟨dists, ap, e, fun xs g' zs hv href => ?_⟩
  obtain ⟨s', ys, er, ev, -, -⟩ := propagator_run E L o dists h' xs _ _ g' zs hr hv href
  exact ⟨s', ys, er, ev⟩

/-- in the reference semantics only the two setters change anything: after any call list the configuration is the one the setter calls
    alone lead to -/
theorem pRef_setters_only (E : PropOps T R) (o : PropObj T R) (dists : T) (h0 : Heap T) :
    ∀ (pre : List (PCall T)) (g g1 : PRef T) (zs : List (List T)), runSteps (pRefStep E o dists h0) g pre = some (g1, zs) →
      ∃ zs', runSteps (pRefStep E o dists h0) g (pre.filter PCall.isSetter) = some (g1, zs') := by
  intro pre
  induction pre with
  | nil => intro g g1 zs e; exact ⟨zs, e⟩
  | cons x rest ih =>
    intro g g1 zs e
    simp only [runSteps] at e
    cases hx : pRefStep E o dists h0 g x with
    | none => simp [hx] at e
    | some r =>
      obtain ⟨g2, z⟩ := r
      simp only [hx, Option.bind_some] at e
      cases hrest : runSteps (pRefStep E o dists h0) g2 rest with
      | none => simp [hrest] at e
      | some q =>
        obtain ⟨g3, zs3⟩ := q
        simp only [hrest, Option.map_some, Option.some.injEq, Prod.mk.injEq] at e
        obtain ⟨rfl, rfl⟩ := e
        obtain ⟨zs', e'⟩ := ih g2 g3 zs3 hrest
        cases x with
        | forward u c d =>
          have : g2 = g := by
            simp only [pRefStep] at hx
            cases hk : pKernel E o dists c d <;> simp [hk] at hx
            exact hx.1.symm
          subst this
          exact ⟨zs', by simpa [List.filter, PCall.isSetter] using e'⟩
        | reconstruct ph amp ng gc =>
          have : g2 = g := by
            simp only [pRefStep] at hx
            cases hc : h0.get g.powers <;> simp [hc] at hx
            obtain ⟨_, _, h2⟩ := hx
            exact h2.1.symm
          subst this
          exact ⟨zs', by simpa [List.filter, PCall.isSetter] using e'⟩
        | getPowers =>
          have : g2 = g := by
            simp only [pRefStep] at hx
            cases hc : h0.get g.powers <;> simp [hc] at hx
            obtain ⟨_, _, h2⟩ := hx
            exact h2.1.symm
          subst this
          exact ⟨zs', by simpa [List.filter, PCall.isSetter] using e'⟩
        | getKernels => simp [pRefStep] at hx
        | setPowers p => exact ⟨z :: zs', by simp [List.filter, PCall.isSetter, runSteps, hx, e']⟩
        | setAperture ap size => exact ⟨z :: zs', by simp [List.filter, PCall.isSetter, runSteps, hx, e']⟩

/-- **history independence of the regenerated object**: after ANY list `pre` of earlier calls, the call `x` returns what it returns on an
    object that has only seen the setter calls of `pre` (`set_laser_powers`, `set_aperture` - with none of them: a propagator straight from
    the regenerated `__init__`): the forward calls, reconstructions and getters of the history leave no trace in any later value -/
theorem C06_gen_object_history_independent (E : PropOps T R) (L : PropLaws E) (a : PropArgs T R) (h : Heap T) (o : PropObj T R) (h' : Heap T)
    (hi : pInit E a h = some (o, h')) (hp : ∀ p, a.laser_channel_power = some p → p < h.size)
    (pre : List (PCall T)) (x : PCall T) (hv : ∀ y ∈ pre ++ [x], y.valid o h') :
    ∃ dists ap, ∀ g2 zs, runSteps (pRefStep E o dists h') ⟨o.channel_power, ap⟩ (pre ++ [x]) = some (g2, zs) →
      ∃ sA ysA sB ysB, runSteps (pStep E) (o.toSelf, h') (pre ++ [x]) = some (sA, ysA) ∧
        runSteps (pStep E) (o.toSelf, h') (pre.filter PCall.isSetter ++ [x]) = some (sB, ysB) ∧
        ysA.getLast?.map PRet.vals = ysB.getLast?.map PRet.vals := by
  obtain ⟨dists, ap, -, hr⟩ := pRel_of_init E L a h o h' hi hp
  refine ⟨dists, ap, fun g2 zs href => ?_⟩
  -- the reference run in two parts
  have hsplit := href
  rw [runSteps_append] at hsplit
  cases h1 : runSteps (pRefStep E o dists h') ⟨o.channel_power, ap⟩ pre with
  | none => simp [h1] at hsplit
  | some r1 =>
    obtain ⟨g1, zs1⟩ := r1
    simp only [h1, Option.bind_some] at hsplit
    cases hx : pRefStep E o dists h' g1 x with
    | none => simp [runSteps, hx] at hsplit
    | some rx =>
      obtain ⟨gx, z⟩ := rx
      obtain ⟨zs1', h1'⟩ := pRef_setters_only E o dists h' pre _ g1 zs1 h1
      have hrefB : runSteps (pRefStep E o dists h') ⟨o.channel_power, ap⟩ (pre.filter PCall.isSetter ++ [x]) = some (gx, zs1' ++ [z]) := by
        rw [runSteps_append, h1']; simp [runSteps, hx]
      have hrefA : runSteps (pRefStep E o dists h') ⟨o.channel_power, ap⟩ (pre ++ [x]) = some (gx, zs1 ++ [z]) := by
        rw [runSteps_append, h1]; simp [runSteps, hx]
      have hvB : ∀ y ∈ pre.filter PCall.isSetter ++ [x], y.valid o h' := by
        intro y hy
        rcases List.mem_append.1 hy with hy | hy
        · exact hv y (List.mem_append_left _ (List.mem_filter.1 hy).1)
        · exact hv y (List.mem_append_right _ hy)
      obtain ⟨sA, ysA, eA, vA, -, -⟩ := propagator_run E L o dists h' _ _ _ gx _ hr hv hrefA
      obtain ⟨sB, ysB, eB, vB, -, -⟩ := propagator_run E L o dists h' _ _ _ gx _ hr hvB hrefB
      refine ⟨sA, ysA, sB, ysB, eA, eB, ?_⟩
      rw [← List.getLast?_map, ← List.getLast?_map, vA, vB]
      simp

/-- **the buffer `reconstruct` returns is a new object per call and no later call writes it**: in any call list
    `pre ++ [reconstruct ..] ++ post` the reconstruction hands out an object that did not exist before that call, and after all the calls
    of `post` (forward calls, further reconstructions, setters, getters) that object still holds the value it was returned with -/
theorem C06_gen_reconstruct_buffer_new_and_never_written_later (E : PropOps T R) (L : PropLaws E) (a : PropArgs T R) (h : Heap T)
    (o : PropObj T R) (h' : Heap T) (hi : pInit E a h = some (o, h')) (hp : ∀ p, a.laser_channel_power = some p → p < h.size)
    (pre post : List (PCall T)) (ph : T) (amp : Option T) (ng gc : Bool)
    (hv : ∀ y ∈ pre ++ post, y.valid o h') :
    ∃ dists ap, ∀ g2 zs, runSteps (pRefStep E o dists h') ⟨o.channel_power, ap⟩ (pre ++ ([.reconstruct ph amp ng gc] ++ post)) = some (g2, zs) →
      ∃ s1 ys1 s2 v s3 ys3, runSteps (pStep E) (o.toSelf, h') pre = some (s1, ys1) ∧
        pStep E s1 (.reconstruct ph amp ng gc) = some (s2, ⟨[v], some s1.2.size⟩) ∧ s1.2.get s1.2.size = none ∧
        runSteps (pStep E) s2 post = some (s3, ys3) ∧ s3.2.get s1.2.size = some v := by
  obtain ⟨dists, ap, -, hr⟩ := pRel_of_init E L a h o h' hi hp
  refine ⟨dists, ap, fun g2 zs href => ?_⟩
  rw [runSteps_append] at href
  cases h1 : runSteps (pRefStep E o dists h') ⟨o.channel_power, ap⟩ pre with
  | none => simp [h1] at href
  | some r1 =>
    obtain ⟨g1, zs1⟩ := r1
    simp only [h1, Option.bind_some] at href
    rw [runSteps_append] at href
    cases hx : pRefStep E o dists h' g1 (.reconstruct ph amp ng gc) with
    | none => simp [runSteps, hx] at href
    | some rx =>
      obtain ⟨gx, z⟩ := rx
      cases h3 : runSteps (pRefStep E o dists h') gx post with
      | none => simp [runSteps, hx, h3] at href
      | some r3 =>
        obtain ⟨g3, zs3⟩ := r3
        obtain ⟨s1, ys1, e1, -, r1', -⟩ := propagator_run E L o dists h' pre _ _ g1 zs1 hr (fun y hy => hv y (List.mem_append_left _ hy)) h1
        obtain ⟨s2, v, e2, -, hget, hnone, r2', f2⟩ := propagator_reconstruct_new_buffer E L o dists h' s1 g1 ph amp ng gc r1' z gx hx
        obtain ⟨s3, ys3, e3, -, -, f3⟩ := propagator_run E L o dists h' post s2 gx g3 zs3 r2' (fun y hy => hv y (List.mem_append_right _ hy)) h3
        refine ⟨s1, ys1, s2, v, s3, ys3, e1, e2, hnone, e3, ?_⟩
        obtain ⟨apl, cp, -, inv1, -, hsz1, -⟩ := r1'
        have locs := inv1.locs
        have hlt := Heap.get_eq_some_lt hget
        rw [f3.2 _ hlt (by have := locs.k; show s1.2.size ≠ o.kernels; have e : (o.cfg g1.powers apl).kernels = o.kernels := rfl; omega)
          (by have := locs.g; show s1.2.size ≠ o.generated_kernels; have e : (o.cfg g1.powers apl).generated_kernels = o.generated_kernels := rfl; omega),
          hget]

/-- `get_laser_powers` of a 'conventional' propagator hands out the ATTRIBUTE `channel_power` itself (which is the caller's own tensor when
    one was passed to the constructor or to `set_laser_powers`): the optimiser relies on it; whoever scales the returned tensor in place
    changes what the next `reconstruct` computes.  For 'multi-color' the returned tensor is a new object -/
theorem C06_gen_get_laser_powers_returns_the_attribute_when_conventional (E : PropOps T R) (o : PropObj T R) (h : Heap T) (cp : T)
    (hc : h.get o.channel_power = some cp) :
    (o.method = "conventional" → propagatorGetLaserPowersG E o.toSelf h = some (o.toSelf, h, o.channel_power, [])) ∧
    (o.method = "multi-color" → propagatorGetLaserPowersG E o.toSelf h = some (o.toSelf, (h.alloc (E.abs (E.cos cp))).1, h.size, [])) := by
  rw [gen_propagatorGetLaserPowersG_eq E o h cp hc]
  constructor
  · intro hm; simp [hm]
  · intro hm; simp [hm]

/-- the constructor KEEPS the caller's tensors for the distances and the laser powers (no copy) and never the caller's aperture (it is
    padded into a new object); the two cache buffers are new objects -/
theorem C06_gen_constructor_keeps_distances_and_powers_by_reference (E : PropOps T R) (L : PropLaws E) (a : PropArgs T R) (h : Heap T)
    (o : PropObj T R) (h' : Heap T) (hi : pInit E a h = some (o, h')) (hp : ∀ p, a.laser_channel_power = some p → p < h.size) :
    (∀ d, a.distances = some d → o.distances = d) ∧ (∀ p, a.laser_channel_power = some p → o.channel_power = p) ∧
    h.size ≤ o.aperture ∧ h.size ≤ o.kernels ∧ h.size ≤ o.generated_kernels := by
  obtain ⟨dists, ap, cp, -, -, h1, h2, h3, h4, h5⟩ := pInit_inv E L a h o h' hi hp
  exact ⟨fun d hd => (h4 d hd).1, h5, h3, h2, h1⟩

/-- the regenerated state structure has exactly the reviewed attributes (a `self.x = ...` added anywhere in the class changes it) -/
theorem C06_gen_object_attributes : propagatorFields = propObjFields := gen_propagatorFields_eq

end Odak

/-! ## The regenerated propagator object INSTANTIATED with the grid model (work package 16)
  The theorems of the previous section are abstract over a record `PropOps` of uninterpreted tensor operations and ASSUME the array laws
  `PropLaws`.  Here the record is `propOpsGrid` (`OdakModel/PropagatorObjectInst.lean`): every operation is a definition of the grid model -
  the regenerated pad / crop index maps, the regenerated `custom` pipeline, the regenerated kernel dispatch and kernels, the regenerated
  `generate_complex_field` / `calculate_amplitude` - on tensors `Ten ℝ` of any rank.  The laws are PROVED for it, so the call-list theorem of
  the regenerated object and the documented-model theorem of the first section become ONE statement with no uninterpreted operation and no
  assumed law: every forward call, after any history, returns `crop(ifft(fft(pad u) · H(λ_c, z_d) · A))`.  The same record at `Float` is run
  against the real `odak.learn.wave.propagator` on every check (`gpi_seq`, `harness/props/genobjects_inst.py`). -/
namespace Odak
open Gen CGrid

/-- **the array laws the object theorems assume hold in the grid model** (reading a slot after a store - for every buffer, index path and
    stored value -, the truth value of a stored flag, a new flag buffer is all false): no assumption is left -/
theorem C06_gen_object_laws_hold_in_the_grid_model : PropLaws (propOpsGrid : PropOps (Ten ℝ) ℝ) := propLaws_propOpsGrid

/-- **the documented model, for every call list on the REGENERATED object**.  A propagator is built by the regenerated `__init__`
    (resolution `[h, w]`, any wavelengths, distances, laser powers, aperture; a propagation type whose regenerated kernel at the padded size
    is `kern λ z`).  After ANY list `pre` of calls - forward calls on any channels and planes in any order, reconstructions, `set_laser_powers`,
    `get_laser_powers`, `set_aperture` - a forward call on an `[h, w]` field `u` with channel `c` and plane `d` returns

        crop_center( ifft2( ifftshift( (H · A) · fftshift( fft2( zero_pad(u) ) ) ) ) )

    with `H = objKernelGrid ..`: the regenerated kernel of the wavelength of channel `c` and of the distance element `d` of the distances
    tensor (for 'back and forth' the product of the kernels of the zero-mode distance and of the way back), WITHOUT the aperture, and `A` the
    aperture in force: the constructor's, changed only by the `set_aperture` calls of `pre` (`apGridStep`).  Nothing the earlier calls cached
    enters: the kernel buffer of the object is read on a hit, and the slot holds exactly this kernel.
    Domain: `5 ≤ w` (torch `zero_pad` reads a 2-D field narrower than 5 as channels-last, `Layout.Accepts` of C08: a propagator with such a
    resolution raises on every call), `resolution_factor = 1` (the regenerated kernel dispatch is the one for scale 1), non-negative channel
    and plane ids in range (Python's negative ids are not modelled), no `get_kernels` in the list (an observer of the cache) -/
theorem C06_gen_object_documented_model_every_call_list (a : PropArgs (Ten ℝ) ℝ) (hp0 : Heap (Ten ℝ)) (o : PropObj (Ten ℝ) ℝ) (h' : Heap (Ten ℝ))
    (hi : pInit propOpsGrid a hp0 = some (o, h')) (hp : ∀ p, a.laser_channel_power = some p → p < hp0.size)
    {h w : Nat} (hres : a.resolution = [(h : Int), (w : Int)]) (hw5 : 5 ≤ w) (hrf : a.rf = 1)
    (hty : a.propagator_type = "forward" ∨ a.propagator_type = "back and forth")
    (hme : a.method = "conventional" ∨ a.method = "multi-color")
    (kern : ℝ → ℝ → CGrid ℝ (2 * h) (2 * w))
    (hk : ∀ lam z, propagationKernelT a.propagation_type (2 * h) (2 * w) a.pixel_pitch lam z (a.aperture_samples.getD 0 0).toNat
      (a.aperture_samples.getD 1 0).toNat (a.aperture_samples.getD 2 0).toNat (a.aperture_samples.getD 3 0).toNat = some (kern lam z)) :
    ∃ dists ap, pInitCall propOpsGrid a hp0 = some (o.toSelf, h', (), pInitLog a) ∧
      h'.get o.distances = some dists ∧ h'.get o.aperture = some ap ∧
      ∀ (pre : List (PCall (Ten ℝ))) (u : Ten ℝ) (c d : Nat), (∀ x ∈ pre, x.good o h' ∧ x.apShape h w) → u.shape = [h, w] →
        c < a.wavelengths.length → (d : Int) < o.number_of_depth_layers →
        ∃ s1 ys s2 y, runSteps (pStep propOpsGrid) (o.toSelf, h') pre = some (s1, ys) ∧
          pStep propOpsGrid s1 (.forward u (c : Int) (d : Int)) = some (s2, y) ∧
          runSteps (pStep propOpsGrid) (o.toSelf, h') (pre ++ [.forward u (c : Int) (d : Int)]) = some (s2, ys ++ [y]) ∧
          y.vals = [Ten.ofGrid (cropGrid (customDocumented (padGrid (Ten.toGrid h w u)) (objKernelGrid o kern dists c d)
            (pre.foldl apGridStep (Ten.toGrid (2 * h) (2 * w) ap))))] := by
  obtain ⟨e1, -, e3, e4, -, -, e7, -, -, -, e11, -⟩ := pInit_fields propOpsGrid a hp0 o h' hi
  have hk' : ∀ lam z, propagationKernelT o.propagation_type (2 * h) (2 * w) o.pixel_pitch lam z (o.samp 0) (o.samp 1) (o.samp 2) (o.samp 3) = some (kern lam z) := by
    intro lam z
    simp only [PropObj.samp, e3, e4, e7]
    exact hk lam z
  obtain ⟨dists, ap, cp, hd, ha, -, hall⟩ := propagator_grid_forward_after a hp0 o h' hi hp hres hty hme kern hk'
  refine ⟨dists, ap, gen_propagatorInitG_eq propOpsGrid a hp0 o h' hi, hd, ha, fun pre u c d hpre hu hc _ => ?_⟩
  obtain ⟨s1, ys, s2, y, r1, r2, r3, r4⟩ := hall pre u c d (fun x hx => (hpre x hx).1) hu hc
  refine ⟨s1, ys, s2, y, r1, r2, r3, ?_⟩
  rw [r4, gen_customT_eq, C06_call_is_documented_model,
    toGrid_pRefAp o (by rw [e1]; exact hres) (by rw [e11]; exact hrf) pre ap (fun x hx => (hpre x hx).2)]

/-- the same statement read as "call `k` of every call list": every list of good calls on the constructed propagator runs (no call raises),
    and whenever call number `k` is a forward call on an `[h, w]` field, its value is the documented model with the kernel of (channel, plane)
    and the aperture the `set_aperture` calls among the FIRST `k` calls left - whatever the other calls before and after it are -/
theorem C06_gen_object_documented_model_call_k (a : PropArgs (Ten ℝ) ℝ) (hp0 : Heap (Ten ℝ)) (o : PropObj (Ten ℝ) ℝ) (h' : Heap (Ten ℝ))
    (hi : pInit propOpsGrid a hp0 = some (o, h')) (hp : ∀ p, a.laser_channel_power = some p → p < hp0.size)
    {h w : Nat} (hres : a.resolution = [(h : Int), (w : Int)]) (hw5 : 5 ≤ w) (hrf : a.rf = 1)
    (hty : a.propagator_type = "forward" ∨ a.propagator_type = "back and forth")
    (hme : a.method = "conventional" ∨ a.method = "multi-color")
    (kern : ℝ → ℝ → CGrid ℝ (2 * h) (2 * w))
    (hk : ∀ lam z, propagationKernelT a.propagation_type (2 * h) (2 * w) a.pixel_pitch lam z (a.aperture_samples.getD 0 0).toNat
      (a.aperture_samples.getD 1 0).toNat (a.aperture_samples.getD 2 0).toNat (a.aperture_samples.getD 3 0).toNat = some (kern lam z)) :
    ∃ dists ap, h'.get o.distances = some dists ∧ h'.get o.aperture = some ap ∧
      ∀ (xs : List (PCall (Ten ℝ))), (∀ x ∈ xs, x.good o h' ∧ x.apShape h w) →
        ∃ s ys, runSteps (pStep propOpsGrid) (o.toSelf, h') xs = some (s, ys) ∧
          ∀ (k : Nat) (u : Ten ℝ) (c d : Nat), xs[k]? = some (.forward u (c : Int) (d : Int)) → u.shape = [h, w] → c < a.wavelengths.length →
            (d : Int) < o.number_of_depth_layers →
            ∃ y, ys[k]? = some y ∧ y.vals = [Ten.ofGrid (cropGrid (customDocumented (padGrid (Ten.toGrid h w u)) (objKernelGrid o kern dists c d)
              ((xs.take k).foldl apGridStep (Ten.toGrid (2 * h) (2 * w) ap))))] := by
  obtain ⟨e1, -, e3, e4, -, -, e7, -, -, -, e11, -⟩ := pInit_fields propOpsGrid a hp0 o h' hi
  have hk' : ∀ lam z, propagationKernelT o.propagation_type (2 * h) (2 * w) o.pixel_pitch lam z (o.samp 0) (o.samp 1) (o.samp 2) (o.samp 3) = some (kern lam z) := by
    intro lam z
    simp only [PropObj.samp, e3, e4, e7]
    exact hk lam z
  obtain ⟨dists, ap, hd, ha, hall⟩ := propagator_grid_call_k a hp0 o h' hi hp hres hty hme kern hk'
  refine ⟨dists, ap, hd, ha, fun xs hxs => ?_⟩
  obtain ⟨s, ys, erun, hvals⟩ := hall xs (fun x hx => (hxs x hx).1)
  refine ⟨s, ys, erun, fun k u c d hx hu hc _ => ?_⟩
  obtain ⟨y, ey, ev⟩ := hvals k u c d hx hu hc
  refine ⟨y, ey, ?_⟩
  rw [ev, gen_customT_eq, C06_call_is_documented_model,
    toGrid_pRefAp o (by rw [e1]; exact hres) (by rw [e11]; exact hrf) (xs.take k) ap (fun x hx => (hxs x (List.mem_of_mem_take hx)).2)]

/-- **the same for every reconstruction**: after ANY list `pre` of calls, `reconstruct(phases, amplitude, no_grad, get_complex)` returns a buffer
    `V` whose slot `[frame f, plane d, channel c]` is - for every `f`, `d`, `c` in range -

        crop_center( ifft2( ifftshift( (H(λ_c, z_d) · A) · fftshift( fft2( zero_pad( hologram f c ) ) ) ) ) )        (`get_complex`)

    or its squared modulus, with `hologram f c = generate_complex_field(power[f][c] · amplitude[c], phases[f])` (`holoGrid`; `power` = the laser
    powers IN FORCE: the tensor the last `set_laser_powers` of `pre` passed, else the constructor's - `cos`-mapped for 'multi-color'), the
    amplitude given or all ones, and `A` the aperture in force.  Side conditions are the shapes the source needs in order not to raise: the
    powers tensor is 2-d, amplitude planes and phase frames are `[h, w]`, at most three channels (`phase_scale` has three entries) -/
theorem C06_gen_object_reconstruct_documented_model_every_call_list (a : PropArgs (Ten ℝ) ℝ) (hp0 : Heap (Ten ℝ)) (o : PropObj (Ten ℝ) ℝ)
    (h' : Heap (Ten ℝ)) (hi : pInit propOpsGrid a hp0 = some (o, h')) (hp : ∀ p, a.laser_channel_power = some p → p < hp0.size)
    {h w : Nat} (hres : a.resolution = [(h : Int), (w : Int)]) (hw5 : 5 ≤ w) (hrf : a.rf = 1)
    (hty : a.propagator_type = "forward" ∨ a.propagator_type = "back and forth")
    (hme : a.method = "conventional" ∨ a.method = "multi-color")
    (kern : ℝ → ℝ → CGrid ℝ (2 * h) (2 * w))
    (hk : ∀ lam z, propagationKernelT a.propagation_type (2 * h) (2 * w) a.pixel_pitch lam z (a.aperture_samples.getD 0 0).toNat
      (a.aperture_samples.getD 1 0).toNat (a.aperture_samples.getD 2 0).toNat (a.aperture_samples.getD 3 0).toNat = some (kern lam z)) :
    ∃ dists ap, h'.get o.distances = some dists ∧ h'.get o.aperture = some ap ∧
      ∀ (pre : List (PCall (Ten ℝ))) (ph : Ten ℝ) (amp : Option (Ten ℝ)) (ng gc : Bool), (∀ x ∈ pre, x.good o h' ∧ x.apShape h w) →
        ∃ s1 ys s2 y V cpv lp, runSteps (pStep propOpsGrid) (o.toSelf, h') pre = some (s1, ys) ∧
          pStep propOpsGrid s1 (.reconstruct ph amp ng gc) = some (s2, y) ∧ y.vals = [V] ∧
          h'.get (pRefPw o.channel_power pre) = some cpv ∧ pPowers propOpsGrid o cpv = some lp ∧
          ∀ f d c : Nat, f < o.number_of_frames.toNat → d < o.number_of_depth_layers.toNat → c < a.wavelengths.length → c < 3 →
            cpv.sh [(f : Int), (c : Int)] = [] →
            (Ten.prepareReconstruct amp (reconPhases ph) o.number_of_channels o.resolution o.resolution_factor).1.sh [(c : Int)] = [h, w] →
            (Ten.prepareReconstruct amp (reconPhases ph) o.number_of_channels o.resolution o.resolution_factor).2.sh [(f : Int)] = [h, w] →
            V.getIdx [(f : Int), (d : Int), (c : Int)] = slotValue gc (Ten.ofGrid (cropGrid (customDocumented
              (padGrid (holoGrid h w lp (Ten.prepareReconstruct amp (reconPhases ph) o.number_of_channels o.resolution o.resolution_factor).1
                (Ten.prepareReconstruct amp (reconPhases ph) o.number_of_channels o.resolution o.resolution_factor).2 f c))
              (objKernelGrid o kern dists c d) (pre.foldl apGridStep (Ten.toGrid (2 * h) (2 * w) ap))))) := by
  obtain ⟨e1, -, e3, e4, -, -, e7, -, -, -, e11, -⟩ := pInit_fields propOpsGrid a hp0 o h' hi
  have hk' : ∀ lam z, propagationKernelT o.propagation_type (2 * h) (2 * w) o.pixel_pitch lam z (o.samp 0) (o.samp 1) (o.samp 2) (o.samp 3) = some (kern lam z) := by
    intro lam z
    simp only [PropObj.samp, e3, e4, e7]
    exact hk lam z
  obtain ⟨dists, ap, hd, ha, hall⟩ := propagator_grid_reconstruct_after a hp0 o h' hi hp hres hty hme kern hk'
  refine ⟨dists, ap, hd, ha, fun pre ph amp ng gc hpre => ?_⟩
  obtain ⟨s1, ys, s2, y, V, cpv, lp, r1, r2, r3, -, r5, r6, r7⟩ := hall pre ph amp ng gc (fun x hx => (hpre x hx).1)
  refine ⟨s1, ys, s2, y, V, cpv, lp, r1, r2, r3, r5, r6, fun f d c hf hdl hc hc3 h1 h2 h3 => ?_⟩
  rw [r7 f d c hf hdl hc hc3 h1 h2 h3, gen_customT_eq, C06_call_is_documented_model,
    toGrid_pRefAp o (by rw [e1]; exact hres) (by rw [e11]; exact hrf) pre ap (fun x hx => (hpre x hx).2)]

/-- without `get_complex` the slot holds the intensity `|field|²`, element by element -/
theorem C06_gen_object_reconstruct_intensity (R : Ten ℝ) (r : List Int) : (slotValue false R).el r = ⟨Cx.normSq (R.el r), 0⟩ :=
  slotValue_intensity_el R r

/-- what `dists` and `ap` of the previous theorem are: the distances are the CALLER'S tensor when one is passed to the constructor and
    `linspace(-volume_depth / 2, volume_depth / 2, n) + image_location_offset` otherwise; the aperture grid is the caller's `[h, w]` aperture
    zero-padded, or the circular mask of the padded size whose radius is `aperture_size` or the longer side -/
theorem C06_gen_object_distances_and_aperture (a : PropArgs (Ten ℝ) ℝ) (hp0 : Heap (Ten ℝ)) (o : PropObj (Ten ℝ) ℝ) (h' : Heap (Ten ℝ))
    (hi : pInit propOpsGrid a hp0 = some (o, h')) (hp : ∀ p, a.laser_channel_power = some p → p < hp0.size)
    {h w : Nat} (hres : a.resolution = [(h : Int), (w : Int)]) (hrf : a.rf = 1)
    (dists ap : Ten ℝ) (hd : h'.get o.distances = some dists) (ha : h'.get o.aperture = some ap) :
    (∀ l, a.distances = some l → hp0.get l = some dists) ∧
    (a.distances = none → ∀ d : Nat, (dists.el [(d : Int)]).re =
      linspace (-a.volume_depth / 2) (a.volume_depth / 2) a.number_of_depth_layers.toNat d + a.image_location_offset) ∧
    (∀ l v, a.aperture = some l → hp0.get l = some v → v.shape = [h, w] → Ten.toGrid (2 * h) (2 * w) ap = padGrid (Ten.toGrid h w v)) ∧
    (a.aperture = none → Ten.toGrid (2 * h) (2 * w) ap = Ten.circMaskGrid (2 * h) (2 * w)
      (match a.aperture_size with | some s => s.val.re | none => if (h : ℝ) < (w : ℝ) then (w : ℝ) else (h : ℝ))) := by
  obtain ⟨d1, d2⟩ := pInit_distances propOpsGrid propLaws_propOpsGrid a hp0 o h' hi hp dists hd
  obtain ⟨a1, a2⟩ := pInit_aperture propOpsGrid a hp0 o h' hi ap ha
  refine ⟨d1, fun hn d => ?_, fun l v hl hv hs => ?_, fun hn => ?_⟩
  · rw [d2 hn]
    exact defaultDistances_el _ _ _ d
  · obtain ⟨X, eX, eg⟩ := apertureValue_given (h := h) (w := w) a.rf v hs a.aperture_size
    have := a2 l v hl hv
    rw [hres, eX] at this
    injection this with this
    rw [← this, eg]
  · obtain ⟨X, eX, eg⟩ := apertureValue_default (h := h) (w := w) a.aperture_size
    have := a1 hn
    rw [hres, hrf, eX] at this
    injection this with this
    rw [← this]
    exact eg.trans (by cases a.aperture_size <;> rfl)

/-- **back and forth = one propagation by the net distance**, on the regenerated object: with the unit-modulus, distance-additive kernels
    ('Angular Spectrum', 'Transfer Function Fresnel') the kernel a 'back and forth' propagator multiplies with for (channel, plane) is the
    kernel of the single distance `z_d - image_location_offset` - the zero-mode distance drops out -/
theorem C06_gen_object_back_and_forth_net {h w : Nat} (o : PropObj (Ten ℝ) ℝ) (hb : o.propagator_type = "back and forth") (dists : Ten ℝ) (c d : Nat) :
    objKernelGrid (h := h) (w := w) o (fun lam z => asKernel (2 * h) (2 * w) o.pixel_pitch lam z) dists c d =
      asKernel (2 * h) (2 * w) o.pixel_pitch (o.wavelengths.getD c 0) ((dists.el [(d : Int)]).re - o.image_location_offset) ∧
    objKernelGrid (h := h) (w := w) o (fun lam z => tfKernel (2 * h) (2 * w) o.pixel_pitch lam (wavenumber lam) z) dists c d =
      tfKernel (2 * h) (2 * w) o.pixel_pitch (o.wavelengths.getD c 0) (wavenumber (o.wavelengths.getD c 0))
        ((dists.el [(d : Int)]).re - o.image_location_offset) := by
  have hf : ¬ o.propagator_type = "forward" := by rw [hb]; decide
  constructor
  · simp only [objKernelGrid, hf, if_false]
    apply Grid.ext_get; intro i j
    rw [CGrid.get_mul, as_add, show o.zero_mode_distance.val.re + -(o.zero_mode_distance.val.re + o.image_location_offset - (dists.el [(d : Int)]).re)
      = (dists.el [(d : Int)]).re - o.image_location_offset by ring]
  · simp only [objKernelGrid, hf, if_false]
    apply Grid.ext_get; intro i j
    rw [CGrid.get_mul, tf_add, show o.zero_mode_distance.val.re + -(o.zero_mode_distance.val.re + o.image_location_offset - (dists.el [(d : Int)]).re)
      = (dists.el [(d : Int)]).re - o.image_location_offset by ring]

/-- the kernels the previous theorems need: the regenerated dispatch `get_propagation_kernel` gives the model kernels for the three
    transfer-function methods, at every size (so `hk` of `C06_gen_object_documented_model_every_call_list` holds for them) -/
theorem C06_gen_object_kernels_of_the_dispatch (n m : Nat) (dx lam z : ℝ) (s0 s1 s2 s3 : Nat) :
    propagationKernelT "Angular Spectrum" n m dx lam z s0 s1 s2 s3 = some (asKernel n m dx lam z) ∧
    propagationKernelT "Bandlimited Angular Spectrum" n m dx lam z s0 s1 s2 s3 = some (blKernel n m dx lam z) ∧
    propagationKernelT "Transfer Function Fresnel" n m dx lam z s0 s1 s2 s3 = some (tfKernel n m dx lam (wavenumber lam) z) := by
  simp only [gen_propagationKernelT_eq, torchKernel]
  refine ⟨by simp, by simp, by simp⟩

/-- non-vacuity: a 'back and forth' angular-spectrum propagator of resolution `[1, 5]` with one wavelength, two default planes and the
    default aperture IS built by `pInit` with the grid-model operations, with `resolution_factor = 1`; its kernels are the ones
    `C06_gen_object_kernels_of_the_dispatch` lists, so every hypothesis of the call-list theorems above is satisfiable -/
noncomputable def exPropArgs : PropArgs (Ten ℝ) ℝ :=
  { resolution := [1, 5], wavelengths := [1], pixel_pitch := 1, resolution_factor := 1, number_of_frames := 1, number_of_depth_layers := 2,
    volume_depth := 1, image_location_offset := 0, propagation_type := "Angular Spectrum", propagator_type := "back and forth",
    back_and_forth_distance := 1, laser_channel_power := none, aperture := none, aperture_size := none, distances := none,
    aperture_samples := [2, 2, 2, 2], method := "conventional" }

example : (pInit (propOpsGrid : PropOps (Ten ℝ) ℝ) exPropArgs Heap.empty).isSome = true ∧ exPropArgs.rf = 1 ∧
    exPropArgs.resolution = [((1 : Nat) : Int), ((5 : Nat) : Int)] ∧
    (∀ lam z, propagationKernelT exPropArgs.propagation_type (2 * 1) (2 * 5) exPropArgs.pixel_pitch lam z 2 2 2 2 = some (asKernel (2 * 1) (2 * 5) 1 lam z)) := by
  refine ⟨?_, ?_, rfl, fun lam z => (C06_gen_object_kernels_of_the_dispatch _ _ _ lam z 2 2 2 2).1⟩
  · simp [pInit, exPropArgs, pInitDistances, pInitPowers, Heap.getOpt, pApertureValue, PropArgs.rf]
  · simp [PropArgs.rf, exPropArgs]

end Odak
