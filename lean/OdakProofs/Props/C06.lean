import OdakProofs.Lemmas.Kernels
import OdakProofs.Lemmas.PropagateLemmas
import OdakModel.Propagator
import OdakProofs.Lemmas.GenPropagator

/-! # C06 – the propagator forward model is history-independent and matches its documented model -/
namespace Odak
open CGrid

variable {n m : Nat}

/-- cache invariant: every stored kernel is the kernel a fresh object would build for that key -/
def CacheInv (kf : Nat → Nat → CGrid ℝ n m) (s : PState ℝ n m) : Prop :=
  ∀ d c H, s.cache.lookup (d, c) = some H → H = kf d c

theorem cacheInv_init (kf : Nat → Nat → CGrid ℝ n m) : CacheInv kf (PState.init : PState ℝ n m) := by
  intro d c H h; simp [PState.init] at h

/-- one call preserves the invariant and returns what a fresh propagator returns -/
theorem callStep_spec (kf : Nat → Nat → CGrid ℝ n m) (A : CGrid ℝ n m) (s : PState ℝ n m) (hs : CacheInv kf s)
    (d c : Nat) (u : CGrid ℝ n m) :
    CacheInv kf (callStep kf A s d c u).1 ∧ (callStep kf A s d c u).2 = freshCall kf A d c u := by
  unfold callStep freshCall
  cases hl : s.cache.lookup (d, c) with
  | some H =>
    simp only
    exact ⟨hs, by rw [hs d c H hl]⟩
  | none =>
    simp only
    refine ⟨?_, trivial⟩
    intro d' c' H' h'
    simp only [List.lookup_cons] at h'
    by_cases hk : ((d', c') == (d, c)) = true
    · rw [hk] at h'
      have e : (d', c') = (d, c) := by simpa using hk
      injection e with e1 e2
      subst e1 e2
      injection h' with h'
      exact h'.symm
    · have hk' : ((d', c') == (d, c)) = false := by simpa using hk
      rw [hk'] at h'
      exact hs d' c' H' h'

/-- **history independence**: for ANY sequence of forward calls over (depth, channel, field), in any
    order and of any length, the i-th result equals what a freshly built propagator returns for the
    same arguments (induction over the call list; the invariant is carried along) -/
theorem C06_history_independent (kf : Nat → Nat → CGrid ℝ n m) (A : CGrid ℝ n m)
    (ops : List (Nat × Nat × CGrid ℝ n m)) (s : PState ℝ n m) (hs : CacheInv kf s) :
    (runCalls kf A s ops).2 = ops.map (fun o => freshCall kf A o.1 o.2.1 o.2.2) ∧
    CacheInv kf (runCalls kf A s ops).1 := by
  induction ops generalizing s with
  | nil => exact ⟨rfl, hs⟩
  | cons o rest ih =>
    obtain ⟨d, c, u⟩ := o
    obtain ⟨h1, h2⟩ := callStep_spec kf A s hs d c u
    obtain ⟨i1, i2⟩ := ih (callStep kf A s d c u).1 h1
    simp only [runCalls, List.map_cons]
    exact ⟨by rw [i1, h2], i2⟩

/-- from a new object (empty cache) in particular -/
theorem C06_history_independent_from_init (kf : Nat → Nat → CGrid ℝ n m) (A : CGrid ℝ n m)
    (ops : List (Nat × Nat × CGrid ℝ n m)) :
    (runCalls kf A PState.init ops).2 = ops.map (fun o => freshCall kf A o.1 o.2.1 o.2.2) :=
  (C06_history_independent kf A ops PState.init (cacheInv_init kf)).1

/-- `reconstruct` is the frames × depths × channels loop over `__call__`: each of its results is the
    fresh result too (it is a particular call list) -/
theorem C06_reconstruct_history_independent (kf : Nat → Nat → CGrid ℝ n m) (A : CGrid ℝ n m)
    (frames depths channels : Nat) (field : Nat → Nat → CGrid ℝ n m) (s : PState ℝ n m) (hs : CacheInv kf s) :
    (runCalls kf A s (reconstructOps frames depths channels field)).2
      = (reconstructOps frames depths channels field).map (fun o => freshCall kf A o.1 o.2.1 o.2.2) :=
  (C06_history_independent kf A _ s hs).1

/-- the documented model: multiply once by the kernel and once by the Fourier-plane aperture
    (any aperture, binary or not) -/
theorem C06_call_is_documented_model (u H A : CGrid ℝ n m) : custom u H A = customDocumented u H A := by
  have key : mul H (mul (fftshift (fft2 u)) A) = mul (mul H A) (fftshift (fft2 u)) := by
    apply toCG_injective
    simp only [toCG_mul]
    ring
  unfold custom customDocumented
  rw [key]

/-- with unit-modulus, distance-additive kernels (angular spectrum, Fresnel transfer function) a
    'back and forth' propagator equals one 'forward' propagation by the net distance `distance - offset` -/
theorem C06_back_and_forth_net (dx z0 offset : ℝ) (lams dists : List ℝ) (d c : Nat) :
    kernelFor n m ⟨true, .as, dx, lams, dists, offset, z0⟩ d c
      = asKernel n m dx (lams.getD c 0) (dists.getD d 0 - offset) ∧
    kernelFor n m ⟨true, .tf, dx, lams, dists, offset, z0⟩ d c
      = tfKernel n m dx (lams.getD c 0) (wavenumber (lams.getD c 0)) (dists.getD d 0 - offset) := by
  constructor
  · simp only [kernelFor, methodKernel, if_true]
    apply Grid.ext_get; intro i j
    rw [CGrid.get_mul, as_add, show z0 + -(z0 + offset - dists.getD d 0) = dists.getD d 0 - offset by ring]
  · simp only [kernelFor, methodKernel, if_true]
    apply Grid.ext_get; intro i j
    rw [CGrid.get_mul, tf_add, show z0 + -(z0 + offset - dists.getD d 0) = dists.getD d 0 - offset by ring]

/-- non-vacuity: the invariant holds for a non-empty cache reached by a real call -/
example (kf : Nat → Nat → CGrid ℝ 2 2) (A u : CGrid ℝ 2 2) :
    CacheInv kf (callStep kf A PState.init 1 0 u).1 ∧ ((callStep kf A PState.init 1 0 u).1.generated 1 0 = true) := by
  refine ⟨(callStep_spec kf A PState.init (cacheInv_init kf) 1 0 u).1, ?_⟩
  simp [callStep, PState.init, PState.generated]

end Odak

/-! ## The same statements for `propagator.__call__` / `reconstruct` REGENERATED from the Python source on this run
  (`Gen.propagatorCallT`, `Gen.reconstructCallsT` of `OdakModel/Generated/Pipelines.lean`; tied to the hand model's `callStep`
  by `gen_propagatorCallT_eq`).  They stop compiling when the cache key, the stored expression (e.g. kernel times aperture), the
  kernel built for a propagator type, or the pad -> custom -> crop sequence of the source changes. -/
namespace Odak
open CGrid Gen

variable {h w : Nat}

/-- a sequence of calls `(depth, channel, field)` of the regenerated step function, collecting the outputs -/
def runCallsT {α : Type} [Num α] (self_ : PropagatorSelf α h w) :
    PState α (2 * h) (2 * w) → List (Nat × Nat × CGrid α h w) → Option (PState α (2 * h) (2 * w) × List (CGrid α h w))
  | s, [] => some (s, [])
  | s, (d, c, u) :: rest =>
    (propagatorCallT self_ s u c d).bind fun r => (runCallsT self_ r.1 rest).map fun q => (q.1, r.2 :: q.2)

/-- **history independence of the regenerated `__call__`**: for ANY sequence of calls over (depth, channel, field), the source
    never raises and the i-th result is what a freshly built propagator returns for the same arguments:
    `crop_center(custom(zero_pad(u), kernel(depth, channel), aperture))`; the cache invariant is preserved -/
theorem C06_gen_history_independent (cfg : PropCfg ℝ) (A : CGrid ℝ (2 * h) (2 * w)) (s0 s1 s2 s3 : Nat)
    (ops : List (Nat × Nat × CGrid ℝ h w)) (s : PState ℝ (2 * h) (2 * w)) (hs : CacheInv (kernelFor (2 * h) (2 * w) cfg) s) :
    ∃ s', runCallsT (cfg.toSelf A s0 s1 s2 s3) s ops
        = some (s', ops.map fun o => cropGrid (freshCall (kernelFor (2 * h) (2 * w) cfg) A o.1 o.2.1 (padGrid o.2.2))) ∧
      CacheInv (kernelFor (2 * h) (2 * w) cfg) s' := by
  induction ops generalizing s with
  | nil => exact ⟨s, rfl, hs⟩
  | cons o rest ih =>
    obtain ⟨d, c, u⟩ := o
    obtain ⟨h1, h2⟩ := callStep_spec (kernelFor (2 * h) (2 * w) cfg) A s hs d c (padGrid u)
    obtain ⟨s', e, hs'⟩ := ih _ h1
    refine ⟨s', ?_, hs'⟩
    simp only [runCallsT, gen_propagatorCallT_eq, Option.bind_some, callStepPC, e, Option.map_some, List.map_cons, h2]

/-- from a new object (empty cache): the first call stores the kernel the source builds for (depth, channel) WITHOUT the aperture,
    under the key (depth, channel) -/
theorem C06_gen_first_call_caches_kernel_without_aperture (cfg : PropCfg ℝ) (A : CGrid ℝ (2 * h) (2 * w)) (s0 s1 s2 s3 : Nat)
    (d c : Nat) (u : CGrid ℝ h w) :
    (propagatorCallT (cfg.toSelf A s0 s1 s2 s3) PState.init u c d).map (fun r => r.1.cache)
      = some [((d, c), kernelFor (2 * h) (2 * w) cfg d c)] := by
  simp [gen_propagatorCallT_eq, callStepPC, callStep, PState.init]

/-- `reconstruct` makes the calls the hand model lists (frames > depths > channels; the field depends on frame and channel), so
    each of its results is the fresh result too -/
theorem C06_gen_reconstruct_history_independent (cfg : PropCfg ℝ) (A : CGrid ℝ (2 * h) (2 * w)) (s0 s1 s2 s3 : Nat)
    (frames depths channels : Nat) (field : Nat → Nat → CGrid ℝ h w) (s : PState ℝ (2 * h) (2 * w))
    (hs : CacheInv (kernelFor (2 * h) (2 * w) cfg) s) :
    reconstructCallsT frames depths channels field = reconstructOps frames depths channels field ∧
    ∃ s', runCallsT (cfg.toSelf A s0 s1 s2 s3) s (reconstructCallsT frames depths channels field)
        = some (s', (reconstructCallsT frames depths channels field).map
            fun o => cropGrid (freshCall (kernelFor (2 * h) (2 * w) cfg) A o.1 o.2.1 (padGrid o.2.2))) :=
  ⟨rfl, (C06_gen_history_independent cfg A s0 s1 s2 s3 _ s hs).imp fun _ hh => hh.1⟩

/-- the regenerated `custom` is the documented model: once the kernel, once the Fourier-plane aperture -/
theorem C06_gen_call_is_documented_model {n m : Nat} (u H A : CGrid ℝ n m) : customT u H A = customDocumented u H A := by
  rw [gen_customT_eq]; exact C06_call_is_documented_model u H A

end Odak
