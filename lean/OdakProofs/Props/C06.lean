import OdakProofs.Lemmas.Kernels
import OdakProofs.Lemmas.PropagateLemmas
import OdakModel.Propagator

/-! # C06 – the propagator forward model is history-independent and matches its documented model -/
namespace Odak
open CGrid

variable {n m : Nat}

/-- cache invariant: every stored kernel is the kernel a fresh object would build for that key -/
def CacheInv (kf : Nat → Nat → CGrid ℝ n m) (s : PState ℝ n m) : Prop :=
  ∀ d c H, s.cache.lookup (d, c) = some H → H = kf d c

theorem cacheInv_init (kf : Nat → Nat → CGrid ℝ n m) : CacheInv kf (PState.init : PState ℝ n m) := by
  intro d c H h; simp [PState.init] at h

/-- one call preserves the invariant and returns what a fresh propagator returns -/
theorem callStep_spec (kf : Nat → Nat → CGrid ℝ n m) (A : CGrid ℝ n m) (s : PState ℝ n m) (hs : CacheInv kf s)
    (d c : Nat) (u : CGrid ℝ n m) :
    CacheInv kf (callStep kf A s d c u).1 ∧ (callStep kf A s d c u).2 = freshCall kf A d c u := by
  unfold callStep freshCall
  cases hl : s.cache.lookup (d, c) with
  | some H =>
    simp only
    exact ⟨hs, by rw [hs d c H hl]⟩
  | none =>
    simp only
    refine ⟨?_, trivial⟩
    intro d' c' H' h'
    simp only [List.lookup_cons] at h'
    by_cases hk : ((d', c') == (d, c)) = true
    · rw [hk] at h'
      have e : (d', c') = (d, c) := by simpa using hk
      injection e with e1 e2
      subst e1 e2
      injection h' with h'
      exact h'.symm
    · have hk' : ((d', c') == (d, c)) = false := by simpa using hk
      rw [hk'] at h'
      exact hs d' c' H' h'

/-- **history independence**: for ANY sequence of forward calls over (depth, channel, field), in any
    order and of any length, the i-th result equals what a freshly built propagator returns for the
    same arguments (induction over the call list; the invariant is carried along) -/
theorem C06_history_independent (kf : Nat → Nat → CGrid ℝ n m) (A : CGrid ℝ n m)
    (ops : List (Nat × Nat × CGrid ℝ n m)) (s : PState ℝ n m) (hs : CacheInv kf s) :
    (runCalls kf A s ops).2 = ops.map (fun o => freshCall kf A o.1 o.2.1 o.2.2) ∧
    CacheInv kf (runCalls kf A s ops).1 := by
  induction ops generalizing s with
  | nil => exact ⟨rfl, hs⟩
  | cons o rest ih =>
    obtain ⟨d, c, u⟩ := o
    obtain ⟨h1, h2⟩ := callStep_spec kf A s hs d c u
    obtain ⟨i1, i2⟩ := ih (callStep kf A s d c u).1 h1
    simp only [runCalls, List.map_cons]
    exact ⟨by rw [i1, h2], i2⟩

/-- from a new object (empty cache) in particular -/
theorem C06_history_independent_from_init (kf : Nat → Nat → CGrid ℝ n m) (A : CGrid ℝ n m)
    (ops : List (Nat × Nat × CGrid ℝ n m)) :
    (runCalls kf A PState.init ops).2 = ops.map (fun o => freshCall kf A o.1 o.2.1 o.2.2) :=
  (C06_history_independent kf A ops PState.init (cacheInv_init kf)).1

/-- `reconstruct` is the frames × depths × channels loop over `__call__`: each of its results is the
    fresh result too (it is a particular call list) -/
theorem C06_reconstruct_history_independent (kf : Nat → Nat → CGrid ℝ n m) (A : CGrid ℝ n m)
    (frames depths channels : Nat) (field : Nat → Nat → CGrid ℝ n m) (s : PState ℝ n m) (hs : CacheInv kf s) :
    (runCalls kf A s (reconstructOps frames depths channels field)).2
      = (reconstructOps frames depths channels field).map (fun o => freshCall kf A o.1 o.2.1 o.2.2) :=
  (C06_history_independent kf A _ s hs).1

/-- the documented model: multiply once by the kernel and once by the Fourier-plane aperture
    (any aperture, binary or not) -/
theorem C06_call_is_documented_model (u H A : CGrid ℝ n m) : custom u H A = customDocumented u H A := by
  have key : mul H (mul (fftshift (fft2 u)) A) = mul (mul H A) (fftshift (fft2 u)) := by
    apply toCG_injective
    simp only [toCG_mul]
    ring
  unfold custom customDocumented
  rw [key]

/-- with unit-modulus, distance-additive kernels (angular spectrum, Fresnel transfer function) a
    'back and forth' propagator equals one 'forward' propagation by the net distance `distance - offset` -/
theorem C06_back_and_forth_net (dx z0 offset : ℝ) (lams dists : List ℝ) (d c : Nat) :
    kernelFor n m ⟨true, .as, dx, lams, dists, offset, z0⟩ d c
      = asKernel n m dx (lams.getD c 0) (dists.getD d 0 - offset) ∧
    kernelFor n m ⟨true, .tf, dx, lams, dists, offset, z0⟩ d c
      = tfKernel n m dx (lams.getD c 0) (wavenumber (lams.getD c 0)) (dists.getD d 0 - offset) := by
  constructor
  · simp only [kernelFor, methodKernel, if_true]
    apply Grid.ext_get; intro i j
    rw [CGrid.get_mul, as_add, show z0 + -(z0 + offset - dists.getD d 0) = dists.getD d 0 - offset by ring]
  · simp only [kernelFor, methodKernel, if_true]
    apply Grid.ext_get; intro i j
    rw [CGrid.get_mul, tf_add, show z0 + -(z0 + offset - dists.getD d 0) = dists.getD d 0 - offset by ring]

/-- non-vacuity: the invariant holds for a non-empty cache reached by a real call -/
example (kf : Nat → Nat → CGrid ℝ 2 2) (A u : CGrid ℝ 2 2) :
    CacheInv kf (callStep kf A PState.init 1 0 u).1 ∧ ((callStep kf A PState.init 1 0 u).1.generated 1 0 = true) := by
  refine ⟨(callStep_spec kf A PState.init (cacheInv_init kf) 1 0 u).1, ?_⟩
  simp [callStep, PState.init, PState.generated]

end Odak
