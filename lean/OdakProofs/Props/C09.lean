import OdakProofs.RealInst
import OdakProofs.Lemmas.Kernels
import OdakModel.Polar
import OdakProofs.Lemmas.GenPolar
import OdakProofs.Lemmas.GenQuantisers
import Mathlib.Analysis.SpecialFunctions.Complex.Arg
import Mathlib.Algebra.Order.Floor.Ring

/-! # C09 – amplitude/phase and complex representations of a field are interchangeable -/
namespace Odak
open Complex

/-- rebuilding a field from its computed amplitude and phase returns the same field – every
    complex number, including 0 and the negative real axis -/
theorem C09_polar_roundtrip (u : Cx ℝ) : genField (calcAmplitude u) (calcPhase u) = u := by
  apply toC_injective
  simp only [genField, calcAmplitude, calcPhase, toC_polar, abs_toC, arg_toC]
  exact Complex.norm_mul_exp_arg_mul_I (toC u)

/-- amplitude is non-negative and phase lies in (−π, π] -/
theorem C09_amplitude_phase_ranges (u : Cx ℝ) :
    0 ≤ calcAmplitude u ∧ -Real.pi < calcPhase u ∧ calcPhase u ≤ Real.pi := by
  refine ⟨?_, ?_, ?_⟩
  · simp only [calcAmplitude, abs_toC]; exact norm_nonneg _
  · simp only [calcPhase, arg_toC]; exact Complex.neg_pi_lt_arg _
  · simp only [calcPhase, arg_toC]; exact Complex.arg_le_pi _

theorem abs_polar (a φ : ℝ) : Cx.abs (Cx.polar a φ) = |a| := by
  simp only [Cx.abs, num_sqrt, normSq_polar]
  rw [← sq, Real.sqrt_sq_eq_abs]

/-- replacing the amplitude: the new modulus is `|a|`, and (for `a ≠ 0`) the phase is kept -/
theorem C09_set_amplitude (u a : Cx ℝ) :
    calcAmplitude (setAmplitude u a) = calcAmplitude a ∧
    (0 < calcAmplitude a → calcPhase (setAmplitude u a) = calcPhase u) := by
  constructor
  · simp only [calcAmplitude, setAmplitude, abs_polar]
    exact abs_of_nonneg (by rw [abs_toC]; exact norm_nonneg _)
  · intro ha
    simp only [calcAmplitude, calcPhase, setAmplitude, arg_toC] at *
    rw [toC_polar]
    have h1 := Complex.neg_pi_lt_arg (toC u)
    have h2 := Complex.arg_le_pi (toC u)
    rw [Complex.exp_mul_I]
    exact Complex.arg_mul_cos_add_sin_mul_I ha ⟨h1, h2⟩

/-- adding a phase keeps the amplitude -/
theorem C09_add_phase_keeps_amplitude (u : Cx ℝ) (φ : ℝ) : calcAmplitude (addPhase u φ) = calcAmplitude u := by
  simp only [calcAmplitude, addPhase, abs_polar]
  exact abs_of_nonneg (by rw [abs_toC]; exact norm_nonneg _)

theorem fmod_range (x r : ℝ) (hr : 0 < r) : 0 ≤ Num.fmod x r ∧ Num.fmod x r < r := by
  simp only [Num.fmod, num_floor]
  have h1 := Int.floor_le (x / r)
  have h2 := Int.lt_floor_add_one (x / r)
  have e : x = r * (x / r) := by field_simp
  constructor
  · nlinarith
  · nlinarith

theorem trunc_nonneg_eq_floor (x : ℝ) (hx : 0 ≤ x) : Num.trunc x = ((⌊x⌋ : ℤ) : ℝ) := by
  simp only [Num.trunc, num_floor]
  rw [if_neg (not_lt.mpr hx)]

/-- SLM pattern: the integer level lies in `[0, 2^bits)`, is an integer, and the pattern has unit
    amplitude (illumination 1) – all phases, all positive SLM ranges, all bit depths -/
theorem C09_slm_pattern (u : Cx ℝ) (range : ℝ) (hr : 0 < range) (bits : Nat) :
    (∃ k : ℕ, slmLevel (Cx.arg u) range bits = (k : ℝ) ∧ k < 2 ^ bits) ∧
    calcAmplitude (slmPattern u range bits 1) = 1 := by
  constructor
  · obtain ⟨h0, h1⟩ := fmod_range (Cx.arg u) range hr
    set q := Num.fmod (Cx.arg u) range / range * Num.pow2 bits with hq
    have hp : (Num.pow2 bits : ℝ) = ((2 ^ bits : ℕ) : ℝ) := rfl
    have hp0 : (0 : ℝ) < Num.pow2 bits := by rw [hp]; positivity
    have hq0 : 0 ≤ q := by rw [hq]; apply mul_nonneg (div_nonneg h0 hr.le) hp0.le
    have hq1 : q < Num.pow2 bits := by
      rw [hq]
      have : Num.fmod (Cx.arg u) range / range < 1 := by rw [div_lt_one hr]; exact h1
      nlinarith
    have hfl : 0 ≤ ⌊q⌋ := Int.floor_nonneg.mpr hq0
    refine ⟨⌊q⌋.toNat, ?_, ?_⟩
    · simp only [slmLevel]
      rw [← hq, trunc_nonneg_eq_floor q hq0]
      have : ((⌊q⌋.toNat : ℕ) : ℤ) = ⌊q⌋ := Int.toNat_of_nonneg hfl
      exact_mod_cast this.symm
    · have hlt : (⌊q⌋ : ℝ) < ((2 ^ bits : ℕ) : ℝ) := lt_of_le_of_lt (Int.floor_le q) (hp ▸ hq1)
      have : ⌊q⌋ < ((2 ^ bits : ℕ) : ℤ) := by exact_mod_cast hlt
      omega
  · simp only [calcAmplitude, slmPattern, abs_polar, abs_one]

/-- torch `quantize` on an already-wrapped phase `x ∈ [0, 2π)` with limits `[0, 2π]`: level in `[0, 2^bits)` -/
theorem C09_quantize_level (x : ℝ) (hx0 : 0 ≤ x) (hx1 : x < 2 * Real.pi) (bits : Nat) :
    ∃ k : ℕ, quantize x bits 0 (2 * Real.pi) = (k : ℝ) ∧ k < 2 ^ bits := by
  have hpi : (0 : ℝ) < 2 * Real.pi := by positivity
  set q := (x - 0) / (2 * Real.pi - 0) * Num.pow2 bits with hq
  have hp : (Num.pow2 bits : ℝ) = ((2 ^ bits : ℕ) : ℝ) := rfl
  have hp0 : (0 : ℝ) < Num.pow2 bits := by rw [hp]; positivity
  have hq0 : 0 ≤ q := by rw [hq]; simp only [sub_zero]; exact mul_nonneg (div_nonneg hx0 hpi.le) hp0.le
  have hq1 : q < Num.pow2 bits := by
    rw [hq]; simp only [sub_zero]
    have : x / (2 * Real.pi) < 1 := by rw [div_lt_one hpi]; exact hx1
    nlinarith
  have hfl : 0 ≤ ⌊q⌋ := Int.floor_nonneg.mpr hq0
  refine ⟨⌊q⌋.toNat, ?_, ?_⟩
  · simp only [quantize]
    rw [← hq, trunc_nonneg_eq_floor q hq0]
    have : ((⌊q⌋.toNat : ℕ) : ℤ) = ⌊q⌋ := Int.toNat_of_nonneg hfl
    exact_mod_cast this.symm
  · have hlt : (⌊q⌋ : ℝ) < ((2 ^ bits : ℕ) : ℝ) := lt_of_le_of_lt (Int.floor_le q) (hp ▸ hq1)
    have : ⌊q⌋ < ((2 ^ bits : ℕ) : ℤ) := by exact_mod_cast hlt
    omega

/-- non-vacuity -/
example : (0 : ℝ) < 2 * Real.pi := by positivity

end Odak

/-! ## The same statements for the field utilities REGENERATED from the Python source on this run
  (`OdakModel/Generated/WaveKernels.lean`: torch `odak/learn/wave/util.py` = suffix `T`, NumPy `odak/wave/utils.py`,
  `odak/wave/__init__.py` = suffix `N`; tied to the hand model by `OdakProofs/Lemmas/GenPolar.lean`). -/
namespace Odak
open Gen

/-- rebuilding a field from its computed amplitude and phase returns the same field, both APIs, as the source is now -/
theorem C09_gen_polar_roundtrip (u : Cx ℝ) :
    genFieldT (calcAmplitudeT u) (calcPhaseT u) = u ∧ genFieldN (calcAmplitudeN u) (calcPhaseN u) = u := by
  simp only [gen_genFieldT_eq, gen_genFieldN_eq, gen_calcAmplitudeT_eq, gen_calcAmplitudeN_eq, gen_calcPhaseT_eq,
    gen_calcPhaseN_eq]
  exact ⟨C09_polar_roundtrip u, C09_polar_roundtrip u⟩

/-- amplitude is non-negative and phase lies in (−π, π], both APIs -/
theorem C09_gen_amplitude_phase_ranges (u : Cx ℝ) :
    (0 ≤ calcAmplitudeT u ∧ -Real.pi < calcPhaseT u ∧ calcPhaseT u ≤ Real.pi) ∧
    (0 ≤ calcAmplitudeN u ∧ -Real.pi < calcPhaseN u ∧ calcPhaseN u ≤ Real.pi) := by
  simp only [gen_calcAmplitudeT_eq, gen_calcAmplitudeN_eq, gen_calcPhaseT_eq, gen_calcPhaseN_eq]
  exact ⟨C09_amplitude_phase_ranges u, C09_amplitude_phase_ranges u⟩

/-- replacing the amplitude: the new modulus is `|a|`, and (for `a ≠ 0`) the phase is kept, both APIs -/
theorem C09_gen_set_amplitude (u a : Cx ℝ) :
    (calcAmplitudeT (setAmplitudeT u a) = calcAmplitudeT a ∧
      (0 < calcAmplitudeT a → calcPhaseT (setAmplitudeT u a) = calcPhaseT u)) ∧
    (calcAmplitudeN (setAmplitudeN u a) = calcAmplitudeN a ∧
      (0 < calcAmplitudeN a → calcPhaseN (setAmplitudeN u a) = calcPhaseN u)) := by
  simp only [gen_setAmplitudeT_eq, gen_setAmplitudeN_eq, gen_calcAmplitudeT_eq, gen_calcAmplitudeN_eq, gen_calcPhaseT_eq,
    gen_calcPhaseN_eq]
  exact ⟨C09_set_amplitude u a, C09_set_amplitude u a⟩

/-- NumPy `add_phase` keeps the amplitude -/
theorem C09_gen_add_phase_keeps_amplitude (u : Cx ℝ) (φ : ℝ) : calcAmplitudeN (addPhaseN u φ) = calcAmplitudeN u := by
  simp only [gen_addPhaseN_eq, gen_calcAmplitudeN_eq]
  exact C09_add_phase_keeps_amplitude u φ

/-- `wavenumber λ = 2π/λ` in both APIs, as the source is now -/
theorem C09_gen_wavenumber (lam : ℝ) : wavenumberT lam = 2 * Real.pi / lam ∧ wavenumberN lam = 2 * Real.pi / lam := by
  simp only [gen_wavenumberT_eq, gen_wavenumberN_eq, wavenumber, num_two, num_pi, and_self]

end Odak

/-! ## The SLM quantisers REGENERATED from the Python source (`OdakModel/Generated/Quantisers.lean`: NumPy
  `produce_phase_only_slm_pattern`, `adjust_phase_only_slm_range`, torch `quantize`; tied to the hand model by
  `OdakProofs/Lemmas/GenQuantisers.lean`). -/
namespace Odak
open Gen

/-- generated `produce_phase_only_slm_pattern`: for every field sample, every positive SLM range and every bit depth the integer
    level lies in `[0, 2^bits)` and is an integer; without illumination the pattern has unit amplitude, with an illumination
    amplitude `A` it has amplitude `|A|`; the level is the same in both cases -/
theorem C09_gen_slm_pattern (u : Cx ℝ) (range : ℝ) (hr : 0 < range) (bits : Nat) (A : ℝ) :
    (∃ k : ℕ, (slmPatternN u range bits).2 = (k : ℝ) ∧ k < 2 ^ bits) ∧
    calcAmplitudeN (slmPatternN u range bits).1 = 1 ∧
    calcAmplitudeN (slmPatternIllumN u range bits A).1 = |A| ∧
    (slmPatternIllumN u range bits A).2 = (slmPatternN u range bits).2 := by
  rw [slmPatternN_eq, slmPatternIllumN_eq]
  simp only [gen_calcAmplitudeN_eq]
  obtain ⟨hk, h1⟩ := C09_slm_pattern u range hr bits
  refine ⟨hk, h1, ?_, trivial⟩
  simp only [calcAmplitude, slmPattern, abs_polar]

/-- generated torch `quantize` on an already-wrapped phase `x ∈ [0, 2π)` with limits `[0, 2π]`: integer level in `[0, 2^bits)` -/
theorem C09_gen_quantize_level (x : ℝ) (hx0 : 0 ≤ x) (hx1 : x < 2 * Real.pi) (bits : Nat) :
    ∃ k : ℕ, quantizeT x bits 0 (2 * Real.pi) = (k : ℝ) ∧ k < 2 ^ bits := by
  rw [quantizeT_eq]; exact C09_quantize_level x hx0 hx1 bits

/-- generated `adjust_phase_only_slm_range`: the range scales with `native_wavelength / working_wavelength`; at the native
    wavelength it is the native range, and positive inputs give a positive range (so `C09_gen_slm_pattern` applies to it) -/
theorem C09_gen_adjust_range (r w n : ℝ) (hr : 0 < r) (hw : 0 < w) (hn : 0 < n) :
    adjustSlmRangeN r w n = r * (n / w) ∧ adjustSlmRangeN r w w = r ∧ 0 < adjustSlmRangeN r w n := by
  simp only [adjustSlmRangeN_eq]
  refine ⟨by field_simp, by field_simp, by positivity⟩

end Odak
