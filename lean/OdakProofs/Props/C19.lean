import OdakProofs.RealInst
import OdakProofs.Lemmas.Codec
import OdakModel.Codec
import Mathlib.Algebra.Order.Floor.Ring
import Mathlib.Tactic.Linarith
import Mathlib.Tactic.NormNum
import Mathlib.Tactic.Positivity
import Mathlib.Tactic.FieldSimp

/-! # C19 – what is saved can be loaded back unchanged -/
namespace Odak
open Odak.Gen Odak.CodecL

/-! ### images: levels -/

/-- saving an integer level `v ≤ 2^depth − 1` with `cmin = 0`, `cmax = 2^depth − 1` stores exactly `v` –
    every bit depth, in particular 8 and 16 -/
theorem C19_image_levels_roundtrip (depth : Nat) (hd : 1 ≤ depth) (v : Nat) (hv : v ≤ 2 ^ depth - 1) :
    saveLevel (0 : ℝ) ((2 ^ depth - 1 : Nat) : ℝ) depth (v : ℝ) = (v : ℝ) := by
  have hN : 1 ≤ 2 ^ depth - 1 := by
    have : 2 ^ 1 ≤ 2 ^ depth := Nat.pow_le_pow_right (by norm_num) hd
    omega
  have hNr : (0 : ℝ) < ((2 ^ depth - 1 : Nat) : ℝ) := by exact_mod_cast hN
  have hvr : (v : ℝ) ≤ ((2 ^ depth - 1 : Nat) : ℝ) := by exact_mod_cast hv
  rw [saveLevel_eq, clip_id _ _ _ (Nat.cast_nonneg v) hvr, div_mul_cancel₀ _ hNr.ne', trunc_natCast]

/-- every stored level is an integer in `[0, 2^depth − 1]`: all samples, all bit depths, all clip ranges
    `0 ≤ cmin ≤ cmax`, `0 < cmax` -/
theorem C19_image_save_law (cmin cmax : ℝ) (depth : Nat) (v : ℝ) (h : 0 < cmax) (hc : cmin ≤ cmax)
    (h0 : 0 ≤ cmin) : ∃ k : ℕ, saveLevel cmin cmax depth v = (k : ℝ) ∧ k ≤ 2 ^ depth - 1 := by
  obtain ⟨hlo, hhi⟩ := clip_range cmin cmax v hc
  rw [saveLevel_eq]
  have hN : (0 : ℝ) ≤ ((2 ^ depth - 1 : ℕ) : ℝ) := Nat.cast_nonneg _
  have hq0 : 0 ≤ clip cmin cmax v / cmax := div_nonneg (le_trans h0 hlo) h.le
  have hq1 : clip cmin cmax v / cmax ≤ 1 := (div_le_one h).mpr hhi
  apply trunc_range
  · exact mul_nonneg hq0 hN
  · calc clip cmin cmax v / cmax * ((2 ^ depth - 1 : ℕ) : ℝ) ≤ 1 * ((2 ^ depth - 1 : ℕ) : ℝ) :=
          mul_le_mul_of_nonneg_right hq1 hN
      _ = _ := one_mul _

/-! ### images: channel order -/

/-- the BGR swap of `save_image` followed by the one of `load_image` restores R, G, B -/
theorem C19_channel_order_restored : ∀ k, k < 3 → saveLoadChannel k = k := by decide

/-- further channels (alpha) are kept in place by both swaps -/
theorem C19_channel_order_alpha_kept : ∀ k, 3 ≤ k → saveLoadChannel k = k := by
  intro k hk
  have h0 : k ≠ 0 := by omega
  have h2 : k ≠ 2 := by omega
  have e : ∀ sw : List (Nat × Nat), sw = [(0, 2), (2, 0)] → swapSource sw k = k := by
    intro sw hsw
    subst hsw
    simp [swapSource, List.find?, Ne.symm h0, Ne.symm h2]
  unfold saveLoadChannel
  rw [e loadImageSwaps (by decide), e saveImageSwaps (by decide)]

/-! ### images: CHW → HWC -/

/-- both flat indices stay inside the buffer -/
theorem C19_chw_hwc_bijection (C H W : Nat) (c i j : Nat) (hc : c < C) (hi : i < H) (hj : j < W) :
    hwcIndex C H W i j c < H * W * C ∧ chwIndex C H W c i j < C * H * W := by
  unfold hwcIndex chwIndex
  exact ⟨flat_lt _ _ _ _ (flat_lt _ _ _ _ hi hj) hc, flat_lt _ _ _ _ (flat_lt _ _ _ _ hc hi) hj⟩

/-- the HWC position determines the sample: nothing is lost or duplicated -/
theorem C19_hwc_injective (C H W : Nat) (c i j c' i' j' : Nat) (hc : c < C) (hj : j < W)
    (hc' : c' < C) (hj' : j' < W) (h : hwcIndex C H W i j c = hwcIndex C H W i' j' c') :
    (i, j, c) = (i', j', c') := by
  unfold hwcIndex at h
  obtain ⟨h1, h2⟩ := flat_inj C _ _ _ _ hc hc' h
  obtain ⟨h3, h4⟩ := flat_inj W _ _ _ _ hj hj' h1
  rw [h2, h3, h4]

/-- the CHW position determines the sample as well -/
theorem C19_chw_injective (C H W : Nat) (c i j c' i' j' : Nat) (hi : i < H) (hj : j < W)
    (hi' : i' < H) (hj' : j' < W) (h : chwIndex C H W c i j = chwIndex C H W c' i' j') :
    (c, i, j) = (c', i', j') := by
  unfold chwIndex at h
  obtain ⟨h1, h2⟩ := flat_inj W _ _ _ _ hj hj' h
  obtain ⟨h3, h4⟩ := flat_inj H _ _ _ _ hi hi' h1
  rw [h2, h3, h4]

/-! ### triangle meshes -/

/-- the `k`-th vertex id written for triangle `t` is the row its `k`-th vertex was written to -/
theorem C19_ply_index_roundtrip (t k : Nat) (hk : k < 3) : (plyFace t)[k]? = some (plyVertexRow t k) := by
  unfold plyFace plyVertexRow
  match k, hk with
  | 0, _ => rfl
  | 1, _ => rfl
  | 2, _ => rfl

/-- distinct (triangle, corner) pairs use distinct vertex rows – any number of triangles -/
theorem C19_ply_rows_disjoint (t k t' k' : Nat) (h : plyVertexRow t k = plyVertexRow t' k') (hk : k < 3)
    (hk' : k' < 3) : t = t' ∧ k = k' := by
  unfold plyVertexRow at h
  omega

/-! ### text files -/

/-- every list of lines without embedded newlines reads back identically (current strip: `rstrip("\n")`),
    including empty lines, trailing blanks and non-ASCII characters -/
theorem C19_text_roundtrip (ls : List (List Char)) (h : ∀ l ∈ ls, '\n' ∉ l) :
    readLines (writeLines ls) = ls := by
  unfold readLines
  rw [if_pos (by decide : readTextSplitter = "readline")]
  rw [readLinesRaw_writeLines ls h, List.map_map]
  calc ls.map (rstripBy readStripPred ∘ fun l => l ++ ['\n']) = ls.map id := by
        apply List.map_congr_left
        intro l hl
        exact rstrip_line l (h l hl)
    _ = ls := List.map_id ls

/-- why the splitter is part of the regenerated model: a reader built on `str.splitlines()` cuts the single line `a\x0cb` in two -/
theorem C19_splitlines_would_cut_at_form_feed :
    splitOnBreaks isUnicodeLineBreak false (writeLines [['a', Char.ofNat 0x0c, 'b']]) [] = [['a'], ['b']] := by decide

/-- the line format of `write_to_text_file` is the one `writeLines` models -/
theorem C19_text_line_format : writeTextLineFormat = "{}\n" := by decide

/-- the former strip (`rstrip()`, all whitespace) loses a trailing space -/
theorem C19_rstrip_all_loses_trailing_space :
    rstripBy Char.isWhitespace ("a ".toList ++ ['\n']) = "a".toList ∧ "a".toList ≠ "a ".toList := by
  constructor <;> decide

/-! ### copying a file -/

/-- destination identical to the source, source intact, nothing else touched -/
theorem C19_copy_file (fs : FS) (s t : String) (hne : s ≠ t) (bytes : List Nat) (hs : fs s = some bytes) :
    ∃ fs', copyFile fs s t = some fs' ∧ fs' t = some bytes ∧ fs' s = some bytes ∧
      ∀ p, p ≠ t → fs' p = fs p := by
  have e : copyFile fs s t = copyfile fs s t := by
    simp [copyFile, copyFileArgs]
  refine ⟨fun p => if p = t then some bytes else fs p, ?_, ?_, ?_, ?_⟩
  · rw [e, copyfile, if_neg hne, hs]
  · simp
  · simp [hne, hs]
  · intro p hp; simp [hp]

/-- the copy is unconditional in the source: no test, early return or exception handler stands between the call of `copy_file` and
    `shutil.copyfile` (regenerated list of such statements is empty), so `C19_copy_file` applies to EVERY state of the file system - also when
    the destination already exists with the same size and a newer time stamp -/
theorem C19_copy_is_unconditional : copyFileGuards = [] := by decide

/-- `shutil.copyfile` refuses to copy a file onto itself -/
theorem C19_copy_same_path_fails (fs : FS) (s : String) : copyFile fs s s = none := by
  have e : copyFile fs s s = copyfile fs s s := by
    simp [copyFile, copyFileArgs]
  rw [e, copyfile, if_pos rfl]

/-- a missing source is an error as well -/
theorem C19_copy_missing_source_fails (fs : FS) (s t : String) (hs : fs s = none) : copyFile fs s t = none := by
  have e : copyFile fs s t = copyfile fs s t := by
    simp [copyFile, copyFileArgs]
  rw [e, copyfile]
  split_ifs
  · rfl
  · rw [hs]

/-! ### non-vacuity -/

example : saveLevel (0 : ℝ) 255 8 200 = 200 := by
  have := C19_image_levels_roundtrip 8 (by norm_num) 200 (by norm_num)
  norm_num at this
  exact this

example : saveLevel (0 : ℝ) 65535 16 40000 = 40000 := by
  have := C19_image_levels_roundtrip 16 (by norm_num) 40000 (by norm_num)
  norm_num at this
  exact this

example : readLines (writeLines ["a ".toList, [], "é".toList]) = ["a ".toList, [], "é".toList] := by decide

example : ∀ l ∈ ["a ".toList, [], "é".toList], '\n' ∉ l := by decide

example : saveLoadChannel 0 = 0 ∧ saveLoadChannel 1 = 1 ∧ saveLoadChannel 2 = 2 ∧ saveLoadChannel 3 = 3 := by
  decide

example : hwcIndex 3 2 2 1 1 2 = 11 ∧ chwIndex 3 2 2 2 1 1 = 11 := by decide

example : plyFace 4 = [12, 13, 14] := by decide

example : ∃ fs', copyFile (fun p => if p = "a" then some [1, 2] else none) "a" "b" = some fs' ∧
    fs' "b" = some [1, 2] ∧ fs' "a" = some [1, 2] :=
  let ⟨fs', h1, h2, h3, _⟩ := C19_copy_file (fun p => if p = "a" then some [1, 2] else none) "a" "b"
    (by decide) [1, 2] (by simp)
  ⟨fs', h1, h2, h3⟩

end Odak

#print axioms Odak.C19_image_levels_roundtrip
#print axioms Odak.C19_image_save_law
#print axioms Odak.C19_channel_order_restored
#print axioms Odak.C19_channel_order_alpha_kept
#print axioms Odak.C19_chw_hwc_bijection
#print axioms Odak.C19_hwc_injective
#print axioms Odak.C19_chw_injective
#print axioms Odak.C19_ply_index_roundtrip
#print axioms Odak.C19_ply_rows_disjoint
#print axioms Odak.C19_text_roundtrip
#print axioms Odak.C19_text_line_format
#print axioms Odak.C19_rstrip_all_loses_trailing_space
#print axioms Odak.C19_copy_file
#print axioms Odak.C19_copy_same_path_fails
#print axioms Odak.C19_copy_missing_source_fails
