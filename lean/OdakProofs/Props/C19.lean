import OdakProofs.RealInst
import OdakProofs.Lemmas.Codec
import OdakProofs.Lemmas.GenImageCodecTorch
import OdakProofs.Lemmas.GenPly
import OdakModel.FileWiring
import OdakModel.Codec
import Mathlib.Algebra.Order.Floor.Ring
import Mathlib.Tactic.Linarith
import Mathlib.Tactic.NormNum
import Mathlib.Tactic.Positivity
import Mathlib.Tactic.FieldSimp

/-! # C19 – what is saved can be loaded back unchanged -/
namespace Odak
open Odak.Gen Odak.CodecL

/-! ### images: levels -/

/-- saving an integer level `v ≤ 2^depth − 1` with `cmin = 0`, `cmax = 2^depth − 1` stores exactly `v` –
    every bit depth, in particular 8 and 16 -/
theorem C19_image_levels_roundtrip (depth : Nat) (hd : 1 ≤ depth) (v : Nat) (hv : v ≤ 2 ^ depth - 1) :
    saveLevel (0 : ℝ) ((2 ^ depth - 1 : Nat) : ℝ) depth (v : ℝ) = (v : ℝ) := by
  have hN : 1 ≤ 2 ^ depth - 1 := by
    have : 2 ^ 1 ≤ 2 ^ depth := Nat.pow_le_pow_right (by norm_num) hd
    omega
  have hNr : (0 : ℝ) < ((2 ^ depth - 1 : Nat) : ℝ) := by exact_mod_cast hN
  have hvr : (v : ℝ) ≤ ((2 ^ depth - 1 : Nat) : ℝ) := by exact_mod_cast hv
  rw [saveLevel_eq, clip_id _ _ _ (Nat.cast_nonneg v) hvr, div_mul_cancel₀ _ hNr.ne', trunc_natCast]

/-- every stored level is an integer in `[0, 2^depth − 1]`: all samples, all bit depths, all clip ranges
    `0 ≤ cmin ≤ cmax`, `0 < cmax` -/
theorem C19_image_save_law (cmin cmax : ℝ) (depth : Nat) (v : ℝ) (h : 0 < cmax) (hc : cmin ≤ cmax)
    (h0 : 0 ≤ cmin) : ∃ k : ℕ, saveLevel cmin cmax depth v = (k : ℝ) ∧ k ≤ 2 ^ depth - 1 := by
  obtain ⟨hlo, hhi⟩ := clip_range cmin cmax v hc
  rw [saveLevel_eq]
  have hN : (0 : ℝ) ≤ ((2 ^ depth - 1 : ℕ) : ℝ) := Nat.cast_nonneg _
  have hq0 : 0 ≤ clip cmin cmax v / cmax := div_nonneg (le_trans h0 hlo) h.le
  have hq1 : clip cmin cmax v / cmax ≤ 1 := (div_le_one h).mpr hhi
  apply trunc_range
  · exact mul_nonneg hq0 hN
  · calc clip cmin cmax v / cmax * ((2 ^ depth - 1 : ℕ) : ℝ) ≤ 1 * ((2 ^ depth - 1 : ℕ) : ℝ) :=
          mul_le_mul_of_nonneg_right hq1 hN
      _ = _ := one_mul _

/-! ### images: channel order -/

/-- the BGR swap of `save_image` followed by the one of `load_image` restores R, G, B -/
theorem C19_channel_order_restored : ∀ k, k < 3 → saveLoadChannel k = k := by decide

/-- further channels (alpha) are kept in place by both swaps -/
theorem C19_channel_order_alpha_kept : ∀ k, 3 ≤ k → saveLoadChannel k = k := by
  intro k hk
  have h0 : k ≠ 0 := by omega
  have h2 : k ≠ 2 := by omega
  have e : ∀ sw : List (Nat × Nat), sw = [(0, 2), (2, 0)] → swapSource sw k = k := by
    intro sw hsw
    subst hsw
    simp [swapSource, List.find?, Ne.symm h0, Ne.symm h2]
  unfold saveLoadChannel
  rw [e loadImageSwaps (by decide), e saveImageSwaps (by decide)]

/-! ### images: CHW → HWC -/

/-- both flat indices stay inside the buffer -/
theorem C19_chw_hwc_bijection (C H W : Nat) (c i j : Nat) (hc : c < C) (hi : i < H) (hj : j < W) :
    hwcIndex C H W i j c < H * W * C ∧ chwIndex C H W c i j < C * H * W := by
  unfold hwcIndex chwIndex
  exact ⟨flat_lt _ _ _ _ (flat_lt _ _ _ _ hi hj) hc, flat_lt _ _ _ _ (flat_lt _ _ _ _ hc hi) hj⟩

/-- the HWC position determines the sample: nothing is lost or duplicated -/
theorem C19_hwc_injective (C H W : Nat) (c i j c' i' j' : Nat) (hc : c < C) (hj : j < W)
    (hc' : c' < C) (hj' : j' < W) (h : hwcIndex C H W i j c = hwcIndex C H W i' j' c') :
    (i, j, c) = (i', j', c') := by
  unfold hwcIndex at h
  obtain ⟨h1, h2⟩ := flat_inj C _ _ _ _ hc hc' h
  obtain ⟨h3, h4⟩ := flat_inj W _ _ _ _ hj hj' h1
  rw [h2, h3, h4]

/-- the CHW position determines the sample as well -/
theorem C19_chw_injective (C H W : Nat) (c i j c' i' j' : Nat) (hi : i < H) (hj : j < W)
    (hi' : i' < H) (hj' : j' < W) (h : chwIndex C H W c i j = chwIndex C H W c' i' j') :
    (c, i, j) = (c', i', j') := by
  unfold chwIndex at h
  obtain ⟨h1, h2⟩ := flat_inj W _ _ _ _ hj hj' h
  obtain ⟨h3, h4⟩ := flat_inj H _ _ _ _ hi hi' h1
  rw [h2, h3, h4]

/-! ### triangle meshes -/

/-- the `k`-th vertex id written for triangle `t` is the row its `k`-th vertex was written to -/
theorem C19_ply_index_roundtrip (t k : Nat) (hk : k < 3) : (plyFace t)[k]? = some (plyVertexRow t k) := by
  unfold plyFace plyVertexRow
  match k, hk with
  | 0, _ => rfl
  | 1, _ => rfl
  | 2, _ => rfl

/-- distinct (triangle, corner) pairs use distinct vertex rows – any number of triangles -/
theorem C19_ply_rows_disjoint (t k t' k' : Nat) (h : plyVertexRow t k = plyVertexRow t' k') (hk : k < 3)
    (hk' : k' < 3) : t = t' ∧ k = k' := by
  unfold plyVertexRow at h
  omega

/-! ### text files -/

/-- every list of lines without embedded newlines reads back identically (current strip: `rstrip("\n")`),
    including empty lines, trailing blanks and non-ASCII characters -/
theorem C19_text_roundtrip (ls : List (List Char)) (h : ∀ l ∈ ls, '\n' ∉ l) :
    readLines (writeLines ls) = ls := by
  unfold readLines
  rw [if_pos (by decide : readTextSplitter = "readline")]
  rw [readLinesRaw_writeLines ls h, List.map_map]
  calc ls.map (rstripBy readStripPred ∘ fun l => l ++ ['\n']) = ls.map id := by
        apply List.map_congr_left
        intro l hl
        exact rstrip_line l (h l hl)
    _ = ls := List.map_id ls

/-- why the splitter is part of the regenerated model: a reader built on `str.splitlines()` cuts the single line `a\x0cb` in two -/
theorem C19_splitlines_would_cut_at_form_feed :
    splitOnBreaks isUnicodeLineBreak false (writeLines [['a', Char.ofNat 0x0c, 'b']]) [] = [['a'], ['b']] := by decide

/-- the line format of `write_to_text_file` is the one `writeLines` models -/
theorem C19_text_line_format : writeTextLineFormat = "{}\n" := by decide

/-- the former strip (`rstrip()`, all whitespace) loses a trailing space -/
theorem C19_rstrip_all_loses_trailing_space :
    rstripBy Char.isWhitespace ("a ".toList ++ ['\n']) = "a".toList ∧ "a".toList ≠ "a ".toList := by
  constructor <;> decide

/-! ### copying a file -/

/-- destination identical to the source, source intact, nothing else touched -/
theorem C19_copy_file (fs : FS) (s t : String) (hne : s ≠ t) (bytes : List Nat) (hs : fs s = some bytes) :
    ∃ fs', copyFile fs s t = some fs' ∧ fs' t = some bytes ∧ fs' s = some bytes ∧
      ∀ p, p ≠ t → fs' p = fs p := by
  have e : copyFile fs s t = copyfile fs s t := by
    simp [copyFile, copyFileArgs]
  refine ⟨fun p => if p = t then some bytes else fs p, ?_, ?_, ?_, ?_⟩
  · rw [e, copyfile, if_neg hne, hs]
  · simp
  · simp [hne, hs]
  · intro p hp; simp [hp]

/-- the copy is unconditional in the source: no test, early return or exception handler stands between the call of `copy_file` and
    `shutil.copyfile` (regenerated list of such statements is empty), so `C19_copy_file` applies to EVERY state of the file system - also when
    the destination already exists with the same size and a newer time stamp -/
theorem C19_copy_is_unconditional : copyFileGuards = [] := by decide

/-- `shutil.copyfile` refuses to copy a file onto itself -/
theorem C19_copy_same_path_fails (fs : FS) (s : String) : copyFile fs s s = none := by
  have e : copyFile fs s s = copyfile fs s s := by
    simp [copyFile, copyFileArgs]
  rw [e, copyfile, if_pos rfl]

/-- a missing source is an error as well -/
theorem C19_copy_missing_source_fails (fs : FS) (s t : String) (hs : fs s = none) : copyFile fs s t = none := by
  have e : copyFile fs s t = copyfile fs s t := by
    simp [copyFile, copyFileArgs]
  rw [e, copyfile]
  split_ifs
  · rfl
  · rw [hs]

/-! ### non-vacuity -/

example : saveLevel (0 : ℝ) 255 8 200 = 200 := by
  have := C19_image_levels_roundtrip 8 (by norm_num) 200 (by norm_num)
  norm_num at this
  exact this

example : saveLevel (0 : ℝ) 65535 16 40000 = 40000 := by
  have := C19_image_levels_roundtrip 16 (by norm_num) 40000 (by norm_num)
  norm_num at this
  exact this

example : readLines (writeLines ["a ".toList, [], "é".toList]) = ["a ".toList, [], "é".toList] := by decide

example : ∀ l ∈ ["a ".toList, [], "é".toList], '\n' ∉ l := by decide

example : saveLoadChannel 0 = 0 ∧ saveLoadChannel 1 = 1 ∧ saveLoadChannel 2 = 2 ∧ saveLoadChannel 3 = 3 := by
  decide

example : hwcIndex 3 2 2 1 1 2 = 11 ∧ chwIndex 3 2 2 2 1 1 = 11 := by decide

example : plyFace 4 = [12, 13, 14] := by decide

example : ∃ fs', copyFile (fun p => if p = "a" then some [1, 2] else none) "a" "b" = some fs' ∧
    fs' "b" = some [1, 2] ∧ fs' "a" = some [1, 2] :=
  let ⟨fs', h1, h2, h3, _⟩ := C19_copy_file (fun p => if p = "a" then some [1, 2] else none) "a" "b"
    (by decide) [1, 2] (by simp)
  ⟨fs', h1, h2, h3⟩

end Odak

#print axioms Odak.C19_image_levels_roundtrip
#print axioms Odak.C19_image_save_law
#print axioms Odak.C19_channel_order_restored
#print axioms Odak.C19_channel_order_alpha_kept
#print axioms Odak.C19_chw_hwc_bijection
#print axioms Odak.C19_hwc_injective
#print axioms Odak.C19_chw_injective
#print axioms Odak.C19_ply_index_roundtrip
#print axioms Odak.C19_ply_rows_disjoint
#print axioms Odak.C19_text_roundtrip
#print axioms Odak.C19_text_line_format
#print axioms Odak.C19_rstrip_all_loses_trailing_space
#print axioms Odak.C19_copy_file
#print axioms Odak.C19_copy_same_path_fails
#print axioms Odak.C19_copy_missing_source_fails

/-! ## The regenerated image codec (`Generated/ImageCodec.lean`, regenerated from `/repo` on every run by
  `harness/translate/imagecodec.py`): the whole value pipeline of `save_image` / `load_image`, NumPy and torch, statement by statement.
  `cv2.imwrite` / `cv2.imread(…, IMREAD_UNCHANGED)` stay an uninterpreted lossless codec on unsigned-integer arrays
  (`Tensor.pngRoundTrip`: the same array, a single channel `[m x n x 1]` comes back as `[m x n]`). -/
namespace Odak
open Odak.Gen Odak.CodecL Tensor
set_option linter.unusedVariables false

/-- tie of the value pipeline: the level the regenerated saver stores (two masked assignments one after the other, `/ cmax`,
    `* (2^d - 1)`, truncation) is the hand-written `saveLevel` whenever `cmin ≤ cmax` -/
theorem C19_gen_level_is_saveLevel (cmin cmax : ℝ) (d : Nat) (v : ℝ) (h : cmin ≤ cmax) :
    genLevel cmin cmax d v = saveLevel cmin cmax d v := genLevel_eq_saveLevel cmin cmax d v h

/-- tie of the NumPy saver: the array handed to `cv2.imwrite` has the input's shape and holds `saveLevel` of the input sample -
    of the channel the regenerated swap table `saveImageSwaps` names for 3 and more channels, of the same position for 1 channel -/
theorem C19_gen_np_save_tie (cmin cmax : ℝ) (d : Nat) (hd : d = 8 ∨ d = 16) (hc : cmin ≤ cmax) (H W C : Nat) (hC : 3 ≤ C)
    (g r : Tensor ℝ) (hg : g.shape = [H, W]) (hr : r.shape = [H, W, C]) :
    ((GenIC.np_save_image g cmin cmax d).shape = [H, W] ∧
      ∀ i j, (GenIC.np_save_image g cmin cmax d).get [i, j] = saveLevel cmin cmax d (g.get [i, j])) ∧
    ((GenIC.np_save_image r cmin cmax d).shape = [H, W, C] ∧
      ∀ i j k, (GenIC.np_save_image r cmin cmax d).get [i, j, k] =
        saveLevel cmin cmax d (r.get [i, j, swapSource saveImageSwaps k])) := by
  obtain ⟨a1, a2⟩ := np_save_image_gray g H W d hg hd cmin cmax
  obtain ⟨b1, b2⟩ := np_save_image_rgb r H W C d hr hC hd cmin cmax
  refine ⟨⟨a1, fun i j => ?_⟩, ⟨b1, fun i j k => ?_⟩⟩
  · rw [a2, genLevel_eq_saveLevel _ _ _ _ hc]
  · rw [b2, genLevel_eq_saveLevel _ _ _ _ hc, chanSwap_eq_save]

/-- `C19_image_save_law` for the regenerated pipeline: no value is cast to an unsigned integer outside its range (the flag of the
    program is true) and every stored sample is an integer level in `0 .. 2^d − 1` - all clip ranges `0 ≤ cmin ≤ cmax`, `0 < cmax`,
    both bit depths, 1, 3 and more channels -/
theorem C19_gen_image_save_law (cmin cmax : ℝ) (d : Nat) (hd : d = 8 ∨ d = 16) (h : 0 < cmax) (hc : cmin ≤ cmax) (h0 : 0 ≤ cmin)
    (H W C : Nat) (hC : 3 ≤ C) (g r : Tensor ℝ) (hg : g.shape = [H, W]) (hr : r.shape = [H, W, C]) :
    (GenIC.np_save_image_ok g cmin cmax d = true ∧
      ∀ i j, ∃ k : ℕ, (GenIC.np_save_image g cmin cmax d).get [i, j] = (k : ℝ) ∧ k ≤ 2 ^ d - 1) ∧
    (GenIC.np_save_image_ok r cmin cmax d = true ∧
      ∀ i j c, ∃ k : ℕ, (GenIC.np_save_image r cmin cmax d).get [i, j, c] = (k : ℝ) ∧ k ≤ 2 ^ d - 1) := by
  obtain ⟨⟨_, a2⟩, ⟨_, b2⟩⟩ := C19_gen_np_save_tie cmin cmax d hd hc H W C hC g r hg hr
  refine ⟨⟨np_save_image_ok_of_range g _ hg (by simp) d hd cmin cmax h0 hc h, fun i j => ?_⟩,
    ⟨np_save_image_ok_of_range r _ hr (by simp) d hd cmin cmax h0 hc h, fun i j c => ?_⟩⟩
  · rw [a2]; exact C19_image_save_law cmin cmax d _ h hc h0
  · rw [b2]; exact C19_image_save_law cmin cmax d _ h hc h0

/-- NumPy, one channel `[m x n]`: an image of integer levels `0 .. 2^d − 1` saved with `cmin = 0`, `cmax = 2^d − 1` and loaded back
    is the same tensor (shape and every element); nothing is cast out of range on the way -/
theorem C19_gen_np_roundtrip_gray (img : Tensor ℝ) (H W d : Nat) (hd : d = 8 ∨ d = 16) (hs : img.shape = [H, W])
    (hl : ∀ i j, i < H → j < W → ∃ n : ℕ, n ≤ 2 ^ d - 1 ∧ img.get [i, j] = (n : ℝ)) :
    GenIC.np_save_image_ok img 0 ((2 ^ d - 1 : ℕ) : ℝ) d = true ∧
    (GenIC.np_load_image (pngRoundTrip (GenIC.np_save_image img 0 ((2 ^ d - 1 : ℕ) : ℝ) d)) 0 false).shape = img.shape ∧
    ∀ i j, i < H → j < W →
      (GenIC.np_load_image (pngRoundTrip (GenIC.np_save_image img 0 ((2 ^ d - 1 : ℕ) : ℝ) d)) 0 false).get [i, j] = img.get [i, j] := by
  have hN : (0 : ℝ) < ((2 ^ d - 1 : ℕ) : ℝ) := by
    have : 2 ^ 1 ≤ 2 ^ d := Nat.pow_le_pow_right (by norm_num) (depth_pos hd)
    have : 1 ≤ 2 ^ d - 1 := by omega
    exact_mod_cast this
  obtain ⟨s1, s2⟩ := np_save_image_gray img H W d hs hd 0 ((2 ^ d - 1 : ℕ) : ℝ)
  rw [pngRoundTrip_gray _ H W s1]
  obtain ⟨l1, l2⟩ := np_load_image_gray _ H W s1 0 false
  refine ⟨np_save_image_ok_of_range img _ hs (by simp) d hd 0 _ le_rfl hN.le hN, by rw [l1, hs], fun i j hi hj => ?_⟩
  obtain ⟨n, hn, e⟩ := hl i j hi hj
  rw [l2, loadNorm, if_pos rfl, s2, e, genLevel_eq_saveLevel _ _ _ _ hN.le]
  exact C19_image_levels_roundtrip d (depth_pos hd) n hn

/-- NumPy, three (or more) channels `[m x n x c]`: the loaded tensor equals the saved one - shape, CHANNEL ORDER, every element -/
theorem C19_gen_np_roundtrip_rgb (img : Tensor ℝ) (H W C d : Nat) (hd : d = 8 ∨ d = 16) (hC : 3 ≤ C) (hs : img.shape = [H, W, C])
    (hl : ∀ i j k, i < H → j < W → k < C → ∃ n : ℕ, n ≤ 2 ^ d - 1 ∧ img.get [i, j, k] = (n : ℝ)) :
    GenIC.np_save_image_ok img 0 ((2 ^ d - 1 : ℕ) : ℝ) d = true ∧
    (GenIC.np_load_image (pngRoundTrip (GenIC.np_save_image img 0 ((2 ^ d - 1 : ℕ) : ℝ) d)) 0 false).shape = img.shape ∧
    ∀ i j k, i < H → j < W → k < C →
      (GenIC.np_load_image (pngRoundTrip (GenIC.np_save_image img 0 ((2 ^ d - 1 : ℕ) : ℝ) d)) 0 false).get [i, j, k] =
        img.get [i, j, k] := by
  have hN : (0 : ℝ) < ((2 ^ d - 1 : ℕ) : ℝ) := by
    have : 2 ^ 1 ≤ 2 ^ d := Nat.pow_le_pow_right (by norm_num) (depth_pos hd)
    have : 1 ≤ 2 ^ d - 1 := by omega
    exact_mod_cast this
  obtain ⟨s1, s2⟩ := np_save_image_rgb img H W C d hs hC hd 0 ((2 ^ d - 1 : ℕ) : ℝ)
  rw [pngRoundTrip_rgb _ H W C s1 hC]
  obtain ⟨l1, l2⟩ := np_load_image_rgb _ H W C s1 0
  refine ⟨np_save_image_ok_of_range img _ hs (by simp) d hd 0 _ le_rfl hN.le hN, by rw [l1, hs], fun i j k hi hj hk => ?_⟩
  obtain ⟨n, hn, e⟩ := hl i j k hi hj hk
  rw [l2, loadNorm, if_pos rfl, s2, chanSwap_invol, e, genLevel_eq_saveLevel _ _ _ _ hN.le]
  exact C19_image_levels_roundtrip d (depth_pos hd) n hn

/-- NumPy, one channel given as `[m x n x 1]`: the codec returns `[m x n]`; every sample is the saved one -/
theorem C19_gen_np_roundtrip_single (img : Tensor ℝ) (H W d : Nat) (hd : d = 8 ∨ d = 16) (hs : img.shape = [H, W, 1])
    (hl : ∀ i j, i < H → j < W → ∃ n : ℕ, n ≤ 2 ^ d - 1 ∧ img.get [i, j, 0] = (n : ℝ)) :
    (GenIC.np_load_image (pngRoundTrip (GenIC.np_save_image img 0 ((2 ^ d - 1 : ℕ) : ℝ) d)) 0 false).shape = [H, W] ∧
    ∀ i j, i < H → j < W →
      (GenIC.np_load_image (pngRoundTrip (GenIC.np_save_image img 0 ((2 ^ d - 1 : ℕ) : ℝ) d)) 0 false).get [i, j] =
        img.get [i, j, 0] := by
  have hN : (0 : ℝ) < ((2 ^ d - 1 : ℕ) : ℝ) := by
    have : 2 ^ 1 ≤ 2 ^ d := Nat.pow_le_pow_right (by norm_num) (depth_pos hd)
    have : 1 ≤ 2 ^ d - 1 := by omega
    exact_mod_cast this
  obtain ⟨s1, s2⟩ := np_save_image_single img H W d hs hd 0 ((2 ^ d - 1 : ℕ) : ℝ)
  obtain ⟨p1, p2⟩ := pngRoundTrip_single _ H W s1
  obtain ⟨l1, l2⟩ := np_load_image_gray _ H W p1 0 false
  refine ⟨l1, fun i j hi hj => ?_⟩
  obtain ⟨n, hn, e⟩ := hl i j hi hj
  rw [l2, loadNorm, if_pos rfl, p2, s2, e, genLevel_eq_saveLevel _ _ _ _ hN.le]
  exact C19_image_levels_roundtrip d (depth_pos hd) n hn

/-- the torch saver is the NumPy saver on the moved array: for a channels-first image `[c x m x n]` (the channel count its smallest
    side, which is how the source recognises channels-first) the array handed to `cv2.imwrite` and the cast flag are those of the
    NumPy saver applied to `moved`, `moved[i, j, k] = img[k, i, j]`; in the flat buffers this is the hand-written index pair
    `hwcIndex` / `chwIndex` -/
theorem C19_gen_torch_saver_is_np_saver_on_moved (img : Tensor ℝ) (C H W : Nat) (hs : img.shape = [C, H, W]) (hH : C ≤ H) (hW : C ≤ W)
    (cmin cmax : ℝ) (d : Nat) :
    ∃ moved : Tensor ℝ, moved.shape = [H, W, C] ∧ (∀ i j k, k < C → moved.get [i, j, k] = img.get [k, i, j]) ∧
      (∀ i j k, ravel moved.shape [i, j, k] = hwcIndex C H W i j k ∧ ravel img.shape [k, i, j] = chwIndex C H W k i j) ∧
      GenIC.torch_save_image img cmin cmax d = GenIC.np_save_image moved cmin cmax d ∧
      GenIC.torch_save_image_ok img cmin cmax d = GenIC.np_save_image_ok moved cmin cmax d := by
  obtain ⟨moved, m1, m2, m3, m4⟩ := torch_save_image_chw img C H W hs hH hW cmin cmax d
  refine ⟨moved, m1, m2, fun i j k => ?_, m3, m4⟩
  rw [m1, hs]
  constructor <;> simp [ravel, prod, hwcIndex, chwIndex] <;> ring

/-- a rank-2 image or a channels-last image goes to the NumPy saver unchanged; a rank-4 `[1 x c x m x n]` tensor is squeezed first -/
theorem C19_gen_torch_saver_other_layouts (img : Tensor ℝ) (cmin cmax : ℝ) (d H W C : Nat) :
    (img.shape = [H, W] → GenIC.torch_save_image img cmin cmax d = GenIC.np_save_image img cmin cmax d) ∧
    (img.shape = [H, W, C] → argminList [H, W, C] ≠ 0 →
      GenIC.torch_save_image img cmin cmax d = GenIC.np_save_image img cmin cmax d) ∧
    (img.shape = [1, C, H, W] →
      GenIC.torch_save_image img cmin cmax d = GenIC.torch_save_image (Tensor.squeeze img 0) cmin cmax d ∧
      (Tensor.squeeze img 0).shape = [C, H, W] ∧ ∀ k i j, (Tensor.squeeze img 0).get [k, i, j] = img.get [0, k, i, j]) := by
  refine ⟨fun h => (torch_save_image_plain img _ h (Or.inl rfl) cmin cmax d).1,
    fun h h' => (torch_save_image_plain img _ h (Or.inr ⟨rfl, h'⟩) cmin cmax d).1, fun h => ?_⟩
  obtain ⟨a, b, c, _⟩ := torch_save_image_b1 img C H W h cmin cmax d
  exact ⟨c, a, b⟩

/-- torch, three (or more) channels `[c x m x n]`, `c ≤ m`, `c ≤ n`: saved by the torch saver and loaded with `torch_style = True`
    the tensor of integer levels comes back unchanged - shape, channel order, every element -/
theorem C19_gen_torch_roundtrip_rgb (img : Tensor ℝ) (C H W d : Nat) (hd : d = 8 ∨ d = 16) (hC : 3 ≤ C) (hH : C ≤ H) (hW : C ≤ W)
    (hs : img.shape = [C, H, W])
    (hl : ∀ k i j, k < C → i < H → j < W → ∃ n : ℕ, n ≤ 2 ^ d - 1 ∧ img.get [k, i, j] = (n : ℝ)) :
    GenIC.torch_save_image_ok img 0 ((2 ^ d - 1 : ℕ) : ℝ) d = true ∧
    (GenIC.torch_load_image (pngRoundTrip (GenIC.torch_save_image img 0 ((2 ^ d - 1 : ℕ) : ℝ) d)) 0 true).shape = img.shape ∧
    ∀ k i j, k < C → i < H → j < W →
      (GenIC.torch_load_image (pngRoundTrip (GenIC.torch_save_image img 0 ((2 ^ d - 1 : ℕ) : ℝ) d)) 0 true).get [k, i, j] =
        img.get [k, i, j] := by
  have hN : (0 : ℝ) < ((2 ^ d - 1 : ℕ) : ℝ) := by
    have : 2 ^ 1 ≤ 2 ^ d := Nat.pow_le_pow_right (by norm_num) (depth_pos hd)
    have : 1 ≤ 2 ^ d - 1 := by omega
    exact_mod_cast this
  obtain ⟨moved, m1, m2, m3, m4⟩ := torch_save_image_chw img C H W hs hH hW 0 ((2 ^ d - 1 : ℕ) : ℝ) d
  obtain ⟨s1, s2⟩ := np_save_image_rgb moved H W C d m1 hC hd 0 ((2 ^ d - 1 : ℕ) : ℝ)
  rw [m3, m4, torch_load_image_eq, pngRoundTrip_rgb _ H W C s1 hC]
  obtain ⟨l1, l2⟩ := np_load_image_rgb_torch_style _ H W C s1 0
  refine ⟨np_save_image_ok_of_range moved _ m1 (by simp) d hd 0 _ le_rfl hN.le hN, by rw [l1, hs], fun k i j hk hi hj => ?_⟩
  obtain ⟨n, hn, e⟩ := hl k i j hk hi hj
  rw [l2, loadNorm, if_pos rfl, s2, chanSwap_invol, m2 i j k hk, e, genLevel_eq_saveLevel _ _ _ _ hN.le]
  exact C19_image_levels_roundtrip d (depth_pos hd) n hn

/-- torch, one channel `[1 x m x n]`: the loader returns `[m x n]` (the codec drops the single channel axis and `torch_style` only moves
    an axis of a rank-3 array); every sample is the saved one -/
theorem C19_gen_torch_roundtrip_single (img : Tensor ℝ) (H W d : Nat) (hd : d = 8 ∨ d = 16) (hH : 1 ≤ H) (hW : 1 ≤ W)
    (hs : img.shape = [1, H, W])
    (hl : ∀ i j, i < H → j < W → ∃ n : ℕ, n ≤ 2 ^ d - 1 ∧ img.get [0, i, j] = (n : ℝ)) (ts : Bool) :
    (GenIC.torch_load_image (pngRoundTrip (GenIC.torch_save_image img 0 ((2 ^ d - 1 : ℕ) : ℝ) d)) 0 ts).shape = [H, W] ∧
    ∀ i j, i < H → j < W →
      (GenIC.torch_load_image (pngRoundTrip (GenIC.torch_save_image img 0 ((2 ^ d - 1 : ℕ) : ℝ) d)) 0 ts).get [i, j] =
        img.get [0, i, j] := by
  have hN : (0 : ℝ) < ((2 ^ d - 1 : ℕ) : ℝ) := by
    have : 2 ^ 1 ≤ 2 ^ d := Nat.pow_le_pow_right (by norm_num) (depth_pos hd)
    have : 1 ≤ 2 ^ d - 1 := by omega
    exact_mod_cast this
  obtain ⟨moved, m1, m2, m3, _⟩ := torch_save_image_chw img 1 H W hs hH hW 0 ((2 ^ d - 1 : ℕ) : ℝ) d
  obtain ⟨s1, s2⟩ := np_save_image_single moved H W d m1 hd 0 ((2 ^ d - 1 : ℕ) : ℝ)
  obtain ⟨p1, p2⟩ := pngRoundTrip_single _ H W s1
  rw [m3, torch_load_image_eq]
  obtain ⟨l1, l2⟩ := np_load_image_gray _ H W p1 0 ts
  refine ⟨l1, fun i j hi hj => ?_⟩
  obtain ⟨n, hn, e⟩ := hl i j hi hj
  rw [l2, loadNorm, if_pos rfl, p2, s2, m2 i j 0 (by omega), e, genLevel_eq_saveLevel _ _ _ _ hN.le]
  exact C19_image_levels_roundtrip d (depth_pos hd) n hn

/-- `load_image`: `normalizeby ≠ 0` divides every stored level, AFTER the channel swap named by `loadImageSwaps` and with a true
    division; `torch_style` moves the channel axis of a rank-3 array to the front and leaves a rank-2 array alone -/
theorem C19_gen_load_image (st g : Tensor ℝ) (H W C : Nat) (hs : st.shape = [H, W, C]) (hg : g.shape = [H, W]) (n : ℝ) (hn : n ≠ 0)
    (ts : Bool) :
    ((GenIC.np_load_image st n false).shape = [H, W, C] ∧
      ∀ i j k, (GenIC.np_load_image st n false).get [i, j, k] = st.get [i, j, swapSource loadImageSwaps k] / n) ∧
    ((GenIC.np_load_image st n true).shape = [C, H, W] ∧
      ∀ k i j, (GenIC.np_load_image st n true).get [k, i, j] = st.get [i, j, swapSource loadImageSwaps k] / n) ∧
    ((GenIC.np_load_image g n ts).shape = [H, W] ∧ ∀ i j, (GenIC.np_load_image g n ts).get [i, j] = g.get [i, j] / n) ∧
    GenIC.torch_load_image st n ts = GenIC.np_load_image st n ts := by
  have e : ∀ x : ℝ, loadNorm n x = x / n := fun x => by simp [loadNorm, hn]
  obtain ⟨a1, a2⟩ := np_load_image_rgb st H W C hs n
  obtain ⟨b1, b2⟩ := np_load_image_rgb_torch_style st H W C hs n
  obtain ⟨c1, c2⟩ := np_load_image_gray g H W hg n ts
  exact ⟨⟨a1, fun i j k => by rw [a2, e, chanSwap_eq_load]⟩, ⟨b1, fun k i j => by rw [b2, e, chanSwap_eq_load]⟩,
    ⟨c1, fun i j => by rw [c2, e]⟩, rfl⟩

/-- where the regenerated saver and the hand-written `saveLevel` DIFFER: for a bit depth other than 8 and 16 the source does not cast at
    all (the array handed to the codec holds the scaled, untruncated values; `saveLevel` truncates for every depth), and for
    `cmin > cmax` the two masked assignments of the source end at `cmax` where `saveLevel` clips to `cmin` -/
theorem C19_gen_saver_differs_from_hand_model (img : Tensor ℝ) (H W d : Nat) (hs : img.shape = [H, W]) (h8 : d ≠ 8) (h16 : d ≠ 16)
    (cmin cmax : ℝ) :
    ((GenIC.np_save_image img cmin cmax d).shape = [H, W] ∧
      ∀ i j, (GenIC.np_save_image img cmin cmax d).get [i, j] = clipSeq cmin cmax (img.get [i, j]) / cmax * ((2 : ℝ) ^ d - 1)) ∧
    (clipSeq 2 1 0 = 1 ∧ clip 2 1 0 = 2) :=
  ⟨np_save_image_other_depth img H W d hs h8 h16 cmin cmax, clipSeq_ne_clip_example⟩

/-- how the codec is called: `cv2.imread` with `IMREAD_UNCHANGED` (bit depth and channel count of the file are kept), both on
    `expanduser(fn)`; defaults of the bit depth and of `torch_style` -/
theorem C19_gen_codec_wiring :
    GenIC.np_load_image_wiring = [("imread path", "expanduser(fn)"), ("imread flags", "cv2.IMREAD_UNCHANGED")] ∧
    GenIC.np_save_image_wiring = [("imwrite path", "expanduser(fn)")] ∧
    GenIC.np_save_image_color_depth_default = 8 ∧ GenIC.torch_save_image_color_depth_default = 8 ∧
    GenIC.np_load_image_torch_style_default = false ∧ GenIC.torch_load_image_torch_style_default = false := by decide

/-- non-vacuity: a 2 x 2 image of the levels 0, 1, 254, 255 satisfies the hypotheses of the 8-bit round trip -/
example : ∃ img : Tensor ℝ, img.shape = [2, 2] ∧ ∀ i j, i < 2 → j < 2 → ∃ n : ℕ, n ≤ 2 ^ 8 - 1 ∧ img.get [i, j] = (n : ℝ) :=
  ⟨⟨[2, 2], fun idx => ((if idx = [0, 0] then 0 else if idx = [0, 1] then 1 else if idx = [1, 0] then 254 else 255 : ℕ) : ℝ)⟩, rfl,
    fun i j _ _ => ⟨_, by split_ifs <;> norm_num, rfl⟩⟩

end Odak

/-! ## The PLY writers / reader and the remaining file helpers REGENERATED from the source (`Generated/PlyGen.lean`, regenerated from
  `odak/tools/asset.py` and `odak/tools/file.py` on every run by `harness/translate/plygen.py`; ties: `Lemmas/GenPly.lean`; hand model:
  `OdakModel/Ply.lean`, `OdakModel/Codec.lean`, `OdakModel/FileWiring.lean`).  `plyfile` is a lossless byte codec (parameter of C19): what
  it stores is `plyStoredRows` of the regenerated reference lists, what `read_PLY` gets back is `plyRowPoint` of those rows.
  Coordinates are stored as `f4`: "identical values" is about arrays of float32-representable numbers (the cast is in `plyReadWiring`). -/
namespace Odak
open Odak.Gen

/-- [tie] the regenerated vertex table and face list of `write_PLY_from_points` for an `m x n` grid are the model's: grid point `(i, j)`
    in row `i·n + j` (row-major, row stride = number of COLUMNS), and per cell `(i, j)` the triangles `A = (i+1, j), (i, j), (i, j+1)` and
    `B = (i+1, j), (i, j+1), (i+1, j+1)` as rows of that table (finding F43: with the stride `samples[0]` this does not hold) -/
theorem C19_gen_ply_points_tie (m n : Nat) :
    plyPointsVertices m n = (plyGridVertices m n).map (fun c => [(c.1, c.2, 0), (c.1, c.2, 1), (c.1, c.2, 2)]) ∧
    (plyPointsFaces m n).map (·.1) = plyGridFaces m n ∧
    ∀ f ∈ plyPointsFaces m n, (f.2.1, f.2.2.1, f.2.2.2) = (255, 255, 255) := by
  refine ⟨plyPointsVertices_eq m n, plyPointsFaces_eq m n, ?_⟩
  intro f hf
  simp only [plyPointsFaces, pyRange_zero, List.mem_flatMap, List.mem_append, List.mem_cons, List.mem_nil_iff, or_false] at hf
  obtain ⟨_, _, _, _, rfl | rfl⟩ := hf <;> rfl

/-- every face index is in range: for every `m x n` grid every vertex index of every face written by `write_PLY_from_points` is a row of
    the vertex table it writes (`m·n` rows) -/
theorem C19_gen_ply_faces_in_range (m n : Nat) :
    (plyPointsVertices m n).length = m * n ∧
    ∀ f ∈ plyPointsFaces m n, ∀ v ∈ f.1, v < (plyPointsVertices m n).length := by
  have hl : (plyPointsVertices m n).length = m * n := by rw [plyPointsVertices_eq, List.length_map, length_plyGridVertices]
  refine ⟨hl, fun f hf v hv => ?_⟩
  rw [hl]
  refine plyGridFaces_in_range m n f.1 ?_ v hv
  rw [← plyPointsFaces_eq]
  exact List.mem_map_of_mem hf

/-- the two triangles of cell `(i, j)` are exactly the cell's corner vertices: they are the faces number `2 (i (n-1) + j)` and the next one
    of the regenerated face list, and resolving their indices through the regenerated vertex table gives the array elements of the corners
    `(i+1, j), (i, j), (i, j+1)` and `(i+1, j), (i, j+1), (i+1, j+1)` - all four corners of the cell, the diagonal `(i+1, j) - (i, j+1)`
    shared -/
theorem C19_gen_ply_cell_triangles (m n i j : Nat) (hi : i < m - 1) (hj : j < n - 1) :
    ((plyPointsFaces m n).map (·.1))[(i * (n - 1) + j) * 2]? = some (plyCellFaceA n i j) ∧
    ((plyPointsFaces m n).map (·.1))[(i * (n - 1) + j) * 2 + 1]? = some (plyCellFaceB n i j) ∧
    (plyCellFaceA n i j).map (fun r => (plyPointsVertices m n)[r]?) =
      (plyCellCornersA i j).map (fun c => some [(c.1, c.2, 0), (c.1, c.2, 1), (c.1, c.2, 2)]) ∧
    (plyCellFaceB n i j).map (fun r => (plyPointsVertices m n)[r]?) =
      (plyCellCornersB i j).map (fun c => some [(c.1, c.2, 0), (c.1, c.2, 1), (c.1, c.2, 2)]) := by
  obtain ⟨a, b⟩ := plyGridFaces_index m n i j hi hj
  rw [plyPointsFaces_eq]
  have row : ∀ a b, a < m → b < n →
      (plyPointsVertices m n)[plyGridRow n a b]? = some [(a, b, 0), (a, b, 1), (a, b, 2)] := by
    intro a b ha hb
    rw [plyPointsVertices_eq, List.getElem?_map, plyGridVertices_row m n a b ha hb]; rfl
  refine ⟨a, b, ?_, ?_⟩ <;>
    simp only [plyCellFaceA, plyCellFaceB, plyCellCornersA, plyCellCornersB, List.map_cons, List.map_nil] <;>
    rw [row _ _ (by omega) (by omega), row _ _ (by omega) (by omega), row _ _ (by omega) (by omega)]

/-- all `(m - 1)(n - 1) · 2` faces are distinct, and every face is triangle A or triangle B of a cell of the grid -/
theorem C19_gen_ply_faces_distinct (m n : Nat) :
    (plyPointsFaces m n).length = (m - 1) * (n - 1) * 2 ∧ ((plyPointsFaces m n).map (·.1)).Nodup ∧
    ∀ f ∈ (plyPointsFaces m n).map (·.1), ∃ i j, i < m - 1 ∧ j < n - 1 ∧ (f = plyCellFaceA n i j ∨ f = plyCellFaceB n i j) := by
  refine ⟨?_, by rw [plyPointsFaces_eq]; exact plyGridFaces_nodup m n, fun f hf => ?_⟩
  · rw [← List.length_map (f := (·.1)), plyPointsFaces_eq, length_plyGridFaces]
  · rw [plyPointsFaces_eq] at hf; exact (mem_plyGridFaces m n f).mp hf

/-- `read_PLY(write_PLY_from_points(points))` with the default offset and angles (both zero): for every `m x n x 3` array `A` the returned
    triangles are, cell by cell in row-major order, the corner POINTS `(A[i+1, j], A[i, j], A[i, j+1])` and `(A[i+1, j], A[i, j+1], A[i+1, j+1])` -/
theorem C19_gen_ply_points_roundtrip (m n : Nat) (A : Nat → Nat → Nat → ℝ) :
    plyReadTriangles ⟨0, 0, 0⟩ ⟨0, 0, 0⟩ (plyRowPoint (plyStoredRows A (plyPointsVertices m n))) ((plyPointsFaces m n).map (·.1)) =
      (plyGridCells m n).flatMap fun c =>
        [(plyCellCornersA c.1 c.2).map fun q => plyPoint A q.1 q.2, (plyCellCornersB c.1 c.2).map fun q => plyPoint A q.1 q.2] := by
  rw [plyRead_points]
  have h : ∀ p : Vec3 ℝ, (rotFromOrder .np [.z, .y, .x] (⟨0, 0, 0⟩ : Vec3 ℝ)).mulVec p + ⟨0, 0, 0⟩ = p := by
    intro p; rw [rotFromOrder_zero, Mat3.one_mulVec]; apply Vec3.ext' <;> simp [Vec3.add_def, Vec3.add]
  simp only [h]

/-- `read_PLY(write_PLY(triangles)) = triangles` (default offset and angles): for every number `k` of triangles and every `k x 3 x 3` array
    the `t`-th returned triangle is the `t`-th written one, corner by corner, in order; the written faces are the hand model's `plyFace`
    (`[3t, 3t+1, 3t+2]`, no vertex is shared or de-duplicated: 3 rows per triangle) -/
theorem C19_gen_ply_roundtrip (k : Nat) (T : Nat → Nat → Nat → ℝ) :
    (plyWriteFaces k).map (·.1) = (List.range k).map plyFace ∧ (plyWriteVertices k).length = 3 * k ∧
    plyReadTriangles ⟨0, 0, 0⟩ ⟨0, 0, 0⟩ (plyRowPoint (plyStoredRows T (plyWriteVertices k))) ((plyWriteFaces k).map (·.1)) =
      (List.range k).map fun t => [plyPoint T t 0, plyPoint T t 1, plyPoint T t 2] := by
  refine ⟨plyWriteFaces_eq k, ?_, ?_⟩
  · rw [plyWriteVertices_eq, length_flatMap_range_const _ 3 (fun i => by simp) k, Nat.mul_comm]
  · rw [plyRead_write]
    have h : ∀ p : Vec3 ℝ, (rotFromOrder .np [.z, .y, .x] (⟨0, 0, 0⟩ : Vec3 ℝ)).mulVec p + ⟨0, 0, 0⟩ = p := by
      intro p; rw [rotFromOrder_zero, Mat3.one_mulVec]; apply Vec3.ext' <;> simp [Vec3.add_def, Vec3.add]
    simp only [h, List.map_cons, List.map_nil]

/-- `read_PLY` with an offset and angles: every corner is ROTATED ABOUT THE ORIGIN (mode "XYZ": `Rz Ry Rx`, whatever `mode` the caller of
    `read_PLY` passes) and THEN shifted by the offset; one triangle per face, corners in the order of the face entries -/
theorem C19_gen_ply_read (offset angles : Vec3 ℝ) (vertex : Nat → Vec3 ℝ) (faces : List (List Nat)) :
    plyReadTriangles offset angles vertex faces =
      faces.map fun ids => [0, 1, 2].map fun c => (rotFromOrder .np [.z, .y, .x] angles).mulVec (vertex (ids.getD c 0)) + offset :=
  plyReadTriangles_eq offset angles vertex faces

/-- [regenerated wiring of the three PLY routines] both writers hand `plyfile` the elements `vertex` then `face`, coordinates as `f4`,
    indices as `i4` triples under the name `vertex_indices`, the `text` flag as the (truthy) STRING 'True', and write to `savefn`; the reader
    opens `fn` in binary mode, looks up exactly those element / property names, gives `rotate_point` the keywords `angles` and `offset` only
    (NOT the `mode` parameter of `read_PLY`, which is unused), casts to float32; its defaults are zero offset, zero angles -/
theorem C19_gen_ply_wiring :
    plyPointsWiring = plyWriteWiring ∧
    plyWriteWiring = [("elements", "vertex, face"), ("vertex dtype", "[('x', 'f4'), ('y', 'f4'), ('z', 'f4')]"),
      ("face dtype", "[('vertex_indices', 'i4', (3,)), ('red', 'u1'), ('green', 'u1'), ('blue', 'u1')]"), ("text", "'True'"),
      ("write", "savefn")] ∧
    plyReadWiring = [("open", "fn, 'rb'"),
      ("lookups", "element: face; property of face: vertex_indices; element: vertex; row of vertex: by index"),
      ("rotate_point keywords", "angles, offset"), ("casts", "triangles -> np.float32"), ("default offset", "[0, 0, 0]"),
      ("default angles", "[0.0, 0.0, 0.0]"), ("default mode", "'XYZ'")] := by decide

/-- [regenerated wiring of the file helpers] `save_dictionary`: `json.dump(settings, f, ensure_ascii=False, indent=4)` into
    `open(expanduser(filename), 'w', encoding='utf-8')`, returns `settings`; `load_dictionary`: `json.load(open(expanduser(filename)))` (no
    mode, NO encoding: the reader uses the locale's default where the writer fixes UTF-8); `write_to_text_file`: `open(expanduser(filename),
    write_flag)` with `write_flag = 'w'` by default, one `'{}\n'.format(line)` per item of `content`, returns True; `list_files`:
    `pathlib.Path(expanduser(path)).rglob(key)` when `recursive == True`, `.glob(key)` when `recursive == False` (any other value leaves
    `search_result` unbound), `key = '*.*'` by default, `str` of every item, sorted; `check_directory`: `os.makedirs(expanduser(directory))`
    and False when `os.path.exists(expanduser(directory))` fails, True otherwise; `expanduser` is `os.path.expanduser` -/
theorem C19_gen_file_wiring :
    saveDictionaryWiring = [("parameters", "settings, filename"), ("file variable", "f"), ("open file", "expanduser(filename)"),
      ("open mode", "'w'"), ("open encoding", "'utf-8'"), ("call", "json.dump"), ("dump obj", "settings"), ("dump fp", "f"),
      ("dump ensure_ascii", "False"), ("dump indent", "4"), ("returns", "settings")] ∧
    loadDictionaryWiring = [("parameters", "filename"), ("call", "json.load"), ("open file", "expanduser(filename)"),
      ("assigned to", "settings"), ("returns", "settings")] ∧
    writeToTextFileWiring = [("parameters", "content, filename, write_flag"), ("default write_flag", "'w'"),
      ("open file", "expanduser(filename)"), ("open mode", "write_flag"), ("file variable", "f"), ("loop", "for line in content"),
      ("loop body", "f.write('{}\\n'.format(line))"), ("returns", "True")] ∧
    listFilesWiring = [("parameters", "path, key, recursive"), ("default key", "'*.*'"), ("default recursive", "True"),
      ("if recursive == True", "search_result = pathlib.Path(expanduser(path)).rglob(key)"),
      ("if recursive == False", "search_result = pathlib.Path(expanduser(path)).glob(key)"), ("then", "files_list = []"),
      ("loop", "for item in search_result: files_list.append(str(item))"), ("then ", "files_list = sorted(files_list)"),
      ("returns", "files_list")] ∧
    checkDirectoryWiring = [("parameters", "directory"), ("if", "not os.path.exists(expanduser(directory))"),
      ("then", "os.makedirs(expanduser(directory)); return False"), ("otherwise returns", "True")] ∧
    expanduserWiring = [("parameters", "filename"), ("statement", "new_filename = os.path.expanduser(filename)"),
      ("statement", "return new_filename")] := by decide

/-- dictionaries: with `json.dump` / `json.load` a lossless codec (`dec (enc d) = some d`) and ANY `expanduser`, what `save_dictionary`
    writes under a file name is what `load_dictionary` reads back under the same name - both open `expanduser(filename)`, the dumped object
    is the dictionary, the handle written to is the file opened; every other file is left alone -/
theorem C19_gen_dictionary_roundtrip {D : Type} (enc : D → List Nat) (dec : List Nat → Option D) (h : ∀ d, dec (enc d) = some d)
    (expand : String → String) (fs : FS) (filename : String) (d : D) :
    ∃ fs', saveDictionary enc expand fs filename d = some fs' ∧ loadDictionary dec expand fs' filename = some d ∧
      ∀ q, q ≠ expand filename → fs' q = fs q := by
  refine ⟨fun q => if q = expand filename then some (enc d) else fs q, ?_, ?_, fun q hq => by simp [hq]⟩
  · simp [saveDictionary, wiredPath, saveDictionaryWiring, List.lookup]
  · simp [loadDictionary, wiredPath, loadDictionaryWiring, List.lookup, h]

/-- `check_directory`: returns True and creates nothing when the expanded directory exists; returns False and creates exactly the expanded
    directory when it does not -/
theorem C19_gen_check_directory (exists_ : String → Bool) (expand : String → String) (directory : String) :
    checkDirectory exists_ expand directory =
      some (if exists_ (expand directory) then (true, none) else (false, some (expand directory))) := by
  simp [checkDirectory, checkDirectoryWiring, List.lookup]

/-- non-vacuity: the 2 x 3 grid has 6 vertices and the 4 faces below (stride 3 = number of columns); with the stride `samples[0] = 2` of the
    pre-F43 source the last index would have been `1 + 1 + 1·2 = 4` where `(1, 2)` is row 5 -/
example : (plyPointsFaces 2 3).map (·.1) = [[3, 0, 1], [3, 1, 4], [4, 1, 2], [4, 2, 5]] ∧ (plyPointsVertices 2 3).length = 6 := by decide

example : (plyWriteFaces 2).map (·.1) = [[0, 1, 2], [3, 4, 5]] := by decide

end Odak
