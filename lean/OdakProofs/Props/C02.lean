import OdakProofs.Lemmas.Kernels
import OdakProofs.Lemmas.PropagateLemmas
import OdakProofs.Lemmas.NumpyPipelines
import OdakProofs.Props.C08
import OdakProofs.Lemmas.GenKernels
import OdakProofs.Lemmas.GenPipelines

/-! # C02 – propagation distances compose: 0 is the identity, −z undoes z, z1 then z2 = z1 + z2 -/
namespace Odak

/-- kernel phase is linear in the distance: `H(z1)·H(z2) = H(z1+z2)`, `H(0) = 1`
    (angular spectrum and Fresnel transfer function, both APIs, every grid point) -/
theorem C02_kernel_add_zero (n m : Nat) (dx lam k z1 z2 : ℝ) :
    (CGrid.mul (asKernel n m dx lam z2) (asKernel n m dx lam z1) = asKernel n m dx lam (z1 + z2)) ∧
    (CGrid.mul (tfKernel n m dx lam k z2) (tfKernel n m dx lam k z1) = tfKernel n m dx lam k (z1 + z2)) ∧
    (CGrid.mul (npAsKernel n m dx lam k z2) (npAsKernel n m dx lam k z1) = npAsKernel n m dx lam k (z1 + z2)) ∧
    asKernel n m dx lam 0 = CGrid.const 1 ∧ tfKernel n m dx lam k 0 = CGrid.const 1 ∧
    npAsKernel n m dx lam k 0 = CGrid.const 1 := by
  refine ⟨?_, ?_, ?_, ?_, ?_, ?_⟩ <;> apply Grid.ext_get <;> intro i j
  · rw [CGrid.get_mul, as_add, add_comm]
  · rw [CGrid.get_mul, tf_add, add_comm]
  · rw [CGrid.get_mul, npAs_add, add_comm]
  · rw [as_zero, CGrid.get_const]
  · rw [tf_zero, CGrid.get_const]
  · simp only [npAsKernel, Grid.get_ofFn, CGrid.get_const, mul_zero, zero_mul, expi_zero]

/-- distance 0 is the identity, at every resolution (even, odd, non-square) -/
theorem C02_zero_distance_identity {n m : Nat} (u : CGrid ℝ n m) (dx lam k : ℝ) :
    torchAS u dx lam 0 = u ∧ torchTF u dx lam 0 = u ∧ npAS u dx lam k 0 = u := by
  obtain ⟨_, _, _, h1, h2, h3⟩ := C02_kernel_add_zero n m dx lam k 0 0
  have h2' := (C02_kernel_add_zero n m dx lam (wavenumber lam) 0 0).2.2.2.2.1
  refine ⟨?_, ?_, ?_⟩
  · unfold torchAS; rw [h1]; exact customNoAp_one u
  · unfold torchTF; rw [h2']; exact customNoAp_one u
  · unfold npAS; rw [h3]; exact customNoAp_one u

/-- z1 then z2 equals one propagation by z1 + z2 (no cropping) -/
theorem C02_two_steps_compose {n m : Nat} (u : CGrid ℝ n m) (dx lam k z1 z2 : ℝ) :
    torchAS (torchAS u dx lam z1) dx lam z2 = torchAS u dx lam (z1 + z2) ∧
    torchTF (torchTF u dx lam z1) dx lam z2 = torchTF u dx lam (z1 + z2) ∧
    npAS (npAS u dx lam k z1) dx lam k z2 = npAS u dx lam k (z1 + z2) := by
  obtain ⟨h1, _, h3, _⟩ := C02_kernel_add_zero n m dx lam k z1 z2
  have h2 := (C02_kernel_add_zero n m dx lam (wavenumber lam) z1 z2).2.1
  refine ⟨?_, ?_, ?_⟩
  · unfold torchAS; rw [customNoAp_comp, h1]
  · unfold torchTF; rw [customNoAp_comp, h2]
  · unfold npAS; rw [customNoAp_comp, h3]

/-- −z undoes z -/
theorem C02_negative_distance_undoes {n m : Nat} (u : CGrid ℝ n m) (dx lam k z : ℝ) :
    torchAS (torchAS u dx lam z) dx lam (-z) = u ∧ torchTF (torchTF u dx lam z) dx lam (-z) = u ∧
    npAS (npAS u dx lam k z) dx lam k (-z) = u := by
  obtain ⟨a, b, c⟩ := C02_two_steps_compose u dx lam k z (-z)
  obtain ⟨a0, b0, c0⟩ := C02_zero_distance_identity u dx lam k
  rw [add_neg_cancel] at a b c
  exact ⟨a.trans a0, b.trans b0, c.trans c0⟩

/-- every finite sequence of steps `(z1, …, zk)` equals one propagation by the sum (induction on
    the list of steps) -/
theorem C02_step_sequences_compose {n m : Nat} (u : CGrid ℝ n m) (dx lam k : ℝ) (zs : List ℝ) :
    propagateSeq (fun z v => torchAS v dx lam z) zs u = torchAS u dx lam zs.sum ∧
    propagateSeq (fun z v => torchTF v dx lam z) zs u = torchTF u dx lam zs.sum ∧
    propagateSeq (fun z v => npAS v dx lam k z) zs u = npAS u dx lam k zs.sum := by
  refine ⟨?_, ?_, ?_⟩
  · exact propagateSeq_comp (fun z => asKernel n m dx lam z) (C02_kernel_add_zero n m dx lam k 0 0).2.2.2.1
      (fun a b => (C02_kernel_add_zero n m dx lam k a b).1) zs u
  · exact propagateSeq_comp (fun z => tfKernel n m dx lam (wavenumber lam) z)
      (C02_kernel_add_zero n m dx lam (wavenumber lam) 0 0).2.2.2.2.1
      (fun a b => (C02_kernel_add_zero n m dx lam (wavenumber lam) a b).2.1) zs u
  · exact propagateSeq_comp (fun z => npAsKernel n m dx lam k z) (C02_kernel_add_zero n m dx lam k 0 0).2.2.2.2.2
      (fun a b => (C02_kernel_add_zero n m dx lam k a b).2.2.1) zs u

/-- band-limited method: the mask depends on `z²` only, and on the band both steps pass the
    product of the two kernels is `exp(i (z1+z2) κ)` – the angular-spectrum law on the common band -/
theorem C02_band_limited_composes_on_common_band (n m : Nat) (dx lam z1 z2 : ℝ) (i : Fin n) (j : Fin m)
    (h1 : blMask n m dx lam z1 i j = true) (h2 : blMask n m dx lam z2 i j = true) :
    blMask n m dx lam (-z1) i j = blMask n m dx lam z1 i j ∧
    (blKernel n m dx lam z1).get i j * (blKernel n m dx lam z2).get i j
      = Cx.expi (blPhase n m dx lam (z1 + z2) i j) := by
  refine ⟨blMask_neg n m dx lam z1 i j, ?_⟩
  rw [bl_comp_on_common_band n m dx lam z1 z2 i j h1 h2, blPhase_add]

/-- pad-then-crop at distance 0: with the identity in between, `crop_center ∘ zero_pad` is the
    identity on every axis for every side length (this is C08's round trip, over the regenerated
    index expressions; it fails to prove when crop and pad disagree for odd sides) -/
theorem C02_zero_distance_pad_then_crop (h w : Nat) :
    ((Index.torchCrop false 0 (2 * h) (2 * w) 0 0).comp (Index.torchPad false 0 h w 0 0).2).IsId h ∧
    ((Index.torchCrop false 1 (2 * h) (2 * w) 0 0).comp (Index.torchPad false 1 h w 0 0).2).IsId w :=
  C08_torch_crop_pad_id h w

/-- 'back and forth' kernels: the product of a forward kernel by `z0` and a backward kernel by
    `-(z0 - d)` is the forward kernel by the net distance `d` -/
theorem C02_back_and_forth_product (n m : Nat) (dx lam z0 d : ℝ) :
    CGrid.mul (asKernel n m dx lam (-(z0 - d))) (asKernel n m dx lam z0) = asKernel n m dx lam d := by
  rw [(C02_kernel_add_zero n m dx lam 0 z0 (-(z0 - d))).1]; congr 1; ring

example : ([1.5, -1.5, 0, 2] : List ℝ).sum = 2 := by norm_num

/-- NumPy `transfer_function_fresnel` (shift-first pipeline, not an instance of `customNoAp`):
    z1 then z2 is one propagation by z1 + z2, at every grid size (even, odd, non-square) -/
theorem C02_np_tf_composes {n m : Nat} (u : CGrid ℝ n m) (dx lam k z1 z2 : ℝ) (hdx : 0 < dx) (hm : 0 < m) :
    npTF (npTF u dx lam k z1) dx lam k z2 = npTF u dx lam k (z1 + z2) :=
  npTF_comp u dx lam k z1 z2 (pos_ne m dx hdx hm)

/-- … distance 0 is the identity … -/
theorem C02_np_tf_zero_distance_identity {n m : Nat} (u : CGrid ℝ n m) (dx lam k : ℝ) (hdx : 0 < dx) (hm : 0 < m) :
    npTF u dx lam k 0 = u :=
  npTF_zero_dist u dx lam k (pos_ne m dx hdx hm)

/-- … and −z undoes z -/
theorem C02_np_tf_negative_distance_undoes {n m : Nat} (u : CGrid ℝ n m) (dx lam k z : ℝ) (hdx : 0 < dx) (hm : 0 < m) :
    npTF (npTF u dx lam k z) dx lam k (-z) = u := by
  rw [C02_np_tf_composes u dx lam k z (-z) hdx hm, add_neg_cancel]
  exact C02_np_tf_zero_distance_identity u dx lam k hdx hm

/-- every finite sequence of NumPy Fresnel steps equals one step by the sum -/
theorem C02_np_tf_step_sequences_compose {n m : Nat} (u : CGrid ℝ n m) (dx lam k : ℝ) (zs : List ℝ)
    (hdx : 0 < dx) (hm : 0 < m) :
    propagateSeq (fun z v => npTF v dx lam k z) zs u = npTF u dx lam k zs.sum := by
  induction zs generalizing u with
  | nil =>
    simp only [propagateSeq, List.foldl_nil, List.sum_nil]
    exact (C02_np_tf_zero_distance_identity u dx lam k hdx hm).symm
  | cons z zs ih =>
    have := ih (npTF u dx lam k z)
    simp only [propagateSeq, List.foldl_cons, List.sum_cons] at this ⊢
    rw [this, C02_np_tf_composes u dx lam k z zs.sum hdx hm]

end Odak

/-! ## The same statements for the kernels REGENERATED from the Python source on this run
  (`OdakModel/Generated/WaveKernels.lean`, tied to the hand model by `OdakProofs/Lemmas/GenKernels.lean`). -/
namespace Odak
open Gen

/-- regenerated kernels: the phase is linear in the distance, `H(z1)·H(z2) = H(z1+z2)` and `H(0) = 1` (torch angular spectrum,
    torch Fresnel transfer function, and the kernels built inside NumPy `angular_spectrum` / `transfer_function_fresnel`) -/
theorem C02_gen_kernel_add_zero (n m : Nat) (dx lam k z1 z2 : ℝ) :
    (CGrid.mul (asKernelT n m dx lam z2) (asKernelT n m dx lam z1) = asKernelT n m dx lam (z1 + z2)) ∧
    (CGrid.mul (tfKernelT n m dx lam z2) (tfKernelT n m dx lam z1) = tfKernelT n m dx lam (z1 + z2)) ∧
    (CGrid.mul (asKernelN n m dx lam k z2) (asKernelN n m dx lam k z1) = asKernelN n m dx lam k (z1 + z2)) ∧
    (CGrid.mul (tfKernelN n m dx lam k z2) (tfKernelN n m dx lam k z1) = tfKernelN n m dx lam k (z1 + z2)) ∧
    asKernelT n m dx lam 0 = CGrid.const 1 ∧ tfKernelT n m dx lam 0 = CGrid.const 1 ∧
    asKernelN n m dx lam k 0 = CGrid.const 1 ∧ tfKernelN n m dx lam k 0 = CGrid.const 1 := by
  simp only [gen_asKernelT_eq, gen_tfKernelT_eq, gen_asKernelN_eq, gen_tfKernelN_eq]
  obtain ⟨h1, h2, h3, h4, h5, h6⟩ := C02_kernel_add_zero n m dx lam k z1 z2
  obtain ⟨_, h2', _, _, h5', _⟩ := C02_kernel_add_zero n m dx lam (wavenumber lam) z1 z2
  exact ⟨h1, h2', h3, h2, h4, h5', h6, h5⟩

/-- z1 then z2 equals one propagation by z1 + z2, distance 0 is the identity and −z undoes z, for the generic pipeline
    applied to the regenerated kernels -/
theorem C02_gen_two_steps_compose {n m : Nat} (u : CGrid ℝ n m) (dx lam k z1 z2 : ℝ) :
    customNoAp (customNoAp u (asKernelT n m dx lam z1)) (asKernelT n m dx lam z2) = customNoAp u (asKernelT n m dx lam (z1 + z2)) ∧
    customNoAp (customNoAp u (tfKernelT n m dx lam z1)) (tfKernelT n m dx lam z2) = customNoAp u (tfKernelT n m dx lam (z1 + z2)) ∧
    customNoAp (customNoAp u (asKernelN n m dx lam k z1)) (asKernelN n m dx lam k z2)
      = customNoAp u (asKernelN n m dx lam k (z1 + z2)) ∧
    customNoAp u (asKernelT n m dx lam 0) = u ∧ customNoAp u (tfKernelT n m dx lam 0) = u ∧
    customNoAp u (asKernelN n m dx lam k 0) = u := by
  obtain ⟨a, b, c, _, a0, b0, c0, _⟩ := C02_gen_kernel_add_zero n m dx lam k z1 z2
  refine ⟨?_, ?_, ?_, ?_, ?_, ?_⟩
  · rw [customNoAp_comp, a]
  · rw [customNoAp_comp, b]
  · rw [customNoAp_comp, c]
  · rw [a0]; exact customNoAp_one u
  · rw [b0]; exact customNoAp_one u
  · rw [c0]; exact customNoAp_one u

theorem C02_gen_negative_distance_undoes {n m : Nat} (u : CGrid ℝ n m) (dx lam k z : ℝ) :
    customNoAp (customNoAp u (asKernelT n m dx lam z)) (asKernelT n m dx lam (-z)) = u ∧
    customNoAp (customNoAp u (tfKernelT n m dx lam z)) (tfKernelT n m dx lam (-z)) = u ∧
    customNoAp (customNoAp u (asKernelN n m dx lam k z)) (asKernelN n m dx lam k (-z)) = u := by
  obtain ⟨a, b, c, a0, b0, c0⟩ := C02_gen_two_steps_compose u dx lam k z (-z)
  rw [add_neg_cancel] at a b c
  exact ⟨a.trans a0, b.trans b0, c.trans c0⟩

/-- the NumPy Fresnel method (`npTF`, shift-first pipeline) uses exactly the regenerated kernel, so its composition law is a
    statement about the kernel the source builds now -/
theorem C02_gen_np_tf_kernel_is_regenerated (n m : Nat) (dx lam k z : ℝ) : tfKernel n m dx lam k z = tfKernelN n m dx lam k z :=
  (gen_tfKernelN_eq n m dx lam k z).symm

/-- regenerated torch band-limited kernel: on the band both steps pass, the product of the two kernels is
    `exp(i (z1+z2) κ)` – the angular-spectrum law on the common band -/
theorem C02_gen_band_limited_composes_on_common_band (n m : Nat) (dx lam z1 z2 : ℝ) (i : Fin n) (j : Fin m)
    (h1 : blMask n m dx lam z1 i j = true) (h2 : blMask n m dx lam z2 i j = true) :
    (blKernelT n m dx lam z1).get i j * (blKernelT n m dx lam z2).get i j = Cx.expi (blPhase n m dx lam (z1 + z2) i j) := by
  rw [gen_blKernelT_eq, gen_blKernelT_eq]
  exact (C02_band_limited_composes_on_common_band n m dx lam z1 z2 i j h1 h2).2

/-- 'back and forth' with the regenerated kernel -/
theorem C02_gen_back_and_forth_product (n m : Nat) (dx lam z0 d : ℝ) :
    CGrid.mul (asKernelT n m dx lam (-(z0 - d))) (asKernelT n m dx lam z0) = asKernelT n m dx lam d := by
  simp only [gen_asKernelT_eq]; exact C02_back_and_forth_product n m dx lam z0 d

end Odak

/-! ## The same statements for the PIPELINES regenerated from the Python source on this run
  (`OdakModel/Generated/Pipelines.lean`, tied to the hand model by `OdakProofs/Lemmas/GenPipelines.lean`). -/
namespace Odak
open Gen

/-- regenerated torch `angular_spectrum`, `transfer_function_fresnel` (default aperture, no padding) and NumPy `angular_spectrum`:
    z1 then z2 is one propagation by z1 + z2, distance 0 is the identity, −z undoes z -/
theorem C02_gen_pipelines_compose {n m : Nat} (u : CGrid ℝ n m) (dx lam k z1 z2 : ℝ) :
    (angularSpectrumT (angularSpectrumT u (CGrid.const 1) dx lam z1) (CGrid.const 1) dx lam z2
      = angularSpectrumT u (CGrid.const 1) dx lam (z1 + z2)) ∧
    (transferFunctionFresnelT (transferFunctionFresnelT u (CGrid.const 1) dx lam z1) (CGrid.const 1) dx lam z2
      = transferFunctionFresnelT u (CGrid.const 1) dx lam (z1 + z2)) ∧
    (angularSpectrumN (angularSpectrumN u dx lam k z1) dx lam k z2 = angularSpectrumN u dx lam k (z1 + z2)) ∧
    angularSpectrumT u (CGrid.const 1) dx lam 0 = u ∧ transferFunctionFresnelT u (CGrid.const 1) dx lam 0 = u ∧
    angularSpectrumN u dx lam k 0 = u ∧
    angularSpectrumT (angularSpectrumT u (CGrid.const 1) dx lam z1) (CGrid.const 1) dx lam (-z1) = u ∧
    transferFunctionFresnelT (transferFunctionFresnelT u (CGrid.const 1) dx lam z1) (CGrid.const 1) dx lam (-z1) = u ∧
    angularSpectrumN (angularSpectrumN u dx lam k z1) dx lam k (-z1) = u := by
  have ha : ∀ (v : CGrid ℝ n m) (z : ℝ), angularSpectrumT v (CGrid.const 1) dx lam z = torchAS v dx lam z :=
    fun v z => (gen_torch_methods_eq v dx lam z 0 0 0 0).1
  have ht : ∀ (v : CGrid ℝ n m) (z : ℝ), transferFunctionFresnelT v (CGrid.const 1) dx lam z = torchTF v dx lam z :=
    fun v z => (gen_torch_methods_eq v dx lam z 0 0 0 0).2.2.1
  simp only [ha, ht, gen_angularSpectrumN_eq]
  obtain ⟨a, b, c⟩ := C02_two_steps_compose u dx lam k z1 z2
  obtain ⟨a0, b0, c0⟩ := C02_zero_distance_identity u dx lam k
  obtain ⟨a1, b1, c1⟩ := C02_negative_distance_undoes u dx lam k z1
  exact ⟨a, b, c, a0, b0, c0, a1, b1, c1⟩

/-- every finite sequence of steps through the regenerated pipelines equals one step by the sum of the distances -/
theorem C02_gen_step_sequences_compose {n m : Nat} (u : CGrid ℝ n m) (dx lam k : ℝ) (zs : List ℝ) :
    propagateSeq (fun z v => angularSpectrumT v (CGrid.const 1) dx lam z) zs u = angularSpectrumT u (CGrid.const 1) dx lam zs.sum ∧
    propagateSeq (fun z v => transferFunctionFresnelT v (CGrid.const 1) dx lam z) zs u
      = transferFunctionFresnelT u (CGrid.const 1) dx lam zs.sum ∧
    propagateSeq (fun z v => angularSpectrumN v dx lam k z) zs u = angularSpectrumN u dx lam k zs.sum := by
  have ha : ∀ (v : CGrid ℝ n m) (z : ℝ), angularSpectrumT v (CGrid.const 1) dx lam z = torchAS v dx lam z :=
    fun v z => (gen_torch_methods_eq v dx lam z 0 0 0 0).1
  have ht : ∀ (v : CGrid ℝ n m) (z : ℝ), transferFunctionFresnelT v (CGrid.const 1) dx lam z = torchTF v dx lam z :=
    fun v z => (gen_torch_methods_eq v dx lam z 0 0 0 0).2.2.1
  simp only [ha, ht, gen_angularSpectrumN_eq]
  exact C02_step_sequences_compose u dx lam k zs

/-- the regenerated NumPy `transfer_function_fresnel` composes, has distance 0 as identity, and −z undoes z -/
theorem C02_gen_np_tf_composes {n m : Nat} (u : CGrid ℝ n m) (dx lam k z1 z2 : ℝ) (hdx : 0 < dx) (hm : 0 < m) :
    transferFunctionFresnelN (transferFunctionFresnelN u dx lam k z1) dx lam k z2 = transferFunctionFresnelN u dx lam k (z1 + z2) ∧
    transferFunctionFresnelN u dx lam k 0 = u ∧
    transferFunctionFresnelN (transferFunctionFresnelN u dx lam k z1) dx lam k (-z1) = u := by
  simp only [gen_transferFunctionFresnelN_eq]
  exact ⟨C02_np_tf_composes u dx lam k z1 z2 hdx hm, C02_np_tf_zero_distance_identity u dx lam k hdx hm,
    C02_np_tf_negative_distance_undoes u dx lam k z1 hdx hm⟩

/-- the regenerated `custom` called without a kernel (`kernel = None`: ones) and without an aperture is the identity -/
theorem C02_gen_custom_without_kernel_is_identity {n m : Nat} (u : CGrid ℝ n m) : customOnesT u (CGrid.const 1) = u := by
  rw [gen_customOnesT_eq, custom_const_one]; exact customNoAp_one u

/-- the DEFAULT call of the regenerated torch `propagate_beam` (`zero_padding = [True, False, True]`: `zero_pad`, kernel of the
    doubled size, `crop_center`) at distance 0 returns the field itself, at every resolution (even, odd, non-square): the padded
    propagation is the identity and `crop_center (zero_pad u) = u` sample for sample (regenerated index expressions) -/
theorem C02_gen_default_padding_zero_distance_identity {n m : Nat} (u : CGrid ℝ n m) (Kc : CGrid ℝ (2 * n) (2 * m))
    (dx lam k : ℝ) (s0 s1 s2 s3 : Nat) :
    propagateBeamT_TFT "Angular Spectrum" u (CGrid.const 1) Kc dx lam k 0 s0 s1 s2 s3 = some u ∧
    propagateBeamT_TFT "Transfer Function Fresnel" u (CGrid.const 1) Kc dx lam k 0 s0 s1 s2 s3 = some u := by
  obtain ⟨h1, _, h3⟩ := gen_propagateBeamT_default u Kc dx lam k 0 s0 s1 s2 s3
  obtain ⟨a0, b0, _⟩ := C02_zero_distance_identity (padGrid u) dx lam k
  rw [h1, h3, a0, b0, cropGrid_padGrid]
  exact ⟨rfl, rfl⟩

/-- through the regenerated dispatch of torch `propagate_beam` (no padding, default aperture): two calls with the
    angular-spectrum type compose -/
theorem C02_gen_propagate_beam_composes {n m : Nat} (u Kc : CGrid ℝ n m) (dx lam k z1 z2 : ℝ) (s0 s1 s2 s3 : Nat) :
    (propagateBeamT_FFF "Angular Spectrum" u (CGrid.const 1) Kc dx lam k z1 s0 s1 s2 s3).bind
      (fun v => propagateBeamT_FFF "Angular Spectrum" v (CGrid.const 1) Kc dx lam k z2 s0 s1 s2 s3)
      = propagateBeamT_FFF "Angular Spectrum" u (CGrid.const 1) Kc dx lam k (z1 + z2) s0 s1 s2 s3 := by
  have h : ∀ (v : CGrid ℝ n m) (z : ℝ),
      propagateBeamT_FFF "Angular Spectrum" v (CGrid.const 1) Kc dx lam k z s0 s1 s2 s3 = some (torchAS v dx lam z) := by
    intro v z; simp [gen_beamCore_eq, torchBeamCore, torchKernel, custom_const_one, torchAS]
  simp only [h, Option.bind_some, (C02_two_steps_compose u dx lam k z1 z2).1]

end Odak
