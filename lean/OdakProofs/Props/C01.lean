import OdakProofs.Lemmas.Kernels
import OdakProofs.Lemmas.PropagateLemmas
import OdakProofs.Lemmas.NumpyPipelines
import OdakProofs.Lemmas.GenKernels
import OdakProofs.Lemmas.GenPipelines

/-! # C01 – free-space propagation conserves optical energy and never creates it
  All statements: every grid size `n × m` (even, odd, non-square), every complex field `u`,
  every wavelength, pitch and distance, exact-real semantics of the pipelines
  `OdakModel/Propagate.lean` (torch `custom`, NumPy methods) and kernels `OdakModel/Kernels.lean`. -/
namespace Odak

/-- Under the property's sampling hypothesis `dx ≥ λ/√2` every grid frequency is propagating
    (the square root in the angular-spectrum kernel is taken of a non-negative number on the
    whole grid – proved, not assumed), and the kernel has modulus one at every sample. -/
theorem C01_as_kernel_unit (n m : Nat) (dx lam z : ℝ) (hdx : 0 < dx) (hs : lam ^ 2 ≤ 2 * dx ^ 2) :
    asDefined n m dx lam ∧ ∀ i j, Cx.normSq ((asKernel n m dx lam z).get i j) = 1 :=
  ⟨asDefined_of_sampling n m dx lam hdx hs, fun i j => as_unit n m dx lam z i j⟩

/-- torch angular spectrum, `zero_padding = [False, False, False]`, no aperture: energy unchanged. -/
theorem C01_torch_as_conserves_energy {n m : Nat} (u : CGrid ℝ n m) (dx lam z : ℝ) :
    CGrid.energy (torchAS u dx lam z) = CGrid.energy u :=
  energy_customNoAp_unit u _ (fun i j => as_unit n m dx lam z i j)

/-- torch Fresnel transfer function: energy unchanged, unconditionally. -/
theorem C01_torch_tf_conserves_energy {n m : Nat} (u : CGrid ℝ n m) (dx lam z : ℝ) :
    CGrid.energy (torchTF u dx lam z) = CGrid.energy u :=
  energy_customNoAp_unit u _ (fun i j => tf_unit n m dx lam _ z i j)

/-- NumPy angular spectrum: energy unchanged (any `k` the caller passes). -/
theorem C01_np_as_conserves_energy {n m : Nat} (u : CGrid ℝ n m) (dx lam k z : ℝ) :
    CGrid.energy (npAS u dx lam k z) = CGrid.energy u :=
  energy_customNoAp_unit u _ (fun i j => npAs_unit n m dx lam k z i j)

/-- band-limited angular spectrum (both APIs) can only remove energy … -/
theorem C01_bl_never_creates_energy {n m : Nat} (u : CGrid ℝ n m) (dx lam k z : ℝ) :
    CGrid.energy (torchBL u dx lam z) ≤ CGrid.energy u ∧ CGrid.energy (npBL u dx lam k z) ≤ CGrid.energy u := by
  constructor
  · apply energy_customNoAp_le
    intro i j; rcases bl_zero_or_one n m dx lam z i j with h | h <;> rw [h] <;> norm_num
  · apply energy_customNoAp_le
    intro i j; rcases npBl_zero_or_one n m dx lam k z i j with h | h <;> rw [h] <;> norm_num

/-- … and applying the same band limit a second time removes nothing more. -/
theorem C01_bl_second_application_removes_nothing {n m : Nat} (u : CGrid ℝ n m) (dx lam k z : ℝ) :
    CGrid.energy (torchBL (torchBL u dx lam z) dx lam z) = CGrid.energy (torchBL u dx lam z) ∧
    CGrid.energy (npBL (npBL u dx lam k z) dx lam k z) = CGrid.energy (npBL u dx lam k z) :=
  ⟨customNoAp_idem_energy u _ (fun i j => bl_zero_or_one n m dx lam z i j),
   customNoAp_idem_energy u _ (fun i j => npBl_zero_or_one n m dx lam k z i j)⟩

/-- any Fourier-plane aperture with `|A| ≤ 1` (in particular any binary one) together with any
    kernel of modulus ≤ 1 can only remove energy – torch `custom` as coded. -/
theorem C01_aperture_never_creates_energy {n m : Nat} (u H A : CGrid ℝ n m)
    (hH : ∀ i j, Cx.normSq (H.get i j) ≤ 1) (hA : ∀ i j, Cx.normSq (A.get i j) ≤ 1) :
    CGrid.energy (custom u H A) ≤ CGrid.energy u := energy_custom_le u H A hH hA

/-- a binary aperture applied a second time (with a unit-modulus kernel) removes nothing more -/
theorem C01_binary_aperture_idempotent {n m : Nat} (u H A : CGrid ℝ n m)
    (hH : ∀ i j, Cx.normSq (H.get i j) = 1)
    (hA : ∀ i j, Cx.normSq (A.get i j) = 0 ∨ Cx.normSq (A.get i j) = 1) :
    CGrid.energy (custom (custom u H A) H A) = CGrid.energy (custom u H A) := by
  rw [custom_eq_customNoAp (custom u H A) H A, custom_eq_customNoAp u H A]
  apply customNoAp_idem_energy
  intro i j
  simp only [CGrid.get_mul, Cx.normSq_mul', hH i j, one_mul]
  exact hA i j

/-- non-vacuity: the sampling hypothesis is satisfiable (λ = 1/2, dx = 1) and the energy
    statements have no hypotheses at all -/
example : (0 : ℝ) < 1 ∧ ((1 : ℝ) / 2) ^ 2 ≤ 2 * (1 : ℝ) ^ 2 := by norm_num

/-- NumPy `transfer_function_fresnel` (`ifftshift(ifft2(fftshift(H)·fft2(fftshift u)·c))/c`, which does
    not go through `custom`): the constant `c = (1/(nu·dx))²` cancels, the shifted kernel has unit
    modulus, the shifts are permutations, Parseval both ways — energy unchanged, every grid size. -/
theorem C01_np_tf_conserves_energy {n m : Nat} (u : CGrid ℝ n m) (dx lam k z : ℝ) (hdx : 0 < dx) (hm : 0 < m) :
    CGrid.energy (npTF u dx lam k z) = CGrid.energy u :=
  energy_npTF u dx lam k z (pos_ne m dx hdx hm)

end Odak

/-! ## The same statements for the kernels REGENERATED from the Python source on this run
  (`OdakModel/Generated/WaveKernels.lean`, tied to the hand model by `OdakProofs/Lemmas/GenKernels.lean`).
  They stop compiling when the source's kernel formulas change. -/
namespace Odak
open Gen

/-- the regenerated torch angular-spectrum kernel has modulus one at every sample (and, under `dx ≥ λ/√2`, every grid
    frequency is propagating) -/
theorem C01_gen_as_kernel_unit (n m : Nat) (dx lam z : ℝ) (hdx : 0 < dx) (hs : lam ^ 2 ≤ 2 * dx ^ 2) :
    asDefined n m dx lam ∧ ∀ i j, Cx.normSq ((asKernelT n m dx lam z).get i j) = 1 := by
  rw [gen_asKernelT_eq]; exact C01_as_kernel_unit n m dx lam z hdx hs

/-- the regenerated Fresnel transfer functions (torch, and the one built inside NumPy `transfer_function_fresnel`) and the
    regenerated NumPy angular-spectrum kernel have modulus one at every sample, unconditionally -/
theorem C01_gen_tf_and_np_as_kernel_unit (n m : Nat) (dx lam k z : ℝ) (i : Fin n) (j : Fin m) :
    Cx.normSq ((tfKernelT n m dx lam z).get i j) = 1 ∧ Cx.normSq ((tfKernelN n m dx lam k z).get i j) = 1 ∧
    Cx.normSq ((asKernelN n m dx lam k z).get i j) = 1 := by
  rw [gen_tfKernelT_eq, gen_tfKernelN_eq, gen_asKernelN_eq]
  exact ⟨tf_unit n m dx lam _ z i j, tf_unit n m dx lam k z i j, npAs_unit n m dx lam k z i j⟩

/-- the regenerated band-limited kernels (both APIs) have modulus 0 or 1, in particular ≤ 1, at every sample -/
theorem C01_gen_bl_kernel_modulus_le_one (n m : Nat) (dx lam k z : ℝ) (i : Fin n) (j : Fin m) :
    Cx.normSq ((blKernelT n m dx lam z).get i j) ≤ 1 ∧ Cx.normSq ((blKernelN n m dx lam k z).get i j) ≤ 1 := by
  rw [gen_blKernelT_eq, gen_blKernelN_eq]
  constructor
  · rcases bl_zero_or_one n m dx lam z i j with h | h <;> rw [h] <;> norm_num
  · rcases npBl_zero_or_one n m dx lam k z i j with h | h <;> rw [h] <;> norm_num

/-- the propagation pipeline with the REGENERATED kernels conserves energy (angular spectrum and Fresnel transfer function,
    both APIs; the NumPy Fresnel method through its own shift-first pipeline) -/
theorem C01_gen_kernels_conserve_energy {n m : Nat} (u : CGrid ℝ n m) (dx lam k z : ℝ) :
    CGrid.energy (customNoAp u (asKernelT n m dx lam z)) = CGrid.energy u ∧
    CGrid.energy (customNoAp u (tfKernelT n m dx lam z)) = CGrid.energy u ∧
    CGrid.energy (customNoAp u (asKernelN n m dx lam k z)) = CGrid.energy u := by
  rw [gen_asKernelT_eq, gen_tfKernelT_eq, gen_asKernelN_eq]
  exact ⟨C01_torch_as_conserves_energy u dx lam z, C01_torch_tf_conserves_energy u dx lam z,
    C01_np_as_conserves_energy u dx lam k z⟩

/-- … and with the regenerated band-limited kernels it never creates energy -/
theorem C01_gen_bl_never_creates_energy {n m : Nat} (u : CGrid ℝ n m) (dx lam k z : ℝ) :
    CGrid.energy (customNoAp u (blKernelT n m dx lam z)) ≤ CGrid.energy u ∧
    CGrid.energy (customNoAp u (blKernelN n m dx lam k z)) ≤ CGrid.energy u := by
  rw [gen_blKernelT_eq, gen_blKernelN_eq]
  exact C01_bl_never_creates_energy u dx lam k z

/-- the hand-written pipelines ARE the generic pipeline applied to the regenerated kernels (so every C01 theorem above
    about `torchAS`, `torchTF`, `torchBL`, `npAS`, `npBL` is a theorem about the kernels the source defines now) -/
theorem C01_gen_pipelines_use_regenerated_kernels {n m : Nat} (u : CGrid ℝ n m) (dx lam k z : ℝ) :
    torchAS u dx lam z = customNoAp u (asKernelT n m dx lam z) ∧
    torchTF u dx lam z = customNoAp u (tfKernelT n m dx lam z) ∧
    torchBL u dx lam z = customNoAp u (blKernelT n m dx lam z) ∧
    npAS u dx lam k z = customNoAp u (asKernelN n m dx lam k z) ∧
    npBL u dx lam k z = customNoAp u (blKernelN n m dx lam k z) := by
  rw [gen_asKernelT_eq, gen_tfKernelT_eq, gen_blKernelT_eq, gen_asKernelN_eq, gen_blKernelN_eq]
  exact ⟨rfl, rfl, rfl, rfl, rfl⟩

end Odak

/-! ## The same statements for the PIPELINES regenerated from the Python source on this run
  (`OdakModel/Generated/Pipelines.lean`: which FFT, which shift, which product, in which order; tied to the hand model by
  `OdakProofs/Lemmas/GenPipelines.lean`).  They stop compiling when the order of the operations in `custom`, in a torch method, in
  `propagate_beam` or in a NumPy method changes. -/
namespace Odak
open Gen

/-- the regenerated torch `angular_spectrum` / `transfer_function_fresnel` (default aperture `1.`, no padding) and NumPy
    `angular_spectrum` conserve the energy -/
theorem C01_gen_pipelines_conserve_energy {n m : Nat} (u : CGrid ℝ n m) (dx lam k z : ℝ) :
    CGrid.energy (angularSpectrumT u (CGrid.const 1) dx lam z) = CGrid.energy u ∧
    CGrid.energy (transferFunctionFresnelT u (CGrid.const 1) dx lam z) = CGrid.energy u ∧
    CGrid.energy (angularSpectrumN u dx lam k z) = CGrid.energy u := by
  obtain ⟨h1, _, h3, _⟩ := gen_torch_methods_eq u dx lam z 0 0 0 0
  rw [h1, h3, gen_angularSpectrumN_eq]
  exact ⟨C01_torch_as_conserves_energy u dx lam z, C01_torch_tf_conserves_energy u dx lam z, C01_np_as_conserves_energy u dx lam k z⟩

/-- the regenerated NumPy `transfer_function_fresnel` (shift-first pipeline with the constant `(1/L)²`) conserves the energy -/
theorem C01_gen_np_tf_conserves_energy {n m : Nat} (u : CGrid ℝ n m) (dx lam k z : ℝ) (hdx : 0 < dx) (hm : 0 < m) :
    CGrid.energy (transferFunctionFresnelN u dx lam k z) = CGrid.energy u := by
  rw [gen_transferFunctionFresnelN_eq]; exact C01_np_tf_conserves_energy u dx lam k z hdx hm

/-- the regenerated band-limited pipelines (both APIs) never create energy, and a second application removes nothing more -/
theorem C01_gen_bl_pipelines_never_create_energy {n m : Nat} (u : CGrid ℝ n m) (dx lam k z : ℝ) :
    CGrid.energy (bandLimitedAngularSpectrumT u (CGrid.const 1) dx lam z) ≤ CGrid.energy u ∧
    CGrid.energy (bandLimitedAngularSpectrumN u dx lam k z) ≤ CGrid.energy u ∧
    CGrid.energy (bandLimitedAngularSpectrumT (bandLimitedAngularSpectrumT u (CGrid.const 1) dx lam z) (CGrid.const 1) dx lam z)
      = CGrid.energy (bandLimitedAngularSpectrumT u (CGrid.const 1) dx lam z) ∧
    CGrid.energy (bandLimitedAngularSpectrumN (bandLimitedAngularSpectrumN u dx lam k z) dx lam k z)
      = CGrid.energy (bandLimitedAngularSpectrumN u dx lam k z) := by
  have hb : ∀ v : CGrid ℝ n m, bandLimitedAngularSpectrumT v (CGrid.const 1) dx lam z = torchBL v dx lam z :=
    fun v => (gen_torch_methods_eq v dx lam z 0 0 0 0).2.1
  simp only [hb, gen_bandLimitedAngularSpectrumN_eq]
  exact ⟨(C01_bl_never_creates_energy u dx lam k z).1, (C01_bl_never_creates_energy u dx lam k z).2,
    (C01_bl_second_application_removes_nothing u dx lam k z).1, (C01_bl_second_application_removes_nothing u dx lam k z).2⟩

/-- the regenerated `custom` with any kernel of modulus ≤ 1 and any Fourier-plane aperture with `|A| ≤ 1` never creates energy;
    a binary aperture with a unit-modulus kernel is idempotent in energy -/
theorem C01_gen_custom_aperture_never_creates_energy {n m : Nat} (u H A : CGrid ℝ n m)
    (hH : ∀ i j, Cx.normSq (H.get i j) ≤ 1) (hA : ∀ i j, Cx.normSq (A.get i j) ≤ 1) :
    CGrid.energy (customT u H A) ≤ CGrid.energy u := by
  rw [gen_customT_eq]; exact C01_aperture_never_creates_energy u H A hH hA

theorem C01_gen_custom_binary_aperture_idempotent {n m : Nat} (u H A : CGrid ℝ n m)
    (hH : ∀ i j, Cx.normSq (H.get i j) = 1)
    (hA : ∀ i j, Cx.normSq (A.get i j) = 0 ∨ Cx.normSq (A.get i j) = 1) :
    CGrid.energy (customT (customT u H A) H A) = CGrid.energy (customT u H A) := by
  simp only [gen_customT_eq]; exact C01_binary_aperture_idempotent u H A hH hA

/-- through the regenerated dispatch of torch `propagate_beam` (no padding, default aperture) and of NumPy `propagate_beam`:
    the angular-spectrum and Fresnel transfer-function types return a field of the same energy -/
theorem C01_gen_propagate_beam_conserves_energy {n m : Nat} (u Kc : CGrid ℝ n m) (dx lam k z : ℝ) (s0 s1 s2 s3 : Nat) :
    (∃ v, propagateBeamT_FFF "Angular Spectrum" u (CGrid.const 1) Kc dx lam k z s0 s1 s2 s3 = some v ∧
      CGrid.energy v = CGrid.energy u) ∧
    (∃ v, propagateBeamT_FFF "Transfer Function Fresnel" u (CGrid.const 1) Kc dx lam k z s0 s1 s2 s3 = some v ∧
      CGrid.energy v = CGrid.energy u) ∧
    (∃ v, propagateBeamN "Angular Spectrum" u dx lam k z = some v ∧ CGrid.energy v = CGrid.energy u) := by
  refine ⟨⟨torchAS u dx lam z, ?_, C01_torch_as_conserves_energy u dx lam z⟩,
    ⟨torchTF u dx lam z, ?_, C01_torch_tf_conserves_energy u dx lam z⟩,
    ⟨npAS u dx lam k z, ?_, C01_np_as_conserves_energy u dx lam k z⟩⟩
  · simp [gen_beamCore_eq, torchBeamCore, torchKernel, custom_const_one, torchAS]
  · simp [gen_beamCore_eq, torchBeamCore, torchKernel, custom_const_one, torchTF]
  · simp [gen_propagateBeamN_eq, npBeam]

end Odak
