import OdakProofs.Lemmas.Mat3

/-! # C13 – rotations are rigid and consistent across modes, APIs and inverses
  Axis matrices and mode tables are regenerated from `/repo` (`Odak.Gen.*`). -/
namespace Odak
open Odak.Gen

/-- the standard right-handed axis rotations (angle in radians) -/
noncomputable def stdRot : Axis → ℝ → Mat3 ℝ
  | .x, a => ⟨1, 0, 0, 0, Real.cos a, -Real.sin a, 0, Real.sin a, Real.cos a⟩
  | .y, a => ⟨Real.cos a, 0, Real.sin a, 0, 1, 0, -Real.sin a, 0, Real.cos a⟩
  | .z, a => ⟨Real.cos a, -Real.sin a, 0, Real.sin a, Real.cos a, 0, 0, 0, 1⟩

/-- every axis matrix the library builds (both APIs) is the standard right-handed rotation by
    `deg · π / 180` about its axis -/
theorem C13_axis_matrices_standard (api : Api) (ax : Axis) (deg : ℝ) :
    rotmat api ax deg = stdRot ax (deg * Real.pi / 180) := by
  cases api <;> cases ax <;>
    simp [rotmat, stdRot, npRotmatX, npRotmatY, npRotmatZ, torchRotmatX, torchRotmatY, torchRotmatZ, num_radians]

theorem stdRot_isRot (ax : Axis) (a : ℝ) : IsRot (stdRot ax a) := by
  have h := Real.sin_sq_add_cos_sq a
  cases ax <;> refine ⟨?_, ?_, ?_⟩ <;>
    first
    | (apply Mat3.ext' <;> simp only [stdRot, Mat3.mul_def, Mat3.mul, Mat3.transpose, Mat3.one] <;> nlinarith [h])
    | (simp only [stdRot, Mat3.det]; nlinarith [h])

/-- orthonormal with determinant +1, for all angles (multiples of 90°/360°, negative, huge) -/
theorem C13_axis_matrices_rigid (api : Api) (ax : Axis) (deg : ℝ) : IsRot (rotmat api ax deg) := by
  rw [C13_axis_matrices_standard]; exact stdRot_isRot _ _

/-- every product of axis rotations the library can build – any order list, in particular every
    mode of every table – is orthonormal with determinant +1 -/
theorem C13_rotation_rigid (api : Api) (order : List Axis) (ang : Vec3 ℝ) : IsRot (rotFromOrder api order ang) := by
  unfold rotFromOrder
  induction order with
  | nil => exact isRot_one
  | cons ax rest ih => exact (C13_axis_matrices_rigid api ax _).mul ih

/-- rotating points preserves all pairwise distances (any origin, any offset) -/
theorem C13_preserves_distances (api : Api) (order : List Axis) (ang origin offset p q : Vec3 ℝ) :
    Vec3.normSq (rotatePoint api order ang origin offset p - rotatePoint api order ang origin offset q)
      = Vec3.normSq (p - q) := by
  have h := (C13_rotation_rigid api order ang).dist_preserved (p - origin) (q - origin)
  have e1 : rotatePoint api order ang origin offset p - rotatePoint api order ang origin offset q
      = (rotFromOrder api order ang).mulVec (p - origin) - (rotFromOrder api order ang).mulVec (q - origin) := by
    apply Vec3.ext' <;> simp only [rotatePoint, Vec3.add_def, Vec3.sub_def, Vec3.add, Vec3.sub] <;> ring
  have e2 : (p - origin) - (q - origin) = p - q := by
    apply Vec3.ext' <;> simp only [Vec3.sub_def, Vec3.sub] <;> ring
  rw [e1, h, e2]

/-- the chosen origin is fixed, up to the offset (a pure translation) -/
theorem C13_origin_fixed (api : Api) (order : List Axis) (ang origin offset : Vec3 ℝ) :
    rotatePoint api order ang origin offset origin = origin + offset := by
  apply Vec3.ext' <;>
    simp only [rotatePoint, Vec3.add_def, Vec3.sub_def, Vec3.add, Vec3.sub, Mat3.mulVec, sub_self, mul_zero, add_zero, zero_add]

theorem C13_offset_is_translation (api : Api) (order : List Axis) (ang origin offset p : Vec3 ℝ) :
    rotatePoint api order ang origin offset p = rotatePoint api order ang origin ⟨0, 0, 0⟩ p + offset := by
  apply Vec3.ext' <;> simp only [rotatePoint, Vec3.add_def, Vec3.add, add_zero]

theorem rotmat_zero (api : Api) (ax : Axis) : rotmat api ax (0 : ℝ) = Mat3.one := by
  rw [C13_axis_matrices_standard]
  cases ax <;> simp [stdRot, Mat3.one]

theorem rotFromOrder_zero (api : Api) (order : List Axis) :
    rotFromOrder api order (⟨0, 0, 0⟩ : Vec3 ℝ) = Mat3.one := by
  unfold rotFromOrder
  induction order with
  | nil => rfl
  | cons ax rest ih =>
    simp only [List.foldr_cons, ih]
    have : angleOf (⟨0, 0, 0⟩ : Vec3 ℝ) ax = 0 := by cases ax <;> rfl
    rw [this, rotmat_zero, Mat3.one_mul']

/-- zero angles are the identity (plus the offset) – also on the NumPy early-return path, which
    ignores `origin`: both paths agree -/
theorem C13_zero_angles_identity (api : Api) (order : List Axis) (origin offset p : Vec3 ℝ) :
    rotatePoint api order ⟨0, 0, 0⟩ origin offset p = p + offset ∧
    npRotatePoints order ⟨0, 0, 0⟩ origin offset p true = npRotatePoints order ⟨0, 0, 0⟩ origin offset p false := by
  have hR := rotFromOrder_zero api order
  have hR' := rotFromOrder_zero .np order
  constructor
  · simp only [rotatePoint, hR, Mat3.one_mulVec]
    apply Vec3.ext' <;> simp only [Vec3.add_def, Vec3.sub_def, Vec3.add, Vec3.sub] <;> ring
  · simp only [npRotatePoints, rotatePoint, hR', Mat3.one_mulVec, if_true]
    apply Vec3.ext' <;> simp [Vec3.add_def, Vec3.sub_def, Vec3.add, Vec3.sub] <;> ring

/-- mode tables [regenerated]: every rotation function of both APIs offers the same five modes
    and each mode string "ABC" is the documented product `R_C · R_B · R_A` -/
theorem C13_mode_tables_correct :
    (∀ tbl ∈ [npRotatePointModes, npRotatePointsModes, torchRotatePointsModes, torchGetRotationMatrixModes],
      (∀ e ∈ tbl, e.2 = documentedOrder e.1) ∧
      (∀ mode ∈ ["XYZ", "XZY", "YXZ", "ZXY", "ZYX"], (modeOrder tbl mode).isSome)) ∧
    (∀ wiring ∈ [npRotatePointWiring, npRotatePointsWiring, torchRotatePointsWiring, torchGetRotationMatrixWiring],
      wiring = [(Axis.x, Axis.x, 0), (Axis.y, Axis.y, 1), (Axis.z, Axis.z, 2)]) := by
  decide

/-- NumPy and torch give the same matrices and therefore the same rotated points -/
theorem C13_numpy_torch_agree (order : List Axis) (ang origin offset p : Vec3 ℝ) :
    rotatePoint .np order ang origin offset p = rotatePoint .torch order ang origin offset p := by
  have : ∀ ax d, rotmat .np ax (d : ℝ) = rotmat .torch ax d := by
    intro ax d; rw [C13_axis_matrices_standard, C13_axis_matrices_standard]
  have hR : rotFromOrder .np order ang = rotFromOrder .torch order ang := by
    unfold rotFromOrder
    induction order with
    | nil => rfl
    | cons ax rest ih => simp only [List.foldr_cons, ih, this]
  simp only [rotatePoint, hR]

theorem stdRot_neg (ax : Axis) (a : ℝ) : stdRot ax (-a) = (stdRot ax a).transpose := by
  cases ax <;> simp [stdRot, Mat3.transpose, Real.sin_neg, Real.cos_neg]

theorem rotFromOrder_append (api : Api) (o1 o2 : List Axis) (ang : Vec3 ℝ) :
    rotFromOrder api (o1 ++ o2) ang = rotFromOrder api o1 ang * rotFromOrder api o2 ang := by
  unfold rotFromOrder
  induction o1 with
  | nil => simp [Mat3.one_mul']
  | cons ax rest ih => simp only [List.cons_append, List.foldr_cons, ih, Mat3.mul_assoc']

/-- rotating back with negated angles in the reversed order restores the points: the matrix of
    (reversed order, −angles) is the transpose = inverse of the matrix of (order, angles).
    With `documentedOrder`, reversing the order list is reversing the mode string
    (`bring_plane_to_origin` uses `mode[::-1]`), which is offered for XYZ/ZYX and YXZ/ZXY. -/
theorem C13_inverse_by_reversed_mode (api : Api) (order : List Axis) (ang : Vec3 ℝ) :
    rotFromOrder api order.reverse ⟨-ang.x, -ang.y, -ang.z⟩ * rotFromOrder api order ang = Mat3.one ∧
    ∀ p : Vec3 ℝ, (rotFromOrder api order.reverse ⟨-ang.x, -ang.y, -ang.z⟩).mulVec
        ((rotFromOrder api order ang).mulVec p) = p := by
  have key : rotFromOrder api order.reverse ⟨-ang.x, -ang.y, -ang.z⟩ = (rotFromOrder api order ang).transpose := by
    induction order with
    | nil => simp [rotFromOrder, Mat3.transpose_one]
    | cons ax rest ih =>
      rw [List.reverse_cons, rotFromOrder_append, ih]
      have h1 : rotFromOrder api [ax] (⟨-ang.x, -ang.y, -ang.z⟩ : Vec3 ℝ) = (rotmat api ax (angleOf ang ax)).transpose := by
        simp only [rotFromOrder, List.foldr_cons, List.foldr_nil, Mat3.mul_one']
        have : angleOf (⟨-ang.x, -ang.y, -ang.z⟩ : Vec3 ℝ) ax = -(angleOf ang ax) := by cases ax <;> rfl
        rw [this, C13_axis_matrices_standard, C13_axis_matrices_standard]
        rw [show -(angleOf ang ax) * Real.pi / 180 = -(angleOf ang ax * Real.pi / 180) by ring, stdRot_neg]
      rw [h1]
      show _ = (rotFromOrder api (ax :: rest) ang).transpose
      have h2 : rotFromOrder api (ax :: rest) ang = rotmat api ax (angleOf ang ax) * rotFromOrder api rest ang := by
        simp [rotFromOrder]
      rw [h2, Mat3.transpose_mul]
  have hrot := C13_rotation_rigid api order ang
  constructor
  · rw [key]; exact hrot.left
  · intro p
    rw [← Mat3.mulVec_mul, key, hrot.left, Mat3.one_mulVec]

/-- reversing the mode string reverses the documented order -/
example : documentedOrder "ZYX" = (documentedOrder "XYZ").reverse ∧ documentedOrder "ZXY" = (documentedOrder "YXZ").reverse := by decide

end Odak
