import OdakProofs.Lemmas.Mat3
import OdakProofs.Lemmas.GenGeometry
import OdakProofs.Lemmas.GenSamplers
import OdakProofs.Lemmas.GenRayCreate
import OdakProofs.Lemmas.GenSamplersMore
import OdakProofs.Props.C13
import OdakModel.Rays
import Mathlib.Analysis.SpecialFunctions.Trigonometric.Inverse
import Mathlib.Tactic.Positivity
import Mathlib.Tactic.GCongr

/-! # C14 – generated rays and sample points lie where their description says -/
namespace Odak
open Odak.Gen

theorem Vec3.normSq_nonneg (v : Vec3 ℝ) : 0 ≤ Vec3.normSq v := by
  simp only [Vec3.normSq, Vec3.dot]; nlinarith [sq_nonneg v.x, sq_nonneg v.y, sq_nonneg v.z]

theorem Vec3.normSq_eq_zero {v : Vec3 ℝ} (h : Vec3.normSq v = 0) : v = ⟨0, 0, 0⟩ := by
  simp only [Vec3.normSq, Vec3.dot] at h
  have hx : v.x = 0 := by nlinarith [sq_nonneg v.x, sq_nonneg v.y, sq_nonneg v.z]
  have hy : v.y = 0 := by nlinarith [sq_nonneg v.x, sq_nonneg v.y, sq_nonneg v.z]
  have hz : v.z = 0 := by nlinarith [sq_nonneg v.x, sq_nonneg v.y, sq_nonneg v.z]
  exact Vec3.ext' hx hy hz

/-- rays from two distinct points: unit direction cosines, and travelling the distance between the
    points along them reaches the end point -/
theorem C14_two_points (p0 p1 : Vec3 ℝ) (hne : p0 ≠ p1) :
    Vec3.normSq (rayDirTwoPoints p0 p1) = 1 ∧
    p0 + Vec3.smul (Vec3.norm (p1 - p0)) (rayDirTwoPoints p0 p1) = p1 := by
  have hpos : 0 < Vec3.normSq (p1 - p0) := by
    rcases (Vec3.normSq_nonneg (p1 - p0)).lt_or_eq with h | h
    · exact h
    · exfalso; apply hne
      have := Vec3.normSq_eq_zero h.symm
      have hx := congrArg Vec3.x this; have hy := congrArg Vec3.y this; have hz := congrArg Vec3.z this
      simp only [Vec3.sub_def, Vec3.sub] at hx hy hz
      exact Vec3.ext' (by linarith) (by linarith) (by linarith)
  have hn : Vec3.norm (p1 - p0) = Real.sqrt (Vec3.normSq (p1 - p0)) := rfl
  have hn0 : 0 < Vec3.norm (p1 - p0) := by rw [hn]; exact Real.sqrt_pos.mpr hpos
  have hsq : Vec3.norm (p1 - p0) * Vec3.norm (p1 - p0) = Vec3.normSq (p1 - p0) := by
    rw [hn]; exact Real.mul_self_sqrt hpos.le
  constructor
  · have e : Vec3.normSq (rayDirTwoPoints p0 p1) = Vec3.normSq (p1 - p0) / (Vec3.norm (p1 - p0) * Vec3.norm (p1 - p0)) := by
      simp only [rayDirTwoPoints, Vec3.sdiv, Vec3.normSq, Vec3.dot]; field_simp
    rw [e, hsq, div_self hpos.ne']
  · have hN : Vec3.norm (p1 - p0) ≠ 0 := hn0.ne'
    unfold rayDirTwoPoints
    generalize Vec3.norm (p1 - p0) = N at hN
    apply Vec3.ext' <;>
      simp only [Vec3.sdiv, Vec3.smul, Vec3.add_def, Vec3.add, Vec3.sub_def, Vec3.sub] <;>
      field_simp <;> ring

/-- coincident points: the length is zero, which the code replaces by NaN (flagged, not a direction) -/
theorem C14_coincident_points_zero_length (p : Vec3 ℝ) : Vec3.norm (p - p) = 0 := by
  simp [Vec3.norm, Vec3.normSq, Vec3.dot, Vec3.sub_def, Vec3.sub]

/-- all-pairs construction: `m·n` rays, ray number `i·n + j` goes from start `i` to end `j` (row-major) -/
theorem C14_all_pairs_row_major (m n i j : Nat) (hi : i < m) (hj : j < n) :
    allPairsIndex n (i * n + j) = (i, j) ∧ i * n + j < m * n := by
  constructor
  · simp only [allPairsIndex]
    have hn : 0 < n := by omega
    rw [Nat.add_comm, Nat.add_mul_div_right _ _ hn, Nat.add_mul_mod_self_right, Nat.div_eq_of_lt hj,
      Nat.mod_eq_of_lt hj]; simp
  · calc i * n + j < i * n + n := by omega
      _ = (i + 1) * n := by ring
      _ ≤ m * n := Nat.mul_le_mul_right n hi

theorem coneLocal_unit (θ φ : ℝ) : Vec3.normSq (coneLocal θ φ) = 1 := by
  simp only [coneLocal, Vec3.normSq, Vec3.dot, num_sin, num_cos]
  nlinarith [Real.sin_sq_add_cos_sq θ, Real.sin_sq_add_cos_sq φ, sq_nonneg (Real.sin θ)]

/-- luminous-angle rays (coefficient regenerated from the source, both generators): for every uniform
    variate `U ∈ [0,1]`, `V`, every tilt and every limit `α ∈ [0°, 180°]` the emitted direction has
    unit length and its cosine with the tilted axis `R ẑ` is `cos θ ≥ cos α`: it deviates from the
    axis by no more than the limit. -/
theorem C14_cone_within_limit (tilt : Vec3 ℝ) (limitDeg U V : ℝ) (hU0 : 0 ≤ U) (hU1 : U ≤ 1)
    (hl0 : 0 ≤ limitDeg) (hl1 : limitDeg ≤ 180) :
    ∀ c ∈ [(coneCoeffPoint : ℝ), coneCoeffGrid],
      Vec3.normSq (coneDir c tilt limitDeg U V) = 1 ∧
      Real.cos (limitDeg * Real.pi / 180) ≤
        Vec3.dot (coneDir c tilt limitDeg U V) ((coneTilt tilt).mulVec ⟨0, 0, 1⟩) ∧
      Vec3.dot (coneDir c tilt limitDeg U V) ((coneTilt tilt).mulVec ⟨0, 0, 1⟩) ≤ 1 := by
  intro c hc
  have hc1 : c = 1 := by
    rcases List.mem_cons.mp hc with h | h
    · rw [h]; simp [coneCoeffPoint]
    · rw [List.mem_singleton.mp h]; simp [coneCoeffGrid]
  subst hc1
  have hR := C13_rotation_rigid .torch [.z, .y, .x] tilt
  set cosA := Real.cos (limitDeg * Real.pi / 180) with hcosA
  have hcA1 : cosA ≤ 1 := Real.cos_le_one _
  have hcA0 : -1 ≤ cosA := Real.neg_one_le_cos _
  set ct := coneCosTheta (1 : ℝ) U cosA with hct
  have hct_val : ct = 1 - U * (1 - cosA) := by simp [hct, coneCosTheta]
  have h_lo : cosA ≤ ct := by rw [hct_val]; nlinarith
  have h_hi : ct ≤ 1 := by rw [hct_val]; nlinarith
  have hdir : coneDir (1 : ℝ) tilt limitDeg U V
      = (coneTilt tilt).mulVec (coneLocal (Real.arccos ct) (2 * Real.pi * V)) := by
    simp [coneDir, hct, hcosA]
  rw [hdir]
  refine ⟨?_, ?_, ?_⟩
  · unfold coneTilt; rw [hR.normSq_mulVec, coneLocal_unit]
  all_goals
    have hdot : Vec3.dot ((coneTilt tilt).mulVec (coneLocal (Real.arccos ct) (2 * Real.pi * V)))
        ((coneTilt tilt).mulVec ⟨0, 0, 1⟩) = ct := by
      unfold coneTilt
      rw [hR.dot_mulVec]
      simp only [coneLocal, Vec3.dot, num_sin, num_cos, mul_zero, mul_one, add_zero, zero_add]
      exact Real.cos_arccos (by linarith) h_hi
    rw [hdot]
  · exact h_lo
  · exact h_hi

/-- grid sampler: every lattice point lies on the described rectangle (before tilt and centre) -/
theorem C14_grid_on_rectangle (no0 no1 : Nat) (s0 s1 : ℝ) (h0 : 2 ≤ no0) (h1 : 2 ≤ no1) (hs0 : 0 ≤ s0) (hs1 : 0 ≤ s1)
    (i j : Nat) (hi : i < no0) (hj : j < no1) :
    |(gridPoint no0 no1 s0 s1 i j).x| ≤ s0 / 2 ∧ |(gridPoint no0 no1 s0 s1 i j).y| ≤ s1 / 2 ∧
    (gridPoint no0 no1 s0 s1 i j).z = 0 := by
  have key : ∀ (no : Nat) (s : ℝ) (t : Nat), 2 ≤ no → 0 ≤ s → t < no →
      |(t : ℝ) * (s / ((no - 1 : Nat) : ℝ)) - s / 2| ≤ s / 2 := by
    intro no s t hno hs ht
    have hd : (0 : ℝ) < ((no - 1 : Nat) : ℝ) := by
      have : 0 < no - 1 := by omega
      exact_mod_cast this
    have htn : (t : ℝ) ≤ ((no - 1 : Nat) : ℝ) := by
      have : t ≤ no - 1 := by omega
      exact_mod_cast this
    have ht0 : (0 : ℝ) ≤ (t : ℝ) := Nat.cast_nonneg t
    have hq0 : 0 ≤ (t : ℝ) * (s / ((no - 1 : Nat) : ℝ)) := mul_nonneg ht0 (div_nonneg hs hd.le)
    have hq1 : (t : ℝ) * (s / ((no - 1 : Nat) : ℝ)) ≤ s := by
      rw [mul_div_assoc']
      rw [div_le_iff₀ hd]; nlinarith
    rw [abs_le]; constructor <;> linarith
  simp only [gridPoint, num_ofNat, num_two]
  exact ⟨key no0 s0 i h0 hs0 hi, key no1 s1 j h1 hs1 hj, trivial⟩

/-- box sampler: every cell centre lies strictly inside the box -/
theorem C14_box_in_box (no0 no1 no2 : Nat) (s0 s1 s2 : ℝ) (hs0 : 0 < s0) (hs1 : 0 < s1) (hs2 : 0 < s2)
    (i j k : Nat) (hi : i < no0) (hj : j < no1) (hk : k < no2) :
    |(boxPoint no0 no1 no2 s0 s1 s2 i j k).x| < s0 / 2 ∧ |(boxPoint no0 no1 no2 s0 s1 s2 i j k).y| < s1 / 2 ∧
    |(boxPoint no0 no1 no2 s0 s1 s2 i j k).z| < s2 / 2 := by
  have key : ∀ (no : Nat) (s : ℝ) (t : Nat), 0 < s → t < no →
      |(t : ℝ) * (s / (no : ℝ)) + s / (no : ℝ) / 2 - s / 2| < s / 2 := by
    intro no s t hs ht
    have hno : (0 : ℝ) < (no : ℝ) := by
      have : 0 < no := by omega
      exact_mod_cast this
    have ht1 : (t : ℝ) + 1 ≤ (no : ℝ) := by
      have : t + 1 ≤ no := by omega
      exact_mod_cast this
    have ht0 : (0 : ℝ) ≤ (t : ℝ) := Nat.cast_nonneg t
    have hstep : 0 < s / (no : ℝ) := div_pos hs hno
    have hup : ((t : ℝ) + 1) * (s / (no : ℝ)) ≤ s := by
      rw [mul_div_assoc', div_le_iff₀ hno]; nlinarith
    rw [abs_lt]; constructor <;> nlinarith
  simp only [boxPoint, num_ofNat, num_two]
  exact ⟨key no0 s0 i hs0 hi, key no1 s1 j hs1 hj, key no2 s2 k hs2 hk⟩

/-- circular sampler: every point lies in the disc of the requested radius, in the plane z = 0 -/
theorem C14_circular_in_disc (no0 no1 : Nat) (radius : ℝ) (hr : 0 ≤ radius) (a r : Nat) (hr1 : r ≤ no1) (hno1 : 0 < no1) :
    Vec3.normSq (circularPoint no0 no1 radius a r) ≤ radius ^ 2 ∧ (circularPoint no0 no1 radius a r).z = 0 := by
  constructor
  · simp only [circularPoint, Vec3.normSq, Vec3.dot, num_ofNat, num_cos, num_sin, num_pi, num_two, mul_zero, add_zero]
    set ang := (a : ℝ) / (no0 : ℝ) * Real.pi * 2
    set rr := (r : ℝ) / (no1 : ℝ) * radius with hrr
    have h1 : rr * Real.cos ang * (rr * Real.cos ang) + rr * Real.sin ang * (rr * Real.sin ang) = rr ^ 2 := by
      nlinarith [Real.sin_sq_add_cos_sq ang]
    rw [h1]
    have hq : (r : ℝ) / (no1 : ℝ) ≤ 1 := by
      rw [div_le_one (by exact_mod_cast hno1)]; exact_mod_cast hr1
    have hq0 : 0 ≤ (r : ℝ) / (no1 : ℝ) := by positivity
    have : rr ≤ radius := by rw [hrr]; nlinarith
    have hrr0 : 0 ≤ rr := by rw [hrr]; positivity
    nlinarith
  · rfl

/-- spherical sampler: every point lies on the sphere of the requested radius about the requested
    centre (all three coordinates of the centre are used) -/
theorem C14_sphere_on_sphere (no0 no1 : Nat) (radius : ℝ) (center : Vec3 ℝ) (k0 k1 : ℝ) (i j : Nat) :
    Vec3.normSq (spherePoint no0 no1 radius center k0 k1 i j - center) = radius ^ 2 := by
  simp only [spherePoint, Vec3.normSq, Vec3.dot, Vec3.sub_def, Vec3.sub, num_ofNat, num_cos, num_sin, num_pi,
    add_sub_cancel_left]
  set psi := k0 * Real.pi / (no0 : ℝ) * (i : ℝ)
  set teta := k1 * Real.pi / (no1 : ℝ) * (j : ℝ)
  nlinarith [Real.sin_sq_add_cos_sq psi, Real.sin_sq_add_cos_sq teta, sq_nonneg (Real.sin psi), sq_nonneg radius,
    mul_self_nonneg (radius * Real.sin psi)]

/-- tilt and centre: the final placement is a rigid motion that maps the local origin to `center` -/
theorem C14_placement_rigid (angles center p q : Vec3 ℝ) :
    Vec3.normSq (placeSample angles center p false - placeSample angles center q false) = Vec3.normSq (p - q) ∧
    placeSample angles center ⟨0, 0, 0⟩ false = center := by
  constructor
  · simp only [placeSample, npRotatePoints, Bool.false_eq_true, if_false]
    exact C13_preserves_distances .np _ angles ⟨0, 0, 0⟩ center p q
  · simp only [placeSample, npRotatePoints, Bool.false_eq_true, if_false]
    rw [C13_origin_fixed]
    apply Vec3.ext' <;> simp [Vec3.add_def, Vec3.add]

/-- non-vacuity -/
example : (0 : ℝ) ≤ 1 / 2 ∧ (1 / 2 : ℝ) ≤ 1 ∧ (0 : ℝ) ≤ 60 ∧ (60 : ℝ) ≤ 180 := by norm_num

end Odak

/-! ## The same conclusions for the definitions REGENERATED from the Python source
  (`Generated/GeometryGen.lean`, tied to the model by `Lemmas/GenGeometry.lean`).  `…T` = torch, `…N` = NumPy. -/
namespace Odak
open Odak.Gen

/-- generated `create_ray_from_two_points` (both APIs), distinct points: the ray starts at the first point, has unit
    direction cosines, and travelling the distance between the points along them reaches the second point -/
theorem C14_gen_two_points (p0 p1 : Vec3 ℝ) (hne : p0 ≠ p1) :
    ∀ ray ∈ [twoPointsT p0 p1, twoPointsN p0 p1],
      ray.o = p0 ∧ Vec3.normSq ray.d = 1 ∧ ray.o + Vec3.smul (Vec3.norm (p1 - p0)) ray.d = p1 := by
  intro ray h
  have e : ray = ⟨p0, rayDirTwoPoints p0 p1⟩ := by
    rcases List.mem_cons.mp h with h | h
    · rw [h, twoPointsT_eq]
    · rw [List.mem_singleton.mp h, twoPointsN_eq]
  subst e
  exact ⟨rfl, C14_two_points p0 p1 hne⟩

/-- generated NumPy `propagate_a_ray` composed with the generated two-point ray: propagating by the distance between the
    points lands on the second point and keeps the unit direction -/
theorem C14_gen_two_points_propagate_n (p0 p1 : Vec3 ℝ) (hne : p0 ≠ p1) :
    (propagateARayN (twoPointsN p0 p1) (Vec3.norm (p1 - p0))).o = p1 ∧
    Vec3.normSq (propagateARayN (twoPointsN p0 p1) (Vec3.norm (p1 - p0))).d = 1 := by
  rw [propagateARayN_eq, twoPointsN_eq]
  exact ⟨(C14_two_points p0 p1 hne).2, (C14_two_points p0 p1 hne).1⟩

/-- generated torch `propagate_ray`: the start point moves by `distance` along the direction (as in NumPy), but the returned
    direction cosines are zero, whatever the input direction (the source fills only the start point of a zero tensor) -/
theorem C14_gen_propagate_ray_t (r : Ray ℝ) (t : ℝ) :
    (propagateRayT r t).o = (propagateARayN r t).o ∧ (propagateRayT r t).d = ⟨0, 0, 0⟩ := by
  rw [propagateRayT_eq, propagateARayN_eq]; exact ⟨rfl, rfl⟩

end Odak

/-! ## The sample-point and ray generators REGENERATED from the Python source (`Generated/Samplers.lean`, tied to the model by
  `Lemmas/GenSamplers.lean`): one row `idx` of the returned array.  `…N` = NumPy, `…T` = torch. -/
namespace Odak
open Odak.Gen

/-- exact counts: the number of rows every generator returns, as the reshape / slicing of the source gives it -/
theorem C14_gen_counts (no0 no1 no2 m n num : Nat) :
    gridSampleNCount no0 no1 = no0 * no1 ∧ gridSampleTCount no0 no1 = no0 * no1 ∧
    boxVolumeSampleNCount no0 no1 no2 = no0 * no1 * no2 ∧ circularSampleNCount no0 no1 = no0 * no1 ∧
    sphereSampleNCount no0 no1 = no0 * no1 ∧ sphereSampleUniformNCount no0 no1 = no0 * no1 ∧
    allPairsRayTCount m n = m * n ∧ luminousPointRayTCount num = num ∧ luminousGridRayTCount no0 no1 num = num * (no0 * no1) :=
  ⟨rfl, rfl, rfl, rfl, rfl, rfl, rfl, rfl, rfl⟩

/-- generated `grid_sample` (both APIs): every returned row is the placement (tilt about the origin, then shift to the centre) of
    a point of the described `size0 x size1` rectangle in the plane z = 0; NumPy and torch use the same lattice point; rows are
    in row-major order -/
theorem C14_gen_grid_on_rectangle (no0 no1 : Nat) (s0 s1 : ℝ) (center angles : Vec3 ℝ) (z : Bool)
    (h0 : 2 ≤ no0) (h1 : 2 ≤ no1) (hs0 : 0 ≤ s0) (hs1 : 0 ≤ s1) (idx : Nat) (hidx : idx < gridSampleNCount no0 no1) :
    ∃ p : Vec3 ℝ, |p.x| ≤ s0 / 2 ∧ |p.y| ≤ s1 / 2 ∧ p.z = 0 ∧
      gridSampleN no0 no1 s0 s1 center angles z idx = placeSample angles center p z ∧
      gridSampleT no0 no1 s0 s1 center angles idx = rotatePoint .torch [.z, .y, .x] angles ⟨0, 0, 0⟩ center p := by
  obtain ⟨hi, hj⟩ := unflat_lt idx no0 no1 hidx
  obtain ⟨hx, hy, hz⟩ := C14_grid_on_rectangle no0 no1 s0 s1 h0 h1 hs0 hs1 _ _ hi hj
  exact ⟨_, hx, hy, hz, gridSampleN_eq .., gridSampleT_eq ..⟩

/-- … and row `i·no1 + j` is lattice point `(i, j)` -/
theorem C14_gen_grid_row_major (no0 no1 : Nat) (s0 s1 : ℝ) (center angles : Vec3 ℝ) (z : Bool) (i j : Nat) (hi : i < no0)
    (hj : j < no1) :
    i * no1 + j < gridSampleNCount no0 no1 ∧
    gridSampleN no0 no1 s0 s1 center angles z (i * no1 + j) = placeSample angles center (gridPoint no0 no1 s0 s1 i j) z := by
  obtain ⟨e1, e2⟩ := flat_div_mod i j no1 hj
  refine ⟨(C14_all_pairs_row_major no0 no1 i j hi hj).2, ?_⟩
  rw [gridSampleN_eq, e1, e2]

/-- generated `box_volume_sample`: every returned row is the placement of a point strictly inside the described box -/
theorem C14_gen_box_in_box (no0 no1 no2 : Nat) (s0 s1 s2 : ℝ) (center angles : Vec3 ℝ) (z : Bool)
    (hs0 : 0 < s0) (hs1 : 0 < s1) (hs2 : 0 < s2) (idx : Nat) (hidx : idx < boxVolumeSampleNCount no0 no1 no2) :
    ∃ p : Vec3 ℝ, |p.x| < s0 / 2 ∧ |p.y| < s1 / 2 ∧ |p.z| < s2 / 2 ∧
      boxVolumeSampleN no0 no1 no2 s0 s1 s2 center angles z idx = placeSample angles center p z := by
  have hidx' : idx < no0 * (no1 * no2) := by rw [← Nat.mul_assoc]; exact hidx
  obtain ⟨hi, hjk⟩ := unflat_lt idx no0 (no1 * no2) hidx'
  have hk0 : 0 < no2 := by
    rcases Nat.eq_zero_or_pos no2 with h | h
    · subst h; simp at hjk
    · exact h
  have hj0 : 0 < no1 := by
    rcases Nat.eq_zero_or_pos no1 with h | h
    · subst h; simp at hjk
    · exact h
  have hj : idx / no2 % no1 < no1 := Nat.mod_lt _ hj0
  have hk : idx % no2 < no2 := Nat.mod_lt _ hk0
  obtain ⟨hx, hy, hz⟩ := C14_box_in_box no0 no1 no2 s0 s1 s2 hs0 hs1 hs2 _ _ _ hi hj hk
  exact ⟨_, hx, hy, hz, boxVolumeSampleN_eq ..⟩

/-- generated `circular_sample`: every returned row is the placement of a point of the disc of the requested radius (z = 0) -/
theorem C14_gen_circular_in_disc (no0 no1 : Nat) (radius : ℝ) (center angles : Vec3 ℝ) (z : Bool) (hr : 0 ≤ radius)
    (idx : Nat) (hidx : idx < circularSampleNCount no0 no1) :
    ∃ p : Vec3 ℝ, Vec3.normSq p ≤ radius ^ 2 ∧ p.z = 0 ∧
      circularSampleN no0 no1 radius center angles z idx = placeSample angles center p z := by
  obtain ⟨_, hj⟩ := unflat_lt idx no0 no1 hidx
  obtain ⟨h1, h2⟩ := C14_circular_in_disc no0 no1 radius hr (idx / no1 + 1) (idx % no1 + 1) (by omega) (by omega)
  exact ⟨_, h1, h2, circularSampleN_eq ..⟩

/-- generated `sphere_sample` and `sphere_sample_uniform`: every row lies on the sphere of the requested radius about the
    requested centre (all three centre coordinates) -/
theorem C14_gen_sphere_on_sphere (no0 no1 : Nat) (radius : ℝ) (center : Vec3 ℝ) (k0 k1 : ℝ) (idx : Nat) :
    Vec3.normSq (sphereSampleN no0 no1 radius center k0 k1 idx - center) = radius ^ 2 ∧
    Vec3.normSq (sphereSampleUniformN no0 no1 radius center k0 k1 idx - center) = radius ^ 2 := by
  rw [sphereSampleN_eq, sphereSampleUniformN_eq]
  exact ⟨C14_sphere_on_sphere .., C14_sphere_on_sphere ..⟩

/-- generated `create_ray_from_all_pairs`: `m·n` rays; ray `i·n + j` starts at start point `i`, has unit direction cosines and
    reaches end point `j` (row-major over (start, end)) -/
theorem C14_gen_all_pairs_row_major (m n : Nat) (x0 x1 : Nat → Vec3 ℝ) (i j : Nat) (hi : i < m) (hj : j < n)
    (hne : x0 i ≠ x1 j) :
    i * n + j < allPairsRayTCount m n ∧
    (allPairsRayT m x0 n x1 (i * n + j)).o = x0 i ∧
    Vec3.normSq (allPairsRayT m x0 n x1 (i * n + j)).d = 1 ∧
    (allPairsRayT m x0 n x1 (i * n + j)).o +
      Vec3.smul (Vec3.norm (x1 j - x0 i)) (allPairsRayT m x0 n x1 (i * n + j)).d = x1 j := by
  obtain ⟨e, hlt⟩ := C14_all_pairs_row_major m n i j hi hj
  rw [allPairsRayT_eq, e]
  exact ⟨hlt, rfl, (C14_two_points _ _ hne).1, (C14_two_points _ _ hne).2⟩

/-- generated luminous-angle generators (both): for uniform variates in `[0, 1]` and a limit in `[0°, 180°]` every emitted
    direction has unit length and deviates from the tilted axis `R ẑ` by no more than the limit; point rays start at `origin`,
    grid rays start at the rows of the generated torch `grid_sample` (centre and tilt as given) -/
theorem C14_gen_cone_within_limit (origin center tilt : Vec3 ℝ) (s0 s1 : ℝ) (no0 no1 num : Nat) (limitDeg : ℝ)
    (U V : Nat → ℝ) (idx : Nat) (hU0 : 0 ≤ U idx) (hU1 : U idx ≤ 1) (hl0 : 0 ≤ limitDeg) (hl1 : limitDeg ≤ 180) :
    (luminousPointRayT origin num tilt limitDeg U V idx).o = origin ∧
    (luminousGridRayT center s0 s1 no0 no1 tilt num limitDeg U V idx).o =
      gridSampleT no0 no1 s0 s1 center tilt (idx % (no0 * no1)) ∧
    ∀ d ∈ [(luminousPointRayT origin num tilt limitDeg U V idx).d,
           (luminousGridRayT center s0 s1 no0 no1 tilt num limitDeg U V idx).d],
      Vec3.normSq d = 1 ∧
      Real.cos (limitDeg * Real.pi / 180) ≤ Vec3.dot d ((coneTilt tilt).mulVec ⟨0, 0, 1⟩) ∧
      Vec3.dot d ((coneTilt tilt).mulVec ⟨0, 0, 1⟩) ≤ 1 := by
  have hc := C14_cone_within_limit tilt limitDeg (U idx) (V idx) hU0 hU1 hl0 hl1
  rw [luminousPointRayT_eq, luminousGridRayT_eq, gridSampleT_eq]
  refine ⟨rfl, ?_, ?_⟩
  · simp only [rotatePoint]
    apply Vec3.ext' <;> simp only [Vec3.add_def, Vec3.add] <;> ring
  · intro d hd
    rcases List.mem_cons.mp hd with h | h
    · rw [h]; exact hc _ (by simp)
    · rw [List.mem_singleton.mp h]; exact hc _ (by simp)

end Odak

/-! ## Ray creation REGENERATED from the Python source (`Generated/RayCreate.lean`, `Generated/RayCreateBatch.lean`; translator
  `harness/translate/raycreate.py`; tied to the model by `Lemmas/GenRayCreate.lean`).  `…T` = torch, `…N` = NumPy. -/
namespace Odak
open Odak.Gen

/-- generated `create_ray` (both APIs): the ray starts at the given point and its direction cosines ARE the cosines of the given angles
    (degrees), component by component; torch ray `i` of a batch is built from row `i` of both arguments; with `direction = True` the
    second argument is stored unchanged -/
theorem C14_gen_create_ray_direction_cosines {m : Nat} [NeZero m] (xyz abg : Fin m → Vec3 ℝ) (i : Fin m) (p a : Vec3 ℝ) :
    createRayT xyz abg i = ⟨xyz i, ⟨Real.cos ((abg i).x * Real.pi / 180), Real.cos ((abg i).y * Real.pi / 180),
      Real.cos ((abg i).z * Real.pi / 180)⟩⟩ ∧
    createRayN p a = ⟨p, ⟨Real.cos (a.x * Real.pi / 180), Real.cos (a.y * Real.pi / 180), Real.cos (a.z * Real.pi / 180)⟩⟩ ∧
    createRayDirectionT xyz abg i = ⟨xyz i, abg i⟩ := by
  rw [createRayT_eq, createRayN_eq, createRayDirectionT_eq]
  simp only [createRayDir, num_cos, num_pi, num_ofNat, Nat.cast_ofNat, and_self]

/-- generated NumPy `create_ray_from_angles` (one start point) for every mode of the REGENERATED mode table: the ray starts at the given
    point, its direction is the ROTATED UNIT Z VECTOR `R ẑ` (`R` = the matrix product the mode names, angles in degrees) - in
    particular it does not depend on the start point - and it has unit length.  When `rotate_points` takes its early return (all three
    angles zero) the direction is the Z axis itself. -/
theorem C14_gen_ray_from_angles (point angles : Vec3 ℝ) (mode : String) (order : List Axis)
    (hmode : modeOrder npRotatePointsModes mode = some order) :
    (createRayFromAnglesN point angles mode false).o = point ∧
    (createRayFromAnglesN point angles mode false).d = (rotFromOrder .np order angles).mulVec ⟨0, 0, 1⟩ ∧
    Vec3.normSq (createRayFromAnglesN point angles mode false).d = 1 ∧
    createRayFromAnglesN point angles mode true = ⟨point, ⟨0, 0, 1⟩⟩ := by
  have hR := C13_rotation_rigid .np order angles
  rw [createRayFromAnglesN_eq, createRayFromAnglesN_eq, hmode, Option.getD_some]
  have h5 : Real.sqrt (0 * 0 + 0 * 0 + 5 * 5) = 5 := by
    rw [show (0 * 0 + 0 * 0 + 5 * 5 : ℝ) = 5 ^ 2 by norm_num]; exact Real.sqrt_sq (by norm_num)
  have hn : Vec3.norm ((rotFromOrder .np order angles).mulVec ⟨0, 0, 5⟩) = 5 := by
    unfold Vec3.norm; rw [hR.normSq_mulVec]
    simpa only [Vec3.normSq, Vec3.dot, num_sqrt] using h5
  have hd : (rayFromAngles order point angles false).d = (rotFromOrder .np order angles).mulVec ⟨0, 0, 1⟩ := by
    simp only [rayFromAngles, rayDirTwoPoints, num_ofNat, Nat.cast_ofNat, from_angles_diff, hn]
    apply Vec3.ext' <;> simp only [Vec3.sdiv, Mat3.mulVec] <;> ring
  refine ⟨rfl, hd, ?_, ?_⟩
  · rw [hd, hR.normSq_mulVec]; simp [Vec3.normSq, Vec3.dot]
  · simp only [rayFromAngles, rayDirTwoPoints, npRotatePoints, if_true, num_ofNat, Nat.cast_ofNat]
    refine Ray.ext' rfl ?_
    have e : point + (⟨0, 0, 5⟩ : Vec3 ℝ) - point = ⟨0, 0, 5⟩ := by
      apply Vec3.ext' <;> simp [Vec3.add_def, Vec3.sub_def, Vec3.add, Vec3.sub]
    rw [e]
    have hn5 : Vec3.norm (⟨0, 0, 5⟩ : Vec3 ℝ) = 5 := by
      simpa only [Vec3.norm, Vec3.normSq, Vec3.dot, num_sqrt] using h5
    rw [hn5]
    apply Vec3.ext' <;> simp [Vec3.sdiv]

/-- ... zero angles give the Z axis on BOTH paths of `rotate_points` (early return or not), whatever the start point -/
theorem C14_gen_ray_from_angles_zero (point : Vec3 ℝ) (mode : String) (order : List Axis)
    (hmode : modeOrder npRotatePointsModes mode = some order) (z : Bool) :
    createRayFromAnglesN point ⟨0, 0, 0⟩ mode z = ⟨point, ⟨0, 0, 1⟩⟩ := by
  obtain ⟨ho, hd, _, hz⟩ := C14_gen_ray_from_angles point ⟨0, 0, 0⟩ mode order hmode
  cases z
  · refine Ray.ext' ho ?_
    rw [hd, rotFromOrder_zero, Mat3.one_mulVec]
  · exact hz

/-- ... and for an `[m x 3]` array of start points ray `i` starts at point `i`; all rays have the same direction `R ẑ` -/
theorem C14_gen_ray_from_angles_batch {m : Nat} [NeZero m] (point : Fin m → Vec3 ℝ) (angles : Vec3 ℝ) (mode : String)
    (order : List Axis) (hmode : modeOrder npRotatePointsModes mode = some order) (i : Fin m) :
    (createRayFromAnglesBatchN point angles mode false i).o = point i ∧
    (createRayFromAnglesBatchN point angles mode false i).d = (rotFromOrder .np order angles).mulVec ⟨0, 0, 1⟩ ∧
    Vec3.normSq (createRayFromAnglesBatchN point angles mode false i).d = 1 := by
  rw [createRayFromAnglesBatchN_eq]
  obtain ⟨h1, h2, h3, _⟩ := C14_gen_ray_from_angles (point i) angles mode order hmode
  exact ⟨h1, h2, h3⟩

end Odak

namespace Odak
open Odak.Gen

/-- generated NumPy `find_nearest_points`, generic branch.  GUARD (the test the source performs, `np.all(n) == 0` with `n = d₀ × d₁`):
    NO component of `d₀ × d₁` is zero - this implies that the rays are not parallel.  Then the two returned points lie on the two rays,
    `c₀ = o₀ + t d₀`, `c₁ = o₁ + s d₁`, and the segment joining them is perpendicular to both directions: they are the mutually nearest
    points. -/
theorem C14_gen_nearest_points (r0 r1 : Ray ℝ) (h : someCrossComponentZero r0 r1 = false) :
    ∃ t s : ℝ, (findNearestPointsN r0 r1).1 = propagateRay r0.o r0.d t ∧ (findNearestPointsN r0 r1).2 = propagateRay r1.o r1.d s ∧
      Vec3.dot ((findNearestPointsN r0 r1).2 - (findNearestPointsN r0 r1).1) r0.d = 0 ∧
      Vec3.dot ((findNearestPointsN r0 r1).2 - (findNearestPointsN r0 r1).1) r1.d = 0 := by
  rw [findNearestPointsN_eq_of_generic r0 r1 h]
  have hz : ¬ ((Vec3.cross r0.d r1.d).x = 0 ∨ (Vec3.cross r0.d r1.d).y = 0 ∨ (Vec3.cross r0.d r1.d).z = 0) := by
    rw [← someCrossComponentZero_iff, h]; simp
  have hx : (Vec3.cross r0.d r1.d).x ≠ 0 := fun e => hz (Or.inl e)
  obtain ⟨o0, d0⟩ := r0
  obtain ⟨o1, d1⟩ := r1
  simp only [Vec3.cross] at hx
  -- the two denominators are ± |d₀ × d₁|²
  set nn : ℝ := (d0.y * d1.z - d0.z * d1.y) ^ 2 + (d0.z * d1.x - d0.x * d1.z) ^ 2 + (d0.x * d1.y - d0.y * d1.x) ^ 2 with hnn
  have hnn0 : nn ≠ 0 := by
    have : 0 < nn := by
      have := sq_pos_of_ne_zero hx
      nlinarith [sq_nonneg (d0.z * d1.x - d0.x * d1.z), sq_nonneg (d0.x * d1.y - d0.y * d1.x)]
    exact this.ne'
  have ha : Vec3.dot d0 (Vec3.cross d1 (Vec3.cross d0 d1)) = nn := by
    simp only [Vec3.dot, Vec3.cross, hnn]; ring
  have hb : Vec3.dot d1 (Vec3.cross d0 (Vec3.cross d0 d1)) = -nn := by
    simp only [Vec3.dot, Vec3.cross, hnn]; ring
  refine ⟨Vec3.dot (o1 - o0) (Vec3.cross d1 (Vec3.cross d0 d1)) / Vec3.dot d0 (Vec3.cross d1 (Vec3.cross d0 d1)),
    Vec3.dot (o0 - o1) (Vec3.cross d0 (Vec3.cross d0 d1)) / Vec3.dot d1 (Vec3.cross d0 (Vec3.cross d0 d1)), ?_, ?_, ?_, ?_⟩
  · apply Vec3.ext' <;> simp only [nearestPoints, propagateRay, Vec3.add_def, Vec3.add, Vec3.smul] <;> ring
  · apply Vec3.ext' <;> simp only [nearestPoints, propagateRay, Vec3.add_def, Vec3.add, Vec3.smul] <;> ring
  · simp only [nearestPoints, ha, hb]
    simp only [Vec3.dot, Vec3.cross, Vec3.add_def, Vec3.sub_def, Vec3.add, Vec3.sub, Vec3.smul]
    field_simp
    simp only [hnn]; ring
  · simp only [nearestPoints, ha, hb]
    simp only [Vec3.dot, Vec3.cross, Vec3.add_def, Vec3.sub_def, Vec3.add, Vec3.sub, Vec3.smul]
    field_simp
    simp only [hnn]; ring

end Odak

namespace Odak
open Odak.Gen

/-- generated `calculate_intersection_of_two_rays`, every input: the returned point lies on the line of the FIRST ray, at the first
    returned distance, and the two returned distances are in descending order -/
theorem C14_gen_intersection_point_on_first_ray (r0 r1 : Ray ℝ) :
    (intersectionOfTwoRaysN r0 r1).1 = propagateRay r0.o r0.d (intersectionOfTwoRaysN r0 r1).2.1 ∧
    (intersectionOfTwoRaysN r0 r1).2.2 ≤ (intersectionOfTwoRaysN r0 r1).2.1 :=
  ⟨intersectionOfTwoRaysN_point r0 r1, intersectionOfTwoRaysN_sorted r0 r1⟩

/-- generated `find_nearest_points`, the OTHER branch (some component of `d₀ × d₁` is zero: parallel rays, but also e.g. any two
    axis-aligned rays): both returned points are one and the same point, the one `calculate_intersection_of_two_rays` returns, which
    lies on the line of the first ray -/
theorem C14_gen_nearest_points_degenerate (r0 r1 : Ray ℝ) (h : someCrossComponentZero r0 r1 = true) :
    (findNearestPointsN r0 r1).1 = (findNearestPointsN r0 r1).2 ∧
    ∃ t : ℝ, (findNearestPointsN r0 r1).1 = propagateRay r0.o r0.d t := by
  rw [findNearestPointsN_eq_of_degenerate r0 r1 h]
  exact ⟨rfl, _, intersectionOfTwoRaysN_point r0 r1⟩

/-- generated `calculate_intersection_of_two_rays` for two rays that REALLY meet, `o₀ + s₀ d₀ = o₁ + s₁ d₁`, with non-parallel
    directions (GUARD: Gram determinant `|d₀|²|d₁|² - (d₀·d₁)² ≠ 0`, the case in which `np.linalg.lstsq` is modelled): the least-squares
    system `[d₀ d₁] t = o₀ - o₁` has the exact solution `t = (-s₀, s₁)`, so the returned distances are `(max(-s₀, s₁), min(-s₀, s₁))`
    and the returned point is `o₀ + max(-s₀, s₁) d₀` -/
theorem C14_gen_intersection_of_meeting_rays (r0 r1 : Ray ℝ) (s0 s1 : ℝ)
    (hdet : Vec3.dot r0.d r0.d * Vec3.dot r1.d r1.d - Vec3.dot r0.d r1.d * Vec3.dot r0.d r1.d ≠ 0)
    (hmeet : r0.o + Vec3.smul s0 r0.d = r1.o + Vec3.smul s1 r1.d) :
    (intersectionOfTwoRaysN r0 r1).2 = (max (-s0) s1, min (-s0) s1) ∧
    (intersectionOfTwoRaysN r0 r1).1 = propagateRay r0.o r0.d (max (-s0) s1) := by
  have hl := lstsq32_of_meeting r0 r1 s0 s1 hdet hmeet
  have hx := congrArg Vec3.x hmeet
  have hy := congrArg Vec3.y hmeet
  have hz := congrArg Vec3.z hmeet
  simp only [Vec3.add_def, Vec3.add, Vec3.smul] at hx hy hz
  have hB : (⟨r0.o.x - r1.o.x, r0.o.y - r1.o.y, r0.o.z - r1.o.z⟩ : Vec3 ℝ) = r0.o - r1.o := rfl
  have hres : Num.allclose3 (⟨r0.d.x * -s0 + r1.d.x * s1, r0.d.y * -s0 + r1.d.y * s1, r0.d.z * -s0 + r1.d.z * s1⟩ : Vec3 ℝ)
      (r0.o - r1.o) = true := by
    have e : (⟨r0.d.x * -s0 + r1.d.x * s1, r0.d.y * -s0 + r1.d.y * s1, r0.d.z * -s0 + r1.d.z * s1⟩ : Vec3 ℝ) = r0.o - r1.o := by
      apply Vec3.ext' <;> simp only [Vec3.sub_def, Vec3.sub] <;> linarith
    rw [e]; simp only [Num.allclose3, close_self, Bool.and_self]
  have hpt := intersectionOfTwoRaysN_point r0 r1
  have hd : (intersectionOfTwoRaysN r0 r1).2 = (max (-s0) s1, min (-s0) s1) := by
    simp only [intersectionOfTwoRaysN, hB, hl, hres, Bool.not_true, Bool.false_eq_true, if_false, decide_eq_true_eq, neg_neg]
    rcases le_total (-s0) s1 with hle | hle
    · have h' : ¬ (s0 ≤ -s1) ∨ s0 = -s1 := by
        by_cases e : s0 = -s1
        · exact Or.inr e
        · left; intro hc; exact e (by linarith)
      rcases h' with h' | h'
      · rw [if_neg h', if_neg h', max_eq_right hle, min_eq_left hle]
      · have : -s0 = s1 := by linarith
        simp [h']
    · have h' : s0 ≤ -s1 := by linarith
      rw [if_pos h', if_pos h', max_eq_left hle, min_eq_right hle]
  refine ⟨hd, ?_⟩
  rw [hpt, hd]

/-- ... hence the returned point is in general NOT the point where the rays meet: the rays `(0,0,0) + t (1,0,0)` and `(2,-1,0) + s (0,1,0)`
    meet at `(2, 0, 0)` (`s₀ = 2`, `s₁ = 1`); the generated function returns `(1, 0, 0)` with distances `(1, -2)`.  `find_nearest_points`
    returns this point twice for these rays (`d₀ × d₁ = (0, 0, 1)` has zero components), although it is not even on the second ray. -/
theorem C14_gen_intersection_is_not_the_meeting_point :
    let r0 : Ray ℝ := ⟨⟨0, 0, 0⟩, ⟨1, 0, 0⟩⟩
    let r1 : Ray ℝ := ⟨⟨2, -1, 0⟩, ⟨0, 1, 0⟩⟩
    r0.o + Vec3.smul 2 r0.d = r1.o + Vec3.smul 1 r1.d ∧
    r0.o + Vec3.smul 2 r0.d = (⟨2, 0, 0⟩ : Vec3 ℝ) ∧
    (intersectionOfTwoRaysN r0 r1).1 = (⟨1, 0, 0⟩ : Vec3 ℝ) ∧ (intersectionOfTwoRaysN r0 r1).2 = (1, -2) ∧
    someCrossComponentZero r0 r1 = true ∧ findNearestPointsN r0 r1 = (⟨1, 0, 0⟩, ⟨1, 0, 0⟩) := by
  intro r0 r1
  have hmeet : r0.o + Vec3.smul 2 r0.d = r1.o + Vec3.smul 1 r1.d := by
    apply Vec3.ext' <;> simp [r0, r1, Vec3.add_def, Vec3.add, Vec3.smul]
  have hdet : Vec3.dot r0.d r0.d * Vec3.dot r1.d r1.d - Vec3.dot r0.d r1.d * Vec3.dot r0.d r1.d ≠ 0 := by
    simp [r0, r1, Vec3.dot]
  obtain ⟨hd, hp⟩ := C14_gen_intersection_of_meeting_rays r0 r1 2 1 hdet hmeet
  have hmax : max (-2 : ℝ) 1 = 1 := max_eq_right (by norm_num)
  have hmin : min (-2 : ℝ) 1 = -2 := min_eq_left (by norm_num)
  rw [hmax] at hp
  rw [hmax, hmin] at hd
  have hpt : (intersectionOfTwoRaysN r0 r1).1 = (⟨1, 0, 0⟩ : Vec3 ℝ) := by
    rw [hp]; apply Vec3.ext' <;> simp [r0, propagateRay]
  have hs : someCrossComponentZero r0 r1 = true := by
    rw [someCrossComponentZero_iff]; left; simp [r0, r1, Vec3.cross]
  refine ⟨hmeet, ?_, hpt, hd, hs, ?_⟩
  · apply Vec3.ext' <;> simp [r0, Vec3.add_def, Vec3.add, Vec3.smul]
  · rw [findNearestPointsN_eq_of_degenerate r0 r1 hs, hpt]

end Odak

/-! ## The loop-built generators of `odak/tools/sample.py` REGENERATED from the Python source (`Generated/SamplersMore.lean`, translator
  `harness/translate/samplers_more.py`, tied to `OdakModel/SamplesMore.lean` by `Lemmas/GenSamplersMore.lean`): `circular_uniform_sample`,
  `circular_uniform_random_sample` (the NumPy variates are inputs), `random_sample_point_cloud` (the drawn index list is an input),
  `batch_of_rays`.  The generated definitions are the returned rows IN ORDER, as lists. -/
namespace Odak
open Odak.Gen

/-- generated `circular_uniform_sample`: the regenerated list is the model list - ring by ring, `⌊no1 · i / no0⌋` points on ring `i` at
    radius `i / no0 · radius`, placed by `rotate_points(angles, offset = center)` - and every returned row is the placement of a point
    of the disc of the requested radius in the plane z = 0 (on the circle of radius `i / no0 · radius` for some ring `i < no0`) -/
theorem C14_gen_circular_uniform_in_disc (no0 no1 : Nat) (radius : ℝ) (center angles : Vec3 ℝ) (z : Bool) (hr : 0 ≤ radius) :
    circularUniformSampleN no0 no1 radius center angles z = circularUniformSample no0 no1 radius center angles z ∧
    ∀ q ∈ circularUniformSampleN no0 no1 radius center angles z, ∃ p : Vec3 ℝ, ∃ i, i < no0 ∧
      Vec3.normSq p = ((i : ℝ) / (no0 : ℝ) * radius) ^ 2 ∧ Vec3.normSq p ≤ radius ^ 2 ∧ p.z = 0 ∧
      q = placeSample angles center p z := by
  refine ⟨circularUniformSampleN_eq .., fun q hq => ?_⟩
  rw [circularUniformSampleN_eq, circularUniformSample, List.mem_map] at hq
  obtain ⟨p, hp, rfl⟩ := hq
  obtain ⟨i, hi, j, _, rfl⟩ := (mem_circularUniformLocal ..).mp hp
  obtain ⟨h1, h2, h3⟩ := ringPoint_spec no0 no1 radius hr i j hi
  exact ⟨_, i, hi, h1, h2, h3, rfl⟩

/-- generated `circular_uniform_sample`: HOW MANY points.  Not `no0 · no1` and not `no1`: the sum over the rings `i = 0 … no0 - 1` of
    `⌊no1 · i / no0⌋` (ring 0, the centre, holds none); `no1 (no0 - 1) / 2` when `no0` divides `no1`; 225 for the default `no = [10, 50]`;
    NO point at all for `no0 = 1` -/
theorem C14_gen_circular_uniform_count (no0 no1 : Nat) (radius : ℝ) (center angles : Vec3 ℝ) (z : Bool) :
    (circularUniformSampleN no0 no1 radius center angles z).length = ((List.range no0).map fun i => no1 * i / no0).sum ∧
    (circularUniformSampleN 10 50 radius center angles z).length = 225 ∧
    (circularUniformSampleN 1 no1 radius center angles z).length = 0 := by
  have h : ∀ a b, (circularUniformSampleN a b radius center angles z).length = ((List.range a).map fun i => b * i / a).sum := by
    intro a b
    rw [circularUniformSampleN_eq, circularUniformSample, List.length_map, length_circularUniformLocal]
  refine ⟨h _ _, by rw [h]; decide, by rw [h]; simp⟩

/-- generated `circular_uniform_random_sample`: exactly `no0 · no1` rows (every radius with every angle, radii in the outer loop), and for
    variates of the first draw inside the bounds the REGENERATED call gives (`np.random.uniform(0, 1, no[0])`) every row is the placement
    of a point of the disc of the requested radius in the plane z = 0 -/
theorem C14_gen_circular_uniform_random_in_disc (no0 no1 : Nat) (radius : ℝ) (center angles : Vec3 ℝ) (z : Bool) (U V : Nat → ℝ)
    (hr : 0 ≤ radius)
    (hU : ∀ a, a < no0 → ∀ b ∈ (circularUniformRandomSampleNDrawBounds (α := ℝ))[0]?, b.1 ≤ U a ∧ U a ≤ b.2) :
    circularUniformRandomSampleN no0 no1 radius center angles z U V =
      circularUniformRandomSample no0 no1 radius center angles z U V ∧
    (circularUniformRandomSampleN no0 no1 radius center angles z U V).length = no0 * no1 ∧
    ∀ q ∈ circularUniformRandomSampleN no0 no1 radius center angles z U V, ∃ p : Vec3 ℝ,
      Vec3.normSq p ≤ radius ^ 2 ∧ p.z = 0 ∧ q = placeSample angles center p z := by
  refine ⟨circularUniformRandomSampleN_eq .., ?_, fun q hq => ?_⟩
  · rw [circularUniformRandomSampleN_eq, circularUniformRandomSample, List.length_map, length_circularUniformRandomLocal]
  · rw [circularUniformRandomSampleN_eq, circularUniformRandomSample, List.mem_map] at hq
    obtain ⟨p, hp, rfl⟩ := hq
    obtain ⟨a, ha, b, _, rfl⟩ := (mem_circularUniformRandomLocal ..).mp hp
    obtain ⟨h1, h2⟩ := polarPoint_spec (radius * Real.sqrt (U a)) (V b)
    refine ⟨_, ?_, h2, rfl⟩
    rw [h1]
    have hb := hU a ha ((Num.ofNat 0 : ℝ), (Num.ofNat 1 : ℝ)) (by simp [circularUniformRandomSampleNDrawBounds])
    simp only [num_ofNat, Nat.cast_zero, Nat.cast_one] at hb
    have hs0 : 0 ≤ Real.sqrt (U a) := Real.sqrt_nonneg _
    have hs1 : Real.sqrt (U a) ≤ 1 := by
      rw [show (1 : ℝ) = Real.sqrt 1 by simp]; exact Real.sqrt_le_sqrt hb.2
    have : radius * Real.sqrt (U a) ≤ radius := by nlinarith
    have h0 : 0 ≤ radius * Real.sqrt (U a) := by positivity
    nlinarith

/-- [regenerated draws of `circular_uniform_random_sample`] the radii come from `sqrt` of `no[0]` uniform variates on `[0, 1]`, the angles
    are `no[1]` uniform variates on `[0, 2π]`, drawn in this order -/
theorem C14_gen_circular_uniform_random_draws (no0 no1 : Nat) :
    (circularUniformRandomSampleNDrawBounds : List (ℝ × ℝ)) = [(0, 1), (0, 2 * Real.pi)] ∧
    circularUniformRandomSampleNDrawSizes no0 no1 = [no0, no1] := by
  refine ⟨?_, rfl⟩
  simp only [circularUniformRandomSampleNDrawBounds, num_ofNat, num_pi, Nat.cast_zero, Nat.cast_one, Nat.cast_ofNat]

/-- generated `random_sample_point_cloud`: given the index list `np.random.choice` returned (`size = no` indices below `a =
    point_cloud.shape[0]`, by the regenerated call) the result has exactly `no` rows, row `t` is row `choice[t]` of the cloud, and every
    returned row is a row of the cloud -/
theorem C14_gen_random_sample_point_cloud (n no : Nat) (cloud : Nat → Vec3 ℝ) (choice : List Nat) (hlen : choice.length = no)
    (hrange : ∀ k ∈ choice, k < n) :
    (randomSamplePointCloudN n cloud no choice).length = no ∧
    (∀ t (ht : t < choice.length), (randomSamplePointCloudN n cloud no choice)[t]? = some (cloud choice[t])) ∧
    ∀ x ∈ randomSamplePointCloudN n cloud no choice, ∃ k, k < n ∧ x = cloud k := by
  rw [randomSamplePointCloudN_eq]
  refine ⟨by rw [List.length_map, hlen], fun t ht => by simp [ht], fun x hx => ?_⟩
  obtain ⟨k, hk, rfl⟩ := List.mem_map.mp hx
  exact ⟨k, hrange k hk, rfl⟩

/-- [regenerated `np.random.choice` call] `point_cloud.shape[0]` is the population, `no` the size - and the probability list `p` is handed
    over in the position of `replace`, not as `p` (it acts as a truth value: the drawn rows are rows of the cloud either way) -/
theorem C14_gen_point_cloud_choice_call :
    randomSamplePointCloudNChoiceCall = [("a", "point_cloud.shape[0]"), ("size", "no"), ("replace", "p")] := by decide

/-- generated `batch_of_rays` on its documented domain (`m = n` entry / exit points, or a single point on either side): the regenerated
    list is the model list; it holds `max m n` rays; ray `i` starts at entry point `i` (the single entry point when `m = 1`), has unit
    direction cosines and reaches exit point `i` (the single exit point when `n = 1`) after the distance between the two - one ray per
    index, entry first, in the order of the rows -/
theorem C14_gen_batch_of_rays (m n : Nat) (entry exit_ : Nat → Vec3 ℝ) (hm : 1 ≤ m) (hn : 1 ≤ n) (h : m = n ∨ m = 1 ∨ n = 1) :
    batchOfRaysN m entry n exit_ = batchOfRays m entry n exit_ ∧
    (batchOfRaysN m entry n exit_).length = max m n ∧
    ∀ i, i < max m n → ∃ r : Ray ℝ, (batchOfRaysN m entry n exit_)[i]? = some r ∧ r.o = entry (bcastRow m i) ∧
      (entry (bcastRow m i) ≠ exit_ (bcastRow n i) →
        Vec3.normSq r.d = 1 ∧
        r.o + Vec3.smul (Vec3.norm (exit_ (bcastRow n i) - entry (bcastRow m i))) r.d = exit_ (bcastRow n i)) := by
  refine ⟨batchOfRaysN_eq m n entry exit_ hm hn h, ?_, fun i hi => ?_⟩
  · rw [batchOfRaysN_eq m n entry exit_ hm hn h, batchOfRays, List.length_map, List.length_range]
  · rw [batchOfRaysN_eq m n entry exit_ hm hn h, batchOfRays]
    exact ⟨⟨entry (bcastRow m i), rayDirTwoPoints (entry (bcastRow m i)) (exit_ (bcastRow n i))⟩, by simp [hi], rfl,
      fun hne => C14_two_points _ _ hne⟩

/-- outside the documented domain nothing is rejected: with `1 < n < m` exit points the shorter side is `np.repeat`ed ELEMENT-WISE, so every one
    of the `m` rays ends at exit point 0 -/
theorem C14_gen_batch_of_rays_unequal_counts (m n : Nat) (entry exit_ : Nat → Vec3 ℝ) (hn : n < m) (i : Nat) (hi : i < m) :
    (batchOfRaysN m entry n exit_)[i]? = some (twoPointsN (entry i) (exit_ 0)) := by
  have hmax : max m n = m := by omega
  simp only [batchOfRaysN, pyRange_zero, flatMap_single, hmax, hn, if_true]
  simp [hi, Nat.div_eq_of_lt hi]

/-- non-vacuity of the count: `no = [4, 6]` gives rings of 0, 1, 3, 4 points -/
example : ((List.range 4).map fun i => 6 * i / 4) = [0, 1, 3, 4] := by decide

end Odak
