import OdakModel.Num
import OdakModel.Cx
import OdakModel.Vec3
import Mathlib.Analysis.SpecialFunctions.Trigonometric.Inverse
import Mathlib.Analysis.SpecialFunctions.Complex.Arg
import Mathlib.Analysis.SpecialFunctions.Log.Basic
import Mathlib.Analysis.SpecialFunctions.Sqrt
import Mathlib.Tactic.Ring
import Mathlib.Tactic.Linarith
import Mathlib.Tactic.FieldSimp
import Mathlib.Tactic.NormNum

/-! `Num ℝ`: the instantiation the theorems are about.  Algebraic fields are Mathlib's own
    instances, so `ring`, `linarith`, `field_simp`, `norm_num` work on model terms after
    unfolding the model definitions. -/
namespace Odak

/-- round half to even on ℝ -/
noncomputable def roundHalfEvenR (x : ℝ) : ℝ :=
  let r : ℤ := ⌊x⌋
  let d := x - r
  if d < 1/2 then r
  else if 1/2 < d then r + 1
  else if r % 2 = 0 then r else r + 1

noncomputable instance instNumReal : Num ℝ where
  toZero := inferInstance
  toOne := inferInstance
  toAdd := inferInstance
  toSub := inferInstance
  toMul := inferInstance
  toDiv := inferInstance
  toNeg := inferInstance
  toLT := inferInstance
  toLE := inferInstance
  ofNat := fun n => (n : ℝ)
  ofSci := fun m s e => ((OfScientific.ofScientific m s e : ℚ) : ℝ)
  pi := Real.pi
  sqrt := Real.sqrt
  sin := Real.sin
  cos := Real.cos
  exp := Real.exp
  log := Real.log
  acos := Real.arccos
  floor := fun x => ((⌊x⌋ : ℤ) : ℝ)
  round := roundHalfEvenR
  abs := fun x => |x|
  atan2 := fun y x => Complex.arg ⟨x, y⟩
  decLt := fun _ _ => Classical.propDecidable _
  decLe := fun _ _ => Classical.propDecidable _

@[simp] theorem num_ofNat (n : Nat) : (Num.ofNat n : ℝ) = (n : ℝ) := rfl
@[simp] theorem num_nat (n : Nat) : (Num.nat n : ℝ) = (n : ℝ) := rfl
@[simp] theorem num_pi : (Num.pi : ℝ) = Real.pi := rfl
@[simp] theorem num_sqrt (x : ℝ) : Num.sqrt x = Real.sqrt x := rfl
@[simp] theorem num_sin (x : ℝ) : Num.sin x = Real.sin x := rfl
@[simp] theorem num_cos (x : ℝ) : Num.cos x = Real.cos x := rfl
@[simp] theorem num_exp (x : ℝ) : Num.exp x = Real.exp x := rfl
@[simp] theorem num_log (x : ℝ) : Num.log x = Real.log x := rfl
@[simp] theorem num_acos (x : ℝ) : Num.acos x = Real.arccos x := rfl
@[simp] theorem num_abs (x : ℝ) : Num.abs x = |x| := rfl
@[simp] theorem num_floor (x : ℝ) : Num.floor x = ((⌊x⌋ : ℤ) : ℝ) := rfl
@[simp] theorem num_round (x : ℝ) : Num.round x = roundHalfEvenR x := rfl
@[simp] theorem num_atan2 (y x : ℝ) : Num.atan2 y x = Complex.arg ⟨x, y⟩ := rfl
@[simp] theorem num_two : (Num.two : ℝ) = 2 := by simp [Num.two]
theorem num_ofSci (m : Nat) (s : Bool) (e : Nat) :
    (Num.ofSci m s e : ℝ) = ((OfScientific.ofScientific m s e : ℚ) : ℝ) := rfl
@[simp] theorem num_half : (Num.half : ℝ) = 1/2 := by
  simp only [Num.half, num_ofSci]; norm_num
theorem num_sq (x : ℝ) : Num.sq x = x * x := rfl
/-- over ℝ `torch.where` is the conditional -/
theorem num_select (p : Prop) [Decidable p] (a b : ℝ) : Num.select (decide p) a b = if p then a else b := by
  by_cases h : p <;> simp [Num.select, h]
theorem num_radians (d : ℝ) : Num.radians d = d * Real.pi / 180 := by
  simp [Num.radians]

example (a b : ℝ) : Num.sq (a + b) = a * a + 2 * a * b + b * b := by
  simp only [num_sq]; ring

/-! ### complex numbers -/

/-- the model's complex number as a Mathlib complex number -/
def toC (z : Cx ℝ) : ℂ := ⟨z.re, z.im⟩

theorem Cx.add_re' (a b : Cx ℝ) : (a + b).re = a.re + b.re := rfl
theorem Cx.add_im' (a b : Cx ℝ) : (a + b).im = a.im + b.im := rfl
theorem Cx.sub_re' (a b : Cx ℝ) : (a - b).re = a.re - b.re := rfl
theorem Cx.sub_im' (a b : Cx ℝ) : (a - b).im = a.im - b.im := rfl
theorem Cx.mul_re' (a b : Cx ℝ) : (a * b).re = a.re * b.re - a.im * b.im := rfl
theorem Cx.mul_im' (a b : Cx ℝ) : (a * b).im = a.re * b.im + a.im * b.re := rfl
theorem Cx.neg_re' (a : Cx ℝ) : (-a).re = -a.re := rfl
theorem Cx.neg_im' (a : Cx ℝ) : (-a).im = -a.im := rfl
theorem Cx.zero_re' : (0 : Cx ℝ).re = 0 := rfl
theorem Cx.zero_im' : (0 : Cx ℝ).im = 0 := rfl
theorem Cx.one_re' : (1 : Cx ℝ).re = 1 := rfl
theorem Cx.one_im' : (1 : Cx ℝ).im = 0 := rfl

theorem toC_injective : Function.Injective toC := by
  intro a b h
  cases a; cases b
  simp only [toC, Complex.mk.injEq] at h
  cases h.1; cases h.2; rfl

@[simp] theorem toC_re (z : Cx ℝ) : (toC z).re = z.re := rfl
@[simp] theorem toC_im (z : Cx ℝ) : (toC z).im = z.im := rfl
@[simp] theorem toC_add (a b : Cx ℝ) : toC (a + b) = toC a + toC b := by
  apply Complex.ext <;> rfl
@[simp] theorem toC_sub (a b : Cx ℝ) : toC (a - b) = toC a - toC b := by
  apply Complex.ext <;> rfl
@[simp] theorem toC_neg (a : Cx ℝ) : toC (-a) = -toC a := by
  apply Complex.ext <;> rfl
@[simp] theorem toC_mul (a b : Cx ℝ) : toC (a * b) = toC a * toC b := by
  apply Complex.ext <;> simp [toC, Cx.mul_re', Cx.mul_im']
@[simp] theorem toC_zero : toC (0 : Cx ℝ) = 0 := by
  apply Complex.ext <;> rfl
@[simp] theorem toC_zero' : toC (Cx.zero : Cx ℝ) = 0 := toC_zero
@[simp] theorem toC_one : toC (1 : Cx ℝ) = 1 := by
  apply Complex.ext <;> rfl
@[simp] theorem toC_one' : toC (Cx.one : Cx ℝ) = 1 := toC_one
@[simp] theorem toC_ofReal (x : ℝ) : toC (Cx.ofReal x) = (x : ℂ) := by
  apply Complex.ext <;> rfl
@[simp] theorem toC_smul (c : ℝ) (a : Cx ℝ) : toC (Cx.smul c a) = (c : ℂ) * toC a := by
  apply Complex.ext <;> simp [toC, Cx.smul]
@[simp] theorem toC_conj (a : Cx ℝ) : toC (Cx.conj a) = (starRingEnd ℂ) (toC a) := by
  apply Complex.ext <;> simp [toC, Cx.conj]
theorem toC_expi (θ : ℝ) : toC (Cx.expi θ) = Complex.exp (θ * Complex.I) := by
  rw [Complex.exp_mul_I]
  apply Complex.ext <;> simp [toC, Cx.expi, ← Complex.ofReal_cos, ← Complex.ofReal_sin]
theorem toC_polar (a φ : ℝ) : toC (Cx.polar a φ) = (a : ℂ) * Complex.exp (φ * Complex.I) := by
  rw [Complex.exp_mul_I]
  apply Complex.ext <;> simp [toC, Cx.polar, ← Complex.ofReal_cos, ← Complex.ofReal_sin]
theorem normSq_toC (a : Cx ℝ) : Cx.normSq a = Complex.normSq (toC a) := by
  simp [Cx.normSq, Complex.normSq, toC]
theorem abs_toC (a : Cx ℝ) : Cx.abs a = ‖toC a‖ := by
  simp only [Cx.abs, num_sqrt, normSq_toC]
  rw [Complex.norm_def]
theorem arg_toC (a : Cx ℝ) : Cx.arg a = Complex.arg (toC a) := rfl

theorem toC_foldl (l : List (Cx ℝ)) (acc : Cx ℝ) :
    toC (l.foldl (· + ·) acc) = toC acc + (l.map toC).sum := by
  induction l generalizing acc with
  | nil => simp
  | cons x xs ih => simp [ih, add_assoc]

theorem toC_sumFin (n : Nat) (f : Fin n → Cx ℝ) : toC (Cx.sumFin n f) = ∑ i, toC (f i) := by
  unfold Cx.sumFin
  rw [toC_foldl, toC_zero', zero_add, List.map_ofFn, List.sum_ofFn]; rfl

theorem foldl_add_real (l : List ℝ) (acc : ℝ) : l.foldl (· + ·) acc = acc + l.sum := by
  induction l generalizing acc with
  | nil => simp
  | cons x xs ih => simp [ih, add_assoc]

theorem sumFinR_eq (n : Nat) (f : Fin n → ℝ) : sumFinR n f = ∑ i, f i := by
  unfold sumFinR
  rw [foldl_add_real, List.sum_ofFn]; simp

end Odak
