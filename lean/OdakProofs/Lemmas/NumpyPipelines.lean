import OdakProofs.Lemmas.Kernels
import OdakProofs.Lemmas.PropagateLemmas

/-!
  # The pipelines that do not go through `customNoAp`, at `α := ℝ`

  NumPy `transfer_function_fresnel` (`npTF`), NumPy `impulse_response_fresnel` (`npIR`) and torch
  `fraunhofer` (`torchFraunhofer`).  The first two are instances of the *shift-first* convolution

      `shiftConv H u = ifftshift (ifft2 (H · fft2 (fftshift u)))`

  wrapped in real scalings; the third is a pointwise multiple of `ifftshift (fft2 (fftshift u))`.
  Real scalings (`Grid.map (Cx.smul c)`, `Grid.map (Cx.divR · c)`) are rewritten as complex
  scalings `CGrid.smul (Cx.ofReal c)`, `CGrid.smul (Cx.ofReal c⁻¹)` — over ℝ this holds for
  `c = 0` too (`x / 0 = 0 = 0⁻¹ · x`), so linearity and shift equivariance need no hypothesis;
  only the normal form `npTF_eq` (and what is derived from it: energy, composition) needs `c ≠ 0`.
  All sizes `n m`.
-/
namespace Odak
open Finset CGrid

variable {n m : ℕ}

/-! ### real scalings are complex scalings -/

theorem Cx.smul_eq_mul (c : ℝ) (a : Cx ℝ) : Cx.smul c a = Cx.ofReal c * a := by
  apply toC_injective; rw [toC_smul, toC_mul, toC_ofReal]

theorem Cx.divR_eq_mul (a : Cx ℝ) (c : ℝ) : Cx.divR a c = Cx.ofReal c⁻¹ * a := by
  apply toC_injective; rw [toC_divR, toC_mul, toC_ofReal]; push_cast; rw [div_eq_inv_mul]

theorem map_smul_eq (c : ℝ) (g : CGrid ℝ n m) :
    Grid.map (Cx.smul c) g = smul (Cx.ofReal c) g := by
  apply Grid.ext_get; intro i j
  rw [Grid.get_map, get_smul, Cx.smul_eq_mul]

theorem map_divR_eq (c : ℝ) (g : CGrid ℝ n m) :
    Grid.map (fun w => Cx.divR w c) g = smul (Cx.ofReal c⁻¹) g := by
  apply Grid.ext_get; intro i j
  rw [Grid.get_map, get_smul, Cx.divR_eq_mul]

theorem ofReal_inv_mul (c : ℝ) (hc : c ≠ 0) : (Cx.ofReal c⁻¹ * Cx.ofReal c : Cx ℝ) = 1 := by
  apply toC_injective
  rw [toC_mul, toC_ofReal, toC_ofReal, toC_one]
  push_cast
  exact inv_mul_cancel₀ (Complex.ofReal_ne_zero.mpr hc)

/-! ### the module structure of grids -/

theorem smul_smul' (a b : Cx ℝ) (g : CGrid ℝ n m) : smul a (smul b g) = smul (a * b) g := by
  apply toCG_injective; simp only [toCG_smul, toC_mul, smul_smul]
theorem smul_add' (a : Cx ℝ) (g h : CGrid ℝ n m) :
    smul a (add g h) = add (smul a g) (smul a h) := by
  apply toCG_injective; simp only [toCG_smul, toCG_add, smul_add]
theorem smul_zero' (a : Cx ℝ) : smul a (zero : CGrid ℝ n m) = zero := by
  apply toCG_injective; simp only [toCG_smul, toCG_zero, smul_zero]
theorem one_smul' (g : CGrid ℝ n m) : smul 1 g = g := by
  apply toCG_injective; simp only [toCG_smul, toC_one, one_smul]
theorem smul_comm' (a b : Cx ℝ) (g : CGrid ℝ n m) : smul a (smul b g) = smul b (smul a g) := by
  apply toCG_injective; simp only [toCG_smul]; rw [smul_comm]
/-- scaling the *left* factor of a pointwise product -/
theorem smul_mul' (c : Cx ℝ) (g h : CGrid ℝ n m) : mul (smul c g) h = smul c (mul g h) := by
  apply toCG_injective; simp only [toCG_mul, toCG_smul, smul_mul_assoc]

/-! ### shifts and rolls are index permutations: they commute with the pointwise structure -/

theorem fftshift_add (g h : CGrid ℝ n m) : fftshift (add g h) = add (fftshift g) (fftshift h) :=
  fftshift_zipWith _ g h
theorem fftshift_mul (g h : CGrid ℝ n m) : fftshift (mul g h) = mul (fftshift g) (fftshift h) :=
  fftshift_zipWith _ g h
theorem fftshift_smul (c : Cx ℝ) (g : CGrid ℝ n m) : fftshift (smul c g) = smul c (fftshift g) :=
  fftshift_map _ g
theorem fftshift_zero : fftshift (zero : CGrid ℝ n m) = zero := fftshift_const 0
theorem fftshift_const' (c : Cx ℝ) : fftshift (const c : CGrid ℝ n m) = const c := fftshift_const c
theorem ifftshift_add (g h : CGrid ℝ n m) :
    ifftshift (add g h) = add (ifftshift g) (ifftshift h) := ifftshift_zipWith _ g h
theorem ifftshift_smul (c : Cx ℝ) (g : CGrid ℝ n m) :
    ifftshift (smul c g) = smul c (ifftshift g) := ifftshift_map _ g
theorem ifftshift_zero : ifftshift (zero : CGrid ℝ n m) = zero := ifftshift_const 0

theorem roll_map {β γ : Type} (s t : ℕ) (f : β → γ) (g : Grid β n m) :
    roll s t (Grid.map f g) = Grid.map f (roll s t g) := by
  apply Grid.ext_get; intro i j
  simp only [get_roll, Grid.get_map]
theorem roll_smul (s t : ℕ) (c : Cx ℝ) (g : CGrid ℝ n m) :
    roll s t (smul c g) = smul c (roll s t g) := roll_map s t _ g

/-- two circular shifts of one axis commute -/
theorem shift_shift_comm {n i a b : ℕ} (ha : a ≤ n) (hb : b ≤ n) :
    ((i + n - a) % n + n - b) % n = ((i + n - b) % n + n - a) % n := by
  have h1 : (i + n - a) % n + n - b = (i + n - a) % n + (n - b) := Nat.add_sub_assoc hb _
  have h2 : (i + n - b) % n + n - a = (i + n - b) % n + (n - a) := Nat.add_sub_assoc ha _
  have h3 : i + n - a + (n - b) = i + n - b + (n - a) := by omega
  rw [h1, h2, Nat.mod_add_mod, Nat.mod_add_mod, h3]

theorem shift_unshift_comm {n i a b : ℕ} (hb : b ≤ n) :
    ((i + a) % n + n - b) % n = ((i + n - b) % n + a) % n := by
  have h1 : (i + a) % n + n - b = (i + a) % n + (n - b) := Nat.add_sub_assoc hb _
  have h3 : i + a + (n - b) = i + n - b + a := by omega
  rw [h1, Nat.mod_add_mod, Nat.mod_add_mod, h3]

/-- `fftshift` is itself a roll (by `(n/2, m/2)`), so it commutes with every roll -/
theorem fftshift_roll {β : Type} (s t : ℕ) (g : Grid β n m) :
    fftshift (roll s t g) = roll s t (fftshift g) := by
  apply Grid.ext_get; intro i j
  have hn : s % n ≤ n := (Nat.mod_lt _ i.pos).le
  have hm : t % m ≤ m := (Nat.mod_lt _ j.pos).le
  simp only [fftshift, get_roll, Grid.get_ofFn]
  exact congrArg₂ g.get (Fin.ext (shift_shift_comm (i := i.val) (Nat.div_le_self n 2) hn))
    (Fin.ext (shift_shift_comm (i := j.val) (Nat.div_le_self m 2) hm))

theorem ifftshift_roll {β : Type} (s t : ℕ) (g : Grid β n m) :
    ifftshift (roll s t g) = roll s t (ifftshift g) := by
  apply Grid.ext_get; intro i j
  have hn : s % n ≤ n := (Nat.mod_lt _ i.pos).le
  have hm : t % m ≤ m := (Nat.mod_lt _ j.pos).le
  simp only [ifftshift, get_roll, Grid.get_ofFn]
  exact congrArg₂ g.get (Fin.ext (shift_unshift_comm (i := i.val) (a := n / 2) hn))
    (Fin.ext (shift_unshift_comm (i := j.val) (a := m / 2) hm))

/-! ### the shift-first convolution -/

/-- `ifftshift (ifft2 (H · fft2 (fftshift u)))`: the field is centred *before* the transform and the
    multiplier `H` lives in unshifted frequency order (NumPy Fresnel methods) -/
noncomputable def shiftConv (H u : CGrid ℝ n m) : CGrid ℝ n m :=
  ifftshift (ifft2 (mul H (fft2 (fftshift u))))

theorem shiftConv_add (H u v : CGrid ℝ n m) :
    shiftConv H (add u v) = add (shiftConv H u) (shiftConv H v) := by
  unfold shiftConv
  rw [fftshift_add u v, fft2_add (fftshift u) (fftshift v),
    mul_add' H (fft2 (fftshift u)) (fft2 (fftshift v)),
    ifft2_add (mul H (fft2 (fftshift u))) (mul H (fft2 (fftshift v))),
    ifftshift_add (ifft2 (mul H (fft2 (fftshift u)))) (ifft2 (mul H (fft2 (fftshift v))))]

theorem shiftConv_smul (H : CGrid ℝ n m) (c : Cx ℝ) (u : CGrid ℝ n m) :
    shiftConv H (smul c u) = smul c (shiftConv H u) := by
  unfold shiftConv
  rw [fftshift_smul c u, fft2_smul c (fftshift u), mul_smul' c H (fft2 (fftshift u)),
    ifft2_smul c (mul H (fft2 (fftshift u))), ifftshift_smul c (ifft2 (mul H (fft2 (fftshift u))))]

theorem shiftConv_zero (H : CGrid ℝ n m) : shiftConv H zero = zero := by
  unfold shiftConv
  rw [fftshift_zero, fft2_zero, mul_zero' H, ifft2_zero, ifftshift_zero]

/-- scaling the multiplier scales the output -/
theorem shiftConv_smul_left (c : Cx ℝ) (H u : CGrid ℝ n m) :
    shiftConv (smul c H) u = smul c (shiftConv H u) := by
  unfold shiftConv
  rw [smul_mul' c H (fft2 (fftshift u)), ifft2_smul c (mul H (fft2 (fftshift u))),
    ifftshift_smul c (ifft2 (mul H (fft2 (fftshift u))))]

/-- scaling the spectrum scales the output -/
theorem shiftConv_smul_inner (c : Cx ℝ) (H u : CGrid ℝ n m) :
    ifftshift (ifft2 (mul H (smul c (fft2 (fftshift u))))) = smul c (shiftConv H u) := by
  unfold shiftConv
  rw [mul_smul' c H (fft2 (fftshift u)), ifft2_smul c (mul H (fft2 (fftshift u))),
    ifftshift_smul c (ifft2 (mul H (fft2 (fftshift u))))]

theorem shiftConv_linear (H u v : CGrid ℝ n m) (a b : Cx ℝ) :
    shiftConv H (add (smul a u) (smul b v)) = add (smul a (shiftConv H u)) (smul b (shiftConv H v)) := by
  rw [shiftConv_add H (smul a u) (smul b v), shiftConv_smul H a u, shiftConv_smul H b v]

/-- semigroup law, every size: `fftshift ∘ ifftshift = id`, `fft2 ∘ ifft2 = id` -/
theorem shiftConv_comp (H1 H2 u : CGrid ℝ n m) :
    shiftConv H2 (shiftConv H1 u) = shiftConv (mul H2 H1) u := by
  unfold shiftConv
  rw [fftshift_ifftshift (ifft2 (mul H1 (fft2 (fftshift u)))),
    fft2_ifft2 (mul H1 (fft2 (fftshift u))), ← mul_assoc' H2 H1 (fft2 (fftshift u))]

theorem shiftConv_one (u : CGrid ℝ n m) : shiftConv (const 1) u = u := by
  unfold shiftConv
  rw [one_mul' (fft2 (fftshift u)), ifft2_fft2 (fftshift u), ifftshift_fftshift u]

/-- a unit-modulus multiplier conserves the energy (Parseval both ways, shifts are permutations) -/
theorem energy_shiftConv_unit (H u : CGrid ℝ n m) (hH : ∀ i j, Cx.normSq (H.get i j) = 1) :
    energy (shiftConv H u) = energy u := by
  unfold shiftConv
  rw [energy_ifftshift, energy_ifft2, energy_mul_unit H (fft2 (fftshift u)) hH, ← energy_ifft2,
    ifft2_fft2 (fftshift u), energy_fftshift]

/-- a multiplier of modulus at most one cannot create energy -/
theorem energy_shiftConv_le (H u : CGrid ℝ n m) (hH : ∀ i j, Cx.normSq (H.get i j) ≤ 1) :
    energy (shiftConv H u) ≤ energy u := by
  have h1 : energy (shiftConv H u) = energy (mul H (fft2 (fftshift u))) / (n * m : ℝ) := by
    unfold shiftConv; rw [energy_ifftshift, energy_ifft2]
  have h2 : energy u = energy (fft2 (fftshift u)) / (n * m : ℝ) := by
    rw [← energy_ifft2, ifft2_fft2 (fftshift u), energy_fftshift]
  rw [h1, h2]
  apply div_le_div_of_nonneg_right (energy_mul_le H (fft2 (fftshift u)) hH)
  positivity

/-- translating the input by whole pixels translates the output -/
theorem shiftConv_roll (s t : ℕ) (H u : CGrid ℝ n m) :
    shiftConv H (roll s t u) = roll s t (shiftConv H u) := by
  unfold shiftConv
  rw [fftshift_roll s t u, fft2_roll s t (fftshift u),
    mul_left_comm' H (phase s t) (fft2 (fftshift u)),
    ← roll_ifft2 s t (mul H (fft2 (fftshift u))),
    ifftshift_roll s t (ifft2 (mul H (fft2 (fftshift u))))]

/-! ### the Fresnel transfer-function kernel as a grid -/

theorem tfKernel_mul (n m : ℕ) (dx lam k z1 z2 : ℝ) :
    mul (tfKernel n m dx lam k z2) (tfKernel n m dx lam k z1) = tfKernel n m dx lam k (z1 + z2) := by
  apply Grid.ext_get; intro i j
  rw [get_mul, tf_add, add_comm]

theorem tfKernel_zero (n m : ℕ) (dx lam k : ℝ) : tfKernel n m dx lam k 0 = const 1 := by
  apply Grid.ext_get; intro i j
  rw [tf_zero, get_const]

theorem tf_shifted_unit (n m : ℕ) (dx lam k z : ℝ) (i : Fin n) (j : Fin m) :
    Cx.normSq ((fftshift (tfKernel n m dx lam k z)).get i j) = 1 := by
  rw [get_fftshift]; exact tf_unit n m dx lam k z _ _

/-! ### NumPy `transfer_function_fresnel` -/

/-- the constant `c = (1/L)²`, `L = nu·dx`, of NumPy `transfer_function_fresnel` -/
noncomputable def npTFc (m : ℕ) (dx : ℝ) : ℝ := Num.sq ((1 : ℝ) / (Num.ofNat m * dx))

theorem npTFc_ne_zero (m : ℕ) (dx : ℝ) (hc : (m : ℝ) * dx ≠ 0) : npTFc m dx ≠ 0 := by
  unfold npTFc
  rw [num_sq, num_ofNat]
  exact mul_ne_zero (one_div_ne_zero hc) (one_div_ne_zero hc)

theorem npTFc_ne_zero' (m : ℕ) (dx : ℝ) (hdx : 0 < dx) (hm : 0 < m) : npTFc m dx ≠ 0 :=
  npTFc_ne_zero m dx (mul_pos (Nat.cast_pos.mpr hm) hdx).ne'

/-- unconditional form (any `dx`, any `m`, `c = 0` included): the pipeline is the shift-first
    convolution with the shifted kernel, scaled by `c` and then by `c⁻¹` -/
theorem npTF_eq_smul (u : CGrid ℝ n m) (dx lam k z : ℝ) :
    npTF u dx lam k z = smul (Cx.ofReal (npTFc m dx)⁻¹) (smul (Cx.ofReal (npTFc m dx))
      (shiftConv (fftshift (tfKernel n m dx lam k z)) u)) := by
  have key := shiftConv_smul_inner (Cx.ofReal (npTFc m dx)) (fftshift (tfKernel n m dx lam k z)) u
  rw [← key, ← map_smul_eq (npTFc m dx) (fft2 (fftshift u)),
    ← map_divR_eq (npTFc m dx)]
  rfl

/-- 1. normal form: the factor `c` cancels -/
theorem npTF_eq (u : CGrid ℝ n m) (dx lam k z : ℝ) (hc : (m : ℝ) * dx ≠ 0) :
    npTF u dx lam k z =
      ifftshift (ifft2 (mul (fftshift (tfKernel n m dx lam k z)) (fft2 (fftshift u)))) := by
  rw [npTF_eq_smul u dx lam k z,
    smul_smul' (Cx.ofReal (npTFc m dx)⁻¹) (Cx.ofReal (npTFc m dx)),
    ofReal_inv_mul (npTFc m dx) (npTFc_ne_zero m dx hc), one_smul']
  rfl

theorem npTF_eq_shiftConv (u : CGrid ℝ n m) (dx lam k z : ℝ) (hc : (m : ℝ) * dx ≠ 0) :
    npTF u dx lam k z = shiftConv (fftshift (tfKernel n m dx lam k z)) u :=
  npTF_eq u dx lam k z hc

theorem pos_ne (m : ℕ) (dx : ℝ) (hdx : 0 < dx) (hm : 0 < m) : (m : ℝ) * dx ≠ 0 :=
  (mul_pos (Nat.cast_pos.mpr hm) hdx).ne'

theorem energy_npTF (u : CGrid ℝ n m) (dx lam k z : ℝ) (hc : (m : ℝ) * dx ≠ 0) :
    energy (npTF u dx lam k z) = energy u := by
  rw [npTF_eq_shiftConv u dx lam k z hc]
  exact energy_shiftConv_unit _ u (tf_shifted_unit n m dx lam k z)

theorem npTF_comp (u : CGrid ℝ n m) (dx lam k z1 z2 : ℝ) (hc : (m : ℝ) * dx ≠ 0) :
    npTF (npTF u dx lam k z1) dx lam k z2 = npTF u dx lam k (z1 + z2) := by
  rw [npTF_eq_shiftConv (npTF u dx lam k z1) dx lam k z2 hc, npTF_eq_shiftConv u dx lam k z1 hc,
    npTF_eq_shiftConv u dx lam k (z1 + z2) hc,
    shiftConv_comp (fftshift (tfKernel n m dx lam k z1)) (fftshift (tfKernel n m dx lam k z2)) u,
    ← fftshift_mul (tfKernel n m dx lam k z2) (tfKernel n m dx lam k z1),
    tfKernel_mul n m dx lam k z1 z2]

theorem npTF_zero_dist (u : CGrid ℝ n m) (dx lam k : ℝ) (hc : (m : ℝ) * dx ≠ 0) :
    npTF u dx lam k 0 = u := by
  rw [npTF_eq_shiftConv u dx lam k 0 hc, tfKernel_zero n m dx lam k, fftshift_const' 1]
  exact shiftConv_one u

theorem npTF_linear (u v : CGrid ℝ n m) (a b : Cx ℝ) (dx lam k z : ℝ) :
    npTF (add (smul a u) (smul b v)) dx lam k z
      = add (smul a (npTF u dx lam k z)) (smul b (npTF v dx lam k z)) := by
  set H := fftshift (tfKernel n m dx lam k z) with hH
  set c := Cx.ofReal (npTFc m dx) with hc
  set d := Cx.ofReal (npTFc m dx)⁻¹ with hd
  rw [npTF_eq_smul (add (smul a u) (smul b v)) dx lam k z, npTF_eq_smul u dx lam k z,
    npTF_eq_smul v dx lam k z, ← hH, ← hc, ← hd, shiftConv_linear H u v a b,
    smul_add' c (smul a (shiftConv H u)) (smul b (shiftConv H v)),
    smul_add' d (smul c (smul a (shiftConv H u))) (smul c (smul b (shiftConv H v))),
    smul_comm' c a (shiftConv H u), smul_comm' c b (shiftConv H v),
    smul_comm' d a (smul c (shiftConv H u)), smul_comm' d b (smul c (shiftConv H v))]

theorem npTF_zero_field (dx lam k z : ℝ) :
    npTF (zero : CGrid ℝ n m) dx lam k z = zero := by
  rw [npTF_eq_smul zero dx lam k z, shiftConv_zero, smul_zero', smul_zero']

theorem npTF_roll (s t : ℕ) (u : CGrid ℝ n m) (dx lam k z : ℝ) :
    npTF (roll s t u) dx lam k z = roll s t (npTF u dx lam k z) := by
  rw [npTF_eq_smul (roll s t u) dx lam k z, npTF_eq_smul u dx lam k z,
    shiftConv_roll s t (fftshift (tfKernel n m dx lam k z)) u, roll_smul, roll_smul]

/-! ### NumPy `impulse_response_fresnel` -/

/-- unconditional form: shift-first convolution with `H = dx² • fft2 (fftshift h)`, divided by `dx²` -/
theorem npIR_eq_smul (u : CGrid ℝ n m) (dx lam k z : ℝ) :
    npIR u dx lam k z = smul (Cx.ofReal (Num.sq dx)⁻¹)
      (shiftConv (smul (Cx.ofReal (Num.sq dx)) (fft2 (fftshift (npIrKernel n m dx lam k z)))) u) := by
  rw [← map_smul_eq (Num.sq dx) (fft2 (fftshift (npIrKernel n m dx lam k z))),
    ← map_divR_eq (Num.sq dx)]
  rfl

theorem npIR_linear (u v : CGrid ℝ n m) (a b : Cx ℝ) (dx lam k z : ℝ) :
    npIR (add (smul a u) (smul b v)) dx lam k z
      = add (smul a (npIR u dx lam k z)) (smul b (npIR v dx lam k z)) := by
  set H := smul (Cx.ofReal (Num.sq dx)) (fft2 (fftshift (npIrKernel n m dx lam k z))) with hH
  set d := Cx.ofReal (Num.sq dx)⁻¹ with hd
  rw [npIR_eq_smul (add (smul a u) (smul b v)) dx lam k z, npIR_eq_smul u dx lam k z,
    npIR_eq_smul v dx lam k z, ← hH, ← hd, shiftConv_linear H u v a b,
    smul_add' d (smul a (shiftConv H u)) (smul b (shiftConv H v)),
    smul_comm' d a (shiftConv H u), smul_comm' d b (shiftConv H v)]

theorem npIR_zero_field (dx lam k z : ℝ) :
    npIR (zero : CGrid ℝ n m) dx lam k z = zero := by
  rw [npIR_eq_smul zero dx lam k z, shiftConv_zero, smul_zero']

theorem npIR_roll (s t : ℕ) (u : CGrid ℝ n m) (dx lam k z : ℝ) :
    npIR (roll s t u) dx lam k z = roll s t (npIR u dx lam k z) := by
  rw [npIR_eq_smul (roll s t u) dx lam k z, npIR_eq_smul u dx lam k z, shiftConv_roll, roll_smul]

/-- for `dx ≠ 0` the two `dx²` cancel: the pipeline is the shift-first convolution with the
    transformed spatial kernel -/
theorem npIR_eq (u : CGrid ℝ n m) (dx lam k z : ℝ) (hdx : dx ≠ 0) :
    npIR u dx lam k z = shiftConv (fft2 (fftshift (npIrKernel n m dx lam k z))) u := by
  have h : Num.sq dx ≠ 0 := by rw [num_sq]; exact mul_ne_zero hdx hdx
  rw [npIR_eq_smul u dx lam k z,
    shiftConv_smul_left (Cx.ofReal (Num.sq dx)) (fft2 (fftshift (npIrKernel n m dx lam k z))) u,
    smul_smul' (Cx.ofReal (Num.sq dx)⁻¹) (Cx.ofReal (Num.sq dx)), ofReal_inv_mul (Num.sq dx) h,
    one_smul']

/-! ### torch `fraunhofer` -/

/-- the pointwise factor `1/(iλz) · exp(i k 0.5/z · (X² + Y²))` of torch `fraunhofer` -/
noncomputable def fraunhoferCoef (n m : ℕ) (dx lam k z : ℝ) : CGrid ℝ n m :=
  Grid.ofFn fun i j =>
    let X := linspace (-(Num.ofNat m) * dx / Num.two) (Num.ofNat m * dx / Num.two) m j
    let Y := linspace (-(Num.ofNat n) * dx / Num.two) (Num.ofNat n * dx / Num.two) n i
    (⟨0, -((1 : ℝ) / (lam * z))⟩ : Cx ℝ) * Cx.expi (k * Num.half / z * (Num.sq X + Num.sq Y))

theorem torchFraunhofer_eq (u : CGrid ℝ n m) (dx lam k z : ℝ) :
    torchFraunhofer u dx lam k z = smul (Cx.ofReal (Num.sq dx))
      (mul (fraunhoferCoef n m dx lam k z) (ifftshift (fft2 (fftshift u)))) := by
  apply Grid.ext_get; intro i j
  rw [get_smul, get_mul, ← Cx.smul_eq_mul]
  simp only [torchFraunhofer, fraunhoferCoef, Grid.get_ofFn]

theorem torchFraunhofer_linear (u v : CGrid ℝ n m) (a b : Cx ℝ) (dx lam k z : ℝ) :
    torchFraunhofer (add (smul a u) (smul b v)) dx lam k z
      = add (smul a (torchFraunhofer u dx lam k z)) (smul b (torchFraunhofer v dx lam k z)) := by
  set C := fraunhoferCoef n m dx lam k z with hC
  set d := Cx.ofReal (Num.sq dx) with hd
  have hF : ifftshift (fft2 (fftshift (add (smul a u) (smul b v))))
      = add (smul a (ifftshift (fft2 (fftshift u)))) (smul b (ifftshift (fft2 (fftshift v)))) := by
    rw [fftshift_add (smul a u) (smul b v), fftshift_smul a u, fftshift_smul b v,
      fft2_add (smul a (fftshift u)) (smul b (fftshift v)), fft2_smul a (fftshift u),
      fft2_smul b (fftshift v),
      ifftshift_add (smul a (fft2 (fftshift u))) (smul b (fft2 (fftshift v))),
      ifftshift_smul a (fft2 (fftshift u)), ifftshift_smul b (fft2 (fftshift v))]
  set Fu := ifftshift (fft2 (fftshift u)) with hFu
  set Fv := ifftshift (fft2 (fftshift v)) with hFv
  rw [torchFraunhofer_eq (add (smul a u) (smul b v)) dx lam k z, torchFraunhofer_eq u dx lam k z,
    torchFraunhofer_eq v dx lam k z, ← hC, ← hd, hF, mul_add' C (smul a Fu) (smul b Fv),
    mul_smul' a C Fu, mul_smul' b C Fv, smul_add' d (smul a (mul C Fu)) (smul b (mul C Fv)),
    smul_comm' d a (mul C Fu), smul_comm' d b (mul C Fv)]

theorem torchFraunhofer_zero_field (dx lam k z : ℝ) :
    torchFraunhofer (zero : CGrid ℝ n m) dx lam k z = zero := by
  rw [torchFraunhofer_eq zero dx lam k z, fftshift_zero, fft2_zero, ifftshift_zero, mul_zero',
    smul_zero']

end Odak
