import OdakProofs.Lemmas.PropagatorObjectInst2

/-!
  # Work package 16: the contents of the distances and of the aperture of a constructed propagator, in the grid model

  * the distances tensor is the CALLER'S tensor when one is passed, `linspace(-volume_depth/2, volume_depth/2, n) + image_location_offset`
    otherwise;
  * the aperture `set_aperture` stores (constructor and later calls): the caller's `[h, w]` aperture zero-padded to `[2h, 2w]` (times `1.`), or
    the circular mask of the padded size.
-/
set_option linter.unusedVariables false
set_option linter.unusedSimpArgs false
set_option linter.unusedSectionVars false

namespace Odak
open Gen CGrid

theorem litNum_one : (litNum "1.0" : ℝ) = 1 := by simp [litNum]
theorem litNum_two : (litNum "2.0" : ℝ) = 2 := by simp [litNum]

theorem Cx.mul_one_real (z : Cx ℝ) : z * (⟨1, 0⟩ : Cx ℝ) = z := by
  cases z with
  | mk a b =>
    show (⟨a * 1 - b * 0, a * 0 + b * 1⟩ : Cx ℝ) = ⟨a, b⟩
    simp

/-- **the aperture `set_aperture(aperture = v)` stores** for an `[h, w]` tensor `v`: the elements of `zero_pad(v) * 1.` are `padGrid v` -/
theorem apertureValue_given {h w : Nat} (rf : Int) (v : Ten ℝ) (hv : v.shape = [h, w]) (size : Option (Ten ℝ)) :
    ∃ X, pApertureValue propOpsGrid [(h : Int), (w : Int)] rf (some v) size = some X ∧
      Ten.toGrid (2 * h) (2 * w) X = padGrid (Ten.toGrid h w v) := by
  refine ⟨_, rfl, ?_⟩
  show Ten.toGrid _ _ (Ten.zip (· * ·) (Ten.zeroPad v) (Ten.real (litNum "1.0"))) = _
  rw [Ten.zeroPad_of_shape hv, Ten.toGrid_zip_scalar _ _ _ (by simp) rfl, Ten.toGrid_ofGrid, litNum_one]
  apply Grid.ext_get; intro i j
  simp only [Grid.map, Grid.get_ofFn, Ten.real_val, Cx.mul_one_real]

/-- `circular_binary_mask` as a tensor; sizes as naturals -/
noncomputable def circMaskTen (n m : Nat) (r : ℝ) : Ten ℝ := Ten.ofGrid (Ten.circMaskGrid n m r)

/-- **the default aperture** (`set_aperture()` without an aperture, `resolution_factor = 1`): the circular mask of the padded size, radius
    the given `aperture_size` or the longer side of the resolution -/
theorem apertureValue_default {h w : Nat} (size : Option (Ten ℝ)) :
    ∃ X, pApertureValue propOpsGrid [(h : Int), (w : Int)] 1 none size = some X ∧
      Ten.toGrid (2 * h) (2 * w) X = Ten.circMaskGrid (2 * h) (2 * w)
        (match size with | some s => s.val.re | none => if (h : ℝ) < (w : ℝ) then (w : ℝ) else (h : ℝ)) := by
  have e1 : ((h : Int) * 1 * 2).toNat = 2 * h := by omega
  have e2 : ((w : Int) * 1 * 2).toNat = 2 * w := by omega
  have key : ∀ r : ℝ, Ten.toGrid (2 * h) (2 * w) (Ten.zip (· * ·) (Ten.ofGrid (Ten.circMaskGrid ((h : Int) * 1 * 2).toNat ((w : Int) * 1 * 2).toNat r))
      (Ten.real (litNum "1.0"))) = Ten.circMaskGrid (2 * h) (2 * w) r := by
    intro r
    rw [e1, e2, Ten.toGrid_zip_scalar _ _ _ (by simp) rfl, Ten.toGrid_ofGrid, litNum_one]
    apply Grid.ext_get; intro i j
    simp only [Grid.map, Grid.get_ofFn, Ten.real_val, Cx.mul_one_real]
  cases size with
  | some s => exact ⟨_, rfl, key _⟩
  | none =>
    refine ⟨_, rfl, ?_⟩
    have ev : (Ten.maxAll (Ten.ofList ([(h : Int) * 1, (w : Int) * 1].map Num.int) : Ten ℝ)).val.re = if (h : ℝ) < (w : ℝ) then (w : ℝ) else (h : ℝ) := by
      have i1 : (Num.int (h : Int) : ℝ) = (h : ℝ) := by simp [Num.int]
      have i2 : (Num.int (w : Int) : ℝ) = (w : ℝ) := by simp [Num.int]
      simp [Ten.maxAll, Ten.ofList, Ten.ofFn, Ten.shape, Ten.allIdx, List.range_succ, Ten.real_val, Num.maxN, i1, i2]
    show Ten.toGrid _ _ (Ten.zip (· * ·) (Ten.ofGrid (Ten.circMaskGrid _ _
      (Ten.maxAll (Ten.ofList ([(h : Int) * 1, (w : Int) * 1].map Num.int) : Ten ℝ)).val.re)) (Ten.real (litNum "1.0"))) = _
    rw [ev]
    exact key _

/-! ### the distances of a constructed propagator -/

/-- the content of the distances object: the caller's tensor, or the default planes -/
theorem pInit_distances {T R : Type} [DecidableEq R] (E : PropOps T R) (L : PropLaws E) (a : PropArgs T R) (h : Heap T) (o : PropObj T R) (h' : Heap T)
    (hi : pInit E a h = some (o, h')) (hp : ∀ p, a.laser_channel_power = some p → p < h.size) (dists : T) (hd : h'.get o.distances = some dists) :
    (∀ l, a.distances = some l → h.get l = some dists) ∧
    (a.distances = none → dists = E.add (E.linspace (E.rdiv (E.rneg a.volume_depth) (E.lit "2.0")) (E.rdiv a.volume_depth (E.lit "2.0"))
      a.number_of_depth_layers) (E.scalar a.image_location_offset)) := by
  obtain ⟨dists', ap, cp, inv, ext, -, -, -, hgiven, -⟩ := pInit_inv E L a h o h' hi hp
  have e : dists' = dists := by
    have := inv.hd
    rw [hd] at this
    injection this with this
    exact this.symm
  subst e
  refine ⟨fun l hl => (hgiven l hl).2, fun hn => ?_⟩
  -- the default: the first object `__init__` creates
  unfold pInit at hi
  simp only [Option.bind_eq_bind, pInitDistances, hn, Option.bind_some] at hi
  cases h0 : a.resolution[0]? with
  | none => simp [h0] at hi
  | some r0 =>
  cases h1 : a.resolution[1]? with
  | none => simp [h0, h1] at hi
  | some r1 =>
  simp only [h0, h1, Option.bind_some] at hi
  generalize hcr : pInitPowers E a.number_of_frames (a.wavelengths.length : Int) a.laser_channel_power _ = cres at hi
  cases hap : cres.1.getOpt a.aperture with
  | none => simp [hap] at hi
  | some apv =>
  cases hav : pApertureValue E a.resolution a.rf apv a.aperture_size with
  | none => simp [hap, hav] at hi
  | some av =>
  simp only [hap, hav, Option.bind_some, Option.some.injEq, Prod.mk.injEq] at hi
  obtain ⟨eo, eh⟩ := hi
  have ed : o.distances = h.size := by rw [← eo]
  -- the heap only grows after the first allocation and nothing writes that object
  have hget : h'.get h.size = some (E.add (E.linspace (E.rdiv (E.rneg a.volume_depth) (E.lit "2.0")) (E.rdiv a.volume_depth (E.lit "2.0"))
      a.number_of_depth_layers) (E.scalar a.image_location_offset)) := by
    rw [← eh]
    have hc : Heap.Ext ((((h.alloc (E.add (E.linspace (E.rdiv (E.rneg a.volume_depth) (E.lit "2.0")) (E.rdiv a.volume_depth (E.lit "2.0"))
        a.number_of_depth_layers) (E.scalar a.image_location_offset))).1.alloc (E.zeros [a.number_of_depth_layers, (a.wavelengths.length : Int)] "")).1.alloc
        (E.zeros [a.number_of_depth_layers, (a.wavelengths.length : Int), r0 * a.rf * 2, r1 * a.rf * 2] "torch.complex64")).1) cres.1 := by
      rw [← hcr]
      unfold pInitPowers
      cases a.laser_channel_power with
      | none => exact Heap.Ext.alloc _ _
      | some p => exact Heap.Ext.refl _
    exact (Heap.Ext.alloc _ _).get (hc.get ((Heap.Ext.alloc _ _).get ((Heap.Ext.alloc _ _).get (Heap.get_alloc_self _ _))))
  rw [ed, hget] at hd
  injection hd with hd
  exact hd.symm

/-! ### the aperture of a constructed propagator -/

/-- the content of the aperture object after `__init__`: what `set_aperture` computes from the content of the CALLER'S aperture (an
    object that existed before the constructor ran) or without one -/
theorem pInit_aperture {T R : Type} [DecidableEq R] (E : PropOps T R) (a : PropArgs T R) (h : Heap T) (o : PropObj T R) (h' : Heap T)
    (hi : pInit E a h = some (o, h')) (ap : T) (ha : h'.get o.aperture = some ap) :
    (a.aperture = none → pApertureValue E a.resolution a.rf none a.aperture_size = some ap) ∧
    (∀ l v, a.aperture = some l → h.get l = some v → pApertureValue E a.resolution a.rf (some v) a.aperture_size = some ap) := by
  unfold pInit at hi
  simp only [Option.bind_eq_bind] at hi
  cases hdres : pInitDistances E a h with
  | none => simp [hdres] at hi
  | some dres =>
  simp only [hdres, Option.bind_some] at hi
  have ext1 : Heap.Ext h dres.1 := by
    unfold pInitDistances at hdres
    cases hd : a.distances with
    | none =>
      simp only [hd, Option.some.injEq] at hdres
      rw [← hdres]
      exact Heap.Ext.alloc _ _
    | some d =>
      simp only [hd] at hdres
      cases hg : h.get d with
      | none => simp [hg] at hdres
      | some dv =>
        simp only [hg, Option.map_some, Option.some.injEq] at hdres
        rw [← hdres]
        exact Heap.Ext.refl _
  cases h0 : a.resolution[0]? with
  | none => simp [h0] at hi
  | some r0 =>
  cases h1 : a.resolution[1]? with
  | none => simp [h0, h1] at hi
  | some r1 =>
  simp only [h0, h1, Option.bind_some] at hi
  generalize hz1 : E.zeros [dres.2.2, (a.wavelengths.length : Int)] "" = Z1 at hi
  generalize hz2 : E.zeros [dres.2.2, (a.wavelengths.length : Int), r0 * a.rf * 2, r1 * a.rf * 2] "torch.complex64" = Z2 at hi
  have ext4 : Heap.Ext h (pInitPowers E a.number_of_frames (a.wavelengths.length : Int) a.laser_channel_power ((dres.1.alloc Z1).1.alloc Z2).1).1 := by
    refine ext1.trans ((Heap.Ext.alloc dres.1 Z1).trans ((Heap.Ext.alloc (dres.1.alloc Z1).1 Z2).trans ?_))
    unfold pInitPowers
    cases a.laser_channel_power with
    | none => exact Heap.Ext.alloc _ _
    | some p => exact Heap.Ext.refl _
  generalize pInitPowers E a.number_of_frames (a.wavelengths.length : Int) a.laser_channel_power ((dres.1.alloc Z1).1.alloc Z2).1 = cres at hi ext4
  cases hap : cres.1.getOpt a.aperture with
  | none => simp [hap] at hi
  | some apv =>
  cases hav : pApertureValue E a.resolution a.rf apv a.aperture_size with
  | none => simp [hap, hav] at hi
  | some av =>
  simp only [hap, hav, Option.bind_some, Option.some.injEq, Prod.mk.injEq] at hi
  obtain ⟨eo, eh⟩ := hi
  have e : av = ap := by
    have : h'.get o.aperture = some av := by rw [← eo, ← eh]; exact Heap.get_alloc_self _ _
    rw [ha] at this
    injection this with this
    exact this.symm
  subst e
  constructor
  · intro hn
    rw [hn] at hap
    simp only [Heap.getOpt, Option.some.injEq] at hap
    rw [← hap] at hav
    exact hav
  · intro l v hl hv
    rw [hl] at hap
    simp only [Heap.getOpt, ext4.get hv, Option.map_some, Option.some.injEq] at hap
    rw [← hap] at hav
    exact hav

/-! ### the aperture in force after a call list, as a grid -/

/-- an aperture handed to `set_aperture` has the resolution of the propagator -/
def PCall.apShape (h w : Nat) : PCall (Ten ℝ) → Prop
  | .setAperture (some v) _ => v.shape = [h, w]
  | _ => True

/-- what one call does to the aperture grid: `set_aperture(v)` pads `v`, `set_aperture()` installs the circular mask, every other call
    leaves it alone -/
noncomputable def apGridStep {h w : Nat} (A : CGrid ℝ (2 * h) (2 * w)) : PCall (Ten ℝ) → CGrid ℝ (2 * h) (2 * w)
  | .setAperture (some v) _ => padGrid (Ten.toGrid h w v)
  | .setAperture none size => Ten.circMaskGrid (2 * h) (2 * w)
      (match size with | some s => s.val.re | none => if (h : ℝ) < (w : ℝ) then (w : ℝ) else (h : ℝ))
  | _ => A

/-- the aperture in force after a call list: a fold of `apGridStep` (only the `set_aperture` calls matter) -/
theorem toGrid_pRefAp {h w : Nat} (o : PropObj (Ten ℝ) ℝ) (hres : o.resolution = [(h : Int), (w : Int)]) (hrf : o.resolution_factor = 1) :
    ∀ (pre : List (PCall (Ten ℝ))) (ap : Ten ℝ), (∀ x ∈ pre, x.apShape h w) →
      Ten.toGrid (2 * h) (2 * w) (pRefAp propOpsGrid o ap pre) = pre.foldl apGridStep (Ten.toGrid (2 * h) (2 * w) ap) := by
  intro pre
  induction pre with
  | nil => intro ap _; rfl
  | cons x rest ih =>
    intro ap hx
    have hrest : ∀ y ∈ rest, y.apShape h w := fun y hy => hx y (List.mem_cons_of_mem _ hy)
    have hx0 := hx x List.mem_cons_self
    cases x with
    | setAperture a size =>
      cases a with
      | some v =>
        obtain ⟨X, eX, eg⟩ := apertureValue_given (h := h) (w := w) 1 v hx0 size
        simp only [pRefAp, hres, hrf, eX, Option.getD_some, List.foldl_cons, apGridStep]
        rw [ih X hrest, eg]
      | none =>
        obtain ⟨X, eX, eg⟩ := apertureValue_default (h := h) (w := w) size
        simp only [pRefAp, hres, hrf, eX, Option.getD_some, List.foldl_cons, apGridStep]
        rw [ih X hrest, eg]
    | forward u c d => simpa [pRefAp, apGridStep] using ih ap hrest
    | reconstruct ph amp ng gc => simpa [pRefAp, apGridStep] using ih ap hrest
    | setPowers p => simpa [pRefAp, apGridStep] using ih ap hrest
    | getPowers => simpa [pRefAp, apGridStep] using ih ap hrest
    | getKernels => simpa [pRefAp, apGridStep] using ih ap hrest

/-- element `d` of the default distances `linspace(-volume_depth / 2, volume_depth / 2, n) + image_location_offset` -/
theorem defaultDistances_el (vd off : ℝ) (n : Int) (d : Nat) :
    (((propOpsGrid : PropOps (Ten ℝ) ℝ).add (propOpsGrid.linspace (propOpsGrid.rdiv (propOpsGrid.rneg vd) (propOpsGrid.lit "2.0"))
      (propOpsGrid.rdiv vd (propOpsGrid.lit "2.0")) n) (propOpsGrid.scalar off)).el [(d : Int)]).re =
      linspace (-vd / 2) (vd / 2) n.toNat d + off := by
  show ((Ten.zip (· + ·) (Ten.ofFn [n.toNat] _) (Ten.real off)).el [(d : Int)]).re = _
  have e : ∀ f : List Int → Cx ℝ, (Ten.ofFn [n.toNat] f : Ten ℝ).shape.isEmpty = false := fun _ => rfl
  have e2 : (Ten.real off : Ten ℝ).shape.isEmpty = true := rfl
  simp only [Ten.zip, e, e2, Bool.false_eq_true, if_false, if_true]
  simp only [Ten.ofFn, Ten.real, Ten.scalar, Cx.add_re', Int.toNat_natCast, litNum_two]
  rfl

end Odak
