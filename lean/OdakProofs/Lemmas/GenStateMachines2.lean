import OdakProofs.Lemmas.GenStateMachines

/-!
  # Tie theorems (2): `MetamericLossUniform`, `MetamerMSELoss` and the fovea mask of `MetamericLoss.calc_statsmaps`, REGENERATED from the
  Python source (`OdakModel/Generated/StateMachines.lean`), against the hand-written keyed cache.  See `GenStateMachines.lean`.
-/
set_option linter.unusedVariables false
set_option linter.unusedSimpArgs false
set_option linter.unusedSectionVars false

namespace Odak
open Odak.Gen
variable {T G R Shape Sub : Type} [DecidableEq G] [DecidableEq R] [DecidableEq Shape]

/-! ### `MetamericLossUniform` -/

theorem gen_metamericLossUniformStatsG_eq (E : GazeOps T G R Shape Sub) (cfg : MetamericLossUniformCfg R)
    (s : MetamericLossUniformSelf T G R Shape Sub) (A B : List T) :
    metamericLossUniformMetamericLossStatsG E cfg s A B = some (muLossStats E A B) := by
  simp only [metamericLossUniformMetamericLossStatsG, muLossStats]
  rw [forIn_option_yield (fun l p => E.add l (E.mse p.1 p.2))]
  · rfl
  · rintro ⟨a, b⟩ r
    rfl

/-- the regenerated `MetamericLossUniform.__call__` on an object whose target cache is `c`: the keyed-cache step with key = the prepared
    target; a NEW object (`self.target is None`) always refreshes.
    (Up to /repo 20de69e a new object stored `zeros(target.shape)` as its target and refreshed only if the target differed from it: for an
    all-zero prepared target the first call skipped `calc_statsmaps` and raised on the unset `target_stats`; this theorem then needed the
    hypothesis "the prepared target is not all zeros" and a companion theorem proved that the first call raises.  Fixed in 20de69e.) -/
theorem gen_metamericLossUniformCallG_eq [DecidableEq T] (E : GazeOps T G R Shape Sub) (cfg : MetamericLossUniformCfg R) (stats : T → List T)
    (I : Sub → Prop)
    (hcore : ∀ sub, I sub → ∀ x, I (E.uniformStatsCore cfg sub x cfg.pooling_size).1 ∧
      (E.uniformStatsCore cfg sub x cfg.pooling_size).2 = stats x)
    (hext : ∀ a b : T, a = b ↔ (E.shape a = E.shape b ∧ E.allEq b a = true))
    (c : Option (T × List T)) (lm : Option T) (sub : Sub) (hsub : I sub) (x : MUArgs T)
    (hok : E.inputsOk x.image x.target = true) :
    ∃ lm' sub' log, I sub' ∧
      metamericLossUniformCallG E cfg (muToSelf c lm sub) x.image x.target x.image_colorspace x.visualise_loss =
        some (muToSelf (cacheStep stats c (muKey E cfg x)).1 lm' sub',
          muValueOf E cfg stats x (cacheStep stats c (muKey E cfg x)).2, log) ∧
      ("target_stats" ∈ log ↔ cacheMiss c (muKey E cfg x) = true) := by
  obtain ⟨image, target, cs, vis⟩ := x
  simp only at hok
  have hI : ∀ sub, I sub → ∀ x, I (E.uniformStatsCore cfg sub x cfg.pooling_size).1 := fun sub h x => (hcore sub h x).1
  have hV : ∀ sub, I sub → ∀ x, (E.uniformStatsCore cfg sub x cfg.pooling_size).2 = stats x := fun sub h x => (hcore sub h x).2
  by_cases hc : E.channels (E.pad image cfg.n_pyramid_levels) = 3 ∧ cs = "RGB"
  all_goals
    rcases c with _ | ⟨t0, v0⟩
    · cases hv : vis <;>
      simp [metamericLossUniformCallG, muToSelf, muKey, mlPrep, muValueOf, cacheStep, cacheMiss, hok, hc, hv,
        metamericLossUniformCalcStatsmapsG, metamericLossUniformVisualiseLossMapG, gen_metamericLossUniformStatsG_eq, hV, hI, hsub]
    · have ht := hext t0 (mlPrep E cfg.n_pyramid_levels image target cs).2
      by_cases hs : E.shape t0 = E.shape (mlPrep E cfg.n_pyramid_levels image target cs).2
      case neg =>
        have hne : t0 ≠ (mlPrep E cfg.n_pyramid_levels image target cs).2 := fun h => hs (ht.1 h).1
        simp [mlPrep, hc] at hs hne
        cases hv : vis <;>
        simp [metamericLossUniformCallG, muToSelf, muKey, mlPrep, muValueOf, cacheStep, cacheMiss, hok, hc, hv,
          metamericLossUniformCalcStatsmapsG, metamericLossUniformVisualiseLossMapG, gen_metamericLossUniformStatsG_eq, hV, hI, hsub, hs, hne]
      cases ha : E.allEq (mlPrep E cfg.n_pyramid_levels image target cs).2 t0
      case false =>
        have hne : t0 ≠ (mlPrep E cfg.n_pyramid_levels image target cs).2 := fun h => by rw [(ht.1 h).2] at ha; cases ha
        simp [mlPrep, hc] at hs hne ha
        cases hv : vis <;>
        simp [metamericLossUniformCallG, muToSelf, muKey, mlPrep, muValueOf, cacheStep, cacheMiss, hok, hc, hv,
          metamericLossUniformCalcStatsmapsG, metamericLossUniformVisualiseLossMapG, gen_metamericLossUniformStatsG_eq, hV, hI, hsub, hs, hne, ha]
      case true =>
        have he : t0 = (mlPrep E cfg.n_pyramid_levels image target cs).2 := ht.2 ⟨hs, ha⟩
        simp [mlPrep, hc] at he ha
        subst he
        cases hv : vis <;>
        simp [metamericLossUniformCallG, muToSelf, muKey, mlPrep, muValueOf, cacheStep, cacheMiss, hok, hc, hv,
          metamericLossUniformCalcStatsmapsG, metamericLossUniformVisualiseLossMapG, gen_metamericLossUniformStatsG_eq, hV, hI, hsub, ha]

/-! ### `MetamerMSELoss` -/

/-- the regenerated `MetamerMSELoss.__call__` (with `gen_metamer` inlined by its own regenerated step function) on an object whose
    metamer cache is `c` and whose inner `MetamericLoss` object has sub-caches satisfying `I`: never raises; keyed-cache step with
    key = (gaze, padded target), cached value = the metamer `gen_metamer` builds for them; the loss compares the padded image with the
    metamer that step yields; `target_metamer` is stored exactly on a miss.  `self.noise` is never assigned by the source, so the noise
    image is drawn (after `torch.manual_seed(0)`) on every refresh.
    `gen_metamer` calls `calc_statsmaps(image, gaze=gaze, alpha=…alpha)`: width, distance and mode are the DEFAULTS of `calc_statsmaps`
    (0.3, 0.6, "quadratic"), not the configuration of the loss - that is what the hypotheses on the numerics are about -/
theorem gen_metamerMSELossCallG_eq [DecidableEq T] (E : GazeOps T G R Shape Sub) (cfgI : MetamericLossCfg R) (stats : T → G → List T)
    (synth : List T → List T → T → T → Shape → T) (I : Sub → Prop)
    (hcore : ∀ sub, I sub → ∀ x g, I (E.statsCore cfgI sub x g cfgI.alpha (E.lit "0.3") (E.lit "0.6") "quadratic").1 ∧
      (E.statsCore cfgI sub x g cfgI.alpha (E.lit "0.3") (E.lit "0.6") "quadratic").2.1 = stats x g)
    (hsynth : ∀ sub, I sub → ∀ x g a b n sz,
      E.synthMetamer cfgI (E.statsCore cfgI sub x g cfgI.alpha (E.lit "0.3") (E.lit "0.6") "quadratic").1 a b n x sz = synth a b n x sz)
    (hext : ∀ a b : T, a = b ↔ (E.shape a = E.shape b ∧ E.allEq b a = true))
    (c : Option ((G × T) × T)) (inner : MetamericLossSelf T G R Shape Sub) (hsub : I inner.sub) (x : LossArgs T G)
    (hok : E.inputsOk x.image x.target = true) :
    ∃ inner' log, I inner'.sub ∧
      metamerMSELossCallG E cfgI (mmToSelf c inner) x.image x.target x.gaze =
        some (mmToSelf (cacheStep (fun k => mmMetamer E cfgI.n_pyramid_levels stats synth k.2 k.1) c
            (x.gaze, E.pad x.target cfgI.n_pyramid_levels)).1 inner',
          E.mse (E.pad x.image cfgI.n_pyramid_levels)
            (cacheStep (fun k => mmMetamer E cfgI.n_pyramid_levels stats synth k.2 k.1) c (x.gaze, E.pad x.target cfgI.n_pyramid_levels)).2,
          log) ∧
      ("target_metamer" ∈ log ↔ cacheMiss c (x.gaze, E.pad x.target cfgI.n_pyramid_levels) = true) := by
  obtain ⟨image, target, gaze⟩ := x
  simp only at hok
  have hI : ∀ sub, I sub → ∀ x g, I (E.statsCore cfgI sub x g cfgI.alpha (E.lit "0.3") (E.lit "0.6") "quadratic").1 :=
    fun sub h x g => (hcore sub h x g).1
  have hV : ∀ sub, I sub → ∀ x g, (E.statsCore cfgI sub x g cfgI.alpha (E.lit "0.3") (E.lit "0.6") "quadratic").2.1 = stats x g :=
    fun sub h x g => (hcore sub h x g).2
  have hS := fun sub h => hsynth sub h
  rcases c with _ | ⟨⟨g0, t0⟩, v0⟩
  · cases hl : cfgI.use_l2_foveal_loss <;>
    simp [metamerMSELossCallG, metamerMSELossGenMetamerG, mmToSelf, mmMetamer, cacheStep, cacheMiss, hok, hl, metamericLossCalcStatsmapsG,
      hV, hI, hS, hsub]
  · have ht := hext t0 (E.pad target cfgI.n_pyramid_levels)
    by_cases hg : g0 = gaze
    case neg =>
      cases hl : cfgI.use_l2_foveal_loss <;>
      simp [metamerMSELossCallG, metamerMSELossGenMetamerG, mmToSelf, mmMetamer, cacheStep, cacheMiss, hok, hl, metamericLossCalcStatsmapsG,
        hV, hI, hS, hsub, hg]
    by_cases hs : E.shape t0 = E.shape (E.pad target cfgI.n_pyramid_levels)
    case neg =>
      have hne : t0 ≠ E.pad target cfgI.n_pyramid_levels := fun h => hs (ht.1 h).1
      cases hl : cfgI.use_l2_foveal_loss <;>
      simp [metamerMSELossCallG, metamerMSELossGenMetamerG, mmToSelf, mmMetamer, cacheStep, cacheMiss, hok, hl, metamericLossCalcStatsmapsG,
        hV, hI, hS, hsub, hg, hs, hne]
    cases ha : E.allEq (E.pad target cfgI.n_pyramid_levels) t0
    case false =>
      have hne : t0 ≠ E.pad target cfgI.n_pyramid_levels := fun h => by rw [(ht.1 h).2] at ha; cases ha
      cases hl : cfgI.use_l2_foveal_loss <;>
      simp [metamerMSELossCallG, metamerMSELossGenMetamerG, mmToSelf, mmMetamer, cacheStep, cacheMiss, hok, hl, metamericLossCalcStatsmapsG,
        hV, hI, hS, hsub, hg, hs, hne, ha]
    case true =>
      have he : t0 = E.pad target cfgI.n_pyramid_levels := ht.2 ⟨hs, ha⟩
      subst he
      simp [metamerMSELossCallG, metamerMSELossGenMetamerG, mmToSelf, mmMetamer, cacheStep, cacheMiss, hok, metamericLossCalcStatsmapsG,
        hV, hI, hS, hsub, hg, ha]

/-! ### the fovea mask of `MetamericLoss.calc_statsmaps` (per pixel, over ℝ) -/

theorem natPow_eq_pow (x : ℝ) (n : ℕ) : natPow x n = x ^ n := by
  induction n with
  | zero => simp [natPow]
  | succ k ih => rw [natPow, ih, pow_succ]

/-- the threshold literal `1e-6` of the source -/
theorem fovea_threshold_eq : (Num.ofSci 1 true 6 : ℝ) = 1 / 1000000 := by
  rw [num_ofSci]; norm_num

/-- closed form of the regenerated mask: `1` below the threshold, `(1 - lod / max lod)^10` from the threshold on -/
theorem gen_foveaMaskPixelG_eq (lod lodMax : ℝ) :
    foveaMaskPixelG lod lodMax = (if lod < 1 / 1000000 then 1 else 1 - lod / lodMax) ^ 10 ∧
    peripheryMaskPixelG lod lodMax = 1 - foveaMaskPixelG lod lodMax := by
  constructor
  · simp only [foveaMaskPixelG, natPow_eq_pow, fovea_threshold_eq, num_ofNat, Nat.cast_one]
  · simp only [peripheryMaskPixelG, num_ofNat, Nat.cast_one]

end Odak
