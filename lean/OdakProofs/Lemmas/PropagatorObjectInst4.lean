import OdakProofs.Lemmas.PropagatorObjectInst3
import OdakProofs.Lemmas.GenPropagatorObject7

/-!
  # Work package 16: every slot of `reconstruct`, in the grid model

  Slot `[frame, plane, channel]` of the buffer `reconstruct` returns holds the documented propagation - pad, `custom` with the regenerated
  kernel of (channel, plane) and the aperture in force, crop - of the hologram `generate_complex_field(power[f][c] * amplitude[c], phase[f])`
  (`holoGrid`; `phase_scale` is all ones), or its intensity.
-/
set_option linter.unusedVariables false
set_option linter.unusedSimpArgs false
set_option linter.unusedSectionVars false

namespace Odak
open Gen CGrid

namespace Ten
variable {α : Type} [Num α]
@[simp] theorem getIdx_shape (t : Ten α) (i : List Int) : (t.getIdx i).shape = t.sh i := by simp [shape, getIdx]
theorem map_sh (f : Cx α → Cx α) (t : Ten α) : (map f t).sh = t.sh := rfl
end Ten

/-- the hologram `reconstruct` hands to `__call__` for (frame `f`, channel `c`): `generate_complex_field(laser_power[f][c] * amplitude[c],
    phases[f] * phase_scale[c])` with `phase_scale = 1` -/
noncomputable def holoGrid (h w : Nat) (lp amp phs : Ten ℝ) (f c : Nat) : CGrid ℝ h w :=
  Grid.ofFn fun i j => genFieldT ((lp.el [(f : Int), (c : Int)]) * (amp.el [(c : Int), (i.val : Int), (j.val : Int)])).re
    (phs.el [(f : Int), (i.val : Int), (j.val : Int)]).re

theorem holo_tensor {h w : Nat} (lp amp phs pscale : Ten ℝ) (f c : Nat) (hlp : lp.sh [(f : Int), (c : Int)] = [])
    (hamp : amp.sh [(c : Int)] = [h, w]) (hphs : phs.sh [(f : Int)] = [h, w]) (hps : pscale.sh [(c : Int)] = [])
    (hone : pscale.el [(c : Int)] = ⟨1, 0⟩) :
    ((propOpsGrid : PropOps (Ten ℝ) ℝ).field (propOpsGrid.mul (propOpsGrid.getIdx (propOpsGrid.getIdx lp [(f : Int)]) [(c : Int)]) (propOpsGrid.getIdx amp [(c : Int)]))
        (propOpsGrid.mul (propOpsGrid.getIdx phs [(f : Int)]) (propOpsGrid.getIdx pscale [(c : Int)]))).shape = [h, w] ∧
    Ten.toGrid h w ((propOpsGrid : PropOps (Ten ℝ) ℝ).field (propOpsGrid.mul (propOpsGrid.getIdx (propOpsGrid.getIdx lp [(f : Int)]) [(c : Int)]) (propOpsGrid.getIdx amp [(c : Int)]))
        (propOpsGrid.mul (propOpsGrid.getIdx phs [(f : Int)]) (propOpsGrid.getIdx pscale [(c : Int)]))) = holoGrid h w lp amp phs f c := by
  show (Ten.zip _ (Ten.zip _ (Ten.getIdx (Ten.getIdx lp _) _) (Ten.getIdx amp _)) (Ten.zip _ (Ten.getIdx phs _) (Ten.getIdx pscale _))).shape = _ ∧
    Ten.toGrid h w (Ten.zip _ (Ten.zip _ (Ten.getIdx (Ten.getIdx lp _) _) (Ten.getIdx amp _)) (Ten.zip _ (Ten.getIdx phs _) (Ten.getIdx pscale _))) = _
  have s1 : (Ten.getIdx (Ten.getIdx lp [(f : Int)]) [(c : Int)]).shape.isEmpty = true := by
    rw [Ten.getIdx_getIdx, Ten.getIdx_shape]; simp [hlp]
  have s2 : (Ten.getIdx phs [(f : Int)]).shape.isEmpty = false := by rw [Ten.getIdx_shape, hphs]; rfl
  have s3 : (Ten.getIdx pscale [(c : Int)]).shape.isEmpty = true := by rw [Ten.getIdx_shape, hps]; rfl
  have eA : Ten.zip (fun x1 x2 : Cx ℝ => x1 * x2) (Ten.getIdx (Ten.getIdx lp [(f : Int)]) [(c : Int)]) (Ten.getIdx amp [(c : Int)]) =
      ⟨(Ten.getIdx amp [(c : Int)]).sh, fun r => lp.el [(f : Int), (c : Int)] * amp.el ((c : Int) :: r)⟩ := by
    simp only [Ten.zip, s1, if_true]
    rfl
  have eB : Ten.zip (fun x1 x2 : Cx ℝ => x1 * x2) (Ten.getIdx phs [(f : Int)]) (Ten.getIdx pscale [(c : Int)]) =
      ⟨(Ten.getIdx phs [(f : Int)]).sh, fun r => phs.el ((f : Int) :: r) * pscale.el [(c : Int)]⟩ := by
    simp only [Ten.zip, s2, s3, Bool.false_eq_true, if_false, if_true]
    rfl
  rw [eA, eB]
  have sA : (⟨(Ten.getIdx amp [(c : Int)]).sh, fun r => lp.el [(f : Int), (c : Int)] * amp.el ((c : Int) :: r)⟩ : Ten ℝ).shape = [h, w] := by
    show (Ten.getIdx amp [(c : Int)]).sh [] = _
    simpa [Ten.getIdx] using hamp
  have sB : (⟨(Ten.getIdx phs [(f : Int)]).sh, fun r => phs.el ((f : Int) :: r) * pscale.el [(c : Int)]⟩ : Ten ℝ).shape = [h, w] := by
    show (Ten.getIdx phs [(f : Int)]).sh [] = _
    simpa [Ten.getIdx] using hphs
  have iA : (⟨(Ten.getIdx amp [(c : Int)]).sh, fun r => lp.el [(f : Int), (c : Int)] * amp.el ((c : Int) :: r)⟩ : Ten ℝ).shape.isEmpty = false := by rw [sA]; rfl
  have iB : (⟨(Ten.getIdx phs [(f : Int)]).sh, fun r => phs.el ((f : Int) :: r) * pscale.el [(c : Int)]⟩ : Ten ℝ).shape.isEmpty = false := by rw [sB]; rfl
  constructor
  · simp only [Ten.zip, iA, iB, Bool.false_eq_true, if_false]
    exact sA
  · rw [Ten.toGrid_zip _ _ _ (by rw [sA]; simp) (by rw [sB]; simp)]
    apply Grid.ext_get; intro i j
    simp only [Grid.zipWith, Ten.toGrid, holoGrid, Grid.get_ofFn, hone, Cx.mul_one_real]

/-- the laser powers `reconstruct` reads keep the layout of the tensor in force -/
theorem pPowers_sh (o : PropObj (Ten ℝ) ℝ) (cp lp : Ten ℝ) (hp : pPowers propOpsGrid o cp = some lp) : lp.sh = cp.sh := by
  unfold pPowers at hp
  split_ifs at hp with h1 h2
  · injection hp with hp; rw [← hp]; rfl
  · injection hp with hp; rw [← hp]

/-- the value `reconstruct` stores for a slot: the propagated hologram, or `calculate_amplitude(.) ** 2` of it -/
noncomputable def slotValue (gc : Bool) (R : Ten ℝ) : Ten ℝ :=
  if gc then R else Ten.map (fun u => Ten.cpow (⟨calcAmplitudeT u, 0⟩ : Cx ℝ) 2) R

/-- **`pSlot` in the grid model** -/
theorem pSlot_grid {h w : Nat} (o : PropObj (Ten ℝ) ℝ) (hres : o.resolution = [(h : Int), (w : Int)])
    (hty : o.propagator_type = "forward" ∨ o.propagator_type = "back and forth")
    (kern : ℝ → ℝ → CGrid ℝ (2 * h) (2 * w))
    (hk : ∀ lam z, propagationKernelT o.propagation_type (2 * h) (2 * w) o.pixel_pitch lam z (o.samp 0) (o.samp 1) (o.samp 2) (o.samp 3) = some (kern lam z))
    (dists ap cp phs amp lp : Ten ℝ) (gc : Bool) (f d c : Nat) (hc : c < o.wavelengths.length)
    (hpw : pPowers propOpsGrid o cp = some lp) (hcp : cp.sh [(f : Int), (c : Int)] = [])
    (hamp : amp.sh [(c : Int)] = [h, w]) (hphs : phs.sh [(f : Int)] = [h, w]) (hps : o.phase_scale.sh [(c : Int)] = [])
    (hone : o.phase_scale.el [(c : Int)] = ⟨1, 0⟩) :
    pSlot propOpsGrid o dists ap cp phs amp gc (f : Int) (d : Int) (c : Int) = some (slotValue gc
      (Ten.ofGrid (cropGrid (customT (padGrid (holoGrid h w lp amp phs f c)) (objKernelGrid o kern dists c d) (Ten.toGrid (2 * h) (2 * w) ap))))) := by
  obtain ⟨H, eH, eHg⟩ := pKernel_grid o hres hty kern hk dists c d hc
  obtain ⟨hsh, hgrid⟩ := holo_tensor (h := h) (w := w) lp amp phs o.phase_scale f c (by rw [pPowers_sh o cp lp hpw]; exact hcp) hamp hphs hps hone
  simp only [pSlot, hpw, eH, Option.bind_eq_bind, Option.bind_some, Option.some.injEq]
  rw [Ten.pOut_grid hsh, hgrid, eHg]
  cases gc <;> rfl

/-- the intensity `reconstruct` stores without `get_complex`: `calculate_amplitude(u) ** 2` is `|u|²`, element by element -/
theorem slotValue_intensity_el (R : Ten ℝ) (r : List Int) : (slotValue false R).el r = ⟨Cx.normSq (R.el r), 0⟩ := by
  have hn : 0 ≤ Cx.normSq (R.el r) := by
    simp only [Cx.normSq]
    nlinarith [mul_self_nonneg (R.el r).re, mul_self_nonneg (R.el r).im]
  have hs : Real.sqrt (Cx.normSq (R.el r)) * Real.sqrt (Cx.normSq (R.el r)) = Cx.normSq (R.el r) := Real.mul_self_sqrt hn
  show Ten.cpow (⟨calcAmplitudeT (R.el r), 0⟩ : Cx ℝ) 2 = _
  have e : ∀ a : ℝ, Ten.cpow (⟨a, 0⟩ : Cx ℝ) 2 = ⟨a * a, 0⟩ := by
    intro a
    show ((1 : Cx ℝ) * ⟨a, 0⟩) * ⟨a, 0⟩ = _
    have h1 : (1 : Cx ℝ) * ⟨a, 0⟩ = ⟨a, 0⟩ := by
      show (⟨1 * a - 0 * 0, 1 * 0 + 0 * a⟩ : Cx ℝ) = _
      simp
    rw [h1]
    show (⟨a * a - 0 * 0, a * 0 + 0 * a⟩ : Cx ℝ) = _
    simp
  rw [e]
  simp only [calcAmplitudeT, Cx.abs, num_sqrt, hs]

end Odak
