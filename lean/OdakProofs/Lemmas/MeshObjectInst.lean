import OdakProofs.RealInst
import OdakProofs.Lemmas.GenMeshObject
import OdakProofs.Lemmas.GenGeometry
import OdakProofs.Lemmas.GenGeometryBatch
import OdakModel.MeshObjectInst

/-!
  # Work package 16: the regenerated `planar_mesh` object instantiated with the regenerated batched geometry

  * the reference semantics of the mesh object is total; its state after a call list is the content the LAST in-place update wrote into
    the heights (`heightsAfter`);
  * after any call list a `mirror` call of the regenerated object returns `Gen.mirrorT` of the rays and of the triangles computed from the
    heights as they are at that call;
  * every ray `Gen.mirrorT` returns is a reflection by the law of reflection at the plane hit of one input ray with one of those triangles.
-/
set_option linter.unusedVariables false
set_option linter.unusedSimpArgs false
set_option linter.unusedSectionVars false

namespace Odak
open Gen

/-- the content of the heights tensor after a call list: what the last `learn` (an optimiser step, in place) wrote -/
def heightsAfter {T : Type} : T → List (MCall T) → T
  | hv, [] => hv
  | _, .learn v :: rest => heightsAfter v rest
  | hv, .mirror _ :: rest => heightsAfter hv rest
  | hv, .getTriangles :: rest => heightsAfter hv rest
  | hv, .getSquares :: rest => heightsAfter hv rest

theorem meshRef_run_total {T R : Type} [DecidableEq R] (E : MeshOps T R) (o : MeshObj T) (av ov nv : T) :
    ∀ (xs : List (MCall T)) (hv : T), ∃ zs, runSteps (meshRefStep E o av ov nv) hv xs = some (heightsAfter hv xs, zs) := by
  intro xs
  induction xs with
  | nil => intro hv; exact ⟨[], rfl⟩
  | cons x rest ih =>
    intro hv
    cases x with
    | mirror rays =>
      obtain ⟨zs, e⟩ := ih hv
      exact ⟨(.pair (meshMirror E o av ov nv hv rays).1 (meshMirror E o av ov nv hv rays).2, []) :: zs, by simp [runSteps, meshRefStep, e, heightsAfter]⟩
    | getTriangles =>
      obtain ⟨zs, e⟩ := ih hv
      exact ⟨(.one (meshTriangles E o av ov nv hv), []) :: zs, by simp [runSteps, meshRefStep, e, heightsAfter]⟩
    | getSquares =>
      obtain ⟨zs, e⟩ := ih hv
      exact ⟨(.one (meshSquares E o hv), []) :: zs, by simp [runSteps, meshRefStep, e, heightsAfter]⟩
    | learn v =>
      obtain ⟨zs, e⟩ := ih v
      exact ⟨(.unit, []) :: zs, by simp [runSteps, meshRefStep, e, heightsAfter]⟩

/-- **`mirror` after any call list** (every record of operations): the object is unchanged, nothing is stored, and the value is the mirror of
    the heights as the last in-place update left them -/
theorem mesh_mirror_after {T R : Type} [DecidableEq R] (E : MeshOps T R) (o : MeshObj T) (av ov nv : T) (h : Heap T) (hv0 : T)
    (inv : MeshInv o h av ov nv) (hh : h.get o.heights = some hv0) (pre : List (MCall T)) (rays : T) :
    ∃ h1 ys, runSteps (meshStep E) ((o.toSelf : PlanarMeshAttrs T R), h) pre = some ((o.toSelf, h1), ys) ∧
      h1.get o.heights = some (heightsAfter hv0 pre) ∧
      meshStep E ((o.toSelf : PlanarMeshAttrs T R), h1) (.mirror rays) =
        some ((o.toSelf, h1), (.pair (meshMirror E o av ov nv (heightsAfter hv0 pre) rays).1 (meshMirror E o av ov nv (heightsAfter hv0 pre) rays).2, [])) := by
  obtain ⟨zs, href⟩ := meshRef_run_total E o av ov nv pre hv0
  obtain ⟨h1, e1, inv1, hh1⟩ := mesh_run E o av ov nv pre h hv0 inv hh _ zs href
  refine ⟨h1, zs, e1, hh1, ?_⟩
  simp only [meshStep, gen_meshMirrorG_eq E o h1 av ov nv _ inv1.ha inv1.ho inv1.hn hh1, Option.map_some]

/-- every ray `mirrorT` returns starts at the plane hit of an input ray with one of the triangles, inside that triangle, and has the direction
    the law of reflection gives with that triangle's normal (ε = the regenerated torch epsilon) -/
theorem mirrorT_mem_model {m k : Nat} [NeZero m] [NeZero k] (rays : Fin m → Ray ℝ) (tris : Fin k → Tri ℝ) (r : Ray ℝ) (hr : r ∈ (mirrorT rays tris).1) :
    ∃ j i, isOnTriangle (intersectSurface (rays i).o (rays i).d (tris j).p0 (tris j).p1 (tris j).p2).point (tris j).p0 (tris j).p1 (tris j).p2 = true ∧
      r.o = (intersectSurface (rays i).o (rays i).d (tris j).p0 (tris j).p1 (tris j).p2).point ∧
      r.d = reflectDir reflectEpsTorch (rays i).d (triangleNormalDir (tris j).p0 (tris j).p1 (tris j).p2) := by
  rw [mirrorT_eq] at hr
  simp only [List.mem_flatMap, List.mem_map, List.mem_filter, List.mem_finRange, true_and] at hr
  obtain ⟨j, i, hf, rfl⟩ := hr
  simp only [pairFlagT, pairHitT] at hf
  rw [isOnTriangleT_eq, intersectSurfaceT_eq] at hf
  refine ⟨j, i, hf, ?_, ?_⟩
  · rw [reflectT_eq]; simp only [pairNormalT, pairHitT, intersectSurfaceT_eq]
  · rw [reflectT_eq]; simp only [pairNormalT, pairHitT, intersectSurfaceT_eq]; rfl

/-- `mirror` in the instance: the regenerated `mirrorT` on the rays and triangles read from the tensors -/
theorem meshMirror_grid (o : MeshObj (Ten ℝ)) (av ov nv hv rays : Ten ℝ) (m k : Nat)
    (hm : (if (meshOpsGrid : MeshOps (Ten ℝ) ℝ).rank rays = 2 then (meshOpsGrid : MeshOps (Ten ℝ) ℝ).unsqueeze rays 0 else rays).shape.headD 0 = m + 1)
    (hk : (meshTriangles (meshOpsGrid : MeshOps (Ten ℝ) ℝ) o av ov nv hv).shape.headD 0 = k + 1) :
    meshMirror (meshOpsGrid : MeshOps (Ten ℝ) ℝ) o av ov nv hv rays =
      (Ten.tenOfRays (mirrorT (fun i : Fin (m + 1) => Ten.rayAt (if (meshOpsGrid : MeshOps (Ten ℝ) ℝ).rank rays = 2 then (meshOpsGrid : MeshOps (Ten ℝ) ℝ).unsqueeze rays 0 else rays) i.val)
          (fun j : Fin (k + 1) => Ten.triAt (meshTriangles (meshOpsGrid : MeshOps (Ten ℝ) ℝ) o av ov nv hv) j.val)).1,
       Ten.tenOfRays (mirrorT (fun i : Fin (m + 1) => Ten.rayAt (if (meshOpsGrid : MeshOps (Ten ℝ) ℝ).rank rays = 2 then (meshOpsGrid : MeshOps (Ten ℝ) ℝ).unsqueeze rays 0 else rays) i.val)
          (fun j : Fin (k + 1) => Ten.triAt (meshTriangles (meshOpsGrid : MeshOps (Ten ℝ) ℝ) o av ov nv hv) j.val)).2) := by
  show Ten.mirrorLoopTen _ _ = _
  simp only [Ten.mirrorLoopTen, hm, hk]

/-- the third component of a square corner is the height stored at that lattice point -/
theorem meshSquares_height_el (o : MeshObj (Ten ℝ)) (hv : Ten ℝ) (i j : Int)
    (hx : o.X.shape.getLastD 0 = 1) (hy : o.Y.shape.getLastD 0 = 1) (hz : hv.shape.getLastD 0 = 1) :
    (meshSquares (meshOpsGrid : MeshOps (Ten ℝ) ℝ) o hv).el [i, j, 2] = hv.el [i, j, 0] := by
  show Ten.catLast.pick [o.X, o.Y, hv] [i, j] 2 = _
  simp only [Ten.catLast.pick, hx, hy, hz, Nat.cast_one]
  norm_num

end Odak
