import OdakProofs.Lemmas.Tensor
import OdakProofs.Lemmas.Index
import OdakModel.Generated.PadCrop

/-! Shared by the layout theorems of the regenerated `zero_pad` / `crop_center` (`Generated/PadCrop.lean`, the output of
    `harness/translate/padcrop.py`): the accepted ranks / layouts as a type, reading a Python slice bound that lies inside the
    axis, congruence of element reads, and the simp set that evaluates the rank handling (`unsqueeze` / `permute` / `squeeze`),
    the allocation, the slice store / read and `np.pad` of a regenerated definition on a tensor of known shape. -/
namespace Odak
open Tensor
set_option linter.unusedSectionVars false
variable {α : Type}

/-- the ranks / layouts the torch functions document: `[m x n]`, channels first `[c x m x n]` and `[k x c x m x n]`,
    channels last `[k x m x n x c]` -/
inductive Layout
  | hw | chw | bchw | bhwc
  deriving DecidableEq, Repr

namespace Layout
/-- shape of a stack of `k` images with `c` channels of `h x w` samples (`k`, `c` are not there in the lower ranks) -/
def shape : Layout → (k c h w : Nat) → List Nat
  | hw, _, _, h, w => [h, w]
  | chw, _, c, h, w => [c, h, w]
  | bchw, k, c, h, w => [k, c, h, w]
  | bhwc, k, c, h, w => [k, h, w, c]
/-- multi-index of sample `(i, j)` of channel `ch` of image `b` -/
def idx : Layout → (b ch i j : Nat) → List Nat
  | hw, _, _, i, j => [i, j]
  | chw, _, ch, i, j => [ch, i, j]
  | bchw, b, ch, i, j => [b, ch, i, j]
  | bhwc, b, ch, i, j => [b, i, j, ch]
/-- what the layout heuristic `shape[-1] < 5` of the torch functions needs in order to read the layout as meant: a last spatial
    axis of at least 5 samples when the channels come first, fewer than 5 channels when they come last -/
def Accepts : Layout → (c w : Nat) → Prop
  | bhwc, c, _ => c < 5
  | _, _, w => 5 ≤ w
/-- the two spatial axes -/
def spatial : Layout → Nat × Nat
  | hw => (0, 1)
  | chw => (1, 2)
  | bchw => (2, 3)
  | bhwc => (1, 2)
end Layout

/-- a slice bound inside the axis is itself -/
theorem sliceBound_mid (n : Nat) (b : Int) (h0 : 0 ≤ b) (h1 : b ≤ n) : sliceBound n b = b.toNat := by
  unfold sliceBound; split_ifs <;> omega

theorem get2_congr (x : Tensor α) {a b a' b' : Nat} (h1 : a = a') (h2 : b = b') : x.get [a, b] = x.get [a', b'] := by rw [h1, h2]
theorem get3_congr (x : Tensor α) {a b c a' b' c' : Nat} (h1 : a = a') (h2 : b = b') (h3 : c = c') :
    x.get [a, b, c] = x.get [a', b', c'] := by rw [h1, h2, h3]
theorem get4_congr (x : Tensor α) {a b c d a' b' c' d' : Nat} (h1 : a = a') (h2 : b = b') (h3 : c = c') (h4 : d = d') :
    x.get [a, b, c, d] = x.get [a', b', c', d'] := by rw [h1, h2, h3, h4]

theorem ite_val_congr {c c' : Prop} [Decidable c] [Decidable c'] {a a' z : α} (hc : c ↔ c') (ha : c → c' → a = a') :
    (if c then a else z) = if c' then a' else z := by
  by_cases h : c
  · rw [if_pos h, if_pos (hc.mp h)]; exact ha h (hc.mp h)
  · rw [if_neg h, if_neg (fun h' => h (hc.mpr h'))]

/-- evaluates a regenerated `zero_pad` / `crop_center` on a tensor of known shape: shapes and element reads of every
    intermediate value; slice bounds inside the axis are resolved with `omega` -/
macro "padcrop_simp" "[" ts:Lean.Parser.Tactic.simpLemma,* "]" : tactic =>
  `(tactic| (simp [Layout.shape, Layout.idx, Tensor.unsqueeze, Tensor.squeeze, Tensor.squeezeAll, Tensor.squeezeAllShape,
      Tensor.unsqueezeIdx, Tensor.permute, Tensor.nd, Tensor.insAt, Tensor.remAt, Tensor.getAt, Tensor.setAt,
      Tensor.pyGet, Tensor.tabulate, Tensor.posOf, Tensor.setSlices, Tensor.slices, Tensor.storeOk, Tensor.bcastToRev, Tensor.zeros, Tensor.full,
      Tensor.winLo, Tensor.winShape, Tensor.inWin, Tensor.subIdx, Tensor.addIdx, Tensor.bidx, Tensor.dropN, Tensor.bsel,
      Tensor.padConst, Tensor.padShape, Tensor.padInside, Tensor.padSrc, Tensor.padOk, $ts,*] <;>
      try simp (disch := omega) only [sliceBound_mid]))

/-- closes `(if c then x.get idx else 0) = if c' then x.get idx' else 0` when the conditions and the indices agree by linear arithmetic -/
macro "padcrop_finish" : tactic =>
  `(tactic| (refine ite_val_congr (by omega) (fun _ _ => ?_)
             first
               | (apply get4_congr <;> (first | omega | (split_ifs <;> omega)))
               | (apply get3_congr <;> (first | omega | (split_ifs <;> omega)))
               | (apply get2_congr <;> (first | omega | (split_ifs <;> omega)))))

end Odak
