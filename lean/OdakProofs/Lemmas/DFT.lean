import OdakProofs.RealInst
import OdakModel.Fourier
import Mathlib.RingTheory.RootsOfUnity.Complex
import Mathlib.Algebra.BigOperators.Fin
import Mathlib.Algebra.Field.GeomSum
import Mathlib.Analysis.SpecialFunctions.Complex.Circle
import Mathlib.Tactic.Ring
import Mathlib.Tactic.Linarith
import Mathlib.Tactic.FieldSimp

/-!
  # The discrete Fourier transform on ℂ-valued index functions

  Pure Mathlib side: orthogonality of roots of unity, 1-D inversion / Parseval / linearity for
  `dft1 ζ f k = ∑ j, ζ^(j k) f j`, lifted to the two axes of `Fin n → Fin m → ℂ`.  The model's
  grids are transported here by `toCG` in `OdakProofs/Lemmas/DFT2.lean`.

  All statements hold for every size `n m` (odd, even, non-square, and the empty sizes).
-/
namespace Odak
open Finset

/-! ### index arithmetic of circular shifts -/

theorem mod_cases (a n : ℕ) (h : a < 2 * n) :
    (a < n ∧ a % n = a) ∨ (n ≤ a ∧ a % n = a - n) := by
  rcases Nat.lt_or_ge a n with h1 | h1
  · exact Or.inl ⟨h1, Nat.mod_eq_of_lt h1⟩
  · right; refine ⟨h1, ?_⟩
    rw [Nat.mod_eq_sub_mod h1, Nat.mod_eq_of_lt (by omega)]

theorem shift_unshift {n i s : ℕ} (hi : i < n) (hs : s ≤ n) : ((i + s) % n + n - s) % n = i := by
  rcases mod_cases (i + s) n (by omega) with ⟨h1, h2⟩ | ⟨h1, h2⟩ <;> rw [h2]
  · rcases mod_cases (i + s + n - s) n (by omega) with ⟨h3, h4⟩ | ⟨h3, h4⟩ <;> rw [h4] <;> omega
  · rcases mod_cases (i + s - n + n - s) n (by omega) with ⟨h3, h4⟩ | ⟨h3, h4⟩ <;> rw [h4] <;> omega

theorem unshift_shift {n i s : ℕ} (hi : i < n) (hs : s ≤ n) : ((i + n - s) % n + s) % n = i := by
  rcases mod_cases (i + n - s) n (by omega) with ⟨h1, h2⟩ | ⟨h1, h2⟩ <;> rw [h2]
  · rcases mod_cases (i + n - s + s) n (by omega) with ⟨h3, h4⟩ | ⟨h3, h4⟩ <;> rw [h4] <;> omega
  · rcases mod_cases (i + n - s - n + s) n (by omega) with ⟨h3, h4⟩ | ⟨h3, h4⟩ <;> rw [h4] <;> omega

/-- circular shift `i ↦ (i + s) mod n` as a permutation of `Fin n`; its inverse is
    `i ↦ (i + n - s) mod n` -/
def shiftEquiv (n s : ℕ) (hs : s ≤ n) : Fin n ≃ Fin n where
  toFun i := ⟨(i.val + s) % n, Nat.mod_lt _ i.pos⟩
  invFun i := ⟨(i.val + n - s) % n, Nat.mod_lt _ i.pos⟩
  left_inv i := Fin.ext (shift_unshift i.isLt hs)
  right_inv i := Fin.ext (unshift_shift i.isLt hs)

/-! ### roots of unity -/

/-- orthogonality relation of the characters `k ↦ ζ^(j k)` of `ℤ/n`; vacuous for `n = 0` -/
def Orth (ζ : ℂ) (n : ℕ) : Prop :=
  ∀ j l : Fin n, ∑ k : Fin n, ζ ^ (j.val * k.val) * (ζ⁻¹) ^ (l.val * k.val) =
    if j = l then (n : ℂ) else 0

theorem root_orth {n : ℕ} {ζ : ℂ} (hζ : IsPrimitiveRoot ζ n) : Orth ζ n := by
  intro j l
  have hn : 0 < n := Fin.pos j
  have hζ0 : ζ ≠ 0 := hζ.ne_zero hn.ne'
  split_ifs with h
  · subst h
    have : ∀ k : Fin n, ζ ^ (j.val * k.val) * (ζ⁻¹) ^ (j.val * k.val) = 1 := by
      intro k; rw [← mul_pow, mul_inv_cancel₀ hζ0, one_pow]
    simp only [this]; simp
  · set x : ℂ := ζ ^ j.val * (ζ⁻¹) ^ l.val with hx
    have hterm : ∀ k : Fin n, ζ ^ (j.val * k.val) * (ζ⁻¹) ^ (l.val * k.val) = x ^ k.val := by
      intro k; rw [hx, mul_pow, ← pow_mul, ← pow_mul]
    simp only [hterm]
    rw [Fin.sum_univ_eq_sum_range (fun k => x ^ k) n]
    have hxn : x ^ n = 1 := by
      rw [hx, mul_pow, ← pow_mul, ← pow_mul, mul_comm j.val, mul_comm l.val, pow_mul, pow_mul,
        inv_pow, hζ.pow_eq_one]; simp
    have hx1 : x ≠ 1 := by
      intro hx1
      have : ζ ^ j.val = ζ ^ l.val := by
        have := congrArg (· * ζ ^ l.val) hx1
        simp only [hx, one_mul] at this
        rw [mul_assoc, ← mul_pow, inv_mul_cancel₀ hζ0, one_pow, mul_one] at this
        exact this
      exact h (Fin.ext (hζ.pow_inj j.isLt l.isLt this))
    have := geom_sum_eq hx1 n
    rw [this, hxn, sub_self, zero_div]

/-- `exp(2πi/n)` -/
noncomputable def zeta (n : ℕ) : ℂ := Complex.exp (2 * Real.pi * Complex.I / n)

/-- the base of the model's twiddle factor: `exp(-2πi/n)` forward, `exp(+2πi/n)` inverse -/
noncomputable def zet (fwd : Bool) (n : ℕ) : ℂ := if fwd then (zeta n)⁻¹ else zeta n

theorem zeta_pow_n (n : ℕ) : zeta n ^ n = 1 := by
  rcases Nat.eq_zero_or_pos n with h | h
  · subst h; simp
  · exact (Complex.isPrimitiveRoot_exp n h.ne').pow_eq_one

theorem zet_pow_n (fwd : Bool) (n : ℕ) : zet fwd n ^ n = 1 := by
  cases fwd <;> simp [zet, zeta_pow_n]

theorem zeta_ne_zero (n : ℕ) : zeta n ≠ 0 := Complex.exp_ne_zero _

theorem zet_ne_zero (fwd : Bool) (n : ℕ) : zet fwd n ≠ 0 := by
  cases fwd <;> simp [zet, zeta_ne_zero]

theorem zet_inv (fwd : Bool) (n : ℕ) : (zet fwd n)⁻¹ = zet (!fwd) n := by
  cases fwd <;> simp [zet]

theorem zet_mul_not (fwd : Bool) (n : ℕ) : zet fwd n * zet (!fwd) n = 1 := by
  rw [← zet_inv, mul_inv_cancel₀ (zet_ne_zero fwd n)]

theorem zet_pow_mod (fwd : Bool) (n k : ℕ) : zet fwd n ^ (k % n) = zet fwd n ^ k := by
  conv_rhs => rw [← Nat.div_add_mod k n, pow_add, pow_mul, zet_pow_n, one_pow, one_mul]

theorem conj_zeta (n : ℕ) : (starRingEnd ℂ) (zeta n) = (zeta n)⁻¹ := by
  unfold zeta
  rw [← Complex.exp_conj, ← Complex.exp_neg]
  congr 1
  simp only [map_div₀, map_mul, Complex.conj_ofReal, Complex.conj_I, Complex.conj_natCast, map_ofNat]
  ring

theorem conj_zet (fwd : Bool) (n : ℕ) : (starRingEnd ℂ) (zet fwd n) = (zet fwd n)⁻¹ := by
  cases fwd
  · simp [zet, conj_zeta]
  · simp [zet, conj_zeta]

theorem orth_zet (fwd : Bool) (n : ℕ) : Orth (zet fwd n) n := by
  rcases Nat.eq_zero_or_pos n with h | h
  · subst h; intro j; exact j.elim0
  · have hp : IsPrimitiveRoot (zeta n) n := Complex.isPrimitiveRoot_exp n h.ne'
    cases fwd
    · exact root_orth hp
    · exact root_orth hp.inv

/-- the model's twiddle factor is a power of `zet` -/
theorem toC_tw (fwd : Bool) (n : ℕ) (hn : n ≠ 0) (k : ℕ) : toC (tw fwd n k) = zet fwd n ^ k := by
  rw [← zet_pow_mod]
  have hn' : (n : ℂ) ≠ 0 := Nat.cast_ne_zero.mpr hn
  unfold tw
  cases fwd
  · simp only [Bool.false_eq_true, if_false, zet, toC_expi, zeta]
    rw [← Complex.exp_nat_mul]; congr 1
    simp only [num_two, num_pi, num_ofNat]; push_cast; field_simp
  · simp only [if_true, zet, toC_expi, zeta]
    rw [inv_pow, ← Complex.exp_nat_mul, ← Complex.exp_neg]; congr 1
    simp only [num_two, num_pi, num_ofNat]; push_cast; field_simp

/-! ### the 1-D transform -/

variable {n m : ℕ}

/-- `dft1 ζ f k = ∑ j, ζ^(j k) f j` -/
def dft1 (ζ : ℂ) (f : Fin n → ℂ) (k : Fin n) : ℂ := ∑ j : Fin n, ζ ^ (j.val * k.val) * f j

theorem dft1_inv {ζ : ℂ} (h : Orth ζ n) (f : Fin n → ℂ) (l : Fin n) :
    dft1 ζ⁻¹ (dft1 ζ f) l = (n : ℂ) * f l := by
  unfold dft1
  simp_rw [Finset.mul_sum]
  rw [Finset.sum_comm]
  have key : ∀ j : Fin n, ∑ k : Fin n, ζ⁻¹ ^ (k.val * l.val) * (ζ ^ (j.val * k.val) * f j) =
      (if j = l then (n : ℂ) else 0) * f j := by
    intro j
    rw [← h j l, Finset.sum_mul]
    apply Finset.sum_congr rfl; intro k _
    rw [mul_comm k.val l.val]; ring
  simp_rw [key]
  simp [ite_mul]

theorem dft1_add (ζ : ℂ) (f g : Fin n → ℂ) (k : Fin n) :
    dft1 ζ (f + g) k = dft1 ζ f k + dft1 ζ g k := by
  simp [dft1, mul_add, Finset.sum_add_distrib]

theorem dft1_smul (ζ c : ℂ) (f : Fin n → ℂ) (k : Fin n) :
    dft1 ζ (fun j => c * f j) k = c * dft1 ζ f k := by
  simp only [dft1, Finset.mul_sum]
  apply Finset.sum_congr rfl; intro j _; ring

theorem dft1_parseval {ζ : ℂ} (h : Orth ζ n) (hc : (starRingEnd ℂ) ζ = ζ⁻¹) (f : Fin n → ℂ) :
    ∑ k, Complex.normSq (dft1 ζ f k) = (n : ℝ) * ∑ j, Complex.normSq (f j) := by
  apply Complex.ofReal_injective
  push_cast
  simp_rw [← Complex.mul_conj]
  -- `conj (n f j) = ∑ k, ζ^(k j) conj (F k)` from the inversion formula
  have hinv : ∀ j : Fin n, ∑ k : Fin n, ζ ^ (k.val * j.val) * (starRingEnd ℂ) (dft1 ζ f k) =
      (n : ℂ) * (starRingEnd ℂ) (f j) := by
    intro j
    have := congrArg (starRingEnd ℂ) (dft1_inv h f j)
    rw [map_mul, Complex.conj_natCast] at this
    rw [← this]
    unfold dft1
    rw [map_sum]
    apply Finset.sum_congr rfl; intro k _
    rw [map_mul, map_pow, map_inv₀, hc, inv_inv]
  calc ∑ k, dft1 ζ f k * (starRingEnd ℂ) (dft1 ζ f k)
      = ∑ k, ∑ j, f j * (ζ ^ (j.val * k.val) * (starRingEnd ℂ) (dft1 ζ f k)) := by
        apply Finset.sum_congr rfl; intro k _
        show (∑ j : Fin n, ζ ^ (j.val * k.val) * f j) * _ = _
        rw [Finset.sum_mul]
        apply Finset.sum_congr rfl; intro j _; ring
    _ = ∑ j, f j * ∑ k, ζ ^ (k.val * j.val) * (starRingEnd ℂ) (dft1 ζ f k) := by
        rw [Finset.sum_comm]
        apply Finset.sum_congr rfl; intro j _
        rw [Finset.mul_sum]
        apply Finset.sum_congr rfl; intro k _
        rw [mul_comm j.val k.val]
    _ = (n : ℂ) * ∑ j, f j * (starRingEnd ℂ) (f j) := by
        rw [Finset.mul_sum]
        apply Finset.sum_congr rfl; intro j _
        rw [hinv j]; ring

/-! ### the two axes -/

/-- transform along the second axis (within each row) -/
def rowsC (ζ : ℂ) (f : Fin n → Fin m → ℂ) : Fin n → Fin m → ℂ := fun i l => dft1 ζ (f i) l
/-- transform along the first axis (within each column) -/
def colsC (ζ : ℂ) (f : Fin n → Fin m → ℂ) : Fin n → Fin m → ℂ :=
  fun k l => dft1 ζ (fun i => f i l) k
/-- `Σ |f|²` -/
def energyC (f : Fin n → Fin m → ℂ) : ℝ := ∑ i, ∑ j, Complex.normSq (f i j)
/-- index permutation on both axes -/
def reindex {β : Type} (σ : Fin n → Fin n) (τ : Fin m → Fin m) (f : Fin n → Fin m → β) :
    Fin n → Fin m → β := fun i j => f (σ i) (τ j)

theorem rowsC_inv {ζ : ℂ} (h : Orth ζ m) (f : Fin n → Fin m → ℂ) :
    rowsC ζ⁻¹ (rowsC ζ f) = (m : ℂ) • f := by
  funext i l; exact dft1_inv h (f i) l

theorem colsC_inv {ζ : ℂ} (h : Orth ζ n) (f : Fin n → Fin m → ℂ) :
    colsC ζ⁻¹ (colsC ζ f) = (n : ℂ) • f := by
  funext k l; exact dft1_inv h (fun i => f i l) k

theorem rowsC_colsC_comm (ζ ξ : ℂ) (f : Fin n → Fin m → ℂ) :
    rowsC ζ (colsC ξ f) = colsC ξ (rowsC ζ f) := by
  funext k l
  simp only [rowsC, colsC, dft1, Finset.mul_sum]
  rw [Finset.sum_comm]
  apply Finset.sum_congr rfl; intro i _
  apply Finset.sum_congr rfl; intro j _
  ring

theorem rowsC_add (ζ : ℂ) (f g : Fin n → Fin m → ℂ) : rowsC ζ (f + g) = rowsC ζ f + rowsC ζ g := by
  funext i l; exact dft1_add ζ (f i) (g i) l
theorem colsC_add (ζ : ℂ) (f g : Fin n → Fin m → ℂ) : colsC ζ (f + g) = colsC ζ f + colsC ζ g := by
  funext k l; exact dft1_add ζ (fun i => f i l) (fun i => g i l) k
theorem rowsC_smul (ζ c : ℂ) (f : Fin n → Fin m → ℂ) : rowsC ζ (c • f) = c • rowsC ζ f := by
  funext i l; exact dft1_smul ζ c (f i) l
theorem colsC_smul (ζ c : ℂ) (f : Fin n → Fin m → ℂ) : colsC ζ (c • f) = c • colsC ζ f := by
  funext k l; exact dft1_smul ζ c (fun i => f i l) k

theorem energyC_nonneg (f : Fin n → Fin m → ℂ) : 0 ≤ energyC f :=
  Finset.sum_nonneg fun _ _ => Finset.sum_nonneg fun _ _ => Complex.normSq_nonneg _

theorem energyC_rowsC {ζ : ℂ} (h : Orth ζ m) (hc : (starRingEnd ℂ) ζ = ζ⁻¹)
    (f : Fin n → Fin m → ℂ) : energyC (rowsC ζ f) = (m : ℝ) * energyC f := by
  unfold energyC
  rw [Finset.mul_sum]
  apply Finset.sum_congr rfl; intro i _
  exact dft1_parseval h hc (f i)

theorem energyC_colsC {ζ : ℂ} (h : Orth ζ n) (hc : (starRingEnd ℂ) ζ = ζ⁻¹)
    (f : Fin n → Fin m → ℂ) : energyC (colsC ζ f) = (n : ℝ) * energyC f := by
  unfold energyC
  rw [Finset.sum_comm, Finset.sum_comm (f := fun i j => Complex.normSq (f i j)), Finset.mul_sum]
  apply Finset.sum_congr rfl; intro l _
  exact dft1_parseval h hc (fun i => f i l)

theorem energyC_smul (c : ℂ) (f : Fin n → Fin m → ℂ) :
    energyC (c • f) = Complex.normSq c * energyC f := by
  unfold energyC
  simp only [Pi.smul_apply, smul_eq_mul, map_mul, Finset.mul_sum]

theorem energyC_reindex (σ : Fin n ≃ Fin n) (τ : Fin m ≃ Fin m) (f : Fin n → Fin m → ℂ) :
    energyC (reindex σ τ f) = energyC f := by
  unfold energyC reindex
  rw [← Equiv.sum_comp σ (fun i => ∑ j, Complex.normSq (f i j))]
  apply Finset.sum_congr rfl; intro i _
  exact Equiv.sum_comp τ (fun j => Complex.normSq (f (σ i) j))

/-- 2-D inversion for any pair of orthogonal bases -/
theorem cols_rows_inv {ζ ξ : ℂ} (hζ : Orth ζ n) (hξ : Orth ξ m) (f : Fin n → Fin m → ℂ) :
    colsC ζ⁻¹ (rowsC ξ⁻¹ (colsC ζ (rowsC ξ f))) = (n : ℂ) • (m : ℂ) • f := by
  rw [rowsC_colsC_comm, rowsC_inv hξ, colsC_smul, colsC_smul, colsC_inv hζ, smul_comm]

/-- `fft2` on index functions -/
noncomputable def fft2C (f : Fin n → Fin m → ℂ) : Fin n → Fin m → ℂ :=
  colsC (zet true n) (rowsC (zet true m) f)
/-- `ifft2` on index functions -/
noncomputable def ifft2C (f : Fin n → Fin m → ℂ) : Fin n → Fin m → ℂ :=
  ((n : ℂ) * (m : ℂ))⁻¹ • colsC (zet false n) (rowsC (zet false m) f)

theorem zet_false_eq (n : ℕ) : zet false n = (zet true n)⁻¹ := by simp [zet]
theorem zet_true_eq (n : ℕ) : zet true n = (zet false n)⁻¹ := by simp [zet]

theorem eq_of_size_zero {β : Type} (h : n = 0 ∨ m = 0) (f g : Fin n → Fin m → β) : f = g := by
  rcases h with rfl | rfl
  · funext i; exact i.elim0
  · funext i j; exact j.elim0

theorem ifft2C_fft2C (f : Fin n → Fin m → ℂ) : ifft2C (fft2C f) = f := by
  by_cases h : n = 0 ∨ m = 0
  · exact eq_of_size_zero h _ _
  · have hn : (n : ℂ) ≠ 0 := Nat.cast_ne_zero.mpr (fun e => h (Or.inl e))
    have hm : (m : ℂ) ≠ 0 := Nat.cast_ne_zero.mpr (fun e => h (Or.inr e))
    unfold ifft2C fft2C
    rw [zet_false_eq n, zet_false_eq m, cols_rows_inv (orth_zet true n) (orth_zet true m),
      smul_smul, smul_smul, mul_assoc, inv_mul_cancel₀ (mul_ne_zero hn hm), one_smul]

theorem fft2C_ifft2C (f : Fin n → Fin m → ℂ) : fft2C (ifft2C f) = f := by
  by_cases h : n = 0 ∨ m = 0
  · exact eq_of_size_zero h _ _
  · have hn : (n : ℂ) ≠ 0 := Nat.cast_ne_zero.mpr (fun e => h (Or.inl e))
    have hm : (m : ℂ) ≠ 0 := Nat.cast_ne_zero.mpr (fun e => h (Or.inr e))
    unfold ifft2C fft2C
    rw [rowsC_smul, colsC_smul, zet_true_eq n, zet_true_eq m,
      cols_rows_inv (orth_zet false n) (orth_zet false m),
      smul_smul, smul_smul, mul_assoc, inv_mul_cancel₀ (mul_ne_zero hn hm), one_smul]

theorem fft2C_add (f g : Fin n → Fin m → ℂ) : fft2C (f + g) = fft2C f + fft2C g := by
  unfold fft2C; rw [rowsC_add, colsC_add]
theorem fft2C_smul (c : ℂ) (f : Fin n → Fin m → ℂ) : fft2C (c • f) = c • fft2C f := by
  unfold fft2C; rw [rowsC_smul, colsC_smul]
theorem ifft2C_add (f g : Fin n → Fin m → ℂ) : ifft2C (f + g) = ifft2C f + ifft2C g := by
  unfold ifft2C; rw [rowsC_add, colsC_add, smul_add]
theorem ifft2C_smul (c : ℂ) (f : Fin n → Fin m → ℂ) : ifft2C (c • f) = c • ifft2C f := by
  unfold ifft2C; rw [rowsC_smul, colsC_smul, smul_comm]
theorem fft2C_zero : fft2C (0 : Fin n → Fin m → ℂ) = 0 := by
  have := fft2C_smul (0 : ℂ) (0 : Fin n → Fin m → ℂ)
  simpa using this
theorem ifft2C_zero : ifft2C (0 : Fin n → Fin m → ℂ) = 0 := by
  have := ifft2C_smul (0 : ℂ) (0 : Fin n → Fin m → ℂ)
  simpa using this

theorem energyC_fft2C (f : Fin n → Fin m → ℂ) :
    energyC (fft2C f) = ((n : ℝ) * (m : ℝ)) * energyC f := by
  unfold fft2C
  rw [energyC_colsC (orth_zet true n) (conj_zet true n),
    energyC_rowsC (orth_zet true m) (conj_zet true m), mul_assoc]

theorem energyC_ifft2C (f : Fin n → Fin m → ℂ) :
    energyC (ifft2C f) = energyC f / ((n : ℝ) * (m : ℝ)) := by
  unfold ifft2C
  rw [energyC_smul, energyC_colsC (orth_zet false n) (conj_zet false n),
    energyC_rowsC (orth_zet false m) (conj_zet false m), map_inv₀, map_mul,
    Complex.normSq_natCast, Complex.normSq_natCast]
  rcases eq_or_ne ((n : ℝ) * (m : ℝ)) 0 with h | h
  · rcases mul_eq_zero.mp h with h | h <;> simp [h]
  · have hn : (n : ℝ) ≠ 0 := left_ne_zero_of_mul h
    have hm : (m : ℝ) ≠ 0 := right_ne_zero_of_mul h
    field_simp

end Odak
