import OdakProofs.RealInst
import OdakModel.Rotation
import Mathlib.Analysis.SpecialFunctions.Trigonometric.Basic

/-! 3×3 real matrices of the model: algebra needed for C13 (rotations) and C10/C11/C14. -/
namespace Odak

theorem Vec3.ext' {a b : Vec3 ℝ} (hx : a.x = b.x) (hy : a.y = b.y) (hz : a.z = b.z) : a = b := by
  cases a; cases b; simp_all

theorem Mat3.ext' {A B : Mat3 ℝ} (h00 : A.a00 = B.a00) (h01 : A.a01 = B.a01) (h02 : A.a02 = B.a02)
    (h10 : A.a10 = B.a10) (h11 : A.a11 = B.a11) (h12 : A.a12 = B.a12)
    (h20 : A.a20 = B.a20) (h21 : A.a21 = B.a21) (h22 : A.a22 = B.a22) : A = B := by
  cases A; cases B; simp_all

theorem Mat3.mul_def (A B : Mat3 ℝ) : A * B = Mat3.mul A B := rfl
theorem Vec3.add_def (a b : Vec3 ℝ) : a + b = Vec3.add a b := rfl
theorem Vec3.sub_def (a b : Vec3 ℝ) : a - b = Vec3.sub a b := rfl
theorem Vec3.neg_def (a : Vec3 ℝ) : -a = Vec3.neg a := rfl

/-- tactic-free simp set for unfolding matrix/vector algebra to components -/
macro "mat3_simp" : tactic =>
  `(tactic| simp only [Mat3.mul_def, Mat3.mul, Mat3.one, Mat3.transpose, Mat3.det, Mat3.mulVec,
      Vec3.add_def, Vec3.sub_def, Vec3.neg_def, Vec3.add, Vec3.sub, Vec3.neg, Vec3.dot, Vec3.normSq, Vec3.smul])

theorem Mat3.mul_assoc' (A B C : Mat3 ℝ) : A * B * C = A * (B * C) := by
  apply Mat3.ext' <;> mat3_simp <;> ring

theorem Mat3.one_mul' (A : Mat3 ℝ) : Mat3.one * A = A := by
  apply Mat3.ext' <;> mat3_simp <;> ring

theorem Mat3.mul_one' (A : Mat3 ℝ) : A * Mat3.one = A := by
  apply Mat3.ext' <;> mat3_simp <;> ring

theorem Mat3.transpose_mul (A B : Mat3 ℝ) : (A * B).transpose = B.transpose * A.transpose := by
  apply Mat3.ext' <;> mat3_simp <;> ring

theorem Mat3.transpose_one : (Mat3.one : Mat3 ℝ).transpose = Mat3.one := by
  apply Mat3.ext' <;> mat3_simp

theorem Mat3.transpose_transpose (A : Mat3 ℝ) : A.transpose.transpose = A := by
  apply Mat3.ext' <;> mat3_simp

theorem Mat3.det_mul (A B : Mat3 ℝ) : (A * B).det = A.det * B.det := by
  mat3_simp; ring

theorem Mat3.det_one : (Mat3.one : Mat3 ℝ).det = 1 := by mat3_simp; ring

theorem Mat3.det_transpose (A : Mat3 ℝ) : A.transpose.det = A.det := by mat3_simp; ring

theorem Mat3.mulVec_mul (A B : Mat3 ℝ) (v : Vec3 ℝ) : (A * B).mulVec v = A.mulVec (B.mulVec v) := by
  apply Vec3.ext' <;> mat3_simp <;> ring

theorem Mat3.one_mulVec (v : Vec3 ℝ) : (Mat3.one : Mat3 ℝ).mulVec v = v := by
  apply Vec3.ext' <;> mat3_simp <;> ring

theorem Mat3.mulVec_sub (A : Mat3 ℝ) (u v : Vec3 ℝ) : A.mulVec (u - v) = A.mulVec u - A.mulVec v := by
  apply Vec3.ext' <;> mat3_simp <;> ring

/-- a proper rotation: orthonormal (both ways) with determinant +1 -/
structure IsRot (A : Mat3 ℝ) : Prop where
  right : A * A.transpose = Mat3.one
  left : A.transpose * A = Mat3.one
  det : A.det = 1

theorem isRot_one : IsRot (Mat3.one : Mat3 ℝ) :=
  ⟨by rw [Mat3.transpose_one, Mat3.one_mul'], by rw [Mat3.transpose_one, Mat3.one_mul'], Mat3.det_one⟩

theorem IsRot.mul {A B : Mat3 ℝ} (hA : IsRot A) (hB : IsRot B) : IsRot (A * B) := by
  refine ⟨?_, ?_, ?_⟩
  · rw [Mat3.transpose_mul, Mat3.mul_assoc', ← Mat3.mul_assoc' B, hB.right, Mat3.one_mul', hA.right]
  · rw [Mat3.transpose_mul, Mat3.mul_assoc', ← Mat3.mul_assoc' A.transpose, hA.left, Mat3.one_mul', hB.left]
  · rw [Mat3.det_mul, hA.det, hB.det, one_mul]

theorem IsRot.transpose {A : Mat3 ℝ} (hA : IsRot A) : IsRot A.transpose :=
  ⟨by rw [Mat3.transpose_transpose]; exact hA.left, by rw [Mat3.transpose_transpose]; exact hA.right,
   by rw [Mat3.det_transpose]; exact hA.det⟩

/-- `‖A v‖² = ‖v‖²` for an orthonormal `A` -/
theorem IsRot.normSq_mulVec {A : Mat3 ℝ} (hA : IsRot A) (v : Vec3 ℝ) :
    Vec3.normSq (A.mulVec v) = Vec3.normSq v := by
  have h := hA.left
  have e := congrArg (fun M : Mat3 ℝ => Vec3.dot v (M.mulVec v)) h
  simp only [Mat3.one_mulVec] at e
  rw [show Vec3.normSq v = Vec3.dot v v from rfl, ← e]
  mat3_simp; ring

theorem Mat3.mulVec_add (A : Mat3 ℝ) (u v : Vec3 ℝ) : A.mulVec (u + v) = A.mulVec u + A.mulVec v := by
  apply Vec3.ext' <;> mat3_simp <;> ring

/-- rotations preserve dot products (polarisation of `normSq_mulVec`) -/
theorem IsRot.dot_mulVec {A : Mat3 ℝ} (hA : IsRot A) (v w : Vec3 ℝ) :
    Vec3.dot (A.mulVec v) (A.mulVec w) = Vec3.dot v w := by
  have h1 := hA.normSq_mulVec (v + w)
  have h2 := hA.normSq_mulVec v
  have h3 := hA.normSq_mulVec w
  rw [Mat3.mulVec_add] at h1
  simp only [Vec3.normSq, Vec3.dot, Vec3.add_def, Vec3.add] at h1 h2 h3 ⊢
  linarith

/-- rotations preserve all pairwise distances -/
theorem IsRot.dist_preserved {A : Mat3 ℝ} (hA : IsRot A) (u v : Vec3 ℝ) :
    Vec3.normSq (A.mulVec u - A.mulVec v) = Vec3.normSq (u - v) := by
  rw [← Mat3.mulVec_sub, hA.normSq_mulVec]

end Odak
