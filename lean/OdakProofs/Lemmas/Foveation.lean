import OdakProofs.RealInst
import OdakModel.Foveation
import Mathlib.Algebra.BigOperators.Fin
import Mathlib.Algebra.Order.BigOperators.Group.Finset
import Mathlib.Analysis.SpecialFunctions.Log.Basic
import Mathlib.Analysis.SpecialFunctions.Sqrt
import Mathlib.Analysis.SpecialFunctions.Trigonometric.Basic
import Mathlib.Tactic.Linarith
import Mathlib.Tactic.NormNum
import Mathlib.Tactic.Positivity

/-! Helper lemmas for C18 (foveation): normal forms of the pooling-size maps over ℝ, and finite
    weighted means (`IsAvg`, `wmean`) – the abstract content of "the blur is an averaging operator". -/
namespace Odak

/-! ### scalar normal forms -/

theorem sci_1em6 : (Num.ofSci 1 true 6 : ℝ) = 1 / 1000000 := by
  simp only [num_ofSci]; norm_num

theorem sci_25em2 : (Num.ofSci 25 true 2 : ℝ) = 1 / 4 := by
  simp only [num_ofSci]; norm_num

theorem tanN_zero : tanN (0 : ℝ) = 0 := by
  simp [tanN]

theorem minN_real (a b : ℝ) : Num.minN a b = min a b := by
  unfold Num.minN
  split_ifs with h
  · exact (min_eq_right h.le).symm
  · exact (min_eq_left (not_lt.mp h)).symm

/-- `lodOf` over ℝ: `max 0 (log₂ (1e-6 + px))` -/
theorem lodOf_real (px : ℝ) :
    lodOf px = max 0 (Real.log (1 / 1000000 + px) / Real.log 2) := by
  simp only [lodOf, num_log, num_two, sci_1em6]
  split_ifs with h
  · exact (max_eq_left h.le).symm
  · exact (max_eq_right (not_lt.mp h)).symm

theorem poolingPixel_real (quadratic : Bool) (alpha ecc eccC dist width viewDist : ℝ) (npix : Nat) :
    poolingPixel quadratic alpha ecc eccC dist width viewDist npix =
      Real.sqrt |Real.pi *
          ((tanN (eccC + (if quadratic then alpha * ecc * ecc else alpha * ecc) * (1 / 2))
            - tanN (eccC - (if quadratic then alpha * ecc * ecc else alpha * ecc) * (1 / 2))) * viewDist) *
          (2 * dist * tanN ((if quadratic then alpha * ecc * ecc else alpha * ecc) * (1 / 2))) * (1 / 4)|
        / width * (npix : ℝ) := by
  simp only [poolingPixel, num_half, num_two, num_pi, num_abs, num_sqrt, num_ofNat, sci_25em2]

theorem equiPoolingPixel_real (quadratic : Bool) (alpha ecc : ℝ) (h w : Nat) :
    equiPoolingPixel quadratic alpha ecc h w =
      Real.sqrt |Real.pi *
          ((if quadratic then alpha * ecc * ecc else alpha * ecc) * ((w : ℝ) / (2 * Real.pi))) *
          ((if quadratic then alpha * ecc * ecc else alpha * ecc) * ((h : ℝ) / Real.pi)) * (1 / 4)| := by
  simp only [equiPoolingPixel, num_two, num_pi, num_abs, num_sqrt, num_ofNat, sci_25em2]

/-! ### finite weighted means -/

/-- a weight vector of an averaging operator: non-negative weights that sum to one -/
structure IsAvg {n : Nat} (w : Fin n → ℝ) : Prop where
  nonneg : ∀ i, 0 ≤ w i
  sum_one : ∑ i, w i = 1

/-- weighted mean of the samples `x` with weights `w` -/
def wmean {n : Nat} (w x : Fin n → ℝ) : ℝ := ∑ i, w i * x i

theorem wmean_const {n : Nat} {w : Fin n → ℝ} (hw : IsAvg w) (c : ℝ) :
    wmean w (fun _ => c) = c := by
  simp only [wmean]
  rw [← Finset.sum_mul, hw.sum_one, one_mul]

theorem wmean_lower {n : Nat} {w : Fin n → ℝ} (hw : IsAvg w) (x : Fin n → ℝ) (lo : ℝ)
    (hlo : ∀ i, lo ≤ x i) : lo ≤ wmean w x := by
  calc lo = ∑ i, w i * lo := by rw [← Finset.sum_mul, hw.sum_one, one_mul]
    _ ≤ ∑ i, w i * x i :=
        Finset.sum_le_sum fun i _ => mul_le_mul_of_nonneg_left (hlo i) (hw.nonneg i)

theorem wmean_upper {n : Nat} {w : Fin n → ℝ} (hw : IsAvg w) (x : Fin n → ℝ) (hi : ℝ)
    (hhi : ∀ i, x i ≤ hi) : wmean w x ≤ hi := by
  calc ∑ i, w i * x i ≤ ∑ i, w i * hi :=
        Finset.sum_le_sum fun i _ => mul_le_mul_of_nonneg_left (hhi i) (hw.nonneg i)
    _ = hi := by rw [← Finset.sum_mul, hw.sum_one, one_mul]

theorem isAvg_blend {n : Nat} {u v : Fin n → ℝ} (hu : IsAvg u) (hv : IsAvg v) (f : ℝ)
    (hf0 : 0 ≤ f) (hf1 : f ≤ 1) : IsAvg (fun i => (1 - f) * u i + f * v i) := by
  constructor
  · intro i
    have h1 : 0 ≤ 1 - f := by linarith
    have := mul_nonneg h1 (hu.nonneg i)
    have := mul_nonneg hf0 (hv.nonneg i)
    linarith
  · rw [Finset.sum_add_distrib, ← Finset.mul_sum, ← Finset.mul_sum, hu.sum_one, hv.sum_one]
    ring

theorem wmean_blend {n : Nat} (u v x : Fin n → ℝ) (f : ℝ) :
    wmean (fun i => (1 - f) * u i + f * v i) x = blend f (wmean u x) (wmean v x) := by
  simp only [wmean, blend]
  rw [Finset.mul_sum, Finset.mul_sum, ← Finset.sum_add_distrib]
  exact Finset.sum_congr rfl fun i _ => by ring

theorem isAvg_compose {m n : Nat} {w : Fin m → ℝ} {W : Fin m → Fin n → ℝ} (hw : IsAvg w)
    (hW : ∀ k, IsAvg (W k)) : IsAvg (fun i => ∑ k, w k * W k i) := by
  constructor
  · intro i
    exact Finset.sum_nonneg fun k _ => mul_nonneg (hw.nonneg k) ((hW k).nonneg i)
  · rw [Finset.sum_comm]
    simp only [← Finset.mul_sum, (hW _).sum_one, mul_one]
    exact hw.sum_one

theorem wmean_compose {m n : Nat} (w : Fin m → ℝ) (W : Fin m → Fin n → ℝ) (x : Fin n → ℝ) :
    wmean (fun i => ∑ k, w k * W k i) x = wmean w (fun k => wmean (W k) x) := by
  simp only [wmean]
  simp only [Finset.sum_mul, Finset.mul_sum]
  rw [Finset.sum_comm]
  exact Finset.sum_congr rfl fun k _ => Finset.sum_congr rfl fun i _ => by ring

end Odak
