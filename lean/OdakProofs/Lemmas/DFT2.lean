import OdakProofs.Lemmas.DFT

/-!
  # The model's `fft2` / `ifft2` / `fftshift` / `ifftshift` at `α := ℝ`

  `toCG` reads a model grid as a function `Fin n → Fin m → ℂ`; the model transforms become the
  Mathlib-side `fft2C` / `ifft2C` / `reindex` of `OdakProofs/Lemmas/DFT.lean`, and the theorems are
  pulled back along the injective `toCG`.  Every statement is for all sizes `n m`.
-/
namespace Odak
open Finset

variable {n m : ℕ}

/-! ### pointwise access -/
section get
variable {β γ δ : Type}

@[simp] theorem Grid.get_map (f : β → γ) (g : Grid β n m) (i : Fin n) (j : Fin m) :
    (Grid.map f g).get i j = f (g.get i j) := by simp [Grid.map]
@[simp] theorem Grid.get_zipWith (f : β → γ → δ) (g : Grid β n m) (h : Grid γ n m) (i : Fin n)
    (j : Fin m) : (Grid.zipWith f g h).get i j = f (g.get i j) (h.get i j) := by simp [Grid.zipWith]

/-- the `fftshift` permutation of one axis is the inverse of `i ↦ (i + n/2) mod n` -/
def fsE (n : ℕ) : Fin n ≃ Fin n := shiftEquiv n (n / 2) (Nat.div_le_self n 2)

theorem get_fftshift (g : Grid β n m) (i : Fin n) (j : Fin m) :
    (CGrid.fftshift g).get i j = g.get ((fsE n).symm i) ((fsE m).symm j) := by
  simp [CGrid.fftshift]; rfl
theorem get_ifftshift (g : Grid β n m) (i : Fin n) (j : Fin m) :
    (CGrid.ifftshift g).get i j = g.get (fsE n i) (fsE m j) := by
  simp [CGrid.ifftshift]; rfl
theorem get_roll (s t : ℕ) (g : Grid β n m) (i : Fin n) (j : Fin m) :
    (CGrid.roll s t g).get i j =
      g.get ⟨(i.val + n - s % n) % n, Nat.mod_lt _ i.pos⟩ ⟨(j.val + m - t % m) % m, Nat.mod_lt _ j.pos⟩ := by
  simp [CGrid.roll]

/-- 1a. `ifftshift ∘ fftshift = id`, all sizes (odd included) -/
theorem ifftshift_fftshift (g : Grid β n m) : CGrid.ifftshift (CGrid.fftshift g) = g := by
  apply Grid.ext_get; intro i j
  rw [get_ifftshift, get_fftshift, Equiv.symm_apply_apply, Equiv.symm_apply_apply]

/-- 1b. `fftshift ∘ ifftshift = id`, all sizes (odd included) -/
theorem fftshift_ifftshift (g : Grid β n m) : CGrid.fftshift (CGrid.ifftshift g) = g := by
  apply Grid.ext_get; intro i j
  rw [get_fftshift, get_ifftshift, Equiv.apply_symm_apply, Equiv.apply_symm_apply]

theorem fftshift_zipWith (f : β → γ → δ) (g : Grid β n m) (h : Grid γ n m) :
    CGrid.fftshift (Grid.zipWith f g h) = Grid.zipWith f (CGrid.fftshift g) (CGrid.fftshift h) := by
  apply Grid.ext_get; intro i j
  simp only [get_fftshift, Grid.get_zipWith]
theorem ifftshift_zipWith (f : β → γ → δ) (g : Grid β n m) (h : Grid γ n m) :
    CGrid.ifftshift (Grid.zipWith f g h) = Grid.zipWith f (CGrid.ifftshift g) (CGrid.ifftshift h) := by
  apply Grid.ext_get; intro i j
  simp only [get_ifftshift, Grid.get_zipWith]
theorem fftshift_map (f : β → γ) (g : Grid β n m) :
    CGrid.fftshift (Grid.map f g) = Grid.map f (CGrid.fftshift g) := by
  apply Grid.ext_get; intro i j
  simp only [get_fftshift, Grid.get_map]
theorem ifftshift_map (f : β → γ) (g : Grid β n m) :
    CGrid.ifftshift (Grid.map f g) = Grid.map f (CGrid.ifftshift g) := by
  apply Grid.ext_get; intro i j
  simp only [get_ifftshift, Grid.get_map]

end get

namespace CGrid

@[simp] theorem get_add (g h : CGrid ℝ n m) (i : Fin n) (j : Fin m) :
    (add g h).get i j = g.get i j + h.get i j := by simp [add]
@[simp] theorem get_mul (g h : CGrid ℝ n m) (i : Fin n) (j : Fin m) :
    (mul g h).get i j = g.get i j * h.get i j := by simp [mul]
@[simp] theorem get_smul (c : Cx ℝ) (g : CGrid ℝ n m) (i : Fin n) (j : Fin m) :
    (smul c g).get i j = c * g.get i j := by simp [smul]
@[simp] theorem get_zero (i : Fin n) (j : Fin m) : (zero : CGrid ℝ n m).get i j = 0 := by simp [zero]
@[simp] theorem get_const (c : Cx ℝ) (i : Fin n) (j : Fin m) :
    (const c : CGrid ℝ n m).get i j = c := by simp [const]

end CGrid

/-! ### transport to `Fin n → Fin m → ℂ` -/

/-- a model grid as a ℂ-valued index function -/
def toCG (g : CGrid ℝ n m) : Fin n → Fin m → ℂ := fun i j => toC (g.get i j)

theorem toCG_injective : Function.Injective (toCG : CGrid ℝ n m → Fin n → Fin m → ℂ) := by
  intro g h e
  apply Grid.ext_get; intro i j
  exact toC_injective (congrFun (congrFun e i) j)

theorem toC_divR (z : Cx ℝ) (c : ℝ) : toC (Cx.divR z c) = toC z / (c : ℂ) := by
  apply Complex.ext <;> simp [toC, Cx.divR]

theorem toCG_add (g h : CGrid ℝ n m) : toCG (CGrid.add g h) = toCG g + toCG h := by
  funext i j; simp [toCG]
theorem toCG_mul (g h : CGrid ℝ n m) : toCG (CGrid.mul g h) = toCG g * toCG h := by
  funext i j; simp [toCG]
theorem toCG_smul (c : Cx ℝ) (g : CGrid ℝ n m) : toCG (CGrid.smul c g) = toC c • toCG g := by
  funext i j; simp [toCG]
theorem toCG_zero : toCG (CGrid.zero : CGrid ℝ n m) = 0 := by
  funext i j; simp [toCG]
theorem toCG_const (c : Cx ℝ) : toCG (CGrid.const c : CGrid ℝ n m) = fun _ _ => toC c := by
  funext i j; simp [toCG]
theorem toCG_fftshift (g : CGrid ℝ n m) :
    toCG (CGrid.fftshift g) = reindex (fsE n).symm (fsE m).symm (toCG g) := by
  funext i j; simp [toCG, reindex, get_fftshift]
theorem toCG_ifftshift (g : CGrid ℝ n m) :
    toCG (CGrid.ifftshift g) = reindex (fsE n) (fsE m) (toCG g) := by
  funext i j; simp [toCG, reindex, get_ifftshift]

theorem toCG_dftRows (fwd : Bool) (g : CGrid ℝ n m) :
    toCG (CGrid.dftRows fwd g) = rowsC (zet fwd m) (toCG g) := by
  funext i l
  simp only [toCG, CGrid.dftRows, Grid.get_ofFn, toC_sumFin, toC_mul, toC_tw fwd m l.pos.ne',
    rowsC, dft1]

theorem toCG_dftCols (fwd : Bool) (g : CGrid ℝ n m) :
    toCG (CGrid.dftCols fwd g) = colsC (zet fwd n) (toCG g) := by
  funext k l
  simp only [toCG, CGrid.dftCols, Grid.get_ofFn, toC_sumFin, toC_mul, toC_tw fwd n k.pos.ne',
    colsC, dft1]

theorem toCG_fft2 (g : CGrid ℝ n m) : toCG (CGrid.fft2 g) = fft2C (toCG g) := by
  unfold CGrid.fft2 fft2C; rw [toCG_dftCols, toCG_dftRows]

theorem toCG_ifft2 (g : CGrid ℝ n m) : toCG (CGrid.ifft2 g) = ifft2C (toCG g) := by
  unfold CGrid.ifft2 ifft2C
  rw [← toCG_dftRows, ← toCG_dftCols]
  funext i j
  simp only [toCG, Grid.get_map, toC_divR, num_ofNat, Pi.smul_apply, smul_eq_mul]
  push_cast
  rw [div_eq_inv_mul]

theorem energy_eq (g : CGrid ℝ n m) : CGrid.energy g = energyC (toCG g) := by
  simp only [CGrid.energy, sumFinR_eq, normSq_toC, energyC, toCG]

/-! ### 2. shifts preserve the energy -/

theorem energy_fftshift (g : CGrid ℝ n m) : CGrid.energy (CGrid.fftshift g) = CGrid.energy g := by
  rw [energy_eq, energy_eq, toCG_fftshift, energyC_reindex]

theorem energy_ifftshift (g : CGrid ℝ n m) : CGrid.energy (CGrid.ifftshift g) = CGrid.energy g := by
  rw [energy_eq, energy_eq, toCG_ifftshift, energyC_reindex]

/-! ### 3. inversion -/

theorem ifft2_fft2 (u : CGrid ℝ n m) : CGrid.ifft2 (CGrid.fft2 u) = u := by
  apply toCG_injective; rw [toCG_ifft2, toCG_fft2, ifft2C_fft2C]

theorem fft2_ifft2 (U : CGrid ℝ n m) : CGrid.fft2 (CGrid.ifft2 U) = U := by
  apply toCG_injective; rw [toCG_fft2, toCG_ifft2, fft2C_ifft2C]

/-! ### 4. Parseval -/

theorem parseval2 (u : CGrid ℝ n m) :
    CGrid.energy (CGrid.fft2 u) = (n * m : ℝ) * CGrid.energy u := by
  rw [energy_eq, energy_eq, toCG_fft2, energyC_fft2C]

theorem energy_ifft2 (U : CGrid ℝ n m) :
    CGrid.energy (CGrid.ifft2 U) = CGrid.energy U / (n * m : ℝ) := by
  rw [energy_eq, energy_eq, toCG_ifft2, energyC_ifft2C]

theorem energy_nonneg (g : CGrid ℝ n m) : 0 ≤ CGrid.energy g := by
  rw [energy_eq]; exact energyC_nonneg _

/-! ### 5. linearity -/

theorem fft2_add (u v : CGrid ℝ n m) :
    CGrid.fft2 (CGrid.add u v) = CGrid.add (CGrid.fft2 u) (CGrid.fft2 v) := by
  apply toCG_injective; simp only [toCG_fft2, toCG_add, fft2C_add]

theorem fft2_smul (c : Cx ℝ) (u : CGrid ℝ n m) :
    CGrid.fft2 (CGrid.smul c u) = CGrid.smul c (CGrid.fft2 u) := by
  apply toCG_injective; simp only [toCG_fft2, toCG_smul, fft2C_smul]

theorem fft2_zero : CGrid.fft2 (CGrid.zero : CGrid ℝ n m) = CGrid.zero := by
  apply toCG_injective; simp only [toCG_fft2, toCG_zero, fft2C_zero]

theorem ifft2_add (u v : CGrid ℝ n m) :
    CGrid.ifft2 (CGrid.add u v) = CGrid.add (CGrid.ifft2 u) (CGrid.ifft2 v) := by
  apply toCG_injective; simp only [toCG_ifft2, toCG_add, ifft2C_add]

theorem ifft2_smul (c : Cx ℝ) (u : CGrid ℝ n m) :
    CGrid.ifft2 (CGrid.smul c u) = CGrid.smul c (CGrid.ifft2 u) := by
  apply toCG_injective; simp only [toCG_ifft2, toCG_smul, ifft2C_smul]

theorem ifft2_zero : CGrid.ifft2 (CGrid.zero : CGrid ℝ n m) = CGrid.zero := by
  apply toCG_injective; simp only [toCG_ifft2, toCG_zero, ifft2C_zero]

/-! ### 6. pointwise algebra of grids -/

theorem mul_comm' (g h : CGrid ℝ n m) : CGrid.mul g h = CGrid.mul h g := by
  apply toCG_injective; simp only [toCG_mul, mul_comm]
theorem mul_assoc' (g h k : CGrid ℝ n m) :
    CGrid.mul (CGrid.mul g h) k = CGrid.mul g (CGrid.mul h k) := by
  apply toCG_injective; simp only [toCG_mul, mul_assoc]
theorem mul_add' (g h k : CGrid ℝ n m) :
    CGrid.mul g (CGrid.add h k) = CGrid.add (CGrid.mul g h) (CGrid.mul g k) := by
  apply toCG_injective; simp only [toCG_mul, toCG_add, mul_add]
theorem mul_smul' (c : Cx ℝ) (g h : CGrid ℝ n m) :
    CGrid.mul g (CGrid.smul c h) = CGrid.smul c (CGrid.mul g h) := by
  apply toCG_injective; simp only [toCG_mul, toCG_smul, mul_smul_comm]
theorem mul_zero' (g : CGrid ℝ n m) : CGrid.mul g CGrid.zero = CGrid.zero := by
  apply toCG_injective; simp only [toCG_mul, toCG_zero, mul_zero]
theorem one_mul' (g : CGrid ℝ n m) : CGrid.mul (CGrid.const 1) g = g := by
  apply toCG_injective; funext i j; simp [toCG]

end Odak
