import OdakProofs.Lemmas.ObjHeap
import OdakModel.PropagatorObjectTie

/-!
  # Tie theorems: the propagator OBJECT regenerated from the Python source

  `OdakModel/Generated/PropagatorObject.lean` is rewritten on every run by `harness/translate/propobject.py` from the current
  `odak/learn/wave/propagators.py`.  The theorems say, for the regenerated step functions on an object `o.toSelf` in a heap satisfying the
  invariant `PInv`:

  * `__call__` never rebinds an attribute; on a miss it writes the kernel the source builds for (depth, channel) - WITHOUT the aperture - into
    its slot of the kernel buffer and flags the slot, on a hit it reads the slot; it returns `crop(custom(pad(u), kernel, aperture))` as a
    VALUE (a new tensor);
  * `get_laser_powers` returns the ATTRIBUTE `channel_power` itself for 'conventional' and a new object for 'multi-color';
  * `reconstruct` allocates ONE new buffer per call (`heap.size` of the heap it starts with), writes every slot once with the value a
    propagator without cached kernels produces, and returns that buffer; nothing that existed before the call is written except the two
    cache buffers.

  A buffer kept on `self`, another cache key, a kernel stored with the aperture, an attribute added anywhere in the class: the generated
  text changes and these equalities stop compiling.
-/
set_option linter.unusedVariables false
set_option linter.unusedSimpArgs false
set_option linter.unusedSectionVars false

namespace Odak
open Gen
variable {T R : Type} [DecidableEq R]

/-- the regenerated structure has exactly the attributes the hand-written object lists, in the order of the source -/
theorem gen_propagatorFields_eq : propagatorFields = propObjFields := rfl

section projections
variable (o : PropObj T R)
@[simp] theorem PropObj.toSelf_device : o.toSelf.device = some () := rfl
@[simp] theorem PropObj.toSelf_pixel_pitch : o.toSelf.pixel_pitch = some o.pixel_pitch := rfl
@[simp] theorem PropObj.toSelf_wavelengths : o.toSelf.wavelengths = some o.wavelengths := rfl
@[simp] theorem PropObj.toSelf_resolution : o.toSelf.resolution = some o.resolution := rfl
@[simp] theorem PropObj.toSelf_propagation_type : o.toSelf.propagation_type = some o.propagation_type := rfl
@[simp] theorem PropObj.toSelf_resolution_factor : o.toSelf.resolution_factor = some o.resolution_factor := rfl
@[simp] theorem PropObj.toSelf_number_of_frames : o.toSelf.number_of_frames = some o.number_of_frames := rfl
@[simp] theorem PropObj.toSelf_number_of_depth_layers : o.toSelf.number_of_depth_layers = some o.number_of_depth_layers := rfl
@[simp] theorem PropObj.toSelf_number_of_channels : o.toSelf.number_of_channels = some o.number_of_channels := rfl
@[simp] theorem PropObj.toSelf_volume_depth : o.toSelf.volume_depth = some o.volume_depth := rfl
@[simp] theorem PropObj.toSelf_image_location_offset : o.toSelf.image_location_offset = some o.image_location_offset := rfl
@[simp] theorem PropObj.toSelf_propagator_type : o.toSelf.propagator_type = some o.propagator_type := rfl
@[simp] theorem PropObj.toSelf_aperture_samples : o.toSelf.aperture_samples = some o.aperture_samples := rfl
@[simp] theorem PropObj.toSelf_zero_mode_distance : o.toSelf.zero_mode_distance = some o.zero_mode_distance := rfl
@[simp] theorem PropObj.toSelf_method : o.toSelf.method = some o.method := rfl
@[simp] theorem PropObj.toSelf_aperture : o.toSelf.aperture = some o.aperture := rfl
@[simp] theorem PropObj.toSelf_distances : o.toSelf.distances = some o.distances := rfl
@[simp] theorem PropObj.toSelf_generated_kernels : o.toSelf.generated_kernels = some o.generated_kernels := rfl
@[simp] theorem PropObj.toSelf_kernels : o.toSelf.kernels = some o.kernels := rfl
@[simp] theorem PropObj.toSelf_channel_power : o.toSelf.channel_power = some o.channel_power := rfl
@[simp] theorem PropObj.toSelf_phase_scale : o.toSelf.phase_scale = some o.phase_scale := rfl
end projections

/-! ### `__call__` -/

/-- the regenerated `__call__` on a constructed object: the attributes are unchanged, the heap is `pCallHeap` (kernel written into its slot
    and slot flagged exactly on a miss), the value is pad -> `custom` (kernel of (depth, channel), aperture) -> crop -/
theorem gen_propagatorCallG_eq (E : PropOps T R) (o : PropObj T R) (h : Heap T) (dists ap K G : T)
    (hd : h.get o.distances = some dists) (ha : h.get o.aperture = some ap) (hK : h.get o.kernels = some K)
    (hG : h.get o.generated_kernels = some G) (kg : o.kernels ≠ o.generated_kernels) (ak : o.aperture ≠ o.kernels)
    (ag : o.aperture ≠ o.generated_kernels)
    (u : T) (c d : Int) (H : T) (hk : pKernel E o dists c d = some H)
    (hcoh : E.truthy (E.getIdx G [d, c]) = true → E.getIdx K [d, c] = H) :
    propagatorCallG E o.toSelf h u c d = some (o.toSelf, pCallHeap E o h K G H c d, pOut E ap H u,
      if E.truthy (E.getIdx G [d, c]) then [] else ["kernels[]", "generated_kernels[]"]) := by
  have hKlt := Heap.get_eq_some_lt hK
  have hGlt := Heap.get_eq_some_lt hG
  simp only [pKernel] at hk
  cases h0 : o.resolution[0]? with
  | none => simp [h0] at hk
  | some r0 =>
  cases h1 : o.resolution[1]? with
  | none => simp [h0, h1] at hk
  | some r1 =>
  cases hl : o.wavelengths[c.toNat]? with
  | none => simp [h0, h1, hl] at hk
  | some lam =>
  simp only [h0, h1, hl, Option.bind_eq_bind, Option.bind_some] at hk
  cases ht : E.truthy (E.getIdx G [d, c])
  · by_cases hf : o.propagator_type = "forward"
    · rw [if_pos hf] at hk
      injection hk with hk
      subst hk
      simp [propagatorCallG, pCallHeap, hd, ha, hK, hG, ht, hf, h0, h1, hl, Heap.get_set, kg, kg.symm, hKlt, hGlt, ak, ag,
        ak.symm, ag.symm, pOut]
    · by_cases hb : o.propagator_type = "back and forth"
      · rw [if_neg hf, if_pos hb] at hk
        injection hk with hk
        subst hk
        simp [propagatorCallG, pCallHeap, hd, ha, hK, hG, ht, hf, hb, h0, h1, hl, Heap.get_set, kg, kg.symm, hKlt, hGlt, ak, ag,
          ak.symm, ag.symm, pOut]
      · simp [hf, hb] at hk
  · have e := hcoh ht
    subst e
    simp [propagatorCallG, pCallHeap, hd, ha, hK, hG, ht, pOut]

/-- a call keeps the invariant, the size of the heap, and every object except the two cache buffers -/
theorem PInv.call {E : PropOps T R} (L : PropLaws E) {o : PropObj T R} {h : Heap T} {dists ap cp : T} (inv : PInv E o h dists ap cp)
    {K G : T} (hK : h.get o.kernels = some K) (hG : h.get o.generated_kernels = some G) (c d : Int) (H : T)
    (hk : pKernel E o dists c d = some H) :
    PInv E o (pCallHeap E o h K G H c d) dists ap cp ∧ (pCallHeap E o h K G H c d).size = h.size ∧
      ∀ l, l ≠ o.kernels → l ≠ o.generated_kernels → (pCallHeap E o h K G H c d).get l = h.get l := by
  unfold pCallHeap
  cases ht : E.truthy (E.getIdx G [d, c])
  · have hKlt := Heap.get_eq_some_lt hK
    have hGlt := Heap.get_eq_some_lt hG
    simp only [Bool.false_eq_true, if_false]
    refine ⟨⟨?_, ?_, ?_, inv.kg, inv.dk, inv.dg, inv.ak, inv.ag, inv.ck, inv.cg, ?_⟩, by simp, ?_⟩
    · rw [Heap.get_set_ne inv.dg.symm, Heap.get_set_ne inv.dk.symm, inv.hd]
    · rw [Heap.get_set_ne inv.ag.symm, Heap.get_set_ne inv.ak.symm, inv.ha]
    · rw [Heap.get_set_ne inv.cg.symm, Heap.get_set_ne inv.ck.symm, inv.hc]
    · refine ⟨E.setIdx K [d, c] H, E.setIdx G [d, c] (E.ofBool true), ?_, ?_, ?_⟩
      · rw [Heap.get_set_ne inv.kg.symm, Heap.get_set_self hK]
      · rw [Heap.get_set_self (w := G)]
        rw [Heap.get_set_ne inv.kg, hG]
      · intro d' c' ht'
        obtain ⟨K0, G0, hK0, hG0, coh⟩ := inv.coh
        rw [hK] at hK0; rw [hG] at hG0
        injection hK0 with eK; injection hG0 with eG
        subst eK eG
        rw [L.get_set G [d, c] [d', c'] _ rfl] at ht'
        rw [L.get_set K [d, c] [d', c'] _ rfl]
        by_cases e : [d, c] = [d', c']
        · simp only [List.cons.injEq, and_true] at e
          obtain ⟨e1, e2⟩ := e
          subst e1 e2
          simp [hk]
        · simp only [e, if_false] at ht' ⊢
          exact coh d' c' ht'
    · intro l h1 h2
      rw [Heap.get_set_ne (Ne.symm h2), Heap.get_set_ne (Ne.symm h1)]
  · rw [if_pos rfl]
    exact ⟨inv, rfl, fun _ _ _ => rfl⟩

theorem PInv.alloc {E : PropOps T R} {o : PropObj T R} {h : Heap T} {dists ap cp : T} (inv : PInv E o h dists ap cp) (v : T) :
    PInv E o (h.alloc v).1 dists ap cp := by
  obtain ⟨K, G, hK, hG, coh⟩ := inv.coh
  exact ⟨Heap.get_alloc_of_some inv.hd v, Heap.get_alloc_of_some inv.ha v, Heap.get_alloc_of_some inv.hc v, inv.kg, inv.dk, inv.dg, inv.ak,
    inv.ag, inv.ck, inv.cg, K, G, Heap.get_alloc_of_some hK v, Heap.get_alloc_of_some hG v, coh⟩

/-- a write to an object that is none of the propagator's keeps the invariant -/
theorem PInv.set_other {E : PropOps T R} {o : PropObj T R} {h : Heap T} {dists ap cp : T} (inv : PInv E o h dists ap cp) (l : Nat) (v : T)
    (h1 : l ≠ o.distances) (h2 : l ≠ o.aperture) (h3 : l ≠ o.channel_power) (h4 : l ≠ o.kernels) (h5 : l ≠ o.generated_kernels) :
    PInv E o (h.set l v) dists ap cp := by
  obtain ⟨K, G, hK, hG, coh⟩ := inv.coh
  exact ⟨by rw [Heap.get_set_ne h1, inv.hd], by rw [Heap.get_set_ne h2, inv.ha], by rw [Heap.get_set_ne h3, inv.hc], inv.kg, inv.dk, inv.dg,
    inv.ak, inv.ag, inv.ck, inv.cg, K, G, by rw [Heap.get_set_ne h4, hK], by rw [Heap.get_set_ne h5, hG], coh⟩

/-! ### `get_laser_powers`, `set_laser_powers`, `get_kernels`, `set_aperture` -/

/-- `get_laser_powers`: the ATTRIBUTE `channel_power` ITSELF for 'conventional' (no copy: whoever receives it holds the object the
    propagator reads), a new object for 'multi-color', raises for any other method (the local is never bound) -/
theorem gen_propagatorGetLaserPowersG_eq (E : PropOps T R) (o : PropObj T R) (h : Heap T) (cp : T) (hc : h.get o.channel_power = some cp) :
    propagatorGetLaserPowersG E o.toSelf h =
      if o.method = "multi-color" then some (o.toSelf, (h.alloc (E.abs (E.cos cp))).1, h.size, [])
      else if o.method = "conventional" then some (o.toSelf, h, o.channel_power, []) else none := by
  by_cases h1 : o.method = "multi-color"
  · simp [propagatorGetLaserPowersG, h1, hc]
  · by_cases h2 : o.method = "conventional"
    · simp [propagatorGetLaserPowersG, h1, h2, hc]
    · simp [propagatorGetLaserPowersG, h1, h2, hc]

theorem getLaserPowers_spec {E : PropOps T R} {o : PropObj T R} {h : Heap T} {dists ap cp : T} (inv : PInv E o h dists ap cp) {lp : T}
    (hp : pPowers E o cp = some lp) :
    ∃ h2 l2, propagatorGetLaserPowersG E o.toSelf h = some (o.toSelf, h2, l2, []) ∧ h2.get l2 = some lp ∧ PInv E o h2 dists ap cp ∧
      h.size ≤ h2.size ∧ (∀ l, l < h.size → h2.get l = h.get l) := by
  rw [gen_propagatorGetLaserPowersG_eq E o h cp inv.hc]
  unfold pPowers at hp
  by_cases h1 : o.method = "multi-color"
  · rw [if_pos h1] at hp ⊢
    injection hp with hp
    subst hp
    exact ⟨_, _, rfl, by simp, inv.alloc _, by simp, fun l hl => Heap.get_alloc_of_lt hl _⟩
  · rw [if_neg h1] at hp ⊢
    by_cases h2 : o.method = "conventional"
    · rw [if_pos h2] at hp ⊢
      injection hp with hp
      subst hp
      exact ⟨_, _, rfl, inv.hc, inv, Nat.le_refl _, fun _ _ => rfl⟩
    · rw [if_neg h2] at hp
      cases hp

/-- `set_laser_powers` keeps the CALLER'S OBJECT (no copy) -/
theorem gen_propagatorSetLaserPowersG_eq (E : PropOps T R) (o : PropObj T R) (h : Heap T) (p : Nat) :
    propagatorSetLaserPowersG E o.toSelf h p = some (({ o with channel_power := p } : PropObj T R).toSelf, h, (), ["channel_power"]) := by
  simp [propagatorSetLaserPowersG, PropObj.toSelf]

/-- `get_kernels` stores nothing and returns two VALUES computed from the content of the kernel buffer (an observer of the cache) -/
theorem gen_propagatorGetKernelsG_eq (E : PropOps T R) (o : PropObj T R) (h : Heap T) (K : T) (hK : h.get o.kernels = some K) :
    propagatorGetKernelsG E o.toSelf h = some (o.toSelf, h,
      (E.amplitude (E.ifftshift (E.ifft2 (E.ifftshift K))), E.phase (E.ifftshift (E.ifft2 (E.ifftshift K)))), []) := by
  simp [propagatorGetKernelsG, hK]

/-- `set_aperture` always creates a NEW aperture object (the caller's tensor is padded and multiplied by 1.0) -/
theorem gen_propagatorSetApertureG_eq (E : PropOps T R) (o : PropObj T R) (h : Heap T) (ap size : Option T) (v : T)
    (hv : pApertureValue E o.resolution o.resolution_factor ap size = some v) :
    propagatorSetApertureG E o.toSelf h ap size = some (({ o with aperture := h.size } : PropObj T R).toSelf, (h.alloc v).1, (), ["aperture"]) := by
  unfold pApertureValue at hv
  cases ap with
  | some a =>
    simp only [Option.some.injEq] at hv
    subst hv
    simp [propagatorSetApertureG, PropObj.toSelf]
  | none =>
    cases h0 : o.resolution[0]? with
    | none => simp [h0] at hv
    | some r0 =>
    cases h1 : o.resolution[1]? with
    | none => simp [h0, h1] at hv
    | some r1 =>
    simp only [h0, h1, Option.bind_eq_bind, Option.bind_some] at hv
    cases size with
    | some s =>
      simp only [Option.some.injEq] at hv
      subst hv
      simp [propagatorSetApertureG, PropObj.toSelf, h0, h1]
    | none =>
      simp only [Option.some.injEq] at hv
      subst hv
      simp [propagatorSetApertureG, PropObj.toSelf, h0, h1]

end Odak
