import OdakProofs.Lemmas.Defocus
import OdakModel.Generated.Defocus

/-!
  Tie theorems: every definition of `Generated/Defocus.lean` (regenerated from the Python source on every run by
  `harness/translate/defocus.py`) EQUALS, at `α = ℝ`, the hand-written definition of `OdakModel/Defocus.lean` the C16 defocus
  theorems are about.  Other `linspace` bounds, another sigma floor or test, a changed Gaussian formula, `i + j` for `i - j`, a
  dropped `int(...)`, another guard, a dropped normalisation, exchanged `conv2d` arguments, a mask of another plane, a dropped
  multiplier, `target_blur_size` made even instead of odd: the generated text changes and one of these proofs stops compiling.
-/
namespace Odak
open Odak.Gen

/-- `generate_2d_gaussian` with `mu = [0, 0]`, `normalize = False` -/
theorem gaussian2dT_eq (n m : Nat) (s0 s1 : ℝ) (i : Fin n) (j : Fin m) : gaussian2dT n m s0 s1 i j = gauss2d n m s0 s1 i j := by
  simp only [gaussian2dT, gauss2d, gaussPos, sigmaFloor, num_ofNat, Nat.cast_zero, sub_zero]

theorem blurSizeM_eq (b : Nat) : blurSizeM b = blurSize b := rfl
theorem blurSizeP_eq (b : Nat) : blurSizeP b = blurSize b := rfl

/-- both entries of `nsigma` are the model's sigma of the pair `(i, j)` -/
theorem defocusSigmaM_eq (r : ℝ) (i j : Nat) : defocusSigmaM r i j = (defocusSigma r i j, defocusSigma r i j) := rfl
theorem defocusSigmaP_eq (r : ℝ) (i j : Nat) : defocusSigmaP r i j = (defocusSigma r i j, defocusSigma r i j) := rfl

/-- the kernel handed to `conv2d` is the normalised Gaussian of that sigma -/
theorem defocusKernelM_eq (L : Nat) (r : ℝ) (i j : Nat) (a b : Fin L) : defocusKernelM L r i j a b = defocusKernel L r i j a b := by
  simp only [defocusKernelM, gaussian2dT_eq]
  rfl
theorem defocusKernelP_eq (L : Nat) (r : ℝ) (i j : Nat) (a b : Fin L) : defocusKernelP L r i j a b = defocusKernel L r i j a b := by
  simp only [defocusKernelP, gaussian2dT_eq]
  rfl

/-- the stored target: guard, kernel, convolution of the all-in-focus image, mask of plane `j`, accumulation from 0 over
    `j = 0, …, planes - 1`, multiplier -/
theorem defocusTargetM_eq (planes L : Nat) (r mult : ℝ) (cacheSum : Nat → ℝ) (cache mask : Nat → Int → Int → ℝ) (i : Nat) :
    defocusTargetM planes L r mult cacheSum cache mask i = defocusAt planes L r mult cacheSum cache mask i := by
  simp only [defocusTargetM, gaussian2dT_eq]
  rfl
theorem defocusTargetP_eq (planes L : Nat) (r mult : ℝ) (cacheSum : Nat → ℝ) (cache mask : Nat → Int → Int → ℝ) (i : Nat) :
    defocusTargetP planes L r mult cacheSum cache mask i = defocusAt planes L r mult cacheSum cache mask i := by
  simp only [defocusTargetP, gaussian2dT_eq]
  rfl

end Odak
