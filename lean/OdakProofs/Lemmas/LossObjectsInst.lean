import OdakProofs.RealInst
import OdakProofs.Lemmas.GenLossObjects
import OdakProofs.Lemmas.GenSlicers
import OdakModel.LossObjectsInst

/-!
  # Work package 16: the regenerated `multiplane_loss` object instantiated with the regenerated slicers

  * `mplInit_inv_values` (every record of operations): the contents of the four objects a constructed `multiplane_loss` reads are the four
    components of `set_targets` computed from the CONTENTS of the caller's image and depth map (with `scheme = 'defocus'` the targets are the
    second component of `add_defocus_blur`);
  * with `E := lossOpsGrid` those components are, element by element, the regenerated per-pixel slicers of `Generated/Slicers.lean`.
-/
set_option linter.unusedVariables false
set_option linter.unusedSimpArgs false
set_option linter.unusedSectionVars false

namespace Odak
open Gen

/-- the values the invariant of a constructed `multiplane_loss` speaks about -/
theorem mplInit_inv_values {T R : Type} [DecidableEq R] (E : LossObjOps T R) (a : MplArgs R) (h : Heap T) (o : MplObj T R) (h' : Heap T)
    (hi : mplInit E a h = some (o, h')) (ti td : T) (hti : h.get a.target_image = some ti) (htd : h.get a.target_depth = some td) :
    MplInv o h'
      (if a.scheme = "defocus" then (E.defocusTargets a.blurSize ti (E.sliceTargets td a.number_of_planes ti).2.1 a.number_of_planes a.blur_ratio
          (E.sliceTargets td a.number_of_planes ti).2.2.2 a.multiplier).2 else (E.sliceTargets td a.number_of_planes ti).2.1)
      (E.sliceTargets td a.number_of_planes ti).2.2.1 (E.sliceTargets td a.number_of_planes ti).1 (E.sliceTargets td a.number_of_planes ti).2.2.2 ∧
    o.number_of_planes = a.number_of_planes := by
  unfold mplInit at hi
  simp only [Option.bind_eq_bind, hti, htd, Option.bind_some] at hi
  generalize E.sliceTargets td a.number_of_planes ti = r at hi ⊢
  by_cases hs : a.scheme = "defocus"
  · simp only [hs, if_true, Option.some.injEq, Prod.mk.injEq] at hi ⊢
    generalize E.defocusTargets a.blurSize ti r.2.1 a.number_of_planes a.blur_ratio r.2.2.2 a.multiplier = r2 at hi ⊢
    obtain ⟨rfl, rfl⟩ := hi
    refine ⟨⟨?_, ?_, ?_, ?_⟩, rfl⟩
    · simp [Heap.get_alloc, Heap.get_set]
    · simp [Heap.get_alloc, Heap.get_set]
    · have e1 : h.size ≠ h.size + 1 + 1 + 1 + 1 := by omega
      have e2 : h.size ≠ h.size + 1 + 1 + 1 := by omega
      have e3 : h.size ≠ h.size + 1 + 1 := by omega
      simp [Heap.get_alloc, Heap.get_set, e1, e2, e3]
    · simp [Heap.get_alloc, Heap.get_set]
  · simp only [hs, if_false, Option.some.injEq, Prod.mk.injEq] at hi ⊢
    obtain ⟨rfl, rfl⟩ := hi
    refine ⟨⟨?_, ?_, ?_, ?_⟩, rfl⟩
    · simp [Heap.get_alloc]
    · simp [Heap.get_alloc]
    · have e2 : h.size ≠ h.size + 1 + 1 + 1 := by omega
      have e3 : h.size ≠ h.size + 1 + 1 := by omega
      simp [Heap.get_alloc, e2, e3]
    · simp [Heap.get_alloc]

/-! ### the elements of `set_targets` in the grid model -/

section
variable (td ti : Ten ℝ) (n : Nat)

/-- the image at a pixel, as the function of the channel the regenerated slicers take -/
def pixelImage (ti : Ten ℝ) (i j : Int) : Nat → ℝ := fun ch => (ti.el [(ch : Int), i, j]).re

theorem sliceTargets_depth_el (i j : Int) :
    ((lossOpsGrid : LossObjOps (Ten ℝ) ℝ).sliceTargets td (n : Int) ti).1.el [i, j] = ⟨planeDepthM (td.el [i, j]).re n (pixelImage ti i j), 0⟩ := rfl

theorem sliceTargets_target_el (k ch : Nat) (i j : Int) :
    ((lossOpsGrid : LossObjOps (Ten ℝ) ℝ).sliceTargets td (n : Int) ti).2.1.el [(k : Int), (ch : Int), i, j] =
      ⟨planeTargetM (td.el [i, j]).re n (pixelImage ti i j) k ch, 0⟩ := by
  show (⟨planeTargetM (td.el [i, j]).re ((n : Int)).toNat (pixelImage ti i j) ((k : Int)).toNat ((ch : Int)).toNat, 0⟩ : Cx ℝ) = _
  simp only [Int.toNat_natCast]

theorem sliceTargets_focus_el (ch : Nat) (i j : Int) :
    ((lossOpsGrid : LossObjOps (Ten ℝ) ℝ).sliceTargets td (n : Int) ti).2.2.1.el [(ch : Int), i, j] =
      ⟨focusTargetM (td.el [i, j]).re n (pixelImage ti i j) ch, 0⟩ := by
  show (⟨focusTargetM (td.el [i, j]).re ((n : Int)).toNat (pixelImage ti i j) ((ch : Int)).toNat, 0⟩ : Cx ℝ) = _
  simp only [Int.toNat_natCast]

theorem sliceTargets_mask_el (k ch : Nat) (i j : Int) :
    ((lossOpsGrid : LossObjOps (Ten ℝ) ℝ).sliceTargets td (n : Int) ti).2.2.2.el [(k : Int), (ch : Int), i, j] =
      ⟨planeMaskM (td.el [i, j]).re n (pixelImage ti i j) k ch, 0⟩ := by
  show (⟨planeMaskM (td.el [i, j]).re ((n : Int)).toNat (pixelImage ti i j) ((k : Int)).toNat ((ch : Int)).toNat, 0⟩ : Cx ℝ) = _
  simp only [Int.toNat_natCast]

end

end Odak
