import OdakProofs.RealInst
import OdakModel.Codec
import Mathlib.Algebra.Order.Floor.Ring
import Mathlib.Tactic.Linarith
import Mathlib.Tactic.NormNum
import Mathlib.Tactic.Positivity
import Mathlib.Tactic.FieldSimp

/-! Helpers for C19 (save/load round trips). -/
namespace Odak
namespace CodecL
open Odak.Gen

/-! ### truncation -/

theorem trunc_nonneg_eq_floor (x : ℝ) (hx : 0 ≤ x) : Num.trunc x = ((⌊x⌋ : ℤ) : ℝ) := by
  simp only [Num.trunc, num_floor]
  rw [if_neg (not_lt.mpr hx)]

theorem trunc_natCast (n : ℕ) : Num.trunc ((n : ℕ) : ℝ) = (n : ℝ) := by
  rw [trunc_nonneg_eq_floor _ (Nat.cast_nonneg n)]
  have : ⌊((n : ℕ) : ℝ)⌋ = (n : ℤ) := Int.floor_natCast n
  rw [this]; norm_cast

/-- the clip of `save_image` -/
noncomputable def clip (cmin cmax v : ℝ) : ℝ := if v < cmin then cmin else if cmax < v then cmax else v

theorem saveLevel_eq (cmin cmax : ℝ) (depth : Nat) (v : ℝ) :
    saveLevel cmin cmax depth v = Num.trunc (clip cmin cmax v / cmax * ((2 ^ depth - 1 : ℕ) : ℝ)) := rfl

theorem clip_range (cmin cmax v : ℝ) (hc : cmin ≤ cmax) :
    cmin ≤ clip cmin cmax v ∧ clip cmin cmax v ≤ cmax := by
  unfold clip
  split_ifs with h1 h2
  · exact ⟨le_refl _, hc⟩
  · exact ⟨hc, le_refl _⟩
  · exact ⟨not_lt.mp h1, not_lt.mp h2⟩

theorem clip_id (cmin cmax v : ℝ) (h1 : cmin ≤ v) (h2 : v ≤ cmax) : clip cmin cmax v = v := by
  unfold clip
  rw [if_neg (not_lt.mpr h1), if_neg (not_lt.mpr h2)]

/-- a real in `[0, N]` truncates to a natural number `≤ N` -/
theorem trunc_range (q : ℝ) (N : ℕ) (h0 : 0 ≤ q) (h1 : q ≤ (N : ℝ)) :
    ∃ k : ℕ, Num.trunc q = (k : ℝ) ∧ k ≤ N := by
  have hfl : 0 ≤ ⌊q⌋ := Int.floor_nonneg.mpr h0
  refine ⟨⌊q⌋.toNat, ?_, ?_⟩
  · rw [trunc_nonneg_eq_floor q h0]
    have : ((⌊q⌋.toNat : ℕ) : ℤ) = ⌊q⌋ := Int.toNat_of_nonneg hfl
    exact_mod_cast this.symm
  · have hle : (⌊q⌋ : ℝ) ≤ (N : ℝ) := le_trans (Int.floor_le q) h1
    have : ⌊q⌋ ≤ (N : ℤ) := by exact_mod_cast hle
    omega

/-! ### flat indices -/

theorem flat_lt (A B a b : Nat) (ha : a < A) (hb : b < B) : a * B + b < A * B := by
  have : (a + 1) * B ≤ A * B := Nat.mul_le_mul_right B ha
  rw [Nat.add_mul, Nat.one_mul] at this
  omega

theorem flat_inj (B a b a' b' : Nat) (hb : b < B) (hb' : b' < B) (h : a * B + b = a' * B + b') :
    a = a' ∧ b = b' := by
  have hB : 0 < B := by omega
  have e1 : (a * B + b) / B = a := by
    rw [Nat.mul_comm, Nat.mul_add_div hB, Nat.div_eq_of_lt hb, Nat.add_zero]
  have e2 : (a' * B + b') / B = a' := by
    rw [Nat.mul_comm, Nat.mul_add_div hB, Nat.div_eq_of_lt hb', Nat.add_zero]
  have ha : a = a' := by rw [← e1, ← e2, h]
  subst ha
  exact ⟨rfl, by omega⟩

/-! ### text -/

theorem readLinesRaw_line (l rest acc : List Char) (h : '\n' ∉ l) :
    readLinesRaw (l ++ '\n' :: rest) acc = ((acc.reverse ++ l) ++ ['\n']) :: readLinesRaw rest [] := by
  induction l generalizing acc with
  | nil => simp [readLinesRaw]
  | cons c cs ih =>
    have hc : c ≠ '\n' := fun e => h (by simp [e])
    have hcs : '\n' ∉ cs := fun e => h (by simp [e])
    simp only [List.cons_append, readLinesRaw, if_neg hc]
    rw [ih _ hcs]
    simp

theorem readLinesRaw_writeLines (ls : List (List Char)) (h : ∀ l ∈ ls, '\n' ∉ l) :
    readLinesRaw (writeLines ls) [] = ls.map (fun l => l ++ ['\n']) := by
  induction ls with
  | nil => simp [writeLines, readLinesRaw]
  | cons l ls ih =>
    rw [writeLines, readLinesRaw_line _ _ _ (h l (by simp)), ih (fun l' hl' => h l' (by simp [hl']))]
    simp

/-- stripping a run of `p`-characters appended to a list that does not end in a `p`-character -/
theorem rstripBy_append (p : Char → Bool) (l t : List Char) (ht : ∀ c ∈ t, p c = true)
    (hl : ∀ c, l.getLast? = some c → p c = false) : rstripBy p (l ++ t) = l := by
  unfold rstripBy
  rw [List.reverse_append, List.dropWhile_append_of_pos (by simpa using ht)]
  cases hr : l.reverse with
  | nil => simpa using hr
  | cons c cs =>
    have hlc : l.getLast? = some c := by
      rw [List.getLast?_eq_head?_reverse, hr]; rfl
    have := hl c hlc
    rw [List.dropWhile_cons_of_neg (by simp [this]), ← hr, List.reverse_reverse]

theorem readStripPred_eq (c : Char) : readStripPred c = decide (c = '\n') := by
  simp [readStripPred, readTextStrip]

theorem rstrip_line (l : List Char) (h : '\n' ∉ l) : rstripBy readStripPred (l ++ ['\n']) = l := by
  apply rstripBy_append
  · intro c hc; simp at hc; simp [readStripPred_eq, hc]
  · intro c hc
    have hm : c ∈ l := List.mem_of_getLast? hc
    rw [readStripPred_eq]
    simp only [decide_eq_false_iff_not]
    rintro rfl; exact h hm

end CodecL
end Odak
