import OdakProofs.Lemmas.GenColourTensors

/-! Tie + layout theorems of the regenerated `rgb_to_hsv` / `hsv_to_rgb` (`Generated/ColourTensors.lean`): on every accepted
    layout they are the hand-written hexcone model `rgbToHsv` / `hsvToRgb` of `OdakModel/Colour.lean` (the definitions the
    `C15_hsv_*` theorems are about) applied at every pixel, same position, same batch index.  What is read off the source:
    `max` / `min` over the channel axis, the three hue candidates with their offsets, the `gather` on the arg-max channel,
    `% 1`, the factor `2 pi`, the `eps` in the saturation, the replacement of a zero chroma by one; `floor(6 h) % 6`, the
    fractional part, `p q t`, the 18-entry table and the index `hi + 6 c` of the `gather`. -/
namespace Odak
open Tensor
set_option linter.unusedVariables false
set_option linter.unusedSimpArgs false


/-- `rgb_to_hsv` on a batch is the hexcone model `rgbToHsv` at every pixel -/
theorem rgb_to_hsv_layout4 (img : Tensor ℝ) (k m n : Nat) (h : img.shape = [k, 3, m, n]) (b i j : Nat)
    (hb : b < k) (hi : i < m) (hj : j < n) (eps : ℝ) :
    (GenT.rgb_to_hsv img eps).shape = [k, 3, m, n] ∧
    pixel4 (GenT.rgb_to_hsv img eps) b i j = rgbToHsv eps (pixel4 img b i j) := by
  constructor
  · tensor_simp [GenT.rgb_to_hsv, h]
  · apply Vec3.ext'
    · tensor_simp [GenT.rgb_to_hsv, rgbToHsv, h, hb, hi, hj]
      have ha := argmax3_lt (pixel4 img b i j)
      simp only [pixel4] at ha
      generalize argmax3 (⟨img.get [b, 0, i, j], img.get [b, 1, i, j], img.get [b, 2, i, j]⟩ : Vec3 ℝ) = a at ha ⊢
      generalize max3 (⟨img.get [b, 0, i, j], img.get [b, 1, i, j], img.get [b, 2, i, j]⟩ : Vec3 ℝ) = mx
      generalize min3 (⟨img.get [b, 0, i, j], img.get [b, 1, i, j], img.get [b, 2, i, j]⟩ : Vec3 ℝ) = mn
      rw [select_and_eq]
      simp only [num_select, num_ofSci]
      interval_cases a <;> by_cases hm : mx = mn <;> simp [hm] <;> norm_num
    · tensor_simp [GenT.rgb_to_hsv, rgbToHsv, h, hb, hi, hj]
    · tensor_simp [GenT.rgb_to_hsv, rgbToHsv, h, hb, hi, hj]

/-- … and on a single `[3 x m x n]` image (returned as a batch of one) -/
theorem rgb_to_hsv_layout3 (img : Tensor ℝ) (m n : Nat) (h : img.shape = [3, m, n]) (i j : Nat)
    (hi : i < m) (hj : j < n) (eps : ℝ) :
    (GenT.rgb_to_hsv img eps).shape = [1, 3, m, n] ∧
    pixel4 (GenT.rgb_to_hsv img eps) 0 i j = rgbToHsv eps (pixel3 img i j) := by
  constructor
  · tensor_simp [GenT.rgb_to_hsv, h]
  · apply Vec3.ext'
    · tensor_simp [GenT.rgb_to_hsv, rgbToHsv, h, hi, hj]
      have ha := argmax3_lt (pixel3 img i j)
      simp only [pixel3] at ha
      generalize argmax3 (⟨img.get [0, i, j], img.get [1, i, j], img.get [2, i, j]⟩ : Vec3 ℝ) = a at ha ⊢
      generalize max3 (⟨img.get [0, i, j], img.get [1, i, j], img.get [2, i, j]⟩ : Vec3 ℝ) = mx
      generalize min3 (⟨img.get [0, i, j], img.get [1, i, j], img.get [2, i, j]⟩ : Vec3 ℝ) = mn
      rw [select_and_eq]
      simp only [num_select, num_ofSci]
      interval_cases a <;> by_cases hm : mx = mn <;> simp [hm] <;> norm_num
    · tensor_simp [GenT.rgb_to_hsv, rgbToHsv, h, hi, hj]
    · tensor_simp [GenT.rgb_to_hsv, rgbToHsv, h, hi, hj]

/-- the default `eps` of `rgb_to_hsv` -/
theorem rgb_to_hsv_eps_value : (GenT.rgb_to_hsv_eps : ℝ) = 1 / 100000000 := by
  simp only [GenT.rgb_to_hsv_eps, num_ofSci]; norm_num

/-- `hsv_to_rgb` on a batch is the hexcone model `hsvToRgb` at every pixel -/
theorem hsv_to_rgb_layout4 (img : Tensor ℝ) (k m n : Nat) (h : img.shape = [k, 3, m, n]) (b i j : Nat)
    (hb : b < k) (hi : i < m) (hj : j < n) :
    (GenT.hsv_to_rgb img).shape = [k, 3, m, n] ∧
    pixel4 (GenT.hsv_to_rgb img) b i j = hsvToRgb (pixel4 img b i j) := by
  constructor
  · tensor_simp [GenT.hsv_to_rgb, h]
  · obtain ⟨N, hN, hN'⟩ := fmod_floor_six (img.get [b, 0, i, j] / (2 * Real.pi) * 6)
    have h0 : natOf (N : ℝ) 18 0 = N := natOf_spec _ N rfl 18 0 (by omega) (by omega)
    have h6 : natOf ((N : ℝ) + 6) 18 0 = N + 6 := natOf_spec _ (N + 6) (by push_cast; ring) 18 0 (by omega) (by omega)
    have h12 : natOf ((N : ℝ) + 12) 18 0 = N + 12 := natOf_spec _ (N + 12) (by push_cast; ring) 18 0 (by omega) (by omega)
    apply Vec3.ext' <;>
    · tensor_simp [GenT.hsv_to_rgb, hsvToRgb, h, hb, hi, hj, hN', trunc_natCast, h0, h6, h12]
      interval_cases N <;> simp <;> norm_num [num_ofSci]

theorem hsv_to_rgb_layout3 (img : Tensor ℝ) (m n : Nat) (h : img.shape = [3, m, n]) (i j : Nat)
    (hi : i < m) (hj : j < n) :
    (GenT.hsv_to_rgb img).shape = [1, 3, m, n] ∧
    pixel4 (GenT.hsv_to_rgb img) 0 i j = hsvToRgb (pixel3 img i j) := by
  constructor
  · tensor_simp [GenT.hsv_to_rgb, h]
  · obtain ⟨N, hN, hN'⟩ := fmod_floor_six (img.get [0, i, j] / (2 * Real.pi) * 6)
    have h0 : natOf (N : ℝ) 18 0 = N := natOf_spec _ N rfl 18 0 (by omega) (by omega)
    have h6 : natOf ((N : ℝ) + 6) 18 0 = N + 6 := natOf_spec _ (N + 6) (by push_cast; ring) 18 0 (by omega) (by omega)
    have h12 : natOf ((N : ℝ) + 12) 18 0 = N + 12 := natOf_spec _ (N + 12) (by push_cast; ring) 18 0 (by omega) (by omega)
    apply Vec3.ext' <;>
    · tensor_simp [GenT.hsv_to_rgb, hsvToRgb, h, hi, hj, hN', trunc_natCast, h0, h6, h12]
      interval_cases N <;> simp <;> norm_num [num_ofSci]

end Odak
