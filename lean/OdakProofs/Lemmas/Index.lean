import OdakModel.Index
import Mathlib.Tactic.Ring
import Mathlib.Tactic.Linarith

/-! Generic facts about the axis maps, independent of the regenerated index expressions. -/
namespace Odak.Index

theorem storeAxis_isPad (res lo hi h : Int) (hh start len : Nat)
    (h1 : lo = start) (h2 : hi = start + hh) (h3 : res = len) (h4 : h = hh) (h5 : start + hh ≤ len) :
    (storeAxis res lo hi h).1 = true ∧ (storeAxis res lo hi h).2.IsPad hh start len := by
  subst h1 h2 h3 h4
  simp only [storeAxis, AxisMap.IsPad, decide_eq_true_eq]
  refine ⟨by omega, by omega, h5, ?_⟩
  intro i _
  by_cases hc : start ≤ i ∧ i < start + hh
  · have : (start : Int) ≤ i ∧ (i : Int) < start + hh := by omega
    rw [if_pos this, if_pos hc]; congr 1; omega
  · have : ¬ ((start : Int) ≤ i ∧ (i : Int) < start + hh) := by omega
    rw [if_neg this, if_neg hc]

theorem npPadAxis_isPad (h b a : Int) (hh start len : Nat)
    (h1 : b = start) (h2 : h = hh) (h3 : b + h + a = len) (h4 : 0 ≤ a) :
    (npPadAxis h b a).1 = true ∧ (npPadAxis h b a).2.IsPad hh start len := by
  subst h1 h2
  simp only [npPadAxis, AxisMap.IsPad, decide_eq_true_eq]
  refine ⟨by omega, by omega, by omega, ?_⟩
  intro i _
  by_cases hc : start ≤ i ∧ i < start + hh
  · have : (start : Int) ≤ i ∧ (i : Int) < start + hh := by omega
    rw [if_pos this, if_pos hc]; congr 1; omega
  · have : ¬ ((start : Int) ≤ i ∧ (i : Int) < start + hh) := by omega
    rw [if_neg this, if_neg hc]

/-- slicing `[lo:hi]` with `0 ≤ lo ≤ hi ≤ n` reads positions `lo, lo+1, …` -/
theorem loadAxis_spec (n lo hi : Int) (a k : Nat) (h1 : lo = a) (h2 : hi = a + k) (h3 : hi ≤ n) :
    (loadAxis n lo hi).len = k ∧ ∀ i, (loadAxis n lo hi).src i = some (i + a) := by
  subst h1 h2
  have hn : (a : Int) + k ≤ n := h3
  simp only [loadAxis, pySliceBounds]
  have e1 : (if (a : Int) < 0 then max ((a : Int) + n) 0 else min (a : Int) n) = a := by
    rw [if_neg (by omega)]; omega
  have e2 : (if (a : Int) + k < 0 then max ((a : Int) + k + n) 0 else min ((a : Int) + k) n) = a + k := by
    rw [if_neg (by omega)]; omega
  rw [e1, e2]
  refine ⟨by omega, ?_⟩
  intro i; congr 1

/-- cropping the window a pad wrote returns the content: the inverse law on one axis -/
theorem crop_pad_id (p c : AxisMap) (hh start len k a : Nat)
    (hp : p.IsPad hh start len) (hc1 : c.len = k) (hc2 : ∀ i, c.src i = some (i + a))
    (ha : a = start) (hk : k = hh) : (c.comp p).IsId hh := by
  subst ha hk
  obtain ⟨_, hle, hsrc⟩ := hp
  refine ⟨by simp [AxisMap.comp, hc1], ?_⟩
  intro i hi
  simp only [AxisMap.comp, hc2, Option.bind]
  rw [hsrc (i + a) (by omega), if_pos (by omega)]
  congr 1; omega

/-- two pads with the same geometry place content identically -/
theorem isPad_unique (p q : AxisMap) (hh start len : Nat) (hp : p.IsPad hh start len) (hq : q.IsPad hh start len) :
    p.len = q.len ∧ ∀ i, i < p.len → p.src i = q.src i := by
  refine ⟨by rw [hp.1, hq.1], ?_⟩
  intro i hi
  rw [hp.1] at hi
  rw [hp.2.2 i hi, hq.2.2 i hi]

end Odak.Index
