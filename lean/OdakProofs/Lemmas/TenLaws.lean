import OdakProofs.RealInst
import OdakModel.PropagatorObjectInst

/-!
  # Work package 16: the array laws of the propagator object (`PropLaws`) PROVED for the grid-model instance `propOpsGrid`

  `PropLaws` (assumed once, abstractly, by every theorem of `Lemmas/GenPropagatorObject*.lean`) is discharged here for the tensors
  `Ten ℝ` with the operations of `OdakModel/PropagatorObjectInst.lean`: reading a slot after a store, the truth value of a stored flag, a
  new flag buffer is all false.  `getIdx_setIdx` holds for every scalar class (in particular for the `Float` run of the driver).
-/
set_option linter.unusedSectionVars false
set_option linter.unusedSimpArgs false

namespace Odak
open Gen

namespace Ten
variable {α : Type} [Num α]

theorem isPrefixOf_append_self (i p : List Int) : i.isPrefixOf (i ++ p) = true := by
  rw [List.isPrefixOf_iff_prefix]; exact List.prefix_append i p

theorem isPrefixOf_append_ne {i j : List Int} (h : i.length = j.length) (e : i ≠ j) (p : List Int) : i.isPrefixOf (j ++ p) = false := by
  cases hb : i.isPrefixOf (j ++ p) with
  | false => rfl
  | true =>
    rw [List.isPrefixOf_iff_prefix] at hb
    have h2 : i <+: j := List.prefix_of_prefix_length_le hb (List.prefix_append j p) (by omega)
    exact absurd (h2.eq_of_length h) e

/-- **reading after a store**, for EVERY buffer, index paths of equal length and stored value -/
theorem getIdx_setIdx (K : Ten α) (i j : List Int) (v : Ten α) (h : i.length = j.length) :
    (K.setIdx i v).getIdx j = if i = j then v else K.getIdx j := by
  by_cases e : i = j
  · subst e
    rw [if_pos rfl]
    cases v with
    | mk vs ve =>
      simp only [getIdx, setIdx, isPrefixOf_append_self, if_true, List.drop_left]
  · rw [if_neg e]
    simp only [getIdx, setIdx, isPrefixOf_append_ne h e, Bool.false_eq_true, if_false]

theorem getIdx_getIdx (t : Ten α) (i j : List Int) : (t.getIdx i).getIdx j = t.getIdx (i ++ j) := by
  simp only [getIdx, List.append_assoc]

@[simp] theorem getIdx_el (t : Ten α) (i r : List Int) : (t.getIdx i).el r = t.el (i ++ r) := rfl
@[simp] theorem getIdx_val (t : Ten α) (i : List Int) : (t.getIdx i).val = t.el i := by simp [val, getIdx]
@[simp] theorem zeros_el (s : List Nat) (r : List Int) : (zeros s : Ten α).el r = 0 := rfl
@[simp] theorem real_val (x : α) : (real x).val = ⟨x, 0⟩ := rfl
@[simp] theorem ofFn_shape (s : List Nat) (f : List Int → Cx α) : (ofFn s f).shape = s := rfl
@[simp] theorem ofGrid_shape {n m : Nat} (g : CGrid α n m) : (ofGrid g).shape = [n, m] := rfl
@[simp] theorem setIdx_shape_of_ne_nil (t v : Ten α) (i : List Int) (hi : i ≠ []) : (t.setIdx i v).shape = t.shape := by
  cases i with
  | nil => exact absurd rfl hi
  | cons a r => simp [shape, setIdx, List.isPrefixOf]

/-- the elements of a grid tensor, read back as a grid -/
@[simp] theorem toGrid_ofGrid {n m : Nat} (g : CGrid α n m) : toGrid n m (ofGrid g) = g := by
  apply Grid.ext_get; intro i j
  simp only [toGrid, ofGrid, ofFn, Grid.get_ofFn, Int.toNat_natCast, Fin.eta]
  rw [dif_pos ⟨by omega, i.isLt⟩, dif_pos ⟨by omega, j.isLt⟩]

end Ten

/-! ### at `ℝ` -/

theorem Ten.truthy_ofBool_real (b : Bool) : (Ten.ofBool b : Ten ℝ).truthy = b := by
  cases b
  · simp only [Ten.truthy, Ten.ofBool, Ten.real_val, Bool.false_eq_true, if_false]
    simp
  · simp only [Ten.truthy, Ten.ofBool, Ten.real_val, if_true]
    have : ¬ ((1 : ℝ) ≤ 0) := by norm_num
    simp [this]

theorem Ten.truthy_zeros_real (s : List Nat) (i : List Int) : ((Ten.zeros s : Ten ℝ).getIdx i).truthy = false := by
  simp only [Ten.truthy, Ten.getIdx_val, Ten.zeros_el]
  simp [Cx.zero_re', Cx.zero_im']

/-- **`PropLaws` holds for the grid-model instance: no assumption about the array operations is left** -/
theorem propLaws_propOpsGrid : PropLaws (propOpsGrid : PropOps (Ten ℝ) ℝ) where
  get_set := fun K i j v h => Ten.getIdx_setIdx K i j v h
  truthy_ofBool := Ten.truthy_ofBool_real
  truthy_zeros := fun shape _ i => Ten.truthy_zeros_real (shape.map Int.toNat) i

end Odak
