import OdakProofs.Lemmas.GenColourTensors

/-! Layout theorems of the regenerated `srgb_to_lab` (`Generated/ColourTensors.lean`): a channel-first `[3 x m x n]` image and a
    channel-last `[m x n x 3]` image (the layout `color_map` uses) both give the channel-first `[3 x m x n]` result whose pixel
    `(i, j)` is the per-pixel function `Gen.srgbToLab` of the input pixel `(i, j)`.  Read off the source: the `shape[-1] == 3` test,
    `permute(2, 0, 1)` on the way in, the `permute(2, 0, 1)` / `matmul` / `permute(1, 2, 0)` sandwich (the matrix product runs over
    the channel axis, batched over the columns), the `[3, 1, 1]` illuminant broadcast, the `0:1 / 1:2 / 2:3` slices and the `cat`
    along axis 0.  A channel-first image that is exactly 3 pixels wide is read as channel-last by the source (`shape[-1] == 3`):
    hence the hypothesis `n ≠ 3`. -/
namespace Odak
open Tensor
set_option linter.unusedVariables false
set_option linter.unusedSimpArgs false
set_option maxHeartbeats 1000000

/-! ### channel-first input (the four parts are separate lemmas so that they are checked in parallel) -/

theorem srgb_to_lab_first_shape (img : Tensor ℝ) (m n : Nat) (h : img.shape = [3, m, n]) (hn : n ≠ 3) : (GenT.srgb_to_lab img).shape = [3, m, n] := by
  tensor_simp [GenT.srgb_to_lab, h, hn]

theorem srgb_to_lab_first_x (img : Tensor ℝ) (m n : Nat) (h : img.shape = [3, m, n]) (hn : n ≠ 3) (i j : Nat) (hi : i < m) (hj : j < n) :
    (pixel3 (GenT.srgb_to_lab img) i j).x = (Gen.srgbToLab (pixel3 img i j)).x := by
  tensor_simp [GenT.srgb_to_lab, Gen.srgbToLab, h, hn, hi, hj]

theorem srgb_to_lab_first_y (img : Tensor ℝ) (m n : Nat) (h : img.shape = [3, m, n]) (hn : n ≠ 3) (i j : Nat) (hi : i < m) (hj : j < n) :
    (pixel3 (GenT.srgb_to_lab img) i j).y = (Gen.srgbToLab (pixel3 img i j)).y := by
  tensor_simp [GenT.srgb_to_lab, Gen.srgbToLab, h, hn, hi, hj]

theorem srgb_to_lab_first_z (img : Tensor ℝ) (m n : Nat) (h : img.shape = [3, m, n]) (hn : n ≠ 3) (i j : Nat) (hi : i < m) (hj : j < n) :
    (pixel3 (GenT.srgb_to_lab img) i j).z = (Gen.srgbToLab (pixel3 img i j)).z := by
  tensor_simp [GenT.srgb_to_lab, Gen.srgbToLab, h, hn, hi, hj]

theorem srgb_to_lab_layout_first (img : Tensor ℝ) (m n : Nat) (h : img.shape = [3, m, n]) (hn : n ≠ 3) (i j : Nat) (hi : i < m) (hj : j < n) :
    (GenT.srgb_to_lab img).shape = [3, m, n] ∧ pixel3 (GenT.srgb_to_lab img) i j = Gen.srgbToLab (pixel3 img i j) :=
  ⟨srgb_to_lab_first_shape img m n h hn,
   Vec3.ext' (srgb_to_lab_first_x img m n h hn i j hi hj) (srgb_to_lab_first_y img m n h hn i j hi hj) (srgb_to_lab_first_z img m n h hn i j hi hj)⟩

/-! ### channel-last input (the four parts are separate lemmas so that they are checked in parallel) -/

theorem srgb_to_lab_last_shape (img : Tensor ℝ) (m n : Nat) (h : img.shape = [m, n, 3]) : (GenT.srgb_to_lab img).shape = [3, m, n] := by
  tensor_simp [GenT.srgb_to_lab, h]

theorem srgb_to_lab_last_x (img : Tensor ℝ) (m n : Nat) (h : img.shape = [m, n, 3]) (i j : Nat) (hi : i < m) (hj : j < n) :
    (pixel3 (GenT.srgb_to_lab img) i j).x = (Gen.srgbToLab (pixelLast img i j)).x := by
  tensor_simp [GenT.srgb_to_lab, Gen.srgbToLab, h, hi, hj]

theorem srgb_to_lab_last_y (img : Tensor ℝ) (m n : Nat) (h : img.shape = [m, n, 3]) (i j : Nat) (hi : i < m) (hj : j < n) :
    (pixel3 (GenT.srgb_to_lab img) i j).y = (Gen.srgbToLab (pixelLast img i j)).y := by
  tensor_simp [GenT.srgb_to_lab, Gen.srgbToLab, h, hi, hj]

theorem srgb_to_lab_last_z (img : Tensor ℝ) (m n : Nat) (h : img.shape = [m, n, 3]) (i j : Nat) (hi : i < m) (hj : j < n) :
    (pixel3 (GenT.srgb_to_lab img) i j).z = (Gen.srgbToLab (pixelLast img i j)).z := by
  tensor_simp [GenT.srgb_to_lab, Gen.srgbToLab, h, hi, hj]

theorem srgb_to_lab_layout_last (img : Tensor ℝ) (m n : Nat) (h : img.shape = [m, n, 3]) (i j : Nat) (hi : i < m) (hj : j < n) :
    (GenT.srgb_to_lab img).shape = [3, m, n] ∧ pixel3 (GenT.srgb_to_lab img) i j = Gen.srgbToLab (pixelLast img i j) :=
  ⟨srgb_to_lab_last_shape img m n h,
   Vec3.ext' (srgb_to_lab_last_x img m n h i j hi hj) (srgb_to_lab_last_y img m n h i j hi hj) (srgb_to_lab_last_z img m n h i j hi hj)⟩

end Odak
