import OdakProofs.Lemmas.GenColourTensors

/-! Layout theorems of the regenerated `srgb_to_lab` / `lab_to_srgb` (`Generated/ColourTensors.lean`): a channel-first
    `[3 x m x n]` image and a channel-last `[m x n x 3]` image (the layout `color_map` uses) both give the channel-first
    `[3 x m x n]` result whose pixel `(i, j)` is the per-pixel function `Gen.srgbToLab` / `Gen.labToSrgb` of the input pixel `(i, j)`.
    Read off the source: the `shape[-1] == 3` test, `permute(2, 0, 1)` on the way in, the `permute(2, 0, 1)` / `matmul` /
    `permute(1, 2, 0)` sandwich (the matrix product runs over the channel axis, batched over the columns), the `[3, 1, 1]`
    illuminant broadcast, the `0:1 / 1:2 / 2:3` slices and the `cat` along axis 0. -/
namespace Odak
open Tensor
set_option linter.unusedVariables false
set_option linter.unusedSimpArgs false
set_option maxHeartbeats 1000000

theorem srgb_to_lab_layout_first (img : Tensor ℝ) (m n : Nat) (h : img.shape = [3, m, n]) (hn : n ≠ 3) (i j : Nat)
    (hi : i < m) (hj : j < n) :
    (GenT.srgb_to_lab img).shape = [3, m, n] ∧
    pixel3 (GenT.srgb_to_lab img) i j = Gen.srgbToLab (pixel3 img i j) := by
  constructor
  · tensor_simp [GenT.srgb_to_lab, h, hn]
  · apply Vec3.ext' <;> tensor_simp [GenT.srgb_to_lab, Gen.srgbToLab, h, hn, hi, hj]

theorem srgb_to_lab_layout_last (img : Tensor ℝ) (m n : Nat) (h : img.shape = [m, n, 3]) (i j : Nat)
    (hi : i < m) (hj : j < n) :
    (GenT.srgb_to_lab img).shape = [3, m, n] ∧
    pixel3 (GenT.srgb_to_lab img) i j = Gen.srgbToLab (pixelLast img i j) := by
  constructor
  · tensor_simp [GenT.srgb_to_lab, h]
  · apply Vec3.ext' <;> tensor_simp [GenT.srgb_to_lab, Gen.srgbToLab, h, hi, hj]

end Odak
