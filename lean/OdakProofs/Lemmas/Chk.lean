import OdakProofs.RealInst
import OdakModel.Chk
/-!
  `Chk ℝ`: value + "every local derivative on the autograd graph is finite" flag (OdakModel/Chk.lean).
  Projection lemmas (all `rfl`) so that `simp` can evaluate a model function run at `Chk ℝ`.
-/
namespace Odak
namespace Chk
variable (A B : Chk ℝ)

@[simp] theorem var_v (x : ℝ) : (Chk.var x).v = x := rfl
@[simp] theorem var_ok (x : ℝ) : (Chk.var x).ok = true := rfl
@[simp] theorem add_v : (A + B).v = A.v + B.v := rfl
@[simp] theorem add_ok : (A + B).ok = (A.ok && B.ok) := rfl
@[simp] theorem sub_v : (A - B).v = A.v - B.v := rfl
@[simp] theorem sub_ok : (A - B).ok = (A.ok && B.ok) := rfl
@[simp] theorem mul_v : (A * B).v = A.v * B.v := rfl
@[simp] theorem mul_ok : (A * B).ok = (A.ok && B.ok) := rfl
@[simp] theorem div_v : (A / B).v = A.v / B.v := rfl
@[simp] theorem div_ok : (A / B).ok = (A.ok && B.ok && Chk.nz B.v) := rfl
@[simp] theorem neg_v : (-A).v = -A.v := rfl
@[simp] theorem neg_ok : (-A).ok = A.ok := rfl
@[simp] theorem ofNat_v (n : Nat) : (Num.ofNat n : Chk ℝ).v = (n : ℝ) := rfl
@[simp] theorem ofNat_ok (n : Nat) : (Num.ofNat n : Chk ℝ).ok = true := rfl
@[simp] theorem ofSci_v (m : Nat) (s : Bool) (e : Nat) : (Num.ofSci m s e : Chk ℝ).v = (Num.ofSci m s e : ℝ) := rfl
@[simp] theorem ofSci_ok (m : Nat) (s : Bool) (e : Nat) : (Num.ofSci m s e : Chk ℝ).ok = true := rfl
@[simp] theorem exp_v : (Num.exp A).v = Real.exp A.v := rfl
@[simp] theorem exp_ok : (Num.exp A).ok = A.ok := rfl
@[simp] theorem log_v : (Num.log A).v = Real.log A.v := rfl
@[simp] theorem log_ok : (Num.log A).ok = (A.ok && Chk.pos A.v) := rfl
@[simp] theorem sqrt_v : (Num.sqrt A).v = Real.sqrt A.v := rfl
@[simp] theorem sqrt_ok : (Num.sqrt A).ok = (A.ok && Chk.pos A.v) := rfl
@[simp] theorem select_v (c : Bool) : (Num.select c A B).v = (bif c then A.v else B.v) := rfl
/-- `torch.where`: both branches were evaluated, both must have finite local derivatives -/
@[simp] theorem select_ok (c : Bool) : (Num.select c A B).ok = (A.ok && B.ok) := rfl
theorem lt_iff : A < B ↔ A.v < B.v := Iff.rfl
@[simp] theorem pos_iff (x : ℝ) : Chk.pos x = true ↔ 0 < x := by simp [Chk.pos]
@[simp] theorem nz_iff (x : ℝ) : Chk.nz x = true ↔ x ≠ 0 := by
  simp only [Chk.nz, Bool.or_eq_true, decide_eq_true_eq]
  exact (lt_or_lt_iff_ne).trans Iff.rfl

/-- the clamp `maxN A B` (Python-level `clamp(min = …)`: one branch is evaluated) -/
theorem maxN_v : (Num.maxN A B).v = max A.v B.v := by
  unfold Num.maxN
  by_cases h : A < B
  · rw [if_pos h]; exact (max_eq_right (le_of_lt ((lt_iff A B).mp h))).symm
  · rw [if_neg h]; exact (max_eq_left (not_lt.mp (fun h' => h ((lt_iff A B).mpr h')))).symm
theorem maxN_ok (hA : A.ok = true) (hB : B.ok = true) : (Num.maxN A B).ok = true := by
  unfold Num.maxN; split <;> assumption
/-- `x ** y` as `exp (y · log x)` -/
theorem powPos_ok (hA : A.ok = true) (hB : B.ok = true) (h : 0 < A.v) : (Num.powPos A B).ok = true := by
  simp [Num.powPos, hA, hB, h]

/-- a power whose base is clamped at a positive bound has a finite slope whatever the argument is -/
theorem clampPow_ok (E : Chk ℝ) (hA : A.ok = true) (hB : B.ok = true) (hE : E.ok = true) (hB0 : 0 < B.v) :
    (Num.powPos (Num.maxN A B) E).ok = true :=
  powPos_ok _ _ (maxN_ok _ _ hA hB) hE (by rw [maxN_v]; exact lt_of_lt_of_le hB0 (le_max_right _ _))

/-- a pixel whose three channels are independent variables -/
def vec (c : Vec3 ℝ) : Vec3 (Chk ℝ) := ⟨Chk.var c.x, Chk.var c.y, Chk.var c.z⟩
def allOk (v : Vec3 (Chk ℝ)) : Bool := v.x.ok && v.y.ok && v.z.ok

end Chk
end Odak
