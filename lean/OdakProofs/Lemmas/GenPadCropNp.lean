import OdakProofs.Lemmas.GenPadCropBase

/-! Theorems about the regenerated NumPy `zero_pad` / `crop_center` (`GenPC.np_*`, regenerated from `odak/tools/matrix.py`):
    `np.pad` is called with one pair of widths per SPATIAL axis, so NumPy accepts rank 2 only (a rank-3 array is rejected:
    `np_zero_pad_*_ok = false`); on rank 2 every side doubles (or becomes the requested size) for every parity and the content
    sits at `size // 2 - side // 2`; `crop_center` slices the two LEADING axes (rank 2, or height x width x channels). -/
namespace Odak
open Tensor
set_option linter.unusedSectionVars false
set_option linter.unusedSimpArgs false
set_option linter.unusedVariables false
variable {α : Type} [Num α]

theorem np_zero_pad_default_spec (x : Tensor α) (h w : Nat) (hs : x.shape = [h, w]) :
    GenPC.np_zero_pad_default_ok x = true ∧
    (GenPC.np_zero_pad_default x).shape = [2 * h, 2 * w] ∧
    ∀ i j, i < 2 * h → j < 2 * w →
      (GenPC.np_zero_pad_default x).get [i, j] =
        if (2 * h / 2 - h / 2 ≤ i ∧ i < 2 * h / 2 - h / 2 + h) ∧ (2 * w / 2 - w / 2 ≤ j ∧ j < 2 * w / 2 - w / 2 + w) then
          x.get [i - (2 * h / 2 - h / 2), j - (2 * w / 2 - w / 2)] else Num.ofNat 0 := by
  refine ⟨?_, ?_, ?_⟩
  · padcrop_simp [GenPC.np_zero_pad_default_ok, hs]
    omega
  · padcrop_simp [GenPC.np_zero_pad_default, hs]
    omega
  · intro i j hi hj
    padcrop_simp [GenPC.np_zero_pad_default, hs]
    padcrop_finish

theorem np_zero_pad_explicit_spec (x : Tensor α) (h w S0 S1 : Nat) (hs : x.shape = [h, w]) (h0 : h ≤ S0) (h1 : w ≤ S1) :
    GenPC.np_zero_pad_explicit_ok x [S0, S1] = true ∧
    (GenPC.np_zero_pad_explicit x [S0, S1]).shape = [S0, S1] ∧
    ∀ i j, i < S0 → j < S1 →
      (GenPC.np_zero_pad_explicit x [S0, S1]).get [i, j] =
        if (S0 / 2 - h / 2 ≤ i ∧ i < S0 / 2 - h / 2 + h) ∧ (S1 / 2 - w / 2 ≤ j ∧ j < S1 / 2 - w / 2 + w) then
          x.get [i - (S0 / 2 - h / 2), j - (S1 / 2 - w / 2)] else Num.ofNat 0 := by
  refine ⟨?_, ?_, ?_⟩
  · padcrop_simp [GenPC.np_zero_pad_explicit_ok, hs]
    omega
  · padcrop_simp [GenPC.np_zero_pad_explicit, hs]
    omega
  · intro i j hi hj
    padcrop_simp [GenPC.np_zero_pad_explicit, hs]
    padcrop_finish

/-- NumPy `zero_pad` hands `np.pad` two pairs of widths: an array of any other rank is rejected -/
theorem np_zero_pad_rank2_only (x : Tensor α) (S : List Nat) (hr : x.shape.length ≠ 2) :
    GenPC.np_zero_pad_default_ok x = false ∧ GenPC.np_zero_pad_explicit_ok x S = false := by
  constructor <;> simp [GenPC.np_zero_pad_default_ok, GenPC.np_zero_pad_explicit_ok, Tensor.padOk] <;> intro h <;> exact absurd h.symm hr

theorem np_crop_center_default_spec (x : Tensor α) (H W : Nat) (hs : x.shape = [H, W]) :
    (GenPC.np_crop_center_default x).shape = [H / 2, W / 2] ∧
    ∀ i j, i < H / 2 → j < W / 2 →
      (GenPC.np_crop_center_default x).get [i, j] = x.get [i + (H / 2 - H / 2 / 2), j + (W / 2 - W / 2 / 2)] := by
  refine ⟨?_, ?_⟩
  · padcrop_simp [GenPC.np_crop_center_default, hs]
    omega
  · intro i j hi hj
    padcrop_simp [GenPC.np_crop_center_default, hs]
    apply get2_congr <;> omega

theorem np_crop_center_explicit_spec (x : Tensor α) (H W s0 s1 : Nat) (hs : x.shape = [H, W]) (h0 : s0 ≤ H) (h1 : s1 ≤ W) :
    (GenPC.np_crop_center_explicit x [s0, s1]).shape = [s0, s1] ∧
    ∀ i j, i < s0 → j < s1 →
      (GenPC.np_crop_center_explicit x [s0, s1]).get [i, j] = x.get [i + (H / 2 - s0 / 2), j + (W / 2 - s1 / 2)] := by
  refine ⟨?_, ?_⟩
  · padcrop_simp [GenPC.np_crop_center_explicit, hs]
    omega
  · intro i j hi hj
    padcrop_simp [GenPC.np_crop_center_explicit, hs]
    apply get2_congr <;> omega

/-- NumPy `crop_center` on a height x width x channels array: the two leading axes are cropped, the channel axis is kept -/
theorem np_crop_center_default_spec_hwc (x : Tensor α) (H W c : Nat) (hs : x.shape = [H, W, c]) :
    (GenPC.np_crop_center_default x).shape = [H / 2, W / 2, c] ∧
    ∀ i j ch, i < H / 2 → j < W / 2 → ch < c →
      (GenPC.np_crop_center_default x).get [i, j, ch] = x.get [i + (H / 2 - H / 2 / 2), j + (W / 2 - W / 2 / 2), ch] := by
  refine ⟨?_, ?_⟩
  · padcrop_simp [GenPC.np_crop_center_default, hs]
    omega
  · intro i j ch hi hj hch
    padcrop_simp [GenPC.np_crop_center_default, hs]
    apply get3_congr <;> omega

end Odak
