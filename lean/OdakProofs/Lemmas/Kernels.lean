import OdakProofs.RealInst
import OdakModel.Kernels
import Mathlib.Analysis.SpecialFunctions.Trigonometric.Basic
import Mathlib.Analysis.SpecialFunctions.Pow.Real
import Mathlib.Tactic.Positivity
import Mathlib.Tactic.GCongr

/-! Facts about the kernels of `OdakModel/Kernels.lean` at `α = ℝ`. -/
namespace Odak
open Real

theorem normSq_expi (θ : ℝ) : Cx.normSq (Cx.expi θ) = 1 := by
  simp only [Cx.normSq, Cx.expi, num_cos, num_sin]
  nlinarith [Real.sin_sq_add_cos_sq θ]

theorem expi_add (a b : ℝ) : (Cx.expi a * Cx.expi b : Cx ℝ) = Cx.expi (a + b) := by
  apply toC_injective
  rw [toC_mul, toC_expi, toC_expi, toC_expi, ← Complex.exp_add]
  congr 1; push_cast; ring

theorem expi_zero : (Cx.expi (0 : ℝ) : Cx ℝ) = 1 := by
  apply toC_injective
  rw [toC_expi, toC_one]; simp

theorem normSq_polar (a φ : ℝ) : Cx.normSq (Cx.polar a φ) = a * a := by
  simp only [Cx.normSq, Cx.polar, num_cos, num_sin]
  nlinarith [Real.sin_sq_add_cos_sq φ]

theorem normSq_smul (c : ℝ) (z : Cx ℝ) : Cx.normSq (Cx.smul c z) = c * c * Cx.normSq z := by
  simp only [Cx.normSq, Cx.smul]; ring

/-! ### the linspace frequency grid stays inside `[-1/(2dx), 1/(2dx)]` -/

theorem linspace_mem (a b : ℝ) (hab : a ≤ b) (n i : Nat) (hi : i < n) :
    a ≤ linspace a b n i ∧ linspace a b n i ≤ b := by
  unfold linspace
  split
  · exact ⟨le_refl _, hab⟩
  · rename_i hn
    have hn1 : (1 : ℝ) ≤ ((n - 1 : Nat) : ℝ) := by
      have : 1 ≤ n - 1 := by omega
      exact_mod_cast this
    have hin : (i : ℝ) ≤ ((n - 1 : Nat) : ℝ) := by
      have : i ≤ n - 1 := by omega
      exact_mod_cast this
    have hi0 : (0 : ℝ) ≤ (i : ℝ) := Nat.cast_nonneg i
    simp only [num_ofNat]
    have hpos : (0 : ℝ) < ((n - 1 : Nat) : ℝ) := by linarith
    have hfrac : (b - a) * (i : ℝ) / ((n - 1 : Nat) : ℝ) ≤ (b - a) := by
      rw [div_le_iff₀ hpos]
      have : 0 ≤ b - a := by linarith
      nlinarith
    have hfrac0 : 0 ≤ (b - a) * (i : ℝ) / ((n - 1 : Nat) : ℝ) := by
      apply div_nonneg _ hpos.le
      exact mul_nonneg (by linarith) hi0
    constructor <;> linarith

theorem freq_sq_le (dx : ℝ) (hdx : 0 < dx) (n i : Nat) (hi : i < n) :
    (freq dx n i) ^ 2 ≤ (1 / (2 * dx)) ^ 2 := by
  have h := linspace_mem (-(1 : ℝ) / Num.two / dx) ((1 : ℝ) / Num.two / dx) (by
    simp only [num_two]
    have : (0 : ℝ) < 1 / 2 / dx := by positivity
    have e : -(1 : ℝ) / 2 / dx = -(1 / 2 / dx) := by ring
    rw [e]; linarith) n i hi
  simp only [num_two] at h
  have e1 : (1 : ℝ) / 2 / dx = 1 / (2 * dx) := by field_simp
  have e2 : -(1 : ℝ) / 2 / dx = -(1 / (2 * dx)) := by field_simp
  unfold freq
  simp only [num_two]
  rw [e1, e2] at h ⊢
  have hp : (0 : ℝ) < 1 / (2 * dx) := by positivity
  nlinarith [h.1, h.2]

/-- the property's sampling hypothesis `dx ≥ λ/√2` (as `λ² ≤ 2 dx²`) makes every grid frequency
    propagating: the radicand of the angular-spectrum kernel is non-negative on the whole grid,
    corners included. -/
theorem asDefined_of_sampling (n m : Nat) (dx lam : ℝ) (hdx : 0 < dx) (hs : lam ^ 2 ≤ 2 * dx ^ 2) :
    asDefined n m dx lam := by
  intro i j
  have h1 := freq_sq_le dx hdx m j.val j.isLt
  have h2 := freq_sq_le dx hdx n i.val i.isLt
  simp only [asRadicand, num_sq]
  show (0 : ℝ) ≤ 1 - lam * freq dx m j * (lam * freq dx m j) - lam * freq dx n i * (lam * freq dx n i)
  have hq : (1 / (2 * dx)) ^ 2 = 1 / (4 * dx ^ 2) := by field_simp; ring
  rw [hq] at h1 h2
  have hl : 0 ≤ lam ^ 2 := sq_nonneg lam
  have k1 : lam ^ 2 * (freq dx m j) ^ 2 ≤ lam ^ 2 * (1 / (4 * dx ^ 2)) := by gcongr
  have k2 : lam ^ 2 * (freq dx n i) ^ 2 ≤ lam ^ 2 * (1 / (4 * dx ^ 2)) := by gcongr
  have k3 : lam ^ 2 * (1 / (4 * dx ^ 2)) ≤ 1 / 2 := by
    have hd : (0 : ℝ) < 4 * dx ^ 2 := by positivity
    rw [mul_one_div, div_le_iff₀ hd]; linarith
  nlinarith [k1, k2, k3]

/-! ### unit modulus, additivity in the distance -/

theorem as_unit (n m : Nat) (dx lam z : ℝ) (i : Fin n) (j : Fin m) :
    Cx.normSq ((asKernel n m dx lam z).get i j) = 1 := by
  simp only [asKernel, Grid.get_ofFn, normSq_expi]

theorem tf_unit (n m : Nat) (dx lam k z : ℝ) (i : Fin n) (j : Fin m) :
    Cx.normSq ((tfKernel n m dx lam k z).get i j) = 1 := by
  simp only [tfKernel, Grid.get_ofFn, normSq_expi]

theorem npAs_unit (n m : Nat) (dx lam k z : ℝ) (i : Fin n) (j : Fin m) :
    Cx.normSq ((npAsKernel n m dx lam k z).get i j) = 1 := by
  simp only [npAsKernel, Grid.get_ofFn, normSq_expi]

theorem bl_zero_or_one (n m : Nat) (dx lam z : ℝ) (i : Fin n) (j : Fin m) :
    Cx.normSq ((blKernel n m dx lam z).get i j) = 0 ∨ Cx.normSq ((blKernel n m dx lam z).get i j) = 1 := by
  simp only [blKernel, Grid.get_ofFn, normSq_polar]
  split <;> simp

theorem npBl_zero_or_one (n m : Nat) (dx lam k z : ℝ) (i : Fin n) (j : Fin m) :
    Cx.normSq ((npBlKernel n m dx lam k z).get i j) = 0 ∨ Cx.normSq ((npBlKernel n m dx lam k z).get i j) = 1 := by
  simp only [npBlKernel, Grid.get_ofFn, normSq_smul, normSq_expi]
  split <;> simp

theorem as_add (n m : Nat) (dx lam z1 z2 : ℝ) (i : Fin n) (j : Fin m) :
    (asKernel n m dx lam z1).get i j * (asKernel n m dx lam z2).get i j = (asKernel n m dx lam (z1 + z2)).get i j := by
  simp only [asKernel, Grid.get_ofFn, expi_add, asPhase]
  congr 1; ring

theorem as_zero (n m : Nat) (dx lam : ℝ) (i : Fin n) (j : Fin m) : (asKernel n m dx lam 0).get i j = 1 := by
  simp only [asKernel, Grid.get_ofFn, asPhase, zero_mul, expi_zero]

theorem tf_add (n m : Nat) (dx lam k z1 z2 : ℝ) (i : Fin n) (j : Fin m) :
    (tfKernel n m dx lam k z1).get i j * (tfKernel n m dx lam k z2).get i j = (tfKernel n m dx lam k (z1 + z2)).get i j := by
  simp only [tfKernel, Grid.get_ofFn, expi_add, tfPhase]
  congr 1; ring

theorem tf_zero (n m : Nat) (dx lam k : ℝ) (i : Fin n) (j : Fin m) : (tfKernel n m dx lam k 0).get i j = 1 := by
  simp only [tfKernel, Grid.get_ofFn, tfPhase, zero_mul, neg_zero, expi_zero]

theorem npAs_add (n m : Nat) (dx lam k z1 z2 : ℝ) (i : Fin n) (j : Fin m) :
    (npAsKernel n m dx lam k z1).get i j * (npAsKernel n m dx lam k z2).get i j = (npAsKernel n m dx lam k (z1 + z2)).get i j := by
  simp only [npAsKernel, Grid.get_ofFn, expi_add]
  congr 1; ring

/-- the band limit depends on `z²` only: the same mask for `z` and `-z` -/
theorem blLimit_neg (L lam z : ℝ) : blLimit L lam (-z) = blLimit L lam z := by
  simp only [blLimit, num_sq, num_two]
  congr 3; ring

theorem blMask_neg (n m : Nat) (dx lam z : ℝ) (i : Fin n) (j : Fin m) :
    blMask n m dx lam (-z) i j = blMask n m dx lam z i j := by
  simp only [blMask, blLimit_neg]

/-- on the band both steps pass, band-limited kernels compose like the angular spectrum:
    product of the two kernels = `exp(i (z1+z2) κ)` -/
theorem bl_comp_on_common_band (n m : Nat) (dx lam z1 z2 : ℝ) (i : Fin n) (j : Fin m)
    (h1 : blMask n m dx lam z1 i j = true) (h2 : blMask n m dx lam z2 i j = true) :
    (blKernel n m dx lam z1).get i j * (blKernel n m dx lam z2).get i j
      = Cx.expi (blPhase n m dx lam z1 i j + blPhase n m dx lam z2 i j) := by
  simp only [blKernel, Grid.get_ofFn, h1, h2, if_true]
  have : ∀ φ : ℝ, Cx.polar (1 : ℝ) φ = Cx.expi φ := by
    intro φ; simp [Cx.polar, Cx.expi]
  rw [this, this, expi_add]

theorem blPhase_add (n m : Nat) (dx lam z1 z2 : ℝ) (i : Fin n) (j : Fin m) :
    blPhase n m dx lam z1 i j + blPhase n m dx lam z2 i j = blPhase n m dx lam (z1 + z2) i j := by
  simp only [blPhase]; ring

end Odak
