import OdakProofs.Lemmas.GenImageCodec

/-! The torch side of the regenerated image codec: the `for i in range(img.shape[0])` loop of `save_image` moves channels-first to
    channels-last (`new_img[:, :, i] = img[i]`), after which the NumPy saver is called with the arguments as given. -/
namespace Odak
open Tensor CodecL Odak.Gen
set_option linter.unusedSimpArgs false
set_option linter.unusedVariables false

/-- the loop body of torch `save_image` as the translator writes it -/
def moveBody (img : Tensor ℝ) : Nat → Tensor ℝ → Tensor ℝ :=
  fun (i : Nat) (new_img : Tensor ℝ) => (Tensor.setSelect new_img 2 ((i : Nat) : Int) (Tensor.select img 0 ((i : Nat) : Int)))

theorem nd_natCast (n r : Nat) : nd ((n : Nat) : Int) r = n := by
  have : ¬ ((n : Int) < 0) := by omega
  simp [nd, this]

/-- one pass of the loop: channel `n` of the output becomes image `n` of the input, everything else is kept -/
theorem moveBody_step (img r : Tensor ℝ) (C H W : Nat) (hs : img.shape = [C, H, W]) (hr : r.shape = [H, W, C]) (n : Nat) :
    (moveBody img n r).shape = [H, W, C] ∧
    ∀ i j k, (moveBody img n r).get [i, j, k] = if k = n then img.get [n, i, j] else r.get [i, j, k] := by
  have e2 : nd 2 3 = 2 := by decide
  have e0 : nd 0 3 = 0 := by decide
  constructor
  · simp [moveBody, Tensor.setSelect, hr]
  · intro i j k
    by_cases hk : k = n
    · subst hk
      simp [moveBody, Tensor.setSelect, Tensor.select, hr, hs, nd_natCast, Tensor.getAt, Tensor.remAt, Tensor.insAt, e2, e0]
    · simp [moveBody, Tensor.setSelect, Tensor.select, hr, hs, nd_natCast, Tensor.getAt, Tensor.remAt, Tensor.insAt, e2, e0, hk]

/-- after `n` passes of the loop the first `n` channels have been moved, the others are still zero -/
theorem forRange_move (img : Tensor ℝ) (C H W : Nat) (hs : img.shape = [C, H, W]) :
    ∀ n, (forRange n (moveBody img) (Tensor.zeros [H, W, C])).shape = [H, W, C] ∧
      ∀ i j k, (forRange n (moveBody img) (Tensor.zeros [H, W, C])).get [i, j, k] = if k < n then img.get [k, i, j] else 0
  | 0 => by
    constructor
    · simp [forRange, Tensor.zeros, Tensor.full]
    · intro i j k; simp [forRange, Tensor.zeros, Tensor.full]
  | n + 1 => by
    obtain ⟨ih1, ih2⟩ := forRange_move img C H W hs n
    obtain ⟨s1, s2⟩ := moveBody_step img _ C H W hs ih1 n
    refine ⟨s1, fun i j k => ?_⟩
    show (moveBody img n _).get [i, j, k] = _
    rw [s2, ih2]
    by_cases hk : k = n
    · subst hk; simp
    · by_cases h1 : k < n
      · simp [hk, h1, Nat.lt_succ_of_lt h1]
      · have : ¬ k < n + 1 := by omega
        simp [hk, h1, this]

theorem argmin_chw (C H W : Nat) (hH : C ≤ H) (hW : C ≤ W) : argminList [C, H, W] = 0 := by
  have hm : minList [C, H, W] = C := by
    simp only [minList]
    by_cases a : W < H <;> simp only [a, if_true, if_false] <;> split_ifs <;> omega
  simp [argminList, hm, posOf]

/-- torch `save_image` of a channels-first image `[c x m x n]` whose channel count is its smallest side (`c ≤ m`, `c ≤ n`): the NumPy
    saver applied to the image moved to channels-last -/
theorem torch_save_image_chw (img : Tensor ℝ) (C H W : Nat) (hs : img.shape = [C, H, W]) (hH : C ≤ H) (hW : C ≤ W) (cmin cmax : ℝ)
    (d : Nat) :
    ∃ moved : Tensor ℝ, moved.shape = [H, W, C] ∧ (∀ i j k, k < C → moved.get [i, j, k] = img.get [k, i, j]) ∧
      GenIC.torch_save_image img cmin cmax d = GenIC.np_save_image moved cmin cmax d ∧
      GenIC.torch_save_image_ok img cmin cmax d = GenIC.np_save_image_ok moved cmin cmax d := by
  obtain ⟨m1, m2⟩ := forRange_move img C H W hs C
  have ha := argmin_chw C H W hH hW
  refine ⟨forRange C (moveBody img) (Tensor.zeros [H, W, C]), m1, fun i j k hk => by rw [m2, if_pos hk], ?_, ?_⟩
  · simp [GenIC.torch_save_image, hs, ha, Tensor.pyGet, Tensor.getAt, Tensor.nd]
    rfl
  · simp [GenIC.torch_save_image_ok, hs, ha, Tensor.pyGet, Tensor.getAt, Tensor.nd]
    rfl

/-- torch `save_image` of a rank-2 image, or of a channels-last image whose first side is not its smallest: the NumPy saver itself -/
theorem torch_save_image_plain (img : Tensor ℝ) (s : List Nat) (hs : img.shape = s)
    (h : s.length = 2 ∨ (s.length = 3 ∧ argminList s ≠ 0)) (cmin cmax : ℝ) (d : Nat) :
    GenIC.torch_save_image img cmin cmax d = GenIC.np_save_image img cmin cmax d ∧
    GenIC.torch_save_image_ok img cmin cmax d = GenIC.np_save_image_ok img cmin cmax d := by
  rcases h with h | ⟨h, h'⟩
  · constructor <;> simp [GenIC.torch_save_image, GenIC.torch_save_image_ok, hs, h]
  · constructor <;> simp [GenIC.torch_save_image, GenIC.torch_save_image_ok, hs, h, h']

/-- a rank-4 tensor `[1 x c x m x n]` is squeezed to `[c x m x n]` first -/
theorem torch_save_image_b1 (img : Tensor ℝ) (C H W : Nat) (hs : img.shape = [1, C, H, W]) (cmin cmax : ℝ) (d : Nat) :
    (Tensor.squeeze img 0).shape = [C, H, W] ∧ (∀ k i j, (Tensor.squeeze img 0).get [k, i, j] = img.get [0, k, i, j]) ∧
    GenIC.torch_save_image img cmin cmax d = GenIC.torch_save_image (Tensor.squeeze img 0) cmin cmax d ∧
    GenIC.torch_save_image_ok img cmin cmax d = GenIC.torch_save_image_ok (Tensor.squeeze img 0) cmin cmax d := by
  have e : (Tensor.squeeze img 0).shape = [C, H, W] := by codec_simp [hs]
  refine ⟨e, fun k i j => by codec_simp [hs], ?_, ?_⟩
  · simp only [GenIC.torch_save_image, hs, e]
    simp
  · simp only [GenIC.torch_save_image_ok, hs, e]
    simp

end Odak
