import OdakProofs.Lemmas.Mat3
import OdakModel.Rays
import OdakModel.Generated.Samplers
import OdakModel.Generated.Constants
import Mathlib.Tactic.Ring
import Mathlib.Tactic.Linarith
import Mathlib.Tactic.FieldSimp
import Mathlib.Tactic.NormNum

/-!
  Tie theorems: every definition of `Generated/Samplers.lean` (regenerated from the Python source on every run by
  `harness/translate/samplers.py`) EQUALS, at `α = ℝ`, the hand-written model definition of `OdakModel/Rays.lean` the C14 theorems
  are about.  Row `idx` of a returned `[n0·n1 x 3]` array is lattice point `(idx / n1, idx % n1)` (row-major reshape).
  An exchanged `no[0]`/`no[1]`, another centre coordinate, another slice offset, another argument of `rotate_points`, another
  order of the tilt matrices or another cone formula changes the generated text and one of these proofs stops compiling.
-/
namespace Odak
open Odak.Gen

/-! ### vocabulary -/

theorem vec3_ofNat_zero : (⟨Num.ofNat 0, Num.ofNat 0, Num.ofNat 0⟩ : Vec3 ℝ) = ⟨0, 0, 0⟩ := by
  simp only [num_ofNat, Nat.cast_zero]

/-- the regenerated mode tables map the default mode "XYZ" to the product `Rz · Ry · Rx` -/
theorem modeOrder_np_XYZ : modeOrder npRotatePointsModes "XYZ" = some [.z, .y, .x] := by decide
theorem modeOrder_torch_XYZ : modeOrder torchRotatePointsModes "XYZ" = some [.z, .y, .x] := by decide

/-- NumPy `rotate_points(p, angles = a, offset = c)` (mode "XYZ", origin 0: the defaults) is the model's `placeSample` -/
theorem npRotatePointsCall_default (a c p : Vec3 ℝ) (z : Bool) :
    npRotatePointsCall "XYZ" a ⟨0, 0, 0⟩ c p z = placeSample a c p z := by
  simp only [npRotatePointsCall, modeOrder_np_XYZ, Option.getD_some, placeSample]

theorem torchRotatePointsCall_default (a o c p : Vec3 ℝ) :
    torchRotatePointsCall "XYZ" a o c p = rotatePoint .torch [.z, .y, .x] a o c p := by
  simp only [torchRotatePointsCall, modeOrder_torch_XYZ, Option.getD_some]

/-- row-major flattening: row `i·n + j` (`j < n`) is lattice point `(i, j)` -/
theorem flat_div_mod (i j n : Nat) (hj : j < n) : (i * n + j) / n = i ∧ (i * n + j) % n = j := by
  have hn : 0 < n := by omega
  constructor
  · rw [Nat.add_comm, Nat.add_mul_div_right _ _ hn, Nat.div_eq_of_lt hj]; simp
  · rw [Nat.add_comm, Nat.add_mul_mod_self_right, Nat.mod_eq_of_lt hj]

/-- every row index below `n0·n1` is a lattice point inside the lattice -/
theorem unflat_lt (idx n0 n1 : Nat) (h : idx < n0 * n1) : idx / n1 < n0 ∧ idx % n1 < n1 := by
  have hn1 : 0 < n1 := by
    rcases Nat.eq_zero_or_pos n1 with h0 | h0
    · subst h0; simp at h
    · exact h0
  exact ⟨Nat.div_lt_of_lt_mul (by rw [Nat.mul_comm]; exact h), Nat.mod_lt _ hn1⟩

/-! ### NumPy lattice samplers -/

/-- NumPy `grid_sample`: row `idx` is `placeSample angles center (gridPoint … (idx / no1) (idx % no1))` -/
theorem gridSampleN_eq (no0 no1 : Nat) (s0 s1 : ℝ) (center angles : Vec3 ℝ) (z : Bool) (idx : Nat) :
    gridSampleN no0 no1 s0 s1 center angles z idx =
      placeSample angles center (gridPoint no0 no1 s0 s1 (idx / no1) (idx % no1)) z := by
  simp only [gridSampleN, gridPoint, num_two, num_ofNat, Nat.cast_ofNat, Nat.cast_zero, npRotatePointsCall_default]

theorem gridSampleNCount_eq (no0 no1 : Nat) : gridSampleNCount no0 no1 = no0 * no1 := rfl

/-- NumPy `box_volume_sample`: row `idx` is cell `(idx / (no1·no2), idx / no2 % no1, idx % no2)` -/
theorem boxVolumeSampleN_eq (no0 no1 no2 : Nat) (s0 s1 s2 : ℝ) (center angles : Vec3 ℝ) (z : Bool) (idx : Nat) :
    boxVolumeSampleN no0 no1 no2 s0 s1 s2 center angles z idx =
      placeSample angles center (boxPoint no0 no1 no2 s0 s1 s2 (idx / (no1 * no2)) (idx / no2 % no1) (idx % no2)) z := by
  simp only [boxVolumeSampleN, boxPoint, num_two, num_ofNat, Nat.cast_ofNat, Nat.cast_zero, npRotatePointsCall_default]

theorem boxVolumeSampleNCount_eq (no0 no1 no2 : Nat) : boxVolumeSampleNCount no0 no1 no2 = no0 * no1 * no2 := rfl

/-- NumPy `circular_sample`: the first row and the first column of the `(no0+1) x (no1+1)` lattice are sliced away, so row `idx`
    is `circularPoint … (idx / no1 + 1) (idx % no1 + 1)` -/
theorem circularSampleN_eq (no0 no1 : Nat) (radius : ℝ) (center angles : Vec3 ℝ) (z : Bool) (idx : Nat) :
    circularSampleN no0 no1 radius center angles z idx =
      placeSample angles center (circularPoint no0 no1 radius (idx / no1 + 1) (idx % no1 + 1)) z := by
  simp only [circularSampleN, circularPoint, num_two, num_ofNat, Nat.cast_ofNat, Nat.cast_zero, num_pi, num_cos, num_sin,
    npRotatePointsCall_default]

theorem circularSampleNCount_eq (no0 no1 : Nat) : circularSampleNCount no0 no1 = no0 * no1 := rfl

/-- NumPy `sphere_sample` (no `rotate_points` call): row `idx` is `spherePoint … (idx / no1) (idx % no1)` -/
theorem sphereSampleN_eq (no0 no1 : Nat) (radius : ℝ) (center : Vec3 ℝ) (k0 k1 : ℝ) (idx : Nat) :
    sphereSampleN no0 no1 radius center k0 k1 idx = spherePoint no0 no1 radius center k0 k1 (idx / no1) (idx % no1) := by
  simp only [sphereSampleN, spherePoint]

theorem sphereSampleNCount_eq (no0 no1 : Nat) : sphereSampleNCount no0 no1 = no0 * no1 := rfl

/-- NumPy `sphere_sample_uniform`: the same point formula at the ROLLED indices: in row `i` the polar index of column `j` is
    `(j - i) mod no0` and the azimuth index is `(j + i) mod no0` -/
theorem sphereSampleUniformN_eq (no0 no1 : Nat) (radius : ℝ) (center : Vec3 ℝ) (k0 k1 : ℝ) (idx : Nat) :
    sphereSampleUniformN no0 no1 radius center k0 k1 idx =
      spherePoint no0 no1 radius center k0 k1 (rollIndex no0 (Int.ofNat (idx / no1)) (idx % no1))
        (rollIndex no0 (-(Int.ofNat (idx / no1))) (idx % no1)) := by
  simp only [sphereSampleUniformN, spherePoint]

theorem sphereSampleUniformNCount_eq (no0 no1 : Nat) : sphereSampleUniformNCount no0 no1 = no0 * no1 := rfl

/-! ### torch `grid_sample` -/

/-- `linspace(-s/2, s/2, n)[i] = i · s/(n-1) - s/2` over ℝ (for `n ≤ 1` both sides are `-s/2`: `x / 0 = 0`) -/
theorem linspace_centered (s : ℝ) (n i : Nat) :
    linspace (-s / ((2 : Nat) : ℝ)) (s / ((2 : Nat) : ℝ)) n i = (i : ℝ) * (s / ((n - 1 : Nat) : ℝ)) - s / 2 := by
  simp only [linspace, num_ofNat, Nat.cast_ofNat]
  split_ifs with h
  · have : n - 1 = 0 := by omega
    rw [this]; simp [neg_div]
  · have hn : ((n - 1 : Nat) : ℝ) ≠ 0 := by
      have : 0 < n - 1 := by omega
      exact_mod_cast this.ne'
    field_simp; ring

/-- torch `grid_sample`: row `idx` is the torch rotation (mode XYZ, origin 0, offset = centre) of the SAME lattice point as NumPy -/
theorem gridSampleT_eq (no0 no1 : Nat) (s0 s1 : ℝ) (center angles : Vec3 ℝ) (idx : Nat) :
    gridSampleT no0 no1 s0 s1 center angles idx =
      rotatePoint .torch [.z, .y, .x] angles ⟨0, 0, 0⟩ center (gridPoint no0 no1 s0 s1 (idx / no1) (idx % no1)) := by
  simp only [gridSampleT, torchRotatePointsCall_default, linspace_centered, gridPoint, num_two, num_ofNat, Nat.cast_zero]

theorem gridSampleTCount_eq (no0 no1 : Nat) : gridSampleTCount no0 no1 = no0 * no1 := rfl

/-! ### torch `create_ray_from_all_pairs` -/

/-- over ℝ the NaN mark of a zero length is the `0` it replaces -/
theorem select_zero_nan (s : ℝ) : Num.select (decide (s ≤ Num.ofNat 0 ∧ Num.ofNat 0 ≤ s)) Num.nan s = s := by
  rw [num_select]
  simp only [Num.nan, num_ofNat, Nat.cast_zero, div_zero]
  split_ifs with h
  · exact (le_antisymm h.1 h.2).symm
  · rfl

/-- ray number `idx` goes from start point `idx / n` to end point `idx % n` (the model's `allPairsIndex`), with the direction
    cosines of `create_ray_from_two_points` -/
theorem allPairsRayT_eq (m n : Nat) (x0 x1 : Nat → Vec3 ℝ) (idx : Nat) :
    allPairsRayT m x0 n x1 idx =
      ⟨x0 (allPairsIndex n idx).1, rayDirTwoPoints (x0 (allPairsIndex n idx).1) (x1 (allPairsIndex n idx).2)⟩ := by
  simp only [allPairsRayT, allPairsIndex, rayDirTwoPoints, select_zero_nan, Vec3.sdiv, Vec3.sub_def, Vec3.sub]

theorem allPairsRayTCount_eq (m n : Nat) : allPairsRayTCount m n = m * n := rfl

/-! ### torch luminous-angle generators -/

/-- the tilt matrix built in the source, `(Rz @ Ry) @ Rx` of the tilt angles in radians, is the model's `coneTilt` -/
theorem coneTilt_eq (tilt : Vec3 ℝ) :
    coneTilt tilt = (torchRotmatZ (Num.radians tilt.z) * torchRotmatY (Num.radians tilt.y)) * torchRotmatX (Num.radians tilt.x) := by
  simp only [coneTilt, rotFromOrder, List.foldr, rotmat, angleOf, Mat3.mul_one', Mat3.mul_assoc']

theorem Ray.ext'' {a b : Ray ℝ} (ho : a.o = b.o) (hd : a.d = b.d) : a = b := by
  cases a; cases b; simp_all

/-- torch `create_ray_from_point_w_luminous_angle`: ray `idx` starts at `origin`; its direction is the model's `coneDir` with the
    regenerated coefficient `coneCoeffPoint`, the first uniform variate as `U` (polar) and the second as `V` (azimuth) -/
theorem luminousPointRayT_eq (origin tilt : Vec3 ℝ) (num : Nat) (limit : ℝ) (U V : Nat → ℝ) (idx : Nat) :
    luminousPointRayT origin num tilt limit U V idx = ⟨origin, coneDir coneCoeffPoint tilt limit (U idx) (V idx)⟩ := by
  apply Ray.ext''
  · rfl
  · simp only [luminousPointRayT, coneDir, coneTilt_eq, coneLocal, coneCosTheta, coneCoeffPoint, Num.radians, torchRotmatX,
      torchRotmatY, torchRotmatZ, num_two, num_ofNat, num_pi, num_cos, num_sin, num_acos, Nat.cast_ofNat, Nat.cast_one,
      Nat.cast_zero, one_mul]
    apply Vec3.ext' <;> simp only [Mat3.mulVec, Mat3.mul_def, Mat3.mul, Mat3.transpose] <;> ring

theorem luminousPointRayTCount_eq (num : Nat) : luminousPointRayTCount num = num := rfl

/-- torch `create_ray_from_grid_w_luminous_angle`: ray `idx` starts at lattice point `idx % (no0·no1)` of the grid (rotated by the
    tilt with torch `rotate_points`, mode XYZ, origin 0, offset 0, THEN shifted by the centre); the direction is `coneDir` with
    the regenerated coefficient `coneCoeffGrid` -/
theorem luminousGridRayT_eq (center tilt : Vec3 ℝ) (s0 s1 : ℝ) (no0 no1 num : Nat) (limit : ℝ) (U V : Nat → ℝ) (idx : Nat) :
    luminousGridRayT center s0 s1 no0 no1 tilt num limit U V idx =
      ⟨rotatePoint .torch [.z, .y, .x] tilt ⟨0, 0, 0⟩ ⟨0, 0, 0⟩
          (gridPoint no0 no1 s0 s1 (idx % (no0 * no1) / no1) (idx % (no0 * no1) % no1)) + center,
        coneDir coneCoeffGrid tilt limit (U idx) (V idx)⟩ := by
  apply Ray.ext''
  · simp only [luminousGridRayT, torchRotatePointsCall_default, linspace_centered, gridPoint, num_two, num_ofNat, Nat.cast_zero,
      Vec3.add_def, Vec3.add]
  · simp only [luminousGridRayT, coneDir, coneTilt_eq, coneLocal, coneCosTheta, coneCoeffGrid, Num.radians, torchRotmatX,
      torchRotmatY, torchRotmatZ, num_two, num_ofNat, num_pi, num_cos, num_sin, num_acos, Nat.cast_ofNat, Nat.cast_one,
      Nat.cast_zero, one_mul]
    apply Vec3.ext' <;> simp only [Mat3.mulVec, Mat3.mul_def, Mat3.mul, Mat3.transpose] <;> ring

theorem luminousGridRayTCount_eq (no0 no1 num : Nat) : luminousGridRayTCount no0 no1 num = num * (no0 * no1) := rfl

end Odak
