import OdakProofs.Lemmas.Losses
import OdakModel.GazeStateTie

/-!
  # Tie theorems: the state machines of the gaze-contingent losses REGENERATED from the Python source are the hand-written keyed cache

  `OdakModel/Generated/StateMachines.lean` is rewritten on every run by `harness/translate/statemachines.py` from the current
  `odak/learn/perception/{radially_varying_blur, blur_loss, metameric_loss, metameric_loss_uniform, metamer_mse_loss}.py`.  Every
  `gen_…_eq` theorem says: on an object whose attributes hold the abstract cache `c` (`…ToSelf c`), the regenerated step function
  returns the value the hand model's `cacheStep` uses, leaves the object `…ToSelf` of the cache `cacheStep` leaves, and stores
  attributes exactly when `cacheMiss` says so.  A dropped or added comparison in a refresh test, a value computed from a stored attribute
  instead of the current argument (or the other way round), another store order that matters, an attribute that is stored once and never
  refreshed: the generated text changes and one of these equalities stops compiling.
-/
set_option linter.unusedVariables false
set_option linter.unusedSimpArgs false
set_option linter.unusedSectionVars false

namespace Odak
open Odak.Gen
variable {T G R Shape Sub : Type} [DecidableEq G] [DecidableEq R] [DecidableEq Shape]

/-! ### call sequences -/

/-- if every call from a state satisfying `Inv` returns the documented value `fresh x` and re-establishes `Inv`, then along ANY
    sequence of calls every returned value is the documented one (induction over the list) -/
theorem runSteps_of_invariant {S X Y : Type} (step : S → X → Option (S × Y)) (Inv : S → Prop) (P : X → Prop) (fresh : X → Y)
    (h : ∀ s x, Inv s → P x → ∃ s', step s x = some (s', fresh x) ∧ Inv s') :
    ∀ (xs : List X) (s : S), Inv s → (∀ x ∈ xs, P x) → ∃ s', runSteps step s xs = some (s', xs.map fresh) ∧ Inv s' := by
  intro xs
  induction xs with
  | nil => intro s hs _; exact ⟨s, rfl, hs⟩
  | cons x rest ih =>
    intro s hs hp
    obtain ⟨s1, e1, h1⟩ := h s x hs (hp x (List.mem_cons_self))
    obtain ⟨s2, e2, h2⟩ := ih s1 h1 (fun y hy => hp y (List.mem_cons_of_mem _ hy))
    exact ⟨s2, by simp [runSteps, e1, e2], h2⟩

/-! ### `RadiallyVaryingBlur.blur` -/

/-- the regenerated `blur` on an object holding the cache `c`: the hand model's keyed-cache step with key = (size, channels, alpha,
    width, distance, centre, mode, equi), the rendered image uses the map and fraction that step yields, and attributes are stored
    exactly on a miss (all of them, in the order of the source) -/
theorem gen_radiallyVaryingBlurBlurG_eq (E : GazeOps T G R Shape Sub) (c : Option (RBKey R G × (T × T))) (image : T) (a w d : R) (g : G)
    (m : String) (e : Bool) :
    radiallyVaryingBlurBlurG E (rbToSelf c) image a w d g m e =
      some (rbToSelf (cacheStep (rbValue E) c (rbKey E ⟨image, a, w, d, g, m, e⟩)).1,
        E.renderBlur image (cacheStep (rbValue E) c (rbKey E ⟨image, a, w, d, g, m, e⟩)).2.1
          (cacheStep (rbValue E) c (rbKey E ⟨image, a, w, d, g, m, e⟩)).2.2,
        if cacheMiss c (rbKey E ⟨image, a, w, d, g, m, e⟩) then rbRefreshLog else []) := by
  cases c with
  | none =>
    cases e <;> simp [radiallyVaryingBlurBlurG, rbToSelf, RadiallyVaryingBlurSelf.init, cacheStep, cacheMiss, rbValue, rbKey, rbRefreshLog]
  | some p =>
    obtain ⟨⟨sz, nc, a', w', d', g', m', e'⟩, l, f⟩ := p
    by_cases h1 : sz = (E.height image, E.width image)
    case neg => cases e <;> simp [radiallyVaryingBlurBlurG, rbToSelf, cacheStep, cacheMiss, rbValue, rbKey, rbRefreshLog, h1]
    by_cases h2 : nc = E.channels image
    case neg => cases e <;> simp [radiallyVaryingBlurBlurG, rbToSelf, cacheStep, cacheMiss, rbValue, rbKey, rbRefreshLog, h1, h2]
    by_cases h3 : a' = a
    case neg => cases e <;> simp [radiallyVaryingBlurBlurG, rbToSelf, cacheStep, cacheMiss, rbValue, rbKey, rbRefreshLog, h1, h2, h3]
    by_cases h4 : w' = w
    case neg => cases e <;> simp [radiallyVaryingBlurBlurG, rbToSelf, cacheStep, cacheMiss, rbValue, rbKey, rbRefreshLog, h1, h2, h3, h4]
    by_cases h5 : d' = d
    case neg => cases e <;> simp [radiallyVaryingBlurBlurG, rbToSelf, cacheStep, cacheMiss, rbValue, rbKey, rbRefreshLog, h1, h2, h3, h4, h5]
    by_cases h6 : g' = g
    case neg => cases e <;> simp [radiallyVaryingBlurBlurG, rbToSelf, cacheStep, cacheMiss, rbValue, rbKey, rbRefreshLog, h1, h2, h3, h4, h5, h6]
    by_cases h7 : m' = m
    case neg => cases e <;> simp [radiallyVaryingBlurBlurG, rbToSelf, cacheStep, cacheMiss, rbValue, rbKey, rbRefreshLog, h1, h2, h3, h4, h5, h6, h7]
    by_cases h8 : e' = e
    case neg => cases e <;> simp [radiallyVaryingBlurBlurG, rbToSelf, cacheStep, cacheMiss, rbValue, rbKey, rbRefreshLog, h1, h2, h3, h4, h5, h6, h7, h8]
    simp [radiallyVaryingBlurBlurG, rbToSelf, cacheStep, cacheMiss, rbValue, rbKey, rbRefreshLog, h1, h2, h3, h4, h5, h6, h7, h8]

/-- one call in terms of the argument record -/
theorem rbStep_eq (E : GazeOps T G R Shape Sub) (c : Option (RBKey R G × (T × T))) (x : BlurArgs T G R) :
    rbStep E (rbToSelf c) x = some (rbToSelf (cacheStep (rbValue E) c (rbKey E x)).1,
      E.renderBlur x.image (cacheStep (rbValue E) c (rbKey E x)).2.1 (cacheStep (rbValue E) c (rbKey E x)).2.2) := by
  obtain ⟨image, a, w, d, g, m, e⟩ := x
  simp [rbStep, gen_radiallyVaryingBlurBlurG_eq]

/-! ### `BlurLoss` -/

/-- the regenerated `blur_image`: creates the blur object when there is none, then one keyed-cache step of THAT object with the
    configuration of the loss and the gaze of the call -/
theorem gen_blurLossBlurImageG_eq (E : GazeOps T G R Shape Sub) (cfg : BlurLossCfg R) (b : Option (Option (RBKey R G × (T × T))))
    (img : T) (gaze : G) :
    blurLossBlurImageG E cfg (blToSelf b) img gaze =
      some (blToSelf (some (cacheStep (rbValue E) (b.getD none) (rbKey E (blKey cfg img gaze))).1),
        E.renderBlur img (cacheStep (rbValue E) (b.getD none) (rbKey E (blKey cfg img gaze))).2.1
          (cacheStep (rbValue E) (b.getD none) (rbKey E (blKey cfg img gaze))).2.2,
        (if b.isNone then ["blur"] else []) ++
          (if cacheMiss (b.getD none) (rbKey E (blKey cfg img gaze)) then rbRefreshLog else []).map (fun s => "blur." ++ s)) := by
  cases b with
  | none =>
    have h : (RadiallyVaryingBlurSelf.init : RadiallyVaryingBlurSelf T G R Shape Sub) = rbToSelf none := rfl
    simp [blurLossBlurImageG, blToSelf, h, gen_radiallyVaryingBlurBlurG_eq, blKey]
    split <;> simp_all
  | some c =>
    simp [blurLossBlurImageG, blToSelf, gen_radiallyVaryingBlurBlurG_eq, blKey]
    split <;> simp_all

/-- the regenerated `BlurLoss.__call__`: the target is blurred FIRST, then (with `blur_source`) the image, both through the one blur
    object; the loss compares the image (blurred or not) with the blurred target of THIS call -/
theorem gen_blurLossCallG_eq (E : GazeOps T G R Shape Sub) (cfg : BlurLossCfg R) (b : Option (Option (RBKey R G × (T × T))))
    (x : LossArgs T G) (hok : E.inputsOk x.image x.target = true) :
    blStep E cfg (blToSelf b) x =
      let c1 := cacheStep (rbValue E) (b.getD none) (rbKey E (blKey cfg x.target x.gaze))
      let c2 := cacheStep (rbValue E) c1.1 (rbKey E (blKey cfg x.image x.gaze))
      some (if cfg.blur_source then
          (blToSelf (some c2.1), E.mse (E.renderBlur x.image c2.2.1 c2.2.2) (E.renderBlur x.target c1.2.1 c1.2.2))
        else (blToSelf (some c1.1), E.mse x.image (E.renderBlur x.target c1.2.1 c1.2.2))) := by
  obtain ⟨image, target, gaze⟩ := x
  cases hb : cfg.blur_source <;>
    simp [blStep, blurLossCallG, hok, hb, gen_blurLossBlurImageG_eq]

/-! ### `MetamericLoss` -/

/-- a `for` loop of the `do` notation in the `Option` monad whose body always continues is a left fold -/
theorem forIn_option_yield {α β : Type} (g : β → α → β) (f : α → β → Option (ForInStep β))
    (h : ∀ a b, f a b = some (ForInStep.yield (g b a))) : ∀ (l : List α) (init : β), forIn l init f = some (l.foldl g init)
  | [], init => rfl
  | a :: rest, init => by
    rw [List.forIn_cons, h]
    exact forIn_option_yield g f h rest (g init a)

/-- the regenerated `metameric_loss_stats` never raises, stores nothing, and is the mean over the statistics maps of the (radially
    weighted) MSE, the radial weights being computed from the gaze argument of THIS call for every map -/
theorem gen_metamericLossStatsG_eq (E : GazeOps T G R Shape Sub) (cfg : MetamericLossCfg R) (s : MetamericLossSelf T G R Shape Sub)
    (A B : List T) (g : G) :
    metamericLossMetamericLossStatsG E cfg s A B g = some (mlLossStats E cfg A B g) := by
  simp only [metamericLossMetamericLossStatsG, mlLossStats]
  rw [forIn_option_yield (fun l p => E.add l (mlTerm E cfg g p.1 p.2))]
  · rfl
  · rintro ⟨a, b⟩ r
    cases h : cfg.use_radial_weight <;> simp [mlTerm, h]

/-- the regenerated `MetamericLoss.__call__` on an object whose target cache is `c` (any fovea mask, loss map and sub-caches satisfying
    the invariant `I` of `calc_statsmaps`): never raises; it is the hand model's keyed-cache step with key = (gaze, prepared target) and
    cached value = the statistics of the prepared target for that gaze; the loss uses the statistics that step yields, the statistics
    of the prepared image and the fovea mask of THIS call; `target_stats` is stored exactly on a miss.
    Hypotheses on the uninterpreted numerics: `calc_statsmaps` called from an object whose sub-caches satisfy `I` returns
    `stats image gaze`, leaves `mask image gaze` and re-establishes `I` (for `RadiallyVaryingBlur`, one of those sub-caches, this is
    `gen_radiallyVaryingBlurBlurG_eq`); two tensors are equal iff they have the same shape and `torch.all(torch.eq(..))` holds -/
theorem gen_metamericLossCallG_eq [DecidableEq T] (E : GazeOps T G R Shape Sub) (cfg : MetamericLossCfg R) (stats : T → G → List T)
    (mask : T → G → T) (I : Sub → Prop)
    (hcore : ∀ sub, I sub → ∀ x g, I (E.statsCore cfg sub x g cfg.alpha cfg.real_image_width cfg.real_viewing_distance cfg.mode).1 ∧
      (E.statsCore cfg sub x g cfg.alpha cfg.real_image_width cfg.real_viewing_distance cfg.mode).2 = (stats x g, mask x g))
    (hext : ∀ a b : T, a = b ↔ (E.shape a = E.shape b ∧ E.allEq b a = true))
    (c : Option ((G × T) × List T)) (fm lm : Option T) (sub : Sub) (hsub : I sub) (x : MLArgs T G)
    (hok : E.inputsOk x.image x.target = true) :
    ∃ fm' lm' sub' log, I sub' ∧
      metamericLossCallG E cfg (mlToSelf c fm lm sub) x.image x.target x.gaze x.image_colorspace x.visualise_loss =
        some (mlToSelf (cacheStep (fun k => stats k.2 k.1) c (mlKey E cfg x)).1 fm' lm' sub',
          mlValueOf E cfg stats mask x (cacheStep (fun k => stats k.2 k.1) c (mlKey E cfg x)).2, log) ∧
      ("target_stats" ∈ log ↔ cacheMiss c (mlKey E cfg x) = true) := by
  obtain ⟨image, target, gaze, cs, vis⟩ := x
  simp only at hok
  have hI : ∀ sub, I sub → ∀ x g, I (E.statsCore cfg sub x g cfg.alpha cfg.real_image_width cfg.real_viewing_distance cfg.mode).1 :=
    fun sub h x g => (hcore sub h x g).1
  have hV : ∀ sub, I sub → ∀ x g, (E.statsCore cfg sub x g cfg.alpha cfg.real_image_width cfg.real_viewing_distance cfg.mode).2 =
      (stats x g, mask x g) := fun sub h x g => (hcore sub h x g).2
  by_cases hc : E.channels (E.pad image cfg.n_pyramid_levels) = 3 ∧ cs = "RGB"
  all_goals
    rcases c with _ | ⟨⟨g0, t0⟩, v0⟩
    · cases hv : vis <;> cases hl : cfg.use_l2_foveal_loss <;>
        simp [metamericLossCallG, mlToSelf, mlKey, mlPrep, mlValueOf, cacheStep, cacheMiss, hok, hc, hv, hl, metamericLossCalcStatsmapsG,
          metamericLossVisualiseLossMapG, gen_metamericLossStatsG_eq, hV, hI, hsub]
    · have ht := hext t0 (mlPrep E cfg.n_pyramid_levels image target cs).2
      by_cases hg : g0 = gaze
      case neg =>
        cases hv : vis <;> cases hl : cfg.use_l2_foveal_loss <;>
        simp [metamericLossCallG, mlToSelf, mlKey, mlPrep, mlValueOf, cacheStep, cacheMiss, hok, hc, hv, hl, metamericLossCalcStatsmapsG,
          metamericLossVisualiseLossMapG, gen_metamericLossStatsG_eq, hV, hI, hsub, hg]
      by_cases hs : E.shape t0 = E.shape (mlPrep E cfg.n_pyramid_levels image target cs).2
      case neg =>
        have hne : t0 ≠ (mlPrep E cfg.n_pyramid_levels image target cs).2 := fun h => hs (ht.1 h).1
        simp [mlPrep, hc] at hs hne
        cases hv : vis <;> cases hl : cfg.use_l2_foveal_loss <;>
        simp [metamericLossCallG, mlToSelf, mlKey, mlPrep, mlValueOf, cacheStep, cacheMiss, hok, hc, hv, hl, metamericLossCalcStatsmapsG,
          metamericLossVisualiseLossMapG, gen_metamericLossStatsG_eq, hV, hI, hsub, hg, hs, hne]
      cases ha : E.allEq (mlPrep E cfg.n_pyramid_levels image target cs).2 t0
      case false =>
        have hne : t0 ≠ (mlPrep E cfg.n_pyramid_levels image target cs).2 := fun h => by rw [(ht.1 h).2] at ha; cases ha
        simp [mlPrep, hc] at hs hne ha
        cases hv : vis <;> cases hl : cfg.use_l2_foveal_loss <;>
        simp [metamericLossCallG, mlToSelf, mlKey, mlPrep, mlValueOf, cacheStep, cacheMiss, hok, hc, hv, hl, metamericLossCalcStatsmapsG,
          metamericLossVisualiseLossMapG, gen_metamericLossStatsG_eq, hV, hI, hsub, hg, hs, hne, ha]
      case true =>
        have he : t0 = (mlPrep E cfg.n_pyramid_levels image target cs).2 := ht.2 ⟨hs, ha⟩
        simp [mlPrep, hc] at he ha
        subst he
        cases hv : vis <;> cases hl : cfg.use_l2_foveal_loss <;>
        simp [metamericLossCallG, mlToSelf, mlKey, mlPrep, mlValueOf, cacheStep, cacheMiss, hok, hc, hv, hl, metamericLossCalcStatsmapsG,
          metamericLossVisualiseLossMapG, gen_metamericLossStatsG_eq, hV, hI, hsub, hg, ha]

end Odak
