import OdakProofs.Lemmas.GenStatsMaps

/-!
  # Tie theorems (2): the whole of `MetamericLoss.calc_statsmaps` REGENERATED statement by statement against its cache-free reference
-/
set_option linter.unusedVariables false
set_option linter.unusedSimpArgs false
set_option linter.unusedSectionVars false
set_option linter.unusedTactic false
set_option linter.unreachableTactic false

namespace Odak
open Odak.Gen
variable {T G R Shape Sub : Type} [DecidableEq G] [DecidableEq R] [DecidableEq Shape]

/-! ### `MetamericLoss.calc_statsmaps` once the pyramid maker and the blur list are there -/

/-- what `calc_statsmaps` leaves and returns (generated text) against the reference: the pyramid maker is the one it worked with, the blur
    list still has one consistent blur object per level, the statistics are the reference's, and with `use_l2_foveal_loss` the fovea mask
    is the reference's -/
def ResRel (E : GazeOps T G R Shape Sub) (cfg : MetamericLossCfg R) (pm : SpatialSteerablePyramidSelf)
    (r : MetamericLossStatsSelf T G R Shape Sub × List T × List String) (v : List T × Option T) : Prop :=
  r.1.pyramid_maker = some pm ∧ (∃ bl, r.1.blurs = some bl ∧ bl.length = cfg.n_pyramid_levels ∧ ∀ b ∈ bl, RBInv E b) ∧ r.2.1 = v.1 ∧
    (cfg.use_l2_foveal_loss = true → r.1.fovea_mask = v.2)

theorem gen_calcStatsmapsK2_rel (E : GazeOps T G R Shape Sub) (S : StatsOps T R Shape) (cfg : MetamericLossCfg R) (device : Nat)
    (self_ : MetamericLossStatsSelf T G R Shape Sub) (log_ : List String) (image : T) (g : G) (a w d : R) (m : String) (equi : Bool)
    (pm : SpatialSteerablePyramidSelf) (bl : List (RadiallyVaryingBlurSelf T G R Shape Sub))
    (hpm : self_.pyramid_maker = some pm) (hbl : self_.blurs = some bl) (hlen : bl.length = cfg.n_pyramid_levels)
    (hinv : ∀ b ∈ bl, RBInv E b) :
    OptRel (ResRel E cfg pm) (metamericLossCalcStatsmapsFullK2G E S cfg device self_ log_ image g a w d m equi)
      (statsRefTail E S cfg pm image g a w d m) := by
  obtain ⟨pmo, blo, fmo, pero⟩ := self_
  simp only at hpm hbl
  subst hpm hbl
  have hK : ∀ pyr, S.constructPyramid pm image cfg.n_pyramid_levels = pyr →
      OptRel (ResRel E cfg pm) (metamericLossCalcStatsmapsFullK2G E S cfg device
        { pyramid_maker := some pm, blurs := some bl, fovea_mask := fmo, periphery_mask := pero } log_ image g a w d m equi)
      (statsRefTail E S cfg pm image g a w d m) := by
    intro pyr hp
    cases e1 : pyr[0]? with
    | none => (step_simp [metamericLossCalcStatsmapsFullK2G, statsRefTail, hp, e1, OptRel]) <;> simp [OptRel, ResRel]
    | some lv0 =>
    cases e2 : lv0.h with
    | none => (step_simp [metamericLossCalcStatsmapsFullK2G, statsRefTail, hp, e1, e2, OptRel]) <;> simp [OptRel, ResRel]
    | some h =>
    by_cases hn : cfg.n_pyramid_levels = 0
    case pos =>
      have e3 : bl[0]? = none := List.getElem?_eq_none (by omega)
      (step_simp [metamericLossCalcStatsmapsFullK2G, statsRefTail, hp, e1, e2, e3, hn, OptRel]) <;> simp [OptRel, ResRel]
    have hpos : 0 < bl.length := by omega
    have e3 : bl[0]? = some bl[0] := List.getElem?_eq_getElem hpos
    have hb : RBInv E bl[0] := hinv _ (List.getElem_mem hpos)
    have hf := gen_findStats_rel E S cfg g a w d m h bl[0] hb
    cases e5 : findStatsRef E S cfg g a w d m h with
    | none =>
      have e6 := (OptRel.none_iff hf).2 e5
      (step_simp [metamericLossCalcStatsmapsFullK2G, statsRefTail, hp, e1, e2, e3, hn, e5, e6, OptRel]) <;> simp [OptRel, ResRel]
    | some v =>
    obtain ⟨r, e6, hr1, hr2⟩ := OptRel.of_some hf e5
    obtain ⟨rb, rv, rlog⟩ := r
    simp only at hr1 hr2
    subst hr1 hr2
    have hset := rbInv_set hinv 0 (fsArgs cfg (E.mul h h) g a w d m)
    have e7 : (bl.set 0 (rbAfter E (fsArgs cfg (E.mul h h) g a w d m)))[0]? = some (rbAfter E (fsArgs cfg (E.mul h h) g a w d m)) := by
      simp [List.getElem?_set_self, hpos]
    have hlen' : (bl.set 0 (rbAfter E (fsArgs cfg (E.mul h h) g a w d m))).length = cfg.n_pyramid_levels := by simp [hlen]
    cases e8 : cfg.use_l2_foveal_loss
    case false =>
      -- the loop
      have hrel : LoopRel E cfg.n_pyramid_levels (some pm) fmo
          (({ pyramid_maker := some pm, blurs := some (bl.set 0 (rbAfter E (fsArgs cfg (E.mul h h) g a w d m))), fovea_mask := fmo,
              periphery_mask := pero } : MetamericLossStatsSelf T G R Shape Sub),
            log_ ++ rlog.map (fun s_ => "blurs[0]." ++ s_), rv.1, rv.2, [rv.1, rv.2], none) ([rv.1, rv.2], none) :=
        ⟨⟨_, rfl, hlen', hset⟩, rfl, rfl, rfl, rfl⟩
      have hfold := foldlM_optRel _ _ _ (fun s r i hr => gen_statsOuter_rel E S cfg g a w d m pyr
        (some pm) fmo s r i hr) (List.range (pyr.length - 1)) _ _ hrel
      cases e9 : (List.range (pyr.length - 1)).foldlM
          (statsOuterRef E S cfg g a w d m pyr) ([rv.1, rv.2], none) with
      | none =>
        have e10 := (OptRel.none_iff hfold).2 e9
        (step_simp [metamericLossCalcStatsmapsFullK2G, statsRefTail, hp, e1, e2, e3, hn, e5, e6, e8, e9, e10, OptRel]) <;> simp [OptRel, ResRel]
      | some rst' =>
        obtain ⟨st', e10, hr⟩ := OptRel.of_some hfold e9
        obtain ⟨self', log', mn', vr', os', per'⟩ := st'
        obtain ⟨ros', rper'⟩ := rst'
        obtain ⟨⟨bl', hb', hlen'', hinv'⟩, hpm', hfm', h1, h2⟩ := hr
        obtain ⟨pm2, bl2, fm2, per2⟩ := self'
        simp only at hb' hpm' hfm' h1 h2
        subst hb' hpm' hfm' h1 h2
        cases e11 : cfg.use_fullres_l0
        case false =>
          cases e12 : pyLast pyr with
          | none => (step_simp [metamericLossCalcStatsmapsFullK2G, statsRefTail, hp, e1, e2, e3, hn, e5, e6, e8, e9, e10, e11, e12, OptRel]) <;> simp [OptRel, ResRel]
          | some last =>
            cases e13 : last.l with
            | none => (step_simp [metamericLossCalcStatsmapsFullK2G, statsRefTail, hp, e1, e2, e3, hn, e5, e6, e8, e9, e10, e11, e12, e13, OptRel]) <;> simp [OptRel, ResRel]
            | some ll =>
              (step_simp [metamericLossCalcStatsmapsFullK2G, statsRefTail, hp, e1, e2, e3, hn, e5, e6, e8, e9, e10, e11, e12, e13, OptRel, ResRel, hlen'']) <;> simp [OptRel, ResRel]
              exact ⟨hlen'', hinv'⟩
        case true =>
          have hpos' : 0 < bl'.length := by omega
          have e14 : bl'[0]? = some bl'[0] := List.getElem?_eq_getElem hpos'
          obtain ⟨log3, e15⟩ := rb_call E bl'[0] (hinv' _ (List.getElem_mem hpos')) image a w d g m false
          have hset' := rbInv_set hinv' 0 ⟨image, a, w, d, g, m, false⟩
          (step_simp [metamericLossCalcStatsmapsFullK2G, statsRefTail, hp, e1, e2, e3, hn, e5, e6, e8, e9, e10, e11, e14, e15, OptRel, ResRel, hlen'']) <;> simp [OptRel, ResRel]
          exact ⟨by simpa using hlen'', hset'⟩
    case true =>
      have hrel : LoopRel E cfg.n_pyramid_levels (some pm)
          (some (S.foveaMask (rbValue E (rbKey E (fsArgs cfg (E.mul h h) g a w d m))).1 (E.shape image)))
          (({ pyramid_maker := some pm, blurs := some (bl.set 0 (rbAfter E (fsArgs cfg (E.mul h h) g a w d m))),
              fovea_mask := some (S.foveaMask (rbValue E (rbKey E (fsArgs cfg (E.mul h h) g a w d m))).1 (E.shape image)),
              periphery_mask := some (E.sub (E.scalar (E.lit "1.0"))
                (S.foveaMask (rbValue E (rbKey E (fsArgs cfg (E.mul h h) g a w d m))).1 (E.shape image))) } :
              MetamericLossStatsSelf T G R Shape Sub),
            log_ ++ rlog.map (fun s_ => "blurs[0]." ++ s_) ++ ["fovea_mask", "fovea_mask"] ++ ["periphery_mask"], rv.1, rv.2,
            [E.mul rv.1 (E.sub (E.scalar (E.lit "1.0")) (S.foveaMask (rbValue E (rbKey E (fsArgs cfg (E.mul h h) g a w d m))).1 (E.shape image))),
             E.mul rv.2 (E.sub (E.scalar (E.lit "1.0")) (S.foveaMask (rbValue E (rbKey E (fsArgs cfg (E.mul h h) g a w d m))).1 (E.shape image)))],
            some (E.sub (E.scalar (E.lit "1.0")) (S.foveaMask (rbValue E (rbKey E (fsArgs cfg (E.mul h h) g a w d m))).1 (E.shape image))))
          ([E.mul rv.1 (E.sub (E.scalar (E.lit "1.0")) (S.foveaMask (rbValue E (rbKey E (fsArgs cfg (E.mul h h) g a w d m))).1 (E.shape image))),
             E.mul rv.2 (E.sub (E.scalar (E.lit "1.0")) (S.foveaMask (rbValue E (rbKey E (fsArgs cfg (E.mul h h) g a w d m))).1 (E.shape image)))],
            some (E.sub (E.scalar (E.lit "1.0")) (S.foveaMask (rbValue E (rbKey E (fsArgs cfg (E.mul h h) g a w d m))).1 (E.shape image)))) :=
        ⟨⟨_, rfl, hlen', hset⟩, rfl, rfl, rfl, rfl⟩
      have hfold := foldlM_optRel _ _ _ (fun s r i hr => gen_statsOuter_rel E S cfg g a w d m pyr
        (some pm) _ s r i hr) (List.range (pyr.length - 1)) _ _ hrel
      cases e9 : (List.range (pyr.length - 1)).foldlM
          (statsOuterRef E S cfg g a w d m pyr)
          ([E.mul rv.1 (E.sub (E.scalar (E.lit "1.0")) (S.foveaMask (rbValue E (rbKey E (fsArgs cfg (E.mul h h) g a w d m))).1 (E.shape image))),
             E.mul rv.2 (E.sub (E.scalar (E.lit "1.0")) (S.foveaMask (rbValue E (rbKey E (fsArgs cfg (E.mul h h) g a w d m))).1 (E.shape image)))],
            some (E.sub (E.scalar (E.lit "1.0")) (S.foveaMask (rbValue E (rbKey E (fsArgs cfg (E.mul h h) g a w d m))).1 (E.shape image)))) with
      | none =>
        have e10 := (OptRel.none_iff hfold).2 e9
        (step_simp [metamericLossCalcStatsmapsFullK2G, statsRefTail, hp, e1, e2, e3, hn, e5, e6, e7, e8, e9, e10, OptRel, rbAfter_lod_map]) <;> simp [OptRel, ResRel]
      | some rst' =>
        obtain ⟨st', e10, hr⟩ := OptRel.of_some hfold e9
        obtain ⟨self', log', mn', vr', os', per'⟩ := st'
        obtain ⟨ros', rper'⟩ := rst'
        obtain ⟨⟨bl', hb', hlen'', hinv'⟩, hpm', hfm', h1, h2⟩ := hr
        obtain ⟨pm2, bl2, fm2, per2⟩ := self'
        simp only at hb' hpm' hfm' h1 h2
        subst hb' hpm' hfm' h1 h2
        cases e12 : pyLast pyr with
        | none => (step_simp [metamericLossCalcStatsmapsFullK2G, statsRefTail, hp, e1, e2, e3, hn, e5, e6, e7, e8, e9, e10, e12, OptRel, rbAfter_lod_map]) <;> simp [OptRel, ResRel]
        | some last =>
          cases e13 : last.l with
          | none => (step_simp [metamericLossCalcStatsmapsFullK2G, statsRefTail, hp, e1, e2, e3, hn, e5, e6, e7, e8, e9, e10, e12, e13, OptRel, rbAfter_lod_map]) <;> simp [OptRel, ResRel]
          | some ll =>
            cases per' with
            | none => (step_simp [metamericLossCalcStatsmapsFullK2G, statsRefTail, hp, e1, e2, e3, hn, e5, e6, e7, e8, e9, e10, e12, e13, OptRel, rbAfter_lod_map]) <;> simp [OptRel, ResRel]
            | some p =>
              (step_simp [metamericLossCalcStatsmapsFullK2G, statsRefTail, hp, e1, e2, e3, hn, e5, e6, e7, e8, e9, e10, e12, e13, OptRel, ResRel, hlen'',
                rbAfter_lod_map]) <;> simp [OptRel, ResRel]
              exact ⟨hlen'', hinv'⟩
  exact hK _ rfl

/-! ### the blur list and the pyramid maker -/

theorem gen_calcStatsmapsK1_rel (E : GazeOps T G R Shape Sub) (S : StatsOps T R Shape) (cfg : MetamericLossCfg R) (device : Nat)
    (self_ : MetamericLossStatsSelf T G R Shape Sub) (log_ : List String) (image : T) (g : G) (a w d : R) (m : String) (equi : Bool)
    (pm : SpatialSteerablePyramidSelf) (hpm : self_.pyramid_maker = some pm) (hinv : ∀ bl, self_.blurs = some bl → ∀ b ∈ bl, RBInv E b) :
    OptRel (ResRel E cfg pm) (metamericLossCalcStatsmapsFullK1G E S cfg device self_ log_ image g a w d m equi)
      (statsRefTail E S cfg pm image g a w d m) := by
  obtain ⟨pmo, blo, fmo, pero⟩ := self_
  simp only at hpm hinv
  subst hpm
  have hrep : ∀ b ∈ List.replicate cfg.n_pyramid_levels (RadiallyVaryingBlurSelf.init : RadiallyVaryingBlurSelf T G R Shape Sub), RBInv E b := by
    intro b hb
    rw [(List.mem_replicate.1 hb).2]
    exact rbInv_init E
  cases blo with
  | none =>
    simp only [metamericLossCalcStatsmapsFullK1G, Option.isNone_none, if_true, Option.pure_def, Option.bind_eq_bind, Option.bind_some]
    exact gen_calcStatsmapsK2_rel E S cfg device _ _ image g a w d m equi pm _ rfl rfl (List.length_replicate) hrep
  | some bl =>
    by_cases hl : bl.length = cfg.n_pyramid_levels
    · simp only [metamericLossCalcStatsmapsFullK1G, Option.isNone_some, Bool.false_eq_true, if_false, Option.pure_def, Option.bind_eq_bind,
        Option.bind_some, hl, ne_eq, not_true_eq_false, decide_false]
      exact gen_calcStatsmapsK2_rel E S cfg device _ _ image g a w d m equi pm bl rfl rfl hl (hinv bl rfl)
    · simp only [metamericLossCalcStatsmapsFullK1G, Option.isNone_some, Bool.false_eq_true, if_false, Option.pure_def, Option.bind_eq_bind,
        Option.bind_some, hl, ne_eq, not_false_eq_true, decide_true, if_true]
      exact gen_calcStatsmapsK2_rel E S cfg device _ _ image g a w d m equi pm _ rfl rfl (List.length_replicate) hrep

/-- `get_steerable_pyramid_filters` [regenerated table]: for every supported number of orientations it appends exactly that many band
    filters, and `filters["h0"]` has leading size 1 -/
theorem gen_steerableFilterTable_spec (n : Nat) (t : Nat × Nat) (h : steerableFilterTableG n = some t) : t = (n, 1) := by
  unfold steerableFilterTableG at h
  split at h
  · simp_all
  split at h
  · simp_all
  split at h
  · simp_all
  split at h
  · simp_all
  · cases h

/-- what the three accessors of the re-creation test return on a pyramid maker the constructor call of `calc_statsmaps` built for channel
    count `c`, `o` orientations and device `d`: `d`, `o`, `c` -/
theorem gen_pyramidMaker_accessors (c o d : Nat) (p : SpatialSteerablePyramidSelf)
    (h : spatialSteerablePyramidInitG false c 5 o "cropped" d = some p) :
    p = { use_bilinear_downup := false, n_channels := c, filter_size := 5, n_orientations := o, filter_type := "cropped", device := d } ∧
    spatialSteerablePyramidDeviceG p = some d ∧ spatialSteerablePyramidBandFiltersLenG p = some o ∧
    spatialSteerablePyramidFiltH0Size0G p = some c ∧ ∃ t, steerableFilterTableG o = some t := by
  unfold spatialSteerablePyramidInitG at h
  cases ht : steerableFilterTableG o with
  | none => simp [ht] at h
  | some t =>
    have hsp := gen_steerableFilterTable_spec o t ht
    simp only [ht, Option.bind_eq_bind, Option.bind_some, Option.pure_def, Option.some.injEq] at h
    subst h
    subst hsp
    refine ⟨rfl, rfl, by simp [spatialSteerablePyramidBandFiltersLenG, ht], ?_, _, rfl⟩
    by_cases hc : c = 1
    · simp [spatialSteerablePyramidFiltH0Size0G, ht, hc]
    · simp [spatialSteerablePyramidFiltH0Size0G, ht, hc]

/-- **the regenerated `MetamericLoss.calc_statsmaps` against the cache-free reference**: called on an object whose sub-objects are
    consistent (`StatsInv`: ANY pyramid maker the method built earlier, ANY list of consistent blur objects - of any length, holding the
    caches of any earlier image size / channel count / gaze / foveation parameters -, any masks), with ANY configuration and device, it
    raises exactly when the reference raises and otherwise returns the reference's statistics, leaves the reference's fovea mask and pyramid
    maker, and leaves consistent sub-objects again -/
theorem gen_metamericLossCalcStatsmapsFullG_rel (E : GazeOps T G R Shape Sub) (S : StatsOps T R Shape) (cfg : MetamericLossCfg R)
    (device : Nat) (self_ : MetamericLossStatsSelf T G R Shape Sub) (hs : StatsInv E self_) (image : T) (g : G) (a w d : R) (m : String)
    (equi : Bool) :
    OptRel (fun r v => StatsInv E r.1 ∧ r.1.pyramid_maker = some v.2.2 ∧ r.2.1 = v.1 ∧
        (cfg.use_l2_foveal_loss = true → r.1.fovea_mask = v.2.1))
      (metamericLossCalcStatsmapsFullG E S cfg device self_ image g a w d m equi) (statsRef E S cfg device image g a w d m) := by
  have wrap : ∀ (pm : SpatialSteerablePyramidSelf) (x : Option (MetamericLossStatsSelf T G R Shape Sub × List T × List String)),
      statsMaker E cfg.n_orientations device image = some pm → OptRel (ResRel E cfg pm) x (statsRefTail E S cfg pm image g a w d m) →
      OptRel (fun r v => StatsInv E r.1 ∧ r.1.pyramid_maker = some v.2.2 ∧ r.2.1 = v.1 ∧
        (cfg.use_l2_foveal_loss = true → r.1.fovea_mask = v.2.1)) x (statsRef E S cfg device image g a w d m) := by
    intro pm x hmk hx
    simp only [statsRef, hmk, Option.bind_eq_bind, Option.bind_some]
    cases ht : statsRefTail E S cfg pm image g a w d m with
    | none =>
      have := (OptRel.none_iff hx).2 ht
      simp [this, OptRel]
    | some v =>
      obtain ⟨r, er, hpm', ⟨bl, hbl, hlen, hinv⟩, hv, hfm⟩ := OptRel.of_some hx ht
      subst er
      simp only [Option.bind_some, Option.pure_def, OptRel]
      exact ⟨⟨fun p hp => ⟨_, _, _, by rw [hpm'] at hp; cases hp; exact hmk⟩, fun bl' hb' => by rw [hbl] at hb'; cases hb'; exact hinv⟩,
        hpm', hv, hfm⟩
  obtain ⟨pmo, blo, fmo, pero⟩ := self_
  have hbl := hs.blurs
  have hpm := hs.pm
  simp only at hbl hpm
  cases pmo with
  | none =>
    cases hmk : statsMaker E cfg.n_orientations device image with
    | none =>
      have hmk' := hmk
      simp only [statsMaker] at hmk'
      simp [metamericLossCalcStatsmapsFullG, statsRef, hmk, hmk', OptRel]
    | some pm =>
      have hmk' := hmk
      simp only [statsMaker] at hmk'
      refine wrap pm _ hmk ?_
      simp only [metamericLossCalcStatsmapsFullG, Option.isNone_none, if_true, Option.pure_def, Option.bind_eq_bind, Option.bind_some, hmk']
      exact gen_calcStatsmapsK1_rel E S cfg device _ _ image g a w d m equi pm rfl hbl
  | some p =>
    obtain ⟨c, o, d0, hp⟩ := hpm p rfl
    obtain ⟨hp1, hdev, hband, hh0, t, ht⟩ := gen_pyramidMaker_accessors c o d0 p hp
    have refresh : OptRel (fun r v => StatsInv E r.1 ∧ r.1.pyramid_maker = some v.2.2 ∧ r.2.1 = v.1 ∧
          (cfg.use_l2_foveal_loss = true → r.1.fovea_mask = v.2.1))
        ((spatialSteerablePyramidInitG false (E.channels image) 5 cfg.n_orientations "cropped" device).bind fun r_8 =>
          metamericLossCalcStatsmapsFullK1G E S cfg device
            { pyramid_maker := some r_8, blurs := blo, fovea_mask := fmo, periphery_mask := pero } ["pyramid_maker"] image g a w d m equi)
        (statsRef E S cfg device image g a w d m) := by
      cases hmk : statsMaker E cfg.n_orientations device image with
      | none =>
        have hmk' := hmk
        simp only [statsMaker] at hmk'
        simp [statsRef, hmk, hmk', OptRel]
      | some pm =>
        have hmk' := hmk
        simp only [statsMaker] at hmk'
        refine wrap pm _ hmk ?_
        simp only [hmk', Option.bind_some]
        exact gen_calcStatsmapsK1_rel E S cfg device _ _ image g a w d m equi pm rfl hbl
    by_cases h1 : d0 = device
    case neg =>
      simpa [metamericLossCalcStatsmapsFullG, hdev, h1] using refresh
    by_cases h2 : o = cfg.n_orientations
    case neg =>
      simpa [metamericLossCalcStatsmapsFullG, hdev, h1, hband, h2] using refresh
    by_cases h3 : c = E.channels image
    case neg =>
      simpa [metamericLossCalcStatsmapsFullG, hdev, h1, hband, h2, hh0, h3] using refresh
    -- nothing changed: the stored pyramid maker IS the one a new object would build
    subst h1 h2 h3
    have hmk : statsMaker E cfg.n_orientations d0 image = some p := hp
    refine wrap p _ hmk ?_
    simp only [metamericLossCalcStatsmapsFullG, Option.isNone_some, Bool.false_eq_true, if_false, Option.pure_def, Option.bind_eq_bind,
      Option.bind_some, hdev, hband, hh0, ne_eq, not_true_eq_false, decide_false]
    exact gen_calcStatsmapsK1_rel E S cfg d0 _ _ image g a w d m equi p rfl hbl

end Odak
