import OdakProofs.Lemmas.GenGeometry
import OdakModel.Cylinder
import Mathlib.Tactic.Ring
import Mathlib.Tactic.Linarith
import Mathlib.Tactic.FieldSimp
import Mathlib.Tactic.LinearCombination

/-!
  Tie theorems: every definition of `Generated/CylinderGen.lean` (regenerated from the Python source on every run by
  `harness/translate/cylinder.py`) EQUALS, at `α = ℝ`, the hand-written model definition of `OdakModel/Cylinder.lean`, and the
  geometric meaning of those definitions: `lineDistSq` is the squared distance from the axis line, `closestPointOnRay` is the foot of
  the perpendicular, `cylinderNormal` is a unit vector perpendicular to the axis.
  A dropped or exchanged component of the packed cylinder (`cylinder[3]` where `cylinder[4]` belongs, one axis component missing),
  a changed sign, `r` instead of `r ** 2` or exchanged arguments of `create_ray_from_two_points` change the generated text and one of
  these proofs stops compiling.
-/
namespace Odak
open Odak.Gen

/-! ### ties -/

/-- NumPy `point_to_ray_distance`: `|(q - a) × (q - b)|² / |b - a|²` (a SQUARED distance, whatever the name says) -/
theorem pointToRayDistanceN_eq (q a b : Vec3 ℝ) : pointToRayDistanceN q a b = lineDistSq q a b := rfl

/-- NumPy `cylinder_function` on the packed parameters: squared distance from the axis through `cylinder[0:3]` and `cylinder[4:7]`
    minus the square of `cylinder[3]` -/
theorem cylinderFunctionN_eq (q : Vec3 ℝ) (cyl : Cylinder ℝ) : cylinderFn cyl q = cylinderFunction q cyl := rfl

/-- NumPy `closest_point_to_a_ray`: the source measures the direction as `propagate_a_ray(ray, 1.)[0] - ray[0]`, which over ℝ is the
    direction row itself -/
theorem closestPointToARayN_eq (q : Vec3 ℝ) (ray : Ray ℝ) : closestPointToARayN q ray = closestPointOnRay q ray := by
  simp only [closestPointToARayN, closestPointOnRay, propagateARayN_eq, num_ofSci_10_1]
  apply Vec3.ext' <;> gen_simp <;> ring

/-! ### meaning -/

theorem normSq_nonneg' (u : Vec3 ℝ) : 0 ≤ Vec3.normSq u := by
  gen_simp; nlinarith [mul_self_nonneg u.x, mul_self_nonneg u.y, mul_self_nonneg u.z]

theorem normSq_eq_zero' {u : Vec3 ℝ} (h : Vec3.normSq u = 0) : u.x = 0 ∧ u.y = 0 ∧ u.z = 0 := by
  have e : u.x * u.x + u.y * u.y + u.z * u.z = 0 := by revert h; gen_simp; exact id
  refine ⟨?_, ?_, ?_⟩ <;> nlinarith [mul_self_nonneg u.x, mul_self_nonneg u.y, mul_self_nonneg u.z]

theorem normSq_pos_of_ne {a b : Vec3 ℝ} (h : a ≠ b) : 0 < Vec3.normSq (b - a) := by
  rcases (normSq_nonneg' (b - a)).lt_or_eq with h1 | h1
  · exact h1
  · exfalso
    obtain ⟨h1, h2, h3⟩ := normSq_eq_zero' h1.symm
    revert h1 h2 h3; gen_simp; intro h1 h2 h3
    exact h (Vec3.ext' (by linarith) (by linarith) (by linarith))

noncomputable def axisFoot (q a u : Vec3 ℝ) : Vec3 ℝ := a + Vec3.smul (Vec3.dot (q - a) u / Vec3.normSq u) u

theorem axisFoot_perp (q a u : Vec3 ℝ) (hu : 0 < Vec3.normSq u) : Vec3.dot (q - axisFoot q a u) u = 0 := by
  have ht : Vec3.dot (q - a) u / Vec3.normSq u * Vec3.normSq u = Vec3.dot (q - a) u := div_mul_cancel₀ _ hu.ne'
  simp only [axisFoot]
  generalize Vec3.dot (q - a) u / Vec3.normSq u = t at ht
  revert ht; gen_simp; intro ht
  linear_combination -ht

theorem lineDistSq_eq_foot (q a b : Vec3 ℝ) (hab : a ≠ b) :
    lineDistSq q a b = Vec3.normSq (q - axisFoot q a (b - a)) := by
  have hu := normSq_pos_of_ne hab
  have ht : Vec3.dot (q - a) (b - a) / Vec3.normSq (b - a) * Vec3.normSq (b - a) = Vec3.dot (q - a) (b - a) := div_mul_cancel₀ _ hu.ne'
  simp only [lineDistSq, axisFoot]
  rw [div_eq_iff hu.ne']
  generalize Vec3.dot (q - a) (b - a) / Vec3.normSq (b - a) = t at ht
  revert ht; gen_simp; intro ht
  linear_combination (-((b.x - a.x) * (b.x - a.x) + (b.y - a.y) * (b.y - a.y) + (b.z - a.z) * (b.z - a.z)) * t + 2 * ((q.x - a.x) * (b.x - a.x) + (q.y - a.y) * (b.y - a.y) + (q.z - a.z) * (b.z - a.z)) - ((q.x - a.x) * (b.x - a.x) + (q.y - a.y) * (b.y - a.y) + (q.z - a.z) * (b.z - a.z))) * ht

theorem lineDistSq_nonneg (q a b : Vec3 ℝ) : 0 ≤ lineDistSq q a b := by
  simp only [lineDistSq]
  exact div_nonneg (normSq_nonneg' _) (normSq_nonneg' _)

theorem lineDistSq_parallel (o a b : Vec3 ℝ) (s t : ℝ) :
    lineDistSq (o + Vec3.smul t (Vec3.smul s (b - a))) a b = lineDistSq o a b := by
  simp only [lineDistSq]
  congr 1
  gen_simp; ring

theorem norm_facts {p q : Vec3 ℝ} (h : p ≠ q) :
    0 < Vec3.norm (q - p) ∧ Vec3.norm (q - p) * Vec3.norm (q - p) = Vec3.normSq (q - p) := by
  have hu := normSq_pos_of_ne h
  exact ⟨Real.sqrt_pos.mpr hu, Real.mul_self_sqrt hu.le⟩

theorem rayDirTwoPoints_unit (p q : Vec3 ℝ) (h : p ≠ q) :
    Vec3.normSq (rayDirTwoPoints p q) = 1 ∧ Vec3.smul (Vec3.norm (q - p)) (rayDirTwoPoints p q) = q - p := by
  obtain ⟨hn0, hsq⟩ := norm_facts h
  have hu := normSq_pos_of_ne h
  constructor
  · have e : Vec3.normSq (rayDirTwoPoints p q) = Vec3.normSq (q - p) / (Vec3.norm (q - p) * Vec3.norm (q - p)) := by
      simp only [rayDirTwoPoints, Vec3.sdiv, Vec3.normSq, Vec3.dot]; field_simp
    rw [e, hsq, div_self hu.ne']
  · have hN : Vec3.norm (q - p) ≠ 0 := hn0.ne'
    unfold rayDirTwoPoints
    generalize Vec3.norm (q - p) = N at hN
    apply Vec3.ext' <;> simp only [Vec3.sdiv, Vec3.smul, Vec3.sub_def, Vec3.sub] <;> field_simp

theorem axisFoot_scale (q a u : Vec3 ℝ) (c : ℝ) (hc : c ≠ 0) : axisFoot q a (Vec3.sdiv u c) = axisFoot q a u := by
  simp only [axisFoot]
  apply Vec3.ext' <;> gen_simp <;> field_simp

theorem axisFoot_unit (q a b : Vec3 ℝ) (hab : a ≠ b) :
    axisFoot q a (rayDirTwoPoints a b) = axisFoot q a (b - a) :=
  axisFoot_scale q a (b - a) _ (norm_facts hab).1.ne'


/-- NumPy `get_cylinder_normal` on the packed parameters -/
theorem getCylinderNormalN_eq (q : Vec3 ℝ) (cyl : Cylinder ℝ) : cylinderNormalOf cyl q = cylinderNormal q cyl := by
  simp only [cylinderNormalOf, getCylinderNormalN, twoPointsN_eq, closestPointToARayN_eq, cylinderNormal, Cylinder.axis]

/-- `closest_point_to_a_ray` is the foot of the perpendicular on the ray's line -/
theorem closestPointOnRay_eq_foot (q : Vec3 ℝ) (ray : Ray ℝ) : closestPointOnRay q ray = axisFoot q ray.o ray.d := rfl

/-- what the returned normal is, for a proper cylinder (`c ≠ p`) and a point off the axis: it starts at the foot of the perpendicular
    on the axis, has unit length, is perpendicular to the axis and reaches the point after the point's distance from the axis -/
theorem cylinderNormal_spec (q : Vec3 ℝ) (cyl : Cylinder ℝ) (hab : cyl.c ≠ cyl.p) (hoff : axisFoot q cyl.c (cyl.p - cyl.c) ≠ q) :
    (cylinderNormal q cyl).o = axisFoot q cyl.c (cyl.p - cyl.c) ∧
    Vec3.normSq (cylinderNormal q cyl).d = 1 ∧
    Vec3.dot (cylinderNormal q cyl).d (cyl.p - cyl.c) = 0 ∧
    (cylinderNormal q cyl).o + Vec3.smul (Vec3.norm (q - (cylinderNormal q cyl).o)) (cylinderNormal q cyl).d = q := by
  have hf : closestPointOnRay q cyl.axis = axisFoot q cyl.c (cyl.p - cyl.c) := by
    rw [closestPointOnRay_eq_foot]; exact axisFoot_unit q cyl.c cyl.p hab
  simp only [cylinderNormal, hf]
  obtain ⟨h1, h2⟩ := rayDirTwoPoints_unit _ _ hoff
  obtain ⟨hn0, _⟩ := norm_facts hoff
  refine ⟨trivial, h1, ?_, ?_⟩
  · have hp := axisFoot_perp q cyl.c (cyl.p - cyl.c) (normSq_pos_of_ne hab)
    have e : Vec3.dot (rayDirTwoPoints (axisFoot q cyl.c (cyl.p - cyl.c)) q) (cyl.p - cyl.c) =
        Vec3.dot (q - axisFoot q cyl.c (cyl.p - cyl.c)) (cyl.p - cyl.c) / Vec3.norm (q - axisFoot q cyl.c (cyl.p - cyl.c)) := by
      simp only [rayDirTwoPoints, Vec3.sdiv, Vec3.dot]; field_simp
    rw [e, hp, zero_div]
  · rw [h2]; apply Vec3.ext' <;> gen_simp <;> ring

end Odak
