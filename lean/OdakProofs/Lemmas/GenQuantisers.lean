import OdakProofs.RealInst
import OdakProofs.Lemmas.GenPolar
import OdakModel.Polar
import OdakModel.Hologram
import OdakModel.Generated.Quantisers

/-!
  Tie theorems: every definition of `Generated/Quantisers.lean` (regenerated from the Python source on every run by
  `harness/translate/quantisers.py`) EQUALS the hand-written model definition of `OdakModel/Polar.lean` / `Hologram.lean` the
  C09 / C07 theorems are about.  A modulo taken with a constant instead of `slm_range`, a dropped division, `2**bits - 1`,
  a rounding instead of the truncation, a swapped `cos` / `sin` or another order of wrap / quantise / rescale changes the
  generated text and one of these proofs stops compiling.
-/
namespace Odak
open Odak.Gen

section generic
variable {α : Type} [Num α]

/-- NumPy `produce_phase_only_slm_pattern` with an illumination amplitude `A`: (pattern sample, integer level) for EVERY scalar
    instantiation (`rfl`): at `Float`, the model the correspondence executes, and at `ℝ`, the model the theorems are about -/
theorem slmPatternIllumN_eq (u : Cx α) (range : α) (bits : Nat) (A : α) :
    slmPatternIllumN u range bits A = (slmPattern u range bits A, slmLevel (Cx.arg u) range bits) := rfl

/-- torch `quantize` -/
theorem quantizeT_eq (x : α) (bits : Nat) (l0 l1 : α) : quantizeT x bits l0 l1 = quantize x bits l0 l1 := rfl

/-- NumPy `adjust_phase_only_slm_range`: `native_range / working_wavelength * native_wavelength` -/
theorem adjustSlmRangeN_eq (r w n : α) : adjustSlmRangeN r w n = r / w * n := rfl

end generic

/-- without illumination the amplitude is the literal `1.` -/
theorem slmPatternN_eq (u : Cx ℝ) (range : ℝ) (bits : Nat) :
    slmPatternN u range bits = (slmPattern u range bits 1, slmLevel (Cx.arg u) range bits) := by
  have h : slmPatternN u range bits = slmPatternIllumN u range bits (Num.ofNat 1) := rfl
  rw [h, slmPatternIllumN_eq]
  simp only [num_ofNat, Nat.cast_one]

/-- the returned phase of `multi_color_hologram_optimizer.optimize`: wrap to `[0, 2π)`, quantise with limits `[0, 2π]`, map the
    level back to radians – the model's `quantizedPhase` -/
theorem quantizedPhaseT_eq (φ : ℝ) (bits : Nat) : quantizedPhaseT φ bits = quantizedPhase bits φ := by
  simp only [quantizedPhaseT, quantizedPhase, quantizeT_eq, Num.pow2, num_two, num_ofNat, num_pi, Nat.cast_ofNat, Nat.cast_zero]

end Odak
