import OdakProofs.Lemmas.NumpyPipelines
import OdakModel.PropagateMore
import OdakModel.Generated.PipelinesMore
import OdakModel.Generated.Pipelines

/-!
  `Generated/PipelinesMore.lean` (regenerated from `odak/wave/classical.py` on every run by `harness/translate/pipelines_more.py`)
  tied to the hand-written model `OdakModel/PropagateMore.lean` at `α = ℝ`, and the linearity of that model in the field.
-/
namespace Odak
open Finset CGrid Odak.Gen

variable {n m : ℕ}

/-! ### complex division -/

theorem toC_div (a b : Cx ℝ) : toC (Cx.div a b) = toC a / toC b := by
  apply Complex.ext
  · simp only [toC, Cx.div, Complex.div_re, Complex.normSq_apply]
    rw [add_div]
  · simp only [toC, Cx.div, Complex.div_im, Complex.normSq_apply]
    rw [sub_div]

/-- `g / c` element by element is the pointwise product with `1 / c` -/
theorem divC_eq_mul (g c : CGrid ℝ n m) : CGrid.divC g c = mul (Grid.map (fun w => Cx.div 1 w) c) g := by
  apply toCG_injective
  funext i j
  simp only [toCG, CGrid.divC, Grid.get_zipWith, get_mul, Grid.get_map, toC_div, toC_mul, toC_one]
  ring

theorem divC_add (g h c : CGrid ℝ n m) : CGrid.divC (add g h) c = add (CGrid.divC g c) (CGrid.divC h c) := by
  simp only [divC_eq_mul, mul_add']
theorem divC_smul (a : Cx ℝ) (g c : CGrid ℝ n m) : CGrid.divC (smul a g) c = smul a (CGrid.divC g c) := by
  simp only [divC_eq_mul, mul_smul']
theorem divC_zero (c : CGrid ℝ n m) : CGrid.divC (zero : CGrid ℝ n m) c = zero := by
  simp only [divC_eq_mul, mul_zero']

theorem divR_eq_smul (g : CGrid ℝ n m) (c : ℝ) : CGrid.divR g c = smul (Cx.ofReal c⁻¹) g := map_divR_eq c g

/-! ### `fraunhofer_inverse` -/

theorem npFraunhoferInverseWith_linear (c u v : CGrid ℝ n m) (a b : Cx ℝ) (dx : ℝ) :
    npFraunhoferInverseWith c (add (smul a u) (smul b v)) dx =
      add (smul a (npFraunhoferInverseWith c u dx)) (smul b (npFraunhoferInverseWith c v dx)) := by
  simp only [npFraunhoferInverseWith, divR_eq_smul, smul_add', divC_add, divC_smul, ifftshift_add, ifftshift_smul, ifft2_add, ifft2_smul,
    fftshift_add, fftshift_smul, smul_comm' (Cx.ofReal _) a, smul_comm' (Cx.ofReal _) b]

theorem npFraunhoferInverseWith_zero (c : CGrid ℝ n m) (dx : ℝ) : npFraunhoferInverseWith c (zero : CGrid ℝ n m) dx = zero := by
  simp only [npFraunhoferInverseWith, divR_eq_smul, smul_zero', divC_zero, ifftshift_zero, ifft2_zero, fftshift_zero]

/-- the regenerated pipeline: the field divided by `dx²` and by the regenerated factor, `ifftshift`, `ifft2`, `fftshift` -/
theorem gen_fraunhoferInverseN_eq (u : CGrid ℝ n m) (dx lam k z : ℝ) :
    fraunhoferInverseN u dx lam k z = npFraunhoferInverseWith (fraunhoferInvCoefN n m dx lam k z) u dx := rfl

/-- the factor of `fraunhofer_inverse` is the factor of `fraunhofer` at the distance `|z|` (`distance = np.abs(distance)`) -/
theorem gen_fraunhoferInvCoefN_eq (n m : ℕ) (dx lam k z : ℝ) :
    fraunhoferInvCoefN n m dx lam k z = fraunhoferCoefN n m dx lam k (Num.abs z) := rfl

/-! ### direct summation (`rayleigh_sommerfeld`) -/

theorem toC_directSum_get (W : Fin n → Fin n → Fin n → Fin n → Cx ℝ) (c : Cx ℝ) (u : CGrid ℝ n n) (a b : Fin n) :
    toC ((directSum W c u).get a b) = (∑ i, ∑ j, toC (u.get i j) * toC (W a b i j)) * toC c := by
  simp only [directSum, Grid.get_ofFn, toC_mul, toC_sumFin]

theorem directSum_linear (W : Fin n → Fin n → Fin n → Fin n → Cx ℝ) (c : Cx ℝ) (u v : CGrid ℝ n n) (a b : Cx ℝ) :
    directSum W c (add (smul a u) (smul b v)) = add (smul a (directSum W c u)) (smul b (directSum W c v)) := by
  apply Grid.ext_get; intro x y
  apply toC_injective
  simp only [get_add, get_smul, toC_add, toC_mul, toC_directSum_get]
  simp only [add_mul, Finset.sum_add_distrib, mul_assoc, ← Finset.mul_sum]

theorem directSum_zero (W : Fin n → Fin n → Fin n → Fin n → Cx ℝ) (c : Cx ℝ) : directSum W c (zero : CGrid ℝ n n) = zero := by
  apply Grid.ext_get; intro x y
  apply toC_injective
  simp only [toC_directSum_get, get_zero, toC_zero, zero_mul, Finset.sum_const_zero]

theorem isZero_iff (a : Cx ℝ) : Cx.isZero a ↔ a = 0 := by
  constructor
  · rintro ⟨⟨h1, h2⟩, ⟨h3, h4⟩⟩
    apply toC_injective
    apply Complex.ext
    · exact le_antisymm h1 h2
    · exact le_antisymm h3 h4
  · rintro rfl
    exact ⟨⟨le_refl _, le_refl _⟩, ⟨le_refl _, le_refl _⟩⟩

/-- one accumulated term of the source: skipped when the sample is zero, otherwise `field[i, j] * exp(i k r) / r * cos` -/
theorem rs_term (u e : Cx ℝ) (r c : ℝ) :
    (if Cx.isZero u then (0 : Cx ℝ) else Cx.smul c (Cx.divR (u * e) r)) = u * Cx.smul c (Cx.divR e r) := by
  apply toC_injective
  split_ifs with h
  · rw [(isZero_iff u).mp h]; simp
  · simp only [toC_smul, toC_divR, toC_mul]; ring

/-- the regenerated direct summation is the model's (`if field[i, j] != 0` is no restriction over ℝ) -/
theorem gen_rayleighSommerfeldN_eq (u : CGrid ℝ n n) (dx lam k z : ℝ) :
    rayleighSommerfeldN u dx lam k z = npRayleighSommerfeld u dx lam k z := by
  apply Grid.ext_get; intro a b
  simp only [rayleighSommerfeldN, npRayleighSommerfeld, directSum, Grid.get_ofFn, rs_term, rsWeight, rsPos]

/-! ### `fraunhofer_equal_size_adjust` -/

/-- the window of the regenerated `fraunhofer_equal_size_adjust` is the model's (a function of the shape and of `(dx, λ, z)` only) -/
theorem gen_equalSizeWindowN_eq (n m : ℕ) (dx lam z : ℝ) : equalSizeWindowN n m dx lam z = equalSizeWindow n m dx lam z := rfl

theorem getN_linear (u v : CGrid ℝ n m) (a b : Cx ℝ) (r c : ℕ) :
    CGrid.getN (add (smul a u) (smul b v)) r c = a * CGrid.getN u r c + b * CGrid.getN v r c := by
  unfold CGrid.getN
  by_cases h : r < n
  · by_cases h' : c < m
    · simp only [h, h', dite_true, get_add, get_smul]
    · simp only [h, h', dite_true, dite_false]
      apply toC_injective; simp
  · simp only [h, dite_false]
    apply toC_injective; simp

end Odak
