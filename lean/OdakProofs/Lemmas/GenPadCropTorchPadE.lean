import OdakProofs.Lemmas.GenPadCropBase

/-! Layout theorem of the regenerated torch `zero_pad` with an explicit `size = [S0, S1]`, `S0 ≥ h`, `S1 ≥ w`
    (`GenPC.torch_zero_pad_explicit`): Python accepts the slice store, the spatial sides become `S0 x S1`, the output element is the
    input element at the shifted index inside the window and 0 outside - for every documented rank / layout, any scalar type. -/
namespace Odak
open Tensor
set_option linter.unusedSectionVars false
set_option linter.unusedSimpArgs false
set_option linter.unusedVariables false
variable {α : Type} [Num α]

theorem torch_zero_pad_explicit_spec (L : Layout) (x : Tensor α) (k c h w S0 S1 : Nat) (hs : x.shape = L.shape k c h w)
    (ha : L.Accepts c w) (h0 : h ≤ S0) (h1 : w ≤ S1) :
    GenPC.torch_zero_pad_explicit_ok x [S0, S1] = true ∧
    (GenPC.torch_zero_pad_explicit x [S0, S1]).shape = L.shape k c S0 S1 ∧
    ∀ b ch i j, b < k → ch < c → i < S0 → j < S1 →
      (GenPC.torch_zero_pad_explicit x [S0, S1]).get (L.idx b ch i j) =
        if (S0 / 2 - h / 2 ≤ i ∧ i < S0 / 2 - h / 2 + h) ∧ (S1 / 2 - w / 2 ≤ j ∧ j < S1 / 2 - w / 2 + w) then
          x.get (L.idx b ch (i - (S0 / 2 - h / 2)) (j - (S1 / 2 - w / 2))) else Num.ofNat 0 := by
  cases L
  case bhwc =>
    have hc : c < 5 := by simpa [Layout.Accepts] using ha
    refine ⟨?_, ?_, ?_⟩
    · padcrop_simp [GenPC.torch_zero_pad_explicit_ok, hs, hc]
      omega
    · padcrop_simp [GenPC.torch_zero_pad_explicit, hs, hc]
    · intro b ch i j hb hch hi hj
      padcrop_simp [GenPC.torch_zero_pad_explicit, hs, hc]
      padcrop_finish
  all_goals
    have hw : ¬ w < 5 := by simpa [Layout.Accepts] using ha
    refine ⟨?_, ?_, ?_⟩
    · padcrop_simp [GenPC.torch_zero_pad_explicit_ok, hs, hw]
      omega
    · padcrop_simp [GenPC.torch_zero_pad_explicit, hs, hw]
    · intro b ch i j hb hch hi hj
      padcrop_simp [GenPC.torch_zero_pad_explicit, hs, hw]
      padcrop_finish

end Odak
