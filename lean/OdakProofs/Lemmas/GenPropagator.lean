import OdakProofs.Lemmas.GenPipelines

/-! # Tie theorems (2): `propagator.__call__` and `propagator.reconstruct` REGENERATED from the Python source are the hand-written
  state machine of `OdakModel/Propagator.lean` (between `zero_pad` and `crop_center`).  Separate from `GenPipelines.lean` so that a
  change of `odak/learn/wave/propagators.py` breaks the propagator property (C06) only. -/
namespace Odak
open Gen CGrid

variable {n m : ℕ}

theorem gen_reconstructCallsT_eq {β : Type} (frames depths channels : Nat) (field : Nat → Nat → β) :
    reconstructCallsT frames depths channels field = reconstructOps frames depths channels field := rfl

/-! ### `propagator.__call__` -/

theorem gen_propagationKernelT_method (meth : PMethod) (n m : ℕ) (dx lam z : ℝ) (s0 s1 s2 s3 : ℕ) :
    propagationKernelT meth.name n m dx lam z s0 s1 s2 s3 = some (methodKernel n m meth dx lam z) := by
  rw [gen_propagationKernelT_eq]
  cases meth <;> simp [torchKernel, PMethod.name, methodKernel]

/-- the regenerated step function is the hand model's `callStep` between `zero_pad` and `crop_center`, with the kernel
    `kernelFor` builds for (depth, channel): same cache key, the kernel WITHOUT the aperture is stored, forward / back-and-forth
    kernels as in the hand model -/
theorem gen_propagatorCallT_eq {h w : ℕ} (cfg : PropCfg ℝ) (A : CGrid ℝ (2 * h) (2 * w)) (s0 s1 s2 s3 : ℕ)
    (s : PState ℝ (2 * h) (2 * w)) (d c : ℕ) (u : CGrid ℝ h w) :
    propagatorCallT (cfg.toSelf A s0 s1 s2 s3) s u c d = some (callStepPC (kernelFor (2 * h) (2 * w) cfg) A s d c u) := by
  simp only [propagatorCallT, PropCfg.toSelf, gen_propagationKernelT_method, callStepPC, callStep, kernelFor, propagatorTypeName,
    gen_customT_eq]
  cases hl : s.cache.lookup (d, c) with
  | some H => simp
  | none =>
    cases hb : cfg.backAndForth <;> simp

end Odak
