import OdakModel.Kernels
import OdakModel.Polar
import OdakModel.Generated.WaveKernels

/-! # Tie theorems (1): the field utilities and `wavenumber` REGENERATED from the Python source are the hand-written model

  `wavenumber`, `calculate_amplitude`, `calculate_phase`, `generate_complex_field`, `set_amplitude` (torch
  `odak/learn/wave/util.py`; NumPy `odak/wave/utils.py`, `odak/wave/__init__.py`) and NumPy `add_phase`, as regenerated into
  `OdakModel/Generated/WaveKernels.lean` by `harness/translate/wavekernels.py`, EQUAL the definitions of `OdakModel/Polar.lean` /
  `OdakModel/Kernels.lean` for EVERY scalar instantiation (`rfl`, no Mathlib): in particular at `Float`, the model the
  correspondence check executes, and at `ℝ`, the model the C09 theorems are about.  (The grid kernels are in `GenKernels.lean`.) -/
namespace Odak
open Gen

section generic
variable {α : Type} [Num α]

theorem gen_wavenumberT_eq (lam : α) : wavenumberT lam = wavenumber lam := rfl
theorem gen_wavenumberN_eq (lam : α) : wavenumberN lam = wavenumber lam := rfl
theorem gen_calcAmplitudeT_eq (u : Cx α) : calcAmplitudeT u = calcAmplitude u := rfl
theorem gen_calcAmplitudeN_eq (u : Cx α) : calcAmplitudeN u = calcAmplitude u := rfl
theorem gen_calcPhaseT_eq (u : Cx α) : calcPhaseT u = calcPhase u := rfl
theorem gen_calcPhaseN_eq (u : Cx α) : calcPhaseN u = calcPhase u := rfl
theorem gen_genFieldT_eq (a φ : α) : genFieldT a φ = genField a φ := rfl
theorem gen_genFieldN_eq (a φ : α) : genFieldN a φ = genField a φ := rfl
theorem gen_setAmplitudeT_eq (u a : Cx α) : setAmplitudeT u a = setAmplitude u a := rfl
theorem gen_setAmplitudeN_eq (u a : Cx α) : setAmplitudeN u a = setAmplitude u a := rfl
theorem gen_addPhaseN_eq (u : Cx α) (φ : α) : addPhaseN u φ = addPhase u φ := rfl

end generic

end Odak
