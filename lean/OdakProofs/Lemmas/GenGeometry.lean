import OdakProofs.Lemmas.Mat3
import OdakModel.Geometry
import OdakModel.Rays
import OdakModel.Generated.GeometryGen
import OdakModel.Generated.Constants
import Mathlib.Tactic.Ring
import Mathlib.Tactic.Linarith
import Mathlib.Tactic.FieldSimp
import Mathlib.Tactic.NormNum

/-!
  Tie theorems: every definition of `Generated/GeometryGen.lean` (regenerated from the Python source on every run by
  `harness/translate/geometry.py`) EQUALS, at `α = ℝ`, the hand-written model definition the property theorems are about.
  A changed sign, a dropped division, another epsilon, another vertex order or an `abs` in the source changes the generated
  text and one of these proofs stops compiling.

  Conventions of the generated file that the statements spell out:
  * a ray / a surface normal is `Ray α = ⟨o, d⟩`;
  * `Num.nan = 0 / 0` is only stored where the replaced value is `0` (`maskEq_zero_nan`) or under the TIR flag;
  * `torch.nan_to_num(nan → nan, ±inf → nan)` is the identity of the model (it only changes the kind of non-finite float).

  This file does not import `Lemmas/Geometry.lean` (so that `Props/C14.lean` can import it next to its own vector lemmas).
-/
namespace Odak
open Odak.Gen

/-- unfold vector algebra and literals to real components -/
macro "gen_simp" : tactic =>
  `(tactic| simp only [Vec3.add_def, Vec3.sub_def, Vec3.neg_def, Vec3.add, Vec3.sub, Vec3.neg, Vec3.dot, Vec3.cross,
      Vec3.normSq, Vec3.norm, Vec3.smul, Vec3.sdiv, Vec3.hmul, Vec3.compSum, num_two, num_half, num_sq, num_ofNat, num_sqrt,
      num_abs, Nat.cast_zero, Nat.cast_one, Nat.cast_ofNat])

theorem Ray.ext' {a b : Ray ℝ} (ho : a.o = b.o) (hd : a.d = b.d) : a = b := by
  cases a; cases b; simp_all

theorem Hit.ext' {a b : Hit ℝ} (hp : a.point = b.point) (hn : a.normal = b.normal) (hd : a.distance = b.distance) :
    a = b := by
  cases a; cases b; simp_all

/-! ### literals -/

theorem num_ofSci_10_1 : (Num.ofSci 10 true 1 : ℝ) = 1 := by simp only [num_ofSci]; norm_num
theorem num_ofSci_0_1 : (Num.ofSci 0 true 1 : ℝ) = 0 := by simp only [num_ofSci]; norm_num
theorem num_ofSci_1_1 : (Num.ofSci 1 true 1 : ℝ) = 1 / 10 := by simp only [num_ofSci]; norm_num
theorem num_ofSci_1_8 : (Num.ofSci 1 true 8 : ℝ) = 1 / 100000000 := by simp only [num_ofSci]; norm_num

/-- `s[s == 0] = nan`: over ℝ the stored `0 / 0` is the `0` it replaces -/
theorem maskEq_zero_nan (s : ℝ) : Num.maskEq s (Num.ofNat 0) Num.nan = s := by
  simp only [Num.maskEq, Num.nan, num_ofNat, Nat.cast_zero, div_zero]
  split_ifs with h
  · exact (le_antisymm h.1 h.2).symm
  · rfl

/-- over ℝ nothing is NaN -/
theorem isNaN_real (x : ℝ) : Num.isNaN x = false := by
  simp [Num.isNaN]

/-! ### triangles (C10) -/

theorem centerOfTriangleT_eq (p0 p1 p2 : Vec3 ℝ) : centerOfTriangleT p0 p1 p2 = centerOfTriangle p0 p1 p2 := rfl
theorem centerOfTriangleN_eq (p0 p1 p2 : Vec3 ℝ) : centerOfTriangleN p0 p1 p2 = centerOfTriangle p0 p1 p2 := rfl

/-- torch `get_triangle_normal`: anchored at the centroid, direction `cross(p0 - p1, p2 - p1)` over its Euclidean length -/
theorem getTriangleNormalT_eq (p0 p1 p2 : Vec3 ℝ) :
    getTriangleNormalT p0 p1 p2 = ⟨centerOfTriangle p0 p1 p2, triangleNormalDir p0 p1 p2⟩ := rfl
theorem getTriangleNormalN_eq (p0 p1 p2 : Vec3 ℝ) :
    getTriangleNormalN p0 p1 p2 = ⟨centerOfTriangle p0 p1 p2, triangleNormalDir p0 p1 p2⟩ := rfl

/-- torch `intersect_w_surface` is the model's `intersectSurface` (hit point, normal direction, SIGNED distance) -/
theorem intersectSurfaceT_eq (r : Ray ℝ) (p0 p1 p2 : Vec3 ℝ) :
    intersectSurfaceT r p0 p1 p2 = intersectSurface r.o r.d p0 p1 p2 := rfl

/-- NumPy `intersect_w_surface` is the model's `npIntersectSurface` (the distance is returned as `|t|`) -/
theorem intersectSurfaceN_eq (r : Ray ℝ) (p0 p1 p2 : Vec3 ℝ) :
    intersectSurfaceN r p0 p1 p2 = npIntersectSurface r.o r.d p0 p1 p2 := rfl

/-- the `(u, v)` computed by torch `is_it_on_triangle` is the model's barycentric pair -/
theorem baryUVT_eq (pt p0 p1 p2 : Vec3 ℝ) : baryUVT pt p0 p1 p2 = baryUV pt p0 p1 p2 := by
  simp only [baryUVT, baryUV, num_ofSci_10_1]

theorem isOnTriangleT_eq (pt p0 p1 p2 : Vec3 ℝ) : isOnTriangleT pt p0 p1 p2 = isOnTriangle pt p0 p1 p2 := by
  simp only [isOnTriangleT, isOnTriangle, baryUV, num_ofSci_10_1, num_ofSci_0_1, num_ofNat, Nat.cast_one]
  congr

/-- NumPy `same_side` (odak/tools/vector.py) and the three-sided test of NumPy `is_it_on_triangle` -/
theorem sameSideN_eq (p1 p2 a b : Vec3 ℝ) : sameSideN p1 p2 a b = sameSide p1 p2 a b := by
  simp only [sameSideN, sameSide, num_ofNat, Nat.cast_zero]

theorem isOnTriangleN_eq (pt p0 p1 p2 : Vec3 ℝ) : isOnTriangleN pt p0 p1 p2 = npIsOnTriangle pt p0 p1 p2 := by
  simp only [isOnTriangleN, npIsOnTriangle, sameSideN_eq]

/-! ### reflection (C11) -/

/-- torch `reflect`: origin = the normal's point, direction = `reflectDir ε d n` with ε the regenerated `reflectEpsTorch` -/
theorem reflectT_eq (r n : Ray ℝ) : reflectT r n = ⟨n.o, reflectDir reflectEpsTorch r.d n.d⟩ := by
  apply Ray.ext'
  · rfl
  · apply Vec3.ext' <;> simp only [reflectT, reflectDir, reflectEpsTorch] <;> gen_simp <;> ring

/-- NumPy `reflect`: the same with the regenerated `reflectEpsNumpy` (= 0) -/
theorem reflectN_eq (r n : Ray ℝ) : reflectN r n = ⟨n.o, reflectDir reflectEpsNumpy r.d n.d⟩ := by
  apply Ray.ext'
  · rfl
  · apply Vec3.ext' <;> simp only [reflectN, reflectDir, reflectEpsNumpy] <;> gen_simp <;> ring

theorem reflectEpsNumpy_eq : (reflectEpsNumpy : ℝ) = 0 := by simp [reflectEpsNumpy]
theorem reflectEpsTorch_eq : (reflectEpsTorch : ℝ) = 1 / 100000000 := num_ofSci_1_8

/-! ### refraction (C11, C12) -/

theorem refrA_T_eq (mu : ℝ) (v n : Ray ℝ) : refrA_T mu v n = refrA mu v.d n.d := by
  simp only [refrA_T, refrA]; gen_simp
theorem refrB_T_eq (mu : ℝ) (n : Ray ℝ) : refrB_T mu n = refrB mu n.d := by
  simp only [refrB_T, refrB]; gen_simp
theorem refrStartT_eq (a b : ℝ) : refrStartT a b = refrStart a b := rfl
theorem refrStepT_eq (a b t : ℝ) : refrStepT a b t = refrStep a b t := by
  simp only [refrStepT, refrStep]; gen_simp
/-- the new `eps` of one pass is the length of the step, as in `refrLoop` -/
theorem refrEpsT_eq (a b t : ℝ) : refrEpsT a b t = Num.abs (t - refrStep a b t) := by
  simp only [refrEpsT, refrStep]; gen_simp
/-- the loop starts with `eps = 2·error`, as in `refractTau` -/
theorem refrEps0T_eq (err : ℝ) : refrEps0T err = err * Num.two := by
  simp only [refrEps0T]; gen_simp; ring
/-- the test under which the start value is replaced by NaN is the model's total-internal-reflection test `a² - b < 0` -/
theorem refrTirT_eq (a b : ℝ) : refrTirT a b = decide (Num.sq a - b < 0) := by
  simp only [refrTirT]; gen_simp; congr
/-- the returned ray: the normal's point and `μ d + τ n` -/
theorem refrOutT_eq (mu tau : ℝ) (v n : Ray ℝ) : refrOutT mu tau v n = ⟨n.o, refractDir mu tau v.d n.d⟩ := rfl

/-! ### rays (C14) -/

theorem twoPointsT_eq (p0 p1 : Vec3 ℝ) : twoPointsT p0 p1 = ⟨p0, rayDirTwoPoints p0 p1⟩ := by
  simp only [twoPointsT, rayDirTwoPoints, maskEq_zero_nan]; gen_simp
theorem twoPointsN_eq (p0 p1 : Vec3 ℝ) : twoPointsN p0 p1 = ⟨p0, rayDirTwoPoints p0 p1⟩ := by
  simp only [twoPointsN, rayDirTwoPoints, maskEq_zero_nan]; gen_simp

/-- NumPy `propagate_a_ray`: the start point moves by `distance` along the direction, the direction is kept -/
theorem propagateARayN_eq (r : Ray ℝ) (t : ℝ) : propagateARayN r t = ⟨r.o + Vec3.smul t r.d, r.d⟩ := by
  apply Ray.ext'
  · apply Vec3.ext' <;> simp only [propagateARayN] <;> gen_simp <;> ring
  · rfl

/-- torch `propagate_ray`: the start point moves the same way, but the returned direction cosines are ZERO
    (`new_ray = torch.zeros_like(ray)` and only the start point is filled in) -/
theorem propagateRayT_eq (r : Ray ℝ) (t : ℝ) : propagateRayT r t = ⟨r.o + Vec3.smul t r.d, ⟨0, 0, 0⟩⟩ := by
  apply Ray.ext'
  · apply Vec3.ext' <;> simp only [propagateRayT] <;> gen_simp <;> ring
  · apply Vec3.ext' <;> simp only [propagateRayT] <;> gen_simp

/-! ### circle, sphere function, secant pieces (C10, C12) -/

theorem distanceBetweenTwoPointsT_eq (p q : Vec3 ℝ) : distanceBetweenTwoPointsT p q = Vec3.norm (p - q) := rfl

/-- torch `intersect_w_circle`: the plane hit, with the distance set to zero outside the circle -/
theorem intersectCircleT_eq (r : Ray ℝ) (c0 c1 c2 centre : Vec3 ℝ) (radius : ℝ) :
    intersectCircleT r c0 c1 c2 centre radius =
      ⟨(intersectSurface r.o r.d c0 c1 c2).point, (intersectSurface r.o r.d c0 c1 c2).normal,
       if radius < Vec3.norm ((intersectSurface r.o r.d c0 c1 c2).point - centre) then 0
       else (intersectSurface r.o r.d c0 c1 c2).distance⟩ := by
  simp only [intersectCircleT, intersectSurfaceT_eq, distanceBetweenTwoPointsT_eq, num_ofNat, Nat.cast_zero]
  by_cases h : radius < Vec3.norm ((intersectSurface r.o r.d c0 c1 c2).point - centre) <;> simp [h]

/-- NumPy `sphere_function`: squared distance to the centre minus the squared radius -/
theorem sphereFunctionN_eq (p c : Vec3 ℝ) (r : ℝ) :
    sphereFunctionN p c.x c.y c.z r = Vec3.normSq (p - c) - r ^ 2 := by
  simp only [sphereFunctionN]; gen_simp; ring

/-- the kernel evaluates the surface function at `o + distance · d` and returns that point with it -/
theorem kernelParametricN_eq (t : ℝ) (r : Ray ℝ) (f : Vec3 ℝ → ℝ) :
    kernelParametricN t r f = (f (r.o + Vec3.smul t r.d), r.o + Vec3.smul t r.d) := by
  simp only [kernelParametricN, propagateARayN_eq]

/-- the secant update: `d₁ - e₁ (d₁ - d₀)/(e₁ - e₀)` in ABSOLUTE VALUE becomes the new distance; the old pair moves down -/
theorem secantUpdateN_eq (d0 d1 e0 e1 : ℝ) :
    secantUpdateN d0 d1 e0 e1 = ((d1, |d1 - e1 * (d1 - d0) / (e1 - e0)|), (e1, e1)) := by
  simp only [secantUpdateN, num_abs]

theorem parametricInitN_eq : (parametricInitN : (ℝ × ℝ) × (ℝ × ℝ)) = ((0, 1 / 10), (150, 100)) := by
  simp only [parametricInitN, num_ofSci_1_1, num_ofNat, Nat.cast_zero, Nat.cast_ofNat]

theorem parametricGuardN_eq (e0 e1 target : ℝ) : parametricGuardN e0 e1 target = decide (target < |e1|) := by
  simp only [parametricGuardN, num_abs]

theorem parametricTargetErrorN_eq : (parametricTargetErrorN : ℝ) = 1 / 100000000 := num_ofSci_1_8

end Odak
