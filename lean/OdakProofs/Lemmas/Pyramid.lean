import OdakModel.Index
import Mathlib.Tactic.Ring
import Mathlib.Tactic.Linarith

/-! Ceiling-to-a-multiple arithmetic and the reflection-pad axis map (C18). -/
namespace Odak.Index

theorem ceil_mul_bounds (H D : Int) (hD : 0 < D) :
    H ≤ -(-H / D) * D ∧ -(-H / D) * D < H + D ∧ D ∣ -(-H / D) * D := by
  have h1 := Int.ediv_mul_le (-H) hD.ne'
  have h2 := Int.lt_ediv_add_one_mul_self (-H) hD
  refine ⟨by nlinarith, by nlinarith, Dvd.intro_left _ rfl⟩

theorem ceil_mul_eq_of_dvd (H D : Int) (hD : 0 < D) (h : D ∣ H) : -(-H / D) * D = H := by
  obtain ⟨k, rfl⟩ := h
  have : -(D * k) / D = -k := by
    rw [show -(D * k) = D * (-k) by ring, Int.mul_ediv_cancel_left _ hD.ne']
  rw [this]; ring

/-- reflection padding with nothing before keeps every input sample at its own index -/
theorem reflectAxis_origin (n after : Int) (hn : 0 < n) (ha0 : 0 ≤ after) (ha : after < n) (N : Nat) (hN : n = N) :
    (reflectAxis n 0 after).1 = true ∧ (reflectAxis n 0 after).2.len = (n + after).toNat ∧
    ∀ i, i < N → (reflectAxis n 0 after).2.src i = some i := by
  subst hN
  simp only [reflectAxis, decide_eq_true_eq]
  refine ⟨by omega, by simp, ?_⟩
  intro i hi
  have h1 : ¬ ((i : Int) - 0 < 0) := by omega
  have h2 : ¬ ((N : Int) ≤ (i : Int) - 0) := by omega
  simp only [h1, h2, if_false]
  first | (congr 1; omega) | (congr 1) | omega

open Odak.Gen in
theorem pyrNeedsPad_eq_false_iff (H W D : Int) :
    pyrNeedsPad H W D = false ↔ pyrReqH H W D ≤ H ∧ pyrReqW H W D ≤ W := by
  unfold pyrNeedsPad
  rw [decide_eq_false_iff_not, not_or, not_lt, not_lt]

end Odak.Index
