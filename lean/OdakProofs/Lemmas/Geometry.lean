import OdakProofs.Lemmas.Mat3
import OdakModel.Geometry
import Mathlib.Tactic.Ring
import Mathlib.Tactic.Linarith
import Mathlib.Tactic.FieldSimp
import Mathlib.Tactic.Positivity
import Mathlib.Analysis.SpecialFunctions.Sqrt
import Mathlib.Logic.Function.Iterate

/-! Auxiliary lemmas for C10 (ray/triangle), C11 (reflection, refraction), C12 (termination). -/
namespace Odak

/-- unfold the geometry model and vector algebra to real components -/
macro "geo_simp" : tactic =>
  `(tactic| simp only [triangleCross, triangleNormalDir, centerOfTriangle, rayParam, intersectSurface,
      reflectDir, refractDir, refrA, refrB, refrStart, refrStep,
      Vec3.add_def, Vec3.sub_def, Vec3.neg_def, Vec3.add, Vec3.sub, Vec3.neg, Vec3.dot, Vec3.cross,
      Vec3.normSq, Vec3.norm, Vec3.smul, Vec3.sdiv, num_two, num_half, num_sq, num_ofNat, num_sqrt, num_abs])

/-! ### vector algebra -/

theorem Vec3.normSq_nonneg (v : Vec3 ℝ) : 0 ≤ Vec3.normSq v := by
  simp only [Vec3.normSq, Vec3.dot]
  nlinarith [mul_self_nonneg v.x, mul_self_nonneg v.y, mul_self_nonneg v.z]

theorem Vec3.normSq_pos {v : Vec3 ℝ} (h : v ≠ ⟨0, 0, 0⟩) : 0 < Vec3.normSq v := by
  rcases v with ⟨x, y, z⟩
  rcases lt_or_eq_of_le (Vec3.normSq_nonneg ⟨x, y, z⟩) with hp | h0
  · exact hp
  · exfalso; apply h
    simp only [Vec3.normSq, Vec3.dot] at h0
    have hx : x * x = 0 := by nlinarith [mul_self_nonneg x, mul_self_nonneg y, mul_self_nonneg z]
    have hy : y * y = 0 := by nlinarith [mul_self_nonneg x, mul_self_nonneg y, mul_self_nonneg z]
    have hz : z * z = 0 := by nlinarith [mul_self_nonneg x, mul_self_nonneg y, mul_self_nonneg z]
    rw [mul_self_eq_zero.mp hx, mul_self_eq_zero.mp hy, mul_self_eq_zero.mp hz]

theorem Vec3.normSq_ne_zero {v : Vec3 ℝ} (h : v ≠ ⟨0, 0, 0⟩) : Vec3.normSq v ≠ 0 :=
  (Vec3.normSq_pos h).ne'

theorem Vec3.normSq_ne_zero_iff (v : Vec3 ℝ) : Vec3.normSq v ≠ 0 ↔ v ≠ ⟨0, 0, 0⟩ := by
  constructor
  · intro h e; apply h; rw [e]; simp [Vec3.normSq, Vec3.dot]
  · exact Vec3.normSq_ne_zero

theorem Vec3.norm_pos {v : Vec3 ℝ} (h : v ≠ ⟨0, 0, 0⟩) : 0 < Vec3.norm v := by
  simp only [Vec3.norm, num_sqrt]; exact Real.sqrt_pos.mpr (Vec3.normSq_pos h)

theorem Vec3.norm_mul_self (v : Vec3 ℝ) : Vec3.norm v * Vec3.norm v = Vec3.normSq v := by
  simp only [Vec3.norm, num_sqrt]; exact Real.mul_self_sqrt (Vec3.normSq_nonneg v)

theorem Vec3.normSq_sdiv (c : Vec3 ℝ) (k : ℝ) : Vec3.normSq (Vec3.sdiv c k) = Vec3.normSq c / (k * k) := by
  simp only [Vec3.normSq, Vec3.dot, Vec3.sdiv]; ring

theorem Vec3.dot_sdiv_left (c v : Vec3 ℝ) (k : ℝ) : Vec3.dot (Vec3.sdiv c k) v = Vec3.dot c v / k := by
  simp only [Vec3.dot, Vec3.sdiv]; ring

theorem Vec3.dot_smul_right (d n : Vec3 ℝ) (c : ℝ) : Vec3.dot d (Vec3.smul c n) = c * Vec3.dot d n := by
  simp only [Vec3.dot, Vec3.smul]; ring

theorem Vec3.normSq_smul (n : Vec3 ℝ) (c : ℝ) : Vec3.normSq (Vec3.smul c n) = c * c * Vec3.normSq n := by
  simp only [Vec3.normSq, Vec3.dot, Vec3.smul]; ring

theorem Vec3.normSq_sub_smul (d n : Vec3 ℝ) (k : ℝ) :
    Vec3.normSq (d - Vec3.smul k n) = Vec3.normSq d - 2 * k * Vec3.dot d n + k * k * Vec3.normSq n := by
  mat3_simp; ring

theorem Vec3.dot_sub_smul_left (d n m : Vec3 ℝ) (k : ℝ) :
    Vec3.dot (d - Vec3.smul k n) m = Vec3.dot d m - k * Vec3.dot n m := by
  mat3_simp; ring

/-- `n · (o + t d - p) = n · (o - p) + t (n · d)` -/
theorem Vec3.dot_ray_sub (n o d p : Vec3 ℝ) (t : ℝ) :
    Vec3.dot n (o + Vec3.smul t d - p) = Vec3.dot n (o - p) + t * Vec3.dot n d := by
  mat3_simp; ring

/-! ### triangles -/

theorem triangleCross_dot (p0 p1 p2 : Vec3 ℝ) :
    Vec3.dot (triangleCross p0 p1 p2) (p0 - p1) = 0 ∧ Vec3.dot (triangleCross p0 p1 p2) (p2 - p1) = 0 ∧
    Vec3.dot (triangleCross p0 p1 p2) (p2 - p0) = 0 := by
  refine ⟨?_, ?_, ?_⟩ <;> geo_simp <;> ring

/-- the centroid satisfies the plane equation of each corner (no guard needed) -/
theorem triangleCross_dot_center (p0 p1 p2 : Vec3 ℝ) :
    Vec3.dot (triangleCross p0 p1 p2) (centerOfTriangle p0 p1 p2 - p0) = 0 ∧
    Vec3.dot (triangleCross p0 p1 p2) (centerOfTriangle p0 p1 p2 - p1) = 0 ∧
    Vec3.dot (triangleCross p0 p1 p2) (centerOfTriangle p0 p1 p2 - p2) = 0 := by
  refine ⟨?_, ?_, ?_⟩ <;> geo_simp <;> ring

theorem triangleNormalDir_dot (p0 p1 p2 v : Vec3 ℝ) :
    Vec3.dot (triangleNormalDir p0 p1 p2) v
      = Vec3.dot (triangleCross p0 p1 p2) v / Vec3.norm (triangleCross p0 p1 p2) := by
  simp only [triangleNormalDir, Vec3.dot_sdiv_left]

theorem triangleNormalDir_dot_center (p0 p1 p2 : Vec3 ℝ) :
    Vec3.dot (triangleNormalDir p0 p1 p2) (centerOfTriangle p0 p1 p2 - p0) = 0 ∧
    Vec3.dot (triangleNormalDir p0 p1 p2) (centerOfTriangle p0 p1 p2 - p1) = 0 ∧
    Vec3.dot (triangleNormalDir p0 p1 p2) (centerOfTriangle p0 p1 p2 - p2) = 0 := by
  obtain ⟨h0, h1, h2⟩ := triangleCross_dot_center p0 p1 p2
  simp only [triangleNormalDir_dot, h0, h1, h2, zero_div, and_self]

/-- `n · (o - p) + n · (c - o) = n · (c - p)` -/
theorem Vec3.dot_sub_add_sub (n o c p : Vec3 ℝ) :
    Vec3.dot n (o - p) + Vec3.dot n (c - o) = Vec3.dot n (c - p) := by
  mat3_simp; ring

/-- the Gram determinant of the edge vectors used by `baryUV` is `‖cross‖²` of the model's normal -/
theorem gram_eq_normSq_triangleCross (p0 p1 p2 : Vec3 ℝ) :
    Vec3.dot (p2 - p0) (p2 - p0) * Vec3.dot (p1 - p0) (p1 - p0)
      - Vec3.dot (p2 - p0) (p1 - p0) * Vec3.dot (p2 - p0) (p1 - p0)
      = Vec3.normSq (triangleCross p0 p1 p2) := by
  geo_simp; ring

/-- Cramer's rule for the 2×2 Gram system -/
theorem bary_cramer (v0 v1 : Vec3 ℝ) (s t : ℝ)
    (hG : Vec3.dot v0 v0 * Vec3.dot v1 v1 - Vec3.dot v0 v1 * Vec3.dot v0 v1 ≠ 0) :
    (Vec3.dot v1 v1 * Vec3.dot v0 (Vec3.smul s v0 + Vec3.smul t v1)
        - Vec3.dot v0 v1 * Vec3.dot v1 (Vec3.smul s v0 + Vec3.smul t v1))
      * (1 / (Vec3.dot v0 v0 * Vec3.dot v1 v1 - Vec3.dot v0 v1 * Vec3.dot v0 v1)) = s ∧
    (Vec3.dot v0 v0 * Vec3.dot v1 (Vec3.smul s v0 + Vec3.smul t v1)
        - Vec3.dot v0 v1 * Vec3.dot v0 (Vec3.smul s v0 + Vec3.smul t v1))
      * (1 / (Vec3.dot v0 v0 * Vec3.dot v1 v1 - Vec3.dot v0 v1 * Vec3.dot v0 v1)) = t := by
  have e1 : Vec3.dot v1 v1 * Vec3.dot v0 (Vec3.smul s v0 + Vec3.smul t v1)
        - Vec3.dot v0 v1 * Vec3.dot v1 (Vec3.smul s v0 + Vec3.smul t v1)
      = s * (Vec3.dot v0 v0 * Vec3.dot v1 v1 - Vec3.dot v0 v1 * Vec3.dot v0 v1) := by
    mat3_simp; ring
  have e2 : Vec3.dot v0 v0 * Vec3.dot v1 (Vec3.smul s v0 + Vec3.smul t v1)
        - Vec3.dot v0 v1 * Vec3.dot v0 (Vec3.smul s v0 + Vec3.smul t v1)
      = t * (Vec3.dot v0 v0 * Vec3.dot v1 v1 - Vec3.dot v0 v1 * Vec3.dot v0 v1) := by
    mat3_simp; ring
  rw [e1, e2]
  constructor <;> rw [mul_one_div, mul_div_cancel_right₀ _ hG]

theorem baryUV_of_combination (p0 p1 p2 : Vec3 ℝ) (hnd : triangleCross p0 p1 p2 ≠ ⟨0, 0, 0⟩) (s t : ℝ) :
    baryUV (p0 + Vec3.smul s (p2 - p0) + Vec3.smul t (p1 - p0)) p0 p1 p2 = (s, t) := by
  have hG : Vec3.dot (p2 - p0) (p2 - p0) * Vec3.dot (p1 - p0) (p1 - p0)
      - Vec3.dot (p2 - p0) (p1 - p0) * Vec3.dot (p2 - p0) (p1 - p0) ≠ 0 := by
    rw [gram_eq_normSq_triangleCross]; exact Vec3.normSq_ne_zero hnd
  have hv2 : p0 + Vec3.smul s (p2 - p0) + Vec3.smul t (p1 - p0) - p0
      = Vec3.smul s (p2 - p0) + Vec3.smul t (p1 - p0) := by
    apply Vec3.ext' <;> mat3_simp <;> ring
  obtain ⟨h1, h2⟩ := bary_cramer (p2 - p0) (p1 - p0) s t hG
  simp only [baryUV, hv2, h1, h2]

/-! ### reflection -/

theorem reflectDir_eq (eps : ℝ) (d n : Vec3 ℝ) :
    reflectDir eps d n = d - Vec3.smul (2 * (Vec3.dot d n / (Vec3.normSq n + eps))) n := by
  simp only [reflectDir, num_two, Vec3.normSq]

theorem reflectDir_zero (d n : Vec3 ℝ) :
    reflectDir 0 d n = d - Vec3.smul (2 * (Vec3.dot d n / Vec3.normSq n)) n := by
  rw [reflectDir_eq, add_zero]

/-! ### refraction -/

theorem normSq_refractDir (mu tau : ℝ) (d n : Vec3 ℝ) :
    Vec3.normSq (refractDir mu tau d n)
      = mu * mu * Vec3.normSq d + 2 * mu * tau * Vec3.dot d n + tau * tau * Vec3.normSq n := by
  geo_simp; ring

theorem dot_refractDir (mu tau : ℝ) (d n : Vec3 ℝ) :
    Vec3.dot (refractDir mu tau d n) n = mu * Vec3.dot d n + tau * Vec3.normSq n := by
  geo_simp; ring

/-- Newton's iteration for `s² = D` in the shifted variable `s = t + a` -/
noncomputable def newtonStep (D s : ℝ) : ℝ := s - (s ^ 2 - D) / (2 * s)

/-- the Newton iterates of the refraction loop, `t₀ = -b/(2a)` -/
noncomputable def refrIter (a b : ℝ) (k : Nat) : ℝ := (refrStep a b)^[k] (refrStart a b)

theorem refrIter_zero (a b : ℝ) : refrIter a b 0 = refrStart a b := rfl
theorem refrIter_succ (a b : ℝ) (k : Nat) : refrIter a b (k + 1) = refrStep a b (refrIter a b k) := by
  simp only [refrIter, Function.iterate_succ_apply']

theorem newtonStep_eq {D s : ℝ} (hs : s ≠ 0) : newtonStep D s = (s ^ 2 + D) / (2 * s) := by
  unfold newtonStep; field_simp; ring

theorem newtonStep_sub (D s : ℝ) : newtonStep D s - s = -(s ^ 2 - D) / (2 * s) := by
  unfold newtonStep; ring

theorem newtonStep_residual {D s : ℝ} (hs : s ≠ 0) : (newtonStep D s) ^ 2 - D = (newtonStep D s - s) ^ 2 := by
  unfold newtonStep; field_simp; ring

theorem newtonStep_neg (D s : ℝ) : newtonStep D (-s) = -newtonStep D s := by
  unfold newtonStep
  rw [show (-s) ^ 2 = s ^ 2 by ring, show 2 * -s = -(2 * s) by ring, div_neg]; ring

theorem refrStep_add (a b t : ℝ) : refrStep a b t + a = newtonStep (a ^ 2 - b) (t + a) := by
  simp only [refrStep, newtonStep, num_sq, num_two]
  rw [show t * t + 2 * a * t + b = (t + a) ^ 2 - (a ^ 2 - b) by ring]; ring

theorem refrStep_sub (a b t : ℝ) :
    refrStep a b t - t = newtonStep (a ^ 2 - b) (t + a) - (t + a) := by
  rw [← refrStep_add]; ring

theorem refrStart_add {a : ℝ} (b : ℝ) (ha : a ≠ 0) : refrStart a b + a = newtonStep (a ^ 2 - b) a := by
  simp only [refrStart, newtonStep, num_half]; field_simp; ring

/-- one Newton step keeps the sign, stays away from zero and lands on or above `√D` -/
theorem newtonStep_inv {D s : ℝ} (hD : 0 ≤ D) (hs : s ≠ 0) :
    newtonStep D s ≠ 0 ∧ D ≤ (newtonStep D s) ^ 2 ∧ (0 < s → 0 < newtonStep D s) ∧
      (s < 0 → newtonStep D s < 0) := by
  have hpos : 0 < s ^ 2 + D := by positivity
  refine ⟨?_, ?_, ?_, ?_⟩
  · rw [newtonStep_eq hs]; exact div_ne_zero hpos.ne' (mul_ne_zero two_ne_zero hs)
  · have := newtonStep_residual (D := D) hs
    nlinarith [sq_nonneg (newtonStep D s - s)]
  · intro h; rw [newtonStep_eq hs]; exact div_pos hpos (by linarith)
  · intro h; rw [newtonStep_eq hs]; exact div_neg_of_pos_of_neg hpos (by linarith)

theorem newtonStep_iter_inv {D a : ℝ} (hD : 0 ≤ D) (ha : a ≠ 0) (k : Nat) :
    (newtonStep D)^[k + 1] a ≠ 0 ∧ D ≤ ((newtonStep D)^[k + 1] a) ^ 2 ∧
      (0 < a → 0 < (newtonStep D)^[k + 1] a) ∧ (a < 0 → (newtonStep D)^[k + 1] a < 0) := by
  induction k with
  | zero => simpa using newtonStep_inv hD ha
  | succ k ih =>
    rw [Function.iterate_succ_apply']
    obtain ⟨h0, _, hp, hn⟩ := ih
    obtain ⟨g0, g1, gp, gn⟩ := newtonStep_inv hD h0
    exact ⟨g0, g1, fun h => gp (hp h), fun h => gn (hn h)⟩

theorem refrIter_add {a : ℝ} (b : ℝ) (ha : a ≠ 0) (k : Nat) :
    refrIter a b k + a = (newtonStep (a ^ 2 - b))^[k + 1] a := by
  induction k with
  | zero => rw [refrIter_zero]; simpa using refrStart_add b ha
  | succ k ih => rw [refrIter_succ, refrStep_add, ih, ← Function.iterate_succ_apply' (newtonStep (a ^ 2 - b))]

/-- on the positive branch (`0 ≤ D`) each Newton step is at most half as long as the previous one -/
theorem newtonStep_halves_pos {D s : ℝ} (hD : 0 ≤ D) (hs : 0 < s) :
    |newtonStep D (newtonStep D s) - newtonStep D s| ≤ |newtonStep D s - s| / 2 := by
  obtain ⟨_, _, hp, _⟩ := newtonStep_inv hD hs.ne'
  have hs' := hp hs
  have hmul : newtonStep D s * (2 * s) = s ^ 2 + D := by
    rw [newtonStep_eq hs.ne']; field_simp
  have habs : |newtonStep D s - s| ≤ newtonStep D s := by
    rw [abs_le]; constructor
    · have : s * s ≤ 2 * newtonStep D s * s := by nlinarith
      have := le_of_mul_le_mul_right this hs
      linarith
    · linarith
  have hδ' : newtonStep D (newtonStep D s) - newtonStep D s
      = -((newtonStep D s - s) ^ 2) / (2 * newtonStep D s) := by
    rw [newtonStep_sub, newtonStep_residual hs.ne']
  rw [hδ', abs_div, abs_neg, abs_of_nonneg (sq_nonneg _), abs_of_pos (by linarith : 0 < 2 * newtonStep D s),
    div_le_iff₀ (by linarith), ← sq_abs]
  nlinarith [mul_nonneg (abs_nonneg (newtonStep D s - s)) (sub_nonneg.mpr habs)]

theorem newtonStep_halves {D s : ℝ} (hD : 0 ≤ D) (hs : s ≠ 0) :
    |newtonStep D (newtonStep D s) - newtonStep D s| ≤ |newtonStep D s - s| / 2 := by
  rcases lt_or_gt_of_ne hs with hneg | hpos
  · have h := newtonStep_halves_pos (s := -s) hD (by linarith)
    rw [newtonStep_neg, newtonStep_neg] at h
    rw [show -newtonStep D (newtonStep D s) - -newtonStep D s
          = -(newtonStep D (newtonStep D s) - newtonStep D s) by ring,
      show -newtonStep D s - -s = -(newtonStep D s - s) by ring, abs_neg, abs_neg] at h
    exact h
  · exact newtonStep_halves_pos hD hpos

theorem refrIter_step_halves {a b : ℝ} (hD : 0 ≤ a ^ 2 - b) (ha : a ≠ 0) (k : Nat) :
    |refrIter a b (k + 2) - refrIter a b (k + 1)| ≤ |refrIter a b (k + 1) - refrIter a b k| / 2 := by
  obtain ⟨h0, _, _, _⟩ := newtonStep_iter_inv hD ha k
  rw [← refrIter_add b ha k] at h0
  have h := newtonStep_halves hD h0
  rw [refrIter_succ a b (k + 1), refrStep_sub, refrIter_succ a b k, refrStep_sub, refrStep_add]
  exact h

theorem refrIter_step_bound {a b : ℝ} (hD : 0 ≤ a ^ 2 - b) (ha : a ≠ 0) (k : Nat) :
    |refrIter a b (k + 1) - refrIter a b k| ≤ |refrIter a b 1 - refrIter a b 0| / 2 ^ k := by
  induction k with
  | zero => simp
  | succ k ih =>
    refine (refrIter_step_halves hD ha k).trans ?_
    rw [pow_succ, ← div_div]
    exact div_le_div_of_nonneg_right ih (by norm_num)

/-! ### the fuelled loop -/

theorem refrLoop_done (a b err : ℝ) (fuel it : Nat) (t eps : ℝ) (h : ¬ err < eps) :
    refrLoop a b err fuel it t eps = .ok t it := by
  cases fuel <;> simp only [refrLoop, if_neg h]

/-- if the `(m+1)`-st step is short enough and there is fuel for `m+1` steps, the loop exits normally
    at the first short step, returning that iterate and the number of steps -/
theorem refrLoop_ok (a b err : ℝ) : ∀ (m fuel it : Nat) (t eps : ℝ), m + 1 ≤ fuel →
    |(refrStep a b)^[m] t - (refrStep a b)^[m + 1] t| ≤ err → err < eps →
    ∃ j, j ≤ m ∧ |(refrStep a b)^[j] t - (refrStep a b)^[j + 1] t| ≤ err ∧
      refrLoop a b err fuel it t eps = .ok ((refrStep a b)^[j + 1] t) (it + j + 1) := by
  intro m
  induction m with
  | zero =>
    intro fuel it t eps hf hm he
    obtain ⟨k, rfl⟩ : ∃ k, fuel = k + 1 := ⟨fuel - 1, by omega⟩
    refine ⟨0, le_refl _, hm, ?_⟩
    simp only [Function.iterate_zero, Function.iterate_succ, Function.comp, id] at hm ⊢
    rw [refrLoop, if_pos he]
    simp only [num_abs]
    exact refrLoop_done a b err k (it + 1) _ _ (not_lt.mpr hm)
  | succ m ih =>
    intro fuel it t eps hf hm he
    obtain ⟨k, rfl⟩ : ∃ k, fuel = k + 1 := ⟨fuel - 1, by omega⟩
    by_cases h0 : |t - refrStep a b t| ≤ err
    · refine ⟨0, Nat.zero_le _, by simpa using h0, ?_⟩
      simp only [Function.iterate_zero, Function.iterate_succ, Function.comp, id]
      rw [refrLoop, if_pos he]
      simp only [num_abs]
      exact refrLoop_done a b err k (it + 1) _ _ (not_lt.mpr h0)
    · obtain ⟨j, hj, hjs, hres⟩ := ih k (it + 1) (refrStep a b t) |t - refrStep a b t| (by omega)
        (by simpa only [Function.iterate_succ_apply] using hm) (not_le.mp h0)
      refine ⟨j + 1, by omega, by simpa only [Function.iterate_succ_apply] using hjs, ?_⟩
      rw [refrLoop, if_pos he]
      simp only [num_abs]
      rw [hres, Function.iterate_succ_apply (refrStep a b) (j + 1) t]
      congr 1; omega

/-! ### counter-capped loops -/

/-- `while not done(s): if counter > limit: give up; s = body(s); counter += 1`.
    Returns the final state (or `none` when the cap was hit) and the number of body executions. -/
def cappedLoop {σ : Type} (limit : Nat) (body : σ → σ) (done : σ → Bool) (counter : Nat) (s : σ) :
    Option σ × Nat :=
  if done s then (some s, 0)
  else if limit < counter then (none, 0)
  else
    let r := cappedLoop limit body done (counter + 1) (body s)
    (r.1, r.2 + 1)
termination_by limit + 1 - counter
decreasing_by omega

end Odak
