import OdakProofs.Lemmas.Losses
import OdakModel.LossPrelude
import OdakModel.LossesMore
import Mathlib.Analysis.SpecialFunctions.Exp
import OdakModel.Generated.LossesGen

/-!
  # Tie theorems: the loss formulas REGENERATED from the Python source are the hand-written model

  `OdakModel/Generated/LossesGen.lean` is rewritten on every run by `harness/translate/losses.py` from the current
  `odak/learn/tools/loss.py`, `odak/learn/wave/loss.py` and `odak/learn/perception/image_quality_losses.py`.  Every `gen_…` theorem
  says that a regenerated definition EQUALS the definition of `OdakModel/Losses.lean` the property theorems of `Props/C17.lean`
  are about.  The same slice subtracted twice, a dropped `sin`/`cos`, a mask applied to one argument only, exchanged weights or
  another reduction in the source changes the generated text and one of these equalities stops compiling.
-/
set_option linter.unreachableTactic false
set_option linter.unusedTactic false
set_option linter.unusedVariables false

namespace Odak
open Odak.Gen

/-! ### list algebra -/

theorem zipWith_tail_dropLast {β γ : Type} (f : β → β → γ) :
    ∀ l : List β, List.zipWith f l.tail l.dropLast = List.zipWith (fun a b => f b a) l l.tail
  | [] => rfl
  | [_] => rfl
  | x :: y :: ys => by
    have ih := zipWith_tail_dropLast f (y :: ys)
    simp only [List.tail_cons] at ih ⊢
    rw [List.dropLast_cons₂, List.zipWith_cons_cons, List.zipWith_cons_cons, ih]

theorem zipWith_map_map_same {β γ δ ε : Type} (f : γ → δ → ε) (g : β → γ) (h : β → δ) (l : List β) :
    List.zipWith f (l.map g) (l.map h) = l.map fun x => f (g x) (h x) := by
  induction l with
  | nil => rfl
  | cons x xs ih => simp [ih]

theorem sumL_singleton (x : ℝ) : sumL [x] = x := by simp [sumL_cons]

/-! ### `multiplane_loss.__call__` -/

/-- the regenerated weighted sum is the model's `multiplaneLoss`: weight 0 on `MSE(image, target)`, weight 1 on the term whose BOTH
    arguments are multiplied by the mask, weight 2 on `MSE(image · target, target · target)` -/
theorem gen_multiplaneLossG_eq (w0 w1 w2 : ℝ) (image target mask : List ℝ) :
    multiplaneLossG w0 w1 w2 image target mask = multiplaneLoss w0 w1 w2 image target mask := rfl

/-! ### `wrapped_mean_squared_error` -/

/-- the summand of the wrapped error of two phases -/
noncomputable def wrappedTerm (x y : ℝ) : ℝ := Num.sq (Num.sin x - Num.sin y) + Num.sq (Num.cos x - Num.cos y)

theorem wrapped_terms_eq : ∀ a b : List ℝ,
    Tn.zip1 (fun a b => a + b)
      (Tn.map1 Num.sq (Tn.zip1 (fun a b => a - b) (Tn.map1 Num.sin a) (Tn.map1 Num.sin b)))
      (Tn.map1 Num.sq (Tn.zip1 (fun a b => a - b) (Tn.map1 Num.cos a) (Tn.map1 Num.cos b))) = List.zipWith wrappedTerm a b
  | [], _ => by simp [Tn.zip1, Tn.map1]
  | _ :: _, [] => by simp [Tn.zip1, Tn.map1]
  | x :: xs, y :: ys => by
    have ih := wrapped_terms_eq xs ys
    simp only [Tn.zip1, Tn.map1, List.map_cons, List.zipWith_cons_cons] at ih ⊢
    rw [ih]; rfl

/-- reduction `'mean'`: the model's `wrappedMse` (tensors of equal length; the generated mean divides by the number of summands) -/
theorem gen_wrappedMseMeanG_eq (a b : List ℝ) (h : a.length ≤ b.length) : wrappedMseMeanG a b = wrappedMse a b := by
  simp only [wrappedMseMeanG, wrapped_terms_eq, Tn.mean1, Tn.sum1, Tn.numel1, List.length_zipWith, Nat.min_eq_left h]
  rfl

/-- reduction `'sum'`: the same summands, not divided -/
theorem gen_wrappedMseSumG_eq (a b : List ℝ) : wrappedMseSumG a b = sumL (List.zipWith wrappedTerm a b) := by
  simp only [wrappedMseSumG, wrapped_terms_eq, Tn.sum1]

theorem wrappedMse_eq_sum_div (a b : List ℝ) : wrappedMse a b = sumL (List.zipWith wrappedTerm a b) / (a.length : ℝ) := rfl

/-! ### `total_variation_loss` -/

theorem row_sqdiff (r : List ℝ) :
    Tn.map1 Num.sq (Tn.zip1 (fun a b => a - b) r.tail r.dropLast) = List.zipWith (fun a b => Num.sq (b - a)) r r.tail := by
  simp only [Tn.map1, Tn.zip1, zipWith_tail_dropLast, List.map_zipWith]

theorem rows_sqdiff : ∀ r s : List ℝ,
    Tn.map1 Num.sq (Tn.zip1 (fun a b => a - b) s r) = List.zipWith (fun a b => Num.sq (b - a)) r s
  | [], s => by simp [Tn.map1, Tn.zip1]
  | _ :: _, [] => by simp [Tn.map1, Tn.zip1]
  | x :: xs, y :: ys => by
    have ih := rows_sqdiff xs ys
    simp only [Tn.map1, Tn.zip1, List.zipWith_cons_cons, List.map_cons] at ih ⊢
    rw [ih]

/-- the regenerated total variation of a single frame (given as its list of rows) is the model's `tvLoss`: squared differences of
    horizontally adjacent samples plus squared differences of vertically adjacent samples, over the number of pixels -/
theorem gen_totalVariationLossG_eq (rows : List (List ℝ)) : totalVariationLossG rows = tvLoss rows := by
  have hx : Tn.sum4 (Tn.map4 Num.sq (Tn.zip4 (fun a b => a - b) (Tn.at3 List.tail [[rows]]) (Tn.at3 List.dropLast [[rows]])))
      = sumL (rows.map fun r => sumL (List.zipWith (fun a b => Num.sq (b - a)) r r.tail)) := by
    simp only [Tn.at3, Tn.at2, Tn.at1, Tn.zip4, Tn.zip3, Tn.zip2, Tn.map4, Tn.map3, Tn.map2, Tn.sum4, Tn.sum3, Tn.sum2, Tn.sum1,
      List.map_cons, List.map_nil, List.zipWith_cons_cons, List.zipWith_nil_right, sumL_singleton, zipWith_map_map_same,
      List.map_map]
    congr 1
    apply List.map_congr_left
    intro r _
    exact congrArg sumL (row_sqdiff r)
  have hy : Tn.sum4 (Tn.map4 Num.sq (Tn.zip4 (fun a b => a - b) (Tn.at2 List.tail [[rows]]) (Tn.at2 List.dropLast [[rows]])))
      = sumL (List.zipWith (fun r s => sumL (List.zipWith (fun a b => Num.sq (b - a)) r s)) rows rows.tail) := by
    simp only [Tn.at2, Tn.at1, Tn.zip4, Tn.zip3, Tn.zip2, Tn.map4, Tn.map3, Tn.map2, Tn.sum4, Tn.sum3, Tn.sum2, Tn.sum1,
      List.map_cons, List.map_nil, List.zipWith_cons_cons, List.zipWith_nil_right, sumL_singleton, zipWith_tail_dropLast,
      List.map_zipWith]
    congr 1
    have : ∀ l l' : List (List ℝ), List.zipWith (fun a b => sumL (List.map Num.sq (Tn.zip1 (fun a b => a - b) b a))) l l'
        = List.zipWith (fun r s => sumL (List.zipWith (fun a b => Num.sq (b - a)) r s)) l l' := by
      intro l l'
      congr 1
      funext r s
      exact congrArg sumL (rows_sqdiff r s)
    exact this _ _
  simp only [totalVariationLossG, tvLoss, hx, hy, Tn.dim2, Tn.dim3, List.headD_cons, Nat.one_mul, Nat.mul_one]

/-! ### `PSNR.forward` -/

/-- the regenerated PSNR is the model's `psnr` of the mean squared error `mse targets predictions` (tensors of equal length) -/
theorem gen_psnrG_eq (p t : List ℝ) (peak : ℝ) (h : t.length ≤ p.length) : psnrG p t peak = psnr peak (mse t p) := by
  simp only [psnrG, psnr, mse, Num.log10, Tn.mean1, Tn.sum1, Tn.numel1, Tn.map1, Tn.zip1, List.map_zipWith, List.length_zipWith,
    Nat.min_eq_left h]

/-! ### `histogram_loss`, `speckle_contrast`, `phase_gradient` -/

/-- the regenerated histogram loss is the model's `histogramLoss` (= `mse`) of the two per-channel `histc` tables -/
theorem gen_histogramLossG_eq (f g : T4 ℝ) (bins : Nat) (lo hi : ℝ) :
    histogramLossG f g bins lo hi =
      histogramLoss (Tn.flat2 (histogramTableG f bins lo hi)) (Tn.flat2 (histogramTableG g bins lo hi)) := rfl

/-- the regenerated per-window speckle contrast is the model's `speckleWindow`: `sqrt(m2 - mu²) / mu` -/
theorem gen_speckleWindowG_eq (mu m2 : ℝ) : speckleWindowG mu m2 = speckleWindow mu m2 := rfl

/-- the loss of the two regularisers is the `mse` of the per-position values against zeros -/
theorem gen_speckleLossG_eq (c : List ℝ) : speckleLossG c = mse c (c.map fun _ => 0) := by
  simp only [speckleLossG, Tn.map1, num_ofNat, Nat.cast_zero]

theorem gen_phaseGradientLossG_eq (e : List ℝ) : phaseGradientLossG e = mse e (e.map fun _ => 0) := by
  simp only [phaseGradientLossG, Tn.map1, num_ofNat, Nat.cast_zero]

/-- `mse` against zeros vanishes exactly when every value is zero (non-empty list) -/
theorem mse_zeros_eq_zero_of_all_zero (c : List ℝ) (h : ∀ x ∈ c, x = 0) : mse c (c.map fun _ => 0) = 0 := by
  unfold mse
  rw [sumL_eq_zero]
  · exact zero_div _
  · intro z hz
    obtain ⟨x, hx, y, hy, rfl⟩ := exists_of_mem_zipWith _ _ _ z hz
    obtain ⟨_, _, rfl⟩ := List.mem_map.1 hy
    rw [h x hx]; simp [num_sq]

/-- the default kernel of `phase_gradient` is the Laplacian `[[-1, -1, -1], [-1, 8, -1], [-1, -1, -1]] / 8`; it sums to zero, so the
    response to a uniform window vanishes -/
theorem gen_phaseGradientKernelG_eq :
    (phaseGradientKernelG : T2 ℝ) = [[-1 / 8, -1 / 8, -1 / 8], [-1 / 8, 1, -1 / 8], [-1 / 8, -1 / 8, -1 / 8]] := by
  simp only [phaseGradientKernelG, num_ofNat]
  norm_num

theorem gen_phaseGradientWindowG_uniform (v : ℝ) : phaseGradientWindowG [[v, v, v], [v, v, v], [v, v, v]] = 0 := by
  simp only [phaseGradientWindowG, gen_phaseGradientKernelG_eq, Tn.sum2, Tn.sum1, Tn.zip2, Tn.zip1, List.zipWith_cons_cons,
    List.zipWith_nil_right, List.map_cons, List.map_nil, sumL_cons, sumL_nil]
  ring

/-! ### the helpers modelled in `OdakModel/LossesMore.lean` -/

/-- regenerated `radial_basis_function` is the Gaussian `exp(-(ε x)²)` -/
theorem gen_radialBasisG_eq (value epsilon : ℝ) : radialBasisG value epsilon = radialBasis value epsilon := rfl

/-- … which lies in `(0, 1]` and equals 1 at 0 -/
theorem radialBasis_range (value epsilon : ℝ) :
    0 < radialBasis value epsilon ∧ radialBasis value epsilon ≤ 1 ∧ radialBasis 0 epsilon = 1 := by
  simp only [radialBasis, num_exp, num_sq]
  refine ⟨Real.exp_pos _, ?_, by simp⟩
  rw [← Real.exp_zero]
  exact Real.exp_le_exp.2 (by nlinarith [mul_self_nonneg (epsilon * value)])

/-- regenerated `weber_contrast` / `michelson_contrast` of a single image: one value, the model's `weber` / `michelson` of the
    means of the two regions (rows `r[0] … r[1]`, columns `r[2] … r[3]`) -/
theorem gen_weberContrastG_eq (img : T2 ℝ) (h0 h1 h2 h3 l0 l1 l2 l3 : Nat) :
    weberContrastG img h0 h1 h2 h3 l0 l1 l2 l3 = [weber (regionMean img h0 h1 h2 h3) (regionMean img l0 l1 l2 l3)] := by
  simp [weberContrastG, weber, regionMean, Tn.at3, Tn.at2, Tn.at1, Tn.meanLast2, Tn.zip2, Tn.zip1]

theorem gen_michelsonContrastG_eq (img : T2 ℝ) (h0 h1 h2 h3 l0 l1 l2 l3 : Nat) :
    michelsonContrastG img h0 h1 h2 h3 l0 l1 l2 l3 =
      [michelson (regionMean img h0 h1 h2 h3) (regionMean img l0 l1 l2 l3)] := by
  simp [michelsonContrastG, michelson, regionMean, Tn.at3, Tn.at2, Tn.at1, Tn.meanLast2, Tn.zip2, Tn.zip1]

/-- both contrasts vanish when the two regions have the same mean (uniform image) and are non-negative when the bright region
    is at least as bright as the (positive) dark one -/
theorem contrast_zero_nonneg (v high low : ℝ) (hl : 0 < low) (hh : low ≤ high) :
    weber v v = 0 ∧ michelson v v = 0 ∧ 0 ≤ weber high low ∧ 0 ≤ michelson high low := by
  simp only [weber, michelson, sub_self, zero_div, true_and]
  exact ⟨div_nonneg (by linarith) hl.le, div_nonneg (by linarith) (by linarith)⟩

/-! #### batched total variation -/

theorem tvLoss_eq_dx_dy (rows : T2 ℝ) :
    tvLoss rows = (tvDx rows + tvDy rows) / ((rows.length * (rows.headD []).length : Nat) : ℝ) := rfl

theorem dx_rows (rows : T2 ℝ) :
    Tn.sum2 (Tn.map2 Num.sq (Tn.zip2 (fun a b => a - b) (Tn.at1 List.tail rows) (Tn.at1 List.dropLast rows))) = tvDx rows := by
  simp only [Tn.at1, Tn.zip2, Tn.map2, Tn.sum2, Tn.sum1, zipWith_map_map_same, List.map_map, tvDx]
  congr 1
  apply List.map_congr_left
  intro r _
  exact congrArg sumL (row_sqdiff r)

theorem dy_rows (rows : T2 ℝ) :
    Tn.sum2 (Tn.map2 Num.sq (Tn.zip2 (fun a b => a - b) rows.tail rows.dropLast)) = tvDy rows := by
  simp only [Tn.zip2, Tn.map2, Tn.sum2, Tn.sum1, zipWith_tail_dropLast, List.map_zipWith, tvDy]
  congr 1
  have : ∀ l l' : List (List ℝ), List.zipWith (fun a b => sumL (Tn.map1 Num.sq (Tn.zip1 (fun a b => a - b) b a))) l l'
      = List.zipWith (fun r s => sumL (List.zipWith (fun a b => Num.sq (b - a)) r s)) l l' := by
    intro l l'
    congr 1
    funext r s
    exact congrArg sumL (rows_sqdiff r s)
  exact this _ _

theorem dx_img (img : T3 ℝ) :
    Tn.sum3 (Tn.map3 Num.sq (Tn.zip3 (fun a b => a - b) (Tn.at2 List.tail img) (Tn.at2 List.dropLast img)))
      = sumL (img.map tvDx) := by
  simp only [Tn.at2, Tn.zip3, Tn.map3, Tn.sum3, zipWith_map_map_same, List.map_map]
  congr 1
  apply List.map_congr_left
  intro rows _
  exact dx_rows rows

theorem dy_img (img : T3 ℝ) :
    Tn.sum3 (Tn.map3 Num.sq (Tn.zip3 (fun a b => a - b) (Tn.at1 List.tail img) (Tn.at1 List.dropLast img)))
      = sumL (img.map tvDy) := by
  simp only [Tn.at1, Tn.zip3, Tn.map3, Tn.sum3, zipWith_map_map_same, List.map_map]
  congr 1
  apply List.map_congr_left
  intro rows _
  exact dy_rows rows

/-- regenerated `total_variation_loss` of a `[N, C, H, W]` frame is the model's `tvLoss4` -/
theorem gen_totalVariationLoss4G_eq (frame : T4 ℝ) : totalVariationLoss4G frame = tvLoss4 frame := by
  have hx : Tn.sum4 (Tn.map4 Num.sq (Tn.zip4 (fun a b => a - b) (Tn.at3 List.tail frame) (Tn.at3 List.dropLast frame)))
      = sumL (frame.map fun img => sumL (img.map tvDx)) := by
    simp only [Tn.at3, Tn.zip4, Tn.map4, Tn.sum4, zipWith_map_map_same, List.map_map]
    congr 1
    apply List.map_congr_left
    intro img _
    exact dx_img img
  have hy : Tn.sum4 (Tn.map4 Num.sq (Tn.zip4 (fun a b => a - b) (Tn.at2 List.tail frame) (Tn.at2 List.dropLast frame)))
      = sumL (frame.map fun img => sumL (img.map tvDy)) := by
    simp only [Tn.at2, Tn.zip4, Tn.map4, Tn.sum4, zipWith_map_map_same, List.map_map]
    congr 1
    apply List.map_congr_left
    intro img _
    exact dy_img img
  simp only [totalVariationLoss4G, tvLoss4, hx, hy]

/-- the loop of `multi_scale_total_variation_loss`, after its first pass: every further pass down-samples, then adds -/
theorem multiScale_fold (l : List Nat) : ∀ (loss : ℝ) (level : T4 ℝ), (∀ i ∈ l, i ≠ 0) →
    (l.foldl (fun (st : ℝ × T4 ℝ) (i : Nat) =>
      (st.1 + totalVariationLoss4G (if i ≠ 0 then Tn.down2 st.2 else st.2), if i ≠ 0 then Tn.down2 st.2 else st.2)) (loss, level)).1
      = loss + multiScaleTv (Tn.down2 level) l.length := by
  induction l with
  | nil => intro loss level _; simp [multiScaleTv]
  | cons i is ih =>
    intro loss level h
    have hi : i ≠ 0 := h i (by simp)
    simp only [List.foldl_cons, hi, ne_eq, not_false_eq_true, if_true, List.length_cons, multiScaleTv]
    have := ih (loss + totalVariationLoss4G (Tn.down2 level)) (Tn.down2 level) (fun k hk => h k (by simp [hk]))
    simp only [ne_eq] at this
    rw [this, gen_totalVariationLoss4G_eq]
    ring

/-- regenerated `multi_scale_total_variation_loss` is the model's `multiScaleTv` -/
theorem gen_multiScaleTotalVariationLossG_eq (frame : T4 ℝ) (levels : Nat) :
    multiScaleTotalVariationLossG frame levels = multiScaleTv frame levels := by
  cases levels with
  | zero => simp [multiScaleTotalVariationLossG, multiScaleTv]
  | succ n =>
    simp only [multiScaleTotalVariationLossG, List.range_succ_eq_map, List.foldl_cons, ne_eq, not_true_eq_false, if_false,
      num_ofNat, Nat.cast_zero, zero_add]
    have := multiScale_fold ((List.range n).map Nat.succ) (totalVariationLoss4G frame) frame
      (by intro i hi; obtain ⟨k, _, rfl⟩ := List.mem_map.1 hi; exact Nat.succ_ne_zero k)
    simp only [ne_eq, List.length_map, List.length_range] at this
    rw [this, gen_totalVariationLoss4G_eq, multiScaleTv]

/-! #### properties of the batched / multi-scale total variation -/

theorem tvDx_nonneg (rows : T2 ℝ) : 0 ≤ tvDx rows := by
  apply sumL_nonneg
  intro z hz
  obtain ⟨r, _, rfl⟩ := List.mem_map.1 hz
  exact sumL_zipWith_nonneg _ (fun x y => sq_nonneg' _) _ _

theorem tvDy_nonneg (rows : T2 ℝ) : 0 ≤ tvDy rows :=
  sumL_zipWith_nonneg _ (fun r s => sumL_zipWith_nonneg _ (fun x y => sq_nonneg' _) _ _) _ _

theorem sumL_map_nonneg {β : Type} (f : β → ℝ) (hf : ∀ x, 0 ≤ f x) (l : List β) : 0 ≤ sumL (l.map f) := by
  apply sumL_nonneg
  intro z hz
  obtain ⟨x, _, rfl⟩ := List.mem_map.1 hz
  exact hf x

theorem tvLoss4_nonneg (frame : T4 ℝ) : 0 ≤ tvLoss4 frame := by
  unfold tvLoss4
  exact div_nonneg (add_nonneg (sumL_map_nonneg _ (fun img => sumL_map_nonneg _ tvDx_nonneg img) frame)
    (sumL_map_nonneg _ (fun img => sumL_map_nonneg _ tvDy_nonneg img) frame)) (Nat.cast_nonneg _)

theorem multiScaleTv_nonneg (levels : Nat) : ∀ frame : T4 ℝ, 0 ≤ multiScaleTv frame levels := by
  induction levels with
  | zero => intro _; simp [multiScaleTv]
  | succ n ih => intro frame; exact add_nonneg (tvLoss4_nonneg frame) (ih _)

/-- a uniform `[n, c, h, w]` frame -/
def uniform4 (n c h w : Nat) (v : ℝ) : T4 ℝ := List.replicate n (List.replicate c (List.replicate h (List.replicate w v)))

theorem sqdiff_replicate (p q : Nat) (v : ℝ) :
    sumL (List.zipWith (fun a b : ℝ => Num.sq (b - a)) (List.replicate p v) (List.replicate q v)) = 0 := by
  apply sumL_eq_zero
  intro z hz
  obtain ⟨x, hx, y, hy, rfl⟩ := exists_of_mem_zipWith _ _ _ z hz
  rw [List.eq_of_mem_replicate hx, List.eq_of_mem_replicate hy]; simp [num_sq]

theorem tvDx_uniform (h w : Nat) (v : ℝ) : tvDx (List.replicate h (List.replicate w v)) = 0 := by
  apply sumL_eq_zero
  intro z hz
  obtain ⟨row, hrow, rfl⟩ := List.mem_map.1 hz
  rw [List.eq_of_mem_replicate hrow, List.tail_replicate]; exact sqdiff_replicate _ _ v

theorem tvDy_uniform (h w : Nat) (v : ℝ) : tvDy (List.replicate h (List.replicate w v)) = 0 := by
  apply sumL_eq_zero
  intro z hz
  obtain ⟨x, hx, y, hy, rfl⟩ := exists_of_mem_zipWith _ _ _ z hz
  rw [List.tail_replicate] at hy
  rw [List.eq_of_mem_replicate hx, List.eq_of_mem_replicate hy]; exact sqdiff_replicate _ _ v

theorem tvLoss4_uniform (n c h w : Nat) (v : ℝ) : tvLoss4 (uniform4 n c h w v) = 0 := by
  have hz : ∀ (f : T2 ℝ → ℝ), f (List.replicate h (List.replicate w v)) = 0 →
      sumL ((uniform4 n c h w v).map fun img => sumL (img.map f)) = 0 := by
    intro f hf
    apply sumL_eq_zero
    intro z hz
    obtain ⟨img, himg, rfl⟩ := List.mem_map.1 hz
    rw [List.eq_of_mem_replicate himg]
    apply sumL_eq_zero
    intro y hy
    obtain ⟨rows, hrows, rfl⟩ := List.mem_map.1 hy
    rw [List.eq_of_mem_replicate hrows]; exact hf
  unfold tvLoss4
  rw [hz tvDx (tvDx_uniform h w v), hz tvDy (tvDy_uniform h w v)]
  simp

theorem everyOther_replicate {β : Type} (x : β) : ∀ n : Nat, Tn.everyOther (List.replicate n x) = List.replicate (n / 2) x
  | 0 => rfl
  | 1 => rfl
  | n + 2 => by
    have ih := everyOther_replicate x n
    rw [show n + 2 = (n + 1) + 1 from rfl, List.replicate_succ, List.replicate_succ, Tn.everyOther, ih,
      show (n + 1 + 1) / 2 = n / 2 + 1 by omega, List.replicate_succ]

theorem down2_uniform (n c h w : Nat) (v : ℝ) : Tn.down2 (uniform4 n c h w v) = uniform4 n c (h / 2) (w / 2) v := by
  simp only [Tn.down2, uniform4, Tn.at3, Tn.at2, Tn.at1, List.map_replicate, everyOther_replicate]

theorem multiScaleTv_uniform (levels : Nat) : ∀ (n c h w : Nat) (v : ℝ), multiScaleTv (uniform4 n c h w v) levels = 0 := by
  induction levels with
  | zero => intro n c h w v; rfl
  | succ k ih =>
    intro n c h w v
    rw [multiScaleTv, tvLoss4_uniform, down2_uniform, ih]; simp

end Odak
