import OdakProofs.Lemmas.Losses
import OdakModel.LossPrelude
import OdakModel.Generated.LossesGen

/-!
  # Tie theorems: the loss formulas REGENERATED from the Python source are the hand-written model

  `OdakModel/Generated/LossesGen.lean` is rewritten on every run by `harness/translate/losses.py` from the current
  `odak/learn/tools/loss.py`, `odak/learn/wave/loss.py` and `odak/learn/perception/image_quality_losses.py`.  Every `gen_…` theorem
  says that a regenerated definition EQUALS the definition of `OdakModel/Losses.lean` the property theorems of `Props/C17.lean`
  are about.  The same slice subtracted twice, a dropped `sin`/`cos`, a mask applied to one argument only, exchanged weights or
  another reduction in the source changes the generated text and one of these equalities stops compiling.
-/
set_option linter.unreachableTactic false
set_option linter.unusedTactic false
set_option linter.unusedVariables false

namespace Odak
open Odak.Gen

/-! ### list algebra -/

theorem zipWith_tail_dropLast {β γ : Type} (f : β → β → γ) :
    ∀ l : List β, List.zipWith f l.tail l.dropLast = List.zipWith (fun a b => f b a) l l.tail
  | [] => rfl
  | [_] => rfl
  | x :: y :: ys => by
    have ih := zipWith_tail_dropLast f (y :: ys)
    simp only [List.tail_cons] at ih ⊢
    rw [List.dropLast_cons₂, List.zipWith_cons_cons, List.zipWith_cons_cons, ih]

theorem zipWith_map_map_same {β γ δ ε : Type} (f : γ → δ → ε) (g : β → γ) (h : β → δ) (l : List β) :
    List.zipWith f (l.map g) (l.map h) = l.map fun x => f (g x) (h x) := by
  induction l with
  | nil => rfl
  | cons x xs ih => simp [ih]

theorem sumL_singleton (x : ℝ) : sumL [x] = x := by simp [sumL_cons]

/-! ### `multiplane_loss.__call__` -/

/-- the regenerated weighted sum is the model's `multiplaneLoss`: weight 0 on `MSE(image, target)`, weight 1 on the term whose BOTH
    arguments are multiplied by the mask, weight 2 on `MSE(image · target, target · target)` -/
theorem gen_multiplaneLossG_eq (w0 w1 w2 : ℝ) (image target mask : List ℝ) :
    multiplaneLossG w0 w1 w2 image target mask = multiplaneLoss w0 w1 w2 image target mask := rfl

/-! ### `wrapped_mean_squared_error` -/

/-- the summand of the wrapped error of two phases -/
noncomputable def wrappedTerm (x y : ℝ) : ℝ := Num.sq (Num.sin x - Num.sin y) + Num.sq (Num.cos x - Num.cos y)

theorem wrapped_terms_eq : ∀ a b : List ℝ,
    Tn.zip1 (fun a b => a + b)
      (Tn.map1 Num.sq (Tn.zip1 (fun a b => a - b) (Tn.map1 Num.sin a) (Tn.map1 Num.sin b)))
      (Tn.map1 Num.sq (Tn.zip1 (fun a b => a - b) (Tn.map1 Num.cos a) (Tn.map1 Num.cos b))) = List.zipWith wrappedTerm a b
  | [], _ => by simp [Tn.zip1, Tn.map1]
  | _ :: _, [] => by simp [Tn.zip1, Tn.map1]
  | x :: xs, y :: ys => by
    have ih := wrapped_terms_eq xs ys
    simp only [Tn.zip1, Tn.map1, List.map_cons, List.zipWith_cons_cons] at ih ⊢
    rw [ih]; rfl

/-- reduction `'mean'`: the model's `wrappedMse` (tensors of equal length; the generated mean divides by the number of summands) -/
theorem gen_wrappedMseMeanG_eq (a b : List ℝ) (h : a.length ≤ b.length) : wrappedMseMeanG a b = wrappedMse a b := by
  simp only [wrappedMseMeanG, wrapped_terms_eq, Tn.mean1, Tn.sum1, Tn.numel1, List.length_zipWith, Nat.min_eq_left h]
  rfl

/-- reduction `'sum'`: the same summands, not divided -/
theorem gen_wrappedMseSumG_eq (a b : List ℝ) : wrappedMseSumG a b = sumL (List.zipWith wrappedTerm a b) := by
  simp only [wrappedMseSumG, wrapped_terms_eq, Tn.sum1]

theorem wrappedMse_eq_sum_div (a b : List ℝ) : wrappedMse a b = sumL (List.zipWith wrappedTerm a b) / (a.length : ℝ) := rfl

/-! ### `total_variation_loss` -/

theorem row_sqdiff (r : List ℝ) :
    Tn.map1 Num.sq (Tn.zip1 (fun a b => a - b) r.tail r.dropLast) = List.zipWith (fun a b => Num.sq (b - a)) r r.tail := by
  simp only [Tn.map1, Tn.zip1, zipWith_tail_dropLast, List.map_zipWith]

theorem rows_sqdiff : ∀ r s : List ℝ,
    Tn.map1 Num.sq (Tn.zip1 (fun a b => a - b) s r) = List.zipWith (fun a b => Num.sq (b - a)) r s
  | [], s => by simp [Tn.map1, Tn.zip1]
  | _ :: _, [] => by simp [Tn.map1, Tn.zip1]
  | x :: xs, y :: ys => by
    have ih := rows_sqdiff xs ys
    simp only [Tn.map1, Tn.zip1, List.zipWith_cons_cons, List.map_cons] at ih ⊢
    rw [ih]

/-- the regenerated total variation of a single frame (given as its list of rows) is the model's `tvLoss`: squared differences of
    horizontally adjacent samples plus squared differences of vertically adjacent samples, over the number of pixels -/
theorem gen_totalVariationLossG_eq (rows : List (List ℝ)) : totalVariationLossG rows = tvLoss rows := by
  have hx : Tn.sum4 (Tn.map4 Num.sq (Tn.zip4 (fun a b => a - b) (Tn.at3 List.tail [[rows]]) (Tn.at3 List.dropLast [[rows]])))
      = sumL (rows.map fun r => sumL (List.zipWith (fun a b => Num.sq (b - a)) r r.tail)) := by
    simp only [Tn.at3, Tn.at2, Tn.at1, Tn.zip4, Tn.zip3, Tn.zip2, Tn.map4, Tn.map3, Tn.map2, Tn.sum4, Tn.sum3, Tn.sum2, Tn.sum1,
      List.map_cons, List.map_nil, List.zipWith_cons_cons, List.zipWith_nil_right, sumL_singleton, zipWith_map_map_same,
      List.map_map]
    congr 1
    apply List.map_congr_left
    intro r _
    exact congrArg sumL (row_sqdiff r)
  have hy : Tn.sum4 (Tn.map4 Num.sq (Tn.zip4 (fun a b => a - b) (Tn.at2 List.tail [[rows]]) (Tn.at2 List.dropLast [[rows]])))
      = sumL (List.zipWith (fun r s => sumL (List.zipWith (fun a b => Num.sq (b - a)) r s)) rows rows.tail) := by
    simp only [Tn.at2, Tn.at1, Tn.zip4, Tn.zip3, Tn.zip2, Tn.map4, Tn.map3, Tn.map2, Tn.sum4, Tn.sum3, Tn.sum2, Tn.sum1,
      List.map_cons, List.map_nil, List.zipWith_cons_cons, List.zipWith_nil_right, sumL_singleton, zipWith_tail_dropLast,
      List.map_zipWith]
    congr 1
    have : ∀ l l' : List (List ℝ), List.zipWith (fun a b => sumL (List.map Num.sq (Tn.zip1 (fun a b => a - b) b a))) l l'
        = List.zipWith (fun r s => sumL (List.zipWith (fun a b => Num.sq (b - a)) r s)) l l' := by
      intro l l'
      congr 1
      funext r s
      exact congrArg sumL (rows_sqdiff r s)
    exact this _ _
  simp only [totalVariationLossG, tvLoss, hx, hy, Tn.dim2, Tn.dim3, List.headD_cons, Nat.one_mul, Nat.mul_one]

/-! ### `PSNR.forward` -/

/-- the regenerated PSNR is the model's `psnr` of the mean squared error `mse targets predictions` (tensors of equal length) -/
theorem gen_psnrG_eq (p t : List ℝ) (peak : ℝ) (h : t.length ≤ p.length) : psnrG p t peak = psnr peak (mse t p) := by
  simp only [psnrG, psnr, mse, Num.log10, Tn.mean1, Tn.sum1, Tn.numel1, Tn.map1, Tn.zip1, List.map_zipWith, List.length_zipWith,
    Nat.min_eq_left h]

/-! ### `histogram_loss`, `speckle_contrast`, `phase_gradient` -/

/-- the regenerated histogram loss is the model's `histogramLoss` (= `mse`) of the two per-channel `histc` tables -/
theorem gen_histogramLossG_eq (f g : T4 ℝ) (bins : Nat) (lo hi : ℝ) :
    histogramLossG f g bins lo hi =
      histogramLoss (Tn.flat2 (histogramTableG f bins lo hi)) (Tn.flat2 (histogramTableG g bins lo hi)) := rfl

/-- the regenerated per-window speckle contrast is the model's `speckleWindow`: `sqrt(m2 - mu²) / mu` -/
theorem gen_speckleWindowG_eq (mu m2 : ℝ) : speckleWindowG mu m2 = speckleWindow mu m2 := rfl

/-- the loss of the two regularisers is the `mse` of the per-position values against zeros -/
theorem gen_speckleLossG_eq (c : List ℝ) : speckleLossG c = mse c (c.map fun _ => 0) := by
  simp only [speckleLossG, Tn.map1, num_ofNat, Nat.cast_zero]

theorem gen_phaseGradientLossG_eq (e : List ℝ) : phaseGradientLossG e = mse e (e.map fun _ => 0) := by
  simp only [phaseGradientLossG, Tn.map1, num_ofNat, Nat.cast_zero]

/-- `mse` against zeros vanishes exactly when every value is zero (non-empty list) -/
theorem mse_zeros_eq_zero_of_all_zero (c : List ℝ) (h : ∀ x ∈ c, x = 0) : mse c (c.map fun _ => 0) = 0 := by
  unfold mse
  rw [sumL_eq_zero]
  · exact zero_div _
  · intro z hz
    obtain ⟨x, hx, y, hy, rfl⟩ := exists_of_mem_zipWith _ _ _ z hz
    obtain ⟨_, _, rfl⟩ := List.mem_map.1 hy
    rw [h x hx]; simp [num_sq]

/-- the default kernel of `phase_gradient` is the Laplacian `[[-1, -1, -1], [-1, 8, -1], [-1, -1, -1]] / 8`; it sums to zero, so the
    response to a uniform window vanishes -/
theorem gen_phaseGradientKernelG_eq :
    (phaseGradientKernelG : T2 ℝ) = [[-1 / 8, -1 / 8, -1 / 8], [-1 / 8, 1, -1 / 8], [-1 / 8, -1 / 8, -1 / 8]] := by
  simp only [phaseGradientKernelG, num_ofNat]
  norm_num

theorem gen_phaseGradientWindowG_uniform (v : ℝ) : phaseGradientWindowG [[v, v, v], [v, v, v], [v, v, v]] = 0 := by
  simp only [phaseGradientWindowG, gen_phaseGradientKernelG_eq, Tn.sum2, Tn.sum1, Tn.zip2, Tn.zip1, List.zipWith_cons_cons,
    List.zipWith_nil_right, List.map_cons, List.map_nil, sumL_cons, sumL_nil]
  ring

end Odak
