import OdakProofs.RealInst
import OdakProofs.Lemmas.Foveation
import OdakProofs.Lemmas.Pyramid
import OdakModel.FoveationMaps
import OdakModel.Generated.FoveationGen
import Mathlib.Analysis.SpecialFunctions.Trigonometric.Inverse
import Mathlib.Tactic.Ring
import Mathlib.Tactic.Linarith
import Mathlib.Tactic.NormNum
import Mathlib.Tactic.Positivity

/-!
  # Tie theorems: the foveation maps, the blur's level selection and the pyramid padding REGENERATED from the Python source
  are the hand-written model

  `OdakModel/Generated/FoveationGen.lean` is rewritten on every run by `harness/translate/foveation.py` from the current
  `odak/learn/perception/{foveation,radially_varying_blur,spatial_steerable_pyramid}.py`.  Every `gen_…` theorem below says that a
  regenerated definition EQUALS the definition of `OdakModel/Foveation.lean`, `OdakModel/Index.lean` or
  `OdakModel/FoveationMaps.lean` that the property theorems of `Props/C18.lean` are about.  A dropped clamp, an exchanged pad
  entry, another constant, `floor` for `fmod`, `<` for `<=` in a level mask changes the generated text and one of these
  equalities stops compiling.
-/
set_option linter.unreachableTactic false
set_option linter.unusedTactic false
set_option linter.unusedVariables false

namespace Odak
open Odak.Gen Odak.Index

/-! ## `pad_image_for_pyramid` -/

/-- smallest multiple of `D` that is at least `H` (`math.ceil(H / D) * D`), hand-written -/
def ceilMul (H D : Int) : Int := -(-H / D) * D

/-- the early-return test is the model's `pyrNeedsPad` -/
theorem gen_pyrNeedsPadG_eq (H W D : Int) : pyrNeedsPadG H W D = pyrNeedsPad H W D := rfl

/-- … and, spelled out: pad iff one of the sides is not yet the required multiple -/
theorem gen_pyrNeedsPadG_spec (H W D : Int) : pyrNeedsPadG H W D = decide (ceilMul H D > H ∨ ceilMul W D > W) := rfl

/-- the pad call is a REFLECTION pad -/
theorem gen_pyrPadModeG_eq : pyrPadModeG = PadMode.reflect := rfl

/-- which entry of the pad tuple pads which axis: nothing before the first row / column, the missing rows after the last ROW
    (height axis), the missing columns after the last COLUMN (width axis) -/
theorem gen_pyrPadWidths_spec (H W D : Int) :
    pyrTopG H W D = 0 ∧ pyrBottomG H W D = ceilMul H D - H ∧ pyrLeftG H W D = 0 ∧ pyrRightG H W D = ceilMul W D - W :=
  ⟨rfl, rfl, rfl, rfl⟩

/-- the regenerated pad widths are the ones `Generated/IndexExprs.lean` holds -/
theorem gen_pyrPadWidths_eq (H W D : Int) :
    pyrTopG H W D = pyrPadTop H W D ∧ pyrBottomG H W D = pyrPadBottom H W D ∧
    pyrLeftG H W D = pyrPadLeft H W D ∧ pyrRightG H W D = pyrPadRight H W D :=
  ⟨rfl, rfl, rfl, rfl⟩

/-- the regenerated index map (test, pad mode, axis assignment, fall-through) is the model's `pyrPad` -/
theorem gen_pyrPadG_eq (axis : Nat) (H W D : Int) : pyrPadG axis H W D = pyrPad axis H W D := by
  unfold pyrPadG pyrPad
  rw [gen_pyrNeedsPadG_eq]
  cases axis with
  | zero => rfl
  | succ n =>
    by_cases h : pyrNeedsPad H W D = true
    · simp only [h, if_true]; rfl
    · simp only [h]
      simp [keepAxis]

/-! ## the maps of `foveation.py` -/

/-- `make_3d_location_map` is the model's `screenPoint` -/
theorem gen_locationMapG_eq (h w : Nat) (width dist : ℝ) (i j : Nat) :
    locationMapG h w width dist i j =
      ((screenPoint h w width dist i j).x, (screenPoint h w width dist i j).y, (screenPoint h w width dist i j).z) := by
  simp only [locationMapG, screenPoint, screenHeight, num_half, num_ofNat, num_ofSci, Nat.cast_one, one_mul]
  norm_num

/-- `make_eccentricity_distance_maps` is `(eccentricityAt, distanceAt)`: the angle between the gaze direction and the pixel
    direction (normalised, dot product clamped to `[-1, 1]`, `acos`), and the pixel's distance from the eye -/
theorem gen_eccDistG_eq (g0 g1 : ℝ) (h w : Nat) (width dist : ℝ) (i j : Nat) :
    eccDistG g0 g1 h w width dist i j = (eccentricityAt g0 g1 h w width dist i j, distanceAt h w width dist i j) := by
  simp only [eccDistG, gen_locationMapG_eq, eccentricityAt, distanceAt, angleBetween, gazePoint, Vec3.dot, Vec3.sdiv, Vec3.norm,
    Vec3.normSq, screenHeight, num_half, num_two, num_ofNat, Nat.cast_one, Nat.cast_ofNat, num_ofSci]
  norm_num [screenPoint, screenHeight]

/-- `make_pooling_size_map_pixels` is the model's `poolingPixel` fed with the eccentricity w.r.t. the gaze, the eccentricity
    w.r.t. the image centre `(0.5, 0.5)` and the pixel distance; the last factor is the image WIDTH in pixels -/
theorem gen_poolingPixelsG_eq (g0 g1 : ℝ) (h w : Nat) (alpha width dist : ℝ) (q : Bool) (i j : Nat) :
    poolingPixelsG g0 g1 h w alpha width dist q i j = poolingPixelsAt q g0 g1 h w alpha width dist i j := by
  have hc : eccDistG (Num.ofSci 5 true 1) (Num.ofSci 5 true 1) h w width dist i j =
      (eccentricityAt Num.half Num.half h w width dist i j, distanceAt h w width dist i j) := gen_eccDistG_eq _ _ h w width dist i j
  simp only [poolingPixelsG, poolingPixelsAt, gen_eccDistG_eq, hc]
  rfl

/-- `make_pooling_size_map_lod` is `lodOf` of the pooling size: `log2(1e-6 + pixels)` CLAMPED below at 0 -/
theorem gen_poolingLodG_eq (g0 g1 : ℝ) (h w : Nat) (alpha width dist : ℝ) (q : Bool) (i j : Nat) :
    poolingLodG g0 g1 h w alpha width dist q i j = poolingLodAt q g0 g1 h w alpha width dist i j := by
  simp only [poolingLodG, poolingLodAt, gen_poolingPixelsG_eq, lodOf, Num.log2, num_ofNat, Nat.cast_zero]

/-- `make_equi_pooling_size_map_pixels` is the model's `equiPoolingPixel` of the angle (dot product clamped to `[-1, 1]` since fix eb.. F38) between the gaze direction
    and the pixel direction -/
theorem gen_equiPoolingPixelsG_eq (a0 a1 : ℝ) (h w : Nat) (alpha : ℝ) (q : Bool) (i j : Nat) :
    equiPoolingPixelsG a0 a1 h w alpha q i j = equiPoolingPixelsAt q a0 a1 h w alpha i j := by
  simp only [equiPoolingPixelsG, equiPoolingPixelsAt, equiPoolingPixel, equiEccentricityAt, equiDirection, equiYaw, equiPitch,
    Vec3.dot, num_half, num_two, num_ofNat, Nat.cast_ofNat, num_ofSci]
  norm_num

/-- `make_equi_pooling_size_map_lod` is `lodOf` of it -/
theorem gen_equiPoolingLodG_eq (a0 a1 : ℝ) (h w : Nat) (alpha : ℝ) (q : Bool) (i j : Nat) :
    equiPoolingLodG a0 a1 h w alpha q i j = equiPoolingLodAt q a0 a1 h w alpha i j := by
  simp only [equiPoolingLodG, equiPoolingLodAt, gen_equiPoolingPixelsG_eq, lodOf, Num.log2, num_ofNat, Nat.cast_zero]

/-- `make_radial_map`: the un-normalised radii and the normalised map -/
theorem gen_radialRadiiG_eq (s0 s1 : Nat) (g0 g1 : ℝ) (i j : Nat) :
    radialRadiiG s0 s1 g0 g1 i j = radialRadius s0 s1 g0 g1 i j := by
  simp only [radialRadiiG, radialRadius, num_ofNat, Nat.cast_zero]

theorem gen_radialMapG_eq (s0 s1 : Nat) (g0 g1 : ℝ) (i j : Nat) :
    radialMapG s0 s1 g0 g1 i j = radialMap s0 s1 g0 g1 i j := by
  simp only [radialMapG, radialMap, gen_radialRadiiG_eq]

/-! ## `RadiallyVaryingBlur.blur` -/

theorem maxN_real (a b : ℝ) : Num.maxN a b = max a b := by
  unfold Num.maxN
  split_ifs with h
  · exact (max_eq_right h.le).symm
  · exact (max_eq_left (not_lt.mp h)).symm

theorem trunc_of_nonneg (x : ℝ) (h : 0 ≤ x) : Num.trunc x = ((⌊x⌋ : ℤ) : ℝ) := by
  simp only [Num.trunc, not_lt.mpr h, if_false, num_floor]

/-- the blend fraction `torch.fmod(lod, 1.0)` is the fractional part `lod - floor lod` of a (non-negative) level of detail -/
theorem gen_blurFractionG_eq (lod : ℝ) (h : 0 ≤ lod) : blurFractionG lod = lodFraction lod := by
  simp only [blurFractionG, lodFraction, Num.tfmod, num_ofNat, Nat.cast_one, div_one, one_mul, trunc_of_nonneg lod h, num_floor]

/-- selecting by masks that hold for exactly one index of `range n` returns that index's value -/
theorem foldl_select {β : Type} (M : Nat → Bool) (B : Nat → β) (z : β) (l : Nat) :
    ∀ n, (∀ k, k < n → (M k = true ↔ k = l)) →
      (List.range n).foldl (fun out k => if M k then B k else out) z = if l < n then B l else z := by
  intro n
  induction n with
  | zero => intro _; simp
  | succ n ih =>
    intro h
    rw [List.range_succ, List.foldl_append, ih (fun k hk => h k (Nat.lt_succ_of_lt hk))]
    simp only [List.foldl_cons, List.foldl_nil]
    by_cases hn : n = l
    · subst hn
      have : M n = true := (h n (Nat.lt_succ_self n)).2 rfl
      simp [this]
    · have hM : ¬ (M n = true) := fun hm => hn ((h n (Nat.lt_succ_self n)).1 hm)
      have hlt : (l < n + 1) ↔ (l < n) := by omega
      simp [hM, hlt]

/-- the per-level masks of the blur single out the level the level of detail lies in: level `l` holds iff
    `l ≤ lod < l + 1`, the coarsest level takes everything above (at least two levels) -/
theorem gen_blurMaskG_iff (levels l k : Nat) (lod : ℝ) (h2 : 2 ≤ levels) (hl : l < levels) (hk : k < levels)
    (h0 : (l : ℝ) ≤ lod) (h1 : l + 1 < levels → lod < (l : ℝ) + 1) :
    blurMaskG levels k lod = true ↔ k = l := by
  have cast_lt : ∀ a b : Nat, a < b → (a : ℝ) + 1 ≤ (b : ℝ) := fun a b hab => by exact_mod_cast hab
  unfold blurMaskG
  simp only [num_ofNat, Nat.cast_add, Nat.cast_one]
  by_cases hkl : k = levels - 1
  · simp only [hkl, if_true, decide_eq_true_eq]
    constructor
    · intro hle
      by_contra hne
      have hlt : l < levels - 1 := by omega
      have := h1 (by omega)
      have := cast_lt l (levels - 1) hlt
      linarith
    · intro e
      rw [e]; exact h0
  · simp only [hkl, if_false]
    by_cases hk0 : k = 0
    · subst hk0
      simp only [if_true, Nat.cast_zero, zero_add, decide_eq_true_eq]
      constructor
      · intro hlt
        by_contra hne
        have : 1 ≤ l := Nat.one_le_iff_ne_zero.2 (fun e => hne e.symm)
        have : (1 : ℝ) ≤ (l : ℝ) := by exact_mod_cast this
        linarith
      · intro e
        subst e
        have := h1 (by omega)
        simpa using this
    · simp only [hk0, if_false, Bool.and_eq_true, decide_eq_true_eq]
      constructor
      · rintro ⟨ha, hb⟩
        by_contra hne
        rcases Nat.lt_or_gt_of_ne hne with hlt | hgt
        · have := cast_lt k l hlt
          linarith
        · have := h1 (by omega)
          have := cast_lt l k hgt
          linarith
      · intro e
        subst e
        exact ⟨h0, h1 (by omega)⟩

/-- **level selection and blending of the blur**: with at least two mip levels, a pixel whose level of detail lies in level `l`
    (`l ≤ lod`, and `lod < l + 1` unless `l` is the coarsest level) gets the model's `blurSelect`: the coarsest level as it is,
    otherwise `blend frac (mip l) (mip (l + 1))`; and `l` is the model's `mipLevel` (`floor lod` capped at `levels - 1`) -/
theorem gen_blurPixelG_eq (levels l : Nat) (lod frac : ℝ) (mip : Nat → ℝ) (h2 : 2 ≤ levels) (hl : l < levels)
    (h0 : (l : ℝ) ≤ lod) (h1 : l + 1 < levels → lod < (l : ℝ) + 1) :
    blurPixelG levels lod frac mip = blurSelect levels l frac mip ∧ mipLevel levels lod = (l : ℝ) := by
  constructor
  · unfold blurPixelG
    rw [foldl_select (fun k => blurMaskG levels k lod) (fun k => blurBlendedG levels k frac mip) _ l levels
      (fun k hk => gen_blurMaskG_iff levels l k lod h2 hl hk h0 h1)]
    simp only [hl, if_true, blurBlendedG, blurSelect, blend, num_ofNat, Nat.cast_one]
  · simp only [mipLevel, num_floor, num_ofNat, minN_real]
    by_cases hc : l + 1 < levels
    · have hfl : (⌊lod⌋ : ℤ) = (l : ℤ) := Int.floor_eq_iff.mpr ⟨by exact_mod_cast h0, by exact_mod_cast h1 hc⟩
      rw [hfl]
      have : (l : ℝ) ≤ ((levels - 1 : Nat) : ℝ) := by exact_mod_cast (by omega : l ≤ levels - 1)
      simpa using min_eq_left this
    · have e : levels - 1 = l := by omega
      rw [e]
      have : ((l : ℤ) : ℝ) ≤ ((⌊lod⌋ : ℤ) : ℝ) := by exact_mod_cast Int.le_floor.mpr (by exact_mod_cast h0)
      simpa using min_eq_right this

/-- the single-level case (an image one pixel high or wide): the only level is also the coarsest one, its mask is `0 ≤ lod`, which the
    clamp of the level-of-detail map guarantees: every pixel is the input pixel.  (Before the repair of finding F39 the only mask was
    `lod < 1` and a pixel with `lod ≥ 1` was matched by no level and kept the initial zero.) -/
theorem gen_blurPixelG_single_level (lod frac : ℝ) (mip : Nat → ℝ) (h : 0 ≤ lod) :
    blurPixelG 1 lod frac mip = mip 0 := by
  simp [blurPixelG, blurMaskG, blurBlendedG, h]

/-- the mip chain starts with the image itself (level 0 is the input: what "the gaze pixel is left unblurred" rests on), each
    `while` iteration appends a level of half the size (`floor`), and the loop runs while both sides exceed one pixel -/
theorem mipWhileG_prefix (fuel : Nat) : ∀ m : List (Nat × Nat), ∃ t, mipWhileG fuel m = m ++ t := by
  induction fuel with
  | zero => intro m; exact ⟨[], by simp [mipWhileG]⟩
  | succ n ih =>
    intro m
    unfold mipWhileG
    split_ifs with h
    · obtain ⟨t, ht⟩ := ih (m ++ [mipHalveG (lastD m)])
      exact ⟨mipHalveG (lastD m) :: t, by rw [ht]; simp⟩
    · exact ⟨[], by simp⟩

theorem gen_mipSizesG_head (fuel H W : Nat) : (mipSizesG fuel H W).head? = some (H, W) := by
  obtain ⟨t, ht⟩ := mipWhileG_prefix fuel [(H, W)]
  unfold mipSizesG
  rw [ht]
  simp only []
  split_ifs <;> simp

theorem gen_mipStep_spec (s : Nat × Nat) :
    mipContinueG s = (decide (1 < s.2) && decide (1 < s.1)) ∧ mipHalveG s = (s.1 / 2, s.2 / 2) := ⟨rfl, rfl⟩

/-! ## properties of the hand-written map geometry (`OdakModel/FoveationMaps.lean`) -/

theorem clamp_real (x lo hi : ℝ) : Num.clamp x lo hi = min (max x lo) hi := by
  simp only [Num.clamp, minN_real, maxN_real]

/-- the angle between a direction and itself is zero (any non-zero vector) -/
theorem angleBetween_self (a : Vec3 ℝ) (ha : a.x * a.x + a.y * a.y + a.z * a.z ≠ 0) : angleBetween a a = 0 := by
  have hpos : 0 < a.x * a.x + a.y * a.y + a.z * a.z :=
    lt_of_le_of_ne (by nlinarith [mul_self_nonneg a.x, mul_self_nonneg a.y, mul_self_nonneg a.z]) (Ne.symm ha)
  have hs : Real.sqrt (a.x * a.x + a.y * a.y + a.z * a.z) ≠ 0 := (Real.sqrt_pos.2 hpos).ne'
  have hsq : Real.sqrt (a.x * a.x + a.y * a.y + a.z * a.z) * Real.sqrt (a.x * a.x + a.y * a.y + a.z * a.z)
      = a.x * a.x + a.y * a.y + a.z * a.z := Real.mul_self_sqrt hpos.le
  have hdot : Vec3.dot (Vec3.sdiv a (Vec3.norm a)) (Vec3.sdiv a (Vec3.norm a)) = 1 := by
    simp only [Vec3.dot, Vec3.sdiv, Vec3.norm, Vec3.normSq, num_sqrt]
    generalize hS : Real.sqrt (a.x * a.x + a.y * a.y + a.z * a.z) = S at hs hsq
    have : a.x / S * (a.x / S) + a.y / S * (a.y / S) + a.z / S * (a.z / S) = (a.x * a.x + a.y * a.y + a.z * a.z) / (S * S) := by
      field_simp
    rw [this, hsq]
    exact div_self ha
  simp only [angleBetween, hdot, clamp_real, num_acos]
  norm_num

/-- the eccentricity vanishes at the pixel the user looks at (viewing distance non-zero) -/
theorem eccentricityAt_zero_at_gaze (g0 g1 : ℝ) (h w : Nat) (width dist : ℝ) (i j : Nat) (hd : dist ≠ 0)
    (hg : gazePoint g0 g1 h w width dist = screenPoint h w width dist i j) :
    eccentricityAt g0 g1 h w width dist i j = 0 := by
  unfold eccentricityAt
  rw [hg]
  apply angleBetween_self
  have hz : (screenPoint h w width dist i j).z = dist := rfl
  rw [hz]
  have : 0 < dist * dist := mul_self_pos.2 hd
  nlinarith [mul_self_nonneg (screenPoint h w width dist i j).x, mul_self_nonneg (screenPoint h w width dist i j).y]

/-- a gaze given as the normalised coordinates of a pixel centre, `(j / (w - 1), i / (h - 1))`, IS that pixel's screen point -/
theorem gazePoint_pixel_centre (h w : Nat) (width dist : ℝ) (i j : Nat) (hh : 2 ≤ h) (hw : 2 ≤ w) :
    gazePoint ((j : ℝ) / ((w - 1 : Nat) : ℝ)) ((i : ℝ) / ((h - 1 : Nat) : ℝ)) h w width dist = screenPoint h w width dist i j := by
  have hw' : ¬ w ≤ 1 := by omega
  have hh' : ¬ h ≤ 1 := by omega
  simp only [gazePoint, screenPoint, linspace, hw', hh', if_false, num_half, num_two, num_ofNat]
  congr 1 <;> ring

/-- a unit direction has unit length -/
theorem equiDirection_dot_self (yaw pitch : ℝ) : Vec3.dot (equiDirection yaw pitch) (equiDirection yaw pitch) = 1 := by
  simp only [Vec3.dot, equiDirection, num_sin, num_cos]
  nlinarith [Real.sin_sq_add_cos_sq yaw, Real.sin_sq_add_cos_sq pitch]

/-- the equirectangular eccentricity vanishes at the pixel whose yaw / pitch are the gaze angles -/
theorem equiEccentricityAt_zero_at_gaze (a0 a1 : ℝ) (h w i j : Nat) (hy : equiYaw w j = a0) (hp : equiPitch h i = a1) :
    equiEccentricityAt a0 a1 h w i j = 0 := by
  simp only [equiEccentricityAt, hy, hp, equiDirection_dot_self, num_acos, clamp_real]
  norm_num

/-- `maxL` dominates its elements -/
theorem foldl_maxN_ge (xs : List ℝ) : ∀ a : ℝ, a ≤ xs.foldl Num.maxN a ∧ ∀ x ∈ xs, x ≤ xs.foldl Num.maxN a := by
  induction xs with
  | nil => intro a; simp
  | cons y ys ih =>
    intro a
    simp only [List.foldl_cons, maxN_real]
    obtain ⟨h1, h2⟩ := ih (max a y)
    refine ⟨le_trans (le_max_left a y) h1, ?_⟩
    intro x hx
    rcases List.mem_cons.1 hx with rfl | hx
    · exact le_trans (le_max_right a x) h1
    · exact h2 x hx

theorem le_maxL_of_mem (xs : List ℝ) (x : ℝ) (hx : x ∈ xs) : x ≤ maxL xs := by
  cases xs with
  | nil => simp at hx
  | cons y ys =>
    simp only [maxL]
    rcases List.mem_cons.1 hx with rfl | hx
    · exact (foldl_maxN_ge ys x).1
    · exact (foldl_maxN_ge ys y).2 x hx

theorem le_gridMax (n m : Nat) (f : Nat → Nat → ℝ) (i j : Nat) (hi : i < n) (hj : j < m) : f i j ≤ gridMax n m f := by
  apply le_maxL_of_mem
  simp only [gridMax, List.mem_flatMap, List.mem_range, List.mem_map]
  exact ⟨i, hi, j, hj, rfl⟩

theorem radialRadius_nonneg (s0 s1 : Nat) (g0 g1 : ℝ) (i j : Nat) : 0 ≤ radialRadius s0 s1 g0 g1 i j := by
  simp only [radialRadius, num_sqrt]; exact Real.sqrt_nonneg _

/-- the radial map takes values in `[0, 1]` -/
theorem radialMap_range (s0 s1 : Nat) (g0 g1 : ℝ) (i j : Nat) (hi : i < s0) (hj : j < s1) :
    0 ≤ radialMap s0 s1 g0 g1 i j ∧ radialMap s0 s1 g0 g1 i j ≤ 1 := by
  have hle := le_gridMax s0 s1 (fun i j => radialRadius s0 s1 g0 g1 i j) i j hi hj
  have h0 := radialRadius_nonneg s0 s1 g0 g1 i j
  unfold radialMap
  exact ⟨div_nonneg h0 (le_trans h0 hle), div_le_one_of_le₀ hle (le_trans h0 hle)⟩

end Odak
