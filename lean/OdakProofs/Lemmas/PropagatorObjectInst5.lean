import OdakProofs.Lemmas.PropagatorObjectInst4

/-!
  # Work package 16: every reconstruction of the regenerated propagator object, in the grid model

  `propagator_grid_reconstruct_after`: after ANY list of good calls, every slot `[frame, plane, channel]` of the buffer `reconstruct` returns
  is the documented propagation of the hologram of (frame, channel) with the kernel of (channel, plane), the aperture in force and the
  laser powers in force (the tensor the last `set_laser_powers` of the history passed, else the constructor's).
-/
set_option linter.unusedVariables false
set_option linter.unusedSimpArgs false
set_option linter.unusedSectionVars false

namespace Odak
open Gen CGrid

/-- the laser-powers object in force after a call list: only `set_laser_powers` changes it -/
def pRefPw {T : Type} : Nat → List (PCall T) → Nat
  | p, [] => p
  | _, .setPowers q :: rest => pRefPw q rest
  | p, _ :: rest => pRefPw p rest

theorem pRef_run_powers {T R : Type} [DecidableEq R] (E : PropOps T R) (o : PropObj T R) (dists : T) (h0 : Heap T) :
    ∀ (xs : List (PCall T)) (g g' : PRef T) (zs : List (List T)), runSteps (pRefStep E o dists h0) g xs = some (g', zs) →
      g'.powers = pRefPw g.powers xs := by
  intro xs
  induction xs with
  | nil => intro g g' zs e; simp only [runSteps, Option.some.injEq, Prod.mk.injEq] at e; rw [← e.1]; rfl
  | cons x rest ih =>
    intro g g' zs e
    simp only [runSteps] at e
    cases hx : pRefStep E o dists h0 g x with
    | none => simp [hx] at e
    | some r =>
      obtain ⟨g1, z⟩ := r
      simp only [hx, Option.bind_some] at e
      cases hrest : runSteps (pRefStep E o dists h0) g1 rest with
      | none => simp [hrest] at e
      | some q =>
        obtain ⟨g2, zs2⟩ := q
        simp only [hrest, Option.map_some, Option.some.injEq, Prod.mk.injEq] at e
        obtain ⟨rfl, -⟩ := e
        rw [ih g1 g2 zs2 hrest]
        cases x with
        | forward u c d =>
          simp only [pRefStep] at hx
          cases hk : pKernel E o dists c d <;> simp [hk] at hx
          rw [← hx.1]; rfl
        | reconstruct ph amp ng gc =>
          simp only [pRefStep] at hx
          cases hc : h0.get g.powers <;> simp [hc] at hx
          obtain ⟨_, _, h2⟩ := hx
          rw [← h2.1]; rfl
        | getPowers =>
          simp only [pRefStep] at hx
          cases hc : h0.get g.powers <;> simp [hc] at hx
          obtain ⟨_, _, h2⟩ := hx
          rw [← h2.1]; rfl
        | getKernels => simp [pRefStep] at hx
        | setPowers p =>
          simp only [pRefStep, Option.some.injEq, Prod.mk.injEq] at hx
          rw [← hx.1]; rfl
        | setAperture ap size =>
          simp only [pRefStep] at hx
          cases hav : pApertureValue E o.resolution o.resolution_factor ap size with
          | none => simp [hav] at hx
          | some v =>
            simp only [hav, Option.map_some, Option.some.injEq, Prod.mk.injEq] at hx
            rw [← hx.1]; rfl

/-- the phases `reconstruct` works with: a leading axis of a rank-4 argument is squeezed -/
noncomputable def reconPhases (ph : Ten ℝ) : Ten ℝ := if ph.rank > 3 then (propOpsGrid : PropOps (Ten ℝ) ℝ).squeeze ph 0 else ph

/-- **every reconstruction, after any list of good calls, in the grid model** -/
theorem propagator_grid_reconstruct_after (a : PropArgs (Ten ℝ) ℝ) (hp0 : Heap (Ten ℝ)) (o : PropObj (Ten ℝ) ℝ) (h' : Heap (Ten ℝ))
    (hi : pInit propOpsGrid a hp0 = some (o, h')) (hp : ∀ p, a.laser_channel_power = some p → p < hp0.size)
    {h w : Nat} (hres : a.resolution = [(h : Int), (w : Int)])
    (hty : a.propagator_type = "forward" ∨ a.propagator_type = "back and forth")
    (hme : a.method = "conventional" ∨ a.method = "multi-color")
    (kern : ℝ → ℝ → CGrid ℝ (2 * h) (2 * w))
    (hk : ∀ lam z, propagationKernelT o.propagation_type (2 * h) (2 * w) o.pixel_pitch lam z (o.samp 0) (o.samp 1) (o.samp 2) (o.samp 3) = some (kern lam z)) :
    ∃ dists ap, h'.get o.distances = some dists ∧ h'.get o.aperture = some ap ∧
      ∀ (pre : List (PCall (Ten ℝ))) (ph : Ten ℝ) (amp : Option (Ten ℝ)) (ng gc : Bool), (∀ x ∈ pre, x.good o h') →
        ∃ s1 ys s2 y V cpv lp, runSteps (pStep propOpsGrid) (o.toSelf, h') pre = some (s1, ys) ∧
          pStep propOpsGrid s1 (.reconstruct ph amp ng gc) = some (s2, y) ∧ y.vals = [V] ∧
          runSteps (pStep propOpsGrid) (o.toSelf, h') (pre ++ [.reconstruct ph amp ng gc]) = some (s2, ys ++ [y]) ∧
          h'.get (pRefPw o.channel_power pre) = some cpv ∧ pPowers propOpsGrid o cpv = some lp ∧
          ∀ f d c : Nat, f < o.number_of_frames.toNat → d < o.number_of_depth_layers.toNat → c < a.wavelengths.length → c < 3 →
            cpv.sh [(f : Int), (c : Int)] = [] →
            (Ten.prepareReconstruct amp (reconPhases ph) o.number_of_channels o.resolution o.resolution_factor).1.sh [(c : Int)] = [h, w] →
            (Ten.prepareReconstruct amp (reconPhases ph) o.number_of_channels o.resolution o.resolution_factor).2.sh [(f : Int)] = [h, w] →
            V.getIdx [(f : Int), (d : Int), (c : Int)] = slotValue gc (Ten.ofGrid (cropGrid (customT
              (padGrid (holoGrid h w lp (Ten.prepareReconstruct amp (reconPhases ph) o.number_of_channels o.resolution o.resolution_factor).1
                (Ten.prepareReconstruct amp (reconPhases ph) o.number_of_channels o.resolution o.resolution_factor).2 f c))
              (objKernelGrid o kern dists c d) (Ten.toGrid (2 * h) (2 * w) (pRefAp propOpsGrid o ap pre))))) := by
  obtain ⟨e1, e2, -, -, e5, -, -, -, -, e10, -, -⟩ := pInit_fields propOpsGrid a hp0 o h' hi
  have ok := pInit_ok propOpsGrid a hp0 o h' hi hty hme
  have eps : o.phase_scale = Ten.ofList [litNum "1.0", litNum "1.0", litNum "1.0"] := by
    unfold pInit at hi
    simp only [Option.bind_eq_bind] at hi
    cases hdres : pInitDistances propOpsGrid a hp0 with
    | none => simp [hdres] at hi
    | some dres =>
    simp only [hdres, Option.bind_some] at hi
    cases h0 : a.resolution[0]? with
    | none => simp [h0] at hi
    | some r0 =>
    cases h1 : a.resolution[1]? with
    | none => simp [h0, h1] at hi
    | some r1 =>
    simp only [h0, h1, Option.bind_some] at hi
    generalize hcr : pInitPowers (propOpsGrid : PropOps (Ten ℝ) ℝ) a.number_of_frames (a.wavelengths.length : Int) a.laser_channel_power _ = cres at hi
    cases hap : cres.1.getOpt a.aperture with
    | none => simp [hap] at hi
    | some apv =>
    cases hav : pApertureValue propOpsGrid a.resolution a.rf apv a.aperture_size with
    | none => simp [hap, hav] at hi
    | some av =>
    simp only [hap, hav, Option.bind_some, Option.some.injEq, Prod.mk.injEq] at hi
    obtain ⟨rfl, -⟩ := hi
    rfl
  obtain ⟨dists, ap, cp, hd, ha, hc, hr⟩ := pRel_of_init' propOpsGrid propLaws_propOpsGrid a hp0 o h' hi hp
  refine ⟨dists, ap, hd, ha, fun pre ph amp ng gc hpre => ?_⟩
  obtain ⟨g1, zs1, g2, z, s1, ys1, s2, y, r1, r2, eap, er1, er2, ev, erun⟩ :=
    propagator_last_call (propOpsGrid : PropOps (Ten ℝ) ℝ) propLaws_propOpsGrid o ok dists h' _ _ hr (Heap.get_eq_some_lt hc) pre (PCall.reconstruct ph amp ng gc) hpre trivial
  have epw := pRef_run_powers propOpsGrid o dists h' pre _ g1 zs1 r1
  simp only [pRefStep] at r2
  cases hcp : h'.get g1.powers with
  | none => simp [hcp] at r2
  | some cpv =>
  simp only [hcp, Option.bind_some] at r2
  cases hV : pRecon propOpsGrid o dists g1.ap cpv ph amp gc with
  | none => simp [hV] at r2
  | some V =>
  simp only [hV, Option.map_some, Option.some.injEq, Prod.mk.injEq] at r2
  obtain ⟨lp, elp⟩ := pPowers_isSome propOpsGrid ok cpv
  refine ⟨s1, ys1, s2, y, V, cpv, lp, er1, er2, by rw [ev, ← r2.2], erun, by rw [← epw]; exact hcp, elp, ?_⟩
  intro f d c hf hdl hcl hc3 hsh hamp hphs
  obtain ⟨hdd, ehd, hslots⟩ := pRecon_slot propOpsGrid propLaws_propOpsGrid o dists g1.ap cpv ph amp gc V hV
  have ehd' : hdd.2.1 = (Ten.prepareReconstruct amp (reconPhases ph) o.number_of_channels o.resolution o.resolution_factor).1 ∧
      hdd.2.2 = (Ten.prepareReconstruct amp (reconPhases ph) o.number_of_channels o.resolution o.resolution_factor).2 := by
    have e1' : o.resolution = [(h : Int), (w : Int)] := by rw [e1]; exact hres
    simp only [pReconHead, e1', List.getElem?_cons_zero, List.getElem?_cons_succ, Option.bind_eq_bind, Option.bind_some, Option.some.injEq] at ehd
    rw [← ehd, e1']
    exact ⟨rfl, rfl⟩
  obtain ⟨v, ev1, ev2⟩ := hslots f d c hf hdl (by rw [e10]; simpa using hcl)
  rw [ehd'.1, ehd'.2] at ev1
  have hone : o.phase_scale.el [(c : Int)] = ⟨1, 0⟩ := by
    rw [eps]
    have : ([litNum "1.0", litNum "1.0", litNum "1.0"] : List ℝ)[c]? = some 1 := by
      rw [litNum_one]
      interval_cases c <;> rfl
    simp [Ten.ofList, Ten.ofFn, this]
  have hps : o.phase_scale.sh [(c : Int)] = [] := by rw [eps]; rfl
  have := pSlot_grid (h := h) (w := w) o (by rw [e1]; exact hres) (by rw [e5]; exact hty) kern hk dists g1.ap cpv
    (Ten.prepareReconstruct amp (reconPhases ph) o.number_of_channels o.resolution o.resolution_factor).2
    (Ten.prepareReconstruct amp (reconPhases ph) o.number_of_channels o.resolution o.resolution_factor).1 lp gc f d c
    (by rw [e2]; exact hcl) elp hsh hamp hphs hps hone
  rw [ev1] at this
  injection this with this
  rw [← eap, ← this]
  exact ev2

end Odak
