import OdakProofs.Lemmas.GenPropagatorObject2

/-!
  # Tie theorems (3): `propagator.__init__` and its helpers regenerated from the Python source

  * the helpers on ANY object whose attributes they read are set: `init_distances` keeps the CALLER'S tensor (`torch.as_tensor`) or creates
    the default; `init_kernels` creates two new buffers (a second call forgets every cached kernel); `init_channel_power` keeps the caller's
    tensor or creates the identity; `init_phase_scale`; `set_aperture` always creates a new object;
  * `gen_propagatorInitG_eq`: the regenerated `__init__` builds exactly the object `pInit` lists - EVERY attribute, WHICH of them are new
    objects and which are the caller's;
  * `pInit_inv`: that object satisfies the invariant (a new flag buffer is all false).
-/
set_option linter.unusedVariables false
set_option linter.unusedSimpArgs false
set_option linter.unusedSectionVars false

namespace Odak
open Gen
variable {T R : Type} [DecidableEq R]

theorem gen_propagatorInitDistancesG_eq (E : PropOps T R) (s : PropagatorAttrs T R) (h : Heap T) (ds : Option Nat) {vd ilo : R} {nd : Int}
    (h1 : s.volume_depth = some vd) (h2 : s.number_of_depth_layers = some nd) (h3 : s.image_location_offset = some ilo) :
    propagatorInitDistancesG E s h ds = match ds with
      | none => some ({ s with distances := some h.size },
          (h.alloc (E.add (E.linspace (E.rdiv (E.rneg vd) (E.lit "2.0")) (E.rdiv vd (E.lit "2.0")) nd) (E.scalar ilo))).1, (), ["distances"])
      | some d => (h.get d).map fun dv => ({ s with distances := some d, number_of_depth_layers := some (E.dim dv 0) }, h, (),
          ["distances", "number_of_depth_layers"]) := by
  cases ds with
  | none => simp [propagatorInitDistancesG, h1, h2, h3]
  | some d => cases hg : h.get d <;> simp [propagatorInitDistancesG, h1, h2, h3, hg]

theorem gen_propagatorInitKernelsG_eq (E : PropOps T R) (s : PropagatorAttrs T R) (h : Heap T) {nd nch rf : Int} {res : List Int}
    (h1 : s.number_of_depth_layers = some nd) (h2 : s.number_of_channels = some nch) (h3 : s.resolution = some res)
    (h4 : s.resolution_factor = some rf) :
    propagatorInitKernelsG E s h = (res[0]?).bind fun r0 => (res[1]?).bind fun r1 =>
      some ({ s with generated_kernels := some h.size, kernels := some (h.size + 1) },
        ((h.alloc (E.zeros [nd, nch] "")).1.alloc (E.zeros [nd, nch, r0 * rf * 2, r1 * rf * 2] "torch.complex64")).1, (),
        ["generated_kernels", "kernels"]) := by
  cases e0 : res[0]? <;> cases e1 : res[1]? <;> simp [propagatorInitKernelsG, h1, h2, h3, h4, e0, e1]

theorem gen_propagatorInitChannelPowerG_eq (E : PropOps T R) (s : PropagatorAttrs T R) (h : Heap T) (p : Option Nat) {nf nch : Int}
    (h1 : s.number_of_frames = some nf) (h2 : s.number_of_channels = some nch) :
    propagatorInitChannelPowerG E s h p = match p with
      | none => some ({ s with channel_power := some h.size }, (h.alloc (E.eye nf nch)).1, (), ["channel_power", "channel_power"])
      | some l => some ({ s with channel_power := some l }, h, (), ["channel_power"]) := by
  cases p <;> simp [propagatorInitChannelPowerG, h1, h2]

theorem gen_propagatorInitPhaseScaleG_eq (E : PropOps T R) (s : PropagatorAttrs T R) (h : Heap T) :
    propagatorInitPhaseScaleG E s h = some ({ s with phase_scale := some (E.tensorOfList [E.lit "1.0", E.lit "1.0", E.lit "1.0"]) }, h, (),
      ["phase_scale"]) := by
  simp [propagatorInitPhaseScaleG]

/-- `set_aperture` on any object whose `resolution` / `resolution_factor` are set -/
theorem gen_propagatorSetApertureG_eq' (E : PropOps T R) (s : PropagatorAttrs T R) (h : Heap T) (ap size : Option T) {res : List Int} {rf : Int}
    (h1 : s.resolution = some res) (h2 : s.resolution_factor = some rf) :
    propagatorSetApertureG E s h ap size = (pApertureValue E res rf ap size).map fun v =>
      ({ s with aperture := some h.size }, (h.alloc v).1, (), ["aperture"]) := by
  unfold pApertureValue
  cases ap with
  | some a => cases size <;> simp [propagatorSetApertureG, h1, h2]
  | none =>
    cases e0 : res[0]? with
    | none => cases size <;> simp [propagatorSetApertureG, h1, h2, e0]
    | some r0 =>
    cases e1 : res[1]? with
    | none => cases size <;> simp [propagatorSetApertureG, h1, h2, e0, e1]
    | some r1 => cases size <;> simp [propagatorSetApertureG, h1, h2, e0, e1]

/-- the attributes `__init__` stores, in order (through its helpers) -/
def pInitLog (a : PropArgs T R) : List String :=
  ["device", "pixel_pitch", "wavelengths", "resolution", "propagation_type", "resolution_factor", "number_of_frames", "number_of_depth_layers",
   "number_of_channels", "volume_depth", "image_location_offset", "propagator_type", "aperture_samples", "zero_mode_distance", "method",
   "aperture"] ++ (if a.distances.isNone then ["distances"] else ["distances", "number_of_depth_layers"]) ++ ["generated_kernels", "kernels"] ++
   (if a.laser_channel_power.isNone then ["channel_power", "channel_power"] else ["channel_power"]) ++ ["phase_scale", "aperture"]

/-- **`__init__`** builds the object `pInit` describes -/
theorem gen_propagatorInitG_eq (E : PropOps T R) (a : PropArgs T R) (h : Heap T) (o : PropObj T R) (h' : Heap T)
    (hi : pInit E a h = some (o, h')) : pInitCall E a h = some (o.toSelf, h', (), pInitLog a) := by
  obtain ⟨res, wl, pp, rf, nf, nd, vd, ilo, pt, prt, bfd, lcp, ap, aps, ds, asam, meth⟩ := a
  unfold pInit at hi
  simp only [PropArgs.rf, Option.bind_eq_bind] at hi
  generalize hrf : (if pt ≠ "Impulse Response Fresnel" then 1 else rf) = rf' at hi
  have hstore : (if decide (pt ≠ "Impulse Response Fresnel") = true then (1 : Int) else rf) = rf' := by
    rw [← hrf]; by_cases hpt : pt = "Impulse Response Fresnel" <;> simp [hpt]
  cases h0 : res[0]? with
  | none => cases ds <;> simp [h0, pInitDistances] at hi <;> (try cases hg : h.get _ <;> simp [hg] at hi)
  | some r0 =>
  cases h1 : res[1]? with
  | none => cases ds <;> simp [h0, h1, pInitDistances] at hi <;> (try cases hg : h.get _ <;> simp [hg] at hi)
  | some r1 =>
  simp only [h0, h1, Option.bind_some] at hi
  have main : ∀ (h1' : Heap T) (dl : Nat) (nd' : Int) (log1 : List String) (S1 : PropagatorAttrs T R),
      S1 = { device := some (), pixel_pitch := some pp, wavelengths := some wl, resolution := some res,
              propagation_type := some pt, resolution_factor := some rf', number_of_frames := some nf,
              number_of_depth_layers := some nd', number_of_channels := some (wl.length : Int), volume_depth := some vd,
              image_location_offset := some ilo, propagator_type := some prt, aperture_samples := some asam,
              zero_mode_distance := some (E.tensorOfFloat bfd), method := some meth, aperture := ap,
              distances := some dl, generated_kernels := none, kernels := none, channel_power := none,
              phase_scale := none } →
      ((propagatorInitKernelsG E S1 h1').bind fun r_4 =>
        (propagatorInitChannelPowerG E r_4.fst r_4.snd.fst lcp).bind fun r_5 =>
          (propagatorInitPhaseScaleG E r_5.fst r_5.snd.fst).bind fun r_6 =>
            (r_6.snd.fst.getOpt ap).bind
              fun c_7 =>
              (propagatorSetApertureG E r_6.fst r_6.snd.fst c_7 aps).bind fun r_8 =>
                some (r_8.fst, r_8.snd.fst, (), log1 ++ r_4.snd.snd.snd ++ r_5.snd.snd.snd ++ r_6.snd.snd.snd ++ r_8.snd.snd.snd)) =
      (let h2 := (h1'.alloc (E.zeros [nd', (wl.length : Int)] "")).1
       let h3 := (h2.alloc (E.zeros [nd', (wl.length : Int), r0 * rf' * 2, r1 * rf' * 2] "torch.complex64")).1
       let cres := pInitPowers E nf (wl.length : Int) lcp h3
       (cres.1.getOpt ap).bind fun apv =>
        (pApertureValue E res rf' apv aps).bind fun av =>
          some (({ pixel_pitch := pp, wavelengths := wl, resolution := res, propagation_type := pt,
                   resolution_factor := rf', number_of_frames := nf, number_of_depth_layers := nd', number_of_channels := (wl.length : Int),
                   volume_depth := vd, image_location_offset := ilo, propagator_type := prt,
                   aperture_samples := asam, zero_mode_distance := E.tensorOfFloat bfd, method := meth,
                   aperture := cres.1.size, distances := dl, generated_kernels := h1'.size, kernels := h2.size, channel_power := cres.2,
                   phase_scale := E.tensorOfList [E.lit "1.0", E.lit "1.0", E.lit "1.0"] } : PropObj T R).toSelf, (cres.1.alloc av).1, (),
            log1 ++ ["generated_kernels", "kernels"] ++ (if lcp.isNone then ["channel_power", "channel_power"] else ["channel_power"]) ++
              ["phase_scale"] ++ ["aperture"])) := by
    intro h1' dl nd' log1 S1 hS
    subst hS
    rw [gen_propagatorInitKernelsG_eq E _ h1' (nd := nd') (nch := (wl.length : Int)) (res := res) (rf := rf') rfl rfl rfl rfl]
    simp only [h0, h1, Option.bind_some]
    rw [gen_propagatorInitChannelPowerG_eq E _ _ lcp (nf := nf) (nch := (wl.length : Int)) rfl rfl]
    cases lcp with
    | none =>
      simp only [pInitPowers, Option.bind_some, gen_propagatorInitPhaseScaleG_eq]
      cases ap with
      | none =>
        simp only [Heap.getOpt, Option.bind_some]
        rw [gen_propagatorSetApertureG_eq' E _ _ none aps (res := res) (rf := rf') rfl rfl]
        cases pApertureValue E res rf' none aps <;> simp [PropObj.toSelf]
      | some al =>
        cases hg : (((h1'.alloc (E.zeros [nd', (wl.length : Int)] "")).1.alloc
          (E.zeros [nd', (wl.length : Int), r0 * rf' * 2, r1 * rf' * 2] "torch.complex64")).1.alloc (E.eye nf (wl.length : Int))).1.get al with
        | none => simp [Heap.getOpt, hg]
        | some av0 =>
          simp only [Heap.getOpt, hg, Option.map_some, Option.bind_some]
          rw [gen_propagatorSetApertureG_eq' E _ _ (some av0) aps (res := res) (rf := rf') rfl rfl]
          cases pApertureValue E res rf' (some av0) aps <;> simp [PropObj.toSelf]
    | some p =>
      simp only [pInitPowers, Option.bind_some, gen_propagatorInitPhaseScaleG_eq]
      cases ap with
      | none =>
        simp only [Heap.getOpt, Option.bind_some]
        rw [gen_propagatorSetApertureG_eq' E _ _ none aps (res := res) (rf := rf') rfl rfl]
        cases pApertureValue E res rf' none aps <;> simp [PropObj.toSelf]
      | some al =>
        cases hg : ((h1'.alloc (E.zeros [nd', (wl.length : Int)] "")).1.alloc
          (E.zeros [nd', (wl.length : Int), r0 * rf' * 2, r1 * rf' * 2] "torch.complex64")).1.get al with
        | none => simp [Heap.getOpt, hg]
        | some av0 =>
          simp only [Heap.getOpt, hg, Option.map_some, Option.bind_some]
          rw [gen_propagatorSetApertureG_eq' E _ _ (some av0) aps (res := res) (rf := rf') rfl rfl]
          cases pApertureValue E res rf' (some av0) aps <;> simp [PropObj.toSelf]
  have fin : ∀ (m : Option (Option T)) (obj : PropObj T R) (hp : Heap T) (lg : List String),
      (m.bind fun apv => (pApertureValue E res rf' apv aps).bind fun av => some (obj, (hp.alloc av).1)) = some (o, h') →
      (m.bind fun apv => (pApertureValue E res rf' apv aps).bind fun av => some (obj.toSelf, (hp.alloc av).1, (), lg)) =
        some (o.toSelf, h', (), lg) := by
    intro m obj hp lg e
    cases m with
    | none => simp at e
    | some apv =>
      cases hav : pApertureValue E res rf' apv aps with
      | none => simp [hav] at e
      | some av =>
        simp only [hav, Option.bind_some, Option.some.injEq, Prod.mk.injEq] at e
        obtain ⟨rfl, rfl⟩ := e
        simp [hav]
  have hdec : decide (pt ≠ "Impulse Response Fresnel") = decide (¬ pt = "Impulse Response Fresnel") := rfl
  by_cases hpt : pt = "Impulse Response Fresnel"
  · have e : rf = rf' := by rw [← hrf]; simp [hpt]
    subst e
    subst hpt
    simp only [pInitCall, propagatorInitG, Option.bind_eq_bind, Option.bind_some, Option.pure_def, PropagatorAttrs.empty, ne_eq,
      not_true_eq_false, decide_false, Bool.false_eq_true, if_false]
    rw [gen_propagatorInitDistancesG_eq E _ h ds (vd := vd) (nd := nd) (ilo := ilo) rfl rfl rfl]
    cases ds with
    | none =>
      simp only [pInitDistances, Option.bind_some] at hi ⊢
      rw [main _ h.size nd _ _ rfl]
      dsimp only
      refine (fin _ _ _ _ hi).trans ?_
      simp [pInitLog]
    | some d =>
      cases hg : h.get d with
      | none => simp [hg, pInitDistances] at hi
      | some dv =>
        simp only [pInitDistances, hg, Option.map_some, Option.bind_some] at hi ⊢
        rw [main _ d (E.dim dv 0) _ _ rfl]
        dsimp only
        refine (fin _ _ _ _ hi).trans ?_
        simp [pInitLog]
  · have e : 1 = rf' := by rw [← hrf]; simp [hpt]
    subst e
    simp only [pInitCall, propagatorInitG, Option.bind_eq_bind, Option.bind_some, Option.pure_def, PropagatorAttrs.empty, hpt, ne_eq,
      not_false_eq_true, decide_true, if_true]
    rw [gen_propagatorInitDistancesG_eq E _ h ds (vd := vd) (nd := nd) (ilo := ilo) rfl rfl rfl]
    cases ds with
    | none =>
      simp only [pInitDistances, Option.bind_some] at hi ⊢
      rw [main _ h.size nd _ _ rfl]
      dsimp only
      refine (fin _ _ _ _ hi).trans ?_
      simp [pInitLog]
    | some d =>
      cases hg : h.get d with
      | none => simp [hg, pInitDistances] at hi
      | some dv =>
        simp only [pInitDistances, hg, Option.map_some, Option.bind_some] at hi ⊢
        rw [main _ d (E.dim dv 0) _ _ rfl]
        dsimp only
        refine (fin _ _ _ _ hi).trans ?_
        simp [pInitLog]


end Odak
