import OdakProofs.Lemmas.GenSamplers
import OdakProofs.Lemmas.GenGeometry
import OdakModel.Generated.SamplersMore
import OdakModel.SamplesMore
import Mathlib.Tactic.Ring
import Mathlib.Tactic.Linarith
import Mathlib.Tactic.Positivity
import Mathlib.Analysis.SpecialFunctions.Trigonometric.Basic

/-!
  Tie theorems: every definition of `Generated/SamplersMore.lean` (regenerated from the Python source on every run by
  `harness/translate/samplers_more.py`) EQUALS, at `α = ℝ`, the hand-written model definition of `OdakModel/SamplesMore.lean` the C14
  corollaries are about; plus the facts about those model definitions (points of the disc, counts) the corollaries need.
  `no[1]` where `no[0]` belongs (ring radius, ring count or angle step), exchanged loops, another argument of `rotate_points`,
  exchanged entry / exit points or another `np.repeat` change the generated text and one of these proofs stops compiling.
-/
namespace Odak
open Odak.Gen

/-! ### vocabulary -/

theorem flatMap_single {β γ : Type} (f : β → γ) (l : List β) : (l.flatMap fun x => [f x]) = l.map f := by
  induction l with
  | nil => rfl
  | cons a l ih => simp [List.flatMap_cons, ih]

theorem pyRange_zero (n : Nat) : pyRange 0 n = List.range n := by
  simp [pyRange, List.range_eq_range']

theorem circularUniformSampleN_eq (no0 no1 : Nat) (radius : ℝ) (center angles : Vec3 ℝ) (z : Bool) :
    circularUniformSampleN no0 no1 radius center angles z = circularUniformSample no0 no1 radius center angles z := by
  simp only [circularUniformSampleN, circularUniformSample, circularUniformLocal, ringCount, ringPoint, polarPoint, pyRange_zero,
    flatMap_single, npRotatePointsCall_default, num_ofNat, Nat.cast_zero]

theorem circularUniformRandomSampleN_eq (no0 no1 : Nat) (radius : ℝ) (center angles : Vec3 ℝ) (z : Bool) (U V : Nat → ℝ) :
    circularUniformRandomSampleN no0 no1 radius center angles z U V =
      circularUniformRandomSample no0 no1 radius center angles z U V := by
  simp only [circularUniformRandomSampleN, circularUniformRandomSample, circularUniformRandomLocal, polarPoint,
    flatMap_single, npRotatePointsCall_default, num_ofNat, Nat.cast_zero, List.map_map, List.flatMap_map, Function.comp_def]

/-- `random_sample_point_cloud`: row `t` of the result is row `choice[t]` of the cloud -/
theorem randomSamplePointCloudN_eq (n : Nat) (cloud : Nat → Vec3 ℝ) (no : Nat) (choice : List Nat) :
    randomSamplePointCloudN n cloud no choice = choice.map cloud := rfl

/-- `batch_of_rays` on its documented domain (equal numbers of entry and exit points, or one point on either side) -/
theorem batchOfRaysN_eq (m n : Nat) (entry exit_ : Nat → Vec3 ℝ) (hm : 1 ≤ m) (hn : 1 ≤ n) (h : m = n ∨ m = 1 ∨ n = 1) :
    batchOfRaysN m entry n exit_ = batchOfRays m entry n exit_ := by
  simp only [batchOfRaysN, batchOfRays, pyRange_zero, flatMap_single, twoPointsN_eq]
  apply List.map_congr_left
  intro i hi
  have hi' : i < max m n := List.mem_range.mp hi
  have hdiv : i / max m n = 0 := Nat.div_eq_of_lt hi'
  simp only [bcastRow, hdiv]
  rcases h with h | h | h
  · subst h
    have : ¬ m < max m m := by simp
    simp only [this, if_false]
    by_cases h1 : m = 1
    · subst h1; simp at hi'; subst hi'; simp
    · simp [h1]
  · subst h
    by_cases h1 : n = 1
    · subst h1; simp at hi'; subst hi'; simp
    · have hlt : 1 < max 1 n := by omega
      have : ¬ n < max 1 n := by omega
      have h2 : 1 < n := by omega
      simp [h1, this, h2, hdiv]
  · subst h
    by_cases h1 : m = 1
    · subst h1; simp at hi'; subst hi'; simp
    · have hlt : 1 < max m 1 := by omega
      simp [h1, hlt, hdiv]

/-! ### the model definitions: where the points lie, how many there are -/

theorem polarPoint_spec (r θ : ℝ) : Vec3.normSq (polarPoint r θ) = r ^ 2 ∧ (polarPoint r θ).z = 0 := by
  refine ⟨?_, rfl⟩
  simp only [polarPoint, Vec3.normSq, Vec3.dot, num_cos, num_sin]
  nlinarith [Real.sin_sq_add_cos_sq θ]

/-- a point of ring `i < no0` has distance `i / no0 · radius ≤ radius` from the origin and lies in the plane z = 0 -/
theorem ringPoint_spec (no0 no1 : Nat) (radius : ℝ) (hr : 0 ≤ radius) (i j : Nat) (hi : i < no0) :
    Vec3.normSq (ringPoint no0 no1 radius i j) = ((i : ℝ) / (no0 : ℝ) * radius) ^ 2 ∧
    Vec3.normSq (ringPoint no0 no1 radius i j) ≤ radius ^ 2 ∧ (ringPoint no0 no1 radius i j).z = 0 := by
  obtain ⟨h1, h2⟩ := polarPoint_spec (Num.ofNat i / Num.ofNat no0 * radius)
    (Num.ofNat j / (Num.ofNat (no1 * i) / Num.ofNat no0) * Num.ofNat 2 * Num.pi)
  have hn : (0 : ℝ) < (no0 : ℝ) := by exact_mod_cast (by omega : 0 < no0)
  have hq0 : 0 ≤ (i : ℝ) / (no0 : ℝ) := by positivity
  have hq1 : (i : ℝ) / (no0 : ℝ) ≤ 1 := by
    rw [div_le_one hn]; exact_mod_cast hi.le
  refine ⟨by simpa [ringPoint] using h1, ?_, h2⟩
  rw [show Vec3.normSq (ringPoint no0 no1 radius i j) = ((i : ℝ) / (no0 : ℝ) * radius) ^ 2 by simpa [ringPoint] using h1]
  have : (i : ℝ) / (no0 : ℝ) * radius ≤ radius := by nlinarith
  have h0 : 0 ≤ (i : ℝ) / (no0 : ℝ) * radius := by positivity
  nlinarith

theorem mem_circularUniformLocal (no0 no1 : Nat) (radius : ℝ) (p : Vec3 ℝ) :
    p ∈ circularUniformLocal no0 no1 radius ↔ ∃ i, i < no0 ∧ ∃ j, j < ringCount no0 no1 i ∧ p = ringPoint no0 no1 radius i j := by
  simp only [circularUniformLocal, List.mem_flatMap, List.mem_map, List.mem_range]
  constructor
  · rintro ⟨i, hi, j, hj, rfl⟩; exact ⟨i, hi, j, hj, rfl⟩
  · rintro ⟨i, hi, j, hj, rfl⟩; exact ⟨i, hi, j, hj, rfl⟩

/-- the number of points of `circular_uniform_sample`: the sum over the rings of `⌊no1 · i / no0⌋` -/
theorem length_circularUniformLocal (no0 no1 : Nat) (radius : ℝ) :
    (circularUniformLocal no0 no1 radius).length = ((List.range no0).map fun i => no1 * i / no0).sum := by
  simp only [circularUniformLocal, List.length_flatMap, List.length_map, List.length_range, ringCount]

theorem mem_circularUniformRandomLocal (no0 no1 : Nat) (radius : ℝ) (U V : Nat → ℝ) (p : Vec3 ℝ) :
    p ∈ circularUniformRandomLocal no0 no1 radius U V ↔
      ∃ a, a < no0 ∧ ∃ b, b < no1 ∧ p = polarPoint (radius * Real.sqrt (U a)) (V b) := by
  simp only [circularUniformRandomLocal, List.mem_flatMap, List.mem_map, List.mem_range, num_sqrt]
  constructor
  · rintro ⟨i, hi, j, hj, rfl⟩; exact ⟨i, hi, j, hj, rfl⟩
  · rintro ⟨i, hi, j, hj, rfl⟩; exact ⟨i, hi, j, hj, rfl⟩

theorem length_circularUniformRandomLocal (no0 no1 : Nat) (radius : ℝ) (U V : Nat → ℝ) :
    (circularUniformRandomLocal no0 no1 radius U V).length = no0 * no1 := by
  simp only [circularUniformRandomLocal, List.length_flatMap, List.length_map, List.length_range, List.map_const', List.sum_replicate,
    smul_eq_mul]

end Odak
