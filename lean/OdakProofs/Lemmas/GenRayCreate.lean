import OdakProofs.Lemmas.GenGeometry
import OdakModel.RaysMore
import OdakModel.Generated.RayCreate
import OdakModel.Generated.RayCreateBatch

/-!
  Tie theorems: every definition of `Generated/RayCreate.lean` / `Generated/RayCreateBatch.lean` (regenerated from the Python source on
  every run by `harness/translate/raycreate.py`) EQUALS the hand-written model definition the C14 theorems are about
  (`OdakModel/Rays.lean: createRayDir`, `OdakModel/RaysMore.lean: rayFromAngles, nearestPoints`).

  * torch / NumPy `create_ray`: for EVERY scalar type (`rfl`), hence also at `Float`.
  * `create_ray_from_angles`: at `α = ℝ`; the rotated point is `rotate_points(new_point, angles, mode, offset = point)` with origin 0 -
    another offset (e.g. `point[:, 0]`, the x coordinate three times), another mode argument or another literal than `5.` changes the
    generated text and `createRayFromAnglesN_eq` stops compiling.
  * `find_nearest_points`: its two branches; `calculate_intersection_of_two_rays`: what its `lstsq` call computes.
-/
namespace Odak
open Odak.Gen

/-! ### `create_ray` (any scalar type) -/
section
set_option linter.unusedSectionVars false
variable {α : Type} [Num α]

/-- torch `create_ray(xyz, abg)`: ray `i` starts at `xyz[i]`, its direction cosines are `cos(deg2rad(abg[i]))` component-wise -/
theorem createRayT_eq {m : Nat} [NeZero m] (xyz abg : Fin m → Vec3 α) (i : Fin m) :
    createRayT xyz abg i = ⟨xyz i, createRayDir (abg i)⟩ := rfl

/-- torch `create_ray(xyz, abg, direction = True)`: `abg[i]` is stored as it is -/
theorem createRayDirectionT_eq {m : Nat} [NeZero m] (xyz abg : Fin m → Vec3 α) (i : Fin m) :
    createRayDirectionT xyz abg i = ⟨xyz i, abg i⟩ := rfl

/-- NumPy `create_ray(x0y0z0, abg)` -/
theorem createRayN_eq (p abg : Vec3 α) : createRayN p abg = ⟨p, createRayDir abg⟩ := rfl

/-- NumPy `create_ray_from_angles` for an `[m x 3]` array of start points: ray `i` is the single-point ray of point `i` (same angles,
    same mode) -/
theorem createRayFromAnglesBatchN_eq {m : Nat} [NeZero m] (point : Fin m → Vec3 α) (angles : Vec3 α) (mode : String) (z : Bool)
    (i : Fin m) :
    createRayFromAnglesBatchN point angles mode z i = createRayFromAnglesN (point i) angles mode z := rfl

end

/-! ### `create_ray_from_angles` (ℝ) -/

theorem num_ofSci_50_1 : (Num.ofSci 50 true 1 : ℝ) = 5 := by simp only [num_ofSci]; norm_num

/-- `s[s == 0] = nan` written with the mask: over ℝ the stored `0 / 0` is the `0` it replaces -/
theorem eqB_mask_zero_nan (s : ℝ) : (if Num.eqB s (Num.ofNat 0) = true then (Num.nan : ℝ) else s) = s := by
  simp only [Num.eqB, Num.nan, num_ofNat, Nat.cast_zero, div_zero, decide_eq_true_eq]
  split_ifs with h
  · exact (le_antisymm h.1 h.2).symm
  · rfl

theorem eqB_mask_zero_nan' (s : ℝ) : (if Num.eqB s 0 = true then (Num.nan : ℝ) else s) = s := by
  have := eqB_mask_zero_nan s
  simpa only [num_ofNat, Nat.cast_zero] using this

/-- NumPy `create_ray_from_angles` is the model's `rayFromAngles` with the matrix order the REGENERATED mode table gives for `mode` -/
theorem createRayFromAnglesN_eq (point angles : Vec3 ℝ) (mode : String) (z : Bool) :
    createRayFromAnglesN point angles mode z =
      rayFromAngles ((modeOrder npRotatePointsModes mode).getD []) point angles z := by
  simp only [createRayFromAnglesN, rayFromAngles, rayDirTwoPoints, npRotatePointsCall, eqB_mask_zero_nan', num_ofSci_50_1,
    num_ofNat, Nat.cast_zero, Nat.cast_ofNat, zero_add]
  refine Ray.ext' rfl ?_
  apply Vec3.ext' <;> gen_simp

/-- ... which is the generated NumPy `create_ray_from_two_points` (itself tied in `Lemmas/GenGeometry.lean`) from the start point to the
    rotated point -/
theorem createRayFromAnglesN_eq_twoPoints (point angles : Vec3 ℝ) (mode : String) (z : Bool) :
    createRayFromAnglesN point angles mode z =
      twoPointsN point (npRotatePointsCall mode angles ⟨0, 0, 0⟩ point ⟨0, 0, 5⟩ z) := by
  rw [createRayFromAnglesN_eq, twoPointsN_eq]
  simp only [rayFromAngles, npRotatePointsCall, num_ofNat, Nat.cast_ofNat]

/-! ### `find_nearest_points`, `calculate_intersection_of_two_rays` (ℝ) -/

/-- the branch test of `find_nearest_points`, as generated, is the model's `someCrossComponentZero` -/
theorem eqB_zero_iff (x : ℝ) : Num.eqB x (Num.ofNat 0) = true ↔ x = 0 := by
  simp only [Num.eqB, num_ofNat, Nat.cast_zero, decide_eq_true_eq]
  exact ⟨fun h => le_antisymm h.1 h.2, fun h => by rw [h]; exact ⟨le_refl _, le_refl _⟩⟩

theorem someCrossComponentZero_iff (r0 r1 : Ray ℝ) :
    someCrossComponentZero r0 r1 = true ↔
      (Vec3.cross r0.d r1.d).x = 0 ∨ (Vec3.cross r0.d r1.d).y = 0 ∨ (Vec3.cross r0.d r1.d).z = 0 := by
  have e : ∀ x : ℝ, (x ≤ 0 ∧ 0 ≤ x) ↔ x = 0 := fun x =>
    ⟨fun h => le_antisymm h.1 h.2, fun h => by rw [h]; exact ⟨le_refl _, le_refl _⟩⟩
  simp only [someCrossComponentZero, e, Bool.and_eq_false_imp, Bool.not_eq_eq_eq_not, Bool.not_true,
    Bool.and_eq_true, decide_eq_false_iff_not, decide_eq_true_eq, Bool.not_false]
  tauto

/-- NumPy `find_nearest_points`, `else` branch (NO component of `d₀ × d₁` is zero): the model's `nearestPoints` -/
theorem findNearestPointsN_eq_of_generic (r0 r1 : Ray ℝ) (h : someCrossComponentZero r0 r1 = false) :
    findNearestPointsN r0 r1 = nearestPoints r0 r1 := by
  have hc : (!((!(Num.eqB (Vec3.cross r0.d r1.d).x (Num.ofNat 0))) && (!(Num.eqB (Vec3.cross r0.d r1.d).y (Num.ofNat 0))) &&
      (!(Num.eqB (Vec3.cross r0.d r1.d).z (Num.ofNat 0))))) = false := by
    simpa only [someCrossComponentZero, Num.eqB, num_ofNat, Nat.cast_zero] using h
  simp only [Vec3.cross] at hc
  simp only [findNearestPointsN, nearestPoints, hc, Bool.false_eq_true, if_false]
  refine Prod.ext ?_ ?_ <;> apply Vec3.ext' <;> gen_simp

/-- NumPy `find_nearest_points`, first branch (SOME component of `d₀ × d₁` is zero): both returned points are THE SAME point, the one
    `calculate_intersection_of_two_rays` returns -/
theorem findNearestPointsN_eq_of_degenerate (r0 r1 : Ray ℝ) (h : someCrossComponentZero r0 r1 = true) :
    findNearestPointsN r0 r1 = ((intersectionOfTwoRaysN r0 r1).1, (intersectionOfTwoRaysN r0 r1).1) := by
  have hc : (!((!(Num.eqB (Vec3.cross r0.d r1.d).x (Num.ofNat 0))) && (!(Num.eqB (Vec3.cross r0.d r1.d).y (Num.ofNat 0))) &&
      (!(Num.eqB (Vec3.cross r0.d r1.d).z (Num.ofNat 0))))) = true := by
    simpa only [someCrossComponentZero, Num.eqB, num_ofNat, Nat.cast_zero] using h
  simp only [Vec3.cross] at hc
  simp only [findNearestPointsN, intersectionOfTwoRaysN, hc, if_true]

/-- the point `calculate_intersection_of_two_rays` returns is `o₀ + t d₀` where `t` is the first returned distance -/
theorem intersectionOfTwoRaysN_point (r0 r1 : Ray ℝ) :
    (intersectionOfTwoRaysN r0 r1).1 = propagateRay r0.o r0.d (intersectionOfTwoRaysN r0 r1).2.1 := by
  simp only [intersectionOfTwoRaysN, propagateRay]
  split_ifs <;> rfl

/-- the returned distances are in descending order -/
theorem intersectionOfTwoRaysN_sorted (r0 r1 : Ray ℝ) :
    (intersectionOfTwoRaysN r0 r1).2.2 ≤ (intersectionOfTwoRaysN r0 r1).2.1 := by
  simp only [intersectionOfTwoRaysN, num_ofNat, Nat.cast_zero, decide_eq_true_eq, neg_le_neg_iff]
  split_ifs <;> first | exact le_refl _ | assumption | (apply le_of_lt; exact not_le.mp ‹_›)

/-- what `np.linalg.lstsq` is modelled by solves the normal equations: for non-parallel directions (`|d₀|²|d₁|² ≠ (d₀·d₁)²`) and rays that
    really meet, `o₀ + s₀ d₀ = o₁ + s₁ d₁`, the solution of `[d₀ d₁] t = o₀ - o₁` is `t = (-s₀, s₁)` -/
theorem lstsq32_of_meeting (r0 r1 : Ray ℝ) (s0 s1 : ℝ)
    (hdet : Vec3.dot r0.d r0.d * Vec3.dot r1.d r1.d - Vec3.dot r0.d r1.d * Vec3.dot r0.d r1.d ≠ 0)
    (hmeet : r0.o + Vec3.smul s0 r0.d = r1.o + Vec3.smul s1 r1.d) :
    Num.lstsq32 r0.d r1.d (r0.o - r1.o) = (-s0, s1) := by
  have hx := congrArg Vec3.x hmeet
  have hy := congrArg Vec3.y hmeet
  have hz := congrArg Vec3.z hmeet
  simp only [Vec3.add_def, Vec3.add, Vec3.smul] at hx hy hz
  have ex : r0.o.x - r1.o.x = s1 * r1.d.x - s0 * r0.d.x := by linarith
  have ey : r0.o.y - r1.o.y = s1 * r1.d.y - s0 * r0.d.y := by linarith
  have ez : r0.o.z - r1.o.z = s1 * r1.d.z - s0 * r0.d.z := by linarith
  simp only [Vec3.dot] at hdet
  simp only [Num.lstsq32, Vec3.dot, Vec3.sub_def, Vec3.sub, ex, ey, ez]
  refine Prod.ext ?_ ?_
  · show _ / _ = -s0
    rw [div_eq_iff hdet]; ring
  · show _ / _ = s1
    rw [div_eq_iff hdet]; ring

/-- the rotated point of `create_ray_from_angles` minus the start point is `5 R ẑ` -/
theorem from_angles_diff (order : List Axis) (point angles : Vec3 ℝ) :
    npRotatePoints order angles ⟨0, 0, 0⟩ point ⟨0, 0, 5⟩ false - point = (rotFromOrder .np order angles).mulVec ⟨0, 0, 5⟩ := by
  apply Vec3.ext' <;>
    simp only [npRotatePoints, Bool.false_eq_true, if_false, rotatePoint, Vec3.add_def, Vec3.sub_def, Vec3.add, Vec3.sub, Mat3.mulVec,
      sub_zero, add_zero] <;> ring

/-- `np.isclose(b, b)` -/
theorem close_self (b : ℝ) : Num.close b b = true := by
  simp only [Num.close, num_abs, num_ofSci, sub_self, abs_zero, decide_eq_true_eq]
  have : (0 : ℝ) ≤ |b| := abs_nonneg b
  have h8 : (0 : ℝ) ≤ ((OfScientific.ofScientific 1 true 8 : ℚ) : ℝ) := by norm_num
  have h5 : (0 : ℝ) ≤ ((OfScientific.ofScientific 1 true 5 : ℚ) : ℝ) := by norm_num
  nlinarith [mul_nonneg h5 this]

end Odak
