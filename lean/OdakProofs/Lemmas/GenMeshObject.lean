import OdakProofs.Lemmas.ObjHeap
import OdakModel.MeshObjectTie

/-!
  # Tie theorems: the `planar_mesh` OBJECT regenerated from the Python source

  `OdakModel/Generated/MeshObject.lean` is rewritten on every run by `harness/translate/meshobject.py` from the current
  `odak/learn/raytracing/mesh.py`.  For the regenerated step functions on a constructed mesh `o.toSelf`: `get_squares`, `get_triangles` and
  `mirror` store NO attribute and write NO object; their values are computed from the content the heights tensor holds AT THE TIME OF THE
  CALL (and the constant lattice, angles, offset).  Hence for every list of calls interleaved with in-place updates of the heights (an
  optimiser), every `mirror` is the mirror of the current heights: no cached triangles can be read, because there is no attribute to keep
  them in.  Triangles cached on `self`: the field list, the stores and the reads of the generated text change and these equalities stop compiling.
-/
set_option linter.unusedVariables false
set_option linter.unusedSimpArgs false
set_option linter.unusedSectionVars false

namespace Odak
open Gen
variable {T R : Type} [DecidableEq R]

theorem gen_meshFields_eq : meshFields = meshObjFields := rfl

theorem gen_meshGetSquaresG_eq (E : MeshOps T R) (o : MeshObj T) (h : Heap T) (hv : T) (hh : h.get o.heights = some hv) :
    meshGetSquaresG E (o.toSelf : PlanarMeshAttrs T R) h = some (o.toSelf, h, meshSquares E o hv, []) := by
  simp [meshGetSquaresG, MeshObj.toSelf, meshSquares, hh]

theorem gen_meshGetTrianglesG_eq (E : MeshOps T R) (o : MeshObj T) (h : Heap T) (av ov nv hv : T) (ha : h.get o.angles = some av)
    (ho : h.get o.offset = some ov) (hn : h.get o.number_of_meshes = some nv) (hh : h.get o.heights = some hv) :
    meshGetTrianglesG E (o.toSelf : PlanarMeshAttrs T R) h = some (o.toSelf, h, meshTriangles E o av ov nv hv, []) := by
  simp only [meshGetTrianglesG, gen_meshGetSquaresG_eq E o h hv hh, Option.bind_eq_bind, Option.bind_some]
  simp [MeshObj.toSelf, meshTriangles, ha, ho, hn]

/-- **`mirror`** stores nothing, writes nothing, and bounces the rays off the triangles of the heights as they are NOW -/
theorem gen_meshMirrorG_eq (E : MeshOps T R) (o : MeshObj T) (h : Heap T) (av ov nv hv : T) (ha : h.get o.angles = some av)
    (ho : h.get o.offset = some ov) (hn : h.get o.number_of_meshes = some nv) (hh : h.get o.heights = some hv) (rays : T) :
    meshMirrorG E (o.toSelf : PlanarMeshAttrs T R) h rays = some (o.toSelf, h, meshMirror E o av ov nv hv rays, []) := by
  by_cases hr : E.rank rays = 2 <;>
    simp [meshMirrorG, gen_meshGetTrianglesG_eq E o h av ov nv hv ha ho hn hh, meshMirror, hr]

/-- `init_heights` on an object whose `size` / `number_of_meshes` are set: the CALLER'S heights are kept by reference (and flagged
    `requires_grad`), without heights a new zero tensor is created; the lattice `X`, `Y` is computed from the current contents -/
theorem gen_meshInitHeightsG_eq (E : MeshOps T R) (s : PlanarMeshAttrs T R) (h : Heap T) (hl : Option Nat) {sl nl : Nat} {sv nv : T}
    (h1 : s.size = some sl) (h2 : s.number_of_meshes = some nl) (g1 : h.get sl = some sv) (g2 : h.get nl = some nv) :
    meshInitHeightsG E s h hl = match hl with
      | some l => some ({ s with heights := some l, X := some (meshInitHeights E sv nv).1, Y := some (meshInitHeights E sv nv).2 }, h, (),
          ["heights", "heights.requires_grad", "X", "Y"])
      | none => some ({ s with heights := some h.size, X := some (meshInitHeights E sv nv).1, Y := some (meshInitHeights E sv nv).2 },
          (h.alloc (E.zerosT [E.getIdx nv [0], E.getIdx nv [1], E.int 1])).1, (), ["heights", "X", "Y"]) := by
  have hlt1 := Heap.get_eq_some_lt g1
  have hlt2 := Heap.get_eq_some_lt g2
  cases hl with
  | some l => simp [meshInitHeightsG, h1, h2, g1, g2, meshInitHeights]
  | none => simp [meshInitHeightsG, h1, h2, g1, g2, meshInitHeights, Heap.get_alloc_of_some g1, Heap.get_alloc_of_some g2]

/-- **`__init__`**: every tensor argument is kept BY REFERENCE -/
theorem gen_meshInitG_eq (E : MeshOps T R) (h : Heap T) (sl nl al ol : Nat) (hl : Option Nat) (sv nv : T) (g1 : h.get sl = some sv)
    (g2 : h.get nl = some nv) :
    meshInitG E PlanarMeshAttrs.empty h sl nl al ol () hl = match hl with
      | some l => some ((⟨al, ol, sl, nl, l, (meshInitHeights E sv nv).1, (meshInitHeights E sv nv).2⟩ : MeshObj T).toSelf, h, (),
          ["device", "angles", "offset", "size", "number_of_meshes", "heights", "heights.requires_grad", "X", "Y"])
      | none => some ((⟨al, ol, sl, nl, h.size, (meshInitHeights E sv nv).1, (meshInitHeights E sv nv).2⟩ : MeshObj T).toSelf,
          (h.alloc (E.zerosT [E.getIdx nv [0], E.getIdx nv [1], E.int 1])).1, (), ["device", "angles", "offset", "size", "number_of_meshes", "heights", "X", "Y"]) := by
  simp only [meshInitG, PlanarMeshAttrs.empty, Option.bind_eq_bind, Option.bind_some, Option.pure_def]
  rw [gen_meshInitHeightsG_eq E _ h hl (sl := sl) (nl := nl) (sv := sv) (nv := nv) rfl rfl g1 g2]
  cases hl <;> simp [MeshObj.toSelf]

theorem MeshInv.learn {o : MeshObj T} {h : Heap T} {av ov nv : T} (inv : MeshInv o h av ov nv) (v : T) : MeshInv o (h.set o.heights v) av ov nv := by
  obtain ⟨hv, hh⟩ := inv.hh
  exact ⟨by rw [Heap.get_set_ne inv.d1, inv.ha], by rw [Heap.get_set_ne inv.d2, inv.ho], by rw [Heap.get_set_ne inv.d3, inv.hn],
    ⟨v, Heap.get_set_self hh v⟩, inv.d1, inv.d2, inv.d3⟩

/-- **every list of calls** (`mirror`, `get_triangles`, `get_squares`, interleaved with in-place updates of the heights): every value is
    computed from the content the heights hold at the time of THAT call; no call stores an attribute (every log is empty, the attribute
    record is unchanged) -/
theorem mesh_run (E : MeshOps T R) (o : MeshObj T) (av ov nv : T) (xs : List (MCall T)) (h : Heap T) (hv : T) (inv : MeshInv o h av ov nv)
    (hh : h.get o.heights = some hv) (hv' : T) (zs : List (MRet T × List String))
    (href : runSteps (meshRefStep E o av ov nv) hv xs = some (hv', zs)) :
    ∃ h', runSteps (meshStep E) ((o.toSelf : PlanarMeshAttrs T R), h) xs = some ((o.toSelf, h'), zs) ∧ MeshInv o h' av ov nv ∧
      h'.get o.heights = some hv' := by
  obtain ⟨s', ys, e, ev, ⟨e1, inv', hh'⟩, -⟩ := runSteps_track (meshStep E) (meshRefStep E o av ov nv) id
    (fun (s : PlanarMeshAttrs T R × Heap T) (g : T) => s.1 = o.toSelf ∧ MeshInv o s.2 av ov nv ∧ s.2.get o.heights = some g) (fun _ => True)
    (fun _ _ => True) (fun _ => trivial) (fun _ _ _ _ _ => trivial)
    (by
      intro s g x g' z hr _ hrf
      obtain ⟨s1, h1⟩ := s
      obtain ⟨e1, inv1, hh1⟩ := hr
      simp only at e1 inv1 hh1
      subst e1
      cases x with
      | mirror rays =>
        simp only [meshRefStep, Option.some.injEq, Prod.mk.injEq] at hrf
        obtain ⟨rfl, rfl⟩ := hrf
        exact ⟨(o.toSelf, h1), _, by simp [meshStep, gen_meshMirrorG_eq E o h1 av ov nv g inv1.ha inv1.ho inv1.hn hh1], rfl, ⟨rfl, inv1, hh1⟩, trivial⟩
      | getTriangles =>
        simp only [meshRefStep, Option.some.injEq, Prod.mk.injEq] at hrf
        obtain ⟨rfl, rfl⟩ := hrf
        exact ⟨(o.toSelf, h1), _, by simp [meshStep, gen_meshGetTrianglesG_eq E o h1 av ov nv g inv1.ha inv1.ho inv1.hn hh1], rfl, ⟨rfl, inv1, hh1⟩, trivial⟩
      | getSquares =>
        simp only [meshRefStep, Option.some.injEq, Prod.mk.injEq] at hrf
        obtain ⟨rfl, rfl⟩ := hrf
        exact ⟨(o.toSelf, h1), _, by simp [meshStep, gen_meshGetSquaresG_eq E o h1 g hh1], rfl, ⟨rfl, inv1, hh1⟩, trivial⟩
      | learn v =>
        simp only [meshRefStep, Option.some.injEq, Prod.mk.injEq] at hrf
        obtain ⟨rfl, rfl⟩ := hrf
        exact ⟨(o.toSelf, h1.set o.heights v), _, by simp [meshStep, MeshObj.toSelf], rfl, ⟨rfl, inv1.learn v, Heap.get_set_self hh1 v⟩, trivial⟩)
    xs (o.toSelf, h) hv hv' zs ⟨rfl, inv, hh⟩ (fun _ _ => trivial) href
  obtain ⟨s1, h1⟩ := s'
  simp only at e1
  subst e1
  exact ⟨h1, by simpa using e.trans (by rw [← ev]; simp), inv', hh'⟩

end Odak
