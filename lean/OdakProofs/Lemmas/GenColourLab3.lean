import OdakProofs.Lemmas.GenColourTensors

/-! Layout theorems of the regenerated `lab_to_srgb` (see `GenColourLab.lean`), channel-last input. -/
namespace Odak
open Tensor
set_option linter.unusedVariables false
set_option linter.unusedSimpArgs false
set_option maxHeartbeats 1000000

/-! ### channel-last input (the four parts are separate lemmas so that they are checked in parallel) -/

theorem lab_to_srgb_last_shape (img : Tensor ℝ) (m n : Nat) (h : img.shape = [m, n, 3]) : (GenT.lab_to_srgb img).shape = [3, m, n] := by
  tensor_simp [GenT.lab_to_srgb, h]

theorem lab_to_srgb_last_x (img : Tensor ℝ) (m n : Nat) (h : img.shape = [m, n, 3]) (i j : Nat) (hi : i < m) (hj : j < n) :
    (pixel3 (GenT.lab_to_srgb img) i j).x = (Gen.labToSrgb (pixelLast img i j)).x := by
  tensor_simp [GenT.lab_to_srgb, Gen.labToSrgb, h, hi, hj]

theorem lab_to_srgb_last_y (img : Tensor ℝ) (m n : Nat) (h : img.shape = [m, n, 3]) (i j : Nat) (hi : i < m) (hj : j < n) :
    (pixel3 (GenT.lab_to_srgb img) i j).y = (Gen.labToSrgb (pixelLast img i j)).y := by
  tensor_simp [GenT.lab_to_srgb, Gen.labToSrgb, h, hi, hj]

theorem lab_to_srgb_last_z (img : Tensor ℝ) (m n : Nat) (h : img.shape = [m, n, 3]) (i j : Nat) (hi : i < m) (hj : j < n) :
    (pixel3 (GenT.lab_to_srgb img) i j).z = (Gen.labToSrgb (pixelLast img i j)).z := by
  tensor_simp [GenT.lab_to_srgb, Gen.labToSrgb, h, hi, hj]

theorem lab_to_srgb_layout_last (img : Tensor ℝ) (m n : Nat) (h : img.shape = [m, n, 3]) (i j : Nat) (hi : i < m) (hj : j < n) :
    (GenT.lab_to_srgb img).shape = [3, m, n] ∧ pixel3 (GenT.lab_to_srgb img) i j = Gen.labToSrgb (pixelLast img i j) :=
  ⟨lab_to_srgb_last_shape img m n h,
   Vec3.ext' (lab_to_srgb_last_x img m n h i j hi hj) (lab_to_srgb_last_y img m n h i j hi hj) (lab_to_srgb_last_z img m n h i j hi hj)⟩

end Odak
