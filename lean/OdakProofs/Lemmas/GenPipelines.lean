import OdakProofs.Lemmas.GenKernels
import OdakProofs.Lemmas.NumpyPipelines
import OdakModel.PipelineTie

/-! # Tie theorems: the propagation PIPELINES regenerated from the Python source are the hand-written model

  `OdakModel/Generated/Pipelines.lean` is rewritten on every run by `harness/translate/pipelines.py` from the current
  `odak/learn/wave/classical.py`, `odak/wave/classical.py`, `odak/learn/tools/matrix.py`, `odak/learn/wave/propagators.py`:
  which FFT, which shift, which product, pad / crop, in which order, statement by statement.  Every theorem below says that a
  regenerated definition EQUALS the hand-written definition of `OdakModel/Propagate.lean` / `OdakModel/PropagateBeam.lean` that
  the property theorems (C01, C02, C03, C04, C06) are about.  A changed shift function, an exchanged order of operations, a
  factor applied twice, a different kernel handed to `custom`, a different padding sequence in the source changes the generated
  text and one of these equalities stops compiling.

  * `gen_customT_eq`, `gen_customPadT_eq`, `gen_customStackT_eq` hold for EVERY scalar instantiation (in particular at `Float`,
    the model the correspondence executes); the stack theorem is new: `fftshift` / `ifftshift` are called without `dim`, so a
    stack `[k × n × m]` has its batch axis rolled before the products and rolled back after them, and the pipeline is the 2-D
    pipeline applied to every field, for every `k` (odd `k` too);
  * the method / dispatch theorems are at `α = ℝ` because the kernels are equal at `ℝ` (`GenKernels.lean`);
  * the propagator step is in `GenPropagator.lean`.
  Proofs unfold with `simp only` rather than `rfl` where a FAILED equality would otherwise make the elaborator normalise DFT sums. -/

set_option linter.unreachableTactic false
set_option linter.unusedTactic false

namespace Odak
open Gen CGrid

section generic
variable {α : Type} [Num α] {n m k : Nat}

theorem gen_customT_eq (u H A : CGrid α n m) : customT u H A = custom u H A := by
  simp only [customT, custom]
theorem gen_customPadT_eq (u H A : CGrid α n m) : customPadT u H A = customPad u H A := by
  simp only [customPadT, customPad]

/-- `kernel = None`: the kernel is `torch.ones` -/
theorem gen_customOnesT_eq (u A : CGrid α n m) : customOnesT u A = custom u (const 1) A := by
  simp only [customOnesT, custom]

theorem fftshiftIdx_ifftshiftIdx (b : Fin k) : fftshiftIdx (ifftshiftIdx b) = b :=
  (fsE k).symm_apply_apply b
theorem ifftshiftIdx_fftshiftIdx (b : Fin k) : ifftshiftIdx (fftshiftIdx b) = b :=
  (fsE k).apply_symm_apply b

theorem gen_customStackT_eq (us : CStack α k n m) (H A : CGrid α n m) :
    customStackT us H A = us.map (fun u => custom u H A) := by
  apply Vector.ext; intro b hb
  simp only [customStackT, CStack.ifft2, CStack.ifftshiftAll, CStack.mulL, CStack.mulR, CStack.fftshiftAll, CStack.fft2,
    Vector.getElem_map, Vector.getElem_ofFn, Fin.getElem_fin, custom]
  have h := congrArg Fin.val (fftshiftIdx_ifftshiftIdx (⟨b, hb⟩ : Fin k))
  simp only at h
  simp only [h]

/-! ### `crop_center (zero_pad u) = u` at the level of grids (through the regenerated index expressions) -/
section padcrop
open Index

theorem torchCrop_src0 (h w i : ℕ) : (torchCrop false 0 (2 * h) (2 * w) 0 0).src i = some (i + (h - h / 2)) := by
  simp only [torchCrop, loadAxis, pySliceBounds, torchCropDef_lo0, torchCropDef_hi0, Option.some.injEq]
  split_ifs <;> omega
theorem torchCrop_src1 (h w i : ℕ) : (torchCrop false 1 (2 * h) (2 * w) 0 0).src i = some (i + (w - w / 2)) := by
  simp only [torchCrop, loadAxis, pySliceBounds, torchCropDef_lo1, torchCropDef_hi1, Option.some.injEq]
  split_ifs <;> omega
theorem torchPad_src0 (h w i : ℕ) (hi : i < h) : (torchPad false 0 h w 0 0).2.src (i + (h - h / 2)) = some i := by
  have hc : torchPadDef_lo0 h w 0 0 ≤ ((i + (h - h / 2) : ℕ) : ℤ) ∧ ((i + (h - h / 2) : ℕ) : ℤ) < torchPadDef_hi0 h w 0 0 := by
    simp only [torchPadDef_lo0, torchPadDef_hi0]; omega
  simp only [torchPad, storeAxis]
  rw [if_pos hc]
  simp only [torchPadDef_lo0, Option.some.injEq]; omega
theorem torchPad_src1 (h w i : ℕ) (hi : i < w) : (torchPad false 1 h w 0 0).2.src (i + (w - w / 2)) = some i := by
  have hc : torchPadDef_lo1 h w 0 0 ≤ ((i + (w - w / 2) : ℕ) : ℤ) ∧ ((i + (w - w / 2) : ℕ) : ℤ) < torchPadDef_hi1 h w 0 0 := by
    simp only [torchPadDef_lo1, torchPadDef_hi1]; omega
  simp only [torchPad, storeAxis]
  rw [if_pos hc]
  simp only [torchPadDef_lo1, Option.some.injEq]; omega

theorem cropGrid_padGrid {α : Type} [Num α] {h w : Nat} (u : CGrid α h w) : cropGrid (padGrid u) = u := by
  apply Grid.ext_get; intro i j
  have a1 : i.val + (h - h / 2) < 2 * h := by omega
  have b1 : j.val + (w - w / 2) < 2 * w := by omega
  simp only [cropGrid, padGrid, Grid.get_ofFn, torchCrop_src0, torchCrop_src1, dif_pos a1, dif_pos b1,
    torchPad_src0 h w i.val i.isLt, torchPad_src1 h w j.val j.isLt, i.isLt, j.isLt, dite_true, Fin.eta]
end padcrop

end generic

/-! ## at `α = ℝ` -/
variable {n m : ℕ}

theorem mul_one' (g : CGrid ℝ n m) : mul g (const 1) = g := by rw [mul_comm', one_mul']

/-- no aperture = the aperture `1.` -/
theorem custom_const_one (u H : CGrid ℝ n m) : custom u H (const 1) = customNoAp u H := by
  unfold custom customNoAp; rw [mul_one']

/-! ### kernels that `Generated/Pipelines.lean` adds to `Generated/WaveKernels.lean` -/

theorem gen_irKernelT_eq (n m : ℕ) (dx lam z : ℝ) (s0 s1 s2 s3 : ℕ) :
    irKernelT n m dx lam z s0 s1 s2 s3 = irKernel n m dx lam z s0 s1 s2 s3 := by
  apply Grid.ext_get; intro i j
  simp only [irKernelT, irKernel, CGrid.divR, CGrid.scaleR, Grid.get_map, gen_irSpatialT_eq]
  apply toC_injective
  simp only [toC_divR, toC_smul, num_ofNat]
  push_cast
  ring

theorem gen_incoherentCoherentKernelT_eq (n m : ℕ) (dx lam z : ℝ) :
    incoherentCoherentKernelT n m dx lam z = asKernel n m dx lam z := by
  apply Grid.ext_get; intro i j
  simp only [incoherentCoherentKernelT, asKernel, Grid.get_ofFn, asPhase, freq, asRadicand, num_two, num_ofNat, Nat.cast_one,
    Nat.cast_ofNat]
    <;> ring_nf

theorem gen_incoherentKernelT_eq (n m : ℕ) (dx lam z : ℝ) :
    incoherentKernelT n m dx lam z = incoherentKernel n m dx lam z := by
  simp only [incoherentKernelT, incoherentKernel, gen_incoherentCoherentKernelT_eq, CGrid.conj]

/-- the dispatch of torch `get_propagation_kernel` -/
theorem gen_propagationKernelT_eq (ptype : String) (n m : ℕ) (dx lam z : ℝ) (s0 s1 s2 s3 : ℕ) :
    propagationKernelT ptype n m dx lam z s0 s1 s2 s3 = torchKernel ptype n m dx lam z s0 s1 s2 s3 := by
  simp only [propagationKernelT, torchKernel, gen_asKernelT_eq, gen_blKernelT_eq, gen_tfKernelT_eq, gen_irKernelT_eq,
    gen_incoherentKernelT_eq]
  split_ifs <;> simp_all

/-! ### the torch methods: kernel helper -> `custom` -/

theorem gen_angularSpectrumT_eq (u A : CGrid ℝ n m) (dx lam z : ℝ) :
    angularSpectrumT u A dx lam z = custom u (asKernel n m dx lam z) A := by
  simp only [angularSpectrumT, gen_asKernelT_eq, gen_customT_eq]
theorem gen_bandLimitedAngularSpectrumT_eq (u A : CGrid ℝ n m) (dx lam z : ℝ) :
    bandLimitedAngularSpectrumT u A dx lam z = custom u (blKernel n m dx lam z) A := by
  simp only [bandLimitedAngularSpectrumT, gen_blKernelT_eq, gen_customT_eq]
theorem gen_transferFunctionFresnelT_eq (u A : CGrid ℝ n m) (dx lam z : ℝ) :
    transferFunctionFresnelT u A dx lam z = custom u (tfKernel n m dx lam (wavenumber lam) z) A := by
  simp only [transferFunctionFresnelT, gen_tfKernelT_eq, gen_customT_eq]
theorem gen_impulseResponseFresnelT_eq (u A : CGrid ℝ n m) (dx lam z : ℝ) (s0 s1 s2 s3 : ℕ) :
    impulseResponseFresnelT u A dx lam z s0 s1 s2 s3 = custom u (irKernel n m dx lam z s0 s1 s2 s3) A := by
  simp only [impulseResponseFresnelT, gen_irKernelT_eq, gen_customT_eq]
theorem gen_incoherentAngularSpectrumT_eq (u A : CGrid ℝ n m) (dx lam z : ℝ) :
    incoherentAngularSpectrumT u A dx lam z = custom u (incoherentKernel n m dx lam z) A := by
  simp only [incoherentAngularSpectrumT, gen_incoherentKernelT_eq, gen_customT_eq]

theorem gen_angularSpectrumPadT_eq (u A : CGrid ℝ n m) (dx lam z : ℝ) :
    angularSpectrumPadT u A dx lam z = customPad u (asKernel n m dx lam z) A := by
  simp only [angularSpectrumPadT, gen_asKernelT_eq, gen_customPadT_eq]
theorem gen_bandLimitedAngularSpectrumPadT_eq (u A : CGrid ℝ n m) (dx lam z : ℝ) :
    bandLimitedAngularSpectrumPadT u A dx lam z = customPad u (blKernel n m dx lam z) A := by
  simp only [bandLimitedAngularSpectrumPadT, gen_blKernelT_eq, gen_customPadT_eq]
theorem gen_transferFunctionFresnelPadT_eq (u A : CGrid ℝ n m) (dx lam z : ℝ) :
    transferFunctionFresnelPadT u A dx lam z = customPad u (tfKernel n m dx lam (wavenumber lam) z) A := by
  simp only [transferFunctionFresnelPadT, gen_tfKernelT_eq, gen_customPadT_eq]
theorem gen_impulseResponseFresnelPadT_eq (u A : CGrid ℝ n m) (dx lam z : ℝ) (s0 s1 s2 s3 : ℕ) :
    impulseResponseFresnelPadT u A dx lam z s0 s1 s2 s3 = customPad u (irKernel n m dx lam z s0 s1 s2 s3) A := by
  simp only [impulseResponseFresnelPadT, gen_irKernelT_eq, gen_customPadT_eq]
theorem gen_incoherentAngularSpectrumPadT_eq (u A : CGrid ℝ n m) (dx lam z : ℝ) :
    incoherentAngularSpectrumPadT u A dx lam z = customPad u (incoherentKernel n m dx lam z) A := by
  simp only [incoherentAngularSpectrumPadT, gen_incoherentKernelT_eq, gen_customPadT_eq]

/-- with the default aperture `1.` the regenerated methods ARE the hand model's `torchAS`, `torchBL`, `torchTF`, `torchIR` -/
theorem gen_torch_methods_eq (u : CGrid ℝ n m) (dx lam z : ℝ) (s0 s1 s2 s3 : ℕ) :
    angularSpectrumT u (const 1) dx lam z = torchAS u dx lam z ∧
    bandLimitedAngularSpectrumT u (const 1) dx lam z = torchBL u dx lam z ∧
    transferFunctionFresnelT u (const 1) dx lam z = torchTF u dx lam z ∧
    impulseResponseFresnelT u (const 1) dx lam z s0 s1 s2 s3 = torchIR u dx lam z s0 s1 s2 s3 := by
  rw [gen_angularSpectrumT_eq, gen_bandLimitedAngularSpectrumT_eq, gen_transferFunctionFresnelT_eq,
    gen_impulseResponseFresnelT_eq, custom_const_one, custom_const_one, custom_const_one, custom_const_one]
  exact ⟨rfl, rfl, rfl, rfl⟩

theorem gen_fraunhoferT_eq (u : CGrid ℝ n m) (dx lam k z : ℝ) :
    fraunhoferT u dx lam k z = torchFraunhofer u dx lam k z := by
  apply Grid.ext_get; intro i j
  simp only [fraunhoferT, torchFraunhofer, fraunhoferCoefT, CGrid.scaleR, Grid.get_map, Grid.get_ofFn, mul, Grid.get_zipWith,
    num_two, num_half, num_ofNat, Nat.cast_ofNat, num_ofSci]
  norm_num

/-! ### NumPy -/

theorem gen_angularSpectrumN_eq (u : CGrid ℝ n m) (dx lam k z : ℝ) :
    angularSpectrumN u dx lam k z = npAS u dx lam k z := by
  simp only [angularSpectrumN, gen_asKernelN_eq, npAS, customNoAp]
theorem gen_bandLimitedAngularSpectrumN_eq (u : CGrid ℝ n m) (dx lam k z : ℝ) :
    bandLimitedAngularSpectrumN u dx lam k z = npBL u dx lam k z := by
  simp only [bandLimitedAngularSpectrumN, gen_blKernelN_eq, npBL, customNoAp]
theorem gen_transferFunctionFresnelN_eq (u : CGrid ℝ n m) (dx lam k z : ℝ) :
    transferFunctionFresnelN u dx lam k z = npTF u dx lam k z := by
  simp only [transferFunctionFresnelN, gen_tfKernelN_eq, npTF, CGrid.scaleR, CGrid.divR, num_ofNat, Nat.cast_one]
theorem gen_impulseResponseFresnelN_eq (u : CGrid ℝ n m) (dx lam k z : ℝ) :
    impulseResponseFresnelN u dx lam k z = npIR u dx lam k z := by
  simp only [impulseResponseFresnelN, gen_irKernelN_eq, npIR, CGrid.scaleR, CGrid.divR]
theorem gen_fraunhoferN_eq (u : CGrid ℝ n m) (dx lam k z : ℝ) :
    fraunhoferN u dx lam k z = npFraunhofer u dx lam k z := by
  apply Grid.ext_get; intro i j
  simp only [fraunhoferN, npFraunhofer, fraunhoferCoefN, CGrid.scaleR, Grid.get_map, Grid.get_ofFn, mul, Grid.get_zipWith,
    num_two, num_ofNat, Nat.cast_ofNat, Nat.cast_one]

theorem gen_propagateBeamN_eq (ptype : String) (u : CGrid ℝ n m) (dx lam k z : ℝ) :
    propagateBeamN ptype u dx lam k z = npBeam ptype u dx lam k z := by
  simp only [propagateBeamN, npBeam, gen_angularSpectrumN_eq, gen_bandLimitedAngularSpectrumN_eq,
    gen_transferFunctionFresnelN_eq, gen_impulseResponseFresnelN_eq, gen_fraunhoferN_eq]
  -- the dispatch tests are string comparisons (some of them disjunctions of two accepted names): decide each name once
  by_cases e1 : ptype = "Angular Spectrum"
  · subst e1; simp
  by_cases e2 : ptype = "Bandlimited Angular Spectrum"
  · subst e2; simp
  by_cases e3 : ptype = "Transfer Function Fresnel"
  · subst e3; simp
  by_cases e4 : ptype = "TR Fresnel"
  · subst e4; simp
  by_cases e5 : ptype = "Impulse Response Fresnel"
  · subst e5; simp
  by_cases e6 : ptype = "IR Fresnel"
  · subst e6; simp
  by_cases e7 : ptype = "Fraunhofer"
  · subst e7; simp
  simp [e1, e2, e3, e4, e5, e6, e7]

/-! ### torch `propagate_beam`: the three padding flags around the dispatch -/

theorem gen_beamCore_eq (ptype : String) (u A Kc : CGrid ℝ n m) (dx lam k z : ℝ) (s0 s1 s2 s3 : ℕ) :
    propagateBeamT_FFF ptype u A Kc dx lam k z s0 s1 s2 s3 = torchBeamCore ptype u A Kc dx lam k z s0 s1 s2 s3 := by
  simp only [propagateBeamT_FFF, torchBeamCore, torchKernel, gen_angularSpectrumT_eq, gen_bandLimitedAngularSpectrumT_eq,
    gen_transferFunctionFresnelT_eq, gen_impulseResponseFresnelT_eq, gen_incoherentAngularSpectrumT_eq, gen_fraunhoferT_eq,
    gen_customT_eq]
  split_ifs <;> simp_all

theorem gen_beamCorePad_eq (ptype : String) (u A Kc : CGrid ℝ n m) (dx lam k z : ℝ) (s0 s1 s2 s3 : ℕ) :
    propagateBeamT_FTF ptype u A Kc dx lam k z s0 s1 s2 s3 = torchBeamCorePad ptype u A Kc dx lam z s0 s1 s2 s3 := by
  simp only [propagateBeamT_FTF, torchBeamCorePad, torchKernel, gen_angularSpectrumPadT_eq, gen_bandLimitedAngularSpectrumPadT_eq,
    gen_transferFunctionFresnelPadT_eq, gen_impulseResponseFresnelPadT_eq, gen_incoherentAngularSpectrumPadT_eq,
    gen_customPadT_eq]
  split_ifs <;> simp_all

/-- `zero_padding = [p0, False, p2]`: optional `zero_pad` of the field (the kernel is then built for the doubled `nu`, `nv`), the
    dispatch, optional `crop_center` -/
theorem gen_propagateBeamT_noFourierPad (ptype : String) (u : CGrid ℝ n m) (v A' Kc' : CGrid ℝ (2 * n) (2 * m))
    (A Kc : CGrid ℝ n m) (dx lam k z : ℝ) (s0 s1 s2 s3 : ℕ) :
    propagateBeamT_FFF ptype u A Kc dx lam k z s0 s1 s2 s3 = torchBeamCore ptype u A Kc dx lam k z s0 s1 s2 s3 ∧
    propagateBeamT_FFT ptype v A' Kc' dx lam k z s0 s1 s2 s3
      = (torchBeamCore ptype v A' Kc' dx lam k z s0 s1 s2 s3).map cropGrid ∧
    propagateBeamT_TFF ptype u A' Kc' dx lam k z s0 s1 s2 s3 = torchBeamCore ptype (padGrid u) A' Kc' dx lam k z s0 s1 s2 s3 ∧
    propagateBeamT_TFT ptype u A' Kc' dx lam k z s0 s1 s2 s3
      = (torchBeamCore ptype (padGrid u) A' Kc' dx lam k z s0 s1 s2 s3).map cropGrid := by
  refine ⟨gen_beamCore_eq .., ?_, ?_, ?_⟩
  · rw [← gen_beamCore_eq]; simp only [propagateBeamT_FFT, propagateBeamT_FFF]
  · rw [← gen_beamCore_eq]; simp only [propagateBeamT_TFF, propagateBeamT_FFF]
  · rw [← gen_beamCore_eq]; simp only [propagateBeamT_TFT, propagateBeamT_FFF]

/-- `zero_padding = [p0, True, p2]`: the same with the Fourier-domain padding of `custom` -/
theorem gen_propagateBeamT_fourierPad (ptype : String) (u A Kc : CGrid ℝ n m) (A' Kc' : CGrid ℝ (2 * n) (2 * m))
    (dx lam k z : ℝ) (s0 s1 s2 s3 : ℕ) :
    propagateBeamT_FTF ptype u A Kc dx lam k z s0 s1 s2 s3 = torchBeamCorePad ptype u A Kc dx lam z s0 s1 s2 s3 ∧
    propagateBeamT_FTT ptype u A Kc dx lam k z s0 s1 s2 s3
      = (torchBeamCorePad ptype u A Kc dx lam z s0 s1 s2 s3).map cropGrid ∧
    propagateBeamT_TTF ptype u A' Kc' dx lam k z s0 s1 s2 s3 = torchBeamCorePad ptype (padGrid u) A' Kc' dx lam z s0 s1 s2 s3 ∧
    propagateBeamT_TTT ptype u A' Kc' dx lam k z s0 s1 s2 s3
      = (torchBeamCorePad ptype (padGrid u) A' Kc' dx lam z s0 s1 s2 s3).map cropGrid := by
  refine ⟨gen_beamCorePad_eq .., ?_, ?_, ?_⟩
  · rw [← gen_beamCorePad_eq (k := k)]; simp only [propagateBeamT_FTT, propagateBeamT_FTF]
  · rw [← gen_beamCorePad_eq (k := k)]; simp only [propagateBeamT_TTF, propagateBeamT_FTF]
  · rw [← gen_beamCorePad_eq (k := k)]; simp only [propagateBeamT_TTT, propagateBeamT_FTF]

/-- the default call `propagate_beam(u, …, 'Angular Spectrum' | 'Bandlimited Angular Spectrum' | 'Transfer Function Fresnel',
    zero_padding = [True, False, True])` without aperture is pad -> the hand model's method at the doubled size -> crop
    (the model op `t_pc` of the correspondence checks) -/
theorem gen_propagateBeamT_default (u : CGrid ℝ n m) (Kc : CGrid ℝ (2 * n) (2 * m)) (dx lam k z : ℝ) (s0 s1 s2 s3 : ℕ) :
    propagateBeamT_TFT "Angular Spectrum" u (const 1) Kc dx lam k z s0 s1 s2 s3 = some (cropGrid (torchAS (padGrid u) dx lam z)) ∧
    propagateBeamT_TFT "Bandlimited Angular Spectrum" u (const 1) Kc dx lam k z s0 s1 s2 s3
      = some (cropGrid (torchBL (padGrid u) dx lam z)) ∧
    propagateBeamT_TFT "Transfer Function Fresnel" u (const 1) Kc dx lam k z s0 s1 s2 s3
      = some (cropGrid (torchTF (padGrid u) dx lam z)) := by
  simp only [(gen_propagateBeamT_noFourierPad _ u (padGrid u) (const 1) Kc (const 1) u dx lam k z s0 s1 s2 s3).2.2.2,
    torchBeamCore, torchKernel, custom_const_one]
  exact ⟨rfl, rfl, rfl⟩

end Odak
