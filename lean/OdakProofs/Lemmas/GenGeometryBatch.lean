import OdakModel.Generated.GeometryBatch
import OdakModel.Generated.GeometryGen

/-!
  Tie theorems for `Generated/GeometryBatch.lean` (regenerated from the Python source on every run by
  `harness/translate/geombatch.py`): every element of a BATCHED routine equals the single-pair definition of
  `Generated/GeometryGen.lean` (itself regenerated, and tied to the hand-written model in `Lemmas/GenGeometry.lean`) at the ray
  and the triangle the element belongs to:

      batch rays tris [j][i] = single (rays i) (tris j)        for every m, k ≥ 1

  (hit point, normal, distance, hit flag), and the lists a batched routine returns (`masked_select` + `split`, `torch.cat` in the
  loop of `planar_mesh.mirror`) are the per-triangle lists of the pairs whose hit flag is set.  The element-wise ties hold for
  EVERY scalar type (`rfl`: the generated batch text, with its lets unfolded, is the generated single-pair text), in particular
  at `Float` and at `ℝ`.  An exchanged axis, a wrong `repeat`, a transposed mask, a normal of another triangle changes the
  generated text and one of these proofs stops compiling.

  This file imports no Mathlib module.
-/
namespace Odak
open Odak.Gen
variable {α : Type} [Num α]

/-! ### one ray, one triangle: the specification the batch is compared with -/

/-- torch `intersect_w_surface` (regenerated, single pair) for a ray and a triangle given as a `Tri` -/
def pairHitT (r : Ray α) (t : Tri α) : Hit α := intersectSurfaceT r t.p0 t.p1 t.p2
/-- the hit flag of one pair: torch `is_it_on_triangle` (regenerated, single pair) at the plane hit -/
def pairFlagT (r : Ray α) (t : Tri α) : Bool := isOnTriangleT (pairHitT r t).point t.p0 t.p1 t.p2
/-- the surface normal returned for one pair: anchored at the hit point, direction = the triangle's normal -/
def pairNormalT (r : Ray α) (t : Tri α) : Ray α := ⟨(pairHitT r t).point, (pairHitT r t).normal⟩
/-- NumPy `intersect_w_surface` (regenerated, single pair) -/
def pairHitN (r : Ray α) (t : Tri α) : Hit α := intersectSurfaceN r t.p0 t.p1 t.p2

/-! ### lists: `flatten` / `masked_select` / `split` -/

namespace Batch

theorem splitSizes_flatMap {ι β : Type} (L : List ι) (g : ι → List β) :
    splitSizes (L.map fun a => (g a).length) (L.flatMap g) = L.map g := by
  induction L with
  | nil => rfl
  | cons a L ih =>
    simp only [List.map_cons, List.flatMap_cons, splitSizes]
    rw [List.take_left' rfl, List.drop_left' rfl, ih]

/-- rows of a `[k, m, ...]` array selected by a `[k, m]` mask, in the row-major order of the flattened array, are the rows selected
    in triangle 0, then those of triangle 1, ... -/
theorem masked_rows {k m : Nat} {β : Type} (c : Fin k → Fin m → Bool) (row : Fin k → Fin m → β) :
    ((flatIdx k m).filter fun p => c p.1 p.2).map (fun p => row p.1 p.2)
      = (List.finRange k).flatMap fun j => ((List.finRange m).filter (c j)).map (row j) := by
  simp only [flatIdx, List.filter_flatMap, List.map_flatMap, List.filter_map, List.map_map]
  rfl

/-- `torch.split` of the masked rows by the row counts of the SAME mask gives back the per-triangle lists -/
theorem groups_eq {k m : Nat} {β : Type} (c : Fin k → Fin m → Bool) (row : Fin k → Fin m → β) :
    splitSizes (rowCounts c) (((flatIdx k m).filter fun p => c p.1 p.2).map (fun p => row p.1 p.2))
      = (List.finRange k).map fun j => ((List.finRange m).filter (c j)).map (row j) := by
  rw [masked_rows]
  have h : rowCounts c = (List.finRange k).map fun j => (((List.finRange m).filter (c j)).map (row j)).length := by
    simp only [rowCounts, List.length_map]
  rw [h]
  exact splitSizes_flatMap (List.finRange k) fun j => ((List.finRange m).filter (c j)).map (row j)

theorem mem_nonEmpty {β : Type} (l : List (List β)) (g : List β) : g ∈ nonEmpty l ↔ g ∈ l ∧ g ≠ [] := by
  simp [nonEmpty, List.mem_filter]

end Batch

/-! ### torch: batch of rays x batch of triangles -/

section
variable {m k : Nat} [NeZero m] [NeZero k]

theorem centerOfTriangleBatchT_eq (tri : Fin k → Tri α) (j : Fin k) :
    centerOfTriangleBatchT tri j = centerOfTriangleT (tri j).p0 (tri j).p1 (tri j).p2 := rfl

/-- every normal of a batch of triangles is the normal of its own triangle (divided by the length of ITS cross product) -/
theorem getTriangleNormalBatchT_eq (tri : Fin k → Tri α) (j : Fin k) :
    getTriangleNormalBatchT tri j = getTriangleNormalT (tri j).p0 (tri j).p1 (tri j).p2 := rfl

/-- `intersect_w_surface_batch`: the element `[j, i]` (hit point, normal, distance) is the plane hit of ray `i` with triangle `j` -/
theorem intersectSurfaceBatchT_eq (ray : Fin m → Ray α) (tri : Fin k → Tri α) (j : Fin k) (i : Fin m) :
    intersectSurfaceBatchT ray tri j i = pairHitT (ray i) (tri j) := rfl

/-- `is_it_on_triangle_batch`: the flag `[j, i]` tests the point `[j, i]` against triangle `j` -/
theorem isOnTriangleBatchT_eq (pts : Fin k → Fin m → Vec3 α) (tri : Fin k → Tri α) (j : Fin k) (i : Fin m) :
    isOnTriangleBatchT pts tri j i = isOnTriangleT (pts j i) (tri j).p0 (tri j).p1 (tri j).p2 := rfl

/-- `intersect_w_triangle_batch`: `normal[j, i]` -/
theorem intersectTriangleBatchNormalT_eq (ray : Fin m → Ray α) (tri : Fin k → Tri α) (j : Fin k) (i : Fin m) :
    intersectTriangleBatchNormalT ray tri j i = pairNormalT (ray i) (tri j) := rfl

/-- `intersect_w_triangle_batch`: `check[j, i]` is the hit flag of the pair (ray `i`, triangle `j`) -/
theorem intersectTriangleBatchCheckT_eq (ray : Fin m → Ray α) (tri : Fin k → Tri α) (j : Fin k) (i : Fin m) :
    intersectTriangleBatchCheckT ray tri j i = pairFlagT (ray i) (tri j) := rfl

/-- the per-triangle lists of the pairs whose flag is set, triangles without a hit dropped -/
def hitGroups {β : Type} (ray : Fin m → Ray α) (tri : Fin k → Tri α) (row : Fin k → Fin m → β) : List (List β) :=
  Batch.nonEmpty ((List.finRange k).map fun j => ((List.finRange m).filter fun i => pairFlagT (ray i) (tri j)).map (row j))

/-- `intersect_w_triangle_batch`: the returned list of groups of intersecting rays -/
theorem intersectTriangleBatchRaysT_eq (ray : Fin m → Ray α) (tri : Fin k → Tri α) :
    intersectTriangleBatchRaysT ray tri = hitGroups ray tri fun _ i => ray i :=
  congrArg Batch.nonEmpty (Batch.groups_eq (fun j i => pairFlagT (ray i) (tri j)) fun _ i => ray i)

/-- `intersect_w_triangle_batch`: the returned list of groups of intersecting normals -/
theorem intersectTriangleBatchNormalsT_eq (ray : Fin m → Ray α) (tri : Fin k → Tri α) :
    intersectTriangleBatchNormalsT ray tri = hitGroups ray tri fun j i => pairNormalT (ray i) (tri j) :=
  congrArg Batch.nonEmpty (Batch.groups_eq (fun j i => pairFlagT (ray i) (tri j)) fun j i => pairNormalT (ray i) (tri j))

/-- `intersect_w_triangle_batch`: the returned list of groups of distances -/
theorem intersectTriangleBatchDistancesT_eq (ray : Fin m → Ray α) (tri : Fin k → Tri α) :
    intersectTriangleBatchDistancesT ray tri = hitGroups ray tri fun j i => (pairHitT (ray i) (tri j)).distance :=
  congrArg Batch.nonEmpty (Batch.groups_eq (fun j i => pairFlagT (ray i) (tri j)) fun j i => (pairHitT (ray i) (tri j)).distance)

end

/-! ### torch: batch of rays x one triangle (`intersect_w_surface`, `is_it_on_triangle`, `intersect_w_triangle`), `reflect`, `planar_mesh.mirror` -/

section
variable {m k n : Nat} [NeZero m] [NeZero k] [NeZero n]

theorem intersectSurfaceRaysT_eq (ray : Fin m → Ray α) (t : Tri α) (i : Fin m) :
    intersectSurfaceRaysT ray t i = pairHitT (ray i) t := rfl

theorem isOnTriangleRaysT_eq (pts : Fin m → Vec3 α) (t : Tri α) (i : Fin m) :
    isOnTriangleRaysT pts t i = isOnTriangleT (pts i) t.p0 t.p1 t.p2 := rfl

theorem intersectTriangleRaysHitT_eq (ray : Fin m → Ray α) (t : Tri α) (i : Fin m) :
    intersectTriangleRaysHitT ray t i = pairHitT (ray i) t := rfl

theorem intersectTriangleRaysCheckT_eq (ray : Fin m → Ray α) (t : Tri α) (i : Fin m) :
    intersectTriangleRaysCheckT ray t i = pairFlagT (ray i) t := rfl

/-- `intersect_w_triangle`: `intersecting_ray` is the batch restricted to the rays whose flag is set, in order -/
theorem intersectTriangleRaysHitRaysT_eq (ray : Fin m → Ray α) (t : Tri α) :
    intersectTriangleRaysHitRaysT ray t = ((List.finRange m).filter fun i => pairFlagT (ray i) t).map ray := rfl

theorem intersectTriangleRaysHitNormalsT_eq (ray : Fin m → Ray α) (t : Tri α) :
    intersectTriangleRaysHitNormalsT ray t = ((List.finRange m).filter fun i => pairFlagT (ray i) t).map fun i => pairNormalT (ray i) t := rfl

/-- `reflect` on a batch: ray `i` is reflected at normal `i` -/
theorem reflectBatchT_eq (ray nrm : Fin n → Ray α) (i : Fin n) : reflectBatchT ray nrm i = reflectT (ray i) (nrm i) := rfl

/-- `planar_mesh.mirror`: triangle after triangle, the rays whose hit flag for THAT triangle is set, each reflected (regenerated
    `reflectT`) at its own hit point with THAT triangle's normal; the second list holds the normals in the same order -/
theorem mirrorT_eq (rays : Fin m → Ray α) (tris : Fin k → Tri α) :
    mirrorT rays tris =
      ((List.finRange k).flatMap fun j => ((List.finRange m).filter fun i => pairFlagT (rays i) (tris j)).map
          fun i => reflectT (rays i) (pairNormalT (rays i) (tris j)),
       (List.finRange k).flatMap fun j => ((List.finRange m).filter fun i => pairFlagT (rays i) (tris j)).map
          fun i => pairNormalT (rays i) (tris j)) := rfl

/-! ### NumPy -/

/-- NumPy `intersect_w_surface` with an `[m x 2 x 3]` batch of rays: element `i` is the single-ray result for ray `i` -/
theorem intersectSurfaceRaysN_eq (ray : Fin m → Ray α) (t : Tri α) (i : Fin m) :
    intersectSurfaceRaysN ray t i = pairHitN (ray i) t := rfl

/-- NumPy `reflect` on a batch: ray `i` is reflected at normal `i` -/
theorem reflectBatchN_eq (ray nrm : Fin n → Ray α) (i : Fin n) : reflectBatchN ray nrm i = reflectN (ray i) (nrm i) := rfl

end

end Odak

/-! ### circles (mask by radius) and NumPy `intersect_w_triangle` -/
namespace Odak
open Odak.Gen
variable {α : Type} [Num α] {m : Nat} [NeZero m]

/-- torch `intersect_w_circle` with a batch of rays: element `i` is the single-ray result for ray `i` (its own distance to the centre
    decides whether its own distance is set to zero) -/
theorem intersectCircleRaysT_eq (ray : Fin m → Ray α) (plane : Tri α) (centre : Vec3 α) (radius : α) (i : Fin m) :
    intersectCircleRaysT ray plane centre radius i = intersectCircleT (ray i) plane.p0 plane.p1 plane.p2 centre radius := rfl

/-- NumPy `intersect_w_circle` with an `[m x 2 x 3]` batch of rays: the NumPy plane hit of ray `i`, its distance set to zero when ITS
    hit point is farther from the centre than the radius -/
theorem intersectCircleRaysN_eq (ray : Fin m → Ray α) (plane : Tri α) (centre : Vec3 α) (radius : α) (i : Fin m) :
    intersectCircleRaysN ray plane centre radius i =
      ⟨(pairHitN (ray i) plane).point, (pairHitN (ray i) plane).normal,
       if decide (radius < Vec3.norm ((pairHitN (ray i) plane).point - centre)) = true then Num.ofNat 0
       else (pairHitN (ray i) plane).distance⟩ := rfl

/-- `reflect` with mixed sizes (both APIs): n rays at one normal, one ray at n normals -/
theorem reflectMixed_eq {n : Nat} [NeZero n] (rays nrms : Fin n → Ray α) (r nrm : Ray α) (i : Fin n) :
    reflectRaysT rays nrm i = reflectT (rays i) nrm ∧ reflectNormalsT r nrms i = reflectT r (nrms i) ∧
    reflectRaysN rays nrm i = reflectN (rays i) nrm ∧ reflectNormalsN r nrms i = reflectN r (nrms i) := ⟨rfl, rfl, rfl, rfl⟩

/-- NumPy `intersect_w_triangle` (one ray): the NumPy plane hit when the three-sided `same_side` test accepts the hit point,
    `0, 0` (`none`) otherwise -/
theorem intersectTriangleN_eq (r : Ray α) (t : Tri α) :
    intersectTriangleN r t =
      if isOnTriangleN (pairHitN r t).point t.p0 t.p1 t.p2 = true then some (pairHitN r t) else none := rfl

end Odak
