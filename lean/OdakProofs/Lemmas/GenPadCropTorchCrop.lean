import OdakProofs.Lemmas.GenPadCropBase

/-! Layout theorems of the regenerated torch `crop_center` (`GenPC.torch_crop_center_default`, `GenPC.torch_crop_center_explicit`,
    regenerated from `odak/learn/tools/matrix.py`): for every documented rank / layout the output has the input's rank and layout,
    the spatial sides are halved (or become the requested size), and the output element `(i, j)` is the input element
    `(i + start, j + start)`.  Any scalar type. -/
namespace Odak
open Tensor
set_option linter.unusedSectionVars false
set_option linter.unusedSimpArgs false
set_option linter.unusedVariables false
set_option linter.unusedTactic false
set_option linter.unreachableTactic false
variable {α : Type} [Num α]

theorem torch_crop_center_default_spec (L : Layout) (x : Tensor α) (k c H W : Nat) (hs : x.shape = L.shape k c H W)
    (ha : L.Accepts c W) :
    (GenPC.torch_crop_center_default x).shape = L.shape k c (H / 2) (W / 2) ∧
    ∀ b ch i j, b < k → ch < c → i < H / 2 → j < W / 2 →
      (GenPC.torch_crop_center_default x).get (L.idx b ch i j) =
        x.get (L.idx b ch (i + (H / 2 - H / 2 / 2)) (j + (W / 2 - W / 2 / 2))) := by
  cases L
  case bhwc =>
    have hc : c < 5 := by simpa [Layout.Accepts] using ha
    refine ⟨?_, ?_⟩
    · padcrop_simp [GenPC.torch_crop_center_default, hs, hc]
      omega
    · intro b ch i j hb hch hi hj
      padcrop_simp [GenPC.torch_crop_center_default, hs, hc]
      first | (apply get4_congr <;> omega) | (apply get3_congr <;> omega) | (apply get2_congr <;> omega)
  all_goals
    have hw : ¬ W < 5 := by simpa [Layout.Accepts] using ha
    refine ⟨?_, ?_⟩
    · padcrop_simp [GenPC.torch_crop_center_default, hs, hw]
      omega
    · intro b ch i j hb hch hi hj
      padcrop_simp [GenPC.torch_crop_center_default, hs, hw]
      first | (apply get4_congr <;> omega) | (apply get3_congr <;> omega) | (apply get2_congr <;> omega)

theorem torch_crop_center_explicit_spec (L : Layout) (x : Tensor α) (k c H W s0 s1 : Nat) (hs : x.shape = L.shape k c H W)
    (ha : L.Accepts c W) (h0 : s0 ≤ H) (h1 : s1 ≤ W) :
    (GenPC.torch_crop_center_explicit x [s0, s1]).shape = L.shape k c s0 s1 ∧
    ∀ b ch i j, b < k → ch < c → i < s0 → j < s1 →
      (GenPC.torch_crop_center_explicit x [s0, s1]).get (L.idx b ch i j) =
        x.get (L.idx b ch (i + (H / 2 - s0 / 2)) (j + (W / 2 - s1 / 2))) := by
  cases L
  case bhwc =>
    have hc : c < 5 := by simpa [Layout.Accepts] using ha
    refine ⟨?_, ?_⟩
    · padcrop_simp [GenPC.torch_crop_center_explicit, hs, hc]
      omega
    · intro b ch i j hb hch hi hj
      padcrop_simp [GenPC.torch_crop_center_explicit, hs, hc]
      first | (apply get4_congr <;> omega) | (apply get3_congr <;> omega) | (apply get2_congr <;> omega)
  all_goals
    have hw : ¬ W < 5 := by simpa [Layout.Accepts] using ha
    refine ⟨?_, ?_⟩
    · padcrop_simp [GenPC.torch_crop_center_explicit, hs, hw]
      omega
    · intro b ch i j hb hch hi hj
      padcrop_simp [GenPC.torch_crop_center_explicit, hs, hw]
      first | (apply get4_congr <;> omega) | (apply get3_congr <;> omega) | (apply get2_congr <;> omega)

end Odak
