import OdakProofs.Lemmas.TenLaws
import OdakProofs.Lemmas.GenPropagatorObject6
import OdakProofs.Lemmas.GenPipelines

/-!
  # Work package 16: what the reference semantics of the propagator object computes in the grid-model instance

  With `E := propOpsGrid` the value `pOut E ap H u` of a forward call on an `[h, w]` field is the tensor of the grid
  `cropGrid (customT (padGrid u) H A)` - the regenerated pipeline between the regenerated pad and crop index maps - and `pKernel` is the
  tensor of the regenerated kernel of that channel's wavelength and that plane's distance (`objKernelGrid`).
-/
set_option linter.unusedVariables false
set_option linter.unusedSimpArgs false
set_option linter.unusedSectionVars false

namespace Odak
open Gen CGrid

namespace Ten
variable {α : Type} [Num α]

theorem padTen_shape (h w : Nat) (t : Ten α) : (padTen h w t).shape = [2 * h, 2 * w] := rfl

theorem zeroPad_of_shape {t : Ten α} {h w : Nat} (ht : t.shape = [h, w]) : zeroPad t = ofGrid (padGrid (toGrid h w t)) := by
  simp only [zeroPad, ht, padTen]

theorem customTen_of_shape {u : Ten α} {n m : Nat} (hu : u.shape = [n, m]) (H A : Ten α) :
    customTen u H A = ofGrid (customT (toGrid n m u) (toGrid n m H) (toGrid n m A)) := by
  simp only [customTen, hu, customGridTen]

theorem cropCenter_ofGrid {h w : Nat} (X : CGrid α (2 * h) (2 * w)) : cropCenter (ofGrid X) = ofGrid (cropGrid X) := by
  have e1 : 2 * h / 2 = h := Nat.mul_div_cancel_left h (by norm_num)
  have e2 : 2 * w / 2 = w := Nat.mul_div_cancel_left w (by norm_num)
  simp only [cropCenter, ofGrid_shape]
  rw [e1, e2]
  simp only [cropTen, toGrid_ofGrid]

/-- `crop_center(custom(zero_pad(u), H, aperture))` of an `[h, w]` field in the grid model -/
theorem pOut_grid {u : Ten α} {h w : Nat} (hu : u.shape = [h, w]) (ap H : Ten α) :
    pOut (propOpsGrid : PropOps (Ten α) α) ap H u =
      ofGrid (cropGrid (customT (padGrid (toGrid h w u)) (toGrid (2 * h) (2 * w) H) (toGrid (2 * h) (2 * w) ap))) := by
  show cropCenter (customTen (zeroPad u) H ap) = _
  rw [zeroPad_of_shape hu, customTen_of_shape (ofGrid_shape _), toGrid_ofGrid, cropCenter_ofGrid]

theorem toGrid_zip {n m : Nat} (f : Cx α → Cx α → Cx α) (a b : Ten α) (ha : a.shape ≠ []) (hb : b.shape ≠ []) :
    toGrid n m (zip f a b) = Grid.zipWith f (toGrid n m a) (toGrid n m b) := by
  have e1 : a.shape.isEmpty = false := by cases h : a.shape <;> simp_all
  have e2 : b.shape.isEmpty = false := by cases h : b.shape <;> simp_all
  apply Grid.ext_get; intro i j
  simp only [zip, e1, e2, Bool.false_eq_true, if_false, toGrid, Grid.zipWith, Grid.get_ofFn]

/-- an element-wise operation with a 0-d second operand -/
theorem toGrid_zip_scalar {n m : Nat} (f : Cx α → Cx α → Cx α) (a b : Ten α) (ha : a.shape ≠ []) (hb : b.shape = []) :
    toGrid n m (zip f a b) = Grid.map (fun z => f z b.val) (toGrid n m a) := by
  have e1 : a.shape.isEmpty = false := by cases h : a.shape <;> simp_all
  apply Grid.ext_get; intro i j
  simp only [zip, e1, hb, List.isEmpty_nil, Bool.false_eq_true, if_false, if_true, toGrid, Grid.map, Grid.get_ofFn, val]

@[simp] theorem zip_val (f : Cx α → Cx α → Cx α) (a b : Ten α) : (zip f a b).val = f a.val b.val := by
  unfold zip val
  split_ifs <;> rfl

@[simp] theorem map_val (f : Cx α → Cx α) (a : Ten α) : (map f a).val = f a.val := rfl

theorem kernelGridTen_shape (pt : String) (n m : Nat) (dx lam z : α) (s0 s1 s2 s3 : Nat) :
    (kernelGridTen pt n m dx lam z s0 s1 s2 s3).shape = [n, m] := by
  unfold kernelGridTen
  cases propagationKernelT pt n m dx lam z s0 s1 s2 s3 <;> rfl

theorem toGrid_kernelGridTen {pt : String} {n m : Nat} {dx lam z : α} {s0 s1 s2 s3 : Nat} {g : CGrid α n m}
    (hk : propagationKernelT pt n m dx lam z s0 s1 s2 s3 = some g) : toGrid n m (kernelGridTen pt n m dx lam z s0 s1 s2 s3) = g := by
  simp only [kernelGridTen, hk, toGrid_ofGrid]

end Ten

/-! ### the kernel of (channel, plane) -/

/-- the four sample counts of `aperture_samples` -/
def PropObj.samp {T R : Type} (o : PropObj T R) (k : Nat) : Nat := (o.aperture_samples.getD k 0).toNat

/-- the kernel the documented model multiplies with for channel `c` and plane `d`: the regenerated kernel `kern` (of the configured
    propagation type, at the padded size) of the channel's wavelength and the plane's distance for a 'forward' propagator; for 'back and
    forth' the product of the kernels of the zero-mode distance and of the way back -/
noncomputable def objKernelGrid {h w : Nat} (o : PropObj (Ten ℝ) ℝ) (kern : ℝ → ℝ → CGrid ℝ (2 * h) (2 * w)) (dists : Ten ℝ) (c d : Nat) :
    CGrid ℝ (2 * h) (2 * w) :=
  let lam := o.wavelengths.getD c 0
  let z := (dists.el [(d : Int)]).re
  if o.propagator_type = "forward" then kern lam z
  else CGrid.mul (kern lam o.zero_mode_distance.val.re) (kern lam (-(o.zero_mode_distance.val.re + o.image_location_offset - z)))

theorem kernel_eq_kernelGridTen (o : PropObj (Ten ℝ) ℝ) (h w : Nat) (lam : ℝ) (z : Ten ℝ) :
    (propOpsGrid : PropOps (Ten ℝ) ℝ).kernel ((h : Int) * 2) ((w : Int) * 2) o.pixel_pitch lam z o.propagation_type o.aperture_samples o.resolution_factor =
      Ten.kernelGridTen o.propagation_type (2 * h) (2 * w) o.pixel_pitch lam z.val.re (o.samp 0) (o.samp 1) (o.samp 2) (o.samp 3) := by
  have e1 : ((h : Int) * 2).toNat = 2 * h := by omega
  have e2 : ((w : Int) * 2).toNat = 2 * w := by omega
  show Ten.kernelGridTen _ _ _ _ _ _ _ _ _ _ = _
  rw [e1, e2]
  rfl

/-- **`pKernel` in the grid model**: defined for every channel that names a wavelength, and its elements are `objKernelGrid` -/
theorem pKernel_grid {h w : Nat} (o : PropObj (Ten ℝ) ℝ) (hres : o.resolution = [(h : Int), (w : Int)])
    (hty : o.propagator_type = "forward" ∨ o.propagator_type = "back and forth")
    (kern : ℝ → ℝ → CGrid ℝ (2 * h) (2 * w))
    (hk : ∀ lam z, propagationKernelT o.propagation_type (2 * h) (2 * w) o.pixel_pitch lam z (o.samp 0) (o.samp 1) (o.samp 2) (o.samp 3) = some (kern lam z))
    (dists : Ten ℝ) (c d : Nat) (hc : c < o.wavelengths.length) :
    ∃ H, pKernel propOpsGrid o dists (c : Int) (d : Int) = some H ∧ Ten.toGrid (2 * h) (2 * w) H = objKernelGrid o kern dists c d := by
  obtain ⟨lam, hl⟩ : ∃ lam, o.wavelengths[c]? = some lam := ⟨_, List.getElem?_eq_getElem hc⟩
  have elam : o.wavelengths.getD c 0 = lam := by simp only [List.getD_eq_getElem?_getD, hl, Option.getD_some]
  have ok : ∃ H, pKernel propOpsGrid o dists (c : Int) (d : Int) = some H := by
    rcases hty with hf | hb
    · exact Option.isSome_iff_exists.1 (by simp [pKernel, hres, hl, hf])
    · have hf : ¬ o.propagator_type = "forward" := by rw [hb]; decide
      exact Option.isSome_iff_exists.1 (by simp [pKernel, hres, hl, hf, hb])
  obtain ⟨H, eH⟩ := ok
  refine ⟨H, eH, ?_⟩
  rcases hty with hf | hb
  · simp only [pKernel, hres, List.getElem?_cons_zero, List.getElem?_cons_succ, Int.toNat_natCast, hl, hf, Option.bind_eq_bind, Option.bind_some, if_true,
      Option.some.injEq] at eH
    subst eH
    rw [kernel_eq_kernelGridTen, Ten.toGrid_kernelGridTen (hk _ _)]
    simp only [objKernelGrid, hf, if_true, elam]
    rfl
  · have hf : ¬ o.propagator_type = "forward" := by rw [hb]; decide
    simp only [pKernel, hres, List.getElem?_cons_zero, List.getElem?_cons_succ, Int.toNat_natCast, hl, if_neg hf, if_pos hb, Option.bind_eq_bind, Option.bind_some,
      Option.some.injEq] at eH
    subst eH
    rw [kernel_eq_kernelGridTen, kernel_eq_kernelGridTen]
    show Ten.toGrid _ _ (Ten.zip (· * ·) _ _) = _
    rw [Ten.toGrid_zip _ _ _ (by rw [Ten.kernelGridTen_shape]; simp) (by rw [Ten.kernelGridTen_shape]; simp),
      Ten.toGrid_kernelGridTen (hk _ _), Ten.toGrid_kernelGridTen (hk _ _)]
    simp only [objKernelGrid, hf, if_false, elam]
    have ez : ((propOpsGrid : PropOps (Ten ℝ) ℝ).neg (propOpsGrid.sub (propOpsGrid.add o.zero_mode_distance (propOpsGrid.scalar o.image_location_offset))
        (propOpsGrid.getIdx dists [(d : Int)]))).val.re = -(o.zero_mode_distance.val.re + o.image_location_offset - (dists.el [(d : Int)]).re) := by
      show (Ten.map _ (Ten.zip _ (Ten.zip _ _ (Ten.real _)) (Ten.getIdx _ _))).val.re = _
      simp only [Ten.map_val, Ten.zip_val, Ten.real_val, Ten.getIdx_val, Cx.neg_re', Cx.sub_re', Cx.add_re']
    rw [ez]
    rfl

end Odak
