import OdakProofs.RealInst
import OdakModel.Dual
import Mathlib.Analysis.Calculus.Deriv.Add
import Mathlib.Analysis.Calculus.Deriv.Mul
import Mathlib.Analysis.Calculus.Deriv.Inv
import Mathlib.Analysis.Calculus.Deriv.Comp
import Mathlib.Analysis.Calculus.Deriv.Abs
import Mathlib.Analysis.SpecialFunctions.Trigonometric.Deriv
import Mathlib.Analysis.SpecialFunctions.Trigonometric.InverseDeriv
import Mathlib.Analysis.SpecialFunctions.ExpDeriv
import Mathlib.Analysis.SpecialFunctions.Log.Deriv
import Mathlib.Analysis.SpecialFunctions.Sqrt
import Mathlib.Analysis.SpecialFunctions.Complex.LogDeriv
import Mathlib.Analysis.Complex.RealDeriv
import Mathlib.Tactic.Ring
import Mathlib.Tactic.Linarith
import Mathlib.Tactic.FieldSimp
import Mathlib.Tactic.NormNum

/-!
  # The logical relation between dual-number evaluation and `HasDerivAt`  (C05)

  `DRel x f D` : the dual number `D` carries the value of `f` at `x` and the derivative of `f` at `x`.
  Every primitive of `Num (Dual ℝ)` preserves the relation (away from the primitive's non-smooth
  points, which appear as side conditions), hence every model function – being a composition of the
  primitives – evaluated at `Dual ℝ` computes value and true derivative.
-/
namespace Odak
open Filter Topology

/-- `D` = (value of `f` at `x`, derivative of `f` at `x`) -/
def DRel (x : ℝ) (f : ℝ → ℝ) (D : Dual ℝ) : Prop := D.v = f x ∧ HasDerivAt f D.d x

namespace Dual
/-! ### projections of the `Num (Dual ℝ)` operations (all `rfl`) -/
variable (F G : Dual ℝ)
theorem add_v : (F + G).v = F.v + G.v := rfl
theorem add_d : (F + G).d = F.d + G.d := rfl
theorem sub_v : (F - G).v = F.v - G.v := rfl
theorem sub_d : (F - G).d = F.d - G.d := rfl
theorem neg_v : (-F).v = -F.v := rfl
theorem neg_d : (-F).d = -F.d := rfl
theorem mul_v : (F * G).v = F.v * G.v := rfl
theorem mul_d : (F * G).d = F.d * G.v + F.v * G.d := rfl
theorem div_v : (F / G).v = F.v / G.v := rfl
theorem div_d : (F / G).d = (F.d * G.v - F.v * G.d) / (G.v * G.v) := rfl
theorem zero_v : (0 : Dual ℝ).v = 0 := rfl
theorem zero_d : (0 : Dual ℝ).d = 0 := rfl
theorem one_v : (1 : Dual ℝ).v = 1 := rfl
theorem one_d : (1 : Dual ℝ).d = 0 := rfl
theorem ofNat_v (n : Nat) : (Num.ofNat n : Dual ℝ).v = (n : ℝ) := rfl
theorem ofNat_d (n : Nat) : (Num.ofNat n : Dual ℝ).d = 0 := rfl
theorem ofSci_v (m : Nat) (s : Bool) (e : Nat) : (Num.ofSci m s e : Dual ℝ).v = Num.ofSci m s e := rfl
theorem ofSci_d (m : Nat) (s : Bool) (e : Nat) : (Num.ofSci m s e : Dual ℝ).d = 0 := rfl
theorem pi_v : (Num.pi : Dual ℝ).v = Real.pi := rfl
theorem pi_d : (Num.pi : Dual ℝ).d = 0 := rfl
theorem sqrt_v : (Num.sqrt F).v = Real.sqrt F.v := rfl
theorem sqrt_d : (Num.sqrt F).d = F.d / (Num.two * Real.sqrt F.v) := rfl
theorem sin_v : (Num.sin F).v = Real.sin F.v := rfl
theorem sin_d : (Num.sin F).d = F.d * Real.cos F.v := rfl
theorem cos_v : (Num.cos F).v = Real.cos F.v := rfl
theorem cos_d : (Num.cos F).d = -(F.d * Real.sin F.v) := rfl
theorem exp_v : (Num.exp F).v = Real.exp F.v := rfl
theorem exp_d : (Num.exp F).d = F.d * Real.exp F.v := rfl
theorem log_v : (Num.log F).v = Real.log F.v := rfl
theorem log_d : (Num.log F).d = F.d / F.v := rfl
theorem acos_v : (Num.acos F).v = Real.arccos F.v := rfl
theorem acos_d : (Num.acos F).d = -(F.d / Real.sqrt (1 - F.v * F.v)) := rfl
theorem floor_v : (Num.floor F).v = ((⌊F.v⌋ : ℤ) : ℝ) := rfl
theorem floor_d : (Num.floor F).d = 0 := rfl
theorem round_v : (Num.round F).v = roundHalfEvenR F.v := rfl
theorem round_d : (Num.round F).d = 0 := rfl
theorem abs_v : (Num.abs F).v = |F.v| := rfl
theorem abs_d : (Num.abs F).d = if F.v < 0 then -F.d else F.d := rfl
theorem atan2_v : (Num.atan2 F G).v = Complex.arg ⟨G.v, F.v⟩ := rfl
theorem atan2_d : (Num.atan2 F G).d = (G.v * F.d - F.v * G.d) / (G.v * G.v + F.v * F.v) := rfl
theorem select_v (c : Bool) : (Num.select c F G : Dual ℝ).v = bif c then F.v else G.v := rfl
theorem select_d (c : Bool) : (Num.select c F G : Dual ℝ).d = (bif c then 1 else 0) * F.d + (bif c then 0 else 1) * G.d := rfl
/-- over ℝ the backward rule of `torch.where` (mask · grad of each branch, both evaluated) gives exactly the chosen branch:
    `1 · a + 0 · b = a` has no exception in ℝ.  In IEEE arithmetic `0 · inf = NaN`, which is what `Chk` tracks. -/
theorem select_eq_ite (p : Prop) [Decidable p] : (Num.select (decide p) F G : Dual ℝ) = if p then F else G := by
  by_cases h : p
  · rw [if_pos h]; cases F; cases G; simp [Num.select, h]
  · rw [if_neg h]; cases F; cases G; simp [Num.select, h]
theorem lt_iff : F < G ↔ F.v < G.v := Iff.rfl
theorem le_iff : F ≤ G ↔ F.v ≤ G.v := Iff.rfl
theorem const_v (c : ℝ) : (Dual.const c).v = c := rfl
theorem const_d (c : ℝ) : (Dual.const c).d = 0 := rfl
theorem var_v (c : ℝ) : (Dual.var c).v = c := rfl
theorem var_d (c : ℝ) : (Dual.var c).d = 1 := rfl
end Dual

namespace DRel
variable {x : ℝ} {f g : ℝ → ℝ} {F G : Dual ℝ}

/-- what the relation says about the oracle: value and `deriv` -/
theorem value (hf : DRel x f F) : F.v = f x := hf.1
theorem hasDerivAt (hf : DRel x f F) : HasDerivAt f F.d x := hf.2
theorem deriv_eq (hf : DRel x f F) : deriv f x = F.d := hf.2.deriv
theorem continuousAt (hf : DRel x f F) : ContinuousAt f x := hf.2.continuousAt

/-- the relation only looks at `f` near `x` -/
theorem congr_of_eventuallyEq {f₁ : ℝ → ℝ} (hf : DRel x f F) (h : f₁ =ᶠ[𝓝 x] f) : DRel x f₁ F :=
  ⟨hf.1.trans h.eq_of_nhds.symm, hf.2.congr_of_eventuallyEq h⟩

theorem congr {f₁ : ℝ → ℝ} (hf : DRel x f F) (h : ∀ t, f₁ t = f t) : DRel x f₁ F := by
  have : f₁ = f := funext h
  rw [this]; exact hf

/-! ### leaves -/
theorem var : DRel x (fun t => t) ⟨x, 1⟩ := ⟨rfl, hasDerivAt_id x⟩
theorem var' : DRel x (fun t => t) (Dual.var x) := var
/-- the line `t ↦ a + t·v` through `a` at `t = 0` -/
theorem line (a v : ℝ) : DRel 0 (fun t => a + t * v) ⟨a, v⟩ := by
  refine ⟨by simp, ?_⟩
  have := ((hasDerivAt_id (0 : ℝ)).mul_const v).const_add a
  simpa using this
theorem const (c : ℝ) : DRel x (fun _ => c) ⟨c, 0⟩ := ⟨rfl, hasDerivAt_const x c⟩
theorem const' (c : ℝ) : DRel x (fun _ => c) (Dual.const c) := const c
theorem ofNat (n : Nat) : DRel x (fun _ => (Num.ofNat n : ℝ)) (Num.ofNat n) := const _
theorem ofSci (m : Nat) (s : Bool) (e : Nat) : DRel x (fun _ => (Num.ofSci m s e : ℝ)) (Num.ofSci m s e) :=
  const _
theorem pi : DRel x (fun _ => (Num.pi : ℝ)) Num.pi := const _
theorem zero : DRel x (fun _ => (0 : ℝ)) 0 := const _
theorem one : DRel x (fun _ => (1 : ℝ)) 1 := const _
theorem two : DRel x (fun _ => (Num.two : ℝ)) Num.two := const _
theorem half : DRel x (fun _ => (Num.half : ℝ)) Num.half := const _

/-- a dual number related to a constant function has zero derivative part -/
theorem d_eq_zero_of_const {c : ℝ} (h : DRel x (fun _ => c) F) : F.d = 0 :=
  h.2.unique (hasDerivAt_const x c)

/-! ### field operations -/
theorem add (hf : DRel x f F) (hg : DRel x g G) : DRel x (fun t => f t + g t) (F + G) := by
  refine ⟨by rw [Dual.add_v, hf.1, hg.1], ?_⟩
  rw [Dual.add_d]; exact hf.2.add hg.2

theorem sub (hf : DRel x f F) (hg : DRel x g G) : DRel x (fun t => f t - g t) (F - G) := by
  refine ⟨by rw [Dual.sub_v, hf.1, hg.1], ?_⟩
  rw [Dual.sub_d]; exact hf.2.sub hg.2

theorem neg (hf : DRel x f F) : DRel x (fun t => -f t) (-F) := by
  refine ⟨by rw [Dual.neg_v, hf.1], ?_⟩
  rw [Dual.neg_d]; exact hf.2.neg

theorem mul (hf : DRel x f F) (hg : DRel x g G) : DRel x (fun t => f t * g t) (F * G) := by
  refine ⟨by rw [Dual.mul_v, hf.1, hg.1], ?_⟩
  rw [Dual.mul_d, hf.1, hg.1]; exact hf.2.mul hg.2

theorem sq (hf : DRel x f F) : DRel x (fun t => Num.sq (f t)) (Num.sq F) := mul hf hf

theorem div (hf : DRel x f F) (hg : DRel x g G) (hg0 : g x ≠ 0) :
    DRel x (fun t => f t / g t) (F / G) := by
  refine ⟨by rw [Dual.div_v, hf.1, hg.1], ?_⟩
  rw [Dual.div_d, hf.1, hg.1]
  have := hf.2.div hg.2 hg0
  rwa [pow_two] at this

/-- division by a constant needs no side condition (`0/0 = 0` on both sides when `c = 0`) -/
theorem div_const (hf : DRel x f F) (c : ℝ) : DRel x (fun t => f t / c) (F / Dual.const c) := by
  refine ⟨by rw [Dual.div_v, hf.1, Dual.const_v], ?_⟩
  rw [Dual.div_d, Dual.const_v, Dual.const_d]
  refine (hf.2.div_const c).congr_deriv ?_
  by_cases hc : c = 0
  · subst hc; simp
  · field_simp; ring

/-! ### smooth primitives -/
theorem sqrt (hf : DRel x f F) (h : 0 < f x) : DRel x (fun t => Num.sqrt (f t)) (Num.sqrt F) := by
  refine ⟨by rw [Dual.sqrt_v, hf.1]; rfl, ?_⟩
  rw [Dual.sqrt_d, hf.1, num_two]
  exact hf.2.sqrt h.ne'

theorem sin (hf : DRel x f F) : DRel x (fun t => Num.sin (f t)) (Num.sin F) := by
  refine ⟨by rw [Dual.sin_v, hf.1]; rfl, ?_⟩
  rw [Dual.sin_d, hf.1, mul_comm]; exact hf.2.sin

theorem cos (hf : DRel x f F) : DRel x (fun t => Num.cos (f t)) (Num.cos F) := by
  refine ⟨by rw [Dual.cos_v, hf.1]; rfl, ?_⟩
  rw [Dual.cos_d, hf.1]
  exact hf.2.cos.congr_deriv (by ring)

theorem exp (hf : DRel x f F) : DRel x (fun t => Num.exp (f t)) (Num.exp F) := by
  refine ⟨by rw [Dual.exp_v, hf.1]; rfl, ?_⟩
  rw [Dual.exp_d, hf.1, mul_comm]; exact hf.2.exp

theorem log (hf : DRel x f F) (h : f x ≠ 0) : DRel x (fun t => Num.log (f t)) (Num.log F) := by
  refine ⟨by rw [Dual.log_v, hf.1]; rfl, ?_⟩
  rw [Dual.log_d, hf.1]; exact hf.2.log h

theorem acos (hf : DRel x f F) (h : -1 < f x ∧ f x < 1) :
    DRel x (fun t => Num.acos (f t)) (Num.acos F) := by
  refine ⟨by rw [Dual.acos_v, hf.1]; rfl, ?_⟩
  rw [Dual.acos_d, hf.1]
  exact ((Real.hasDerivAt_arccos h.1.ne' h.2.ne).comp x hf.2).congr_deriv (by rw [pow_two]; ring)

/-- `|·|` away from its kink -/
theorem abs (hf : DRel x f F) (h : f x ≠ 0) : DRel x (fun t => Num.abs (f t)) (Num.abs F) := by
  refine ⟨by rw [Dual.abs_v, hf.1]; rfl, ?_⟩
  rw [Dual.abs_d, hf.1]
  rcases lt_or_gt_of_ne h with hn | hp
  · rw [if_pos hn]
    exact ((hasDerivAt_abs_neg hn).comp x hf.2).congr_deriv (by ring)
  · rw [if_neg (not_lt.mpr hp.le)]
    exact ((hasDerivAt_abs_pos hp).comp x hf.2).congr_deriv (by ring)

/-- `atan2 y x = arg (x + i y)` off the branch cut (the non-positive real axis) -/
theorem atan2 (hf : DRel x f F) (hg : DRel x g G) (h : 0 < g x ∨ f x ≠ 0) :
    DRel x (fun t => Num.atan2 (f t) (g t)) (Num.atan2 F G) := by
  refine ⟨by rw [Dual.atan2_v, hf.1, hg.1]; rfl, ?_⟩
  rw [Dual.atan2_d, hf.1, hg.1]
  -- the curve `t ↦ g t + i f t` in ℂ
  have hc : HasDerivAt (fun t => ((g t : ℂ) + (f t : ℂ) * Complex.I)) ((G.d : ℂ) + (F.d : ℂ) * Complex.I) x :=
    hg.2.ofReal_comp.add (hf.2.ofReal_comp.mul_const Complex.I)
  have hmem : (g x : ℂ) + (f x : ℂ) * Complex.I ∈ Complex.slitPlane := by
    rw [Complex.mem_slitPlane_iff]; simpa using h
  have hl := hc.clog_real hmem
  have him := (Complex.imCLM.hasFDerivAt.comp_hasDerivAt x hl)
  have hfun : (fun t => Num.atan2 (f t) (g t)) =
      (⇑Complex.imCLM ∘ fun t => Complex.log ((g t : ℂ) + (f t : ℂ) * Complex.I)) := by
    funext t
    simp only [num_atan2, Function.comp_apply, Complex.imCLM_apply, Complex.log_im,
      Complex.mk_eq_add_mul_I]
  rw [hfun]
  refine him.congr_deriv ?_
  have hne : g x * g x + f x * f x ≠ 0 := by
    rcases h with h | h
    · nlinarith [mul_self_nonneg (f x)]
    · have := mul_self_pos.mpr h; nlinarith [mul_self_nonneg (g x)]
  simp only [Complex.imCLM_apply, Complex.div_im, Complex.add_re, Complex.add_im, Complex.ofReal_re,
    Complex.ofReal_im, Complex.mul_re, Complex.mul_im, Complex.I_re, Complex.I_im, Complex.normSq_apply]
  field_simp
  ring

/-- `x ** y = exp (y log x)` for a non-zero base -/
theorem powPos (hf : DRel x f F) (hg : DRel x g G) (h : f x ≠ 0) :
    DRel x (fun t => Num.powPos (f t) (g t)) (Num.powPos F G) :=
  exp (mul hg (log hf h))

/-! ### locally constant primitives -/

/-- a function that is locally constant around `f x`, composed with `f`, has derivative zero -/
theorem locally_const (hf : DRel x f F) (φ : ℝ → ℝ) (s : Set ℝ) (hs : s ∈ 𝓝 (f x))
    (hφ : ∀ y ∈ s, φ y = φ (f x)) (D : Dual ℝ) (hv : D.v = φ (f x)) (hd : D.d = 0) :
    DRel x (fun t => φ (f t)) D := by
  refine ⟨hv, ?_⟩
  rw [hd]
  have hev : (fun t => φ (f t)) =ᶠ[𝓝 x] fun _ => φ (f x) := by
    filter_upwards [hf.continuousAt hs] with t ht using hφ _ ht
  exact (hasDerivAt_const x _).congr_of_eventuallyEq hev

/-- `floor` away from the integers -/
theorem floor (hf : DRel x f F) (h : ((⌊f x⌋ : ℤ) : ℝ) < f x) :
    DRel x (fun t => Num.floor (f t)) (Num.floor F) := by
  refine locally_const hf (fun y => ((⌊y⌋ : ℤ) : ℝ)) (Set.Ioo ((⌊f x⌋ : ℤ) : ℝ) (⌊f x⌋ + 1))
    (Ioo_mem_nhds h (Int.lt_floor_add_one _)) ?_ _ (by rw [Dual.floor_v, hf.1]) rfl
  intro y hy
  have : ⌊y⌋ = ⌊f x⌋ := Int.floor_eq_iff.mpr ⟨hy.1.le, hy.2⟩
  simp only [this]

/-- `round` (half to even) at a point that is neither an integer nor a half-integer -/
theorem round (hf : DRel x f F) (h : ((⌊f x⌋ : ℤ) : ℝ) < f x) (h2 : f x - ((⌊f x⌋ : ℤ) : ℝ) ≠ 1 / 2) :
    DRel x (fun t => Num.round (f t)) (Num.round F) := by
  rcases lt_or_gt_of_ne h2 with hlt | hgt
  · refine locally_const hf roundHalfEvenR (Set.Ioo ((⌊f x⌋ : ℤ) : ℝ) (⌊f x⌋ + 1 / 2))
      (Ioo_mem_nhds h (by linarith)) ?_ _ (by rw [Dual.round_v, hf.1]) rfl
    intro y hy
    have hfl : ⌊y⌋ = ⌊f x⌋ := Int.floor_eq_iff.mpr ⟨hy.1.le, by linarith [hy.2]⟩
    have hy2 := hy.2
    simp only [roundHalfEvenR, hfl]
    rw [if_pos (by linarith), if_pos hlt]
  · refine locally_const hf roundHalfEvenR (Set.Ioo (((⌊f x⌋ : ℤ) : ℝ) + 1 / 2) (⌊f x⌋ + 1))
      (Ioo_mem_nhds (by linarith) (Int.lt_floor_add_one _)) ?_ _ (by rw [Dual.round_v, hf.1]) rfl
    intro y hy
    have hfl : ⌊y⌋ = ⌊f x⌋ := Int.floor_eq_iff.mpr ⟨by linarith [hy.1], hy.2⟩
    have hy1 := hy.1
    simp only [roundHalfEvenR, hfl]
    rw [if_neg (by linarith), if_pos (by linarith), if_neg (by linarith), if_pos hgt]

/-! ### piecewise definitions: the branch is locally constant when the test is strict at `x` -/
section ite
variable {a b : ℝ → ℝ} {A B : Dual ℝ}

theorem ite_lt_pos {i1 : ∀ t, Decidable (a t < b t)} {i2 : Decidable (A < B)}
    (ha : DRel x a A) (hb : DRel x b B) (hf : DRel x f F) (h : a x < b x) :
    DRel x (fun t => @ite _ (a t < b t) (i1 t) (f t) (g t)) (@ite _ (A < B) i2 F G) := by
  have hAB : A < B := by rw [Dual.lt_iff, ha.1, hb.1]; exact h
  rw [if_pos hAB]
  refine hf.congr_of_eventuallyEq ?_
  filter_upwards [ha.continuousAt.eventually_lt hb.continuousAt h] with t ht
  rw [if_pos ht]

theorem ite_lt_neg {i1 : ∀ t, Decidable (a t < b t)} {i2 : Decidable (A < B)}
    (ha : DRel x a A) (hb : DRel x b B) (hg : DRel x g G) (h : b x < a x) :
    DRel x (fun t => @ite _ (a t < b t) (i1 t) (f t) (g t)) (@ite _ (A < B) i2 F G) := by
  have hAB : ¬ A < B := by rw [Dual.lt_iff, ha.1, hb.1]; exact not_lt.mpr h.le
  rw [if_neg hAB]
  refine hg.congr_of_eventuallyEq ?_
  filter_upwards [hb.continuousAt.eventually_lt ha.continuousAt h] with t ht
  rw [if_neg (not_lt.mpr ht.le)]

/-- `if a < b then f else g` where the comparison is strictly decided at `x` -/
theorem ite_lt {i1 : ∀ t, Decidable (a t < b t)} {i2 : Decidable (A < B)}
    (ha : DRel x a A) (hb : DRel x b B) (hf : DRel x f F) (hg : DRel x g G) (h : a x ≠ b x) :
    DRel x (fun t => @ite _ (a t < b t) (i1 t) (f t) (g t)) (@ite _ (A < B) i2 F G) := by
  rcases lt_or_gt_of_ne h with h | h
  · exact ite_lt_pos ha hb hf h
  · exact ite_lt_neg ha hb hg h
end ite

end DRel

/-! ### constants: a model expression built from `Dual.const` leaves is `Dual.const` of the real expression -/
namespace Dual

theorem ext' {A B : Dual ℝ} (hv : A.v = B.v) (hd : A.d = B.d) : A = B := by
  cases A; cases B; simp_all

theorem ofNat_eq_const (n : Nat) : (Num.ofNat n : Dual ℝ) = const (Num.ofNat n) := rfl
theorem ofSci_eq_const (m : Nat) (s : Bool) (e : Nat) : (Num.ofSci m s e : Dual ℝ) = const (Num.ofSci m s e) := rfl
theorem pi_eq_const : (Num.pi : Dual ℝ) = const Num.pi := rfl
theorem zero_eq_const : (0 : Dual ℝ) = const 0 := rfl
theorem one_eq_const : (1 : Dual ℝ) = const 1 := rfl
theorem two_eq_const : (Num.two : Dual ℝ) = const Num.two := rfl
theorem half_eq_const : (Num.half : Dual ℝ) = const Num.half := rfl
theorem mk_zero_eq_const (c : ℝ) : (⟨c, 0⟩ : Dual ℝ) = const c := rfl
variable (a b : ℝ)
theorem const_add : const a + const b = const (a + b) := ext' rfl (by simp [add_d, const_d])
theorem const_sub : const a - const b = const (a - b) := ext' rfl (by simp [sub_d, const_d])
theorem const_neg : -const a = const (-a) := ext' rfl (by simp [neg_d, const_d])
theorem const_mul : const a * const b = const (a * b) := ext' rfl (by simp [mul_d, const_d])
theorem const_div : const a / const b = const (a / b) := ext' rfl (by simp [div_d, const_d])
theorem const_sq : Num.sq (const a) = const (Num.sq a) := const_mul a a
theorem const_sqrt : Num.sqrt (const a) = const (Num.sqrt a) := ext' rfl (by simp [sqrt_d, const_d])
theorem const_sin : Num.sin (const a) = const (Num.sin a) := ext' rfl (by simp [sin_d, const_d])
theorem const_cos : Num.cos (const a) = const (Num.cos a) := ext' rfl (by simp [cos_d, const_d])
theorem const_exp : Num.exp (const a) = const (Num.exp a) := ext' rfl (by simp [exp_d, const_d])
theorem const_log : Num.log (const a) = const (Num.log a) := ext' rfl (by simp [log_d, const_d])
theorem const_acos : Num.acos (const a) = const (Num.acos a) := ext' rfl (by simp [acos_d, const_d])
theorem const_floor : Num.floor (const a) = const (Num.floor a) := rfl
theorem const_round : Num.round (const a) = const (Num.round a) := rfl
theorem const_abs : Num.abs (const a) = const (Num.abs a) := ext' rfl (by simp [abs_d, const_d])
theorem const_atan2 : Num.atan2 (const a) (const b) = const (Num.atan2 a b) :=
  ext' rfl (by simp [atan2_d, const_d])
theorem const_powPos : Num.powPos (const a) (const b) = const (Num.powPos a b) := by
  simp only [Num.powPos, const_log, const_mul, const_exp]
theorem const_ite (c : Prop) [Decidable c] : (if c then const a else const b) = const (if c then a else b) := by
  split <;> rfl
theorem const_lt : const a < const b ↔ a < b := Iff.rfl
theorem const_le : const a ≤ const b ↔ a ≤ b := Iff.rfl

/-- direction-`v` dual lift of a point, and the constant lift -/
def vec3 (p v : Vec3 ℝ) : Vec3 (Dual ℝ) := ⟨⟨p.x, v.x⟩, ⟨p.y, v.y⟩, ⟨p.z, v.z⟩⟩
noncomputable def constVec3 (p : Vec3 ℝ) : Vec3 (Dual ℝ) := ⟨const p.x, const p.y, const p.z⟩

end Dual

/-- push `Dual.const` outwards through every primitive -/
macro "dual_const" : tactic =>
  `(tactic| simp only [Dual.ofNat_eq_const, Dual.ofSci_eq_const, Dual.pi_eq_const, Dual.zero_eq_const,
      Dual.one_eq_const, Dual.two_eq_const, Dual.half_eq_const, Dual.mk_zero_eq_const,
      Dual.const_add, Dual.const_sub, Dual.const_neg, Dual.const_mul, Dual.const_div, Dual.const_sq,
      Dual.const_sqrt, Dual.const_sin, Dual.const_cos, Dual.const_exp, Dual.const_log, Dual.const_acos,
      Dual.const_floor, Dual.const_round, Dual.const_abs, Dual.const_atan2, Dual.const_powPos,
      Dual.const_ite])

/-! ### vector operations by components, for every scalar type -/
namespace DAux
variable {α : Type} [Num α] (a b : Vec3 α)
theorem vadd : a + b = ⟨a.x + b.x, a.y + b.y, a.z + b.z⟩ := rfl
theorem vsub : a - b = ⟨a.x - b.x, a.y - b.y, a.z - b.z⟩ := rfl
theorem vneg : -a = ⟨-a.x, -a.y, -a.z⟩ := rfl
end DAux

/-! ### left-fold sums over per-sample terms (losses) -/

/-- `Σ k(aᵢ + t vᵢ, bᵢ)` as a left fold, differentiated along `v`: enough to know the per-sample term -/
theorem DRel.foldl_zipWith (k : ℝ → ℝ → ℝ) (K : Dual ℝ → Dual ℝ → Dual ℝ)
    (hk : ∀ a v b : ℝ, DRel 0 (fun t => k (a + t * v) b) (K ⟨a, v⟩ (Dual.const b))) :
    ∀ (a va b : List ℝ) {acc : ℝ → ℝ} {ACC : Dual ℝ}, DRel 0 acc ACC →
      DRel 0 (fun t => (List.zipWith k (List.zipWith (fun x v => x + t * v) a va) b).foldl (· + ·) (acc t))
        ((List.zipWith K (List.zipWith Dual.mk a va) (b.map Dual.const)).foldl (· + ·) ACC) := by
  intro a
  induction a with
  | nil => intro va b acc ACC h; simpa using h
  | cons x xs ih =>
    intro va b acc ACC h
    cases va with
    | nil => simpa using h
    | cons v vs =>
      cases b with
      | nil => simpa using h
      | cons y ys =>
        simp only [List.zipWith_cons_cons, List.foldl_cons, List.map_cons]
        exact ih vs ys (h.add (hk x v y))

/-- one structural step of a `DRel` derivation -/
macro "drel_step" : tactic =>
  `(tactic| first
    | exact DRel.line _ _ | exact DRel.var | exact DRel.var' | exact DRel.const' _ | exact DRel.const _
    | exact DRel.ofNat _ | exact DRel.ofSci _ _ _ | exact DRel.pi | exact DRel.zero | exact DRel.one
    | exact DRel.two | exact DRel.half | assumption
    | apply DRel.add | apply DRel.sub | apply DRel.neg | apply DRel.mul | apply DRel.sq
    | apply DRel.div_const | apply DRel.div | apply DRel.sqrt | apply DRel.sin | apply DRel.cos
    | apply DRel.exp | apply DRel.log | apply DRel.acos | apply DRel.abs | apply DRel.atan2
    | apply DRel.powPos)
/-- decompose a `DRel` goal along the syntax of the model expression; side conditions remain -/
macro "drel" : tactic => `(tactic| repeat' drel_step)

end Odak
