import OdakProofs.Lemmas.GenPadCropBase
import OdakProofs.Lemmas.Codec
import OdakModel.Generated.ImageCodec

/-! The regenerated image codec (`Generated/ImageCodec.lean`, the output of `harness/translate/imagecodec.py`) evaluated on arrays
    of known shape, at `ℝ`: every element of the array `save_image` hands to `cv2.imwrite` is `genLevel` of the input element
    (of the channel the swap takes it from) - `genLevel` is the value pipeline AS THE SOURCE WRITES IT (two masked assignments one
    after the other, `/ cmax`, `* (2^d - 1)`, truncation), equal to the hand-written `saveLevel` when `cmin ≤ cmax`; what the
    loader returns; the CHW -> HWC loop of the torch saver. -/
namespace Odak
open Tensor CodecL Odak.Gen
set_option linter.unusedSimpArgs false
set_option linter.unusedVariables false

theorem num_int (z : Int) : (Num.int z : ℝ) = (z : ℝ) := by
  cases z with
  | ofNat n => simp [Num.int]
  | negSucc n => simp [Num.int, Int.negSucc_eq]

theorem depth_pos {d : Nat} (hd : d = 8 ∨ d = 16) : 1 ≤ d := by omega

/-- the clip as the source does it: `a[a < cmin] = cmin`, then `a[a > cmax] = cmax` -/
noncomputable def clipSeq (cmin cmax v : ℝ) : ℝ :=
  if cmax < (if v < cmin then cmin else v) then cmax else (if v < cmin then cmin else v)

/-- the level the regenerated `save_image` stores for the sample `v` -/
noncomputable def genLevel (cmin cmax : ℝ) (d : Nat) (v : ℝ) : ℝ :=
  Num.trunc (clipSeq cmin cmax v / cmax * ((2 ^ d - 1 : ℕ) : ℝ))

theorem clipSeq_eq_clip (cmin cmax v : ℝ) (h : cmin ≤ cmax) : clipSeq cmin cmax v = clip cmin cmax v := by
  unfold clipSeq clip
  by_cases h1 : v < cmin
  · simp [h1, not_lt.mpr h]
  · simp [h1]

/-- tie of the value pipeline: for `cmin ≤ cmax` the regenerated level is the hand-written `saveLevel` -/
theorem genLevel_eq_saveLevel (cmin cmax : ℝ) (d : Nat) (v : ℝ) (h : cmin ≤ cmax) :
    genLevel cmin cmax d v = saveLevel cmin cmax d v := by
  rw [saveLevel_eq, genLevel, clipSeq_eq_clip _ _ _ h]

/-- the two clips differ when `cmin > cmax`: the source ends at `cmax`, the hand-written model at `cmin` -/
theorem clipSeq_ne_clip_example : clipSeq 2 1 0 = 1 ∧ clip 2 1 0 = 2 := by
  constructor <;> norm_num [clipSeq, clip]

/-- which channel of the input ends up in channel `k` (channels 0 and 2 exchanged) -/
def chanSwap (k : Nat) : Nat := if k = 0 then 2 else if k = 2 then 0 else k

theorem chanSwap_eq_save (k : Nat) : chanSwap k = swapSource saveImageSwaps k := by
  by_cases h0 : k = 0
  · subst h0; decide
  · by_cases h2 : k = 2
    · subst h2; decide
    · simp [chanSwap, h0, h2, swapSource, saveImageSwaps, List.find?, Ne.symm h0, Ne.symm h2]

theorem chanSwap_eq_load (k : Nat) : chanSwap k = swapSource loadImageSwaps k := by
  by_cases h0 : k = 0
  · subst h0; decide
  · by_cases h2 : k = 2
    · subst h2; decide
    · simp [chanSwap, h0, h2, swapSource, loadImageSwaps, List.find?, Ne.symm h0, Ne.symm h2]

theorem chanSwap_invol (k : Nat) : chanSwap (chanSwap k) = k := by
  simp only [chanSwap]; split_ifs <;> simp_all

theorem chanSwap_lt (k C : Nat) (hC : 3 ≤ C) (hk : k < C) : chanSwap k < C := by
  unfold chanSwap; split_ifs <;> omega

/-- evaluates a regenerated codec program on an array of known shape -/
macro "codec_simp" "[" ts:Lean.Parser.Tactic.simpLemma,* "]" : tactic =>
  `(tactic| (simp [Tensor.castFloat, Tensor.castUInt, Tensor.maskedFill, Tensor.lt, Tensor.gt, Tensor.div, Tensor.mul,
      Tensor.scalar, Tensor.zipB, Tensor.map, Tensor.select, Tensor.setSelect, Tensor.pyGet, Tensor.getAt, Tensor.nd, num_int,
      Tensor.remAt, Tensor.insAt, Tensor.setAt, Tensor.squeeze, Tensor.pngRoundTrip, Tensor.moveaxis, Tensor.permuteN, Tensor.tabulate,
      Tensor.posOf, Tensor.zeros, Tensor.full, $ts,*] <;> try (split_ifs <;> simp_all)))

/-! ### NumPy `save_image` -/

theorem np_save_image_gray (img : Tensor ℝ) (H W d : Nat) (hs : img.shape = [H, W]) (hd : d = 8 ∨ d = 16) (cmin cmax : ℝ) :
    (GenIC.np_save_image img cmin cmax d).shape = [H, W] ∧
    ∀ i j, (GenIC.np_save_image img cmin cmax d).get [i, j] = genLevel cmin cmax d (img.get [i, j]) := by
  rcases hd with rfl | rfl <;> refine ⟨?_, fun i j => ?_⟩ <;>
    codec_simp [GenIC.np_save_image, hs, genLevel, clipSeq]

/-- a single channel `[m x n x 1]`: no swap -/
theorem np_save_image_single (img : Tensor ℝ) (H W d : Nat) (hs : img.shape = [H, W, 1]) (hd : d = 8 ∨ d = 16) (cmin cmax : ℝ) :
    (GenIC.np_save_image img cmin cmax d).shape = [H, W, 1] ∧
    ∀ i j k, (GenIC.np_save_image img cmin cmax d).get [i, j, k] = genLevel cmin cmax d (img.get [i, j, k]) := by
  rcases hd with rfl | rfl <;> refine ⟨?_, fun i j k => ?_⟩ <;>
    codec_simp [GenIC.np_save_image, hs, genLevel, clipSeq]

/-- three or more channels: channels 0 and 2 are exchanged, the others stay -/
theorem np_save_image_rgb (img : Tensor ℝ) (H W C d : Nat) (hs : img.shape = [H, W, C]) (hC : 3 ≤ C) (hd : d = 8 ∨ d = 16)
    (cmin cmax : ℝ) :
    (GenIC.np_save_image img cmin cmax d).shape = [H, W, C] ∧
    ∀ i j k, (GenIC.np_save_image img cmin cmax d).get [i, j, k] = genLevel cmin cmax d (img.get [i, j, chanSwap k]) := by
  have h1 : 1 < C := by omega
  rcases hd with rfl | rfl <;> refine ⟨?_, fun i j k => ?_⟩
  · codec_simp [GenIC.np_save_image, hs, h1]
  · by_cases h0 : k = 0
    · subst h0; codec_simp [GenIC.np_save_image, hs, h1, genLevel, clipSeq, chanSwap]
    · by_cases h2 : k = 2
      · subst h2; codec_simp [GenIC.np_save_image, hs, h1, genLevel, clipSeq, chanSwap]
      · codec_simp [GenIC.np_save_image, hs, h1, genLevel, clipSeq, chanSwap, h0, h2]
  · codec_simp [GenIC.np_save_image, hs, h1]
  · by_cases h0 : k = 0
    · subst h0; codec_simp [GenIC.np_save_image, hs, h1, genLevel, clipSeq, chanSwap]
    · by_cases h2 : k = 2
      · subst h2; codec_simp [GenIC.np_save_image, hs, h1, genLevel, clipSeq, chanSwap]
      · codec_simp [GenIC.np_save_image, hs, h1, genLevel, clipSeq, chanSwap, h0, h2]

/-- a bit depth that is neither 8 nor 16: the source does not cast - the array handed to `cv2.imwrite` holds the scaled, UNTRUNCATED
    values (the hand-written `saveLevel` truncates for every depth) -/
theorem np_save_image_other_depth (img : Tensor ℝ) (H W d : Nat) (hs : img.shape = [H, W]) (h8 : d ≠ 8) (h16 : d ≠ 16) (cmin cmax : ℝ) :
    (GenIC.np_save_image img cmin cmax d).shape = [H, W] ∧
    ∀ i j, (GenIC.np_save_image img cmin cmax d).get [i, j] = clipSeq cmin cmax (img.get [i, j]) / cmax * ((2 : ℝ) ^ d - 1) := by
  refine ⟨?_, fun i j => ?_⟩ <;> codec_simp [GenIC.np_save_image, hs, h8, h16, clipSeq]

theorem allElems_of_forall {α : Type} (t : Tensor α) (p : α → Bool) (h : ∀ idx, p (t.get idx) = true) : allElems t p = true := by
  unfold allElems
  rw [List.all_eq_true]
  intro f _
  exact h _

theorem clipSeq_range (cmin cmax v : ℝ) (hc : cmin ≤ cmax) : cmin ≤ clipSeq cmin cmax v ∧ clipSeq cmin cmax v ≤ cmax := by
  rw [clipSeq_eq_clip _ _ _ hc]; exact clip_range cmin cmax v hc

/-- the scaled value lies in `[0, 2^d - 1]`: its cast to an unsigned integer of `d` bits is defined -/
theorem scaled_range (cmin cmax v : ℝ) (d : Nat) (h0 : 0 ≤ cmin) (hc : cmin ≤ cmax) (h : 0 < cmax) :
    0 ≤ clipSeq cmin cmax v / cmax * ((2 ^ d - 1 : ℕ) : ℝ) ∧ clipSeq cmin cmax v / cmax * ((2 ^ d - 1 : ℕ) : ℝ) < ((2 ^ d : ℕ) : ℝ) := by
  obtain ⟨hlo, hhi⟩ := clipSeq_range cmin cmax v hc
  have hN : (0 : ℝ) ≤ ((2 ^ d - 1 : ℕ) : ℝ) := Nat.cast_nonneg _
  have hq0 : 0 ≤ clipSeq cmin cmax v / cmax := div_nonneg (le_trans h0 hlo) h.le
  have hq1 : clipSeq cmin cmax v / cmax ≤ 1 := (div_le_one h).mpr hhi
  refine ⟨mul_nonneg hq0 hN, ?_⟩
  have h1 : clipSeq cmin cmax v / cmax * ((2 ^ d - 1 : ℕ) : ℝ) ≤ ((2 ^ d - 1 : ℕ) : ℝ) := by
    calc _ ≤ 1 * ((2 ^ d - 1 : ℕ) : ℝ) := mul_le_mul_of_nonneg_right hq1 hN
      _ = _ := one_mul _
  have h2 : ((2 ^ d - 1 : ℕ) : ℝ) < ((2 ^ d : ℕ) : ℝ) := by
    have : 2 ^ d - 1 < 2 ^ d := Nat.sub_lt (Nat.pos_of_ne_zero (by positivity)) (by norm_num)
    exact_mod_cast this
  linarith

theorem allElems_of_forall' {α : Type} (t : Tensor α) (p : α → Bool) (g : List Nat → α) (hg : ∀ idx, t.get idx = g idx)
    (h : ∀ idx, p (g idx) = true) : allElems t p = true :=
  allElems_of_forall t p (fun idx => by rw [hg idx]; exact h idx)

/-- no value is cast outside `0 .. 2^d - 1`: the clip keeps every scaled value in range (any shape of rank ≥ 1) -/
theorem np_save_image_ok_of_range (img : Tensor ℝ) (s : List Nat) (hs : img.shape = s) (hne : s ≠ []) (d : Nat) (hd : d = 8 ∨ d = 16)
    (cmin cmax : ℝ) (h0 : 0 ≤ cmin) (hc : cmin ≤ cmax) (h : 0 < cmax) : GenIC.np_save_image_ok img cmin cmax d = true := by
  rcases hd with rfl | rfl
  · simp only [GenIC.np_save_image_ok, decide_true, if_true]
    refine allElems_of_forall' _ _ (fun idx => clipSeq cmin cmax (img.get idx) / cmax * ((2 ^ 8 - 1 : ℕ) : ℝ)) (fun idx => ?_) (fun idx => ?_)
    · codec_simp [hs, hne, clipSeq]
    · have := scaled_range cmin cmax (img.get idx) 8 h0 hc h
      simp only [num_ofNat, Bool.and_eq_true, decide_eq_true_eq, Nat.cast_zero]
      exact this
  · have e : decide (16 = 8) = false := by decide
    simp only [GenIC.np_save_image_ok, e, if_true, Bool.false_eq_true, if_false, decide_true]
    refine allElems_of_forall' _ _ (fun idx => clipSeq cmin cmax (img.get idx) / cmax * ((2 ^ 16 - 1 : ℕ) : ℝ)) (fun idx => ?_) (fun idx => ?_)
    · codec_simp [hs, hne, clipSeq]
    · have := scaled_range cmin cmax (img.get idx) 16 h0 hc h
      simp only [num_ofNat, Bool.and_eq_true, decide_eq_true_eq, Nat.cast_zero]
      exact this

/-! ### NumPy `load_image` (from the array `cv2.imread` returned) -/

/-- `normalizeby`: 0 means "leave as it is" -/
noncomputable def loadNorm (n x : ℝ) : ℝ := if n = 0 then x else x * 1 / n

theorem not_both_le (n : ℝ) (hn : n ≠ 0) : ¬ (n ≤ 0 ∧ 0 ≤ n) := fun h => hn (le_antisymm h.1 h.2)

/-- rank 2: no swap, no move (whatever `torch_style` says) -/
theorem np_load_image_gray (st : Tensor ℝ) (H W : Nat) (hs : st.shape = [H, W]) (n : ℝ) (ts : Bool) :
    (GenIC.np_load_image st n ts).shape = [H, W] ∧
    ∀ i j, (GenIC.np_load_image st n ts).get [i, j] = loadNorm n (st.get [i, j]) := by
  by_cases hn : n = 0
  · subst hn
    refine ⟨?_, fun i j => ?_⟩ <;> codec_simp [GenIC.np_load_image, hs, loadNorm]
  · have h' := not_both_le n hn
    refine ⟨?_, fun i j => ?_⟩ <;> codec_simp [GenIC.np_load_image, hs, loadNorm, hn, h']

/-- three or more channels, `torch_style = False`: channels 0 and 2 exchanged, then normalised -/
theorem np_load_image_rgb (st : Tensor ℝ) (H W C : Nat) (hs : st.shape = [H, W, C]) (n : ℝ) :
    (GenIC.np_load_image st n false).shape = [H, W, C] ∧
    ∀ i j k, (GenIC.np_load_image st n false).get [i, j, k] = loadNorm n (st.get [i, j, chanSwap k]) := by
  by_cases hn : n = 0
  · subst hn
    refine ⟨by codec_simp [GenIC.np_load_image, hs], fun i j k => ?_⟩
    by_cases h0 : k = 0
    · subst h0; codec_simp [GenIC.np_load_image, hs, loadNorm, chanSwap]
    · by_cases h2 : k = 2
      · subst h2; codec_simp [GenIC.np_load_image, hs, loadNorm, chanSwap]
      · codec_simp [GenIC.np_load_image, hs, loadNorm, chanSwap, h0, h2]
  · have h' := not_both_le n hn
    refine ⟨by codec_simp [GenIC.np_load_image, hs, hn, h'], fun i j k => ?_⟩
    by_cases h0 : k = 0
    · subst h0; codec_simp [GenIC.np_load_image, hs, loadNorm, chanSwap, hn, h']
    · by_cases h2 : k = 2
      · subst h2; codec_simp [GenIC.np_load_image, hs, loadNorm, chanSwap, hn, h']
      · codec_simp [GenIC.np_load_image, hs, loadNorm, chanSwap, h0, h2, hn, h']

/-- three or more channels, `torch_style = True`: additionally the channel axis moves to the front, `[m x n x c] -> [c x m x n]` -/
theorem np_load_image_rgb_torch_style (st : Tensor ℝ) (H W C : Nat) (hs : st.shape = [H, W, C]) (n : ℝ) :
    (GenIC.np_load_image st n true).shape = [C, H, W] ∧
    ∀ k i j, (GenIC.np_load_image st n true).get [k, i, j] = loadNorm n (st.get [i, j, chanSwap k]) := by
  by_cases hn : n = 0
  · subst hn
    refine ⟨by codec_simp [GenIC.np_load_image, hs], fun k i j => ?_⟩
    by_cases h0 : k = 0
    · subst h0; codec_simp [GenIC.np_load_image, hs, loadNorm, chanSwap]
    · by_cases h2 : k = 2
      · subst h2; codec_simp [GenIC.np_load_image, hs, loadNorm, chanSwap]
      · codec_simp [GenIC.np_load_image, hs, loadNorm, chanSwap, h0, h2]
  · have h' := not_both_le n hn
    refine ⟨by codec_simp [GenIC.np_load_image, hs, hn, h'], fun k i j => ?_⟩
    by_cases h0 : k = 0
    · subst h0; codec_simp [GenIC.np_load_image, hs, loadNorm, chanSwap, hn, h']
    · by_cases h2 : k = 2
      · subst h2; codec_simp [GenIC.np_load_image, hs, loadNorm, chanSwap, hn, h']
      · codec_simp [GenIC.np_load_image, hs, loadNorm, chanSwap, h0, h2, hn, h']

/-- the torch loader is the NumPy loader (the arguments are handed on as given) -/
theorem torch_load_image_eq (st : Tensor ℝ) (n : ℝ) (ts : Bool) : GenIC.torch_load_image st n ts = GenIC.np_load_image st n ts := rfl

/-! ### what `cv2.imread` returns for what `cv2.imwrite` wrote -/

theorem pngRoundTrip_gray (t : Tensor ℝ) (H W : Nat) (hs : t.shape = [H, W]) : pngRoundTrip t = t := by
  simp [pngRoundTrip, hs]

theorem pngRoundTrip_rgb (t : Tensor ℝ) (H W C : Nat) (hs : t.shape = [H, W, C]) (hC : 3 ≤ C) : pngRoundTrip t = t := by
  have : C ≠ 1 := by omega
  simp [pngRoundTrip, hs, Tensor.getAt, this]

theorem pngRoundTrip_single (t : Tensor ℝ) (H W : Nat) (hs : t.shape = [H, W, 1]) :
    (pngRoundTrip t).shape = [H, W] ∧ ∀ i j, (pngRoundTrip t).get [i, j] = t.get [i, j, 0] := by
  constructor
  · codec_simp [hs]
  · intro i j; codec_simp [hs]

end Odak
