import OdakProofs.Lemmas.GenPropagatorObject4

/-!
  # Tie theorems (5): one call of any kind, and every list of calls, against the cache-free reference semantics

  * `propagator_step`: ONE call (`__call__`, `reconstruct`, `set_laser_powers`, `get_laser_powers`, `set_aperture`) from a state in which the
    invariant holds returns the value of the reference semantics `pRefStep` (which has no kernel cache), re-establishes the invariant and
    writes no object that existed before the call except the two cache buffers;
  * `propagator_run`: hence so does every LIST of calls, in any order (induction over the list);
  * `propagator_reconstruct_new_buffer`: the object `reconstruct` hands out did not exist before the call.
-/
set_option linter.unusedVariables false
set_option linter.unusedSimpArgs false
set_option linter.unusedSectionVars false

namespace Odak
open Gen
variable {T R : Type} [DecidableEq R]

/-- the constructed object with the laser powers object and the aperture object in force -/
def PropObj.cfg (o : PropObj T R) (p ap : Nat) : PropObj T R := { o with channel_power := p, aperture := ap }

/-- the state of a propagator that was constructed as `o0` in the heap `h0` (content of its distances: `dists`) and has since seen calls,
    against the configuration `g` of the reference semantics: the attributes are those of `o0` except for the two a user can replace; the
    invariant holds; the caller's objects of `h0` are as they were -/
def PRel (E : PropOps T R) (o0 : PropObj T R) (dists : T) (h0 : Heap T) (s : PropagatorAttrs T R × Heap T) (g : PRef T) : Prop :=
  ∃ apl cp, s.1 = (o0.cfg g.powers apl).toSelf ∧ PInv E (o0.cfg g.powers apl) s.2 dists g.ap cp ∧ h0.get g.powers = some cp ∧
    h0.size ≤ s.2.size ∧ ∀ l, l < h0.size → l ≠ o0.kernels → l ≠ o0.generated_kernels → s.2.get l = h0.get l

/-- no object that exists is written, except the two cache buffers -/
def PFrame (o0 : PropObj T R) (s s' : PropagatorAttrs T R × Heap T) : Prop :=
  s.2.size ≤ s'.2.size ∧ ∀ l, l < s.2.size → l ≠ o0.kernels → l ≠ o0.generated_kernels → s'.2.get l = s.2.get l

theorem PFrame.refl (o0 : PropObj T R) (s : PropagatorAttrs T R × Heap T) : PFrame o0 s s := ⟨Nat.le_refl _, fun _ _ _ _ => rfl⟩
theorem PFrame.trans {o0 : PropObj T R} {a b c : PropagatorAttrs T R × Heap T} (x : PFrame o0 a b) (y : PFrame o0 b c) : PFrame o0 a c :=
  ⟨Nat.le_trans x.1 y.1, fun l hl h1 h2 => by rw [y.2 l (Nat.lt_of_lt_of_le hl x.1) h1 h2, x.2 l hl h1 h2]⟩

/-- the laser powers a user may pass: an object of the caller that existed when the propagator was built, none of its cache buffers -/
def PCall.valid (o0 : PropObj T R) (h0 : Heap T) : PCall T → Prop
  | .setPowers p => p < h0.size ∧ p ≠ o0.kernels ∧ p ≠ o0.generated_kernels
  | _ => True

/-- **one call** -/
theorem propagator_step (E : PropOps T R) (L : PropLaws E) (o0 : PropObj T R) (dists : T) (h0 : Heap T)
    (s : PropagatorAttrs T R × Heap T) (g : PRef T) (x : PCall T) (g' : PRef T) (z : List T)
    (hr : PRel E o0 dists h0 s g) (hv : x.valid o0 h0) (href : pRefStep E o0 dists h0 g x = some (g', z)) :
    ∃ s' y, pStep E s x = some (s', y) ∧ y.vals = z ∧ PRel E o0 dists h0 s' g' ∧ PFrame o0 s s' := by
  obtain ⟨self1, heap1⟩ := s
  obtain ⟨apl, cp, e1, inv, hcp0, hsz, fr0⟩ := hr
  simp only at e1 inv hsz fr0
  subst e1
  have locs := inv.locs
  obtain ⟨K, G, hK, hG, coh⟩ := inv.coh
  cases x with
  | forward u c d =>
    simp only [pRefStep] at href
    cases hk : pKernel E o0 dists c d with
    | none => simp [hk] at href
    | some H =>
      simp only [hk, Option.map_some, Option.some.injEq, Prod.mk.injEq] at href
      obtain ⟨rfl, rfl⟩ := href
      have hk' : pKernel E (o0.cfg g.powers apl) dists c d = some H := hk
      have hcoh : E.truthy (E.getIdx G [d, c]) = true → E.getIdx K [d, c] = H := by
        intro ht
        have := coh d c ht
        rw [hk'] at this
        injection this with this
        exact this.symm
      obtain ⟨inv3, size3, frame3⟩ := inv.call L hK hG c d H hk'
      refine ⟨((o0.cfg g.powers apl).toSelf, pCallHeap E (o0.cfg g.powers apl) heap1 K G H c d), ⟨[pOut E g.ap H u], none⟩, ?_, rfl, ?_, ?_⟩
      · simp only [pStep]
        rw [gen_propagatorCallG_eq E _ heap1 dists g.ap K G inv.hd inv.ha hK hG inv.kg inv.ak inv.ag u c d H hk' hcoh]
        rfl
      · exact ⟨apl, cp, rfl, inv3, hcp0, by simp only; omega, fun l hl h1 h2 => by simp only; rw [frame3 l h1 h2, fr0 l hl h1 h2]⟩
      · exact ⟨by simp only; omega, fun l hl h1 h2 => frame3 l h1 h2⟩
  | reconstruct ph amp ng gc =>
    simp only [pRefStep, hcp0, Option.bind_some] at href
    cases hV : pRecon E o0 dists g.ap cp ph amp gc with
    | none => simp [hV] at href
    | some V =>
      simp only [hV, Option.map_some, Option.some.injEq, Prod.mk.injEq] at href
      obtain ⟨rfl, rfl⟩ := href
      have hV' : pRecon E (o0.cfg g.powers apl) dists g.ap cp ph amp gc = some V := hV
      obtain ⟨h', log, er, hget, inv', frame'⟩ := gen_propagatorReconstructG_eq E L _ heap1 dists g.ap cp inv ph amp ng gc V hV'
      have hlt := Heap.get_eq_some_lt hget
      refine ⟨((o0.cfg g.powers apl).toSelf, h'), ⟨[V], some heap1.size⟩, ?_, rfl, ?_, ?_⟩
      · simp only [pStep, er, Option.bind_some, hget, Option.map_some]
      · exact ⟨apl, cp, rfl, inv', hcp0, by simp only; omega, fun l hl h1 h2 => by simp only; rw [frame' l (by omega) h1 h2, fr0 l hl h1 h2]⟩
      · exact ⟨by simp only; omega, fun l hl h1 h2 => frame' l hl h1 h2⟩
  | setPowers p =>
    simp only [pRefStep, Option.some.injEq, Prod.mk.injEq] at href
    obtain ⟨rfl, rfl⟩ := href
    obtain ⟨hp1, hp2, hp3⟩ := hv
    obtain ⟨cp', hcp'⟩ := Heap.get_isSome_of_lt hp1
    refine ⟨((o0.cfg p apl).toSelf, heap1), ⟨[], none⟩, ?_, rfl, ?_, PFrame.refl _ _⟩
    · simp only [pStep, gen_propagatorSetLaserPowersG_eq, Option.map_some]
      rfl
    · refine ⟨apl, cp', rfl, ⟨inv.hd, inv.ha, ?_, inv.kg, inv.dk, inv.dg, inv.ak, inv.ag, hp2, hp3, K, G, hK, hG, coh⟩, hcp', hsz, fr0⟩
      show heap1.get p = some cp'
      rw [fr0 p hp1 hp2 hp3, hcp']
  | getPowers =>
    simp only [pRefStep, hcp0, Option.bind_some] at href
    cases hpw : pPowers E o0 cp with
    | none => simp [hpw] at href
    | some lp =>
      simp only [hpw, Option.map_some, Option.some.injEq, Prod.mk.injEq] at href
      obtain ⟨rfl, rfl⟩ := href
      have hpw' : pPowers E (o0.cfg g.powers apl) cp = some lp := hpw
      obtain ⟨h2, l2, e2, hl2, inv2, size2, frame2⟩ := getLaserPowers_spec inv hpw'
      refine ⟨((o0.cfg g.powers apl).toSelf, h2), ⟨[lp], some l2⟩, ?_, rfl, ?_, ?_⟩
      · simp only [pStep, e2, Option.bind_some, hl2, Option.map_some]
      · exact ⟨apl, cp, rfl, inv2, hcp0, by simp only; omega, fun l hl h1 h2' => by simp only; rw [frame2 l (by omega), fr0 l hl h1 h2']⟩
      · exact ⟨size2, fun l hl _ _ => frame2 l hl⟩
  | getKernels => simp [pRefStep] at href
  | setAperture ap size =>
    simp only [pRefStep] at href
    cases hav : pApertureValue E o0.resolution o0.resolution_factor ap size with
    | none => simp [hav] at href
    | some v =>
      simp only [hav, Option.map_some, Option.some.injEq, Prod.mk.injEq] at href
      obtain ⟨rfl, rfl⟩ := href
      have hav' : pApertureValue E (o0.cfg g.powers apl).resolution (o0.cfg g.powers apl).resolution_factor ap size = some v := hav
      refine ⟨((o0.cfg g.powers heap1.size).toSelf, (heap1.alloc v).1), ⟨[], none⟩, ?_, rfl, ?_, ?_⟩
      · simp only [pStep, gen_propagatorSetApertureG_eq E _ heap1 ap size v hav', Option.map_some]
        rfl
      · have inv2 := inv.alloc v
        refine ⟨heap1.size, cp, rfl, ⟨inv2.hd, ?_, inv2.hc, inv2.kg, inv2.dk, inv2.dg, ?_, ?_, inv2.ck, inv2.cg, inv2.coh⟩, hcp0, by simp; omega, ?_⟩
        · exact Heap.get_alloc_self _ _
        · have := locs.k
          show heap1.size ≠ o0.kernels
          have e : (o0.cfg g.powers apl).kernels = o0.kernels := rfl
          omega
        · have := locs.g
          show heap1.size ≠ o0.generated_kernels
          have e : (o0.cfg g.powers apl).generated_kernels = o0.generated_kernels := rfl
          omega
        · intro l hl h1 h2
          simp only
          rw [Heap.get_alloc_of_lt (by omega), fr0 l hl h1 h2]
      · exact ⟨by simp, fun l hl _ _ => Heap.get_alloc_of_lt hl _⟩

/-- **every list of calls**: forward calls, reconstructions, `set_laser_powers`, `get_laser_powers`, `set_aperture`, interleaved in any
    order and of any length: if the reference semantics (no cache) gives values `zs`, the object returns exactly `zs`, the invariant holds
    afterwards, and no object that existed before the list was written except the two cache buffers -/
theorem propagator_run (E : PropOps T R) (L : PropLaws E) (o0 : PropObj T R) (dists : T) (h0 : Heap T) (xs : List (PCall T))
    (s : PropagatorAttrs T R × Heap T) (g g' : PRef T) (zs : List (List T)) (hr : PRel E o0 dists h0 s g)
    (hv : ∀ x ∈ xs, x.valid o0 h0) (href : runSteps (pRefStep E o0 dists h0) g xs = some (g', zs)) :
    ∃ s' ys, runSteps (pStep E) s xs = some (s', ys) ∧ ys.map PRet.vals = zs ∧ PRel E o0 dists h0 s' g' ∧ PFrame o0 s s' :=
  runSteps_track (pStep E) (pRefStep E o0 dists h0) PRet.vals (PRel E o0 dists h0) (PCall.valid o0 h0) (PFrame o0)
    (PFrame.refl o0) (fun _ _ _ => PFrame.trans)
    (fun s g x g' z hr hv href => propagator_step E L o0 dists h0 s g x g' z hr hv href) xs s g g' zs hr hv href

/-- **the buffer `reconstruct` hands out is a new object**: it did not exist before the call (so it is no attribute of the propagator and no
    result handed out earlier), and it holds the reference value -/
theorem propagator_reconstruct_new_buffer (E : PropOps T R) (L : PropLaws E) (o0 : PropObj T R) (dists : T) (h0 : Heap T)
    (s : PropagatorAttrs T R × Heap T) (g : PRef T) (ph : T) (amp : Option T) (ng gc : Bool) (hr : PRel E o0 dists h0 s g)
    (z : List T) (g' : PRef T) (href : pRefStep E o0 dists h0 g (.reconstruct ph amp ng gc) = some (g', z)) :
    ∃ s' v, pStep E s (.reconstruct ph amp ng gc) = some (s', ⟨[v], some s.2.size⟩) ∧ z = [v] ∧ s'.2.get s.2.size = some v ∧
      s.2.get s.2.size = none ∧ PRel E o0 dists h0 s' g' ∧ PFrame o0 s s' := by
  obtain ⟨self1, heap1⟩ := s
  obtain ⟨apl, cp, e1, inv, hcp0, hsz, fr0⟩ := hr
  simp only at e1 inv hsz fr0
  subst e1
  simp only [pRefStep, hcp0, Option.bind_some] at href
  cases hV : pRecon E o0 dists g.ap cp ph amp gc with
  | none => simp [hV] at href
  | some V =>
    simp only [hV, Option.map_some, Option.some.injEq, Prod.mk.injEq] at href
    obtain ⟨rfl, rfl⟩ := href
    have hV' : pRecon E (o0.cfg g.powers apl) dists g.ap cp ph amp gc = some V := hV
    obtain ⟨h', log, er, hget, inv', frame'⟩ := gen_propagatorReconstructG_eq E L _ heap1 dists g.ap cp inv ph amp ng gc V hV'
    have hlt := Heap.get_eq_some_lt hget
    refine ⟨((o0.cfg g.powers apl).toSelf, h'), V, ?_, rfl, hget, Heap.get_eq_none_of_le (Nat.le_refl _), ?_, ?_⟩
    · simp only [pStep, er, Option.bind_some, hget, Option.map_some]
    · exact ⟨apl, cp, rfl, inv', hcp0, by simp only; omega, fun l hl h1 h2 => by simp only; rw [frame' l (by omega) h1 h2, fr0 l hl h1 h2]⟩
    · exact ⟨by simp only; omega, fun l hl h1 h2 => frame' l hl h1 h2⟩

end Odak
