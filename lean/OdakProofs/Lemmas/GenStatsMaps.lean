import OdakProofs.Lemmas.GenStateMachines
import OdakModel.StatsTie

/-!
  # Tie theorems: `calc_statsmaps` REGENERATED statement by statement (`OdakModel/Generated/StatsMaps.lean`) against its cache-free
  reference (`OdakModel/StatsTie.lean`)
-/
set_option linter.unusedVariables false
set_option linter.unusedSimpArgs false
set_option linter.unusedSectionVars false
set_option linter.unusedTactic false
set_option linter.unreachableTactic false

namespace Odak
open Odak.Gen
variable {T G R Shape Sub : Type} [DecidableEq G] [DecidableEq R] [DecidableEq Shape]

/-- evaluate a regenerated `do` block as far as the given facts allow (`simp only` with the monad laws of `Option`: the default simp set is
    far too slow on the large blocks), then close what is left with `simp` -/
syntax "step_simp" "[" Lean.Parser.Tactic.simpLemma,* "]" : tactic
macro_rules
  | `(tactic| step_simp [$ls,*]) =>
    `(tactic| (simp only [Option.bind_eq_bind, Option.bind_some, Option.bind_none, Option.pure_def, Option.isNone_some, Option.isNone_none,
        List.nil_append, List.cons_append, Bool.false_eq_true, if_false, if_true, ite_true, ite_false, decide_true, decide_false, ne_eq, not_true_eq_false, not_false_eq_true,
        $ls,*]))

/-! ### both raise, or both return related results -/

def OptRel {α β : Type} (Rel : α → β → Prop) : Option α → Option β → Prop
  | none, none => True
  | some a, some b => Rel a b
  | _, _ => False

theorem OptRel.none_iff {α β : Type} {Rel : α → β → Prop} {x : Option α} {y : Option β} (h : OptRel Rel x y) : x = none ↔ y = none := by
  cases x <;> cases y <;> simp_all [OptRel]

theorem OptRel.of_some {α β : Type} {Rel : α → β → Prop} {x : Option α} {y : Option β} {b : β} (h : OptRel Rel x y) (e : y = some b) :
    ∃ a, x = some a ∧ Rel a b := by
  subst e
  cases x with
  | none => exact absurd h (by simp [OptRel])
  | some a => exact ⟨a, rfl, h⟩

theorem OptRel.mono {α β : Type} {Rel Rel' : α → β → Prop} {x : Option α} {y : Option β} (h : OptRel Rel x y)
    (hm : ∀ a b, Rel a b → Rel' a b) : OptRel Rel' x y := by
  cases x <;> cases y <;> simp_all [OptRel]

/-- a loop of the generated text against the loop of the reference: if every pass keeps the relation (and raises exactly when the
    reference pass raises), so does the loop -/
theorem foldlM_optRel {σ ι γ : Type} (body : σ → ι → Option σ) (g : γ → ι → Option γ) (Rel : σ → γ → Prop)
    (hstep : ∀ s a i, Rel s a → OptRel Rel (body s i) (g a i)) :
    ∀ (l : List ι) (s : σ) (a : γ), Rel s a → OptRel Rel (l.foldlM body s) (l.foldlM g a) := by
  intro l
  induction l with
  | nil => intro s a hr; simpa [OptRel] using hr
  | cons i rest ih =>
    intro s a hr
    have h1 := hstep s a i hr
    simp only [List.foldlM_cons, Option.bind_eq_bind]
    cases hb : body s i with
    | none =>
      cases hg : g a i with
      | none => simp [OptRel]
      | some a1 => rw [hb, hg] at h1; exact absurd h1 (by simp [OptRel])
    | some s1 =>
      cases hg : g a i with
      | none => rw [hb, hg] at h1; exact absurd h1 (by simp [OptRel])
      | some a1 =>
        rw [hb, hg] at h1
        simpa using ih s1 a1 h1

/-! ### blur objects -/

/-- a blur object is consistent: its attributes hold a cache whose value is what a new object computes for the stored key -/
def RBInv (E : GazeOps T G R Shape Sub) (b : RadiallyVaryingBlurSelf T G R Shape Sub) : Prop :=
  ∃ c, b = rbToSelf c ∧ KeyedInv (rbValue E) c

theorem rbInv_init (E : GazeOps T G R Shape Sub) : RBInv E (RadiallyVaryingBlurSelf.init : RadiallyVaryingBlurSelf T G R Shape Sub) :=
  ⟨none, rfl, keyedInv_none _⟩

theorem rbInv_after (E : GazeOps T G R Shape Sub) (x : BlurArgs T G R) : RBInv E (rbAfter E x) :=
  ⟨_, rfl, by intro k v h; simp only [Option.some.injEq, Prod.mk.injEq] at h; obtain ⟨rfl, rfl⟩ := h; rfl⟩

theorem cacheStep_fst_of_inv {K V : Type} [DecidableEq K] (f : K → V) (s : Option (K × V)) (hs : KeyedInv f s) (k : K) :
    (cacheStep f s k).1 = some (k, f k) := by
  unfold cacheStep
  match s, hs with
  | none, _ => rfl
  | some (k', v), hs =>
    by_cases hk : k' = k
    · subst hk; simp [hs k' v rfl]
    · simp [hk]

/-- ONE call of the regenerated `blur` on a consistent blur object: never raises, returns the image rendered with the maps of ITS OWN
    arguments, and leaves the object `rbAfter` of those arguments - whatever it held before -/
theorem rb_call (E : GazeOps T G R Shape Sub) (b : RadiallyVaryingBlurSelf T G R Shape Sub) (hb : RBInv E b) (image : T) (a w d : R) (g : G)
    (m : String) (e : Bool) :
    ∃ log, radiallyVaryingBlurBlurG E b image a w d g m e = some (rbAfter E ⟨image, a, w, d, g, m, e⟩, rbFresh E ⟨image, a, w, d, g, m, e⟩, log) := by
  obtain ⟨c, rfl, hc⟩ := hb
  obtain ⟨_, h2⟩ := cacheStep_spec (rbValue E) c hc (rbKey E ⟨image, a, w, d, g, m, e⟩)
  have h3 := cacheStep_fst_of_inv (rbValue E) c hc (rbKey E ⟨image, a, w, d, g, m, e⟩)
  refine ⟨if cacheMiss c (rbKey E ⟨image, a, w, d, g, m, e⟩) then rbRefreshLog else [], ?_⟩
  rw [gen_radiallyVaryingBlurBlurG_eq, h3, h2]
  rfl

theorem rbAfter_lod_map (E : GazeOps T G R Shape Sub) (x : BlurArgs T G R) :
    (rbAfter E x : RadiallyVaryingBlurSelf T G R Shape Sub).lod_map = some (rbValue E (rbKey E x)).1 := rfl

/-! ### `find_stats` -/

theorem gen_findStats_rel (E : GazeOps T G R Shape Sub) (S : StatsOps T R Shape) (cfg : MetamericLossCfg R) (g : G) (a w d : R) (m : String)
    (lvl : T) (b : RadiallyVaryingBlurSelf T G R Shape Sub) (hb : RBInv E b) :
    OptRel (fun r v => r.1 = rbAfter E (fsArgs cfg (E.mul lvl lvl) g a w d m) ∧ r.2.1 = v)
      (metamericLossCalcStatsmapsFindStatsG E S cfg g a w d m lvl b) (findStatsRef E S cfg g a w d m lvl) := by
  obtain ⟨log1, e1⟩ := rb_call E b hb lvl a w d g m cfg.equi
  obtain ⟨log2, e2⟩ := rb_call E _ (rbInv_after E ⟨lvl, a, w, d, g, m, cfg.equi⟩) (E.mul lvl lvl) a w d g m cfg.equi
  by_cases h1 : S.anyNan (rbFresh E ⟨lvl, a, w, d, g, m, cfg.equi⟩) = true
  · simp [metamericLossCalcStatsmapsFindStatsG, findStatsRef, fsArgs, e1, e2, h1, OptRel]
  by_cases h2 : S.anyNan (S.sqrt (S.fillWhereLt (E.sub (rbFresh E ⟨E.mul lvl lvl, a, w, d, g, m, cfg.equi⟩)
      (E.mul (rbFresh E ⟨lvl, a, w, d, g, m, cfg.equi⟩) (rbFresh E ⟨lvl, a, w, d, g, m, cfg.equi⟩))) (E.lit "1e-07") (E.lit "1e-07"))) = true
  · simp [metamericLossCalcStatsmapsFindStatsG, findStatsRef, fsArgs, e1, e2, h1, h2, OptRel]
  cases h3 : cfg.use_fullres_l0
  · simp [metamericLossCalcStatsmapsFindStatsG, findStatsRef, fsArgs, e1, e2, h1, h2, h3, OptRel]
  · by_cases h4 : E.channels (rbFresh E ⟨lvl, a, w, d, g, m, cfg.equi⟩) > 1
    · simp [metamericLossCalcStatsmapsFindStatsG, findStatsRef, fsArgs, e1, e2, h1, h2, h3, h4, OptRel, rbAfter_lod_map]
    · simp [metamericLossCalcStatsmapsFindStatsG, findStatsRef, fsArgs, e1, e2, h1, h2, h3, h4, OptRel, rbAfter_lod_map]

/-! ### the loops of `MetamericLoss.calc_statsmaps` -/

/-- the sub-objects of a `MetamericLoss` are consistent: the pyramid maker (if any) was built by the constructor call of `calc_statsmaps`
    for SOME channel count / orientations / device, every blur object (if the list exists) is consistent -/
structure StatsInv (E : GazeOps T G R Shape Sub) (s : MetamericLossStatsSelf T G R Shape Sub) : Prop where
  pm : ∀ p, s.pyramid_maker = some p → ∃ c o d, spatialSteerablePyramidInitG false c 5 o "cropped" d = some p
  blurs : ∀ bl, s.blurs = some bl → ∀ b ∈ bl, RBInv E b

theorem statsInv_init (E : GazeOps T G R Shape Sub) : StatsInv E (MetamericLossStatsSelf.init : MetamericLossStatsSelf T G R Shape Sub) :=
  ⟨fun p h => (by cases h), fun bl h => (by cases h)⟩

/-- loop-carried variables of the generated text against those of the reference, inside the loops (the blur list has been (re)built for
    `n` levels, the pyramid maker and the fovea mask are fixed) -/
def LoopRel (E : GazeOps T G R Shape Sub) (n : Nat) (pm : Option SpatialSteerablePyramidSelf) (fm : Option T)
    (st : MetamericLossStatsSelf T G R Shape Sub × List String × T × T × List T × Option T) (rst : List T × Option T) : Prop :=
  (∃ bl, st.1.blurs = some bl ∧ bl.length = n ∧ ∀ b ∈ bl, RBInv E b) ∧ st.1.pyramid_maker = pm ∧ st.1.fovea_mask = fm ∧
    st.2.2.2.2.1 = rst.1 ∧ st.2.2.2.2.2 = rst.2

theorem rbInv_set {E : GazeOps T G R Shape Sub} {bl : List (RadiallyVaryingBlurSelf T G R Shape Sub)} (h : ∀ b ∈ bl, RBInv E b) (l : Nat)
    (x : BlurArgs T G R) : ∀ b ∈ bl.set l (rbAfter E x), RBInv E b := by
  intro b hb
  rcases List.mem_or_eq_of_mem_set hb with h1 | h1
  · exact h b h1
  · rw [h1]; exact rbInv_after E x

theorem gen_statsInner_rel (E : GazeOps T G R Shape Sub) (S : StatsOps T R Shape) (cfg : MetamericLossCfg R) (g : G) (a w d : R) (m : String)
    (pyr : List (PyrLevel T)) (l : Nat) (pm : Option SpatialSteerablePyramidSelf) (fm : Option T)
    (st : MetamericLossStatsSelf T G R Shape Sub × List String × T × T × List T × Option T) (rst : List T × Option T) (o : Nat)
    (h : LoopRel E cfg.n_pyramid_levels pm fm st rst) :
    OptRel (LoopRel E cfg.n_pyramid_levels pm fm) (metamericLossCalcStatsmapsFor1For1G E S cfg g a w d m pyr l st o)
      (statsInnerRef E S cfg g a w d m pyr l rst o) := by
  obtain ⟨self_, log_, mn, vr, os, per⟩ := st
  obtain ⟨ros, rper⟩ := rst
  obtain ⟨⟨bl, hbl, hlen, hinv⟩, hpm, hfm, h1, h2⟩ := h
  simp only at hbl hpm hfm h1 h2
  subst h1 h2
  cases e1 : pyr[l]? with
  | none => simp [metamericLossCalcStatsmapsFor1For1G, statsInnerRef, e1, OptRel]
  | some lv =>
  cases e2 : lv.b with
  | none => simp [metamericLossCalcStatsmapsFor1For1G, statsInnerRef, e1, e2, OptRel]
  | some bands =>
  cases e3 : bands[o]? with
  | none => simp [metamericLossCalcStatsmapsFor1For1G, statsInnerRef, e1, e2, e3, OptRel]
  | some x =>
  by_cases hl : l < cfg.n_pyramid_levels
  case neg =>
    have e4 : bl[l]? = none := List.getElem?_eq_none (by omega)
    simp [metamericLossCalcStatsmapsFor1For1G, statsInnerRef, e1, e2, e3, hbl, e4, hl, OptRel]
  have hl' : l < bl.length := by omega
  have e4 : bl[l]? = some bl[l] := List.getElem?_eq_getElem hl'
  have hb : RBInv E bl[l] := hinv _ (List.getElem_mem hl')
  have hf := gen_findStats_rel E S cfg g a w d m x bl[l] hb
  cases e5 : findStatsRef E S cfg g a w d m x with
  | none =>
    have e6 := (OptRel.none_iff hf).2 e5
    simp [metamericLossCalcStatsmapsFor1For1G, statsInnerRef, e1, e2, e3, hbl, e4, hl, e5, e6, OptRel]
  | some v =>
    obtain ⟨r, e6, hr1, hr2⟩ := OptRel.of_some hf e5
    obtain ⟨rb, rv, rlog⟩ := r
    simp only at hr1 hr2
    subst hr1 hr2
    have hset := rbInv_set hinv l (fsArgs cfg (E.mul x x) g a w d m)
    cases e7 : cfg.use_l2_foveal_loss
    · simp [metamericLossCalcStatsmapsFor1For1G, statsInnerRef, e1, e2, e3, hbl, e4, hl, e5, e6, e7, OptRel, LoopRel, hlen, hpm, hfm]
      exact hset
    · cases per with
      | none => simp [metamericLossCalcStatsmapsFor1For1G, statsInnerRef, e1, e2, e3, hbl, e4, hl, e5, e6, e7, OptRel]
      | some p =>
        simp [metamericLossCalcStatsmapsFor1For1G, statsInnerRef, e1, e2, e3, hbl, e4, hl, e5, e6, e7, OptRel, LoopRel, hlen, hpm, hfm]
        exact hset

theorem gen_statsOuter_rel (E : GazeOps T G R Shape Sub) (S : StatsOps T R Shape) (cfg : MetamericLossCfg R) (g : G) (a w d : R) (m : String)
    (pyr : List (PyrLevel T)) (pm : Option SpatialSteerablePyramidSelf) (fm : Option T)
    (st : MetamericLossStatsSelf T G R Shape Sub × List String × T × T × List T × Option T) (rst : List T × Option T) (l : Nat)
    (h : LoopRel E cfg.n_pyramid_levels pm fm st rst) :
    OptRel (LoopRel E cfg.n_pyramid_levels pm fm) (metamericLossCalcStatsmapsFor1G E S cfg g a w d m pyr st l)
      (statsOuterRef E S cfg g a w d m pyr rst l) := by
  cases e1 : pyr[l]? with
  | none => simp [metamericLossCalcStatsmapsFor1G, statsOuterRef, e1, OptRel]
  | some lv =>
  cases e2 : lv.b with
  | none => simp [metamericLossCalcStatsmapsFor1G, statsOuterRef, e1, e2, OptRel]
  | some bands =>
  have hfold := foldlM_optRel _ _ _ (fun s r i hr => gen_statsInner_rel E S cfg g a w d m pyr l pm fm s r i hr)
    (List.range bands.length) st rst h
  obtain ⟨self_, log_, mn, vr, os, per⟩ := st
  cases e3 : (List.range bands.length).foldlM (statsInnerRef E S cfg g a w d m pyr l) rst with
  | none =>
    have e4 := (OptRel.none_iff hfold).2 e3
    simp [metamericLossCalcStatsmapsFor1G, statsOuterRef, e1, e2, e3, e4, OptRel]
  | some rst' =>
    obtain ⟨st', e4, hr⟩ := OptRel.of_some hfold e3
    obtain ⟨self', log', mn', vr', os', per'⟩ := st'
    obtain ⟨ros', rper'⟩ := rst'
    obtain ⟨hb, hpm, hfm, h1, h2⟩ := hr
    simp only at hb hpm hfm h1 h2
    subst h1 h2
    cases e7 : cfg.use_l2_foveal_loss
    · simp [metamericLossCalcStatsmapsFor1G, statsOuterRef, e1, e2, e3, e4, e7, OptRel, LoopRel, hpm, hfm]
      exact hb
    · cases per' with
      | none => simp [metamericLossCalcStatsmapsFor1G, statsOuterRef, e1, e2, e3, e4, e7, OptRel]
      | some p =>
        simp [metamericLossCalcStatsmapsFor1G, statsOuterRef, e1, e2, e3, e4, e7, OptRel, LoopRel, hpm, hfm]
        exact hb

end Odak
