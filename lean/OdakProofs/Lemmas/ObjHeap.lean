import OdakModel.ObjPrelude

/-!
  # Lemmas about the heap of the regenerated object models (work package 13), loops against ghost folds, call lists

  No Mathlib import.  `Heap.get_alloc` / `Heap.get_set` are the two facts everything rests on: a new object is `size` of the heap it was
  created in and leaves every existing object alone; an in-place write changes exactly the object written.
-/
set_option linter.unusedVariables false

namespace Odak

namespace Heap
variable {T : Type}

@[simp] theorem size_alloc (h : Heap T) (v : T) : (h.alloc v).1.size = h.size + 1 := by simp [alloc, size]
@[simp] theorem alloc_snd (h : Heap T) (v : T) : (h.alloc v).2 = h.size := rfl
@[simp] theorem size_set (h : Heap T) (l : Nat) (v : T) : (h.set l v).size = h.size := by simp [set, size]

theorem get_alloc (h : Heap T) (v : T) (l : Nat) : (h.alloc v).1.get l = if l = h.size then some v else h.get l := by
  simp only [alloc, get, size, List.getElem?_append]
  by_cases h1 : l < h.cells.length
  · have : l ≠ h.cells.length := by omega
    simp [h1, this]
  · by_cases h2 : l = h.cells.length
    · simp [h2]
    · have h3 : l - h.cells.length ≠ 0 := by omega
      simp [h1, h2]
      cases hh : l - h.cells.length with
      | zero => exact absurd hh h3
      | succ k => simp

theorem get_set (h : Heap T) (l l' : Nat) (v : T) : (h.set l v).get l' = if l = l' ∧ l < h.size then some v else h.get l' := by
  simp only [set, get, size, List.getElem?_set]
  by_cases e : l = l'
  · subst e
    by_cases h2 : l < h.cells.length
    · simp [h2]
    · simp [h2]
  · simp [e]

theorem get_eq_some_lt {h : Heap T} {l : Nat} {v : T} (e : h.get l = some v) : l < h.size := by
  simp only [get, size] at *
  exact (List.getElem?_eq_some_iff.1 e).1

theorem get_eq_none_of_le {h : Heap T} {l : Nat} (e : h.size ≤ l) : h.get l = none := by
  simp only [get, size] at *
  exact List.getElem?_eq_none e

theorem get_isSome_of_lt {h : Heap T} {l : Nat} (e : l < h.size) : ∃ v, h.get l = some v := by
  simp only [get, size] at *
  exact ⟨h.cells[l], List.getElem?_eq_getElem e⟩

@[simp] theorem get_alloc_self (h : Heap T) (v : T) : (h.alloc v).1.get h.size = some v := by rw [get_alloc, if_pos rfl]

theorem get_alloc_of_lt {h : Heap T} {l : Nat} (e : l < h.size) (w : T) : (h.alloc w).1.get l = h.get l := by
  rw [get_alloc, if_neg (by omega)]

theorem get_alloc_of_some {h : Heap T} {l : Nat} {v : T} (e : h.get l = some v) (w : T) : (h.alloc w).1.get l = some v := by
  rw [get_alloc_of_lt (get_eq_some_lt e), e]

theorem get_set_ne {h : Heap T} {l l' : Nat} (e : l ≠ l') (v : T) : (h.set l v).get l' = h.get l' := by
  rw [get_set, if_neg (fun hh => e hh.1)]

theorem get_set_self {h : Heap T} {l : Nat} {w : T} (e : h.get l = some w) (v : T) : (h.set l v).get l = some v := by
  rw [get_set, if_pos ⟨rfl, get_eq_some_lt e⟩]

end Heap

/-- a loop of the generated text against a ghost fold: if every pass keeps the relation, the loop does -/
theorem foldlM_track {σ ι γ : Type} (body : σ → ι → Option σ) (g : γ → ι → Option γ) (Rel : σ → γ → Prop)
    (hstep : ∀ s a i a', Rel s a → g a i = some a' → ∃ s', body s i = some s' ∧ Rel s' a') :
    ∀ (l : List ι) (s : σ) (a a' : γ), Rel s a → l.foldlM g a = some a' → ∃ s', l.foldlM body s = some s' ∧ Rel s' a' := by
  intro l
  induction l with
  | nil =>
    intro s a a' hr e
    simp only [List.foldlM_nil, Option.pure_def, Option.some.injEq] at e
    subst e
    exact ⟨s, rfl, hr⟩
  | cons i rest ih =>
    intro s a a' hr e
    simp only [List.foldlM_cons, Option.bind_eq_bind] at e
    cases hg : g a i with
    | none => simp [hg] at e
    | some a1 =>
      simp only [hg, Option.bind_some] at e
      obtain ⟨s1, e1, r1⟩ := hstep s a i a1 hr hg
      obtain ⟨s2, e2, r2⟩ := ih s1 a1 a' r1 e
      exact ⟨s2, by simp [List.foldlM_cons, e1, e2], r2⟩

/-- a call list of a step function against a reference semantics with its own (smaller) state: if every call from related states returns
    (a value that projects to) the reference value, leads to related states and keeps the preorder `Q` on states, then so does every call list
    (induction over the list) -/
theorem runSteps_track {S G X Y Z : Type} (step : S → X → Option (S × Y)) (ref : G → X → Option (G × Z)) (π : Y → Z) (Rel : S → G → Prop)
    (P : X → Prop) (Q : S → S → Prop) (hrefl : ∀ s, Q s s) (htrans : ∀ a b c, Q a b → Q b c → Q a c)
    (h : ∀ s g x g' z, Rel s g → P x → ref g x = some (g', z) → ∃ s' y, step s x = some (s', y) ∧ π y = z ∧ Rel s' g' ∧ Q s s') :
    ∀ (xs : List X) (s : S) (g g' : G) (zs : List Z), Rel s g → (∀ x ∈ xs, P x) → runSteps ref g xs = some (g', zs) →
      ∃ s' ys, runSteps step s xs = some (s', ys) ∧ ys.map π = zs ∧ Rel s' g' ∧ Q s s' := by
  intro xs
  induction xs with
  | nil =>
    intro s g g' zs hr _ e
    simp only [runSteps, Option.some.injEq, Prod.mk.injEq] at e
    obtain ⟨e1, e2⟩ := e
    subst e1 e2
    exact ⟨s, [], rfl, rfl, hr, hrefl s⟩
  | cons x rest ih =>
    intro s g g' zs hr hp e
    simp only [runSteps] at e
    cases hx : ref g x with
    | none => simp [hx] at e
    | some r =>
      obtain ⟨g1, z⟩ := r
      simp only [hx, Option.bind_some] at e
      cases hrest : runSteps ref g1 rest with
      | none => simp [hrest] at e
      | some q =>
        obtain ⟨g2, zs2⟩ := q
        simp only [hrest, Option.map_some, Option.some.injEq, Prod.mk.injEq] at e
        obtain ⟨e1, e2⟩ := e
        subst e1 e2
        obtain ⟨s1, y, es1, ey, r1, q1⟩ := h s g x g1 z hr (hp x List.mem_cons_self) hx
        obtain ⟨s2, ys2, es2, eys, r2, q2⟩ := ih s1 g1 g2 zs2 r1 (fun z hz => hp z (List.mem_cons_of_mem _ hz)) hrest
        exact ⟨s2, y :: ys2, by simp [runSteps, es1, es2], by simp [ey, eys], r2, htrans _ _ _ q1 q2⟩

/-- a call list in two parts -/
theorem runSteps_append {S X Y : Type} (step : S → X → Option (S × Y)) :
    ∀ (xs ys : List X) (s : S), runSteps step s (xs ++ ys) =
      (runSteps step s xs).bind fun r => (runSteps step r.1 ys).map fun q => (q.1, r.2 ++ q.2) := by
  intro xs
  induction xs with
  | nil =>
    intro ys s
    simp only [List.nil_append, runSteps, Option.bind_some, List.nil_append]
    cases runSteps step s ys <;> rfl
  | cons x rest ih =>
    intro ys s
    simp only [List.cons_append, runSteps]
    cases hx : step s x with
    | none => rfl
    | some r =>
      simp only [Option.bind_some, ih]
      cases h1 : runSteps step r.1 rest with
      | none => rfl
      | some q =>
        simp only [Option.bind_some, Option.map_some]
        cases h2 : runSteps step q.1 ys with
        | none => rfl
        | some w => simp

/-- a property of the state that every call keeps is kept by every call list -/
theorem runSteps_keeps {S X Y : Type} (step : S → X → Option (S × Y)) (Q : S → S → Prop) (hrefl : ∀ s, Q s s)
    (htrans : ∀ a b c, Q a b → Q b c → Q a c) (h : ∀ s x s' y, step s x = some (s', y) → Q s s') :
    ∀ (xs : List X) (s s' : S) (ys : List Y), runSteps step s xs = some (s', ys) → Q s s' := by
  intro xs
  induction xs with
  | nil =>
    intro s s' ys e
    simp only [runSteps, Option.some.injEq, Prod.mk.injEq] at e
    rw [← e.1]
    exact hrefl s
  | cons x rest ih =>
    intro s s' ys e
    simp only [runSteps] at e
    cases hx : step s x with
    | none => simp [hx] at e
    | some r =>
      simp only [hx, Option.bind_some] at e
      cases hrest : runSteps step r.1 rest with
      | none => simp [hrest] at e
      | some q =>
        simp only [hrest, Option.map_some, Option.some.injEq, Prod.mk.injEq] at e
        rw [← e.1]
        exact htrans _ _ _ (h s x r.1 r.2 hx) (ih r.1 q.1 q.2 hrest)

end Odak
