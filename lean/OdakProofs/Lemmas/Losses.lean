import OdakProofs.RealInst
import OdakModel.Losses
import Mathlib.Algebra.BigOperators.Group.List.Basic
import Mathlib.Algebra.Order.BigOperators.Group.List
import Mathlib.Analysis.SpecialFunctions.Trigonometric.Basic
import Mathlib.Analysis.SpecialFunctions.Log.Basic
import Mathlib.Analysis.SpecialFunctions.Sqrt
import Mathlib.Tactic.Linarith
import Mathlib.Tactic.Positivity

/-! helper lemmas for C17 (losses and the keyed cache) -/
namespace Odak

/-! ### sums -/

theorem sumL_eq_sum (l : List ℝ) : sumL l = l.sum :=
  (foldl_add_real l 0).trans (zero_add _)

@[simp] theorem sumL_nil : sumL ([] : List ℝ) = 0 := rfl

theorem sumL_cons (x : ℝ) (l : List ℝ) : sumL (x :: l) = x + sumL l := by
  simp [sumL_eq_sum]

theorem sumL_nonneg {l : List ℝ} (h : ∀ x ∈ l, 0 ≤ x) : 0 ≤ sumL l := by
  rw [sumL_eq_sum]; exact List.sum_nonneg h

theorem sumL_eq_zero {l : List ℝ} (h : ∀ x ∈ l, x = 0) : sumL l = 0 := by
  induction l with
  | nil => rfl
  | cons x xs ih =>
    rw [sumL_cons, h x (by simp), ih (fun y hy => h y (by simp [hy])), add_zero]

/-- a sum of non-negative terms that vanishes has only zero terms -/
theorem eq_zero_of_sumL_eq_zero {l : List ℝ} (hn : ∀ x ∈ l, 0 ≤ x) (h : sumL l = 0) :
    ∀ x ∈ l, x = 0 := by
  induction l with
  | nil => intro x hx; simp at hx
  | cons y ys ih =>
    rw [sumL_cons] at h
    have hy : 0 ≤ y := hn y (by simp)
    have hys : 0 ≤ sumL ys := sumL_nonneg (fun z hz => hn z (by simp [hz]))
    have hy0 : y = 0 := by linarith
    have hys0 : sumL ys = 0 := by linarith
    intro x hx
    rcases List.mem_cons.1 hx with rfl | hx
    · exact hy0
    · exact ih (fun z hz => hn z (by simp [hz])) hys0 x hx

/-- every entry of `zipWith f a b` is `f x y` for some `x ∈ a`, `y ∈ b` -/
theorem exists_of_mem_zipWith {β γ δ : Type} (f : β → γ → δ) :
    ∀ (a : List β) (b : List γ) (z : δ), z ∈ List.zipWith f a b → ∃ x ∈ a, ∃ y ∈ b, z = f x y
  | [], _, z, h => by simp at h
  | _ :: _, [], z, h => by simp at h
  | x :: xs, y :: ys, z, h => by
    rw [List.zipWith_cons_cons] at h
    rcases List.mem_cons.1 h with rfl | h
    · exact ⟨x, by simp, y, by simp, rfl⟩
    · obtain ⟨x', hx', y', hy', e⟩ := exists_of_mem_zipWith f xs ys z h
      exact ⟨x', by simp [hx'], y', by simp [hy'], e⟩

theorem sumL_zipWith_nonneg {β γ : Type} (f : β → γ → ℝ) (hf : ∀ x y, 0 ≤ f x y) (a : List β) (b : List γ) :
    0 ≤ sumL (List.zipWith f a b) := by
  apply sumL_nonneg
  intro z hz
  obtain ⟨x, _, y, _, rfl⟩ := exists_of_mem_zipWith f a b z hz
  exact hf x y

theorem sumL_zipWith_self {β : Type} (f : β → β → ℝ) (hf : ∀ x, f x x = 0) (a : List β) :
    sumL (List.zipWith f a a) = 0 := by
  apply sumL_eq_zero
  intro z hz
  rw [List.zipWith_self] at hz
  obtain ⟨x, _, rfl⟩ := List.mem_map.1 hz
  exact hf x

theorem sq_nonneg' (x : ℝ) : 0 ≤ Num.sq x := by rw [num_sq]; exact mul_self_nonneg x

theorem sq_eq_zero' {x : ℝ} : Num.sq x = 0 ↔ x = 0 := by rw [num_sq]; exact mul_self_eq_zero

/-! ### vanishing sums of squared differences force equality (for the converse of `tv = 0`) -/

/-- if the `g`-costs of all adjacent pairs of `l` sum to zero (`g ≥ 0`, `g x y = 0 → x = y` on `l`),
    then `l` is constant -/
theorem eq_replicate_of_sumL_adjacent_zero {β : Type} (g : β → β → ℝ) (hg : ∀ x y, 0 ≤ g x y) (d : β) :
    ∀ l : List β, (∀ x ∈ l, ∀ y ∈ l, g x y = 0 → x = y) → sumL (List.zipWith g l l.tail) = 0 →
      l = List.replicate l.length (l.headD d)
  | [], _, _ => rfl
  | [_], _, _ => rfl
  | x :: y :: ys, h0, h => by
    simp only [List.tail_cons, List.zipWith_cons_cons] at h
    rw [sumL_cons] at h
    have h1 := hg x y
    have h2 : 0 ≤ sumL (List.zipWith g (y :: ys) ys) := sumL_zipWith_nonneg g hg _ _
    have hxy : x = y := h0 x (by simp) y (by simp) (by linarith)
    have ih := eq_replicate_of_sumL_adjacent_zero g hg d (y :: ys)
      (fun a ha b hb => h0 a (by simp [ha]) b (by simp [hb]))
      (by simpa using (by linarith : sumL (List.zipWith g (y :: ys) ys) = 0))
    subst hxy
    simp only [List.length_cons, List.headD_cons] at ih ⊢
    rw [List.replicate_succ]
    exact congrArg (x :: ·) ih

/-- equal-length lists whose squared differences sum to zero are equal -/
theorem eq_of_sumL_sqdiff_zero : ∀ l l' : List ℝ, l.length = l'.length →
    sumL (List.zipWith (fun a b : ℝ => Num.sq (b - a)) l l') = 0 → l = l'
  | [], [], _, _ => rfl
  | [], _ :: _, hl, _ => by simp at hl
  | _ :: _, [], hl, _ => by simp at hl
  | x :: xs, y :: ys, hl, h => by
    rw [List.zipWith_cons_cons, sumL_cons] at h
    have h1 := sq_nonneg' (y - x)
    have h2 : 0 ≤ sumL (List.zipWith (fun a b : ℝ => Num.sq (b - a)) xs ys) :=
      sumL_zipWith_nonneg _ (fun a b => sq_nonneg' _) _ _
    have hxy : y - x = 0 := sq_eq_zero'.1 (by linarith)
    have ih := eq_of_sumL_sqdiff_zero xs ys (by simpa using hl) (by linarith)
    have : x = y := by linarith
    rw [this, ih]

/-! ### mean squared error -/

theorem mse_nonneg (a b : List ℝ) : 0 ≤ mse a b := by
  unfold mse
  exact div_nonneg (sumL_zipWith_nonneg _ (fun x y => sq_nonneg' _) a b) (Nat.cast_nonneg _)

theorem mse_self (a : List ℝ) : mse a a = 0 := by
  unfold mse
  rw [sumL_zipWith_self _ (fun x => by simp [num_sq])]
  exact zero_div _

/-! ### the stale (target-only keyed) cache of the pre-fix `MetamericLoss` -/

/-- a cache that compares only the target `t` although the cached computation also reads the gaze `g` -/
def staleStep {T G V : Type} [DecidableEq T] (f : T × G → V) (s : Option (T × V)) (t : T) (g : G) :
    Option (T × V) × V :=
  match s with
  | some (t', v) => if t' = t then (s, v) else (some (t, f (t, g)), f (t, g))
  | none => (some (t, f (t, g)), f (t, g))

def staleRun {T G V : Type} [DecidableEq T] (f : T × G → V) :
    Option (T × V) → List (T × G) → Option (T × V) × List V
  | s, [] => (s, [])
  | s, (t, g) :: ks =>
    let (s', v) := staleStep f s t g
    let (s'', vs) := staleRun f s' ks
    (s'', v :: vs)

/-! ### the keyed cache -/

/-- cache invariant: the stored value is what a fresh object computes for the stored key -/
def KeyedInv {K V : Type} (f : K → V) (s : Option (K × V)) : Prop :=
  ∀ k v, s = some (k, v) → v = f k

theorem keyedInv_none {K V : Type} (f : K → V) : KeyedInv f none := by
  intro k v h; cases h

/-- one use preserves the invariant and returns the fresh value -/
theorem cacheStep_spec {K V : Type} [DecidableEq K] (f : K → V) (s : Option (K × V)) (hs : KeyedInv f s) (k : K) :
    KeyedInv f (cacheStep f s k).1 ∧ (cacheStep f s k).2 = f k := by
  unfold cacheStep
  match s, hs with
  | none, _ =>
    refine ⟨?_, rfl⟩
    intro k' v' h
    simp only [Option.some.injEq, Prod.mk.injEq] at h
    obtain ⟨rfl, rfl⟩ := h; rfl
  | some (k', v), hs =>
    by_cases hk : k' = k
    · subst hk
      simp only [if_true]
      exact ⟨hs, hs k' v rfl⟩
    · simp only [if_neg hk]
      refine ⟨?_, trivial⟩
      intro k'' v' h
      simp only [Option.some.injEq, Prod.mk.injEq] at h
      obtain ⟨rfl, rfl⟩ := h; rfl

/-- the refresh decisions along a run -/
def cacheMisses {K V : Type} [DecidableEq K] (f : K → V) : Option (K × V) → List K → List Bool
  | _, [] => []
  | s, k :: ks => cacheMiss s k :: cacheMisses f (cacheStep f s k).1 ks

end Odak
