import OdakProofs.Lemmas.Slicing
import OdakModel.Defocus
import Mathlib.Analysis.SpecialFunctions.Exp
import Mathlib.Algebra.Order.BigOperators.Group.Finset
import Mathlib.Algebra.BigOperators.Ring.Finset
import Mathlib.Algebra.BigOperators.Field
import Mathlib.Data.Fintype.BigOperators
import Mathlib.Tactic.Positivity
import Mathlib.Tactic.Ring
import Mathlib.Tactic.Linarith
import Mathlib.Tactic.FieldSimp
import Mathlib.Tactic.NormNum

/-!
  Lemmas about the hand-written defocus model (`OdakModel/Defocus.lean`) at `α = ℝ`:
  sample positions of the kernel, the normalised kernel as a family of weights, the `i = j` kernel (sigma floor `1e-5`) as an
  approximate unit impulse with an explicit bound, one output pixel of the convolution as a weighted sum, the collapse of the
  accumulation over the planes at an in-focus pixel.
-/
namespace Odak
open Finset

/-! ### sums -/

theorem gridSumR_eq (n m : Nat) (K : Fin n → Fin m → ℝ) : gridSumR n m K = ∑ a, ∑ b, K a b := by
  simp only [gridSumR, sumFinR_eq]

theorem gridSumR_eq_prod (n m : Nat) (K : Fin n → Fin m → ℝ) : gridSumR n m K = ∑ p : Fin n × Fin m, K p.1 p.2 := by
  rw [gridSumR_eq, Fintype.sum_prod_type]

theorem convSame_eq (n m : Nat) (K : Fin n → Fin m → ℝ) (inp : Int → Int → ℝ) :
    convSame n m K inp = ∑ p : Fin n × Fin m,
      K p.1 p.2 * inp ((p.1.val : Int) - (((n - 1) / 2 : Nat) : Int)) ((p.2.val : Int) - (((m - 1) / 2 : Nat) : Int)) := by
  unfold convSame
  rw [gridSumR_eq_prod]

/-- a weighted mean (weights `≥ 0`, sum 1) of values bounded by `M` differs from the value at the index `c0` by at most
    `2 · (1 - w c0) · M` -/
theorem weighted_sum_near_centre {ι : Type} [Fintype ι] [DecidableEq ι] (w v : ι → ℝ) (c0 : ι) (M : ℝ)
    (hw : ∀ i, 0 ≤ w i) (hsum : ∑ i, w i = 1) (hv : ∀ i, |v i| ≤ M) :
    |∑ i, w i * v i - v c0| ≤ 2 * (1 - w c0) * M := by
  have h0 : ∑ i, w i * (v i - v c0) = ∑ i, w i * v i - v c0 := by
    simp only [mul_sub, Finset.sum_sub_distrib, ← Finset.sum_mul, hsum, one_mul]
  have h1 : ∑ i, w i * v i - v c0 = ∑ i ∈ univ.erase c0, w i * (v i - v c0) := by
    rw [← h0, ← Finset.add_sum_erase univ _ (Finset.mem_univ c0)]
    simp
  rw [h1]
  calc |∑ i ∈ univ.erase c0, w i * (v i - v c0)|
      ≤ ∑ i ∈ univ.erase c0, |w i * (v i - v c0)| := Finset.abs_sum_le_sum_abs _ _
    _ ≤ ∑ i ∈ univ.erase c0, w i * (2 * M) := by
        apply Finset.sum_le_sum
        intro i _
        rw [abs_mul, abs_of_nonneg (hw i)]
        apply mul_le_mul_of_nonneg_left _ (hw i)
        have h1 := abs_le.mp (hv i)
        have h2 := abs_le.mp (hv c0)
        rw [abs_le]
        constructor <;> linarith [h1.1, h1.2, h2.1, h2.2]
    _ = 2 * (1 - w c0) * M := by
        rw [← Finset.sum_mul, Finset.sum_erase_eq_sub (Finset.mem_univ c0), hsum]
        ring

theorem le_sum_of_nonneg {ι : Type} [Fintype ι] (f : ι → ℝ) (hf : ∀ i, 0 ≤ f i) (i0 : ι) : f i0 ≤ ∑ i, f i :=
  Finset.single_le_sum (fun i _ => hf i) (Finset.mem_univ i0)

/-- if every weight off the index `c0` is at most `δ`, the mass off `c0` is at most `(card - 1) · δ` -/
theorem one_sub_centre_le {ι : Type} [Fintype ι] [DecidableEq ι] (w : ι → ℝ) (c0 : ι) (δ : ℝ)
    (hsum : ∑ i, w i = 1) (hoff : ∀ i, i ≠ c0 → w i ≤ δ) :
    1 - w c0 ≤ ((Fintype.card ι - 1 : ℕ) : ℝ) * δ := by
  have h : 1 - w c0 = ∑ i ∈ univ.erase c0, w i := by
    rw [Finset.sum_erase_eq_sub (Finset.mem_univ c0), hsum]
  rw [h]
  have := Finset.sum_le_card_nsmul (univ.erase c0) w δ (fun i hi => hoff i (Finset.ne_of_mem_erase hi))
  rw [Finset.card_erase_of_mem (Finset.mem_univ c0), Finset.card_univ, nsmul_eq_mul] at this
  exact this

/-! ### sample positions `linspace(-L/2, L/2, L)` -/

theorem gaussPos_real (L a : Nat) (hL : 2 ≤ L) :
    (gaussPos L a : ℝ) = -(L : ℝ) / 2 + (L : ℝ) * (a : ℝ) / ((L : ℝ) - 1) := by
  unfold gaussPos linspace
  rw [if_neg (by omega)]
  simp only [num_ofNat, Nat.cast_ofNat]
  rw [Nat.cast_sub (by omega)]
  push_cast
  ring

/-- odd `L = 2c + 1`: sample `a` sits at `(2c+1)(a - c) / (2c)` -/
theorem gaussPos_odd (c a : Nat) (hc : 1 ≤ c) :
    (gaussPos (2 * c + 1) a : ℝ) = (2 * (c : ℝ) + 1) * ((a : ℝ) - c) / (2 * c) := by
  rw [gaussPos_real _ _ (by omega)]
  have hc' : (0 : ℝ) < c := by exact_mod_cast hc
  push_cast
  field_simp
  ring

theorem gaussPos_centre (c : Nat) (hc : 1 ≤ c) : (gaussPos (2 * c + 1) c : ℝ) = 0 := by
  rw [gaussPos_odd c c hc]; simp

/-- every other sample of an odd grid is at distance at least the spacing `L / (L - 1) > 1` from 0 -/
theorem gaussPos_off (c a : Nat) (hc : 1 ≤ c) (ha : a ≠ c) :
    (2 * (c : ℝ) + 1) / (2 * c) ≤ |(gaussPos (2 * c + 1) a : ℝ)| := by
  rw [gaussPos_odd c a hc]
  have hc' : (0 : ℝ) < c := by exact_mod_cast hc
  have h1 : (1 : ℝ) ≤ |(a : ℝ) - c| := by
    rcases Nat.lt_or_gt_of_ne ha with h | h
    · have : (a : ℝ) + 1 ≤ c := by exact_mod_cast h
      rw [abs_of_nonpos (by linarith)]; linarith
    · have : (c : ℝ) + 1 ≤ a := by exact_mod_cast h
      rw [abs_of_nonneg (by linarith)]; linarith
  rw [abs_div, abs_mul, abs_of_pos (by positivity : (0 : ℝ) < 2 * c + 1), abs_of_pos (by positivity : (0 : ℝ) < 2 * c)]
  apply div_le_div_of_nonneg_right _ (by positivity)
  nlinarith

theorem gaussPos_off_sq (c a : Nat) (hc : 1 ≤ c) (ha : a ≠ c) : (1 : ℝ) ≤ (gaussPos (2 * c + 1) a : ℝ) * gaussPos (2 * c + 1) a := by
  have h := gaussPos_off c a hc ha
  have hc' : (0 : ℝ) < c := by exact_mod_cast hc
  have h1 : (1 : ℝ) ≤ (2 * (c : ℝ) + 1) / (2 * c) := by
    rw [le_div_iff₀ (by positivity)]; linarith
  have h2 : (1 : ℝ) ≤ |(gaussPos (2 * c + 1) a : ℝ)| := le_trans h1 h
  calc (1 : ℝ) = 1 * 1 := by ring
    _ ≤ |(gaussPos (2 * c + 1) a : ℝ)| * |(gaussPos (2 * c + 1) a : ℝ)| := by nlinarith
    _ = _ := abs_mul_abs_self _

/-! ### the kernel -/

theorem sigmaFloor_zero : sigmaFloor (Num.ofNat 0 : ℝ) = 1 / 100000 := by
  unfold sigmaFloor
  rw [if_pos ⟨le_refl _, le_refl _⟩, num_ofSci]
  norm_num

theorem sigmaFloor_pos (s : ℝ) (hs : 0 ≤ s) : 0 < sigmaFloor s := by
  unfold sigmaFloor
  simp only [num_ofNat, Nat.cast_zero]
  split_ifs with h
  · rw [num_ofSci]; norm_num
  · rcases lt_or_eq_of_le hs with h' | h'
    · exact h'
    · exact absurd ⟨le_of_eq h'.symm, le_of_eq h'⟩ h

theorem gauss2d_real (n m : Nat) (s0 s1 : ℝ) (a : Fin n) (b : Fin m) :
    gauss2d n m s0 s1 a b = 1 / (2 * Real.pi * sigmaFloor s0 * sigmaFloor s1) *
      Real.exp (-(gaussPos n a.val * gaussPos n a.val / (2 * (sigmaFloor s0 * sigmaFloor s0)) +
                  gaussPos m b.val * gaussPos m b.val / (2 * (sigmaFloor s1 * sigmaFloor s1)))) := by
  simp only [gauss2d, num_ofNat, num_pi, num_exp, num_sq, Nat.cast_one, Nat.cast_ofNat]

theorem gauss2d_pos (n m : Nat) (s0 s1 : ℝ) (h0 : 0 < sigmaFloor s0) (h1 : 0 < sigmaFloor s1) (a : Fin n) (b : Fin m) :
    0 < gauss2d n m s0 s1 a b := by
  rw [gauss2d_real]
  have := Real.pi_pos
  positivity

/-- a normalised array of non-negative numbers, not all zero, is a family of weights -/
theorem normKernel_nonneg (n m : Nat) (K : Fin n → Fin m → ℝ) (hK : ∀ a b, 0 ≤ K a b) (a : Fin n) (b : Fin m) :
    0 ≤ normKernel n m K a b := by
  unfold normKernel
  apply div_nonneg (hK a b)
  rw [gridSumR_eq]
  exact Finset.sum_nonneg fun a _ => Finset.sum_nonneg fun b _ => hK a b

theorem gridSumR_pos (n m : Nat) (K : Fin n → Fin m → ℝ) (hK : ∀ a b, 0 < K a b) (hn : 0 < n) (hm : 0 < m) : 0 < gridSumR n m K := by
  rw [gridSumR_eq_prod]
  have : Nonempty (Fin n × Fin m) := ⟨(⟨0, hn⟩, ⟨0, hm⟩)⟩
  exact Finset.sum_pos (fun p _ => hK p.1 p.2) Finset.univ_nonempty

theorem normKernel_sum (n m : Nat) (K : Fin n → Fin m → ℝ) (hS : gridSumR n m K ≠ 0) : gridSumR n m (normKernel n m K) = 1 := by
  have : gridSumR n m (normKernel n m K) = gridSumR n m K / gridSumR n m K := by
    unfold normKernel
    rw [gridSumR_eq, gridSumR_eq]
    simp only [← Finset.sum_div]
  rw [this, div_self hS]

theorem trunc_nonneg (x : ℝ) (hx : 0 ≤ x) : (0 : ℝ) ≤ Num.trunc x := by
  unfold Num.trunc
  rw [if_neg (not_lt.mpr hx)]
  simp only [num_floor]
  exact_mod_cast Int.floor_nonneg.mpr hx

theorem defocusSigma_nonneg (ratio : ℝ) (hr : 0 ≤ ratio) (i j : Nat) : 0 ≤ defocusSigma ratio i j := by
  unfold defocusSigma
  split_ifs
  · simp
  · apply trunc_nonneg
    simp only [num_ofNat]
    positivity

theorem defocusSigma_self (ratio : ℝ) (i : Nat) : defocusSigma ratio i i = Num.ofNat 0 := by
  unfold defocusSigma; rw [if_pos rfl]

/-- for `blur_ratio ≥ 0` every kernel of `add_defocus_blur` is a family of weights: non-negative, sum 1 -/
theorem defocusKernel_weights (L : Nat) (hL : 0 < L) (ratio : ℝ) (hr : 0 ≤ ratio) (i j : Nat) :
    (∀ a b, 0 ≤ defocusKernel L ratio i j a b) ∧ gridSumR L L (defocusKernel L ratio i j) = 1 := by
  have hs := sigmaFloor_pos _ (defocusSigma_nonneg ratio hr i j)
  have hpos := gauss2d_pos L L _ _ hs hs
  constructor
  · intro a b
    exact normKernel_nonneg L L _ (fun a b => le_of_lt (hpos a b)) a b
  · exact normKernel_sum L L _ (ne_of_gt (gridSumR_pos L L _ hpos hL hL))

/-- the unnormalised `i = j` kernel on an odd grid: at the centre `1 / (2 pi s^2)`, elsewhere at most that times `exp(-5e9)` -/
theorem gauss2d_zero_centre (c : Nat) (hc : 1 ≤ c) (a b : Fin (2 * c + 1)) (ha : a.val = c) (hb : b.val = c) :
    gauss2d (2 * c + 1) (2 * c + 1) (Num.ofNat 0 : ℝ) (Num.ofNat 0) a b = 1 / (2 * Real.pi * (1 / 100000) * (1 / 100000)) := by
  rw [gauss2d_real, sigmaFloor_zero, ha, hb, gaussPos_centre c hc]
  simp

theorem gauss2d_zero_off (c : Nat) (hc : 1 ≤ c) (a b : Fin (2 * c + 1)) (hab : ¬ (a.val = c ∧ b.val = c)) :
    gauss2d (2 * c + 1) (2 * c + 1) (Num.ofNat 0 : ℝ) (Num.ofNat 0) a b ≤
      1 / (2 * Real.pi * (1 / 100000) * (1 / 100000)) * Real.exp (-5000000000) := by
  rw [gauss2d_real, sigmaFloor_zero]
  have hpi := Real.pi_pos
  apply mul_le_mul_of_nonneg_left _ (by positivity)
  apply Real.exp_le_exp.mpr
  have hsq : ∀ x : Nat, (0 : ℝ) ≤ (gaussPos (2 * c + 1) x : ℝ) * gaussPos (2 * c + 1) x := fun x => mul_self_nonneg _
  have hone : (1 : ℝ) ≤ (gaussPos (2 * c + 1) a.val : ℝ) * gaussPos (2 * c + 1) a.val +
      (gaussPos (2 * c + 1) b.val : ℝ) * gaussPos (2 * c + 1) b.val := by
    by_cases ha : a.val = c
    · have hb : b.val ≠ c := fun hb => hab ⟨ha, hb⟩
      have := gaussPos_off_sq c b.val hc hb
      linarith [hsq a.val]
    · have := gaussPos_off_sq c a.val hc ha
      linarith [hsq b.val]
  have e : ∀ x : ℝ, x / (2 * ((1 : ℝ) / 100000 * (1 / 100000))) = 5000000000 * x := by intro x; ring
  rw [e, e]
  linarith

/-- the `i = j` kernel (both sigmas `0.`, replaced by `1e-5`) after `kernel / sum(kernel)` -/
noncomputable def impulseKernel (L : Nat) : Fin L → Fin L → ℝ := normKernel L L (gauss2d L L (Num.ofNat 0) (Num.ofNat 0))

theorem defocusKernel_self (L : Nat) (ratio : ℝ) (i : Nat) : defocusKernel L ratio i i = impulseKernel L := by
  unfold defocusKernel impulseKernel
  rw [defocusSigma_self]

theorem impulseKernel_weights (L : Nat) (hL : 0 < L) :
    (∀ a b, 0 ≤ impulseKernel L a b) ∧ gridSumR L L (impulseKernel L) = 1 := by
  have h := defocusKernel_weights L hL 0 (le_refl _) 0 0
  rwa [defocusKernel_self] at h

/-- normalising positive numbers: an entry that is at most `δ` times another entry is at most `δ` after normalisation -/
theorem norm_off_le {ι : Type} [Fintype ι] (G : ι → ℝ) (hpos : ∀ i, 0 < G i) (i0 i : ι) (δ : ℝ) (h : G i ≤ G i0 * δ) :
    G i / ∑ j, G j ≤ δ := by
  have hS : G i0 ≤ ∑ j, G j := le_sum_of_nonneg G (fun j => le_of_lt (hpos j)) i0
  calc G i / ∑ j, G j ≤ G i / G i0 := div_le_div_of_nonneg_left (le_of_lt (hpos i)) (hpos i0) hS
    _ ≤ G i0 * δ / G i0 := div_le_div_of_nonneg_right h (le_of_lt (hpos i0))
    _ = δ := by field_simp [ne_of_gt (hpos i0)]

/-- every off-centre weight of the `i = j` kernel on an odd grid is at most `exp(-5·10^9)` -/
theorem impulseKernel_off (c : Nat) (hc : 1 ≤ c) (a b : Fin (2 * c + 1)) (hab : ¬ (a.val = c ∧ b.val = c)) :
    impulseKernel (2 * c + 1) a b ≤ Real.exp (-5000000000) := by
  have hs : (0 : ℝ) < sigmaFloor (Num.ofNat 0 : ℝ) := by rw [sigmaFloor_zero]; norm_num
  have hpos := gauss2d_pos (2 * c + 1) (2 * c + 1) (Num.ofNat 0 : ℝ) (Num.ofNat 0) hs hs
  have h := norm_off_le (fun p : Fin (2 * c + 1) × Fin (2 * c + 1) => gauss2d (2 * c + 1) (2 * c + 1) (Num.ofNat 0 : ℝ) (Num.ofNat 0) p.1 p.2)
    (fun p => hpos p.1 p.2) (⟨c, by omega⟩, ⟨c, by omega⟩) (a, b) (Real.exp (-5000000000))
    (by dsimp only; rw [gauss2d_zero_centre c hc ⟨c, by omega⟩ ⟨c, by omega⟩ rfl rfl]; exact gauss2d_zero_off c hc a b hab)
  dsimp only at h
  unfold impulseKernel normKernel
  rw [gridSumR_eq_prod]
  exact h

/-- the mass of the `i = j` kernel off its centre tap, `L = 2c + 1` -/
noncomputable def defocusEps (c : Nat) : ℝ := 1 - impulseKernel (2 * c + 1) ⟨c, by omega⟩ ⟨c, by omega⟩

theorem defocusEps_bounds (c : Nat) (hc : 1 ≤ c) :
    0 ≤ defocusEps c ∧ defocusEps c ≤ (((2 * c + 1) * (2 * c + 1) - 1 : ℕ) : ℝ) * Real.exp (-5000000000) := by
  obtain ⟨hnn, hsum⟩ := impulseKernel_weights (2 * c + 1) (by omega)
  rw [gridSumR_eq_prod] at hsum
  constructor
  · have h := le_sum_of_nonneg (fun p : Fin (2 * c + 1) × Fin (2 * c + 1) => impulseKernel (2 * c + 1) p.1 p.2)
      (fun p => hnn p.1 p.2) (⟨c, by omega⟩, ⟨c, by omega⟩)
    rw [hsum] at h
    dsimp only at h
    unfold defocusEps
    linarith
  · have h := one_sub_centre_le (fun p : Fin (2 * c + 1) × Fin (2 * c + 1) => impulseKernel (2 * c + 1) p.1 p.2)
      (⟨c, by omega⟩, ⟨c, by omega⟩) (Real.exp (-5000000000)) hsum (fun p hp => impulseKernel_off c hc p.1 p.2 (by
        intro h
        apply hp
        ext
        · exact h.1
        · exact h.2))
    rw [Fintype.card_prod, Fintype.card_fin] at h
    exact h

/-! ### one output pixel, and the accumulation over the planes -/

/-- convolving with the `i = j` kernel changes a pixel by at most `2 · eps · max|input|` -/
theorem conv_impulse_near (c : Nat) (inp : Int → Int → ℝ) (M : ℝ) (hM : ∀ dy dx, |inp dy dx| ≤ M) :
    |convSame (2 * c + 1) (2 * c + 1) (impulseKernel (2 * c + 1)) inp - inp 0 0| ≤ 2 * defocusEps c * M := by
  obtain ⟨hnn, hsum⟩ := impulseKernel_weights (2 * c + 1) (by omega)
  rw [gridSumR_eq_prod] at hsum
  rw [convSame_eq]
  have hhalf : ((2 * c + 1 - 1) / 2 : Nat) = c := by omega
  have h := weighted_sum_near_centre (fun p : Fin (2 * c + 1) × Fin (2 * c + 1) => impulseKernel (2 * c + 1) p.1 p.2)
    (fun p => inp ((p.1.val : Int) - ((c : Nat) : Int)) ((p.2.val : Int) - ((c : Nat) : Int)))
    (⟨c, by omega⟩, ⟨c, by omega⟩) M (fun p => hnn p.1 p.2) hsum (fun p => hM _ _)
  dsimp only at h
  rw [sub_self] at h
  rw [hhalf]
  exact h

/-- `if guard then acc + x else acc` accumulated over the planes, at a pixel where exactly the mask of plane `i` is 1 -/
theorem fold_guard_single (planes i : Nat) (hi : i < planes) (g : Nat → Prop) [∀ j, Decidable (g j)] (x m : Nat → ℝ)
    (hmi : m i = 1) (hm : ∀ j, j < planes → j ≠ i → m j = 0) :
    (List.range planes).foldl (fun acc j => if g j then acc + x j * |m j| else acc) 0 = if g i then x i else 0 := by
  have step : (fun (acc : ℝ) (j : Nat) => if g j then acc + x j * |m j| else acc) =
      (fun acc j => acc + (if g j then x j * |m j| else 0)) := by
    funext acc j; split_ifs <;> simp
  rw [step, foldl_add_fn (fun j => if g j then x j * |m j| else 0), zero_add]
  have hmap : (List.range planes).map (fun j => if g j then x j * |m j| else 0) =
      (List.range planes).map (fun j => if j = i then (if g i then x i else 0) else 0) := by
    apply List.map_congr_left
    intro j hj
    rw [List.mem_range] at hj
    by_cases hji : j = i
    · subst hji; simp [hmi]
    · simp [hji, hm j hj hji]
  rw [hmap, sum_range_indicator, if_pos hi]

/-- with every guard false nothing is accumulated -/
theorem fold_guard_none (l : List Nat) (g : Nat → Prop) [∀ j, Decidable (g j)] (f : ℝ → Nat → ℝ) (a : ℝ) (hg : ∀ j ∈ l, ¬ g j) :
    l.foldl (fun acc j => if g j then f acc j else acc) a = a := by
  induction l generalizing a with
  | nil => rfl
  | cons x xs ih =>
    rw [List.foldl_cons, if_neg (hg x (List.mem_cons_self ..))]
    exact ih a (fun j hj => hg j (List.mem_cons_of_mem _ hj))

end Odak
