import OdakProofs.Lemmas.GenPadCropTorchPadD
import OdakProofs.Lemmas.GenPadCropTorchPadE
import OdakProofs.Lemmas.GenPadCropTorchCrop
import OdakProofs.Lemmas.GenPadCropNp

/-! `crop_center (zero_pad x) = x` AS TENSORS for the regenerated definitions (same shape - rank and layout included - and the same
    element at every multi-index), torch for every documented rank / layout (a single channel `[1 x m x n]` is the case `c = 1` of
    `Layout.chw`), NumPy for rank 2; NumPy and torch place the content identically; and what the regenerated definitions do with a
    rank-3 channels-LAST image `[m x n x c]`, a layout the docstrings do not list: `zero_pad` keeps the layout, `crop_center`
    returns the crop channels-FIRST (its last two statements squeeze `cropped_padded`, the tensor before the permutation back). -/
namespace Odak
open Tensor
set_option linter.unusedSectionVars false
set_option linter.unusedSimpArgs false
set_option linter.unusedVariables false
variable {α : Type} [Num α]

theorem Layout.accepts_mono (L : Layout) (c w W : Nat) (ha : L.Accepts c w) (hw : w ≤ W) : L.Accepts c W := by
  cases L <;> simp only [Layout.Accepts] at ha ⊢ <;> omega

theorem Layout.idx_congr (L : Layout) (b ch : Nat) {i i' j j' : Nat} (hi : i = i') (hj : j = j') :
    L.idx b ch i j = L.idx b ch i' j' := by rw [hi, hj]

theorem Layout.shape_congr (L : Layout) (k c : Nat) {h h' w w' : Nat} (hh : h = h') (hw : w = w') :
    L.shape k c h w = L.shape k c h' w' := by rw [hh, hw]

theorem torch_crop_pad_default (L : Layout) (x : Tensor α) (k c h w : Nat) (hs : x.shape = L.shape k c h w) (ha : L.Accepts c w) :
    (GenPC.torch_crop_center_default (GenPC.torch_zero_pad_default x)).shape = x.shape ∧
    ∀ b ch i j, b < k → ch < c → i < h → j < w →
      (GenPC.torch_crop_center_default (GenPC.torch_zero_pad_default x)).get (L.idx b ch i j) = x.get (L.idx b ch i j) := by
  obtain ⟨_, ps, pg⟩ := torch_zero_pad_default_spec L x k c h w hs ha
  obtain ⟨cs, cg⟩ := torch_crop_center_default_spec L _ k c (2 * h) (2 * w) ps (L.accepts_mono c w _ ha (by omega))
  refine ⟨?_, ?_⟩
  · rw [cs, hs]; exact L.shape_congr k c (by omega) (by omega)
  · intro b ch i j hb hch hi hj
    rw [cg b ch i j hb hch (by omega) (by omega), pg b ch _ _ hb hch (by omega) (by omega), if_pos (by omega)]
    exact congrArg x.get (L.idx_congr b ch (by omega) (by omega))

theorem torch_crop_pad_explicit (L : Layout) (x : Tensor α) (k c h w S0 S1 : Nat) (hs : x.shape = L.shape k c h w)
    (ha : L.Accepts c w) (h0 : h ≤ S0) (h1 : w ≤ S1) :
    (GenPC.torch_crop_center_explicit (GenPC.torch_zero_pad_explicit x [S0, S1]) [h, w]).shape = x.shape ∧
    ∀ b ch i j, b < k → ch < c → i < h → j < w →
      (GenPC.torch_crop_center_explicit (GenPC.torch_zero_pad_explicit x [S0, S1]) [h, w]).get (L.idx b ch i j) =
        x.get (L.idx b ch i j) := by
  obtain ⟨_, ps, pg⟩ := torch_zero_pad_explicit_spec L x k c h w S0 S1 hs ha h0 h1
  obtain ⟨cs, cg⟩ := torch_crop_center_explicit_spec L _ k c S0 S1 h w ps (L.accepts_mono c w _ ha h1) h0 h1
  refine ⟨?_, ?_⟩
  · rw [cs, hs]
  · intro b ch i j hb hch hi hj
    rw [cg b ch i j hb hch hi hj, pg b ch _ _ hb hch (by omega) (by omega), if_pos (by omega)]
    exact congrArg x.get (L.idx_congr b ch (by omega) (by omega))

theorem np_crop_pad_default (x : Tensor α) (h w : Nat) (hs : x.shape = [h, w]) :
    (GenPC.np_crop_center_default (GenPC.np_zero_pad_default x)).shape = x.shape ∧
    ∀ i j, i < h → j < w → (GenPC.np_crop_center_default (GenPC.np_zero_pad_default x)).get [i, j] = x.get [i, j] := by
  obtain ⟨_, ps, pg⟩ := np_zero_pad_default_spec x h w hs
  obtain ⟨cs, cg⟩ := np_crop_center_default_spec _ (2 * h) (2 * w) ps
  refine ⟨?_, ?_⟩
  · rw [cs, hs]; congr 1; · omega
    congr 1; omega
  · intro i j hi hj
    rw [cg i j (by omega) (by omega), pg _ _ (by omega) (by omega), if_pos (by omega)]
    apply get2_congr <;> omega

theorem np_crop_pad_explicit (x : Tensor α) (h w S0 S1 : Nat) (hs : x.shape = [h, w]) (h0 : h ≤ S0) (h1 : w ≤ S1) :
    (GenPC.np_crop_center_explicit (GenPC.np_zero_pad_explicit x [S0, S1]) [h, w]).shape = x.shape ∧
    ∀ i j, i < h → j < w →
      (GenPC.np_crop_center_explicit (GenPC.np_zero_pad_explicit x [S0, S1]) [h, w]).get [i, j] = x.get [i, j] := by
  obtain ⟨_, ps, pg⟩ := np_zero_pad_explicit_spec x h w S0 S1 hs h0 h1
  obtain ⟨cs, cg⟩ := np_crop_center_explicit_spec _ S0 S1 h w ps h0 h1
  refine ⟨?_, ?_⟩
  · rw [cs, hs]
  · intro i j hi hj
    rw [cg i j hi hj, pg _ _ (by omega) (by omega), if_pos (by omega)]
    apply get2_congr <;> omega

/-- NumPy and torch `zero_pad` return the same tensor for a 2-D field (torch needs `5 ≤ w` to read it as 2-D) -/
theorem np_torch_pad_same (x : Tensor α) (h w S0 S1 : Nat) (hs : x.shape = [h, w]) (hw : 5 ≤ w) (h0 : h ≤ S0) (h1 : w ≤ S1) :
    ((GenPC.np_zero_pad_default x).shape = (GenPC.torch_zero_pad_default x).shape ∧
      ∀ i j, i < 2 * h → j < 2 * w → (GenPC.np_zero_pad_default x).get [i, j] = (GenPC.torch_zero_pad_default x).get [i, j]) ∧
    ((GenPC.np_zero_pad_explicit x [S0, S1]).shape = (GenPC.torch_zero_pad_explicit x [S0, S1]).shape ∧
      ∀ i j, i < S0 → j < S1 →
        (GenPC.np_zero_pad_explicit x [S0, S1]).get [i, j] = (GenPC.torch_zero_pad_explicit x [S0, S1]).get [i, j]) := by
  obtain ⟨_, a1, a2⟩ := np_zero_pad_default_spec x h w hs
  obtain ⟨_, b1, b2⟩ := torch_zero_pad_default_spec Layout.hw x 1 1 h w hs hw
  obtain ⟨_, c1, c2⟩ := np_zero_pad_explicit_spec x h w S0 S1 hs h0 h1
  obtain ⟨_, d1, d2⟩ := torch_zero_pad_explicit_spec Layout.hw x 1 1 h w S0 S1 hs hw h0 h1
  refine ⟨⟨by rw [a1, b1]; rfl, fun i j hi hj => ?_⟩, ⟨by rw [c1, d1]; rfl, fun i j hi hj => ?_⟩⟩
  · rw [a2 i j hi hj]; exact (b2 0 0 i j (by omega) (by omega) hi hj).symm
  · rw [c2 i j hi hj]; exact (d2 0 0 i j (by omega) (by omega) hi hj).symm

/-! ### rank 3, channels last `[m x n x c]` (not a documented layout) -/

theorem torch_zero_pad_default_hwc (x : Tensor α) (h w c : Nat) (hs : x.shape = [h, w, c]) (hc : c < 5) :
    (GenPC.torch_zero_pad_default x).shape = [2 * h, 2 * w, c] ∧
    ∀ i j ch, i < 2 * h → j < 2 * w → ch < c →
      (GenPC.torch_zero_pad_default x).get [i, j, ch] =
        if (2 * h / 2 - h / 2 ≤ i ∧ i < 2 * h / 2 - h / 2 + h) ∧ (2 * w / 2 - w / 2 ≤ j ∧ j < 2 * w / 2 - w / 2 + w) then
          x.get [i - (2 * h / 2 - h / 2), j - (2 * w / 2 - w / 2), ch] else Num.ofNat 0 := by
  refine ⟨?_, ?_⟩
  · padcrop_simp [GenPC.torch_zero_pad_default, hs, hc]
  · intro i j ch hi hj hch
    padcrop_simp [GenPC.torch_zero_pad_default, hs, hc]
    padcrop_finish

/-- `crop_center` of a rank-3 channels-last image returns the crop channels FIRST -/
theorem torch_crop_center_default_hwc (x : Tensor α) (H W c : Nat) (hs : x.shape = [H, W, c]) (hc : c < 5) :
    (GenPC.torch_crop_center_default x).shape = [c, H / 2, W / 2] ∧
    ∀ ch i j, ch < c → i < H / 2 → j < W / 2 →
      (GenPC.torch_crop_center_default x).get [ch, i, j] = x.get [i + (H / 2 - H / 2 / 2), j + (W / 2 - W / 2 / 2), ch] := by
  refine ⟨?_, ?_⟩
  · padcrop_simp [GenPC.torch_crop_center_default, hs, hc]
    omega
  · intro ch i j hch hi hj
    padcrop_simp [GenPC.torch_crop_center_default, hs, hc]
    apply get3_congr <;> omega

end Odak
