import OdakProofs.Lemmas.GenColourTensors

/-! Layout theorems of the regenerated `lab_to_srgb` (see `GenColourLab.lean`). -/
namespace Odak
open Tensor
set_option linter.unusedVariables false
set_option linter.unusedSimpArgs false
set_option maxHeartbeats 1000000

/-! ### channel-first input (the four parts are separate lemmas so that they are checked in parallel) -/

theorem lab_to_srgb_first_shape (img : Tensor ℝ) (m n : Nat) (h : img.shape = [3, m, n]) (hn : n ≠ 3) : (GenT.lab_to_srgb img).shape = [3, m, n] := by
  tensor_simp [GenT.lab_to_srgb, h, hn]

theorem lab_to_srgb_first_x (img : Tensor ℝ) (m n : Nat) (h : img.shape = [3, m, n]) (hn : n ≠ 3) (i j : Nat) (hi : i < m) (hj : j < n) :
    (pixel3 (GenT.lab_to_srgb img) i j).x = (Gen.labToSrgb (pixel3 img i j)).x := by
  tensor_simp [GenT.lab_to_srgb, Gen.labToSrgb, h, hn, hi, hj]

theorem lab_to_srgb_first_y (img : Tensor ℝ) (m n : Nat) (h : img.shape = [3, m, n]) (hn : n ≠ 3) (i j : Nat) (hi : i < m) (hj : j < n) :
    (pixel3 (GenT.lab_to_srgb img) i j).y = (Gen.labToSrgb (pixel3 img i j)).y := by
  tensor_simp [GenT.lab_to_srgb, Gen.labToSrgb, h, hn, hi, hj]

theorem lab_to_srgb_first_z (img : Tensor ℝ) (m n : Nat) (h : img.shape = [3, m, n]) (hn : n ≠ 3) (i j : Nat) (hi : i < m) (hj : j < n) :
    (pixel3 (GenT.lab_to_srgb img) i j).z = (Gen.labToSrgb (pixel3 img i j)).z := by
  tensor_simp [GenT.lab_to_srgb, Gen.labToSrgb, h, hn, hi, hj]

theorem lab_to_srgb_layout_first (img : Tensor ℝ) (m n : Nat) (h : img.shape = [3, m, n]) (hn : n ≠ 3) (i j : Nat) (hi : i < m) (hj : j < n) :
    (GenT.lab_to_srgb img).shape = [3, m, n] ∧ pixel3 (GenT.lab_to_srgb img) i j = Gen.labToSrgb (pixel3 img i j) :=
  ⟨lab_to_srgb_first_shape img m n h hn,
   Vec3.ext' (lab_to_srgb_first_x img m n h hn i j hi hj) (lab_to_srgb_first_y img m n h hn i j hi hj) (lab_to_srgb_first_z img m n h hn i j hi hj)⟩

end Odak
