import OdakProofs.Lemmas.GenColourTensors

/-! Layout theorems of the regenerated `lab_to_srgb` (see `GenColourLab.lean`). -/
namespace Odak
open Tensor
set_option linter.unusedVariables false
set_option linter.unusedSimpArgs false
set_option maxHeartbeats 1000000

theorem lab_to_srgb_layout_first (img : Tensor ℝ) (m n : Nat) (h : img.shape = [3, m, n]) (hn : n ≠ 3) (i j : Nat)
    (hi : i < m) (hj : j < n) :
    (GenT.lab_to_srgb img).shape = [3, m, n] ∧
    pixel3 (GenT.lab_to_srgb img) i j = Gen.labToSrgb (pixel3 img i j) := by
  constructor
  · tensor_simp [GenT.lab_to_srgb, h, hn]
  · apply Vec3.ext' <;> tensor_simp [GenT.lab_to_srgb, Gen.labToSrgb, h, hn, hi, hj]

theorem lab_to_srgb_layout_last (img : Tensor ℝ) (m n : Nat) (h : img.shape = [m, n, 3]) (i j : Nat)
    (hi : i < m) (hj : j < n) :
    (GenT.lab_to_srgb img).shape = [3, m, n] ∧
    pixel3 (GenT.lab_to_srgb img) i j = Gen.labToSrgb (pixelLast img i j) := by
  constructor
  · tensor_simp [GenT.lab_to_srgb, h]
  · apply Vec3.ext' <;> tensor_simp [GenT.lab_to_srgb, Gen.labToSrgb, h, hi, hj]

end Odak
