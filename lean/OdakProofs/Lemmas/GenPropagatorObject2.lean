import OdakProofs.Lemmas.GenPropagatorObject

/-!
  # Tie theorems (2): `propagator.reconstruct` regenerated from the Python source - the three loops against a ghost fold

  `reconstruct` allocates ONE new buffer per call, every pass of the innermost loop reads the laser powers (attribute or new object), builds
  the hologram of (frame, channel), calls `__call__` for (channel, depth) - through the kernel cache - and writes slot [frame, depth, channel] of
  the new buffer.  The content of the buffer at the end is `pRecon`: computed WITHOUT any cache.
-/
set_option linter.unusedVariables false
set_option linter.unusedSimpArgs false
set_option linter.unusedSectionVars false

namespace Odak
open Gen
variable {T R : Type} [DecidableEq R]

/-- the attribute objects of `o` exist in a heap of size `n` -/
structure PLocs (o : PropObj T R) (n : Nat) : Prop where
  d : o.distances < n
  a : o.aperture < n
  c : o.channel_power < n
  k : o.kernels < n
  g : o.generated_kernels < n

theorem PInv.locs {E : PropOps T R} {o : PropObj T R} {h : Heap T} {dists ap cp : T} (inv : PInv E o h dists ap cp) : PLocs o h.size := by
  obtain ⟨K, G, hK, hG, -⟩ := inv.coh
  exact ⟨Heap.get_eq_some_lt inv.hd, Heap.get_eq_some_lt inv.ha, Heap.get_eq_some_lt inv.hc, Heap.get_eq_some_lt hK, Heap.get_eq_some_lt hG⟩

/-- the relation the three loops of `reconstruct` keep (`h0` = the heap the call started with, the new buffer is the object `h0.size`): the
    attributes are unchanged, the invariant holds, the buffer holds the ghost value, everything that existed before the call (except the
    cache buffers) is as it was -/
def RecRel (E : PropOps T R) (o : PropObj T R) (h0 : Heap T) (dists ap cp : T) (s : PropagatorAttrs T R × Heap T × List String) (buf : T) : Prop :=
  s.1 = o.toSelf ∧ PInv E o s.2.1 dists ap cp ∧ s.2.1.get h0.size = some buf ∧
    ∀ l, l < h0.size → l ≠ o.kernels → l ≠ o.generated_kernels → s.2.1.get l = h0.get l

/-- one pass of the innermost loop -/
theorem gen_propagatorReconstructG_for3 (E : PropOps T R) (L : PropLaws E) (o : PropObj T R) (h0 : Heap T) (dists ap cp : T) (locs : PLocs o h0.size)
    (hp ampv phs : T) (ng gc : Bool) (rt : Option String) (f d : Int)
    (s : PropagatorAttrs T R × Heap T × List String) (a : T) (c : Nat) (a' : T) (hr : RecRel E o h0 dists ap cp s a)
    (hs : (pSlot E o dists ap cp phs ampv gc f d c).map (E.setIdx a [f, d, (c : Int)]) = some a') :
    ∃ s', propagatorReconstructG_for3 E hp ng gc rt h0.size ampv phs f d s c = some s' ∧ RecRel E o h0 dists ap cp s' a' := by
  obtain ⟨self1, heap1, log1⟩ := s
  obtain ⟨e1, inv1, hbuf, frame1⟩ := hr
  simp only at e1 inv1 hbuf frame1
  subst e1
  obtain ⟨v, hv, rfl⟩ := Option.map_eq_some_iff.1 hs
  unfold pSlot at hv
  cases hpw : pPowers E o cp with
  | none => simp [hpw] at hv
  | some lp =>
  cases hkk : pKernel E o dists c d with
  | none => simp [hpw, hkk] at hv
  | some H =>
  simp only [hpw, hkk, Option.bind_eq_bind, Option.bind_some, Option.some.injEq] at hv
  obtain ⟨h2, l2, e2, hl2, inv2, size2, frame2⟩ := getLaserPowers_spec inv1 hpw
  obtain ⟨K, G, hK, hG, coh⟩ := inv2.coh
  have hcoh : E.truthy (E.getIdx G [d, (c : Int)]) = true → E.getIdx K [d, (c : Int)] = H := by
    intro ht
    have := coh d c ht
    rw [hkk] at this
    injection this with this
    exact this.symm
  obtain ⟨inv3, size3, frame3⟩ := inv2.call L hK hG c d H hkk
  have hlt1 : h0.size < heap1.size := Heap.get_eq_some_lt hbuf
  have hbuf2 : h2.get h0.size = some a := by rw [frame2 _ hlt1, hbuf]
  have hbuf3 : (pCallHeap E o h2 K G H c d).get h0.size = some a := by
    rw [frame3 _ (by have := locs.k; omega) (by have := locs.g; omega), hbuf2]
  refine ⟨(o.toSelf, (pCallHeap E o h2 K G H c d).set h0.size (E.setIdx a [f, d, (c : Int)] v),
    log1 ++ [] ++ (if E.truthy (E.getIdx G [d, (c : Int)]) then [] else ["kernels[]", "generated_kernels[]"])), ?_, ?_⟩
  · simp only [propagatorReconstructG_for3, e2, Option.bind_eq_bind, Option.bind_some, hl2, Option.pure_def, PropObj.toSelf_phase_scale]
    rw [gen_propagatorCallG_eq E o h2 dists ap K G inv2.hd inv2.ha hK hG inv2.kg inv2.ak inv2.ag _ c d H hkk hcoh]
    simp only [Option.bind_some, hbuf3]
    subst hv
    cases gc <;> cases ng <;> rfl
  · refine ⟨rfl, ?_, ?_, ?_⟩
    · exact inv3.set_other _ _ (by have := locs.d; omega) (by have := locs.a; omega) (by have := locs.c; omega) (by have := locs.k; omega)
        (by have := locs.g; omega)
    · exact Heap.get_set_self hbuf3 _
    · intro l hl hk' hg'
      simp only
      rw [Heap.get_set_ne (by omega), frame3 l hk' hg', frame2 l (by omega), frame1 l hl hk' hg']

/-- one pass of the middle loop: the innermost loop over the channels -/
theorem gen_propagatorReconstructG_for2 (E : PropOps T R) (L : PropLaws E) (o : PropObj T R) (h0 : Heap T) (dists ap cp : T) (locs : PLocs o h0.size)
    (hp ampv phs : T) (ng gc : Bool) (rt : Option String) (f : Int)
    (s : PropagatorAttrs T R × Heap T × List String) (a : T) (d : Nat) (a' : T) (hr : RecRel E o h0 dists ap cp s a)
    (hs : (List.range o.number_of_channels.toNat).foldlM (fun buf (c : Nat) =>
      (pSlot E o dists ap cp phs ampv gc f d c).map (E.setIdx buf [f, (d : Int), (c : Int)])) a = some a') :
    ∃ s', propagatorReconstructG_for2 E hp ng gc rt h0.size ampv phs f s d = some s' ∧ RecRel E o h0 dists ap cp s' a' := by
  obtain ⟨s', e', r'⟩ := foldlM_track (propagatorReconstructG_for3 E hp ng gc rt h0.size ampv phs f d) _ (RecRel E o h0 dists ap cp)
    (fun s a c a' hr hs => gen_propagatorReconstructG_for3 E L o h0 dists ap cp locs hp ampv phs ng gc rt f d s a c a' hr hs) _ s a a' hr hs
  refine ⟨s', ?_, r'⟩
  obtain ⟨self1, heap1, log1⟩ := s
  have e1 : self1 = o.toSelf := hr.1
  subst e1
  simp only [propagatorReconstructG_for2, PropObj.toSelf_number_of_channels, Option.bind_eq_bind, Option.bind_some, e', Option.pure_def]

/-- one pass of the outer loop: the middle loop over the depth planes -/
theorem gen_propagatorReconstructG_for1 (E : PropOps T R) (L : PropLaws E) (o : PropObj T R) (h0 : Heap T) (dists ap cp : T) (locs : PLocs o h0.size)
    (hp ampv phs : T) (ng gc : Bool) (rt : Option String)
    (s : PropagatorAttrs T R × Heap T × List String) (a : T) (f : Nat) (a' : T) (hr : RecRel E o h0 dists ap cp s a)
    (hs : (List.range o.number_of_depth_layers.toNat).foldlM (fun buf (d : Nat) => (List.range o.number_of_channels.toNat).foldlM (fun buf (c : Nat) =>
      (pSlot E o dists ap cp phs ampv gc f d c).map (E.setIdx buf [(f : Int), (d : Int), (c : Int)])) buf) a = some a') :
    ∃ s', propagatorReconstructG_for1 E hp ng gc rt h0.size ampv phs s f = some s' ∧ RecRel E o h0 dists ap cp s' a' := by
  obtain ⟨s', e', r'⟩ := foldlM_track (propagatorReconstructG_for2 E hp ng gc rt h0.size ampv phs f) _ (RecRel E o h0 dists ap cp)
    (fun s a d a' hr hs => gen_propagatorReconstructG_for2 E L o h0 dists ap cp locs hp ampv phs ng gc rt f s a d a' hr hs) _ s a a' hr hs
  refine ⟨s', ?_, r'⟩
  obtain ⟨self1, heap1, log1⟩ := s
  have e1 : self1 = o.toSelf := hr.1
  subst e1
  simp only [propagatorReconstructG_for1, PropObj.toSelf_number_of_depth_layers, Option.bind_eq_bind, Option.bind_some, e', Option.pure_def]

/-- **`reconstruct`**: the returned object is NEW (`h.size`: it did not exist before the call - no attribute, no earlier result), its
    content is `pRecon` (no cache involved), no attribute is rebound, the invariant is kept, and nothing that existed before the call is
    written except the two cache buffers -/
theorem gen_propagatorReconstructG_eq (E : PropOps T R) (L : PropLaws E) (o : PropObj T R) (h : Heap T) (dists ap cp : T)
    (inv : PInv E o h dists ap cp) (phases : T) (amp : Option T) (ng gc : Bool) (V : T)
    (hV : pRecon E o dists ap cp phases amp gc = some V) :
    ∃ h' log, propagatorReconstructG E o.toSelf h phases amp ng gc = some (o.toSelf, h', h.size, log) ∧
      h'.get h.size = some V ∧ PInv E o h' dists ap cp ∧
      ∀ l, l < h.size → l ≠ o.kernels → l ≠ o.generated_kernels → h'.get l = h.get l := by
  unfold pRecon at hV
  cases hh : pReconHead E o phases amp gc with
  | none => simp [hh] at hV
  | some hd =>
  obtain ⟨z, ampv, phs⟩ := hd
  simp only [hh, Option.bind_eq_bind, Option.bind_some] at hV
  unfold pReconHead at hh
  cases h0 : o.resolution[0]? with
  | none => simp [h0] at hh
  | some r0 =>
  cases h1 : o.resolution[1]? with
  | none => simp [h0, h1] at hh
  | some r1 =>
  simp only [h0, h1, Option.bind_eq_bind, Option.bind_some, Option.some.injEq, Prod.mk.injEq] at hh
  obtain ⟨ez, ea, ep⟩ := hh
  have start : RecRel E o h dists ap cp (o.toSelf, (h.alloc z).1, []) z :=
    ⟨rfl, inv.alloc z, by simp, fun l hl _ _ => Heap.get_alloc_of_lt hl _⟩
  obtain ⟨s', e', r'⟩ := foldlM_track
    (propagatorReconstructG_for1 E (if E.rank phases > 3 then E.squeeze phases 0 else phases) ng gc
      (some (if gc then "torch.complex64" else "torch.float32")) h.size ampv phs) _ (RecRel E o h dists ap cp)
    (fun s a f a' hr hs => gen_propagatorReconstructG_for1 E L o h dists ap cp inv.locs _ ampv phs ng gc _ s a f a' hr hs) _ _ z V start hV
  obtain ⟨self2, heap2, log2⟩ := s'
  obtain ⟨e2, inv2, hbuf2, frame2⟩ := r'
  simp only at e2 inv2 hbuf2 frame2
  subst e2
  refine ⟨heap2, log2, ?_, hbuf2, inv2, frame2⟩
  subst ez ea ep
  cases gc <;> by_cases hr : E.rank phases > 3 <;>
    simp [propagatorReconstructG, h0, h1, hr] at e' ⊢ <;> simp [e']

end Odak
