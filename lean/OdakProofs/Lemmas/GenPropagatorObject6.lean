import OdakProofs.Lemmas.GenPropagatorObject5

/-!
  # Tie theorems (6, work package 16): the reference semantics of the propagator object is DEFINED on well-formed call lists

  `propagator_run` says "if the cache-free reference semantics gives the values `zs`, the object returns `zs`".  Here, for every record of
  operations: on a propagator whose configuration is one the source accepts (two resolution entries, propagator type 'forward' or 'back and
  forth', method 'conventional' or 'multi-color') every list of `PCall.good` calls - forward calls with a channel id that names a wavelength,
  reconstructions, setters, `get_laser_powers`; not `get_kernels`, which is an observer of the cache - HAS a reference value.  Hence the
  object-level theorems can be stated without the hypothesis that the reference run succeeds (`propagator_last_call`), and the aperture in
  force after a call list is the one the `set_aperture` calls alone lead to (`pRefAp`).
-/
set_option linter.unusedVariables false
set_option linter.unusedSimpArgs false
set_option linter.unusedSectionVars false

namespace Odak
open Gen
variable {T R : Type} [DecidableEq R]

/-- a configuration the source accepts -/
structure PropObj.Ok (o : PropObj T R) : Prop where
  res : ∃ r0 r1, o.resolution[0]? = some r0 ∧ o.resolution[1]? = some r1
  ptype : o.propagator_type = "forward" ∨ o.propagator_type = "back and forth"
  meth : o.method = "conventional" ∨ o.method = "multi-color"
  nch : o.number_of_channels = (o.wavelengths.length : Int)

/-- the calls the theorems of work package 16 speak about: a forward call names one of the wavelengths by a non-negative channel id (Python's
    negative ids are not modelled), `set_laser_powers` gets a tensor of the caller (as in `PCall.valid`), `get_kernels` is excluded -/
def PCall.good (o0 : PropObj T R) (h0 : Heap T) : PCall T → Prop
  | .forward _ c _ => 0 ≤ c ∧ c.toNat < o0.wavelengths.length
  | .getKernels => False
  | .setPowers p => p < h0.size ∧ p ≠ o0.kernels ∧ p ≠ o0.generated_kernels
  | _ => True

theorem PCall.good.valid {o0 : PropObj T R} {h0 : Heap T} {x : PCall T} (hg : x.good o0 h0) : x.valid o0 h0 := by
  cases x <;> first | exact hg | trivial

theorem pKernel_isSome (E : PropOps T R) {o : PropObj T R} (ok : o.Ok) (dists : T) (c d : Int) (hc : c.toNat < o.wavelengths.length) :
    ∃ H, pKernel E o dists c d = some H := by
  obtain ⟨r0, r1, h0, h1⟩ := ok.res
  obtain ⟨lam, hl⟩ : ∃ lam, o.wavelengths[c.toNat]? = some lam := ⟨_, List.getElem?_eq_getElem hc⟩
  rcases ok.ptype with hf | hb
  · exact Option.isSome_iff_exists.1 (by simp [pKernel, h0, h1, hl, hf])
  · have hf : ¬ o.propagator_type = "forward" := by rw [hb]; decide
    exact Option.isSome_iff_exists.1 (by simp [pKernel, h0, h1, hl, hf, hb])

theorem pPowers_isSome (E : PropOps T R) {o : PropObj T R} (ok : o.Ok) (cp : T) : ∃ lp, pPowers E o cp = some lp := by
  rcases ok.meth with hm | hm
  · have : ¬ o.method = "multi-color" := by rw [hm]; decide
    exact Option.isSome_iff_exists.1 (by simp [pPowers, hm, this])
  · exact Option.isSome_iff_exists.1 (by simp [pPowers, hm])

/-- a loop over a range whose body is defined for every index of the range is defined -/
theorem foldlM_range_isSome {γ : Type} (n : Nat) (g : γ → Nat → Option γ) (hg : ∀ a i, i < n → ∃ a', g a i = some a') (a : γ) :
    ∃ a', (List.range n).foldlM g a = some a' := by
  have gen : ∀ (l : List Nat), (∀ i ∈ l, i < n) → ∀ a, ∃ a', l.foldlM g a = some a' := by
    intro l
    induction l with
    | nil => intro _ a; exact ⟨a, rfl⟩
    | cons i rest ih =>
      intro hl a
      obtain ⟨a1, e1⟩ := hg a i (hl i List.mem_cons_self)
      obtain ⟨a2, e2⟩ := ih (fun j hj => hl j (List.mem_cons_of_mem _ hj)) a1
      exact ⟨a2, by simp [List.foldlM_cons, e1, e2]⟩
  exact gen _ (fun i hi => List.mem_range.1 hi) a

theorem pRecon_isSome (E : PropOps T R) {o : PropObj T R} (ok : o.Ok) (dists ap cp phases : T) (amp : Option T) (gc : Bool) :
    ∃ V, pRecon E o dists ap cp phases amp gc = some V := by
  obtain ⟨r0, r1, h0, h1⟩ := ok.res
  have hh : ∃ hd, pReconHead E o phases amp gc = some hd := Option.isSome_iff_exists.1 (by simp [pReconHead, h0, h1])
  obtain ⟨hd, ehd⟩ := hh
  simp only [pRecon, ehd, Option.bind_eq_bind, Option.bind_some]
  apply foldlM_range_isSome
  intro buf f _
  apply foldlM_range_isSome
  intro buf d _
  apply foldlM_range_isSome
  intro buf c hc
  obtain ⟨lp, elp⟩ := pPowers_isSome E ok cp
  have hc' : ((c : Int)).toNat < o.wavelengths.length := by
    have := ok.nch
    simp only [Int.toNat_natCast]
    omega
  obtain ⟨H, eH⟩ := pKernel_isSome E ok dists (c : Int) (d : Int) hc'
  exact Option.isSome_iff_exists.1 (by simp [pSlot, elp, eH])

/-- **one good call has a reference value**; the laser-powers object stays one of the caller's -/
theorem pRefStep_isSome (E : PropOps T R) {o : PropObj T R} (ok : o.Ok) (dists : T) (h0 : Heap T) (g : PRef T) (hg : g.powers < h0.size)
    (x : PCall T) (hx : x.good o h0) : ∃ g' z, pRefStep E o dists h0 g x = some (g', z) ∧ g'.powers < h0.size := by
  obtain ⟨cp, hcp⟩ := Heap.get_isSome_of_lt hg
  cases x with
  | forward u c d =>
    obtain ⟨H, eH⟩ := pKernel_isSome E ok dists c d hx.2
    exact ⟨g, [pOut E g.ap H u], by simp only [pRefStep, eH, Option.map_some], hg⟩
  | reconstruct ph amp ng gc =>
    obtain ⟨V, eV⟩ := pRecon_isSome E ok dists g.ap cp ph amp gc
    exact ⟨g, [V], by simp only [pRefStep, hcp, eV, Option.bind_some, Option.map_some], hg⟩
  | setPowers p => exact ⟨{ g with powers := p }, [], rfl, hx.1⟩
  | getPowers =>
    obtain ⟨lp, elp⟩ := pPowers_isSome E ok cp
    exact ⟨g, [lp], by simp only [pRefStep, hcp, elp, Option.bind_some, Option.map_some], hg⟩
  | getKernels => exact absurd hx (by simp [PCall.good])
  | setAperture ap size =>
    obtain ⟨r0, r1, e0, e1⟩ := ok.res
    cases ap with
    | some v => exact ⟨{ g with ap := E.mul (E.zeroPad v) (E.scalar (E.lit "1.0")) }, [], by simp only [pRefStep, pApertureValue, Option.map_some], hg⟩
    | none =>
      refine ⟨{ g with ap := E.mul (E.circularMask (r0 * o.resolution_factor * 2) (r1 * o.resolution_factor * 2)
        (match size with | some s => s | none => E.maxAll (E.tensorOfInts [r0 * o.resolution_factor, r1 * o.resolution_factor]))) (E.scalar (E.lit "1.0")) }, [], ?_, hg⟩
      cases size <;> simp only [pRefStep, pApertureValue, e0, e1, Option.bind_eq_bind, Option.bind_some, Option.map_some]

/-- **every good call list has a reference value** -/
theorem pRef_run_isSome (E : PropOps T R) {o : PropObj T R} (ok : o.Ok) (dists : T) (h0 : Heap T) :
    ∀ (xs : List (PCall T)) (g : PRef T), g.powers < h0.size → (∀ x ∈ xs, x.good o h0) →
      ∃ g' zs, runSteps (pRefStep E o dists h0) g xs = some (g', zs) ∧ g'.powers < h0.size := by
  intro xs
  induction xs with
  | nil => intro g hg _; exact ⟨g, [], rfl, hg⟩
  | cons x rest ih =>
    intro g hg hx
    obtain ⟨g1, z, e1, hg1⟩ := pRefStep_isSome E ok dists h0 g hg x (hx x List.mem_cons_self)
    obtain ⟨g2, zs, e2, hg2⟩ := ih g1 hg1 (fun y hy => hx y (List.mem_cons_of_mem _ hy))
    exact ⟨g2, z :: zs, by simp [runSteps, e1, e2], hg2⟩

/-- the aperture in force after a call list: only `set_aperture` changes it -/
def pRefAp (E : PropOps T R) (o : PropObj T R) : T → List (PCall T) → T
  | ap, [] => ap
  | ap, .setAperture a size :: rest => pRefAp E o ((pApertureValue E o.resolution o.resolution_factor a size).getD ap) rest
  | ap, _ :: rest => pRefAp E o ap rest

theorem pRef_run_ap (E : PropOps T R) (o : PropObj T R) (dists : T) (h0 : Heap T) :
    ∀ (xs : List (PCall T)) (g g' : PRef T) (zs : List (List T)), runSteps (pRefStep E o dists h0) g xs = some (g', zs) →
      g'.ap = pRefAp E o g.ap xs := by
  intro xs
  induction xs with
  | nil => intro g g' zs e; simp only [runSteps, Option.some.injEq, Prod.mk.injEq] at e; rw [← e.1]; rfl
  | cons x rest ih =>
    intro g g' zs e
    simp only [runSteps] at e
    cases hx : pRefStep E o dists h0 g x with
    | none => simp [hx] at e
    | some r =>
      obtain ⟨g1, z⟩ := r
      simp only [hx, Option.bind_some] at e
      cases hrest : runSteps (pRefStep E o dists h0) g1 rest with
      | none => simp [hrest] at e
      | some q =>
        obtain ⟨g2, zs2⟩ := q
        simp only [hrest, Option.map_some, Option.some.injEq, Prod.mk.injEq] at e
        obtain ⟨rfl, -⟩ := e
        rw [ih g1 g2 zs2 hrest]
        cases x with
        | forward u c d =>
          simp only [pRefStep] at hx
          cases hk : pKernel E o dists c d <;> simp [hk] at hx
          rw [← hx.1]; rfl
        | reconstruct ph amp ng gc =>
          simp only [pRefStep] at hx
          cases hc : h0.get g.powers <;> simp [hc] at hx
          obtain ⟨_, _, h2⟩ := hx
          rw [← h2.1]; rfl
        | getPowers =>
          simp only [pRefStep] at hx
          cases hc : h0.get g.powers <;> simp [hc] at hx
          obtain ⟨_, _, h2⟩ := hx
          rw [← h2.1]; rfl
        | getKernels => simp [pRefStep] at hx
        | setPowers p =>
          simp only [pRefStep, Option.some.injEq, Prod.mk.injEq] at hx
          rw [← hx.1]; rfl
        | setAperture ap size =>
          simp only [pRefStep] at hx
          cases hav : pApertureValue E o.resolution o.resolution_factor ap size with
          | none => simp [hav] at hx
          | some v =>
            simp only [hav, Option.map_some, Option.some.injEq, Prod.mk.injEq] at hx
            rw [← hx.1]
            simp [pRefAp, hav]

/-- **the last call of any good call list**: after ANY list `pre` of good calls the call `x` returns the value the reference semantics
    computes from the configuration in force (`g1`: the laser powers object and the aperture the setters of `pre` left) and the arguments
    of `x` alone; and the run of `pre ++ [x]` is the run of `pre` followed by that call -/
theorem propagator_last_call (E : PropOps T R) (L : PropLaws E) (o0 : PropObj T R) (ok : o0.Ok) (dists : T) (h0 : Heap T)
    (s : PropagatorAttrs T R × Heap T) (g : PRef T) (hr : PRel E o0 dists h0 s g) (hg : g.powers < h0.size)
    (pre : List (PCall T)) (x : PCall T) (hpre : ∀ y ∈ pre, y.good o0 h0) (hx : x.good o0 h0) :
    ∃ g1 zs1 g2 z s1 ys1 s2 y, runSteps (pRefStep E o0 dists h0) g pre = some (g1, zs1) ∧ pRefStep E o0 dists h0 g1 x = some (g2, z) ∧
      g1.ap = pRefAp E o0 g.ap pre ∧
      runSteps (pStep E) s pre = some (s1, ys1) ∧ pStep E s1 x = some (s2, y) ∧ y.vals = z ∧
      runSteps (pStep E) s (pre ++ [x]) = some (s2, ys1 ++ [y]) := by
  obtain ⟨g1, zs1, e1, hg1⟩ := pRef_run_isSome E ok dists h0 pre g hg hpre
  obtain ⟨g2, z, e2, -⟩ := pRefStep_isSome E ok dists h0 g1 hg1 x hx
  obtain ⟨s1, ys1, er1, ev1, r1, -⟩ := propagator_run E L o0 dists h0 pre s g g1 zs1 hr (fun y hy => (hpre y hy).valid) e1
  obtain ⟨s2, y, er2, ev2, -, -⟩ := propagator_step E L o0 dists h0 s1 g1 x g2 z r1 hx.valid e2
  refine ⟨g1, zs1, g2, z, s1, ys1, s2, y, e1, e2, pRef_run_ap E o0 dists h0 pre g g1 zs1 e1, er1, er2, ev2, ?_⟩
  rw [runSteps_append, er1]
  simp [runSteps, er2]

end Odak

namespace Odak
open Gen
variable {T R : Type} [DecidableEq R]

/-- the configuration attributes of a constructed propagator are the constructor arguments -/
theorem pInit_fields (E : PropOps T R) (a : PropArgs T R) (h : Heap T) (o : PropObj T R) (h' : Heap T) (hi : pInit E a h = some (o, h')) :
    o.resolution = a.resolution ∧ o.wavelengths = a.wavelengths ∧ o.pixel_pitch = a.pixel_pitch ∧ o.propagation_type = a.propagation_type ∧
    o.propagator_type = a.propagator_type ∧ o.method = a.method ∧ o.aperture_samples = a.aperture_samples ∧
    o.image_location_offset = a.image_location_offset ∧ o.zero_mode_distance = E.tensorOfFloat a.back_and_forth_distance ∧
    o.number_of_channels = (a.wavelengths.length : Int) ∧ o.resolution_factor = a.rf ∧ o.number_of_frames = a.number_of_frames := by
  unfold pInit at hi
  simp only [Option.bind_eq_bind] at hi
  cases hdres : pInitDistances E a h with
  | none => simp [hdres] at hi
  | some dres =>
  simp only [hdres, Option.bind_some] at hi
  cases h0 : a.resolution[0]? with
  | none => simp [h0] at hi
  | some r0 =>
  cases h1 : a.resolution[1]? with
  | none => simp [h0, h1] at hi
  | some r1 =>
  simp only [h0, h1, Option.bind_some] at hi
  generalize hcr : pInitPowers E a.number_of_frames (a.wavelengths.length : Int) a.laser_channel_power _ = cres at hi
  cases hap : cres.1.getOpt a.aperture with
  | none => simp [hap] at hi
  | some apv =>
  cases hav : pApertureValue E a.resolution a.rf apv a.aperture_size with
  | none => simp [hap, hav] at hi
  | some av =>
  simp only [hap, hav, Option.bind_some, Option.some.injEq, Prod.mk.injEq] at hi
  obtain ⟨rfl, -⟩ := hi
  exact ⟨rfl, rfl, rfl, rfl, rfl, rfl, rfl, rfl, rfl, rfl, rfl, rfl⟩

/-- a propagator built from two resolution entries, a known propagator type and a known method is a configuration the source accepts -/
theorem pInit_ok (E : PropOps T R) (a : PropArgs T R) (h : Heap T) (o : PropObj T R) (h' : Heap T) (hi : pInit E a h = some (o, h'))
    (hty : a.propagator_type = "forward" ∨ a.propagator_type = "back and forth")
    (hme : a.method = "conventional" ∨ a.method = "multi-color") : o.Ok := by
  obtain ⟨e1, e2, -, -, e5, e6, -, -, -, e10, -, -⟩ := pInit_fields E a h o h' hi
  refine ⟨?_, by rw [e5]; exact hty, by rw [e6]; exact hme, by rw [e10, e2]⟩
  rw [e1]
  unfold pInit at hi
  simp only [Option.bind_eq_bind] at hi
  cases hdres : pInitDistances E a h with
  | none => simp [hdres] at hi
  | some dres =>
  simp only [hdres, Option.bind_some] at hi
  cases h0 : a.resolution[0]? with
  | none => simp [h0] at hi
  | some r0 =>
  cases h1 : a.resolution[1]? with
  | none => simp [h0, h1] at hi
  | some r1 => exact ⟨r0, r1, rfl, rfl⟩

end Odak
