import OdakProofs.Lemmas.GenPropagatorObject6

/-!
  # Tie theorems (7, work package 16): what every slot of the buffer `reconstruct` returns holds

  `pRecon` is a triple fold of stores into a new zero buffer.  From the array law `get_set` alone: slot `[frame, depth, channel]` of the
  result is the value `pSlot` computes for that triple - the field (or intensity) a propagator WITHOUT any cached kernel produces - for every
  frame, depth and channel in range, whatever the order of the loops.
-/
set_option linter.unusedVariables false
set_option linter.unusedSimpArgs false
set_option linter.unusedSectionVars false

namespace Odak
open Gen
variable {T R : Type} [DecidableEq R]

/-- a loop over a concatenation of lists is the nested loop -/
theorem foldlM_flatMap_option {ι κ γ : Type} (l : List ι) (f : ι → List κ) (g : γ → κ → Option γ) (a : γ) :
    (l.flatMap f).foldlM g a = l.foldlM (fun b x => (f x).foldlM g b) a := by
  induction l generalizing a with
  | nil => rfl
  | cons x rest ih =>
    simp only [List.flatMap_cons, List.foldlM_append, List.foldlM_cons, Option.bind_eq_bind]
    cases h : (f x).foldlM g a with
    | none => rfl
    | some b => simp only [Option.bind_some]; exact ih b

/-- a loop of stores under keys of one length, the key determining the stored value: afterwards every key of the list holds its value and
    every other slot is as before -/
theorem foldlM_setIdx_get {ι : Type} [DecidableEq ι] (E : PropOps T R) (L : PropLaws E) (key : ι → List Int) (val : ι → Option T) (n : Nat)
    (hlen : ∀ i, (key i).length = n) (hinj : ∀ i j, key i = key j → i = j) :
    ∀ (l : List ι) (buf V : T), l.foldlM (fun b i => (val i).map (E.setIdx b (key i))) buf = some V →
      (∀ i ∈ l, ∃ v, val i = some v ∧ E.getIdx V (key i) = v) ∧
      (∀ k : List Int, k.length = n → (∀ i ∈ l, key i ≠ k) → E.getIdx V k = E.getIdx buf k) := by
  intro l
  induction l with
  | nil =>
    intro buf V e
    simp only [List.foldlM_nil, Option.pure_def, Option.some.injEq] at e
    subst e
    exact ⟨fun i hi => absurd hi (List.not_mem_nil), fun _ _ _ => rfl⟩
  | cons i rest ih =>
    intro buf V e
    simp only [List.foldlM_cons, Option.bind_eq_bind] at e
    cases hv : val i with
    | none => simp [hv] at e
    | some v =>
      simp only [hv, Option.map_some, Option.bind_some] at e
      obtain ⟨ih1, ih2⟩ := ih (E.setIdx buf (key i) v) V e
      constructor
      · intro j hj
        by_cases hjr : j ∈ rest
        · exact ih1 j hjr
        · have hji : j = i := by
            rcases List.mem_cons.1 hj with h | h
            · exact h
            · exact absurd h hjr
          subst hji
          refine ⟨v, hv, ?_⟩
          rw [ih2 (key j) (hlen j) (fun i' hi' hk => hjr (by rw [← hinj i' j hk]; exact hi')),
            L.get_set buf (key j) (key j) v rfl, if_pos rfl]
      · intro k hk hne
        rw [ih2 k hk (fun i' hi' => hne i' (List.mem_cons_of_mem _ hi')),
          L.get_set buf (key i) k v (by rw [hlen i, hk]), if_neg (hne i List.mem_cons_self)]

/-- the triples `reconstruct` loops over -/
def reconTriples (nf nd nch : Nat) : List (Nat × Nat × Nat) :=
  (List.range nf).flatMap fun f => (List.range nd).flatMap fun d => (List.range nch).map fun c => (f, d, c)

theorem mem_reconTriples {nf nd nch f d c : Nat} (hf : f < nf) (hd : d < nd) (hc : c < nch) : (f, d, c) ∈ reconTriples nf nd nch := by
  simp only [reconTriples, List.mem_flatMap, List.mem_range, List.mem_map]
  exact ⟨f, hf, d, hd, c, hc, rfl⟩

/-- **every slot of the reconstruction**: slot `[f, d, c]` of the buffer `reconstruct` returns is `pSlot` of that triple -/
theorem pRecon_slot (E : PropOps T R) (L : PropLaws E) (o : PropObj T R) (dists ap cp phases : T) (amp : Option T) (gc : Bool) (V : T)
    (hV : pRecon E o dists ap cp phases amp gc = some V) :
    ∃ hd, pReconHead E o phases amp gc = some hd ∧
      ∀ f d c : Nat, f < o.number_of_frames.toNat → d < o.number_of_depth_layers.toNat → c < o.number_of_channels.toNat →
        ∃ v, pSlot E o dists ap cp hd.2.2 hd.2.1 gc f d c = some v ∧ E.getIdx V [(f : Int), (d : Int), (c : Int)] = v := by
  unfold pRecon at hV
  cases hh : pReconHead E o phases amp gc with
  | none => simp [hh] at hV
  | some hd =>
  simp only [hh, Option.bind_eq_bind, Option.bind_some] at hV
  refine ⟨hd, rfl, fun f d c hf hdl hc => ?_⟩
  have hflat : (reconTriples o.number_of_frames.toNat o.number_of_depth_layers.toNat o.number_of_channels.toNat).foldlM
      (fun buf (p : Nat × Nat × Nat) => (pSlot E o dists ap cp hd.2.2 hd.2.1 gc p.1 p.2.1 p.2.2).map
        (E.setIdx buf [(p.1 : Int), (p.2.1 : Int), (p.2.2 : Int)])) hd.1 = some V := by
    rw [← hV]
    simp only [reconTriples, foldlM_flatMap_option, List.foldlM_map]
  obtain ⟨h1, -⟩ := foldlM_setIdx_get E L (fun p : Nat × Nat × Nat => [(p.1 : Int), (p.2.1 : Int), (p.2.2 : Int)])
    (fun p => pSlot E o dists ap cp hd.2.2 hd.2.1 gc p.1 p.2.1 p.2.2) 3 (fun _ => rfl)
    (by
      rintro ⟨a1, a2, a3⟩ ⟨b1, b2, b3⟩ e
      simp only [List.cons.injEq, Int.natCast_inj, and_true] at e
      obtain ⟨rfl, rfl, rfl⟩ := e
      rfl) _ hd.1 V hflat
  exact h1 (f, d, c) (mem_reconTriples hf hdl hc)

end Odak
