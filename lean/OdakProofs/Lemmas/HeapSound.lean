import OdakModel.Heap

/-!
# Soundness of the may-mutate analysis of `OdakModel/Heap.lean`

* `mayMutate_sound` / `clean_sound` : theorem A (summary semantics `Exec σ ρ`)
* `mayMutate_sound_real` / `clean_sound_real` : theorem B (`ExecReal σ ρ tbl d`, any depth `d`,
  for `(σ, ρ)` a post-fixpoint of `tbl`), `isPostFixpoint_sound` for the Boolean checker
* sanity examples at the end (by `decide`)
-/

namespace Odak.Heap

/-! ## Abstract-domain facts -/

theorem mem_union {α : Type} [DecidableEq α] (x : α) :
    ∀ (m l : List α), x ∈ union l m ↔ x ∈ l ∨ x ∈ m
  | [], l => by simp [union]
  | y :: m, l => by
      unfold union
      split
      · rw [mem_union x m l]; grind
      · rw [mem_union x m (l ++ [y])]; grind

namespace AState

/-- `x` may denote the initial object of parameter `p` -/
def MayPt (a : AState) (x : Var) (p : Nat) : Prop := a.top = true ∨ (x, p) ∈ a.rel
/-- the initial object of parameter `p` may have been modified -/
def MayMut (a : AState) (p : Nat) : Prop := a.top = true ∨ p ∈ a.muts

/-- semantic order on abstract states -/
def Le (a b : AState) : Prop :=
  (∀ x p, a.MayPt x p → b.MayPt x p) ∧ (∀ p, a.MayMut p → b.MayMut p)

theorem Le.refl (a : AState) : a.Le a := ⟨fun _ _ h => h, fun _ h => h⟩
theorem Le.trans {a b c : AState} (h1 : a.Le b) (h2 : b.Le c) : a.Le c :=
  ⟨fun x p h => h2.1 x p (h1.1 x p h), fun p h => h2.2 p (h1.2 p h)⟩

theorem mem_get (a : AState) (x : Var) (p : Nat) : p ∈ a.get x ↔ (x, p) ∈ a.rel := by
  simp only [get, List.mem_map, List.mem_filter, beq_iff_eq]
  constructor
  · rintro ⟨⟨y, q⟩, ⟨h1, h2⟩, h3⟩
    simp only at h2 h3
    subst h2 h3; exact h1
  · intro h; exact ⟨(x, p), ⟨h, rfl⟩, rfl⟩

theorem mem_set_rel (a : AState) (x : Var) (l : List Nat) (z : Var) (p : Nat) :
    (z, p) ∈ (a.set x l).rel ↔ (z ≠ x ∧ (z, p) ∈ a.rel) ∨ (z = x ∧ p ∈ l) := by
  simp only [set, List.mem_append, List.mem_filter, List.mem_map, bne_iff_ne, ne_eq,
    Prod.mk.injEq]
  constructor
  · rintro (⟨h1, h2⟩ | ⟨q, h1, h2, h3⟩)
    · exact Or.inl ⟨h2, h1⟩
    · subst h2 h3; exact Or.inr ⟨rfl, h1⟩
  · rintro (⟨h1, h2⟩ | ⟨h1, h2⟩)
    · exact Or.inl ⟨h2, h1⟩
    · exact Or.inr ⟨p, h2, h1.symm, rfl⟩

@[simp] theorem set_top (a : AState) (x : Var) (l : List Nat) : (a.set x l).top = a.top := rfl
@[simp] theorem set_muts (a : AState) (x : Var) (l : List Nat) : (a.set x l).muts = a.muts := rfl
@[simp] theorem addMut_top (a : AState) (l : List Nat) : (a.addMut l).top = a.top := rfl
@[simp] theorem addMut_rel (a : AState) (l : List Nat) : (a.addMut l).rel = a.rel := rfl

theorem mayPt_set (a : AState) (x : Var) (l : List Nat) (z : Var) (p : Nat) :
    (a.set x l).MayPt z p ↔ a.top = true ∨ (z ≠ x ∧ (z, p) ∈ a.rel) ∨ (z = x ∧ p ∈ l) := by
  simp only [MayPt, set_top, mem_set_rel]

theorem mayPt_set_of_ne {a : AState} {x z : Var} {p : Nat} (l : List Nat) (hz : z ≠ x)
    (h : a.MayPt z p) : (a.set x l).MayPt z p := by
  rw [mayPt_set]
  rcases h with h | h
  · exact Or.inl h
  · exact Or.inr (Or.inl ⟨hz, h⟩)

theorem mayPt_set_self {a : AState} {x : Var} {p : Nat} {l : List Nat}
    (h : a.top = true ∨ p ∈ l) : (a.set x l).MayPt x p := by
  rw [mayPt_set]
  rcases h with h | h
  · exact Or.inl h
  · exact Or.inr (Or.inr ⟨rfl, h⟩)

theorem mayMut_set (a : AState) (x : Var) (l : List Nat) (p : Nat) :
    (a.set x l).MayMut p ↔ a.MayMut p := Iff.rfl

theorem mayMut_addMut (a : AState) (l : List Nat) (p : Nat) :
    (a.addMut l).MayMut p ↔ a.MayMut p ∨ p ∈ l := by
  simp only [MayMut, addMut, mem_union]
  grind

theorem mayPt_addMut (a : AState) (l : List Nat) (x : Var) (p : Nat) :
    (a.addMut l).MayPt x p ↔ a.MayPt x p := Iff.rfl

theorem leb_sound {a b : AState} (h : a.leb b = true) : a.Le b := by
  simp only [leb, Bool.or_eq_true, Bool.and_eq_true, Bool.not_eq_true', List.all_eq_true,
    List.contains_iff_mem] at h
  rcases h with h | ⟨⟨h1, h2⟩, h3⟩
  · exact ⟨fun _ _ _ => Or.inl h, fun _ _ => Or.inl h⟩
  · refine ⟨fun x p hp => ?_, fun p hp => ?_⟩
    · rcases hp with hp | hp
      · rw [h1] at hp; cases hp
      · exact Or.inr (h2 _ hp)
    · rcases hp with hp | hp
      · rw [h1] at hp; cases hp
      · exact Or.inr (h3 _ hp)

theorem leb_of_top {a b : AState} (h : b.top = true) : a.leb b = true := by
  simp [leb, h]

theorem le_join_left (a b : AState) : a.Le (a.join b) := by
  refine ⟨fun x p hp => ?_, fun p hp => ?_⟩
  · rcases hp with hp | hp
    · exact Or.inl (by simp [join, hp])
    · exact Or.inr (by simp [join, mem_union, hp])
  · rcases hp with hp | hp
    · exact Or.inl (by simp [join, hp])
    · exact Or.inr (by simp [join, mem_union, hp])

theorem le_join_right (a b : AState) : b.Le (a.join b) := by
  refine ⟨fun x p hp => ?_, fun p hp => ?_⟩
  · rcases hp with hp | hp
    · exact Or.inl (by simp [join, hp])
    · exact Or.inr (by simp [join, mem_union, hp])
  · rcases hp with hp | hp
    · exact Or.inl (by simp [join, hp])
    · exact Or.inr (by simp [join, mem_union, hp])

theorem le_toTop (a : AState) : a.Le a.toTop :=
  ⟨fun _ _ _ => Or.inl rfl, fun _ _ => Or.inl rfl⟩

theorem mayPt_init {k p : Nat} (h : p < k) : (init k).MayPt p p := by
  refine Or.inr ?_
  simp only [init, List.mem_map, List.mem_range]
  exact ⟨p, h, rfl⟩

end AState

/-! ## Loop iteration -/

theorem le_loopFix (f : AState → AState) : ∀ (n : Nat) (a : AState), a.Le (loopFix f n a)
  | 0, a => by
      unfold loopFix; split
      · exact AState.Le.refl a
      · exact AState.le_toTop a
  | n + 1, a => by
      unfold loopFix; split
      · exact AState.Le.refl a
      · exact (AState.le_join_left a (f a)).trans (le_loopFix f n _)

theorem loopFix_stable (f : AState → AState) :
    ∀ (n : Nat) (a : AState), (f (loopFix f n a)).leb (loopFix f n a) = true
  | 0, a => by
      unfold loopFix; split
      · assumption
      · exact AState.leb_of_top rfl
  | n + 1, a => by
      unfold loopFix; split
      · assumption
      · exact loopFix_stable f n _

theorem loopFix_of_stable (f : AState → AState) (n : Nat) (a : AState)
    (h : (f a).leb a = true) : loopFix f n a = a := by
  cases n <;> simp [loopFix, h]

theorem loopFix_idem (f : AState → AState) (n m : Nat) (a : AState) :
    loopFix f m (loopFix f n a) = loopFix f n a :=
  loopFix_of_stable f m _ (loopFix_stable f n a)

/-! ## Transfer equations -/

theorem transfer_nil (σ ρ : FnId → List Nat) (k : Nat) (a : AState) : transfer σ ρ k [] a = a := by
  simp [transfer]

theorem transfer_cons (σ ρ : FnId → List Nat) (k : Nat) (i : Instr) (is : List Instr) (a : AState) :
    transfer σ ρ k (i :: is) a = transfer σ ρ k is (transferI σ ρ k i a) := by
  simp [transfer]

theorem transferI_branch (σ ρ : FnId → List Nat) (k : Nat) (p q : Prog) (a : AState) :
    transferI σ ρ k (.branch p q) a = (transfer σ ρ k p a).join (transfer σ ρ k q a) := by
  simp [transferI]

theorem transferI_loop (σ ρ : FnId → List Nat) (k : Nat) (p : Prog) (a : AState) :
    transferI σ ρ k (.loop p) a = loopFix (transfer σ ρ k p) (loopFuel k p) a := by
  simp [transferI]

/-! ## The invariant -/

/-- Relation between an abstract state `a` and a concrete state `s` of a run that started with
allocation pointer `n0`, heap `h0` and parameter `p < k` bound to `init p` (if any):
objects existing at entry that a variable denotes are initial objects of parameters recorded in `a`,
and entry objects whose contents changed are initial objects of parameters recorded as mutated. -/
structure Inv (k : Nat) (init : Nat → Option Obj) (n0 : Obj) (h0 : Obj → Nat)
    (a : AState) (s : State) : Prop where
  next_le : n0 ≤ s.next
  pts : ∀ x o, s.env x = some o → o < n0 → ∃ p, p < k ∧ a.MayPt x p ∧ init p = some o
  heap : ∀ o, o < n0 → s.heap o ≠ h0 o → ∃ p, p < k ∧ a.MayMut p ∧ init p = some o

variable {k : Nat} {init : Nat → Option Obj} {n0 : Obj} {h0 : Obj → Nat}

theorem Inv.mono {a b : AState} {s : State} (hle : a.Le b) (h : Inv k init n0 h0 a s) :
    Inv k init n0 h0 b s where
  next_le := h.next_le
  pts := fun x o hx ho => by
    obtain ⟨p, hp, hm, hi⟩ := h.pts x o hx ho
    exact ⟨p, hp, hle.1 x p hm, hi⟩
  heap := fun o ho hne => by
    obtain ⟨p, hp, hm, hi⟩ := h.heap o ho hne
    exact ⟨p, hp, hle.2 p hm, hi⟩

/-- rebinding `x` to a value `r` whose entry objects are accounted for by `l` -/
theorem Inv.set_var {a : AState} {s : State} (x : Var) (l : List Nat) (r : Option Obj)
    (h : Inv k init n0 h0 a s)
    (hr : ∀ o, r = some o → o < n0 → ∃ p, p < k ∧ (a.top = true ∨ p ∈ l) ∧ init p = some o) :
    Inv k init n0 h0 (a.set x l) ⟨upd s.env x r, s.heap, s.next⟩ where
  next_le := h.next_le
  pts := fun z o hz ho => by
    simp only [upd] at hz
    split at hz
    · rename_i hzx
      subst hzx
      obtain ⟨p, hp, hm, hi⟩ := hr o hz ho
      exact ⟨p, hp, AState.mayPt_set_self hm, hi⟩
    · rename_i hzx
      obtain ⟨p, hp, hm, hi⟩ := h.pts z o hz ho
      exact ⟨p, hp, AState.mayPt_set_of_ne l hzx hm, hi⟩
  heap := h.heap

/-- the object of `y` is accounted for by `a.get y` -/
theorem Inv.get_var {a : AState} {s : State} (h : Inv k init n0 h0 a s) (y : Var) (o : Obj)
    (hy : s.env y = some o) (ho : o < n0) :
    ∃ p, p < k ∧ (a.top = true ∨ p ∈ a.get y) ∧ init p = some o := by
  obtain ⟨p, hp, hm, hi⟩ := h.pts y o hy ho
  refine ⟨p, hp, ?_, hi⟩
  rcases hm with hm | hm
  · exact Or.inl hm
  · exact Or.inr ((a.mem_get y p).2 hm)

/-- Generic soundness of the abstract call transfer: any state change that (1) does not decrease the
allocation pointer, (2) modifies entry-time objects only through arguments at positions in `σ f`,
(3) rebinds only `ret`, to a new object or to the object of an argument at a position in `ρ f`. -/
theorem Inv.call {a : AState} {s s1 : State} (σ ρ : FnId → List Nat) (f : FnId) (args : List Var)
    (ret : Var) (h : Inv k init n0 h0 a s)
    (hn : s.next ≤ s1.next)
    (hh : ∀ o, o < s.next → s1.heap o ≠ s.heap o →
      ∃ i, i ∈ σ f ∧ ∃ v, args[i]? = some v ∧ s.env v = some o)
    (r : Option Obj) (he : s1.env = upd s.env ret r)
    (hr : ∀ o, r = some o →
      s.next ≤ o ∨ ∃ i, i ∈ ρ f ∧ ∃ v, args[i]? = some v ∧ s.env v = some o) :
    Inv k init n0 h0 (transferI σ ρ k (.call f args ret) a) s1 := by
  have hnl := h.next_le
  -- first the mutation part
  have h1 : Inv k init n0 h0 (a.addMut (argPts (σ f) args a)) ⟨s.env, s1.heap, s1.next⟩ := by
    refine ⟨Nat.le_trans hnl hn, h.pts, fun o ho hne => ?_⟩
    by_cases hc : s1.heap o = s.heap o
    · obtain ⟨p, hp, hm, hi⟩ := h.heap o ho (by rw [← hc]; exact hne)
      exact ⟨p, hp, (AState.mayMut_addMut _ _ _).2 (Or.inl hm), hi⟩
    · obtain ⟨i, hi, v, hv, hev⟩ := hh o (Nat.lt_of_lt_of_le ho hnl) hc
      obtain ⟨p, hp, hm, hip⟩ := h.get_var v o hev ho
      refine ⟨p, hp, (AState.mayMut_addMut _ _ _).2 ?_, hip⟩
      rcases hm with hm | hm
      · exact Or.inl (Or.inl hm)
      · refine Or.inr ?_
        simp only [argPts, List.mem_flatMap]
        exact ⟨i, hi, by rw [hv]; exact hm⟩
  -- then the rebinding of `ret`
  have h2 := h1.set_var ret (union [] (argPts (ρ f) args a)) r (fun o hro ho => by
    rcases hr o hro with hge | ⟨i, hi, v, hv, hev⟩
    · exact absurd (Nat.lt_of_lt_of_le ho hnl) (Nat.not_lt.2 hge)
    · obtain ⟨p, hp, hm, hip⟩ := h.get_var v o hev ho
      refine ⟨p, hp, ?_, hip⟩
      rcases hm with hm | hm
      · exact Or.inl hm
      · refine Or.inr ?_
        rw [mem_union]
        refine Or.inr ?_
        simp only [argPts, List.mem_flatMap]
        exact ⟨i, hi, by rw [hv]; exact hm⟩)
  have hs1 : s1 = ⟨upd s.env ret r, s1.heap, s1.next⟩ := by
    cases s1; simp only at he; subst he; rfl
  rw [hs1]
  simpa [transferI] using h2

/-- Soundness of the transfer function for one non-compound step. -/
theorem step_sound {σ ρ : FnId → List Nat} {i : Instr} {s s1 : State} {a : AState}
    (hs : Step σ ρ i s s1) (h : Inv k init n0 h0 a s) :
    Inv k init n0 h0 (transferI σ ρ k i a) s1 := by
  cases hs with
  | fresh x =>
      have h' : Inv k init n0 h0 a ⟨s.env, s.heap, s.next + 1⟩ :=
        ⟨Nat.le_succ_of_le h.next_le, h.pts, h.heap⟩
      have := h'.set_var x [] (some s.next) (fun o ho hlt => by
        cases ho; exact absurd hlt (Nat.not_lt.2 h.next_le))
      simpa [transferI] using this
  | alias x y =>
      have := h.set_var x (a.get y) (s.env y) (fun o ho hlt => h.get_var y o ho hlt)
      simpa [transferI] using this
  | joinKeep x y =>
      have : s = ⟨upd s.env x (s.env x), s.heap, s.next⟩ := by
        cases s; simp only [State.mk.injEq, and_true]
        funext z; simp only [upd]; split
        · rename_i hz; rw [hz]
        · rfl
      rw [this]
      have := h.set_var x (union (a.get x) (a.get y)) (s.env x) (fun o ho hlt => by
        obtain ⟨p, hp, hm, hi⟩ := h.get_var x o ho hlt
        refine ⟨p, hp, ?_, hi⟩
        rw [mem_union]
        rcases hm with hm | hm
        · exact Or.inl hm
        · exact Or.inr (Or.inl hm))
      simpa [transferI] using this
  | joinTake x y =>
      have := h.set_var x (union (a.get x) (a.get y)) (s.env y) (fun o ho hlt => by
        obtain ⟨p, hp, hm, hi⟩ := h.get_var y o ho hlt
        refine ⟨p, hp, ?_, hi⟩
        rw [mem_union]
        rcases hm with hm | hm
        · exact Or.inl hm
        · exact Or.inr (Or.inr hm))
      simpa [transferI] using this
  | inplace x _ o v hx =>
      have : Inv k init n0 h0 (a.addMut (a.get x)) ⟨s.env, upd s.heap o v, s.next⟩ := by
        refine ⟨h.next_le, h.pts, fun o' ho' hne => ?_⟩
        by_cases hc : o' = o
        · subst hc
          obtain ⟨p, hp, hm, hi⟩ := h.get_var x o' hx ho'
          refine ⟨p, hp, (AState.mayMut_addMut _ _ _).2 ?_, hi⟩
          rcases hm with hm | hm
          · exact Or.inl (Or.inl hm)
          · exact Or.inr hm
        · simp only [upd, if_neg hc] at hne
          obtain ⟨p, hp, hm, hi⟩ := h.heap o' ho' hne
          exact ⟨p, hp, (AState.mayMut_addMut _ _ _).2 (Or.inl hm), hi⟩
      simpa [transferI] using this
  | inplaceNone x _ hx =>
      have : Inv k init n0 h0 (a.addMut (a.get x)) s :=
        ⟨h.next_le, h.pts, fun o ho hne => by
          obtain ⟨p, hp, hm, hi⟩ := h.heap o ho hne
          exact ⟨p, hp, (AState.mayMut_addMut _ _ _).2 (Or.inl hm), hi⟩⟩
      simpa [transferI] using this
  | callFresh f args ret _ h' hc =>
      exact h.call σ ρ f args ret (Nat.le_succ _) (fun o _ hne => hc o hne) (some s.next) rfl
        (fun o ho => by cases ho; exact Or.inl (Nat.le_refl _))
  | callArg f args ret _ h' i v hc hi hv =>
      exact h.call σ ρ f args ret (Nat.le_refl _) (fun o _ hne => hc o hne) (s.env v) rfl
        (fun o ho => Or.inr ⟨i, hi, v, hv, ho⟩)

/-- Entering a loop: the stabilised abstract state is above the entry state. -/
theorem Inv.loop_entry {σ ρ : FnId → List Nat} {a : AState} {s : State} (p : Prog)
    (h : Inv k init n0 h0 a s) : Inv k init n0 h0 (transferI σ ρ k (.loop p) a) s := by
  rw [transferI_loop]; exact h.mono (le_loopFix _ _ _)

/-! ## Theorem A: summary semantics -/

/-- The invariant is preserved by `Exec` along the abstract transfer. -/
theorem exec_inv {σ ρ : FnId → List Nat} {prog : Prog} {s s' : State} (hex : Exec σ ρ prog s s') :
    ∀ (k : Nat) (init : Nat → Option Obj) (n0 : Obj) (h0 : Obj → Nat) (a : AState),
      Inv k init n0 h0 a s → Inv k init n0 h0 (transfer σ ρ k prog a) s' := by
  induction hex with
  | nil s => intro k init n0 h0 a h; rw [transfer_nil]; exact h
  | step hs _ ih =>
      intro k init n0 h0 a h; rw [transfer_cons]
      exact ih k init n0 h0 _ (step_sound hs h)
  | branchL _ _ ih1 ih2 =>
      intro k init n0 h0 a h; rw [transfer_cons, transferI_branch]
      exact ih2 k init n0 h0 _ ((ih1 k init n0 h0 a h).mono (AState.le_join_left _ _))
  | branchR _ _ ih1 ih2 =>
      intro k init n0 h0 a h; rw [transfer_cons, transferI_branch]
      exact ih2 k init n0 h0 _ ((ih1 k init n0 h0 a h).mono (AState.le_join_right _ _))
  | loopDone _ ih =>
      intro k init n0 h0 a h; rw [transfer_cons]
      exact ih k init n0 h0 _ (h.loop_entry _)
  | @loopStep p rest s s1 s' _ _ ih1 ih2 =>
      intro k init n0 h0 a h
      have hA : Inv k init n0 h0 (transferI σ ρ k (.loop p) a) s := h.loop_entry _
      rw [transferI_loop] at hA
      have hB := (ih1 k init n0 h0 _ hA).mono (AState.leb_sound (loopFix_stable _ _ _))
      have hC := ih2 k init n0 h0 _ hB
      rw [transfer_cons, transferI_loop, loopFix_idem] at hC
      rw [transfer_cons, transferI_loop]
      exact hC

/-- membership in `mayMutate` -/
theorem mem_mayMutate (σ ρ : FnId → List Nat) (k : Nat) (prog : Prog) (p : Nat) :
    p ∈ mayMutate σ ρ k prog ↔ p < k ∧ (analyze σ ρ k prog).MayMut p := by
  simp [mayMutate, AState.MayMut]

/-- membership in `mayReturn` -/
theorem mem_mayReturn (σ ρ : FnId → List Nat) (k : Nat) (rv : Var) (prog : Prog) (p : Nat) :
    p ∈ mayReturn σ ρ k rv prog ↔ p < k ∧ (analyze σ ρ k prog).MayPt rv p := by
  simp [mayReturn, AState.MayPt, AState.mem_get]

/-- the invariant holds at entry of a function whose parameter `p < k` is bound to `init p` -/
theorem Inv.entry (k : Nat) (init : Nat → Option Obj) (s : State)
    (henv : ∀ x o, s.env x = some o → o < s.next → x < k ∧ init x = some o) :
    Inv k init s.next s.heap (AState.init k) s where
  next_le := Nat.le_refl _
  pts := fun x o hx ho => by
    obtain ⟨hk, hi⟩ := henv x o hx ho
    exact ⟨x, hk, AState.mayPt_init hk, hi⟩
  heap := fun o _ hne => absurd rfl hne

/-- General form of theorem A (`init : Nat → Option Obj`, parameters may be unbound, and variables
`≥ k` may initially be bound to anything that is not an entry object). -/
theorem mayMutate_sound_gen (σ ρ : FnId → List Nat) (k : Nat) (init : Nat → Option Obj) (prog : Prog)
    (s₀ s₁ : State)
    (henv : ∀ x o, s₀.env x = some o → o < s₀.next → x < k ∧ init x = some o)
    (hex : Exec σ ρ prog s₀ s₁) (o : Obj) (ho : o < s₀.next)
    (hclean : ∀ p, p < k → init p = some o → p ∉ mayMutate σ ρ k prog) :
    s₁.heap o = s₀.heap o := by
  have hI := exec_inv hex k init s₀.next s₀.heap _ (Inv.entry k init s₀ henv)
  apply Classical.byContradiction
  intro hne
  obtain ⟨p, hp, hm, hi⟩ := hI.heap o ho hne
  exact hclean p hp hi ((mem_mayMutate σ ρ k prog p).2 ⟨hp, hm⟩)

/-- environment binding parameter `p < k` to `init p` and nothing else -/
def initEnv (k : Nat) (init : Fin k → Obj) : Var → Option Obj :=
  fun x => if h : x < k then some (init ⟨x, h⟩) else none

theorem initEnv_spec {k : Nat} {init : Fin k → Obj} {x : Var} {o : Obj}
    (h : initEnv k init x = some o) : ∃ hx : x < k, init ⟨x, hx⟩ = o := by
  unfold initEnv at h
  split at h
  · rename_i hx; exact ⟨hx, Option.some.inj h⟩
  · cases h

/-- **Theorem A.**  Run `prog` (summary semantics for calls) from a state whose environment binds
parameter `p < k` to `init p` (not necessarily distinct objects) and nothing else.  Every object `o`
existing at entry such that no parameter bound to `o` is reported by `mayMutate` has the same
contents at exit. -/
theorem mayMutate_sound (σ ρ : FnId → List Nat) (k : Nat) (init : Fin k → Obj) (prog : Prog)
    (s₀ s₁ : State) (henv : s₀.env = initEnv k init)
    (hex : Exec σ ρ prog s₀ s₁) (o : Obj) (ho : o < s₀.next)
    (hclean : ∀ p : Fin k, init p = o → p.val ∉ mayMutate σ ρ k prog) :
    s₁.heap o = s₀.heap o := by
  refine mayMutate_sound_gen σ ρ k (fun x => if h : x < k then some (init ⟨x, h⟩) else none) prog
    s₀ s₁ ?_ hex o ho ?_
  · intro x o' hx _
    rw [henv] at hx
    obtain ⟨hk, hi⟩ := initEnv_spec hx
    exact ⟨hk, by simp [hk, hi]⟩
  · intro p hp hi
    simp only [hp, dite_true, Option.some.injEq] at hi
    exact hclean ⟨p, hp⟩ hi

/-- **Corollary.**  If `mayMutate` reports nothing, every object existing at entry is unchanged. -/
theorem clean_sound (σ ρ : FnId → List Nat) (k : Nat) (init : Fin k → Obj) (prog : Prog)
    (s₀ s₁ : State) (henv : s₀.env = initEnv k init)
    (hex : Exec σ ρ prog s₀ s₁) (hclean : mayMutate σ ρ k prog = []) :
    ∀ o, o < s₀.next → s₁.heap o = s₀.heap o := by
  intro o ho
  exact mayMutate_sound σ ρ k init prog s₀ s₁ henv hex o ho (fun p _ => by simp [hclean])

/-! ## Theorem B: real calls, bounded depth -/

/-- The invariant is preserved by `ExecReal` along the abstract transfer when `(σ, ρ)` is a
post-fixpoint for the table. -/
theorem execReal_inv {σ ρ : FnId → List Nat} {tbl : FnId → Option (Nat × Var × Prog)}
    (hpf : PostFixpoint σ ρ tbl) {d : Nat} {prog : Prog} {s s' : State}
    (hex : ExecReal σ ρ tbl d prog s s') :
    ∀ (k : Nat) (init : Nat → Option Obj) (n0 : Obj) (h0 : Obj → Nat) (a : AState),
      Inv k init n0 h0 a s → Inv k init n0 h0 (transfer σ ρ k prog a) s' := by
  induction hex with
  | nil d s => intro k init n0 h0 a h; rw [transfer_nil]; exact h
  | step _ hs _ ih =>
      intro k init n0 h0 a h; rw [transfer_cons]
      exact ih k init n0 h0 _ (step_sound hs h)
  | @callReal d f args ret kf rv body rest s t s1 s' htbl _ hret _ ihb ihr =>
      intro k init n0 h0 a h; rw [transfer_cons]
      refine ihr k init n0 h0 _ ?_
      -- the callee body, analysed from its own entry state
      have hb := ihb kf (fun p => (args[p]?).bind s.env) s.next s.heap (AState.init kf)
        (Inv.entry kf _ ⟨paramEnv kf args s.env, s.heap, s.next⟩ (fun x o hx _ => by
          simp only [paramEnv] at hx
          split at hx
          · rename_i hk; exact ⟨hk, hx⟩
          · cases hx))
      obtain ⟨hpfM, hpfR⟩ := hpf f kf rv body htbl
      have hnext : s.next ≤ t.next := hb.next_le
      have harg : ∀ (p : Nat) (o : Obj), (args[p]?).bind s.env = some o →
          ∃ v, args[p]? = some v ∧ s.env v = some o := by
        intro p o hi
        cases hv : args[p]? with
        | none => rw [hv] at hi; cases hi
        | some v => rw [hv] at hi; exact ⟨v, rfl, hi⟩
      have hheap : ∀ o, o < s.next → t.heap o ≠ s.heap o →
          ∃ i, i ∈ σ f ∧ ∃ v, args[i]? = some v ∧ s.env v = some o := by
        intro o ho hne
        obtain ⟨p, hp, hm, hi⟩ := hb.heap o ho hne
        exact ⟨p, hpfM p ((mem_mayMutate σ ρ kf body p).2 ⟨hp, hm⟩), harg p o hi⟩
      rcases hret with ⟨o, hrv, rfl⟩ | ⟨_, rfl⟩
      · refine h.call σ ρ f args ret hnext hheap (some o) rfl (fun o' ho' => ?_)
        cases ho'
        by_cases hlt : o < s.next
        · obtain ⟨p, hp, hm, hi⟩ := hb.pts rv o hrv hlt
          exact Or.inr ⟨p, hpfR p ((mem_mayReturn σ ρ kf rv body p).2 ⟨hp, hm⟩), harg p o hi⟩
        · exact Or.inl (Nat.le_of_not_lt hlt)
      · exact h.call σ ρ f args ret (Nat.le_succ_of_le hnext) hheap (some t.next) rfl
          (fun o ho => by cases ho; exact Or.inl hnext)
  | branchL _ _ ih1 ih2 =>
      intro k init n0 h0 a h; rw [transfer_cons, transferI_branch]
      exact ih2 k init n0 h0 _ ((ih1 k init n0 h0 a h).mono (AState.le_join_left _ _))
  | branchR _ _ ih1 ih2 =>
      intro k init n0 h0 a h; rw [transfer_cons, transferI_branch]
      exact ih2 k init n0 h0 _ ((ih1 k init n0 h0 a h).mono (AState.le_join_right _ _))
  | loopDone _ ih =>
      intro k init n0 h0 a h; rw [transfer_cons]
      exact ih k init n0 h0 _ (h.loop_entry _)
  | @loopStep d p rest s s1 s' _ _ ih1 ih2 =>
      intro k init n0 h0 a h
      have hA : Inv k init n0 h0 (transferI σ ρ k (.loop p) a) s := h.loop_entry _
      rw [transferI_loop] at hA
      have hB := (ih1 k init n0 h0 _ hA).mono (AState.leb_sound (loopFix_stable _ _ _))
      have hC := ih2 k init n0 h0 _ hB
      rw [transfer_cons, transferI_loop, loopFix_idem] at hC
      rw [transfer_cons, transferI_loop]
      exact hC

/-- General form of theorem B. -/
theorem mayMutate_sound_real_gen (σ ρ : FnId → List Nat) (tbl : FnId → Option (Nat × Var × Prog))
    (hpf : PostFixpoint σ ρ tbl) (d : Nat) (k : Nat) (init : Nat → Option Obj) (prog : Prog)
    (s₀ s₁ : State)
    (henv : ∀ x o, s₀.env x = some o → o < s₀.next → x < k ∧ init x = some o)
    (hex : ExecReal σ ρ tbl d prog s₀ s₁) (o : Obj) (ho : o < s₀.next)
    (hclean : ∀ p, p < k → init p = some o → p ∉ mayMutate σ ρ k prog) :
    s₁.heap o = s₀.heap o := by
  have hI := execReal_inv hpf hex k init s₀.next s₀.heap _ (Inv.entry k init s₀ henv)
  apply Classical.byContradiction
  intro hne
  obtain ⟨p, hp, hm, hi⟩ := hI.heap o ho hne
  exact hclean p hp hi ((mem_mayMutate σ ρ k prog p).2 ⟨hp, hm⟩)

/-- **Theorem B.**  Same conclusion as theorem A for the semantics in which calls execute the
callee's body from `tbl` (to any nesting depth `d`; summary semantics below that and for functions
without a body), provided the summary tables `(σ, ρ)` are a post-fixpoint for `tbl`. -/
theorem mayMutate_sound_real (σ ρ : FnId → List Nat) (tbl : FnId → Option (Nat × Var × Prog))
    (hpf : PostFixpoint σ ρ tbl) (d : Nat) (k : Nat) (init : Fin k → Obj) (prog : Prog)
    (s₀ s₁ : State) (henv : s₀.env = initEnv k init)
    (hex : ExecReal σ ρ tbl d prog s₀ s₁) (o : Obj) (ho : o < s₀.next)
    (hclean : ∀ p : Fin k, init p = o → p.val ∉ mayMutate σ ρ k prog) :
    s₁.heap o = s₀.heap o := by
  refine mayMutate_sound_real_gen σ ρ tbl hpf d k
    (fun x => if h : x < k then some (init ⟨x, h⟩) else none) prog s₀ s₁ ?_ hex o ho ?_
  · intro x o' hx _
    rw [henv] at hx
    obtain ⟨hk, hi⟩ := initEnv_spec hx
    exact ⟨hk, by simp [hk, hi]⟩
  · intro p hp hi
    simp only [hp, dite_true, Option.some.injEq] at hi
    exact hclean ⟨p, hp⟩ hi

theorem clean_sound_real (σ ρ : FnId → List Nat) (tbl : FnId → Option (Nat × Var × Prog))
    (hpf : PostFixpoint σ ρ tbl) (d : Nat) (k : Nat) (init : Fin k → Obj) (prog : Prog)
    (s₀ s₁ : State) (henv : s₀.env = initEnv k init)
    (hex : ExecReal σ ρ tbl d prog s₀ s₁) (hclean : mayMutate σ ρ k prog = []) :
    ∀ o, o < s₀.next → s₁.heap o = s₀.heap o := by
  intro o ho
  exact mayMutate_sound_real σ ρ tbl hpf d k init prog s₀ s₁ henv hex o ho
    (fun p _ => by simp [hclean])

/-- entries of the table function come from the list -/
theorem tblOf_mem {table : List (FnId × Nat × Var × Prog)} {f : FnId} {k : Nat} {rv : Var}
    {body : Prog} (h : tblOf table f = some (k, rv, body)) : (f, k, rv, body) ∈ table := by
  induction table with
  | nil => simp [tblOf] at h
  | cons e t ih =>
      obtain ⟨g, kg, rg, bg⟩ := e
      simp only [tblOf] at h
      split at h
      · rename_i hg
        simp only [Option.some.injEq, Prod.mk.injEq] at h
        obtain ⟨h1, h2, h3⟩ := h
        subst hg h1 h2 h3
        exact List.mem_cons_self
      · exact List.mem_cons_of_mem _ (ih h)

/-- The Boolean checker establishes the post-fixpoint property used by theorem B. -/
theorem isPostFixpoint_sound (σ ρ : FnId → List Nat) (table : List (FnId × Nat × Var × Prog))
    (h : isPostFixpoint σ ρ table = true) : PostFixpoint σ ρ (tblOf table) := by
  intro f k rv body hf
  simp only [isPostFixpoint, List.all_eq_true, Bool.and_eq_true, List.contains_iff_mem] at h
  have := h (f, k, rv, body) (tblOf_mem hf)
  exact ⟨fun p hp => this.1 p hp, fun p hp => this.2 p hp⟩

/-- Every summary-semantics run is a real-semantics run at any depth with the empty table
(so theorem A is also the instance `tbl = fun _ => none` of theorem B). -/
theorem Exec.toReal {σ ρ : FnId → List Nat} {prog : Prog} {s s' : State} (d : Nat)
    (h : Exec σ ρ prog s s') : ExecReal σ ρ (fun _ => none) d prog s s' := by
  induction h with
  | nil s => exact .nil d s
  | step hs _ ih => exact .step (fun _ _ _ _ => Or.inr rfl) hs ih
  | branchL _ _ ih1 ih2 => exact .branchL ih1 ih2
  | branchR _ _ ih1 ih2 => exact .branchR ih1 ih2
  | loopDone _ ih => exact .loopDone ih
  | loopStep _ _ ih1 ih2 => exact .loopStep ih1 ih2

/-! ## Sanity examples -/

section Examples

/-- function `7` may modify its argument at position `1` -/
private def σ₀ : FnId → List Nat := sigmaOf [(7, [1])]
/-- the result of function `7` may be its argument at position `0` -/
private def ρ₀ : FnId → List Nat := sigmaOf [(7, [0])]

-- writing through an alias of parameter 0
example : mayMutate σ₀ ρ₀ 2 [.alias 2 0, .inplace 2] = [0] := by decide
-- writing to a fresh object
example : mayMutate σ₀ ρ₀ 2 [.fresh 2, .inplace 2] = [] := by decide
-- rebinding a parameter kills the alias
example : mayMutate σ₀ ρ₀ 2 [.fresh 0, .inplace 0] = [] := by decide
-- branch union
example : mayMutate σ₀ ρ₀ 2 [.branch [.alias 2 0] [.alias 2 1], .inplace 2] = [0, 1] := by decide
example : mayMutate σ₀ ρ₀ 3 [.branch [.inplace 2] [.fresh 3], .inplace 3] = [2] := by decide
-- join is a weak update
example : mayMutate σ₀ ρ₀ 2 [.fresh 2, .join 2 1, .inplace 2] = [1] := by decide
-- the loop needs two rounds to propagate the alias 0 → 2 → 3
example : mayMutate σ₀ ρ₀ 2 [.loop [.alias 3 2, .alias 2 0], .inplace 3] = [0] := by decide
-- a longer chain still stabilises within the fuel (no spurious top)
example : mayMutate σ₀ ρ₀ 2
    [.loop [.alias 6 5, .alias 5 4, .alias 4 3, .alias 3 2, .alias 2 1], .inplace 6] = [1] := by
  decide
-- call: position 1 of function 7 is mutated, here bound to parameter 0
example : mayMutate σ₀ ρ₀ 2 [.call 7 [1, 0] 5] = [0] := by decide
example : mayMutate σ₀ ρ₀ 2 [.alias 3 1, .call 7 [0, 3] 5] = [1] := by decide
-- the returned object may be the argument at a position in `ρ f` (here position 0) ...
example : mayMutate σ₀ ρ₀ 2 [.fresh 2, .call 7 [0, 2] 5, .inplace 5] = [0] := by decide
-- ... but not any other argument
example : mayMutate σ₀ ρ₀ 2 [.fresh 2, .call 7 [2, 2, 0] 5, .inplace 5] = [] := by decide
-- unknown function (σ f = ρ f = []): mutates nothing, returns a fresh object
example : mayMutate σ₀ ρ₀ 2 [.call 9 [0, 1] 5, .inplace 5] = [] := by decide

-- return values: `rv = 5`, every `return e` is `.join rv e`
-- returning a fresh object
example : mayReturn σ₀ ρ₀ 2 5 [.fresh 3, .join 5 3] = [] := by decide
-- returning parameter 0
example : mayReturn σ₀ ρ₀ 2 5 [.alias 5 0] = [0] := by decide
example : mayReturn σ₀ ρ₀ 2 5 [.branch [.fresh 3, .join 5 3] [.join 5 1]] = [1] := by decide
-- returning the result of a call that may return its argument 0
example : mayReturn σ₀ ρ₀ 2 5 [.call 7 [1, 0] 3, .join 5 3] = [1] := by decide
-- no `return` at all: `rv` stays unbound
example : mayReturn σ₀ ρ₀ 2 5 [.inplace 0] = [] := by decide

-- post-fixpoint checker: entries are `(id, arity, return variable, body)`
-- function 10 returns a copy of its argument, function 11 returns its argument itself,
-- function 12 mutates the result of 10 (harmless), function 13 mutates the result of 11
private def tbl₀ : List (FnId × Nat × Var × Prog) :=
  [(10, 1, 5, [.fresh 2, .join 5 2]),
   (11, 1, 5, [.alias 5 0]),
   (12, 1, 5, [.call 10 [0] 2, .inplace 2]),
   (13, 1, 5, [.call 11 [0] 2, .inplace 2])]
example : isPostFixpoint (sigmaOf [(13, [0])]) (sigmaOf [(11, [0])]) tbl₀ = true := by decide
-- `ρ 11` too small: the alias returned by 11 is missed
example : isPostFixpoint (sigmaOf [(13, [0])]) (sigmaOf []) tbl₀ = false := by decide
-- `σ 13` too small
example : isPostFixpoint (sigmaOf []) (sigmaOf [(11, [0])]) tbl₀ = false := by decide
-- with these summaries the caller of 12 is clean and the caller of 13 is flagged
example : mayMutate (sigmaOf [(13, [0])]) (sigmaOf [(11, [0])]) 1 [.call 12 [0] 1] = [] := by
  decide
example : mayMutate (sigmaOf [(13, [0])]) (sigmaOf [(11, [0])]) 1 [.call 13 [0] 1] = [0] := by
  decide
-- mutating the result of a fresh-returning function does not flag the caller's parameter,
-- mutating the result of an argument-returning function does
example : mayMutate (sigmaOf []) (sigmaOf [(11, [0])]) 1 [.call 10 [0] 2, .inplace 2] = [] := by
  decide
example : mayMutate (sigmaOf []) (sigmaOf [(11, [0])]) 1 [.call 11 [0] 2, .inplace 2] = [0] := by
  decide
-- recursion: function 3 calls itself and returns either its argument 1 or the recursive result
example : isPostFixpoint (sigmaOf [(3, [0])]) (sigmaOf [(3, [1])])
    [(3, 2, 9, [.branch [.inplace 0, .join 9 1] [.call 3 [0, 1] 2, .join 9 2]])] = true := by decide

-- the concrete semantics is not vacuous: writing through an alias of parameter 0 can give its
-- object arbitrary new contents
example (σ ρ : FnId → List Nat) (s : State) (o : Obj) (h : s.env 0 = some o) :
    Exec σ ρ [.alias 2 0, .inplace 2] s ⟨upd s.env 2 (s.env 0), upd s.heap o 42, s.next⟩ :=
  .step (.alias 2 0 s) (.step (.inplace 2 _ o 42 (by simp [upd, h])) (.nil _))
-- and a loop can run its body twice
example (σ ρ : FnId → List Nat) (s : State) :
    Exec σ ρ [.loop [.fresh 1]] s ⟨upd (upd s.env 1 (some s.next)) 1 (some (s.next + 1)), s.heap,
      s.next + 1 + 1⟩ :=
  .loopStep (.step (.fresh 1 s) (.nil _))
    (.loopStep (.step (.fresh 1 _) (.nil _)) (.loopDone (.nil _)))

-- the real semantics is not vacuous either: function 11 (`return x`) hands its argument back and
-- the caller then modifies parameter 0's object through the result
example (σ ρ : FnId → List Nat) (s : State) (o : Obj) (h : s.env 0 = some o) :
    ExecReal σ ρ (tblOf [(11, 1, 5, [.alias 5 0])]) 1 [.call 11 [0] 2, .inplace 2] s
      ⟨upd s.env 2 (some o), upd s.heap o 42, s.next⟩ :=
  .callReal (k := 1) (rv := 5) (body := [.alias 5 0]) rfl
    (.step (fun _ _ _ hc => by cases hc) (.alias 5 0 _) (.nil _ _))
    (Or.inl ⟨o, by simp [upd, paramEnv, h], rfl⟩)
    (.step (fun _ _ _ hc => by cases hc) (.inplace 2 _ o 42 (by simp [upd])) (.nil _ _))

end Examples

end Odak.Heap

/-! Axiom audit (expected: only `propext`, `Classical.choice`, `Quot.sound`). -/
#print axioms Odak.Heap.mayMutate_sound
#print axioms Odak.Heap.clean_sound
#print axioms Odak.Heap.mayMutate_sound_real
#print axioms Odak.Heap.clean_sound_real
#print axioms Odak.Heap.isPostFixpoint_sound
