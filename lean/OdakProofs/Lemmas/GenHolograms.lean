import OdakProofs.RealInst
import Mathlib.Tactic.Ring
import Mathlib.Tactic.Linarith
import OdakModel.HologramMore
import OdakModel.Generated.Holograms

/-!
  Tie theorems: the definitions of `Generated/Holograms.lean` (regenerated from the Python source on every run by
  `harness/translate/holograms.py`) EQUAL the hand-written model (`OdakModel/Hologram.lean`, `OdakModel/HologramMore.lean`) the C07
  theorems are about.
-/
namespace Odak
open Odak.Gen Odak.Holo

theorem Fld.ext' {β : Type} {u v : Fld β} (h : ∀ i j, u.el i j = v.el i j) : u = v := by
  cases u; cases v; congr; funext i j; exact h i j

section generic
variable {α : Type} [Num α]

/-! ### torch `gerchberg_saxton` -/

/-- the hand-written loop `gsTorchLoop` (pattern matching on the iteration count) is the regenerated loop (`Fld.iterate` of one pass on
    the loop-carried reconstruction, then the last pass) -/
theorem gsTorchLoop_eq_iterate {F : Type} (fwd bwd : F → F) (sa : F → F → F) (field : F) (k : Nat) (r : F) :
    gsTorchLoop fwd bwd sa field (k + 1) r =
      (bwd (Fld.iterate (fun s => sa (fwd (bwd s)) field) k r), sa (fwd (bwd (Fld.iterate (fun s => sa (fwd (bwd s)) field) k r))) field) := by
  induction k generalizing r with
  | zero => rfl
  | succ j ih =>
    show gsTorchLoop fwd bwd sa field (j + 1) (sa (fwd (bwd r)) field) = _
    rw [ih]; rfl

/-- a one-component loop state is written `σ × Unit` in the generated text (see `harness/translate/holograms.py: exec_for`) -/
theorem Fld.iterate_unit {σ : Type} (g : σ → σ) (k : Nat) (r : σ) :
    Fld.iterate (fun s : σ × Unit => (g s.1, ())) k (r, ()) = (Fld.iterate g k r, ()) := by
  induction k generalizing r with
  | zero => rfl
  | succ j ih => exact ih (g r)

/-- torch `gerchberg_saxton` as regenerated IS the model's `gsTorch` for every iteration count `k + 1 ≥ 1`, with
    `fwd = propagate(+distance)`, `bwd = propagate(-distance)` and `set_amplitude` applied sample by sample with the target field -/
theorem gsTorchT_eq (prop : Prop' α) (n m : Nat) (field : Fld (Cx α)) (k : Nat) (distance : α) :
    gsTorchT prop n m field (k + 1) distance =
      gsTorch (prop distance n m) (prop (-distance) n m) (Fld.zip setAmplitudeT) field (k + 1) := by
  have e := Fld.iterate_unit (fun r => Fld.zip setAmplitudeT (prop distance n m (prop (-distance) n m r)) field) k field
  simp only [gsTorchT, gsTorch, gsTorchLoop_eq_iterate, Nat.add_sub_cancel, e]

/-! ### NumPy `gerchberg_saxton` -/

/-- NumPy `gerchberg_saxton` as regenerated IS the model's `gsNumpy` (every iteration count, including 0) -/
theorem gsNumpyN_eq (prop : Prop' α) (n m : Nat) (field : Fld (Cx α)) (it : Nat) (distance : α) (randomPhase : Fld α) :
    gsNumpyN prop n m field it distance randomPhase = gsNumpy prop n m field it distance randomPhase := by
  have e := Fld.iterate_unit (gsNumpyPass prop n m (Fld.map calcAmplitude field) distance) it (gsNumpyStart n m randomPhase)
  have h : gsNumpyN prop n m field it distance randomPhase =
      (gsWindow n m 0 (Fld.iterate (fun s : Fld (Cx α) × Unit => (gsNumpyPass prop n m (Fld.map calcAmplitude field) distance s.1, ()))
          it (gsNumpyStart n m randomPhase, ())).1,
       gsWindow n m 0 (prop distance (gsPadRows n m) (gsPadCols n m)
        (Fld.iterate (fun s : Fld (Cx α) × Unit => (gsNumpyPass prop n m (Fld.map calcAmplitude field) distance s.1, ()))
          it (gsNumpyStart n m randomPhase, ())).1)) := rfl
  rw [h, e]; rfl

/-! ### `shift_w_double_phase`: the checkerboard interleave -/

/-- the four strided stores of the source, in the source's order, onto ANY start array: pixel `(i, j)` ends up with the entry `(i, j)` of the
    first map where `checkerLow i j` (both indices even or both odd) and of the second map elsewhere - every pixel is written exactly once -/
theorem checker_interleave {β : Type} (z low high : Fld β) (i j : Nat) :
    (Fld.storeStrided 1 2 1 2 (Fld.storeStrided 1 2 0 2 (Fld.storeStrided 0 2 1 2 (Fld.storeStrided 0 2 0 2 z
      (Fld.strided 0 2 0 2 low)) (Fld.strided 0 2 1 2 high)) (Fld.strided 1 2 0 2 high)) (Fld.strided 1 2 1 2 low)).el i j
      = if checkerLow i j then low.el i j else high.el i j := by
  have hi : i % 2 = 0 ∨ i % 2 = 1 := by omega
  have hj : j % 2 = 0 ∨ j % 2 = 1 := by omega
  have hc : checkerLow i j = decide (i % 2 = j % 2) := by
    rcases hi with hi | hi <;> rcases hj with hj | hj <;> simp [checkerLow, hi, hj]
  rw [hc]
  simp only [Fld.storeStrided, Fld.strided, decide_eq_true_eq]
  split_ifs <;> first | (congr 1 <;> omega)

end generic

/-! ### `shift_w_double_phase` (ℝ) -/

/-- the global phase factor as regenerated (`cos θ + i sin θ`, `θ = -2π · depth_shift / wavelength`) is the model's `shiftFactor` -/
theorem gen_shift_factor (d lam : ℝ) :
    (⟨Num.cos ((((-(Num.ofNat 2)) * Num.pi) * d) / lam), Num.sin ((((-(Num.ofNat 2)) * Num.pi) * d) / lam)⟩ : Cx ℝ) = shiftFactor d lam := by
  have e : (((-((2 : ℕ) : ℝ)) * Real.pi) * d) / lam = -(2 * Real.pi * d / lam) := by push_cast; ring
  simp only [shiftFactor, Cx.expi, num_ofNat, num_two, num_pi, num_cos, num_sin, e]

/-- `shift_w_double_phase` without the blur, as regenerated: the double-phase encoding of the shifted field -/
theorem shiftWDoublePhaseNoBlurT_eq (prop : Prop' ℝ) (n m : Nat) (phase : Fld ℝ) (d lam : ℝ) (L : Nat) (sigma : ℝ) :
    shiftWDoublePhaseNoBlurT prop n m phase d lam L sigma =
      doublePhaseEncode (dpRows n m) (dpCols n m) (shiftedField prop n m phase d lam) := by
  apply Fld.ext'; intro i j
  simp only [shiftWDoublePhaseNoBlurT, checker_interleave, gen_shift_factor]
  rfl

/-- `shift_w_double_phase` with the blur, as regenerated: the double-phase encoding of the blurred shifted field -/
theorem shiftWDoublePhaseT_eq (prop : Prop' ℝ) (n m : Nat) (phase : Fld ℝ) (d lam : ℝ) (L : Nat) (sigma : ℝ) :
    shiftWDoublePhaseT prop n m phase d lam L sigma =
      doublePhaseEncode (dpRows n m) (dpCols n m)
        (blurredField (dpRows n m) (dpCols n m) L sigma (shiftedField prop n m phase d lam)) := by
  apply Fld.ext'; intro i j
  simp only [shiftWDoublePhaseT, checker_interleave, gen_shift_factor]
  rfl


/-! ### NumPy `gerchberg_saxton`: index facts for even sides, what is returned -/

theorem Fld.iterate_succ' {σ : Type} (f : σ → σ) (k : Nat) (s : σ) : Fld.iterate f (k + 1) s = f (Fld.iterate f k s) := by
  induction k generalizing s with
  | zero => rfl
  | succ j ih =>
    show Fld.iterate f (j + 1) (f s) = f (Fld.iterate f j (f s))
    exact ih (f s)

/-! index facts for even sizes -/
theorem gsPadRows_even (a m : Nat) : gsPadRows (2 * a) m = 4 * a := by
  simp only [gsPadRows, Fld.npZeroPadRows, Index.npPad, Index.npPadAxis, npPadDef_b0, npPadDef_a0]
  omega

theorem gsPadCols_even (n b : Nat) : gsPadCols n (2 * b) = 4 * b := by
  simp only [gsPadCols, Fld.npZeroPadCols, Index.npPad, Index.npPadAxis, npPadDef_b1, npPadDef_a1]
  omega

theorem pySliceBounds_inside (n lo hi : Int) (h0 : 0 ≤ lo) (h1 : lo ≤ n) (h2 : 0 ≤ hi) (h3 : hi ≤ n) :
    Index.pySliceBounds n lo hi = (lo, hi) := by
  simp only [Index.pySliceBounds, not_lt.mpr h0, not_lt.mpr h2, if_false, min_eq_left h1, min_eq_left h3]

/-- one axis of the window `[P/2 - n/2 : P/2 + n/2]` of NumPy `gerchberg_saxton` for `n = 2a`, `P = 4a`: positions `a … 3a` -/
theorem gs_loadAxis_even (a : Nat) :
    Index.loadAxis ((4 * a : Nat) : Int) ((((4 * a : Nat) / 2 : Nat) : Int) - (((2 * a) / 2 : Nat) : Int))
      ((((4 * a) / 2 + (2 * a) / 2 : Nat)) : Int) = { len := 2 * a, src := fun i => some (i + a) } := by
  have e := pySliceBounds_inside ((4 * a : Nat) : Int) ((((4 * a : Nat) / 2 : Nat) : Int) - (((2 * a) / 2 : Nat) : Int))
    ((((4 * a) / 2 + (2 * a) / 2 : Nat)) : Int) (by omega) (by omega) (by omega) (by omega)
  simp only [Index.loadAxis, e]
  congr 1
  · omega
  · funext i; congr 1; omega

theorem npPad_rows_src_even (a w i : Nat) :
    (Index.npPad false 0 ((2 * a : Nat) : Int) w 0 0).2.src i = if a ≤ i ∧ i < 3 * a then some (i - a) else none := by
  have hb : npPadDef_b0 ((2 * a : Nat) : Int) w 0 0 = (a : Int) := by unfold npPadDef_b0; omega
  simp only [Index.npPad, Index.npPadAxis, hb]
  by_cases h : a ≤ i ∧ i < 3 * a
  · have h' : (a : Int) ≤ (i : Int) ∧ (i : Int) < (a : Int) + ((2 * a : Nat) : Int) := by omega
    rw [if_pos h', if_pos h]; congr 1; omega
  · have h' : ¬ ((a : Int) ≤ (i : Int) ∧ (i : Int) < (a : Int) + ((2 * a : Nat) : Int)) := by omega
    rw [if_neg h', if_neg h]

theorem npPad_cols_src_even (h b j : Nat) :
    (Index.npPad false 1 h ((2 * b : Nat) : Int) 0 0).2.src j = if b ≤ j ∧ j < 3 * b then some (j - b) else none := by
  have hb : npPadDef_b1 h ((2 * b : Nat) : Int) 0 0 = (b : Int) := by unfold npPadDef_b1; omega
  simp only [Index.npPad, Index.npPadAxis, hb]
  by_cases hj : b ≤ j ∧ j < 3 * b
  · have h' : (b : Int) ≤ (j : Int) ∧ (j : Int) < (b : Int) + ((2 * b : Nat) : Int) := by omega
    rw [if_pos h', if_pos hj]; congr 1; omega
  · have h' : ¬ ((b : Int) ≤ (j : Int) ∧ (j : Int) < (b : Int) + ((2 * b : Nat) : Int)) := by omega
    rw [if_neg h', if_neg hj]

/-- the `center ± orig_shape` window of the padded grid, even sizes: rows `a … 3a`, columns `b … 3b` -/
theorem gsWindow_even {β : Type} (a b : Nat) (z : β) (u : Fld β) :
    gsWindow (2 * a) (2 * b) z u = ⟨fun i j => u.el (i + a) (j + b)⟩ := by
  apply Fld.ext'; intro i j
  have ea := gs_loadAxis_even a
  have eb := gs_loadAxis_even b
  push_cast at ea eb
  simp only [gsWindow, gsPadRows_even, gsPadCols_even, Fld.window, Fld.remap]
  push_cast
  rw [ea, eb]

theorem gsWindowLen_rows_even (a m : Nat) :
    Fld.windowLen (gsPadRows (2 * a) m) (((gsPadRows (2 * a) m : Nat) : Int) / 2 - ((2 * a : Nat) : Int) / 2)
      (((gsPadRows (2 * a) m : Nat) : Int) / 2 + ((2 * a : Nat) : Int) / 2) = 2 * a := by
  have ea := gs_loadAxis_even a
  push_cast at ea
  simp only [gsPadRows_even, Fld.windowLen]
  push_cast
  rw [ea]

theorem gsWindowLen_cols_even (n b : Nat) :
    Fld.windowLen (gsPadCols n (2 * b)) (((gsPadCols n (2 * b) : Nat) : Int) / 2 - ((2 * b : Nat) : Int) / 2)
      (((gsPadCols n (2 * b) : Nat) : Int) / 2 + ((2 * b : Nat) : Int) / 2) = 2 * b := by
  have eb := gs_loadAxis_even b
  push_cast at eb
  simp only [gsPadCols_even, Fld.windowLen]
  push_cast
  rw [eb]

/-- NumPy `zero_pad` of a `2a x 2b` array: the content sits at rows `a … 3a`, columns `b … 3b` of the `4a x 4b` result -/
theorem npZeroPad_even {β : Type} (a b : Nat) (z : β) (u : Fld β) :
    Fld.npZeroPad (2 * a) (2 * b) z u =
      ⟨fun i j => if (a ≤ i ∧ i < 3 * a) ∧ (b ≤ j ∧ j < 3 * b) then u.el (i - a) (j - b) else z⟩ := by
  apply Fld.ext'; intro i j
  simp only [Fld.npZeroPad, Fld.remap, npPad_rows_src_even, npPad_cols_src_even]
  by_cases hi : a ≤ i ∧ i < 3 * a <;> by_cases hj : b ≤ j ∧ j < 3 * b <;> simp [hi, hj]


section numpyGS
variable {α : Type} [Num α]

/-- even sizes: the hologram-plane projection is phase-only inside the window `a ≤ i < 3a`, `b ≤ j < 3b` of the padded grid and zero
    outside -/
theorem gsProject_even (a b : Nat) (h : Fld (Cx α)) :
    gsProject (2 * a) (2 * b) h =
      ⟨fun i j => if (a ≤ i ∧ i < 3 * a) ∧ (b ≤ j ∧ j < 3 * b) then genField (Num.ofNat 1) (calcPhase (h.el i j)) else 0⟩ := by
  unfold gsProject
  rw [gsWindowLen_rows_even, gsWindowLen_cols_even, gsWindow_even, npZeroPad_even]
  apply Fld.ext'; intro i j
  by_cases c : (a ≤ i ∧ i < 3 * a) ∧ (b ≤ j ∧ j < 3 * b)
  · simp only [c, and_self, if_true, Fld.map, Nat.sub_add_cancel c.1.1, Nat.sub_add_cancel c.2.1]
  · simp only [c, if_false]

/-- ... hence cutting the window out of it and zero-padding again gives it back -/
theorem gsProject_pad_window (a b : Nat) (h : Fld (Cx α)) :
    Fld.npZeroPad (2 * a) (2 * b) 0 (gsWindow (2 * a) (2 * b) 0 (gsProject (2 * a) (2 * b) h)) = gsProject (2 * a) (2 * b) h := by
  rw [gsProject_even, gsWindow_even, npZeroPad_even]
  apply Fld.ext'; intro i j
  by_cases c : (a ≤ i ∧ i < 3 * a) ∧ (b ≤ j ∧ j < 3 * b)
  · simp only [c, and_self, if_true, Nat.sub_add_cancel c.1.1, Nat.sub_add_cancel c.2.1]
  · simp only [c, if_false]

/-- after at least one pass the padded hologram is a hologram-plane projection -/
theorem gsNumpyPadded_succ (prop : Prop' α) (n m : Nat) (field : Fld (Cx α)) (k : Nat) (distance : α) (randomPhase : Fld α) :
    ∃ x : Fld (Cx α), gsNumpyPadded prop n m field (k + 1) distance randomPhase = gsProject n m x := by
  unfold gsNumpyPadded
  rw [Fld.iterate_succ']
  exact ⟨_, rfl⟩

/-- NumPy `gerchberg_saxton`, even sides `2a x 2b`, at least one pass: every sample of the returned hologram is
    `generate_complex_field(1, phase)` for some phase, the padded hologram the loop ends with is the zero-padded RETURNED hologram, and
    the returned reconstruction is the window of the forward propagation of that padded hologram -/
theorem gsNumpy_returns (prop : Prop' α) (a b : Nat) (field : Fld (Cx α)) (k : Nat) (distance : α) (randomPhase : Fld α) :
    (∀ i j, i < 2 * a → j < 2 * b → ∃ φ : α, (gsNumpy prop (2 * a) (2 * b) field (k + 1) distance randomPhase).1.el i j
        = genField (Num.ofNat 1) φ) ∧
    (gsNumpy prop (2 * a) (2 * b) field (k + 1) distance randomPhase).2 =
      gsWindow (2 * a) (2 * b) 0 (prop distance (gsPadRows (2 * a) (2 * b)) (gsPadCols (2 * a) (2 * b))
        (Fld.npZeroPad (2 * a) (2 * b) 0 (gsNumpy prop (2 * a) (2 * b) field (k + 1) distance randomPhase).1)) := by
  obtain ⟨x, hx⟩ := gsNumpyPadded_succ prop (2 * a) (2 * b) field k distance randomPhase
  simp only [gsNumpy, hx]
  constructor
  · intro i j hi hj
    rw [gsProject_even, gsWindow_even]
    have c : (a ≤ i + a ∧ i + a < 3 * a) ∧ (b ≤ j + b ∧ j + b < 3 * b) := by omega
    exact ⟨calcPhase (x.el (i + a) (j + b)), by simp only [c, and_self, if_true]⟩
  · rw [gsProject_pad_window]

end numpyGS

/-! ### the maximum of a grid (ℝ) -/

theorem num_maxN (a b : ℝ) : Num.maxN a b = max a b := by
  simp only [Num.maxN]; split_ifs with h
  · exact (max_eq_right h.le).symm
  · exact (max_eq_left (not_lt.mp h)).symm

theorem foldl_ge_init {ι : Type} (g : ℝ → ι → ℝ) (hg : ∀ a k, a ≤ g a k) (l : List ι) (a : ℝ) : a ≤ l.foldl g a := by
  induction l generalizing a with
  | nil => exact le_refl _
  | cons k l ih => exact le_trans (hg a k) (ih _)

theorem foldl_ge_mem {ι : Type} (g : ℝ → ι → ℝ) (hg : ∀ a k, a ≤ g a k) (v : ι → ℝ) (hv : ∀ a k, v k ≤ g a k)
    (l : List ι) (a : ℝ) (k : ι) (hk : k ∈ l) : v k ≤ l.foldl g a := by
  induction l generalizing a with
  | nil => cases hk
  | cons k' l ih =>
    rcases List.mem_cons.mp hk with e | e
    · subst e; exact le_trans (hv a k) (foldl_ge_init g hg l _)
    · exact ih _ e

/-- every entry of an `R x C` grid is at most `torch.amax` of the grid -/
theorem le_gridMax (R C : Nat) (x : Fld ℝ) (i j : Nat) (hi : i < R) (hj : j < C) : x.el i j ≤ Fld.gridMax R C x := by
  unfold Fld.gridMax
  have inner_init : ∀ (acc : ℝ) (i : Nat), acc ≤ (List.range C).foldl (fun acc j => Num.maxN acc (x.el i j)) acc :=
    fun acc i => foldl_ge_init _ (fun a k => by rw [num_maxN]; exact le_max_left _ _) _ _
  refine foldl_ge_mem (fun acc i => (List.range C).foldl (fun acc j => Num.maxN acc (x.el i j)) acc) inner_init
    (fun i => x.el i j) ?_ (List.range R) _ i (List.mem_range.mpr hi)
  intro acc i'
  exact foldl_ge_mem (fun acc j => Num.maxN acc (x.el i' j)) (fun a k => by rw [num_maxN]; exact le_max_left _ _)
    (fun j => x.el i' j) (fun a k => by rw [num_maxN]; exact le_max_right _ _) (List.range C) acc j (List.mem_range.mpr hj)


/-- the generated loop of NumPy `gerchberg_saxton` carries a padded hologram whose shape is written `zero_pad(field.shape)` before a pass and
    `zero_pad(window)` after it: for even sides the two agree, so the generated `Fld.iterate` IS the source's loop -/
theorem gsNumpyN_loop_shape_invariant (a b : Nat) :
    gsNumpyNHologramShapeAfter (2 * a) (2 * b) = gsNumpyNHologramShapeBefore (2 * a) (2 * b) := by
  have h0 := gsWindowLen_rows_even a (2 * b)
  have h1 := gsWindowLen_cols_even (2 * a) b
  simp only [gsPadRows, gsPadCols] at h0 h1
  simp only [gsNumpyNHologramShapeAfter, gsNumpyNHologramShapeBefore]
  push_cast at h0 h1 ⊢
  rw [h0, h1]

/-- ... for an odd side they do not (finding F30: the source raises in the first pass, when the `n x m` target is stored into a window of
    `2 (n / 2)` rows) -/
theorem gsNumpyN_loop_shape_odd : gsNumpyNHologramShapeAfter 3 3 ≠ gsNumpyNHologramShapeBefore 3 3 := by decide

end Odak
