import OdakProofs.Lemmas.GenPadCropBase

/-! Layout theorem of the regenerated torch `zero_pad` with `size = None` (`GenPC.torch_zero_pad_default`, regenerated from
    `odak/learn/tools/matrix.py`): for every documented rank / layout Python accepts the slice store, every side doubles, and the
    output element is the input element at the shifted index inside the window and 0 outside.  Any scalar type. -/
namespace Odak
open Tensor
set_option linter.unusedSectionVars false
set_option linter.unusedSimpArgs false
set_option linter.unusedVariables false
variable {α : Type} [Num α]

theorem torch_zero_pad_default_spec (L : Layout) (x : Tensor α) (k c h w : Nat) (hs : x.shape = L.shape k c h w)
    (ha : L.Accepts c w) :
    GenPC.torch_zero_pad_default_ok x = true ∧
    (GenPC.torch_zero_pad_default x).shape = L.shape k c (2 * h) (2 * w) ∧
    ∀ b ch i j, b < k → ch < c → i < 2 * h → j < 2 * w →
      (GenPC.torch_zero_pad_default x).get (L.idx b ch i j) =
        if (2 * h / 2 - h / 2 ≤ i ∧ i < 2 * h / 2 - h / 2 + h) ∧ (2 * w / 2 - w / 2 ≤ j ∧ j < 2 * w / 2 - w / 2 + w) then
          x.get (L.idx b ch (i - (2 * h / 2 - h / 2)) (j - (2 * w / 2 - w / 2))) else Num.ofNat 0 := by
  cases L
  case bhwc =>
    have hc : c < 5 := by simpa [Layout.Accepts] using ha
    refine ⟨?_, ?_, ?_⟩
    · padcrop_simp [GenPC.torch_zero_pad_default_ok, hs, hc]
      omega
    · padcrop_simp [GenPC.torch_zero_pad_default, hs, hc]
    · intro b ch i j hb hch hi hj
      padcrop_simp [GenPC.torch_zero_pad_default, hs, hc]
      padcrop_finish
  all_goals
    have hw : ¬ w < 5 := by simpa [Layout.Accepts] using ha
    refine ⟨?_, ?_, ?_⟩
    · padcrop_simp [GenPC.torch_zero_pad_default_ok, hs, hw]
      omega
    · padcrop_simp [GenPC.torch_zero_pad_default, hs, hw]
    · intro b ch i j hb hch hi hj
      padcrop_simp [GenPC.torch_zero_pad_default, hs, hw]
      padcrop_finish

end Odak
