import OdakProofs.Lemmas.GenStatsMaps2

/-!
  # Tie theorems (3): `MetamericLossUniform.calc_statsmaps` REGENERATED statement by statement against its cache-free reference; call lists
  of `calc_statsmaps` (both classes); the regenerated method as the `statsCore` of the regenerated `__call__`
-/
set_option linter.unusedVariables false
set_option linter.unusedSimpArgs false
set_option linter.unusedSectionVars false
set_option linter.unusedTactic false
set_option linter.unreachableTactic false

namespace Odak
open Odak.Gen
variable {T G R Shape Sub : Type} [DecidableEq G] [DecidableEq R] [DecidableEq Shape]

/-! ### `MetamericLossUniform.calc_statsmaps` -/

theorem gen_uFindStats_eq (E : GazeOps T G R Shape Sub) (S : StatsOps T R Shape) (cfg : MetamericLossUniformCfg R) (lvl : T) (ps : R) :
    metamericLossUniformCalcStatsmapsFindStatsG E S cfg lvl ps = uFindStatsRef E S lvl ps := by
  by_cases h1 : S.anyNan (S.uniformBlur lvl ps) = true
  · simp [metamericLossUniformCalcStatsmapsFindStatsG, uFindStatsRef, h1]
  by_cases h2 : S.anyNan (S.sqrt (S.fillWhereLt (E.sub (S.uniformBlur (E.mul lvl lvl) ps)
      (E.mul (S.uniformBlur lvl ps) (S.uniformBlur lvl ps))) (E.lit "1e-07") (E.lit "1e-07"))) = true
  · simp [metamericLossUniformCalcStatsmapsFindStatsG, uFindStatsRef, h1, h2]
  · simp [metamericLossUniformCalcStatsmapsFindStatsG, uFindStatsRef, h1, h2]

/-- loop-carried variables of the generated text (object, log, means, deviations, statistics so far, pooling size) against those of the
    reference (statistics so far, pooling size): the loops touch neither the object nor the log -/
def ULoopRel (self0 : MetamericLossUniformStatsSelf T G R Shape Sub) (log0 : List String)
    (st : MetamericLossUniformStatsSelf T G R Shape Sub × List String × T × T × List T × R) (rst : List T × R) : Prop :=
  st.1 = self0 ∧ st.2.1 = log0 ∧ st.2.2.2.2.1 = rst.1 ∧ st.2.2.2.2.2 = rst.2

theorem gen_uInner_rel (E : GazeOps T G R Shape Sub) (S : StatsOps T R Shape) (cfg : MetamericLossUniformCfg R) (pyr : List (PyrLevel T))
    (l : Nat) (self0 : MetamericLossUniformStatsSelf T G R Shape Sub) (log0 : List String)
    (st : MetamericLossUniformStatsSelf T G R Shape Sub × List String × T × T × List T × R) (rst : List T × R) (o : Nat)
    (h : ULoopRel self0 log0 st rst) :
    OptRel (ULoopRel self0 log0) (metamericLossUniformCalcStatsmapsFor1For1G E S cfg pyr l st o) (uInnerRef E S pyr l rst o) := by
  obtain ⟨self_, log_, mn, vr, os', ps⟩ := st
  obtain ⟨ros, rps⟩ := rst
  obtain ⟨h1, h2, h3, h4⟩ := h
  simp only at h1 h2 h3 h4
  subst h1 h2 h3 h4
  cases e1 : pyr[l]? with
  | none => simp [metamericLossUniformCalcStatsmapsFor1For1G, uInnerRef, e1, OptRel]
  | some lv =>
  cases e2 : lv.b with
  | none => simp [metamericLossUniformCalcStatsmapsFor1For1G, uInnerRef, e1, e2, OptRel]
  | some bands =>
  cases e3 : bands[o]? with
  | none => simp [metamericLossUniformCalcStatsmapsFor1For1G, uInnerRef, e1, e2, e3, OptRel]
  | some x =>
  cases e4 : uFindStatsRef E S x ps with
  | none => simp [metamericLossUniformCalcStatsmapsFor1For1G, uInnerRef, e1, e2, e3, gen_uFindStats_eq, e4, OptRel]
  | some v => simp [metamericLossUniformCalcStatsmapsFor1For1G, uInnerRef, e1, e2, e3, gen_uFindStats_eq, e4, OptRel, ULoopRel]

theorem gen_uOuter_rel (E : GazeOps T G R Shape Sub) (S : StatsOps T R Shape) (cfg : MetamericLossUniformCfg R) (pyr : List (PyrLevel T))
    (self0 : MetamericLossUniformStatsSelf T G R Shape Sub) (log0 : List String)
    (st : MetamericLossUniformStatsSelf T G R Shape Sub × List String × T × T × List T × R) (rst : List T × R) (l : Nat)
    (h : ULoopRel self0 log0 st rst) :
    OptRel (ULoopRel self0 log0) (metamericLossUniformCalcStatsmapsFor1G E S cfg pyr st l) (uOuterRef E S pyr rst l) := by
  cases e1 : pyr[l]? with
  | none => simp [metamericLossUniformCalcStatsmapsFor1G, uOuterRef, e1, OptRel]
  | some lv =>
  cases e2 : lv.b with
  | none => simp [metamericLossUniformCalcStatsmapsFor1G, uOuterRef, e1, e2, OptRel]
  | some bands =>
  have hfold := foldlM_optRel _ _ _ (fun s r i hr => gen_uInner_rel E S cfg pyr l self0 log0 s r i hr) (List.range bands.length) st rst h
  obtain ⟨self_, log_, mn, vr, os', ps⟩ := st
  cases e3 : (List.range bands.length).foldlM (uInnerRef E S pyr l) rst with
  | none =>
    have e4 := (OptRel.none_iff hfold).2 e3
    simp [metamericLossUniformCalcStatsmapsFor1G, uOuterRef, e1, e2, e3, e4, OptRel]
  | some rst' =>
    obtain ⟨st', e4, hr1, hr2, hr3, hr4⟩ := OptRel.of_some hfold e3
    obtain ⟨self', log', mn', vr', os3, ps3⟩ := st'
    obtain ⟨ros', rps'⟩ := rst'
    simp only at hr1 hr2 hr3 hr4
    subst hr1 hr2 hr3 hr4
    simp [metamericLossUniformCalcStatsmapsFor1G, uOuterRef, e1, e2, e3, e4, OptRel, ULoopRel]

theorem gen_uCalcStatsmapsK1_rel (E : GazeOps T G R Shape Sub) (S : StatsOps T R Shape) (cfg : MetamericLossUniformCfg R) (device : Nat)
    (self_ : MetamericLossUniformStatsSelf T G R Shape Sub) (log_ : List String) (image : T) (ps : Nat) (pm : SpatialSteerablePyramidSelf)
    (hpm : self_.pyramid_maker = some pm) :
    OptRel (fun r v => r.1 = self_ ∧ r.2.1 = v)
      (metamericLossUniformCalcStatsmapsFullK1G E S cfg device self_ log_ image ps) (uStatsRefTail E S cfg pm image ps) := by
  have hK : ∀ pyr, S.constructPyramid pm image cfg.n_pyramid_levels = pyr →
      OptRel (fun r v => r.1 = self_ ∧ r.2.1 = v)
        (metamericLossUniformCalcStatsmapsFullK1G E S cfg device self_ log_ image ps) (uStatsRefTail E S cfg pm image ps) := by
    intro pyr hp
    cases e1 : pyr[0]? with
    | none => (step_simp [metamericLossUniformCalcStatsmapsFullK1G, uStatsRefTail, hpm, hp, e1]) <;> simp [OptRel]
    | some lv0 =>
    cases e2 : lv0.h with
    | none => (step_simp [metamericLossUniformCalcStatsmapsFullK1G, uStatsRefTail, hpm, hp, e1, e2]) <;> simp [OptRel]
    | some h =>
    cases e3 : uFindStatsRef E S h (S.ofNat ps) with
    | none => (step_simp [metamericLossUniformCalcStatsmapsFullK1G, uStatsRefTail, hpm, hp, e1, e2, gen_uFindStats_eq, e3]) <;> simp [OptRel]
    | some rv =>
    have hfold := foldlM_optRel _ _ _ (fun s r i hr => gen_uOuter_rel E S cfg pyr self_ log_ s r i hr) (List.range (pyr.length - 1))
      (self_, log_, rv.1, rv.2, [rv.1, rv.2], S.ofNat ps) ([rv.1, rv.2], S.ofNat ps) ⟨rfl, rfl, rfl, rfl⟩
    cases e4 : (List.range (pyr.length - 1)).foldlM (uOuterRef E S pyr) ([rv.1, rv.2], S.ofNat ps) with
    | none =>
      have e5 := (OptRel.none_iff hfold).2 e4
      (step_simp [metamericLossUniformCalcStatsmapsFullK1G, uStatsRefTail, hpm, hp, e1, e2, gen_uFindStats_eq, e3, e4, e5]) <;> simp [OptRel]
    | some rst =>
      obtain ⟨st', e5, hr1, hr2, hr3, hr4⟩ := OptRel.of_some hfold e4
      obtain ⟨self', log', mn', vr', os3, ps'⟩ := st'
      obtain ⟨ros, rps⟩ := rst
      simp only at hr1 hr2 hr3 hr4
      subst hr1 hr2 hr3 hr4
      cases e6 : pyLast pyr with
      | none => (step_simp [metamericLossUniformCalcStatsmapsFullK1G, uStatsRefTail, hpm, hp, e1, e2, gen_uFindStats_eq, e3, e4, e5, e6]) <;> simp [OptRel]
      | some last =>
        cases e7 : last.l with
        | none =>
          (step_simp [metamericLossUniformCalcStatsmapsFullK1G, uStatsRefTail, hpm, hp, e1, e2, gen_uFindStats_eq, e3, e4, e5, e6, e7]) <;> simp [OptRel]
        | some ll =>
          (step_simp [metamericLossUniformCalcStatsmapsFullK1G, uStatsRefTail, hpm, hp, e1, e2, gen_uFindStats_eq, e3, e4, e5, e6, e7]) <;> simp [OptRel]
  exact hK _ rfl

/-- the sub-object of a `MetamericLossUniform` is consistent: the pyramid maker (if any) was built by the constructor call of
    `calc_statsmaps` for SOME channel count / orientations / device -/
def UStatsInv (s : MetamericLossUniformStatsSelf T G R Shape Sub) : Prop :=
  ∀ p, s.pyramid_maker = some p → ∃ c o d, spatialSteerablePyramidInitG false c 5 o "cropped" d = some p

/-- **the regenerated `MetamericLossUniform.calc_statsmaps` against the cache-free reference** (any configuration, any device, any pyramid
    maker left by an earlier call): raises exactly when the reference raises, otherwise returns the reference's statistics and leaves the
    pyramid maker a new object would build -/
theorem gen_metamericLossUniformCalcStatsmapsFullG_rel (E : GazeOps T G R Shape Sub) (S : StatsOps T R Shape) (cfg : MetamericLossUniformCfg R)
    (device : Nat) (self_ : MetamericLossUniformStatsSelf T G R Shape Sub) (hs : UStatsInv self_) (image : T) (ps : Nat) :
    OptRel (fun r v => UStatsInv r.1 ∧ r.1.pyramid_maker = some v.2 ∧ r.2.1 = v.1)
      (metamericLossUniformCalcStatsmapsFullG E S cfg device self_ image ps) (uStatsRef E S cfg device image ps) := by
  have wrap : ∀ (pm : SpatialSteerablePyramidSelf) (s1 : MetamericLossUniformStatsSelf T G R Shape Sub)
      (x : Option (MetamericLossUniformStatsSelf T G R Shape Sub × List T × List String)),
      statsMaker E cfg.n_orientations device image = some pm → s1.pyramid_maker = some pm →
      OptRel (fun r v => r.1 = s1 ∧ r.2.1 = v) x (uStatsRefTail E S cfg pm image ps) →
      OptRel (fun r v => UStatsInv r.1 ∧ r.1.pyramid_maker = some v.2 ∧ r.2.1 = v.1) x (uStatsRef E S cfg device image ps) := by
    intro pm s1 x hmk hs1 hx
    simp only [uStatsRef, hmk, Option.bind_eq_bind, Option.bind_some]
    cases ht : uStatsRefTail E S cfg pm image ps with
    | none =>
      have := (OptRel.none_iff hx).2 ht
      simp [this, OptRel]
    | some v =>
      obtain ⟨r, er, hr1, hr2⟩ := OptRel.of_some hx ht
      subst er
      simp only [Option.bind_some, Option.pure_def, OptRel]
      subst hr1
      exact ⟨fun p hp => ⟨_, _, _, by rw [hs1] at hp; cases hp; exact hmk⟩, hs1, hr2⟩
  obtain ⟨pmo⟩ := self_
  cases pmo with
  | none =>
    cases hmk : statsMaker E cfg.n_orientations device image with
    | none =>
      have hmk' := hmk
      simp only [statsMaker] at hmk'
      simp [metamericLossUniformCalcStatsmapsFullG, uStatsRef, hmk, hmk', OptRel]
    | some pm =>
      have hmk' := hmk
      simp only [statsMaker] at hmk'
      refine wrap pm _ _ hmk rfl ?_
      simp only [metamericLossUniformCalcStatsmapsFullG, Option.isNone_none, if_true, Option.pure_def, Option.bind_eq_bind, Option.bind_some, hmk']
      exact gen_uCalcStatsmapsK1_rel E S cfg device _ _ image ps pm rfl
  | some p =>
    obtain ⟨c, o, d0, hp⟩ := hs p rfl
    obtain ⟨hp1, hdev, hband, hh0, t, ht⟩ := gen_pyramidMaker_accessors c o d0 p hp
    have refresh : OptRel (fun r v => UStatsInv r.1 ∧ r.1.pyramid_maker = some v.2 ∧ r.2.1 = v.1)
        ((spatialSteerablePyramidInitG false (E.channels image) 5 cfg.n_orientations "cropped" device).bind fun r_8 =>
          metamericLossUniformCalcStatsmapsFullK1G E S cfg device { pyramid_maker := some r_8 } ["pyramid_maker"] image ps)
        (uStatsRef E S cfg device image ps) := by
      cases hmk : statsMaker E cfg.n_orientations device image with
      | none =>
        have hmk' := hmk
        simp only [statsMaker] at hmk'
        simp [uStatsRef, hmk, hmk', OptRel]
      | some pm =>
        have hmk' := hmk
        simp only [statsMaker] at hmk'
        refine wrap pm _ _ hmk rfl ?_
        simp only [hmk', Option.bind_some]
        exact gen_uCalcStatsmapsK1_rel E S cfg device _ _ image ps pm rfl
    by_cases h1 : d0 = device
    case neg => simpa [metamericLossUniformCalcStatsmapsFullG, hdev, h1] using refresh
    by_cases h2 : o = cfg.n_orientations
    case neg => simpa [metamericLossUniformCalcStatsmapsFullG, hdev, h1, hband, h2] using refresh
    by_cases h3 : c = E.channels image
    case neg => simpa [metamericLossUniformCalcStatsmapsFullG, hdev, h1, hband, h2, hh0, h3] using refresh
    subst h1 h2 h3
    have hmk : statsMaker E cfg.n_orientations d0 image = some p := hp
    refine wrap p _ _ hmk rfl ?_
    simp only [metamericLossUniformCalcStatsmapsFullG, Option.isNone_some, Bool.false_eq_true, if_false, Option.pure_def, Option.bind_eq_bind,
      Option.bind_some, hdev, hband, hh0, ne_eq, not_true_eq_false, decide_false]
    exact gen_uCalcStatsmapsK1_rel E S cfg d0 _ _ image ps p rfl

/-! ### call lists of `calc_statsmaps` -/

/-- if every call from a consistent state raises exactly when the documented value `f x` is undefined, otherwise returns `f x` and leaves a
    consistent state, then a call list returns the documented values up to the first call whose documented value is undefined, and raises
    there (induction over the list) -/
theorem runSteps_optRel {S X Y : Type} (step : S → X → Option (S × Y)) (f : X → Option Y) (Inv : S → Prop)
    (h : ∀ s x, Inv s → OptRel (fun r v => Inv r.1 ∧ r.2 = v) (step s x) (f x)) :
    ∀ (xs : List X) (s : S), Inv s → OptRel (fun r vs => Inv r.1 ∧ r.2 = vs) (runSteps step s xs) (xs.mapM f) := by
  intro xs
  induction xs with
  | nil => intro s hs; simpa [runSteps, OptRel] using hs
  | cons x rest ih =>
    intro s hs
    have h1 := h s x hs
    cases e1 : f x with
    | none =>
      have e2 := (OptRel.none_iff h1).2 e1
      simp [runSteps, e1, e2, OptRel]
    | some y =>
      obtain ⟨r, e2, hr, hy⟩ := OptRel.of_some h1 e1
      have h2 := ih r.1 hr
      cases e3 : rest.mapM f with
      | none =>
        have e4 := (OptRel.none_iff h2).2 e3
        simp [runSteps, e1, e2, e3, e4, OptRel]
      | some ys =>
        obtain ⟨q, e4, hq, hys⟩ := OptRel.of_some h2 e3
        simp [runSteps, e1, e2, e3, e4, OptRel, hq, hy, hys]

theorem gen_statsStep_rel (E : GazeOps T G R Shape Sub) (S : StatsOps T R Shape) (s : MetamericLossStatsSelf T G R Shape Sub)
    (hs : StatsInv E s) (c : StatsCall T G R) :
    OptRel (fun r v => StatsInv E r.1 ∧ r.2 = v) (statsStep E S s c) (statsFresh E S c) := by
  have h := gen_metamericLossCalcStatsmapsFullG_rel E S c.cfg c.device s hs c.image c.gaze c.alpha c.real_image_width c.real_viewing_distance
    c.mode c.equi
  unfold statsStep statsFresh
  cases e1 : statsRef E S c.cfg c.device c.image c.gaze c.alpha c.real_image_width c.real_viewing_distance c.mode with
  | none =>
    have e2 := (OptRel.none_iff h).2 e1
    simp [e2, OptRel]
  | some v =>
    obtain ⟨r, e2, hr1, _, hr2, _⟩ := OptRel.of_some h e1
    simp [e2, OptRel, hr1, hr2]

theorem gen_uStatsStep_rel (E : GazeOps T G R Shape Sub) (S : StatsOps T R Shape) (s : MetamericLossUniformStatsSelf T G R Shape Sub)
    (hs : UStatsInv s) (c : UStatsCall T R) :
    OptRel (fun r v => UStatsInv r.1 ∧ r.2 = v) (uStatsStep E S s c) (uStatsFresh E S c) := by
  have h := gen_metamericLossUniformCalcStatsmapsFullG_rel E S c.cfg c.device s hs c.image c.pooling_size
  unfold uStatsStep uStatsFresh
  cases e1 : uStatsRef E S c.cfg c.device c.image c.pooling_size with
  | none =>
    have e2 := (OptRel.none_iff h).2 e1
    simp [e2, OptRel]
  | some v =>
    obtain ⟨r, e2, hr1, _, hr2⟩ := OptRel.of_some h e1
    simp [e2, OptRel, hr1, hr2]

/-! ### the regenerated `calc_statsmaps` as `statsCore`: the hypothesis `hcore` of `GenStateMachines*.lean`, proved -/

/-- `hcore` for `MetamericLoss` (any configuration, any foveation arguments): from consistent sub-objects the regenerated `calc_statsmaps`
    leaves consistent sub-objects and returns (statistics, fovea mask) of a NEW object - `statsNew`, `maskNew` -/
theorem fullStatsCore_spec (E : GazeOps T G R Shape Sub) (S : StatsOps T R Shape) (device : Nat) (cfg : MetamericLossCfg R)
    (sub : MetamericLossStatsSelf T G R Shape Sub × List String) (hs : StatsInv E sub.1) (x : T) (g : G) (a w d : R) (m : String) :
    StatsInv E (fullStatsCore E S device cfg sub x g a w d m).1.1 ∧
      (fullStatsCore E S device cfg sub x g a w d m).2 = (statsNew E S cfg device a w d m x g, maskNew E S cfg device a w d m x g) ∧
      (∀ v, statsRef E S cfg device x g a w d m = some v → (fullStatsCore E S device cfg sub x g a w d m).1.1.pyramid_maker = some v.2.2) := by
  have h := gen_metamericLossCalcStatsmapsFullG_rel E S cfg device sub.1 hs x g a w d m false
  unfold fullStatsCore statsNew maskNew
  cases e1 : statsRef E S cfg device x g a w d m with
  | none =>
    have e2 := (OptRel.none_iff h).2 e1
    simp [e2, hs]
  | some v =>
    obtain ⟨r, e2, hr1, hr2, hr3, hr4⟩ := OptRel.of_some h e1
    cases e3 : cfg.use_l2_foveal_loss
    · simp [e2, hr1, hr2, hr3, e3]
    · simp [e2, hr1, hr2, hr3, e3, hr4 e3]

theorem fullUniformStatsCore_spec (E : GazeOps T G R Shape Sub) (S : StatsOps T R Shape) (device : Nat) (cfg : MetamericLossUniformCfg R)
    (sub : MetamericLossUniformStatsSelf T G R Shape Sub × List String) (hs : UStatsInv sub.1) (x : T) (ps : Nat) :
    UStatsInv (fullUniformStatsCore E S device cfg sub x ps).1.1 ∧
      (fullUniformStatsCore E S device cfg sub x ps).2 = uStatsNew E S cfg device ps x := by
  have h := gen_metamericLossUniformCalcStatsmapsFullG_rel E S cfg device sub.1 hs x ps
  unfold fullUniformStatsCore uStatsNew
  cases e1 : uStatsRef E S cfg device x ps with
  | none =>
    have e2 := (OptRel.none_iff h).2 e1
    simp [e2, hs]
  | some v =>
    obtain ⟨r, e2, hr1, hr2, hr3⟩ := OptRel.of_some h e1
    simp [e2, hr1, hr3]

end Odak
