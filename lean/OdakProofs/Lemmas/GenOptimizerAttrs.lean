import OdakModel.AttrFlow
import OdakModel.Generated.OptimizerAttrs

/-!
  # The attribute flow of `multi_color_hologram_optimizer`, regenerated from the Python source, against the reviewed tables

  `OdakModel/Generated/OptimizerAttrs.lean` is rewritten on every run by `harness/translate/optattrs.py` from the current
  `odak/learn/wave/optimizers.py` (attribute stores, in-place writes, reads and calls per method; the event trace of one `optimize` call).
  Every theorem is a kernel evaluation (`decide`) over those tables: a new attribute, a store that becomes conditional, a read that moves
  before its store, another tensor handed to the optimiser, another argument of the final `reconstruct`: the tables change and the
  evaluation gives `false`.
-/
namespace Odak
open Gen

/-- the only attribute one `optimize` call assigns is the torch optimiser, unconditionally, before anything touches it -/
theorem gen_optimize_writes : attrsWritten optimizeTrace = ["optimizer"] := by decide

/-- nothing that `optimize` assigns is touched before it is assigned: no attribute written by an earlier `optimize` call is read -/
theorem gen_optimize_no_stale_read : noStaleRead optimizeTrace = true := by decide

/-- what persists from one `optimize` call to the next are the tensors handed to the optimiser (updated in place by `optimizer.step()`), the
    peak amplitude (written in place) - and nothing `optimize` would re-initialise: `init_phase`, `init_channel_power`, `init_amplitude` are
    called by `__init__` only -/
theorem gen_optimize_variables :
    optimizeVariables = [("attr:phase", "always"), ("attr:offset", "always"), ("attr:peak_amplitude", "conditional"),
      ("attr:propagator.channel_power", "conditional")] ∧ attrsInPlace optimizeTrace = ["peak_amplitude"] ∧
    optOptimizeCalls = ["init_optimizer", "gradient_descent"] ∧ optGradientDescentCalls = ["double_phase_constrain", "direct_phase_constrain", "evaluate"] ∧
    optInitOptimizerCalls = [] ∧ optEvaluateCalls = [] ∧ optDoublePhaseConstrainCalls = [] ∧ optDirectPhaseConstrainCalls = [] := by decide

/-- the methods called on attribute objects during one `optimize` call -/
theorem gen_optimize_attr_calls :
    optimizeTraceAttrCalls = ["peak_amplitude.item", "optimizer.zero_grad", "propagator.get_laser_powers", "propagator", "l2_loss", "loss_function",
      "optimizer.step", "propagator.reconstruct"] := by decide

/-- every attribute `__init__` (with its helpers) assigns; `evaluate`, the two phase constraints, `gradient_descent` and `optimize` itself
    assign none -/
theorem gen_optimizer_writes_per_method :
    attrsWritten optInitTrace = ["device", "wavelengths", "resolution", "targets", "scale_factor", "propagator", "learning_rate", "learning_rate_floor",
      "number_of_channels", "number_of_frames", "number_of_depth_layers", "double_phase", "channel_power_filename", "method", "peak_amplitude",
      "optimize_peak_amplitude", "img_loss_thres", "kernels", "phase", "offset", "channel_power", "l2_loss", "loss_type", "loss_function", "amplitude",
      "phase_scale"] ∧
    optEvaluateWrites = [] ∧ optDoublePhaseConstrainWrites = [] ∧ optDirectPhaseConstrainWrites = [] ∧ optGradientDescentWrites = [] ∧
    optOptimizeWrites = [] ∧ optInitOptimizerWrites = ["optimizer"] := by decide

/-- the returned tuple: the hologram (a local), the reconstruction (the result of `propagator.reconstruct` called with THAT local as its
    only argument, bound to a local), and neither of the two is assigned again before the `return` -/
theorem gen_optimize_returns :
    optimizeReturns = ["local:hologram_phases", "local:reconstruction_intensities", "local:laser_powers", "local:channel_powers", "float:attr:peak_amplitude"] ∧
    optimizeReconstructArg = "local:hologram_phases" ∧ optimizeReconstructResult = "local:reconstruction_intensities" ∧
    optimizeAssignedAfterReconstruct = ["laser_powers", "channel_powers"] := by decide

end Odak
