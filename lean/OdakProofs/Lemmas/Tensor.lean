import OdakModel.TensorPrelude
import OdakProofs.Lemmas.Colour

/-! Facts about the tensor vocabulary of `OdakModel/TensorPrelude.lean`: `unravel` inverts `ravel` inside the shape (so reading a
    reshaped tensor means "same row-major position"), broadcasting of an in-range index, the integer held by a float. -/
namespace Odak
namespace Tensor

/-- every index below its size (lists of equal length) -/
def InR : List Nat → List Nat → Prop
  | [], [] => True
  | s :: ss, i :: is => i < s ∧ InR ss is
  | _, _ => False

theorem ravel_lt : ∀ (s idx : List Nat), InR s idx → ravel s idx < prod s
  | [], [], _ => by simp [ravel, prod]
  | s :: ss, i :: is, h => by
    obtain ⟨h1, h2⟩ := h
    have := ravel_lt ss is h2
    simp only [ravel, prod]
    calc i * prod ss + ravel ss is < i * prod ss + prod ss := by omega
      _ = (i + 1) * prod ss := by ring
      _ ≤ s * prod ss := Nat.mul_le_mul_right _ h1
  | [], _ :: _, h => by simp [InR] at h
  | _ :: _, [], h => by simp [InR] at h

theorem unravel_ravel : ∀ (s idx : List Nat), InR s idx → unravel s (ravel s idx) = idx
  | [], [], _ => by simp [unravel]
  | s :: ss, i :: is, h => by
    obtain ⟨h1, h2⟩ := h
    have hlt := ravel_lt ss is h2
    have hpos : 0 < prod ss := by omega
    simp only [ravel, unravel]
    rw [Nat.add_comm, Nat.add_mul_div_right _ _ hpos, Nat.div_eq_of_lt hlt, Nat.zero_add,
      Nat.add_mul_mod_self_right, Nat.mod_eq_of_lt hlt, unravel_ravel ss is h2]
  | [], _ :: _, h => by simp [InR] at h
  | _ :: _, [], h => by simp [InR] at h

/-- reading a reshaped tensor: any in-range multi-index of the old shape with the same row-major position -/
theorem unravel_of_ravel_eq {s s' idx idx' : List Nat} (h : ravel s idx = ravel s' idx') (hr : InR s' idx') :
    unravel s' (ravel s idx) = idx' := by
  rw [h, unravel_ravel _ _ hr]

theorem lt_mul_of_lt {i j m n : Nat} (hi : i < m) (hj : j < n) : i * n + j < m * n :=
  calc i * n + j < i * n + n := by omega
    _ = (i + 1) * n := by ring
    _ ≤ m * n := Nat.mul_le_mul_right _ hi

theorem bsel_of_lt {d i : Nat} (h : i < d) : bsel d i = i := by
  unfold bsel; split <;> omega
@[simp] theorem bsel_one (i : Nat) : bsel 1 i = 0 := by simp [bsel]
@[simp] theorem bsel_three (i : Nat) : bsel 3 i = i := by simp [bsel]


/-! ### reductions over three channels are the hand-written `max3` / `min3` / `argmax3` -/

theorem maxFrom_two (f : Nat → ℝ) : maxFrom f 2 = max3 ⟨f 0, f 1, f 2⟩ := rfl
theorem minFrom_two (f : Nat → ℝ) : minFrom f 2 = min3 ⟨f 0, f 1, f 2⟩ := rfl
theorem argmaxFrom_two (f : Nat → ℝ) : argmaxFrom f 2 = argmax3 ⟨f 0, f 1, f 2⟩ := by
  show (if (if f 0 < f 1 then f 1 else f 0) < f 2 then 2 else if f 0 < f 1 then 1 else 0) = _
  unfold argmax3
  by_cases h1 : f 0 < f 1 <;> by_cases h2 : f 1 < f 2 <;> by_cases h3 : f 0 < f 2 <;> simp [h1, h2, h3]
theorem argmax3_lt (c : Vec3 ℝ) : argmax3 c < 3 := by
  unfold argmax3; split_ifs <;> omega

/-- reading one tensor of a list: read every tensor, then pick -/
theorem getD_get {α : Type} (l : List (Tensor α)) (n : Nat) (d : Tensor α) (idx : List Nat) :
    (l[n]?.getD d).get idx = ((l.map (fun t => t.get idx))[n]?.getD (d.get idx)) := by
  induction l generalizing n with
  | nil => simp
  | cons x xs ih =>
    cases n with
    | zero => rfl
    | succ n => simp only [List.getElem?_cons_succ, List.map_cons]; exact ih n

theorem ite_shape {α : Type} (c : Prop) [Decidable c] (a b : Tensor α) : (if c then a else b).shape = if c then a.shape else b.shape := by
  split <;> rfl
theorem ite_get {α : Type} (c : Prop) [Decidable c] (a b : Tensor α) (idx : List Nat) :
    (if c then a else b).get idx = if c then a.get idx else b.get idx := by
  split <;> rfl
@[simp] theorem bmax_one_left (d : Nat) : bmax 1 d = d := by simp [bmax]
/-- an axis of length `d` broadcast against an axis of length 1 -/
@[simp] theorem bmax_one_right (d : Nat) : bmax d 1 = d := by
  unfold bmax; split <;> simp_all
@[simp] theorem bmax_self (d : Nat) : bmax d d = d := by simp [bmax]

theorem select_and_eq (a b : ℝ) : (decide (a ≤ b) && decide (b ≤ a)) = decide (a = b) := by
  rw [← Bool.decide_and]; exact decide_eq_decide.mpr le_antisymm_iff.symm

/-! ### the integer held by a float -/

theorem natOf_spec (x : ℝ) (N : ℕ) (hx : x = N) : ∀ fuel k : ℕ, k ≤ N → N < k + fuel → natOf x fuel k = N
  | 0, k, h1, h2 => by omega
  | fuel + 1, k, h1, h2 => by
    unfold natOf
    by_cases h : x < Num.ofNat (k + 1)
    · rw [if_pos h]
      rw [hx, num_ofNat] at h
      have : N < k + 1 := by exact_mod_cast h
      omega
    · rw [if_neg h]
      rw [hx, num_ofNat] at h
      have : ¬ (N < k + 1) := by intro h'; apply h; exact_mod_cast h'
      exact natOf_spec x N hx fuel (k + 1) (by omega) (by omega)

theorem trunc_natCast (n : ℕ) : Num.trunc (n : ℝ) = n := by
  unfold Num.trunc
  rw [if_neg (by simp)]
  simp

/-- `floor(x) % 6` is one of 0 … 5 -/
theorem fmod_floor_six (X : ℝ) : ∃ n : ℕ, n < 6 ∧ Num.fmod ((⌊X⌋ : ℤ) : ℝ) 6 = n := by
  have h6 : (0 : ℝ) < 6 := by norm_num
  refine ⟨(⌊X⌋ % 6).toNat, ?_, ?_⟩
  · have := Int.emod_lt_of_pos ⌊X⌋ (by norm_num : (0 : ℤ) < 6)
    have := Int.emod_nonneg ⌊X⌋ (by norm_num : (6 : ℤ) ≠ 0)
    omega
  · simp only [Num.fmod, num_floor]
    have e : ⌊((⌊X⌋ : ℤ) : ℝ) / 6⌋ = ⌊X⌋ / 6 := by
      have := Int.floor_div_natCast ((⌊X⌋ : ℤ) : ℝ) 6
      simpa using this
    rw [e]
    have hm := Int.emod_add_mul_ediv ⌊X⌋ 6
    have hnn := Int.emod_nonneg ⌊X⌋ (by norm_num : (6 : ℤ) ≠ 0)
    have : (((⌊X⌋ % 6).toNat : ℕ) : ℝ) = ((⌊X⌋ % 6 : ℤ) : ℝ) := by
      rw [← Int.cast_natCast, Int.toNat_of_nonneg hnn]
    rw [this]
    have h2 : ((⌊X⌋ : ℤ) : ℝ) = ((⌊X⌋ % 6 : ℤ) : ℝ) + 6 * ((⌊X⌋ / 6 : ℤ) : ℝ) := by
      exact_mod_cast hm.symm
    linarith

end Tensor

/-- normalises reads of the regenerated tensor-level definitions -/
macro "tensor_simp" "[" ts:Lean.Parser.Tactic.simpLemma,* "]" : tactic =>
  `(tactic| (simp [Tensor.pixel4, Tensor.pixel3, Tensor.pixelLast, Tensor.reshape, Tensor.reshapeInfer, Tensor.flatten, Tensor.unflatten,
      Tensor.matmul, Tensor.sumDim, Tensor.getAt, Tensor.ofFlat, Tensor.takeN, Tensor.bshape,
      Tensor.bidx, Tensor.padL, Tensor.dropN, Tensor.sumTo, Tensor.unsqueeze, Tensor.squeeze, Tensor.select, Tensor.narrow, Tensor.setSelect,
      Tensor.full, Tensor.zeros, Tensor.zerosLike, Tensor.onesLike, Tensor.scalar, Tensor.add, Tensor.sub, Tensor.mul, Tensor.div, Tensor.pow,
      Tensor.fmod, Tensor.floor, Tensor.long, Tensor.neg, Tensor.zipB, Tensor.map, Tensor.where_, Tensor.gt, Tensor.lt, Tensor.ge, Tensor.le,
      Tensor.eq, Tensor.clampMin, Tensor.nd, Tensor.insAt, Tensor.remAt, Tensor.setAt, Tensor.swapAt, Tensor.dim, Tensor.permute,
      Tensor.transpose, Tensor.tabulate, Tensor.posOf, Tensor.stack, Tensor.cat, Tensor.catGet, Tensor.catLen, Tensor.maxDim,
      Tensor.minDim, Tensor.argmaxDim, Tensor.argminDim, Tensor.gatherN, Tensor.gatherF, Tensor.maxFrom_two, Tensor.minFrom_two,
      Tensor.argmaxFrom_two, Tensor.getD_get, Tensor.bsel_of_lt, Tensor.ite_shape, Tensor.ite_get, Tensor.bmax_one_left, Tensor.bmax_one_right, Tensor.bmax_self, $ts,*] <;> (try simp [Tensor.ravel, Tensor.prod]) <;> try (solve | with_reducible rfl | congr)))

end Odak
