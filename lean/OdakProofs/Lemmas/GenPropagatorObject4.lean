import OdakProofs.Lemmas.GenPropagatorObject3

/-!
  # Tie theorems (4): the constructed propagator satisfies the invariant; every list of calls

  * `pInit_inv`: the object `__init__` builds satisfies `PInv` (a new flag buffer is all false: no slot is flagged), its cache buffers and its
    aperture are NEW objects, the caller's objects are untouched;
  * `propagator_step`: ONE call of any kind (`__call__`, `reconstruct`, `set_laser_powers`, `get_laser_powers`, `set_aperture`) from a state in
    which the invariant holds returns the value of the cache-free reference semantics `pRefStep`, re-establishes the invariant and writes no
    object that existed before the call except the two cache buffers;
  * `propagator_run`: hence so does every LIST of calls (induction over the list).
-/
set_option linter.unusedVariables false
set_option linter.unusedSimpArgs false
set_option linter.unusedSectionVars false

namespace Odak
open Gen
variable {T R : Type} [DecidableEq R]

/-- `h'` has every object of `h`, unchanged -/
def Heap.Ext (h h' : Heap T) : Prop := h.size ≤ h'.size ∧ ∀ l, l < h.size → h'.get l = h.get l

theorem Heap.Ext.refl (h : Heap T) : Heap.Ext h h := ⟨Nat.le_refl _, fun _ _ => rfl⟩
theorem Heap.Ext.trans {a b c : Heap T} (x : Heap.Ext a b) (y : Heap.Ext b c) : Heap.Ext a c :=
  ⟨Nat.le_trans x.1 y.1, fun l hl => by rw [y.2 l (Nat.lt_of_lt_of_le hl x.1), x.2 l hl]⟩
theorem Heap.Ext.alloc (h : Heap T) (v : T) : Heap.Ext h (h.alloc v).1 := ⟨by simp, fun l hl => Heap.get_alloc_of_lt hl v⟩
theorem Heap.Ext.get {h h' : Heap T} (x : Heap.Ext h h') {l : Nat} {v : T} (e : h.get l = some v) : h'.get l = some v := by
  rw [x.2 l (Heap.get_eq_some_lt e), e]

/-- **the constructed object satisfies the invariant**; the caller's objects are untouched, the cache buffers and the aperture are new -/
theorem pInit_inv (E : PropOps T R) (L : PropLaws E) (a : PropArgs T R) (h : Heap T) (o : PropObj T R) (h' : Heap T)
    (hi : pInit E a h = some (o, h')) (hp : ∀ p, a.laser_channel_power = some p → p < h.size) :
    ∃ dists ap cp, PInv E o h' dists ap cp ∧ Heap.Ext h h' ∧ h.size ≤ o.generated_kernels ∧ h.size ≤ o.kernels ∧ h.size ≤ o.aperture ∧
      (∀ d, a.distances = some d → o.distances = d ∧ h.get d = some dists) ∧
      (∀ p, a.laser_channel_power = some p → o.channel_power = p) := by
  unfold pInit at hi
  simp only [Option.bind_eq_bind] at hi
  -- distances
  cases hdres : pInitDistances E a h with
  | none => simp [hdres] at hi
  | some dres =>
  obtain ⟨h1, dl, nd⟩ := dres
  simp only [hdres, Option.bind_some] at hi
  have f1 : Heap.Ext h h1 ∧ ∃ dists, h1.get dl = some dists ∧ ∀ d, a.distances = some d → dl = d ∧ h.get d = some dists := by
    unfold pInitDistances at hdres
    cases hd : a.distances with
    | none =>
      simp only [hd, Option.some.injEq, Prod.mk.injEq] at hdres
      obtain ⟨rfl, rfl, rfl⟩ := hdres
      exact ⟨Heap.Ext.alloc _ _, _, Heap.get_alloc_self _ _, fun d hd' => by cases hd'⟩
    | some d =>
      simp only [hd] at hdres
      cases hg : h.get d with
      | none => simp [hg] at hdres
      | some dv =>
        simp only [hg, Option.map_some, Option.some.injEq, Prod.mk.injEq] at hdres
        obtain ⟨rfl, rfl, rfl⟩ := hdres
        exact ⟨Heap.Ext.refl _, dv, hg, fun d' hd' => by injection hd' with hd'; subst hd'; exact ⟨rfl, hg⟩⟩
  obtain ⟨e1, dists, hdl, hdist⟩ := f1
  cases h0 : a.resolution[0]? with
  | none => simp [h0] at hi
  | some r0 =>
  cases h1' : a.resolution[1]? with
  | none => simp [h0, h1'] at hi
  | some r1 =>
  simp only [h0, h1', Option.bind_some] at hi
  generalize hz1 : E.zeros [nd, (a.wavelengths.length : Int)] "" = Z1 at hi
  generalize hz2 : E.zeros [nd, (a.wavelengths.length : Int), r0 * a.rf * 2, r1 * a.rf * 2] "torch.complex64" = Z2 at hi
  -- channel powers
  have f4 : ∃ h4 cpl, pInitPowers E a.number_of_frames (a.wavelengths.length : Int) a.laser_channel_power ((h1.alloc Z1).1.alloc Z2).1 = (h4, cpl) ∧
      Heap.Ext ((h1.alloc Z1).1.alloc Z2).1 h4 ∧
      (∃ cp, h4.get cpl = some cp) ∧ cpl ≠ h1.size ∧ cpl ≠ h1.size + 1 ∧ (∀ p, a.laser_channel_power = some p → cpl = p) := by
    unfold pInitPowers
    cases hl : a.laser_channel_power with
    | none =>
      refine ⟨_, _, rfl, Heap.Ext.alloc _ _, ⟨_, Heap.get_alloc_self _ _⟩, ?_, ?_, fun p hp' => by cases hp'⟩
      · simp only [Heap.size_alloc]; omega
      · simp only [Heap.size_alloc]; omega
    | some p =>
      have hpl := hp p hl
      have := e1.1
      obtain ⟨cp, hcp⟩ := Heap.get_isSome_of_lt (h := ((h1.alloc Z1).1.alloc Z2).1) (l := p) (by simp only [Heap.size_alloc]; omega)
      exact ⟨_, _, rfl, Heap.Ext.refl _, ⟨cp, hcp⟩, by omega, by omega, fun p' hp' => by cases hp'; rfl⟩
  obtain ⟨h4, cpl, ec, e4, ⟨cp, hcp⟩, c1, c2, hcpl⟩ := f4
  simp only [ec] at hi
  cases hap : h4.getOpt a.aperture with
  | none => simp [hap] at hi
  | some apv =>
  cases hav : pApertureValue E a.resolution a.rf apv a.aperture_size with
  | none => simp [hap, hav] at hi
  | some av =>
  simp only [hap, hav, Option.bind_some, Option.some.injEq, Prod.mk.injEq] at hi
  obtain ⟨rfl, rfl⟩ := hi
  have s2 : ((h1.alloc Z1).1.alloc Z2).1.size = h1.size + 2 := by simp only [Heap.size_alloc]
  have e12 : Heap.Ext h1 ((h1.alloc Z1).1.alloc Z2).1 := (Heap.Ext.alloc _ _).trans (Heap.Ext.alloc _ _)
  have e15 : Heap.Ext h1 (h4.alloc av).1 := e12.trans (e4.trans (Heap.Ext.alloc _ _))
  have e25 : Heap.Ext ((h1.alloc Z1).1.alloc Z2).1 (h4.alloc av).1 := e4.trans (Heap.Ext.alloc _ _)
  have hdllt := Heap.get_eq_some_lt hdl
  have hcplt := Heap.get_eq_some_lt hcp
  have s4 : h1.size + 2 ≤ h4.size := by have := e4.1; omega
  have gG : ((h1.alloc Z1).1.alloc Z2).1.get h1.size = some Z1 := by
    rw [Heap.get_alloc_of_lt (by simp only [Heap.size_alloc]; omega), Heap.get_alloc_self]
  have gK : ((h1.alloc Z1).1.alloc Z2).1.get (h1.alloc Z1).1.size = some Z2 := Heap.get_alloc_self _ _
  refine ⟨dists, av, cp, ⟨?_, ?_, ?_, ?_, ?_, ?_, ?_, ?_, ?_, ?_, ?_⟩, e1.trans e15, ?_, ?_, ?_, ?_, ?_⟩
  · exact e15.get hdl
  · exact Heap.get_alloc_self _ _
  · exact (Heap.Ext.alloc h4 av).get hcp
  · dsimp only; (try simp only [Heap.size_alloc]); omega
  · dsimp only; (try simp only [Heap.size_alloc]); omega
  · dsimp only; omega
  · dsimp only; (try simp only [Heap.size_alloc]); omega
  · dsimp only; (try simp only [Heap.size_alloc]); omega
  · dsimp only; (try simp only [Heap.size_alloc]); omega
  · exact c1
  · refine ⟨Z2, Z1, e25.get gK, e25.get gG, ?_⟩
    intro d c ht
    rw [← hz1, L.truthy_zeros] at ht
    cases ht
  · dsimp only; exact e1.1
  · dsimp only; (try simp only [Heap.size_alloc]); have := e1.1; omega
  · dsimp only; have := e1.1; omega
  · intro d hd
    exact hdist d hd
  · exact hcpl

end Odak
