import OdakProofs.Lemmas.Mat3
import OdakModel.Colour
import Mathlib.Analysis.SpecialFunctions.Exp
import Mathlib.Analysis.SpecialFunctions.Log.Basic
import Mathlib.Tactic.Positivity
import Mathlib.Tactic.IntervalCases

/-! Helper lemmas for C15 (colour conversions): real `exp (p · log x)` powers, the `maxN`/`minN`
    clamps, `fmod`, normal forms of the regenerated sRGB transfer functions. -/
namespace Odak
open Odak.Gen

/-! ### scalar helpers -/

theorem fmod_range' (x r : ℝ) (hr : 0 < r) : 0 ≤ Num.fmod x r ∧ Num.fmod x r < r := by
  simp only [Num.fmod, num_floor]
  have h1 := Int.floor_le (x / r)
  have h2 := Int.lt_floor_add_one (x / r)
  have e : x = r * (x / r) := by field_simp
  constructor
  · nlinarith
  · nlinarith

theorem powPos_real (x y : ℝ) : Num.powPos x y = Real.exp (y * Real.log x) := rfl

theorem maxN_real (a b : ℝ) : Num.maxN a b = max a b := by
  unfold Num.maxN
  split_ifs with h
  · exact (max_eq_right h.le).symm
  · exact (max_eq_left (not_lt.mp h)).symm

theorem minN_real (a b : ℝ) : Num.minN a b = min a b := by
  unfold Num.minN
  split_ifs with h
  · exact (min_eq_right h.le).symm
  · exact (min_eq_left (not_lt.mp h)).symm

theorem maxN_eq_left_of_lt {a b : ℝ} (h : b < a) : Num.maxN a b = a := by
  rw [maxN_real]; exact max_eq_left h.le

/-- `x ↦ x^p` (as `exp (p log x)`) is strictly increasing on `(0, ∞)` for `p > 0` -/
theorem rpow_model_lt {p a b : ℝ} (hp : 0 < p) (ha : 0 < a) (hab : a < b) :
    Real.exp (p * Real.log a) < Real.exp (p * Real.log b) := by
  apply Real.exp_lt_exp.mpr
  exact mul_lt_mul_of_pos_left (Real.log_lt_log ha hab) hp

/-- `(y^p)^q = y` when `p q = 1`, `y > 0` -/
theorem rpow_model_inv {p q y : ℝ} (hpq : q * p = 1) (hy : 0 < y) :
    Real.exp (q * Real.log (Real.exp (p * Real.log y))) = y := by
  rw [Real.log_exp, ← mul_assoc, hpq, one_mul, Real.exp_log hy]

/-- `(r^p)^n = r^m` when `n p = m` (natural `n`, `m`): turns comparisons of `exp (p log r)` with
    rationals into comparisons of rationals -/
theorem rpow_model_pow {p r : ℝ} (n m : ℕ) (hr : 0 < r) (h : (n : ℝ) * p = m) :
    Real.exp (p * Real.log r) ^ n = r ^ m := by
  rw [← Real.exp_nat_mul, ← mul_assoc, h, Real.exp_nat_mul, Real.exp_log hr]

/-- compare `r^p` with a positive number through integer powers -/
theorem rpow_model_lt_of_pow {p r b : ℝ} (n m : ℕ) (hr : 0 < r) (hb : 0 ≤ b)
    (h : (n : ℝ) * p = m) (hlt : r ^ m < b ^ n) : Real.exp (p * Real.log r) < b := by
  rw [← rpow_model_pow n m hr h] at hlt
  exact lt_of_pow_lt_pow_left₀ n hb hlt

theorem rpow_model_gt_of_pow {p r a : ℝ} (n m : ℕ) (hr : 0 < r)
    (h : (n : ℝ) * p = m) (hlt : a ^ n < r ^ m) : a < Real.exp (p * Real.log r) := by
  rw [← rpow_model_pow n m hr h] at hlt
  exact lt_of_pow_lt_pow_left₀ n (Real.exp_pos _).le hlt

/-- `|t^(1/3) − 1| ≤ |t − 1|` for `t > 0` -/
theorem cbrt_model_sub_one_le {t : ℝ} (ht : 0 < t) :
    |Real.exp ((1 / 3) * Real.log t) - 1| ≤ |t - 1| := by
  set u := Real.exp ((1 / 3) * Real.log t) with hu
  have hu0 : 0 < u := Real.exp_pos _
  have h3 : u ^ 3 = t := by
    have := rpow_model_pow (p := 1 / 3) 3 1 ht (by norm_num)
    rw [pow_one] at this; exact this
  have e : t - 1 = (u - 1) * (u ^ 2 + u + 1) := by rw [← h3]; ring
  rw [e, abs_mul]
  have h1 : 1 ≤ |u ^ 2 + u + 1| := by
    rw [abs_of_pos (by positivity)]; nlinarith
  calc |u - 1| = |u - 1| * 1 := (mul_one _).symm
    _ ≤ |u - 1| * |u ^ 2 + u + 1| := mul_le_mul_of_nonneg_left h1 (abs_nonneg _)

/-- `k · |t^(1/3) − 1| ≤ ε` from the same bound on `t` itself (`t > 0`, `k ≥ 0`) -/
theorem scaled_cbrt_le {k t ε : ℝ} (ht : 0 < t) (hk : 0 ≤ k) (h1 : k * (t - 1) ≤ ε) (h2 : k * (1 - t) ≤ ε) :
    k * |Real.exp (1 / 3 * Real.log t) - 1| ≤ ε := by
  have h := mul_le_mul_of_nonneg_left (cbrt_model_sub_one_le ht) hk
  refine h.trans ?_
  rcases abs_cases (t - 1) with ⟨e, -⟩ | ⟨e, -⟩ <;> rw [e] <;> linarith

theorem scaled_cbrt_le' {k t ε : ℝ} (ht : 0 < t) (hk : 0 ≤ k) (h1 : k * (t - 1) ≤ ε) (h2 : k * (1 - t) ≤ ε) :
    k * |1 - Real.exp (1 / 3 * Real.log t)| ≤ ε := by
  rw [abs_sub_comm]; exact scaled_cbrt_le ht hk h1 h2

/-! ### normal forms of the regenerated sRGB transfer functions (whatever constants the source has
    are evaluated by `norm_num`; the statements below fail to compile if the source changes them) -/

theorem srgbToLinear_upper {x : ℝ} (hx : 0.04045 < x) :
    srgbToLinear x = Real.exp (2.4 * Real.log ((x + 0.055) / 1.055)) := by
  simp only [srgbToLinear, powPos_real, num_ofSci, num_select]
  rw [if_pos (by norm_num at hx ⊢; exact hx)]
  norm_num

theorem srgbToLinear_lower {x : ℝ} (hx : x ≤ 0.04045) : srgbToLinear x = x / 12.92 := by
  simp only [srgbToLinear, powPos_real, num_ofSci, num_select]
  rw [if_neg (by norm_num at hx ⊢; exact hx)]
  norm_num

theorem linearToSrgb_upper {y : ℝ} (hy : 0.0031308 < y) :
    linearToSrgb y = 1.055 * Real.exp ((1 / 2.4) * Real.log y) - 0.055 := by
  have hm : Num.maxN y (Num.ofSci 31308 true 7) = y := by
    apply maxN_eq_left_of_lt
    rw [num_ofSci]; norm_num at hy ⊢; exact hy
  simp only [linearToSrgb, hm, powPos_real]
  simp only [num_ofSci, num_ofNat, num_select]
  rw [if_pos (by norm_num at hy ⊢; exact hy)]
  norm_num

theorem linearToSrgb_lower {y : ℝ} (hy : y ≤ 0.0031308) : linearToSrgb y = 12.92 * y := by
  simp only [linearToSrgb, powPos_real, num_ofSci, num_select]
  rw [if_neg (by norm_num at hy ⊢; exact hy)]
  norm_num

theorem hue_range_aux (X : ℝ) :
    0 ≤ Num.two * Num.pi * Num.fmod X 1 ∧ Num.two * Num.pi * Num.fmod X 1 < 2 * Real.pi := by
  obtain ⟨h0, h1⟩ := fmod_range' X 1 one_pos
  rw [num_two, num_pi]
  have hp := Real.pi_pos
  constructor
  · positivity
  · nlinarith

/-! ### HSV: `hsv_to_rgb ∘ rgb_to_hsv` on the whole colour space -/

theorem fmod_eq_self {x r : ℝ} (hr : 0 < r) (h0 : 0 ≤ x) (h1 : x < r) : Num.fmod x r = x := by
  have : ⌊x / r⌋ = 0 := by
    rw [Int.floor_eq_zero_iff]; exact ⟨div_nonneg h0 hr.le, (div_lt_one hr).mpr h1⟩
  simp [Num.fmod, this]

theorem fmod_eq_add {x r : ℝ} (hr : 0 < r) (h0 : -r ≤ x) (h1 : x < 0) : Num.fmod x r = x + r := by
  have : ⌊x / r⌋ = -1 := by
    rw [Int.floor_eq_iff]; push_cast
    constructor
    · rw [le_div_iff₀ hr]; linarith
    · rw [div_lt_iff₀ hr]; linarith
  simp [Num.fmod, this]

/-- the six hexcone sectors of `hsv_to_rgb` -/
def hsvTable (n : ℕ) (f s v : ℝ) : Vec3 ℝ :=
  match n with
  | 0 => ⟨v, v * (1 - (1 - f) * s), v * (1 - s)⟩
  | 1 => ⟨v * (1 - f * s), v, v * (1 - s)⟩
  | 2 => ⟨v * (1 - s), v, v * (1 - (1 - f) * s)⟩
  | 3 => ⟨v * (1 - s), v * (1 - f * s), v⟩
  | 4 => ⟨v * (1 - (1 - f) * s), v * (1 - s), v⟩
  | _ => ⟨v, v * (1 - s), v * (1 - f * s)⟩

theorem hsvToRgb_sector (n : ℕ) (hn : n < 6) {f : ℝ} (h0 : 0 ≤ f) (h1 : f < 1) (s v : ℝ) :
    hsvToRgb ⟨Num.two * Num.pi * (((n : ℝ) + f) / 6), s, v⟩ = hsvTable n f s v := by
  have hp := Real.pi_pos
  have e : (2 * Real.pi * (((n : ℝ) + f) / 6) / (2 * Real.pi) * 6 : ℝ) = n + f := by field_simp
  have hfl : ⌊(n : ℝ) + f⌋ = n := by
    rw [Int.floor_eq_iff]; push_cast; constructor <;> linarith
  have hn' : (n : ℝ) ≤ 5 := by exact_mod_cast Nat.lt_succ_iff.mp hn
  have h6 : Num.fmod ((n : ℝ) + f) 6 = n + f := fmod_eq_self (by norm_num) (by positivity) (by linarith)
  have h5 : Num.fmod (n : ℝ) 6 = n := fmod_eq_self (by norm_num) (by positivity) (by linarith)
  simp only [hsvToRgb, num_two, num_pi, num_ofNat, Nat.cast_ofNat, e, num_floor, hfl, h6, Int.cast_natCast, h5]
  interval_cases n <;> norm_num [hsvTable]

/-- `hsv_to_rgb` on a hue produced by `rgb_to_hsv` from the sextant coordinate `X ∈ [−1, 5)` -/
theorem hsvToRgb_hue {X : ℝ} (n : ℕ) (hn : n < 6) {f : ℝ} (h0 : 0 ≤ f) (h1 : f < 1)
    (hX : X = n + f ∨ X + 6 = n + f) (hlo : -1 ≤ X) (s v : ℝ) :
    hsvToRgb ⟨Num.two * Num.pi * Num.fmod (X / 6) 1, s, v⟩ = hsvTable n f s v := by
  have hn' : (n : ℝ) ≤ 5 := by exact_mod_cast Nat.lt_succ_iff.mp hn
  have hn0 : (0 : ℝ) ≤ n := by positivity
  rcases hX with hX | hX
  · rw [fmod_eq_self one_pos (by rw [hX]; positivity) (by rw [hX]; linarith), hX]
    exact hsvToRgb_sector n hn h0 h1 s v
  · rw [fmod_eq_add one_pos (by linarith) (by linarith),
      show X / 6 + 1 = ((n : ℝ) + f) / 6 by rw [← hX]; ring]
    exact hsvToRgb_sector n hn h0 h1 s v
theorem hsv_roundtrip (eps : ℝ) (c : Vec3 ℝ) :
    hsvToRgb (rgbToHsv eps c) =
      ⟨max3 c - (max3 c - c.x) * (max3 c / (max3 c + eps)),
       max3 c - (max3 c - c.y) * (max3 c / (max3 c + eps)),
       max3 c - (max3 c - c.z) * (max3 c / (max3 c + eps))⟩ := by
  obtain ⟨r, g, b⟩ := c
  by_cases h1 : r < g
  · by_cases h2 : g < b
    · -- blue maximal, red minimal: sector 3
      have hmx : max3 (⟨r, g, b⟩ : Vec3 ℝ) = b := by
        simp only [max3, maxN_real, max_eq_right h1.le, max_eq_right h2.le]
      have hmn : min3 (⟨r, g, b⟩ : Vec3 ℝ) = r := by
        simp only [min3, minN_real, min_eq_left h1.le, min_eq_left (h1.trans h2).le]
      have harg : argmax3 (⟨r, g, b⟩ : Vec3 ℝ) = 2 := by simp only [argmax3, if_pos h1, if_pos h2]
      have hd : 0 < b - r := by linarith
      have hq0 : -1 < (r - g) / (b - r) := by rw [lt_div_iff₀ hd]; linarith
      have hq1 : (r - g) / (b - r) < 0 := div_neg_of_neg_of_pos (by linarith) hd
      simp only [rgbToHsv, hmx, hmn, harg, if_pos (Or.inr hd), num_ofNat, Nat.cast_ofNat, num_two]
      refine (hsvToRgb_hue 3 (by norm_num) (f := 1 + (r - g) / (b - r)) ?_ ?_ (Or.inl ?_) ?_ _ _).trans ?_
      · linarith
      · linarith
      · push_cast; field_simp; ring
      · rw [le_div_iff₀ hd]; linarith
      · simp only [hsvTable]; apply Vec3.ext' <;> simp only [] <;> field_simp <;> ring
    · -- green maximal
      have h2' : b ≤ g := not_lt.mp h2
      have hmx : max3 (⟨r, g, b⟩ : Vec3 ℝ) = g := by
        simp only [max3, maxN_real, max_eq_right h1.le, max_eq_left h2']
      have harg : argmax3 (⟨r, g, b⟩ : Vec3 ℝ) = 1 := by simp only [argmax3, if_pos h1, if_neg h2]
      rcases le_or_gt r b with h3 | h3
      · -- red minimal: sector 2
        have hmn : min3 (⟨r, g, b⟩ : Vec3 ℝ) = r := by
          simp only [min3, minN_real, min_eq_left h1.le, min_eq_left h3]
        have hd : 0 < g - r := by linarith
        have hq0 : 0 ≤ (b - r) / (g - r) := div_nonneg (by linarith) hd.le
        have hq1 : (b - r) / (g - r) ≤ 1 := by rw [div_le_one hd]; linarith
        simp only [rgbToHsv, hmx, hmn, harg, if_pos (Or.inr hd), num_ofNat, Nat.cast_ofNat, num_two]
        rcases hq1.lt_or_eq with hq1 | hq1
        · refine (hsvToRgb_hue 2 (by norm_num) (f := (b - r) / (g - r)) hq0 hq1 (Or.inl ?_) ?_ _ _).trans ?_
          · push_cast; field_simp; ring
          · rw [le_div_iff₀ hd]; linarith
          · simp only [hsvTable]; apply Vec3.ext' <;> simp only [] <;> field_simp <;> ring
        · -- b = g: boundary of sectors 2 and 3
          have hbg : b = g := by rw [div_eq_one_iff_eq hd.ne'] at hq1; linarith
          subst hbg
          refine (hsvToRgb_hue 3 (by norm_num) (f := 0) le_rfl one_pos (Or.inl ?_) ?_ _ _).trans ?_
          · push_cast; field_simp; ring
          · rw [le_div_iff₀ hd]; linarith
          · simp only [hsvTable]; apply Vec3.ext' <;> simp only [] <;> field_simp <;> ring
      · -- blue minimal: sector 1
        have hmn : min3 (⟨r, g, b⟩ : Vec3 ℝ) = b := by
          simp only [min3, minN_real, min_eq_left h1.le, min_eq_right h3.le]
        have hd : 0 < g - b := by linarith
        have hq0 : -1 < (b - r) / (g - b) := by rw [lt_div_iff₀ hd]; linarith
        have hq1 : (b - r) / (g - b) < 0 := div_neg_of_neg_of_pos (by linarith) hd
        simp only [rgbToHsv, hmx, hmn, harg, if_pos (Or.inr hd), num_ofNat, Nat.cast_ofNat, num_two]
        refine (hsvToRgb_hue 1 (by norm_num) (f := 1 + (b - r) / (g - b)) ?_ ?_ (Or.inl ?_) ?_ _ _).trans ?_
        · linarith
        · linarith
        · push_cast; field_simp; ring
        · rw [le_div_iff₀ hd]; linarith
        · simp only [hsvTable]; apply Vec3.ext' <;> simp only [] <;> field_simp <;> ring
  · have h1' : g ≤ r := not_lt.mp h1
    by_cases h2 : r < b
    · -- blue maximal, green minimal: sector 4
      have hmx : max3 (⟨r, g, b⟩ : Vec3 ℝ) = b := by
        simp only [max3, maxN_real, max_eq_left h1', max_eq_right h2.le]
      have hmn : min3 (⟨r, g, b⟩ : Vec3 ℝ) = g := by
        simp only [min3, minN_real, min_eq_right h1', min_eq_left (h1'.trans h2.le)]
      have harg : argmax3 (⟨r, g, b⟩ : Vec3 ℝ) = 2 := by simp only [argmax3, if_neg h1, if_pos h2]
      have hd : 0 < b - g := by linarith
      have hq0 : 0 ≤ (r - g) / (b - g) := div_nonneg (by linarith) hd.le
      have hq1 : (r - g) / (b - g) < 1 := by rw [div_lt_one hd]; linarith
      simp only [rgbToHsv, hmx, hmn, harg, if_pos (Or.inr hd), num_ofNat, Nat.cast_ofNat, num_two]
      refine (hsvToRgb_hue 4 (by norm_num) (f := (r - g) / (b - g)) hq0 hq1 (Or.inl ?_) ?_ _ _).trans ?_
      · push_cast; field_simp; ring
      · rw [le_div_iff₀ hd]; linarith
      · simp only [hsvTable]; apply Vec3.ext' <;> simp only [] <;> field_simp <;> ring
    · -- red maximal
      have h2' : b ≤ r := not_lt.mp h2
      have hmx : max3 (⟨r, g, b⟩ : Vec3 ℝ) = r := by
        simp only [max3, maxN_real, max_eq_left h1', max_eq_left h2']
      have harg : argmax3 (⟨r, g, b⟩ : Vec3 ℝ) = 0 := by simp only [argmax3, if_neg h1, if_neg h2]
      rcases le_or_gt b g with h3 | h3
      · have hmn : min3 (⟨r, g, b⟩ : Vec3 ℝ) = b := by
          simp only [min3, minN_real, min_eq_right h1', min_eq_right h3]
        rcases h2'.lt_or_eq with h4 | h4
        · -- blue minimal, not grey: sector 0
          have hd : 0 < r - b := by linarith
          have hq0 : 0 ≤ (g - b) / (r - b) := div_nonneg (by linarith) hd.le
          have hq1 : (g - b) / (r - b) ≤ 1 := by rw [div_le_one hd]; linarith
          simp only [rgbToHsv, hmx, hmn, harg, if_pos (Or.inr hd), num_ofNat, Nat.cast_ofNat, num_two]
          rcases hq1.lt_or_eq with hq1 | hq1
          · refine (hsvToRgb_hue 0 (by norm_num) (f := (g - b) / (r - b)) hq0 hq1 (Or.inl ?_) ?_ _ _).trans ?_
            · push_cast; field_simp; ring
            · rw [le_div_iff₀ hd]; linarith
            · simp only [hsvTable]; apply Vec3.ext' <;> simp only [] <;> field_simp <;> ring
          · have hgr : g = r := by rw [div_eq_one_iff_eq hd.ne'] at hq1; linarith
            subst hgr
            refine (hsvToRgb_hue 1 (by norm_num) (f := 0) le_rfl one_pos (Or.inl ?_) ?_ _ _).trans ?_
            · push_cast; field_simp; ring
            · rw [le_div_iff₀ hd]; linarith
            · simp only [hsvTable]; apply Vec3.ext' <;> simp only [] <;> field_simp <;> ring
        · -- grey
          have hg : g = r := le_antisymm h1' (h4 ▸ h3)
          subst h4; subst hg
          have hnd : ¬ (g - g < 0 ∨ 0 < g - g) := by simp
          simp only [rgbToHsv, hmx, hmn, harg, if_neg hnd, num_ofNat, Nat.cast_ofNat, num_two]
          refine (hsvToRgb_hue 0 (by norm_num) (f := 0) le_rfl one_pos (Or.inl ?_) ?_ _ _).trans ?_
          · simp
          · simp
          · simp only [hsvTable]; apply Vec3.ext' <;> simp
      · -- green minimal: sector 5
        have hmn : min3 (⟨r, g, b⟩ : Vec3 ℝ) = g := by
          simp only [min3, minN_real, min_eq_right h1', min_eq_left h3.le]
        have hd : 0 < r - g := by linarith
        have hq0 : -1 ≤ (g - b) / (r - g) := by rw [le_div_iff₀ hd]; linarith
        have hq1 : (g - b) / (r - g) < 0 := div_neg_of_neg_of_pos (by linarith) hd
        simp only [rgbToHsv, hmx, hmn, harg, if_pos (Or.inr hd), num_ofNat, Nat.cast_ofNat, num_two]
        refine (hsvToRgb_hue 5 (by norm_num) (f := 1 + (g - b) / (r - g)) ?_ ?_ (Or.inr ?_) ?_ _ _).trans ?_
        · linarith
        · linarith
        · push_cast; field_simp; ring
        · rw [le_div_iff₀ hd]; linarith
        · simp only [hsvTable]; apply Vec3.ext' <;> simp only [] <;> field_simp <;> ring

theorem le_max3 (c : Vec3 ℝ) : c.x ≤ max3 c ∧ c.y ≤ max3 c ∧ c.z ≤ max3 c := by
  simp only [max3, maxN_real]
  exact ⟨(le_max_left _ _).trans (le_max_left _ _), (le_max_right _ _).trans (le_max_left _ _), le_max_right _ _⟩

/-- size of the `eps`-regularisation error of one channel -/
theorem hsv_err {m x eps : ℝ} (heps : 0 < eps) (hx0 : 0 ≤ x) (hxm : x ≤ m) :
    |m - (m - x) * (m / (m + eps)) - x| ≤ eps := by
  have hpos : 0 < m + eps := by linarith
  have e : m - (m - x) * (m / (m + eps)) - x = (m - x) * eps / (m + eps) := by
    field_simp; ring
  rw [e, abs_of_nonneg (div_nonneg (mul_nonneg (by linarith) heps.le) hpos.le), div_le_iff₀ hpos]
  nlinarith [mul_nonneg heps.le hx0, sq_nonneg eps]

end Odak
