import OdakProofs.Lemmas.GenGeometry
import OdakModel.SphereSearch
import Mathlib.Analysis.Calculus.Deriv.Add
import Mathlib.Analysis.Calculus.Deriv.Mul
import Mathlib.Tactic.Ring
import Mathlib.Tactic.Linarith
import Mathlib.Tactic.NormNum

/-!
  Lemmas about the model of the torch ray-sphere search (`OdakModel/SphereSearch.lean`): the loop as an iterated pass (any scalar
  instance, any optimiser), the regenerated residual over ℝ, the hand-written gradient as the derivative of the regenerated loss,
  the invariant of a zero direction under AdamW.
-/
namespace Odak
open Odak.Gen

section generic
variable {α σ : Type} [Num α] (optStep : σ → α → α → σ × α) (ray : Ray α) (c0 c1 c2 r : α)

/-- `n + 1` passes = one more pass after `n` passes -/
theorem sphereSearchRun_succ (n : Nat) (s : SearchState σ α) :
    sphereSearchRun optStep ray c0 c1 c2 r (n + 1) s =
      sphereSearchPass optStep ray c0 c1 c2 r (sphereSearchRun optStep ray c0 c1 c2 r n s) := by
  induction n generalizing s with
  | zero => rfl
  | succ n ih =>
    show sphereSearchRun optStep ray c0 c1 c2 r (n + 1) (sphereSearchPass optStep ray c0 c1 c2 r s) = _
    rw [ih]
    rfl

theorem sphereSearchRun_steps (n : Nat) (s : SearchState σ α) :
    (sphereSearchRun optStep ray c0 c1 c2 r n s).steps = s.steps + n := by
  induction n with
  | zero => rfl
  | succ n ih => rw [sphereSearchRun_succ]; show (sphereSearchRun optStep ray c0 c1 c2 r n s).steps + 1 = _; rw [ih]; omega

theorem sphereSearchRun_test_succ (n : Nat) (s : SearchState σ α) :
    (sphereSearchRun optStep ray c0 c1 c2 r (n + 1) s).test =
      some (sphereResidualT ray c0 c1 c2 r (sphereSearchRun optStep ray c0 c1 c2 r n s).dist) := by
  rw [sphereSearchRun_succ]; rfl

theorem sphereSearchRun_dist_succ (n : Nat) (s : SearchState σ α) :
    (sphereSearchRun optStep ray c0 c1 c2 r (n + 1) s).dist =
      (optStep (sphereSearchRun optStep ray c0 c1 c2 r n s).opt (sphereSearchRun optStep ray c0 c1 c2 r n s).dist
        (sphereLossGrad ray c0 c1 c2 r (sphereSearchRun optStep ray c0 c1 c2 r n s).dist)).2 := by
  rw [sphereSearchRun_succ]; rfl

theorem sphereSearchRun_opt_succ (n : Nat) (s : SearchState σ α) :
    (sphereSearchRun optStep ray c0 c1 c2 r (n + 1) s).opt =
      (optStep (sphereSearchRun optStep ray c0 c1 c2 r n s).opt (sphereSearchRun optStep ray c0 c1 c2 r n s).dist
        (sphereLossGrad ray c0 c1 c2 r (sphereSearchRun optStep ray c0 c1 c2 r n s).dist)).1 := by
  rw [sphereSearchRun_succ]; rfl

/-- the result after `n + 1` steps, spelled out -/
theorem sphereSearchWith_succ (init : σ) (thr : α) (n : Nat) :
    sphereSearchWith optStep init ray c0 c1 c2 r thr (n + 1) =
      .done (decide (sphereResidualT ray c0 c1 c2 r (sphereSearchRun optStep ray c0 c1 c2 r n (sphereSearchInit init)).dist < thr))
        (sphereSearchRun optStep ray c0 c1 c2 r (n + 1) (sphereSearchInit init)).dist
        (sphereHitRayT ray c0 c1 c2 r (sphereSearchRun optStep ray c0 c1 c2 r (n + 1) (sphereSearchInit init)).dist)
        (n + 1) := by
  unfold sphereSearchWith
  simp only [sphereSearchRun_test_succ, sphereSearchRun_steps]
  simp [sphereSearchInit, sphereFlagT]

theorem sphereSearchWith_zero (init : σ) (thr : α) : sphereSearchWith optStep init ray c0 c1 c2 r thr 0 = .unbound := rfl

end generic

/-! ### over ℝ -/

/-- the quantity inside the absolute value of the residual: `|p - c|² - r²` at `p = o + t d` -/
def sphereQ (ray : Ray ℝ) (c0 c1 c2 r t : ℝ) : ℝ :=
  (t * ray.d.x + ray.o.x - c0) * (t * ray.d.x + ray.o.x - c0) + (t * ray.d.y + ray.o.y - c1) * (t * ray.d.y + ray.o.y - c1) +
    (t * ray.d.z + ray.o.z - c2) * (t * ray.d.z + ray.o.z - c2) - r * r

theorem sphereResidualT_real (ray : Ray ℝ) (c0 c1 c2 r t : ℝ) : sphereResidualT ray c0 c1 c2 r t = |sphereQ ray c0 c1 c2 r t| := by
  simp only [sphereResidualT, propagateRayT, num_abs, sphereQ]

theorem sphereLossT_real (ray : Ray ℝ) (c0 c1 c2 r t : ℝ) :
    sphereLossT ray c0 c1 c2 r t = sphereQ ray c0 c1 c2 r t * sphereQ ray c0 c1 c2 r t := by
  simp only [sphereLossT, propagateRayT, num_abs, num_sq, num_ofNat, Nat.cast_zero, sub_zero, abs_mul_abs_self, sphereQ]

theorem sphereLossGrad_real (ray : Ray ℝ) (c0 c1 c2 r t : ℝ) :
    sphereLossGrad ray c0 c1 c2 r t = 2 * sphereQ ray c0 c1 c2 r t *
      (2 * ((t * ray.d.x + ray.o.x - c0) * ray.d.x + (t * ray.d.y + ray.o.y - c1) * ray.d.y + (t * ray.d.z + ray.o.z - c2) * ray.d.z)) := by
  simp only [sphereLossGrad, num_ofNat, Nat.cast_ofNat, sphereQ]

theorem sphereQ_hasDerivAt (ray : Ray ℝ) (c0 c1 c2 r t : ℝ) :
    HasDerivAt (fun t => sphereQ ray c0 c1 c2 r t)
      (2 * ((t * ray.d.x + ray.o.x - c0) * ray.d.x + (t * ray.d.y + ray.o.y - c1) * ray.d.y + (t * ray.d.z + ray.o.z - c2) * ray.d.z)) t := by
  have lin : ∀ d o c : ℝ, HasDerivAt (fun t : ℝ => t * d + o - c) d t := by
    intro d o c
    have h := (((hasDerivAt_id t).mul_const d).add_const o).sub_const c
    simpa using h
  have hx := lin ray.d.x ray.o.x c0
  have hy := lin ray.d.y ray.o.y c1
  have hz := lin ray.d.z ray.o.z c2
  have h := ((((hx.mul hx).add (hy.mul hy)).add (hz.mul hz)).sub_const (r * r))
  unfold sphereQ
  refine (h.congr_deriv ?_)
  ring

/-- the gradient handed to the optimiser is the derivative of the regenerated loss with respect to the distance -/
theorem sphereLoss_hasDerivAt (ray : Ray ℝ) (c0 c1 c2 r t : ℝ) :
    HasDerivAt (fun t => sphereLossT ray c0 c1 c2 r t) (sphereLossGrad ray c0 c1 c2 r t) t := by
  have hf : (fun t => sphereLossT ray c0 c1 c2 r t) = fun t => sphereQ ray c0 c1 c2 r t * sphereQ ray c0 c1 c2 r t := by
    funext t; exact sphereLossT_real ray c0 c1 c2 r t
  rw [hf, sphereLossGrad_real]
  have hq := sphereQ_hasDerivAt ray c0 c1 c2 r t
  refine ((hq.mul hq).congr_deriv ?_)
  ring

/-- `|a² - r²| = |a - r| (a + r)` for a distance `a ≥ 0` and a radius `r ≥ 0` -/
theorem abs_sq_sub_sq (a r : ℝ) (ha : 0 ≤ a) (hr : 0 ≤ r) : |a * a - r * r| = |a - r| * (a + r) := by
  have : a * a - r * r = (a - r) * (a + r) := by ring
  rw [this, abs_mul, abs_of_nonneg (by linarith : 0 ≤ a + r)]

/-- a line whose squared distance from the centre exceeds `r² + thr`: the residual is at least `thr` at every distance -/
theorem sphereQ_lower (ray : Ray ℝ) (c0 c1 c2 r thr t : ℝ) (hd : 0 < Vec3.normSq ray.d)
    (hmargin : (r * r + thr) * Vec3.normSq ray.d ≤
      Vec3.normSq (ray.o - ⟨c0, c1, c2⟩) * Vec3.normSq ray.d - Vec3.dot (ray.o - ⟨c0, c1, c2⟩) ray.d * Vec3.dot (ray.o - ⟨c0, c1, c2⟩) ray.d) :
    thr ≤ sphereQ ray c0 c1 c2 r t := by
  simp only [Vec3.normSq, Vec3.dot, Vec3.sub_def, Vec3.sub] at hd hmargin
  have key : (ray.d.x * ray.d.x + ray.d.y * ray.d.y + ray.d.z * ray.d.z) * (sphereQ ray c0 c1 c2 r t + r * r) =
      ((ray.d.x * ray.d.x + ray.d.y * ray.d.y + ray.d.z * ray.d.z) * t +
        ((ray.o.x - c0) * ray.d.x + (ray.o.y - c1) * ray.d.y + (ray.o.z - c2) * ray.d.z)) ^ 2 +
      (((ray.o.x - c0) * (ray.o.x - c0) + (ray.o.y - c1) * (ray.o.y - c1) + (ray.o.z - c2) * (ray.o.z - c2)) *
          (ray.d.x * ray.d.x + ray.d.y * ray.d.y + ray.d.z * ray.d.z) -
        ((ray.o.x - c0) * ray.d.x + (ray.o.y - c1) * ray.d.y + (ray.o.z - c2) * ray.d.z) *
          ((ray.o.x - c0) * ray.d.x + (ray.o.y - c1) * ray.d.y + (ray.o.z - c2) * ray.d.z)) := by
    unfold sphereQ; ring
  have h2 : (ray.d.x * ray.d.x + ray.d.y * ray.d.y + ray.d.z * ray.d.z) * (r * r + thr) ≤
      (ray.d.x * ray.d.x + ray.d.y * ray.d.y + ray.d.z * ray.d.z) * (sphereQ ray c0 c1 c2 r t + r * r) := by
    rw [key]
    nlinarith [sq_nonneg ((ray.d.x * ray.d.x + ray.d.y * ray.d.y + ray.d.z * ray.d.z) * t +
        ((ray.o.x - c0) * ray.d.x + (ray.o.y - c1) * ray.d.y + (ray.o.z - c2) * ray.d.z))]
  have := le_of_mul_le_mul_left h2 hd
  linarith

/-! ### AdamW with a zero gradient at parameter 0 -/

theorem adamWStep_zero (lr : ℝ) (k : Nat) :
    adamWStep lr (⟨0, 0, k⟩ : AdamState ℝ) 0 0 = (⟨0, 0, k + 1⟩, 0) := by
  simp [adamWStep]

end Odak
