import OdakProofs.RealInst
import OdakModel.Slicing
import Mathlib.Algebra.Order.Floor.Ring
import Mathlib.Tactic.Linarith
import Mathlib.Tactic.NormNum

/-! Helper lemmas for C16 (depth-plane slicing): round-half-to-even on ℝ, plane masks,
    sums over `List.range`, and the interval slicer. -/
namespace Odak

/-! ### round half to even -/

/-- integer-valued version of `roundHalfEvenR` -/
noncomputable def roundHalfEvenZ (x : ℝ) : ℤ :=
  if x - ((⌊x⌋ : ℤ) : ℝ) < 1/2 then ⌊x⌋
  else if 1/2 < x - ((⌊x⌋ : ℤ) : ℝ) then ⌊x⌋ + 1
  else if ⌊x⌋ % 2 = 0 then ⌊x⌋ else ⌊x⌋ + 1

theorem roundHalfEvenR_eq_intCast (x : ℝ) : roundHalfEvenR x = ((roundHalfEvenZ x : ℤ) : ℝ) := by
  unfold roundHalfEvenR roundHalfEvenZ
  simp only []
  split_ifs <;> push_cast <;> rfl

/-- the rounded value is the floor or the floor plus one -/
theorem roundHalfEvenR_cases (x : ℝ) :
    roundHalfEvenR x = ((⌊x⌋ : ℤ) : ℝ) ∨ roundHalfEvenR x = ((⌊x⌋ : ℤ) : ℝ) + 1 := by
  unfold roundHalfEvenR
  simp only []
  split_ifs <;> simp

/-- integers are fixed points of rounding -/
theorem roundHalfEvenR_intCast (k : ℤ) : roundHalfEvenR (k : ℝ) = (k : ℝ) := by
  unfold roundHalfEvenR
  simp only [Int.floor_intCast, sub_self]
  norm_num

theorem roundHalfEvenR_natCast (k : ℕ) : roundHalfEvenR (k : ℝ) = (k : ℝ) := by
  have := roundHalfEvenR_intCast (k : ℤ)
  simpa using this

/-- rounding moves a number by at most one half -/
theorem abs_roundHalfEvenR_sub_le (x : ℝ) : |roundHalfEvenR x - x| ≤ 1/2 := by
  have h1 := Int.floor_le x
  have h2 := Int.lt_floor_add_one x
  rw [abs_le]
  unfold roundHalfEvenR
  simp only []
  split_ifs <;> constructor <;> linarith

/-- rounding is monotone -/
theorem roundHalfEvenR_mono {x y : ℝ} (h : x ≤ y) : roundHalfEvenR x ≤ roundHalfEvenR y := by
  have hfl : ⌊x⌋ ≤ ⌊y⌋ := Int.floor_le_floor h
  rcases hfl.lt_or_eq with hlt | heq
  · -- different floors: r x ≤ ⌊x⌋ + 1 ≤ ⌊y⌋ ≤ r y
    have h1 : roundHalfEvenR x ≤ ((⌊x⌋ : ℤ) : ℝ) + 1 := by
      rcases roundHalfEvenR_cases x with e | e <;> linarith
    have h2 : ((⌊y⌋ : ℤ) : ℝ) ≤ roundHalfEvenR y := by
      rcases roundHalfEvenR_cases y with e | e <;> linarith
    have h3 : ((⌊x⌋ : ℤ) : ℝ) + 1 ≤ ((⌊y⌋ : ℤ) : ℝ) := by
      have : ⌊x⌋ + 1 ≤ ⌊y⌋ := hlt
      exact_mod_cast this
    linarith
  · unfold roundHalfEvenR
    simp only []
    rw [heq]
    split_ifs <;> linarith

theorem roundHalfEvenR_zero : roundHalfEvenR 0 = 0 := by
  simpa using roundHalfEvenR_intCast 0

/-- rounding a number in `[0, m]` gives a natural number in `[0, m]` -/
theorem roundHalfEvenR_mem_range (m : ℕ) (x : ℝ) (h0 : 0 ≤ x) (h1 : x ≤ (m : ℝ)) :
    ∃ i : ℕ, i ≤ m ∧ roundHalfEvenR x = (i : ℝ) := by
  have hlo : 0 ≤ roundHalfEvenR x := by
    have := roundHalfEvenR_mono h0; rwa [roundHalfEvenR_zero] at this
  have hhi : roundHalfEvenR x ≤ (m : ℝ) := by
    have := roundHalfEvenR_mono h1; rwa [roundHalfEvenR_natCast] at this
  rw [roundHalfEvenR_eq_intCast] at hlo hhi ⊢
  set z := roundHalfEvenZ x
  have hz0 : 0 ≤ z := by exact_mod_cast hlo
  have hzm : z ≤ (m : ℤ) := by exact_mod_cast hhi
  refine ⟨z.toNat, by omega, ?_⟩
  have : ((z.toNat : ℕ) : ℤ) = z := Int.toNat_of_nonneg hz0
  exact_mod_cast this.symm

/-! ### planes and masks -/

theorem planeOf_real (n : ℕ) (d : ℝ) : planeOf n d = roundHalfEvenR (d * ((n - 1 : ℕ) : ℝ)) := rfl

/-- a depth in `[0,1]` is assigned to a plane index in `{0, …, n-1}` -/
theorem planeOf_is_index (n : ℕ) (hn : 1 ≤ n) (d : ℝ) (h0 : 0 ≤ d) (h1 : d ≤ 1) :
    ∃ i : ℕ, i < n ∧ planeOf n d = (i : ℝ) := by
  have hm : (0 : ℝ) ≤ ((n - 1 : ℕ) : ℝ) := Nat.cast_nonneg _
  obtain ⟨i, hi, e⟩ := roundHalfEvenR_mem_range (n - 1) (d * ((n - 1 : ℕ) : ℝ))
    (mul_nonneg h0 hm) (by nlinarith)
  exact ⟨i, by omega, by rw [planeOf_real, e]⟩

/-- the mask of plane `i` is the indicator of `i = plane index` -/
theorem planeMask_of_planeOf {n j : ℕ} {d : ℝ} (h : planeOf n d = (j : ℝ)) (i : ℕ) :
    planeMask n i d = if i = j then 1 else 0 := by
  unfold planeMask
  rw [h, num_ofNat]
  by_cases hij : i = j
  · subst hij; simp
  · rw [if_neg hij, if_pos]
    have : (j : ℝ) ≠ (i : ℝ) := by
      intro e; exact hij (Nat.cast_injective e).symm
    exact lt_or_gt_of_ne this

/-! ### sums over `List.range` -/

theorem foldl_add_fn (f : ℕ → ℝ) (l : List ℕ) (acc : ℝ) :
    l.foldl (fun a i => a + f i) acc = acc + (l.map f).sum := by
  induction l generalizing acc with
  | nil => simp
  | cons x xs ih => simp [ih, add_assoc]

theorem sum_range_indicator (c : ℝ) (j n : ℕ) :
    ((List.range n).map (fun i => if i = j then c else 0)).sum = if j < n then c else 0 := by
  induction n with
  | zero => simp
  | succ n ih =>
    rw [List.range_succ, List.map_append, List.sum_append, ih]
    simp only [List.map_cons, List.map_nil, List.sum_cons, List.sum_nil, add_zero]
    by_cases h1 : j < n
    · have : n ≠ j := by omega
      simp [h1, this, Nat.lt_succ_of_lt h1]
    · by_cases h2 : n = j
      · subst h2; simp
      · have : ¬ j < n + 1 := by omega
        simp [h1, h2, this]

/-! ### the interval slicer -/

/-- unfolded membership condition of interval `i` -/
theorem inSlice_iff (ps : List ℝ) (i : ℕ) (d : ℝ) (hi1 : 1 ≤ i) (hi : i < ps.length) :
    inSlice ps i d = true ↔
      ps[i - 1]'(by omega) ≤ d ∧ (if i + 1 ≤ ps.length - 1 then d < ps[i] else d ≤ ps[i]) := by
  unfold inSlice
  have e1 : ps[i - 1]? = some (ps[i - 1]'(by omega)) := List.getElem?_eq_getElem (by omega)
  have e2 : ps[i]? = some ps[i] := List.getElem?_eq_getElem hi
  simp only [e1, e2]
  split_ifs <;> simp [Bool.and_eq_true]

theorem inSlice_false_of_length_le (ps : List ℝ) (d : ℝ) (i : ℕ) (hi : ps.length ≤ i) : inSlice ps i d = false := by
  unfold inSlice
  have e2 : ps[i]? = none := List.getElem?_eq_none hi
  simp only [e2]
  split <;> simp_all

/-- a sorted list with `p₀ ≤ d < p_k` has an adjacent pair `p_{i-1} ≤ d < p_i`, `1 ≤ i ≤ k` -/
theorem exists_bracket (ps : List ℝ) (d : ℝ) (hlo : ∀ h : 0 < ps.length, ps[0] ≤ d) :
    ∀ k : ℕ, 1 ≤ k → ∀ hk : k < ps.length, d < ps[k] →
      ∃ i : ℕ, 1 ≤ i ∧ i ≤ k ∧ ∃ hi : i < ps.length, ps[i - 1]'(by omega) ≤ d ∧ d < ps[i] := by
  intro k
  induction k with
  | zero => intro h; omega
  | succ k ih =>
    intro _ hk hd
    by_cases hk0 : k = 0
    · subst hk0
      exact ⟨1, le_refl _, le_refl _, hk, hlo (by omega), hd⟩
    · by_cases hdk : d < ps[k]'(by omega)
      · obtain ⟨i, h1, h2, h3, h4⟩ := ih (by omega) (by omega) hdk
        exact ⟨i, h1, by omega, h3, h4⟩
      · exact ⟨k + 1, by omega, le_refl _, hk, not_lt.mp hdk, hd⟩

theorem filterMap_range_single (j m : ℕ) :
    (List.range m).filterMap (fun k => if k = j then some (k + 1) else none)
      = if j < m then [j + 1] else [] := by
  induction m with
  | zero => simp
  | succ m ih =>
    rw [List.range_succ, List.filterMap_append, ih]
    by_cases h1 : j < m
    · have : m ≠ j := by omega
      simp [h1, this, Nat.lt_succ_of_lt h1]
    · by_cases h2 : m = j
      · subst h2; simp
      · have : ¬ j < m + 1 := by omega
        simp [h1, h2, this]

theorem sorted_getElem_le {ps : List ℝ} (hs : ps.Pairwise (· ≤ ·)) {a b : ℕ} (hab : a ≤ b)
    (hb : b < ps.length) : ps[a]'(by omega) ≤ ps[b] := by
  rcases hab.lt_or_eq with h | h
  · exact List.pairwise_iff_getElem.mp hs a b (by omega) hb h
  · subst h; exact le_refl _

/-- existence of a containing interval (no sortedness needed) -/
theorem inSlice_exists (ps : List ℝ) (d : ℝ) (hlen : 2 ≤ ps.length)
    (hlo : ps[0]'(by omega) ≤ d) (hhi : d ≤ ps[ps.length - 1]'(by omega)) :
    ∃ i : ℕ, 1 ≤ i ∧ i ≤ ps.length - 1 ∧ inSlice ps i d = true := by
  by_cases h : ps[ps.length - 1 - 1]'(by omega) ≤ d
  · refine ⟨ps.length - 1, by omega, le_refl _, ?_⟩
    rw [inSlice_iff ps _ d (by omega) (by omega)]
    exact ⟨h, by rw [if_neg (by omega)]; exact hhi⟩
  · have h' : d < ps[ps.length - 1 - 1]'(by omega) := not_le.mp h
    have hm : 1 ≤ ps.length - 1 - 1 := by
      by_contra hc
      have h0 : ps.length - 1 - 1 = 0 := by omega
      have : ps[ps.length - 1 - 1]'(by omega) = ps[0]'(by omega) := by simp only [h0]
      rw [this] at h'
      linarith
    obtain ⟨i, hi1, hik, hi, hl, hr⟩ := exists_bracket ps d (fun _ => hlo) (ps.length - 1 - 1) hm (by omega) h'
    refine ⟨i, hi1, by omega, ?_⟩
    rw [inSlice_iff ps i d hi1 hi]
    exact ⟨hl, by rw [if_pos (by omega)]; exact hr⟩

/-- two different intervals of a sorted position list cannot both contain `d` -/
theorem inSlice_lt_absurd (ps : List ℝ) (d : ℝ) (hs : ps.Pairwise (· ≤ ·)) {i j : ℕ}
    (hi1 : 1 ≤ i) (hij : i < j) (hj : j ≤ ps.length - 1)
    (hi : inSlice ps i d = true) (hjd : inSlice ps j d = true) : False := by
  rw [inSlice_iff ps i d hi1 (by omega)] at hi
  rw [inSlice_iff ps j d (by omega) (by omega)] at hjd
  rw [if_pos (by omega)] at hi
  have := sorted_getElem_le hs (a := i) (b := j - 1) (by omega) (by omega)
  linarith [hi.2, hjd.1]

theorem inSlice_unique (ps : List ℝ) (d : ℝ) (hs : ps.Pairwise (· ≤ ·)) {i j : ℕ}
    (hi1 : 1 ≤ i) (hi : i ≤ ps.length - 1) (hj1 : 1 ≤ j) (hj : j ≤ ps.length - 1)
    (hid : inSlice ps i d = true) (hjd : inSlice ps j d = true) : i = j := by
  rcases Nat.lt_trichotomy i j with h | h | h
  · exact (inSlice_lt_absurd ps d hs hi1 h hj hid hjd).elim
  · exact h
  · exact (inSlice_lt_absurd ps d hs hj1 h hi hjd hid).elim

/-- if `i` is the unique containing interval, the list of containing intervals is `[i]` -/
theorem slicesContaining_eq_single (ps : List ℝ) (d : ℝ) {i : ℕ} (hi1 : 1 ≤ i) (hi : i ≤ ps.length - 1)
    (hid : inSlice ps i d = true)
    (huniq : ∀ j, 1 ≤ j → j ≤ ps.length - 1 → inSlice ps j d = true → j = i) :
    slicesContaining ps d = [i] := by
  unfold slicesContaining
  have hcongr : ∀ k ∈ List.range (ps.length - 1),
      (if inSlice ps (k + 1) d = true then some (k + 1) else none)
        = (if k = i - 1 then some (k + 1) else none) := by
    intro k hk
    rw [List.mem_range] at hk
    by_cases hki : k = i - 1
    · have : k + 1 = i := by omega
      rw [if_pos hki, this, if_pos hid]
    · rw [if_neg hki, if_neg]
      intro hc
      have := huniq (k + 1) (by omega) (by omega) hc
      omega
  rw [List.filterMap_congr hcongr, filterMap_range_single, if_pos (by omega)]
  congr 1; omega

end Odak
