import OdakProofs.Lemmas.PropagatorObjectInst5

/-!
  # Work package 16: call `k` of a call list

  `runSteps_getElem`: in a successful run of a call list, the value of call `k` is what the step function returns from the state the first
  `k` calls lead to.  With `propagator_grid_forward_after` this turns "the last call after any history" into "every call `k` of every list".
-/
set_option linter.unusedVariables false
set_option linter.unusedSimpArgs false
set_option linter.unusedSectionVars false

namespace Odak
open Gen CGrid

theorem runSteps_getElem {S X Y : Type} (step : S → X → Option (S × Y)) :
    ∀ (xs : List X) (s s' : S) (ys : List Y), runSteps step s xs = some (s', ys) → ∀ (k : Nat) (x : X), xs[k]? = some x →
      ∃ s1 ys1 s2 y, runSteps step s (xs.take k) = some (s1, ys1) ∧ step s1 x = some (s2, y) ∧ ys[k]? = some y := by
  intro xs
  induction xs with
  | nil => intro s s' ys _ k x hx; simp at hx
  | cons x0 rest ih =>
    intro s s' ys e k x hx
    simp only [runSteps] at e
    cases h0 : step s x0 with
    | none => simp [h0] at e
    | some r =>
      simp only [h0, Option.bind_some] at e
      cases hrest : runSteps step r.1 rest with
      | none => simp [hrest] at e
      | some q =>
        simp only [hrest, Option.map_some, Option.some.injEq, Prod.mk.injEq] at e
        obtain ⟨-, rfl⟩ := e
        cases k with
        | zero =>
          simp only [List.getElem?_cons_zero, Option.some.injEq] at hx
          subst hx
          exact ⟨s, [], r.1, r.2, rfl, h0, rfl⟩
        | succ k' =>
          simp only [List.getElem?_cons_succ] at hx
          obtain ⟨s1, ys1, s2, y, e1, e2, e3⟩ := ih r.1 q.1 q.2 hrest k' x hx
          exact ⟨s1, r.2 :: ys1, s2, y, by simp [runSteps, h0, e1], e2, by simpa using e3⟩

/-- on a constructed propagator every list of good calls runs (no call raises) -/
theorem propagator_run_good {T R : Type} [DecidableEq R] (E : PropOps T R) (L : PropLaws E) (o0 : PropObj T R) (ok : o0.Ok) (dists : T) (h0 : Heap T)
    (s : PropagatorAttrs T R × Heap T) (g : PRef T) (hr : PRel E o0 dists h0 s g) (hg : g.powers < h0.size)
    (xs : List (PCall T)) (hxs : ∀ y ∈ xs, y.good o0 h0) : ∃ s' ys, runSteps (pStep E) s xs = some (s', ys) := by
  obtain ⟨g1, zs1, e1, -⟩ := pRef_run_isSome E ok dists h0 xs g hg hxs
  obtain ⟨s1, ys1, er1, -, -, -⟩ := propagator_run E L o0 dists h0 xs s g g1 zs1 hr (fun y hy => (hxs y hy).valid) e1
  exact ⟨s1, ys1, er1⟩

/-- **call `k` of every good call list, in the grid model** -/
theorem propagator_grid_call_k (a : PropArgs (Ten ℝ) ℝ) (hp0 : Heap (Ten ℝ)) (o : PropObj (Ten ℝ) ℝ) (h' : Heap (Ten ℝ))
    (hi : pInit propOpsGrid a hp0 = some (o, h')) (hp : ∀ p, a.laser_channel_power = some p → p < hp0.size)
    {h w : Nat} (hres : a.resolution = [(h : Int), (w : Int)])
    (hty : a.propagator_type = "forward" ∨ a.propagator_type = "back and forth")
    (hme : a.method = "conventional" ∨ a.method = "multi-color")
    (kern : ℝ → ℝ → CGrid ℝ (2 * h) (2 * w))
    (hk : ∀ lam z, propagationKernelT o.propagation_type (2 * h) (2 * w) o.pixel_pitch lam z (o.samp 0) (o.samp 1) (o.samp 2) (o.samp 3) = some (kern lam z)) :
    ∃ dists ap, h'.get o.distances = some dists ∧ h'.get o.aperture = some ap ∧
      ∀ (xs : List (PCall (Ten ℝ))), (∀ x ∈ xs, x.good o h') →
        ∃ s ys, runSteps (pStep propOpsGrid) (o.toSelf, h') xs = some (s, ys) ∧
          ∀ (k : Nat) (u : Ten ℝ) (c d : Nat), xs[k]? = some (.forward u (c : Int) (d : Int)) → u.shape = [h, w] → c < a.wavelengths.length →
            ∃ y, ys[k]? = some y ∧ y.vals = [Ten.ofGrid (cropGrid (customT (padGrid (Ten.toGrid h w u)) (objKernelGrid o kern dists c d)
              (Ten.toGrid (2 * h) (2 * w) (pRefAp propOpsGrid o ap (xs.take k)))))] := by
  have ok := pInit_ok propOpsGrid a hp0 o h' hi hty hme
  obtain ⟨dists0, ap0, cp0, -, -, hc0, hr⟩ := pRel_of_init' propOpsGrid propLaws_propOpsGrid a hp0 o h' hi hp
  obtain ⟨dists, ap, cp, hd, ha, hc, hall⟩ := propagator_grid_forward_after a hp0 o h' hi hp hres hty hme kern hk
  refine ⟨dists, ap, hd, ha, fun xs hxs => ?_⟩
  obtain ⟨s, ys, erun⟩ := propagator_run_good propOpsGrid propLaws_propOpsGrid o ok dists0 h' _ _ hr (Heap.get_eq_some_lt hc0) xs hxs
  refine ⟨s, ys, erun, fun k u c d hx hu hcl => ?_⟩
  obtain ⟨s1, ys1, s2, y, e1, e2, e3⟩ := runSteps_getElem (pStep propOpsGrid) xs _ s ys erun k _ hx
  obtain ⟨s1', ys1', s2', y', r1, r2, -, r4⟩ := hall (xs.take k) u c d (fun x hxm => hxs x (List.mem_of_mem_take hxm)) hu hcl
  rw [e1] at r1
  simp only [Option.some.injEq, Prod.mk.injEq] at r1
  obtain ⟨rfl, rfl⟩ := r1
  rw [e2] at r2
  simp only [Option.some.injEq, Prod.mk.injEq] at r2
  obtain ⟨rfl, rfl⟩ := r2
  exact ⟨y, e3, r4⟩

end Odak
