import OdakProofs.Lemmas.PropagatorObjectInst

/-!
  # Work package 16: every forward call of the regenerated propagator object, in the grid model

  `propagator_grid_forward_after`: on a propagator built by the regenerated `__init__` with the grid-model operations, after ANY list of
  good calls a forward call on an `[h, w]` field returns the tensor of `cropGrid (customT (padGrid u) (objKernelGrid ..) A)`, `A` = the
  elements of the aperture in force.  The array laws are the PROVED `propLaws_propOpsGrid`; nothing about the operations is assumed.
-/
set_option linter.unusedVariables false
set_option linter.unusedSimpArgs false
set_option linter.unusedSectionVars false

namespace Odak
open Gen CGrid

/-- the constructed object is in the state the call-list theorems start from; the contents of its distances, aperture and laser powers -/
theorem pRel_of_init' {T R : Type} [DecidableEq R] (E : PropOps T R) (L : PropLaws E) (a : PropArgs T R) (h : Heap T) (o : PropObj T R) (h' : Heap T)
    (hi : pInit E a h = some (o, h')) (hp : ∀ p, a.laser_channel_power = some p → p < h.size) :
    ∃ dists ap cp, h'.get o.distances = some dists ∧ h'.get o.aperture = some ap ∧ h'.get o.channel_power = some cp ∧
      PRel E o dists h' (o.toSelf, h') ⟨o.channel_power, ap⟩ := by
  obtain ⟨dists, ap, cp, inv, -⟩ := pInit_inv E L a h o h' hi hp
  refine ⟨dists, ap, cp, inv.hd, inv.ha, inv.hc, o.aperture, cp, ?_, ?_, inv.hc, Nat.le_refl _, fun _ _ _ _ => rfl⟩
  · cases o; rfl
  · have e : o.cfg o.channel_power o.aperture = o := by cases o; rfl
    simp only [e]; exact inv

/-- **every forward call, after any list of good calls, in the grid model** -/
theorem propagator_grid_forward_after (a : PropArgs (Ten ℝ) ℝ) (hp0 : Heap (Ten ℝ)) (o : PropObj (Ten ℝ) ℝ) (h' : Heap (Ten ℝ))
    (hi : pInit propOpsGrid a hp0 = some (o, h')) (hp : ∀ p, a.laser_channel_power = some p → p < hp0.size)
    {h w : Nat} (hres : a.resolution = [(h : Int), (w : Int)])
    (hty : a.propagator_type = "forward" ∨ a.propagator_type = "back and forth")
    (hme : a.method = "conventional" ∨ a.method = "multi-color")
    (kern : ℝ → ℝ → CGrid ℝ (2 * h) (2 * w))
    (hk : ∀ lam z, propagationKernelT o.propagation_type (2 * h) (2 * w) o.pixel_pitch lam z (o.samp 0) (o.samp 1) (o.samp 2) (o.samp 3) = some (kern lam z)) :
    ∃ dists ap cp, h'.get o.distances = some dists ∧ h'.get o.aperture = some ap ∧ h'.get o.channel_power = some cp ∧
      ∀ (pre : List (PCall (Ten ℝ))) (u : Ten ℝ) (c d : Nat), (∀ x ∈ pre, x.good o h') → u.shape = [h, w] → c < a.wavelengths.length →
        ∃ s1 ys s2 y, runSteps (pStep propOpsGrid) (o.toSelf, h') pre = some (s1, ys) ∧
          pStep propOpsGrid s1 (.forward u (c : Int) (d : Int)) = some (s2, y) ∧
          runSteps (pStep propOpsGrid) (o.toSelf, h') (pre ++ [.forward u (c : Int) (d : Int)]) = some (s2, ys ++ [y]) ∧
          y.vals = [Ten.ofGrid (cropGrid (customT (padGrid (Ten.toGrid h w u)) (objKernelGrid o kern dists c d)
            (Ten.toGrid (2 * h) (2 * w) (pRefAp propOpsGrid o ap pre))))] := by
  obtain ⟨e1, e2, -, -, e5, -⟩ := pInit_fields propOpsGrid a hp0 o h' hi
  have ok := pInit_ok propOpsGrid a hp0 o h' hi hty hme
  obtain ⟨dists, ap, cp, hd, ha, hc, hr⟩ := pRel_of_init' propOpsGrid propLaws_propOpsGrid a hp0 o h' hi hp
  refine ⟨dists, ap, cp, hd, ha, hc, fun pre u c d hpre hu hcl => ?_⟩
  have hgood : (PCall.forward u (c : Int) (d : Int)).good o h' := ⟨by omega, by rw [e2]; simpa using hcl⟩
  obtain ⟨g1, zs1, g2, z, s1, ys1, s2, y, r1, r2, eap, er1, er2, ev, erun⟩ :=
    propagator_last_call propOpsGrid propLaws_propOpsGrid o ok dists h' _ _ hr (Heap.get_eq_some_lt hc) pre _ hpre hgood
  obtain ⟨H, eH, eHg⟩ := pKernel_grid o (by rw [e1]; exact hres) (by rw [e5]; exact hty) kern hk dists c d (by rw [e2]; exact hcl)
  simp only [pRefStep, eH, Option.map_some, Option.some.injEq, Prod.mk.injEq] at r2
  refine ⟨s1, ys1, s2, y, er1, er2, erun, ?_⟩
  rw [ev, ← r2.2, Ten.pOut_grid hu, eHg, eap]

end Odak
