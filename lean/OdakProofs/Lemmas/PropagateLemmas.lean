import OdakProofs.Lemmas.DFT2
import OdakModel.Propagate

/-!
  # Transfer-function propagation (`custom`, `customNoAp`) at `α := ℝ`

  Energy (unit-modulus kernels conserve it, sub-unit kernels and apertures can only lose it),
  semigroup law, idempotence of 0/1 band limits, linearity, shift equivariance.  All sizes `n m`.
-/
namespace Odak
open Finset CGrid

variable {n m : ℕ}

/-! ### pointwise modulus facts -/

theorem Cx.normSq_mul' (a b : Cx ℝ) : Cx.normSq (a * b) = Cx.normSq a * Cx.normSq b := by
  simp only [normSq_toC, toC_mul, map_mul]

theorem Cx.normSq_nonneg' (a : Cx ℝ) : 0 ≤ Cx.normSq a := by
  rw [normSq_toC]; exact Complex.normSq_nonneg _

theorem energy_sum (g : CGrid ℝ n m) : energy g = ∑ i, ∑ j, Cx.normSq (g.get i j) := by
  simp only [energy, sumFinR_eq]

theorem energy_mul_sum (H F : CGrid ℝ n m) :
    energy (mul H F) = ∑ i, ∑ j, Cx.normSq (H.get i j) * Cx.normSq (F.get i j) := by
  simp only [energy_sum, get_mul, Cx.normSq_mul']

theorem energy_mul_le (H F : CGrid ℝ n m) (hH : ∀ i j, Cx.normSq (H.get i j) ≤ 1) :
    energy (mul H F) ≤ energy F := by
  rw [energy_mul_sum, energy_sum]
  apply Finset.sum_le_sum; intro i _
  apply Finset.sum_le_sum; intro j _
  exact mul_le_of_le_one_left (Cx.normSq_nonneg' _) (hH i j)

theorem energy_mul_unit (H F : CGrid ℝ n m) (hH : ∀ i j, Cx.normSq (H.get i j) = 1) :
    energy (mul H F) = energy F := by
  rw [energy_mul_sum, energy_sum]
  simp only [hH, one_mul]

theorem energy_mul_congr (G G' F : CGrid ℝ n m)
    (h : ∀ i j, Cx.normSq (G.get i j) = Cx.normSq (G'.get i j)) :
    energy (mul G F) = energy (mul G' F) := by
  rw [energy_mul_sum, energy_mul_sum]
  simp only [h]

/-! ### normal form of the pipeline -/

/-- the two shifts cancel around the pointwise product: the pipeline is
    `ifft2 (ifftshift H · fft2 u)` -/
theorem customNoAp_eq (u H : CGrid ℝ n m) :
    customNoAp u H = ifft2 (mul (ifftshift H) (fft2 u)) := by
  unfold customNoAp mul
  rw [ifftshift_zipWith, ifftshift_fftshift]

/-- `custom` is the aperture-free pipeline with the kernel `H · A` (kernel once, aperture once) -/
theorem custom_eq_customNoAp (u H A : CGrid ℝ n m) :
    custom u H A = customNoAp u (mul H A) := by
  have key : mul H (mul (fftshift (fft2 u)) A) = mul (mul H A) (fftshift (fft2 u)) := by
    apply toCG_injective
    simp only [toCG_mul]
    ring
  unfold custom customNoAp
  rw [key]

theorem energy_customNoAp (u H : CGrid ℝ n m) :
    energy (customNoAp u H) = energy (mul H (fftshift (fft2 u))) / (n * m : ℝ) := by
  unfold customNoAp
  rw [energy_ifft2, energy_ifftshift]

theorem energy_eq_fft2_div (u : CGrid ℝ n m) :
    energy u = energy (fftshift (fft2 u)) / (n * m : ℝ) := by
  rw [energy_fftshift, ← energy_ifft2, ifft2_fft2]

/-! ### 7–9. energy -/

/-- 7. a unit-modulus transfer function conserves the energy -/
theorem energy_customNoAp_unit (u H : CGrid ℝ n m) (hH : ∀ i j, Cx.normSq (H.get i j) = 1) :
    energy (customNoAp u H) = energy u := by
  rw [energy_customNoAp, energy_mul_unit _ _ hH, ← energy_eq_fft2_div]

/-- 8. a transfer function of modulus at most one cannot create energy -/
theorem energy_customNoAp_le (u H : CGrid ℝ n m) (hH : ∀ i j, Cx.normSq (H.get i j) ≤ 1) :
    energy (customNoAp u H) ≤ energy u := by
  rw [energy_customNoAp, energy_eq_fft2_div u]
  apply div_le_div_of_nonneg_right (energy_mul_le _ _ hH)
  positivity

/-- 9. neither can the kernel together with a (twice applied) aperture -/
theorem energy_custom_le (u H A : CGrid ℝ n m) (hH : ∀ i j, Cx.normSq (H.get i j) ≤ 1)
    (hA : ∀ i j, Cx.normSq (A.get i j) ≤ 1) : energy (custom u H A) ≤ energy u := by
  rw [custom_eq_customNoAp]
  apply energy_customNoAp_le
  intro i j
  rw [get_mul, Cx.normSq_mul']
  have h1 := hH i j
  have h2 := hA i j
  have h4 := Cx.normSq_nonneg' (A.get i j)
  exact mul_le_one₀ h1 h4 h2

/-! ### 10. semigroup law -/

theorem customNoAp_comp (u H1 H2 : CGrid ℝ n m) :
    customNoAp (customNoAp u H1) H2 = customNoAp u (mul H2 H1) := by
  rw [customNoAp_eq (customNoAp u H1) H2, customNoAp_eq u H1, customNoAp_eq u (mul H2 H1),
    fft2_ifft2, ← mul_assoc']
  unfold mul
  rw [ifftshift_zipWith]

theorem ifftshift_const {β : Type} (c : β) :
    ifftshift (Grid.ofFn fun _ _ => c : Grid β n m) = Grid.ofFn fun _ _ => c := by
  apply Grid.ext_get; intro i j
  rw [get_ifftshift, Grid.get_ofFn, Grid.get_ofFn]

theorem fftshift_const {β : Type} (c : β) :
    fftshift (Grid.ofFn fun _ _ => c : Grid β n m) = Grid.ofFn fun _ _ => c := by
  apply Grid.ext_get; intro i j
  rw [get_fftshift, Grid.get_ofFn, Grid.get_ofFn]

theorem customNoAp_one (u : CGrid ℝ n m) : customNoAp u (const 1) = u := by
  rw [customNoAp_eq]
  unfold const
  rw [ifftshift_const]
  exact (congrArg ifft2 (one_mul' _)).trans (ifft2_fft2 u)

/-! ### 11. a 0/1 band limit is idempotent in energy -/

theorem customNoAp_idem_energy (u H : CGrid ℝ n m)
    (hH : ∀ i j, Cx.normSq (H.get i j) = 0 ∨ Cx.normSq (H.get i j) = 1) :
    energy (customNoAp (customNoAp u H) H) = energy (customNoAp u H) := by
  have key : energy (mul (mul H H) (fftshift (fft2 u))) = energy (mul H (fftshift (fft2 u))) := by
    apply energy_mul_congr
    intro i j
    rw [get_mul, Cx.normSq_mul']
    rcases hH i j with h | h <;> rw [h] <;> simp
  rw [customNoAp_comp, energy_customNoAp, energy_customNoAp, key]

/-! ### 12. linearity in the field -/

theorem customNoAp_add (u v H : CGrid ℝ n m) :
    customNoAp (add u v) H = add (customNoAp u H) (customNoAp v H) := by
  rw [customNoAp_eq (add u v) H, customNoAp_eq u H, customNoAp_eq v H, fft2_add, mul_add', ifft2_add]

theorem customNoAp_smul (c : Cx ℝ) (u H : CGrid ℝ n m) :
    customNoAp (smul c u) H = smul c (customNoAp u H) := by
  rw [customNoAp_eq (smul c u) H, customNoAp_eq u H, fft2_smul, mul_smul', ifft2_smul]

theorem customNoAp_zero (H : CGrid ℝ n m) : customNoAp zero H = zero := by
  rw [customNoAp_eq zero H, fft2_zero, mul_zero', ifft2_zero]

theorem custom_add (u v H A : CGrid ℝ n m) :
    custom (add u v) H A = add (custom u H A) (custom v H A) := by
  simp only [custom_eq_customNoAp, customNoAp_add]

theorem custom_smul (c : Cx ℝ) (u H A : CGrid ℝ n m) :
    custom (smul c u) H A = smul c (custom u H A) := by
  simp only [custom_eq_customNoAp, customNoAp_smul]

theorem custom_zero (H A : CGrid ℝ n m) : custom zero H A = zero := by
  simp only [custom_eq_customNoAp, customNoAp_zero]

/-! ### 13. shift equivariance (DFT shift theorem) -/

theorem zet_pow_shift (fwd : Bool) (s k : ℕ) (i : Fin n) :
    zet fwd n ^ (k * ((i.val + n - s % n) % n)) =
      zet (!fwd) n ^ (s * k) * zet fwd n ^ (k * i.val) := by
  have hs : s % n < n := Nat.mod_lt _ i.pos
  have h1 : zet fwd n ^ ((i.val + n - s % n) % n) * zet fwd n ^ s = zet fwd n ^ i.val := by
    rw [zet_pow_mod, ← zet_pow_mod fwd n s, ← pow_add,
      show i.val + n - s % n + s % n = i.val + n by omega, pow_add, zet_pow_n, mul_one]
  have h2 : zet fwd n ^ ((i.val + n - s % n) % n) = zet (!fwd) n ^ s * zet fwd n ^ i.val := by
    rw [← h1, mul_left_comm, ← mul_pow, mul_comm (zet (!fwd) n), zet_mul_not, one_pow, mul_one]
  rw [mul_comm k, pow_mul, h2, mul_pow, ← pow_mul, ← pow_mul, mul_comm i.val k]

/-- evaluating a transform at a circularly shifted index = transforming the modulated input -/
theorem dft1_at_shift (fwd : Bool) (s : ℕ) (f : Fin n → ℂ) (i : Fin n) :
    dft1 (zet fwd n) f ⟨(i.val + n - s % n) % n, Nat.mod_lt _ i.pos⟩ =
      dft1 (zet fwd n) (fun k => zet (!fwd) n ^ (s * k.val) * f k) i := by
  simp only [dft1]
  apply Finset.sum_congr rfl; intro k _
  rw [zet_pow_shift]; ring

theorem ifft2C_at_shift (s t : ℕ) (f : Fin n → Fin m → ℂ) (i : Fin n) (j : Fin m) :
    ifft2C f ⟨(i.val + n - s % n) % n, Nat.mod_lt _ i.pos⟩ ⟨(j.val + m - t % m) % m, Nat.mod_lt _ j.pos⟩ =
      ifft2C (fun k l => (zet true n ^ (s * k.val) * zet true m ^ (t * l.val)) * f k l) i j := by
  have inner : ∀ k : Fin n, zet true n ^ (s * k.val) *
      dft1 (zet false m) (f k) ⟨(j.val + m - t % m) % m, Nat.mod_lt _ j.pos⟩ =
      dft1 (zet false m) (fun l => (zet true n ^ (s * k.val) * zet true m ^ (t * l.val)) * f k l) j := by
    intro k
    rw [dft1_at_shift, ← dft1_smul]
    simp only [Bool.not_false, mul_assoc]
  show ((n : ℂ) * (m : ℂ))⁻¹ * dft1 (zet false n)
      (fun k => dft1 (zet false m) (f k) ⟨(j.val + m - t % m) % m, Nat.mod_lt _ j.pos⟩)
      ⟨(i.val + n - s % n) % n, Nat.mod_lt _ i.pos⟩ =
    ((n : ℂ) * (m : ℂ))⁻¹ * dft1 (zet false n) (fun k => dft1 (zet false m)
      (fun l => (zet true n ^ (s * k.val) * zet true m ^ (t * l.val)) * f k l) j) i
  rw [dft1_at_shift]
  simp only [Bool.not_false, inner]

/-- the linear phase ramp `exp(-2πi (s k / n + t l / m))` -/
noncomputable def phase (s t : ℕ) : CGrid ℝ n m :=
  Grid.ofFn fun k l => tw true n (s * k.val) * tw true m (t * l.val)

theorem toCG_phase (s t : ℕ) : toCG (phase s t : CGrid ℝ n m) =
    fun k l => zet true n ^ (s * k.val) * zet true m ^ (t * l.val) := by
  funext k l
  simp only [toCG, phase, Grid.get_ofFn, toC_mul, toC_tw true n k.pos.ne', toC_tw true m l.pos.ne']

theorem toCG_roll (s t : ℕ) (g : CGrid ℝ n m) (i : Fin n) (j : Fin m) :
    toCG (roll s t g) i j = toCG g ⟨(i.val + n - s % n) % n, Nat.mod_lt _ i.pos⟩
      ⟨(j.val + m - t % m) % m, Nat.mod_lt _ j.pos⟩ := by
  simp only [toCG, get_roll]

/-- modulation before `ifft2` is translation after it -/
theorem roll_ifft2 (s t : ℕ) (X : CGrid ℝ n m) :
    roll s t (ifft2 X) = ifft2 (mul (phase s t) X) := by
  apply toCG_injective
  funext i j
  rw [toCG_roll, toCG_ifft2, toCG_ifft2, toCG_mul, toCG_phase, ifft2C_at_shift]
  rfl

/-- the DFT shift theorem -/
theorem fft2_roll (s t : ℕ) (u : CGrid ℝ n m) :
    fft2 (roll s t u) = mul (phase s t) (fft2 u) := by
  have h1 : fft2 (roll s t u) = fft2 (roll s t (ifft2 (fft2 u))) := by rw [ifft2_fft2 u]
  rw [h1, roll_ifft2, fft2_ifft2]

theorem mul_left_comm' (g h k : CGrid ℝ n m) : mul g (mul h k) = mul h (mul g k) := by
  apply toCG_injective; simp only [toCG_mul, mul_left_comm]

/-- 13. translating the input by whole pixels translates the output -/
theorem customNoAp_roll (s t : ℕ) (u H : CGrid ℝ n m) :
    customNoAp (roll s t u) H = roll s t (customNoAp u H) := by
  rw [customNoAp_eq (roll s t u) H, customNoAp_eq u H, fft2_roll, mul_left_comm', roll_ifft2]

theorem custom_roll (s t : ℕ) (u H A : CGrid ℝ n m) :
    custom (roll s t u) H A = roll s t (custom u H A) := by
  rw [custom_eq_customNoAp, custom_eq_customNoAp, customNoAp_roll]

/-! ### 14. a sequence of steps with an additive kernel family is one step -/

theorem propagateSeq_comp (K : ℝ → CGrid ℝ n m) (h0 : K 0 = const 1)
    (hadd : ∀ a b, mul (K b) (K a) = K (a + b)) (zs : List ℝ) (u : CGrid ℝ n m) :
    propagateSeq (fun z u => customNoAp u (K z)) zs u = customNoAp u (K zs.sum) := by
  induction zs generalizing u with
  | nil => simp only [propagateSeq, List.foldl_nil, List.sum_nil, h0, customNoAp_one]
  | cons z zs ih =>
    have := ih (customNoAp u (K z))
    simp only [propagateSeq, List.foldl_cons, List.sum_cons] at this ⊢
    rw [this, customNoAp_comp, hadd]

end Odak
