import OdakProofs.Lemmas.Slicing
import OdakModel.Generated.Slicers

/-!
  Tie theorems: every definition of `Generated/Slicers.lean` (regenerated from the Python source on every run by
  `harness/translate/slicers.py`) EQUALS, at `α = ℝ`, the hand-written model definition of `OdakModel/Slicing.lean` the C16
  theorems are about.  `torch.floor` instead of `torch.round`, another `decimals`, `n` instead of `n - 1`, another comparison
  operator or another loop offset changes the generated text and one of these proofs stops compiling.
-/
namespace Odak
open Odak.Gen

/-- the mask `torch.where(rounded == i, ones, zeros)` of the source is the model's `planeMask` -/
theorem select_eq_planeMask (n i : Nat) (d : ℝ) :
    Num.select (decide (Num.round (d * Num.ofNat (n - 1)) ≤ Num.ofNat i ∧ Num.ofNat i ≤ Num.round (d * Num.ofNat (n - 1))))
      (Num.ofNat 1) (Num.ofNat 0) = planeMask n i d := by
  rw [num_select]
  unfold planeMask planeOf
  simp only [num_ofNat, Nat.cast_one, Nat.cast_zero]
  set p : ℝ := Num.round (d * ((n - 1 : Nat) : ℝ))
  by_cases h : p ≤ (i : ℝ) ∧ (i : ℝ) ≤ p
  · rw [if_pos h, if_neg]; rintro (h' | h') <;> linarith [h.1, h.2]
  · rw [if_neg h, if_pos]
    by_contra hc
    rw [not_or, not_lt, not_lt] at hc
    exact h ⟨hc.2, hc.1⟩

/-! ### `multiplane_loss.set_targets` (`…M`) and `perceptual_multiplane_loss.set_targets` (`…P`) -/

theorem planeDepthM_eq (d : ℝ) (n : Nat) (img : Nat → ℝ) : planeDepthM d n img = planeOf n d := rfl
theorem planeDepthP_eq (d : ℝ) (n : Nat) (img : Nat → ℝ) : planeDepthP d n img = planeOf n d := rfl

theorem planeMaskM_eq (d : ℝ) (n : Nat) (img : Nat → ℝ) (i ch : Nat) : planeMaskM d n img i ch = planeMask n i d := by
  simp only [planeMaskM, select_eq_planeMask]
theorem planeMaskP_eq (d : ℝ) (n : Nat) (img : Nat → ℝ) (i ch : Nat) : planeMaskP d n img i ch = planeMask n i d := by
  simp only [planeMaskP, select_eq_planeMask]

theorem planeTargetM_eq (d : ℝ) (n : Nat) (img : Nat → ℝ) (i ch : Nat) :
    planeTargetM d n img i ch = planeTarget n i d (img ch) := by
  simp only [planeTargetM, select_eq_planeMask, planeTarget]
theorem planeTargetP_eq (d : ℝ) (n : Nat) (img : Nat → ℝ) (i ch : Nat) :
    planeTargetP d n img i ch = planeTarget n i d (img ch) := by
  simp only [planeTargetP, select_eq_planeMask, planeTarget]

/-- the all-in-focus target is accumulated over the planes `0, …, n-1` in order, starting from zero -/
theorem focusTargetM_eq (d : ℝ) (n : Nat) (img : Nat → ℝ) (ch : Nat) : focusTargetM d n img ch = focusTarget n d (img ch) := by
  simp only [focusTargetM, select_eq_planeMask]
  simp only [focusTarget, planeTarget, num_ofNat, Nat.cast_zero]
theorem focusTargetP_eq (d : ℝ) (n : Nat) (img : Nat → ℝ) (ch : Nat) : focusTargetP d n img ch = focusTarget n d (img ch) := by
  simp only [focusTargetP, select_eq_planeMask]
  simp only [focusTarget, planeTarget, num_ofNat, Nat.cast_zero]

/-! ### `slice_rgbd_targets` -/

/-- `torch.where(logical_and(p, q), ones, zeros)` over ℝ -/
theorem select_and (p q : Prop) [Decidable p] [Decidable q] :
    Num.select (decide p && decide q) (1 : ℝ) 0 = if p ∧ q then 1 else 0 := by
  by_cases hp : p <;> by_cases hq : q <;> simp [Num.select, hp, hq]

/-- plane positions as the function the generated definitions take -/
def posFn (ps : List ℝ) : Nat → ℝ := fun k => ps.getD k 0

/-- `masks[t, ch]` is 1 exactly when the depth lies in interval `t + 1` of the model (`inSlice`: half-open, the last one closed) -/
theorem sliceMaskT_eq (ps : List ℝ) (img : Nat → ℝ) (d : ℝ) (t ch : Nat) (ht : t + 1 < ps.length) :
    sliceMaskT img d (posFn ps) ps.length t ch = if inSlice ps (t + 1) d = true then 1 else 0 := by
  have e0 : posFn ps t = ps[t]'(by omega) := by simp [posFn, List.getD_eq_getElem?_getD, List.getElem?_eq_getElem (show t < ps.length by omega)]
  have e1 : posFn ps (t + 1) = ps[t + 1] := by simp [posFn, List.getD_eq_getElem?_getD, List.getElem?_eq_getElem ht]
  have hiff := inSlice_iff ps (t + 1) d (by omega) ht
  simp only [Nat.add_sub_cancel] at hiff
  simp only [sliceMaskT, num_ofNat, Nat.cast_one, Nat.cast_zero, e0, e1]
  have hc : (t + 1 ≤ ps.length - 1 - 1) ↔ (t + 1 + 1 ≤ ps.length - 1) := by omega
  by_cases hlast : t + 1 + 1 ≤ ps.length - 1
  · rw [if_pos (hc.mpr hlast), select_and]
    rw [if_pos hlast] at hiff
    exact if_congr hiff.symm rfl rfl
  · rw [if_neg (fun h => hlast (hc.mp h)), select_and]
    rw [if_neg hlast] at hiff
    exact if_congr hiff.symm rfl rfl

theorem sliceTargetT_eq (ps : List ℝ) (img : Nat → ℝ) (d : ℝ) (t ch : Nat) :
    sliceTargetT img d (posFn ps) ps.length t ch = img ch * sliceMaskT img d (posFn ps) ps.length t ch := rfl

/-- one slice per interval between consecutive plane positions -/
theorem sliceTargetTCount_eq (len : Nat) : sliceTargetTCount len = len - 1 := rfl

end Odak
