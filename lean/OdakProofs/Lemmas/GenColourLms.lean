import OdakProofs.Lemmas.GenColourTensors

/-! Layout theorems of the regenerated `display_color_hvs.primaries_to_lms` / `lms_to_primaries`
    (`Generated/ColourTensors.lean`) and the round trip through them.  Read off the source: `reshape(B, P, 1, -1)`, the two
    `unsqueeze`s of the LMS matrix, the broadcast product and the `sum` over the primaries axis, `reshape(primaries.shape)`;
    `permute(0, 2, 3, 1)`, `flatten(0, 1)`, the `matmul` with `pinverse()` on the right, `Unflatten`, `permute(0, 3, 1, 2)`.
    `torch.pinverse` is an uninterpreted function `pinv`. -/
namespace Odak
open Tensor
set_option linter.unusedVariables false
set_option linter.unusedSimpArgs false

/-- a `[3 x 3]` tensor as a matrix -/
def matOf (t : Tensor ℝ) : Mat3 ℝ :=
  ⟨t.get [0, 0], t.get [0, 1], t.get [0, 2], t.get [1, 0], t.get [1, 1], t.get [1, 2], t.get [2, 0], t.get [2, 1], t.get [2, 2]⟩

theorem infer_hw (B H W : Nat) (hB : 0 < B) : prod [B, 3, H, W] / (prod [B, 3, 1] * prod []) = H * W := by
  simp only [prod]
  rw [show B * (3 * (H * (W * 1))) = (H * W) * (B * (3 * 1) * 1) by ring]
  exact Nat.mul_div_cancel _ (by positivity)

theorem flat1_eq (B H W b c i j : Nat) (hb : b < B) (hc : c < 3) (hi : i < H) (hj : j < W) :
    unravel [B, 3, H, W] (ravel [B, 3, 1, H * W] [b, c, 0, i * W + j]) = [b, c, i, j] := by
  apply unravel_of_ravel_eq
  · simp only [ravel, prod]; ring
  · exact ⟨hb, hc, hi, hj, trivial⟩

theorem primaries_to_lms_layout (L prim : Tensor ℝ) (B H W : Nat) (hL : L.shape = [3, 3]) (h : prim.shape = [B, 3, H, W])
    (b i j : Nat) (hb : b < B) (hi : i < H) (hj : j < W) :
    (GenT.primaries_to_lms L prim).shape = [B, 3, H, W] ∧
    pixel4 (GenT.primaries_to_lms L prim) b i j = (matOf L).transpose.mulVec (pixel4 prim b i j) := by
  have hB : 0 < B := by omega
  have hq : i * W + j < H * W := lt_mul_of_lt hi hj
  constructor
  · tensor_simp [GenT.primaries_to_lms, h, hL]
  · apply Vec3.ext' <;>
    tensor_simp [GenT.primaries_to_lms, h, hL, infer_hw, hB, hb, hi, hj, hq, split_eq, flat1_eq, matOf, Mat3.transpose, Mat3.mulVec]
    all_goals ring

theorem unfl_eq (B H W b c i j : Nat) (hb : b < B) (hc : c < 3) (hi : i < H) (hj : j < W) :
    unravel [prod [B, H], W, 3] (ravel [B, H, W, 3] [b, i, j, c]) = [b * H + i, j, c] := by
  apply unravel_of_ravel_eq
  · simp only [ravel, prod]; ring
  · refine ⟨?_, hj, hc, trivial⟩
    simp only [prod, Nat.mul_one]; exact lt_mul_of_lt hb hi

theorem fl_eq (B H W b c i j : Nat) (hb : b < B) (hc : c < 3) (hi : i < H) (hj : j < W) :
    unravel [B, H, W, 3] (ravel [prod [B, H], W, 3] [b * H + i, j, c]) = [b, i, j, c] := by
  apply unravel_of_ravel_eq
  · simp only [ravel, prod]; ring
  · exact ⟨hb, hi, hj, hc, trivial⟩

theorem lms_to_primaries_layout (pinv : Tensor ℝ → Tensor ℝ) (L lms : Tensor ℝ) (B H W : Nat) (hP : (pinv L).shape = [3, 3])
    (h : lms.shape = [B, 3, H, W]) (b i j : Nat) (hb : b < B) (hi : i < H) (hj : j < W) :
    (GenT.lms_to_primaries pinv L lms).shape = [B, 3, H, W] ∧
    pixel4 (GenT.lms_to_primaries pinv L lms) b i j = (matOf (pinv L)).transpose.mulVec (pixel4 lms b i j) := by
  have hq : b * H + i < prod [B, H] := by simp only [prod, Nat.mul_one]; exact lt_mul_of_lt hb hi
  constructor
  · tensor_simp [GenT.lms_to_primaries, h, hP]
  · apply Vec3.ext' <;>
    tensor_simp [GenT.lms_to_primaries, h, hP, hb, hi, hj, hq, unfl_eq, fl_eq, matOf, Mat3.transpose, Mat3.mulVec]
    all_goals ring

/-- primaries -> LMS -> primaries through the regenerated pipeline is the identity at every pixel of every batch image whenever
    the matrix `torch.pinverse` returns is a right inverse of the `[3 x 3]` LMS matrix (`L · L⁺ = 1`: the pseudo-inverse of a
    matrix with linearly independent rows; `pinv` itself is uninterpreted) -/
theorem lms_roundtrip_gen (pinv : Tensor ℝ → Tensor ℝ) (L prim : Tensor ℝ) (B H W : Nat) (hL : L.shape = [3, 3])
    (hP : (pinv L).shape = [3, 3]) (hinv : matOf L * matOf (pinv L) = Mat3.one) (h : prim.shape = [B, 3, H, W])
    (b i j : Nat) (hb : b < B) (hi : i < H) (hj : j < W) :
    (GenT.lms_to_primaries pinv L (GenT.primaries_to_lms L prim)).shape = [B, 3, H, W] ∧
    pixel4 (GenT.lms_to_primaries pinv L (GenT.primaries_to_lms L prim)) b i j = pixel4 prim b i j := by
  obtain ⟨hs, hp⟩ := primaries_to_lms_layout L prim B H W hL h b i j hb hi hj
  obtain ⟨hs2, hp2⟩ := lms_to_primaries_layout pinv L _ B H W hP hs b i j hb hi hj
  refine ⟨hs2, ?_⟩
  rw [hp2, hp, ← Mat3.mulVec_mul, ← Mat3.transpose_mul, hinv, Mat3.transpose_one, Mat3.one_mulVec]

end Odak
