import OdakProofs.Lemmas.Colour
import Mathlib.Analysis.Convex.SpecificFunctions.Basic

/-! sRGB → Lab → sRGB over the per-pixel functions regenerated from the source (`Gen.srgbToLab`, `Gen.labToSrgb`).
    * the companding pair (cube root with its linear toe / cube with its linear toe) are exact inverses of each other (`labG_labF`),
      so are `L* a* b* ↦ (fx, fy, fz)`;
    * what remains is `linearToSrgb (R (srgbToLinear c))` with `R = A' · diag(white · white⁻¹) · A`, a matrix within `5.5·10⁻⁸` of the
      identity on the unit cube (`lab_linear_error`): the two Lab matrices and the two white points of the source are rounded
      inverses of each other;
    * `linearToSrgb` is Lipschitz with constant 12.92 up to the `3·10⁻⁸` jump at its knee (`linearToSrgb_lipschitz`), by concavity of
      `y ↦ y^(1/2.4)` (Bernoulli), and `linearToSrgb ∘ srgbToLinear` is the identity except on the sliver between the two knees,
      where it is within `1.6·10⁻⁷` (`srgb_roundtrip_error`). -/
namespace Odak
open Odak.Gen

/-- the Lab companding function of the source (`srgb_to_lab`) -/
noncomputable def labF (t : ℝ) : ℝ :=
  if (6 / 29 : ℝ) * (6 / 29 * (6 / 29)) < t then Real.exp (1 / 3 * Real.log (max t (6 / 29 * (6 / 29 * (6 / 29)))))
  else 1 / (3 * (6 / 29 * (6 / 29))) * t + 4 / 29

/-- its inverse as written in `lab_to_srgb` -/
noncomputable def labG (u : ℝ) : ℝ :=
  if (6 / 29 : ℝ) < u then u * u * u else 3 * (6 / 29) * (6 / 29) * (u - 4 / 29)

theorem labG_labF (t : ℝ) : labG (labF t) = t := by
  unfold labF labG
  by_cases h : (6 / 29 : ℝ) * (6 / 29 * (6 / 29)) < t
  · rw [if_pos h, max_eq_left h.le]
    have ht : 0 < t := lt_trans (by norm_num) h
    set r := Real.exp (1 / 3 * Real.log t) with hr
    have hr0 : 0 < r := Real.exp_pos _
    have h3 : r ^ 3 = t := by
      have := rpow_model_pow (p := 1 / 3) 3 1 ht (by norm_num)
      rw [pow_one] at this; exact this
    have hd : (6 / 29 : ℝ) < r := by
      by_contra hc
      have hc' : r ≤ 6 / 29 := not_lt.mp hc
      have : r ^ 3 ≤ (6 / 29 : ℝ) ^ 3 := pow_le_pow_left₀ hr0.le hc' 3
      rw [h3] at this
      norm_num at this h
      linarith
    rw [if_pos hd, ← h3]; ring
  · rw [if_neg h]
    have h' : t ≤ 6 / 29 * (6 / 29 * (6 / 29)) := not_lt.mp h
    have : ¬ ((6 / 29 : ℝ) < 1 / (3 * (6 / 29 * (6 / 29))) * t + 4 / 29) := by
      norm_num at h' ⊢
      linarith
    rw [if_neg this]
    field_simp
    ring

theorem srgbToLab_eq (c : Vec3 ℝ) :
    srgbToLab c =
      let X := (10135552 / 24577794 * srgbToLinear c.x + 8788810 / 24577794 * srgbToLinear c.y + 4435075 / 24577794 * srgbToLinear c.z) * 1.052156925
      let Y := (2613072 / 12288897 * srgbToLinear c.x + 8788810 / 12288897 * srgbToLinear c.y + 887015 / 12288897 * srgbToLinear c.z) * 1.000000000
      let Z := (1425312 / 73733382 * srgbToLinear c.x + 8788810 / 73733382 * srgbToLinear c.y + 70074185 / 73733382 * srgbToLinear c.z) * 0.918357670
      ⟨116 * labF Y - 16, 500 * (labF X - labF Y), 200 * (labF Y - labF Z)⟩ := by
  apply Vec3.ext' <;>
  · simp only [srgbToLab, srgbToLinear, labF, num_ofSci, num_ofNat, num_select, powPos_real, maxN_real]
    norm_num

theorem labToSrgb_eq (c : Vec3 ℝ) :
    labToSrgb c =
      let uy := (c.x + 16) / 116
      let ux := uy + c.y / 500
      let uz := uy - c.z / 200
      let X := labG ux * 0.950428545
      let Y := labG uy * 1.000000000
      let Z := labG uz * 1.088900371
      ⟨linearToSrgb (3.241003275 * X + -1.537398934 * Y + -0.498615861 * Z),
       linearToSrgb (-0.969224334 * X + 1.875930071 * Y + 0.041554224 * Z),
       linearToSrgb (0.055639423 * X + -0.204011202 * Y + 1.057148933 * Z)⟩ := by
  apply Vec3.ext' <;>
  · simp only [labToSrgb, linearToSrgb, labG, num_ofSci, num_ofNat, num_select, powPos_real, maxN_real]
    norm_num1
    try simp only [num_select]

/-- sRGB → Lab → sRGB, before the final transfer function: the linear colour comes back through
    `A' · diag(white · white⁻¹) · A`, a matrix within 6·10⁻⁸ of the identity -/
theorem lab_roundtrip_structure (c : Vec3 ℝ) :
    labToSrgb (srgbToLab c) =
      let l : Vec3 ℝ := ⟨srgbToLinear c.x, srgbToLinear c.y, srgbToLinear c.z⟩
      let X := (10135552 / 24577794 * l.x + 8788810 / 24577794 * l.y + 4435075 / 24577794 * l.z) * 1.052156925 * 0.950428545
      let Y := (2613072 / 12288897 * l.x + 8788810 / 12288897 * l.y + 887015 / 12288897 * l.z)
      let Z := (1425312 / 73733382 * l.x + 8788810 / 73733382 * l.y + 70074185 / 73733382 * l.z) * 0.918357670 * 1.088900371
      ⟨linearToSrgb (3.241003275 * X + -1.537398934 * Y + -0.498615861 * Z),
       linearToSrgb (-0.969224334 * X + 1.875930071 * Y + 0.041554224 * Z),
       linearToSrgb (0.055639423 * X + -0.204011202 * Y + 1.057148933 * Z)⟩ := by
  rw [labToSrgb_eq, srgbToLab_eq]
  simp only []
  have e1 : ∀ a : ℝ, (116 * a - 16 + 16) / 116 = a := fun a => by ring
  have e2 : ∀ a b : ℝ, a + 500 * (b - a) / 500 = b := fun a b => by ring
  have e3 : ∀ a b : ℝ, a - 200 * (a - b) / 200 = b := fun a b => by ring
  simp only [e1, e2, e3, labG_labF]
  norm_num

/-! ### the linear part -/

theorem lab_linear_error (l : Vec3 ℝ) (hx : 0 ≤ l.x ∧ l.x ≤ 1) (hy : 0 ≤ l.y ∧ l.y ≤ 1) (hz : 0 ≤ l.z ∧ l.z ≤ 1) :
    let X := (10135552 / 24577794 * l.x + 8788810 / 24577794 * l.y + 4435075 / 24577794 * l.z) * 1.052156925 * 0.950428545
    let Y := (2613072 / 12288897 * l.x + 8788810 / 12288897 * l.y + 887015 / 12288897 * l.z)
    let Z := (1425312 / 73733382 * l.x + 8788810 / 73733382 * l.y + 70074185 / 73733382 * l.z) * 0.918357670 * 1.088900371
    |3.241003275 * X + -1.537398934 * Y + -0.498615861 * Z - l.x| ≤ 55 / 1000000000 ∧
    |-0.969224334 * X + 1.875930071 * Y + 0.041554224 * Z - l.y| ≤ 55 / 1000000000 ∧
    |0.055639423 * X + -0.204011202 * Y + 1.057148933 * Z - l.z| ≤ 55 / 1000000000 := by
  obtain ⟨hx0, hx1⟩ := hx; obtain ⟨hy0, hy1⟩ := hy; obtain ⟨hz0, hz1⟩ := hz
  simp only []
  refine ⟨?_, ?_, ?_⟩ <;> rw [abs_le] <;> constructor <;> norm_num <;> linarith

/-! ### `y ↦ y^(1/2.4)` -/

/-- the power of the upper branch of `linear_rgb_to_rgb` -/
noncomputable def powG (y : ℝ) : ℝ := Real.exp (1 / 2.4 * Real.log y)

theorem powG_pos (y : ℝ) : 0 < powG y := Real.exp_pos _

/-- concavity (tangent line above the graph) -/
theorem powG_tangent {x y : ℝ} (hx : 0 < x) (hy : 0 < y) : powG y ≤ powG x + 1 / 2.4 * (powG x / x) * (y - x) := by
  have hs : (-1 : ℝ) ≤ y / x - 1 := by
    have : 0 < y / x := div_pos hy hx
    linarith
  have hb := rpow_one_add_le_one_add_mul_self hs (p := 1 / 2.4) (by norm_num) (by norm_num)
  have e1 : (1 : ℝ) + (y / x - 1) = y / x := by ring
  rw [e1, Real.rpow_def_of_pos (div_pos hy hx), Real.log_div hy.ne' hx.ne'] at hb
  have e2 : Real.exp ((Real.log y - Real.log x) * (1 / 2.4)) = powG y / powG x := by
    unfold powG
    rw [← Real.exp_sub]; congr 1; ring
  rw [e2, div_le_iff₀ (powG_pos x)] at hb
  have e3 : (1 + 1 / 2.4 * (y / x - 1)) * powG x = powG x + 1 / 2.4 * (powG x / x) * (y - x) := by
    field_simp
  linarith

theorem powG_mono {x y : ℝ} (hx : 0 < x) (hxy : x ≤ y) : powG x ≤ powG y := by
  rcases hxy.lt_or_eq with h | h
  · exact (rpow_model_lt (by norm_num) hx h).le
  · rw [h]

/-- on `[T, ∞)` the slope `P(x) / x` is at most `P(T) / T` -/
theorem powG_div_le {T x : ℝ} (hT : 0 < T) (hx : T ≤ x) : powG x / x ≤ powG T / T := by
  have hx0 : 0 < x := lt_of_lt_of_le hT hx
  have h := powG_tangent hT hx0
  have hk : 0 < powG T / T := div_pos (powG_pos T) hT
  have h2 : 1 / 2.4 * (powG T / T) * (x - T) ≤ powG T / T * (x - T) := by
    apply mul_le_mul_of_nonneg_right _ (by linarith)
    nlinarith
  have h3 : powG T + powG T / T * (x - T) = powG T / T * x := by field_simp; ring
  rw [div_le_iff₀ hx0]
  linarith

theorem powG_lipschitz {T x y : ℝ} (hT : 0 < T) (hx : T ≤ x) (hy : T ≤ y) :
    |powG y - powG x| ≤ 1 / 2.4 * (powG T / T) * |y - x| := by
  have hk : 0 < powG T / T := div_pos (powG_pos T) hT
  have key : ∀ a b : ℝ, T ≤ a → a ≤ b → |powG b - powG a| ≤ 1 / 2.4 * (powG T / T) * |b - a| := by
    intro a b ha hab
    have ha0 : 0 < a := lt_of_lt_of_le hT ha
    have hb0 : 0 < b := lt_of_lt_of_le ha0 hab
    rw [abs_of_nonneg (sub_nonneg.mpr (powG_mono ha0 hab)), abs_of_nonneg (sub_nonneg.mpr hab)]
    have h1 := powG_tangent ha0 hb0
    have h2 := powG_div_le hT ha
    have h3 : 1 / 2.4 * (powG a / a) * (b - a) ≤ 1 / 2.4 * (powG T / T) * (b - a) := by
      apply mul_le_mul_of_nonneg_right _ (by linarith)
      apply mul_le_mul_of_nonneg_left h2 (by norm_num)
    linarith
  rcases le_total x y with h | h
  · exact key x y hx h
  · rw [abs_sub_comm (powG y), abs_sub_comm y]; exact key y x hy h

/-! ### numbers at the knee `T = 0.0031308` -/

theorem powG_knee_bounds : (0.090473845 : ℝ) < powG 0.0031308 ∧ powG 0.0031308 < 0.0904739 := by
  unfold powG
  constructor
  · exact rpow_model_gt_of_pow 12 5 (by norm_num) (by norm_num) (by norm_num)
  · exact rpow_model_lt_of_pow 12 5 (by norm_num) (by norm_num) (by norm_num) (by norm_num)

/-- `1.055 · (1/2.4) · P(T)/T ≤ 12.92`: the power branch is nowhere steeper than the linear toe -/
theorem knee_slope : 1.055 * (1 / 2.4 * (powG 0.0031308 / 0.0031308)) ≤ (12.92 : ℝ) := by
  have h := powG_knee_bounds.2
  rw [← sub_nonneg]
  have : (12.92 : ℝ) - 1.055 * (1 / 2.4 * (powG 0.0031308 / 0.0031308)) = 12.92 - 1.055 / 2.4 / 0.0031308 * powG 0.0031308 := by ring
  rw [this]
  norm_num at h ⊢
  linarith

/-- the jump of `linear_rgb_to_rgb` at its knee -/
theorem knee_jump : |1.055 * powG 0.0031308 - 0.055 - 12.92 * 0.0031308| ≤ (3 / 100000000 : ℝ) := by
  obtain ⟨h1, h2⟩ := powG_knee_bounds
  rw [abs_le]; constructor <;> norm_num at h1 h2 ⊢ <;> linarith

/-! ### `linear_rgb_to_rgb` is Lipschitz up to the jump -/

theorem linearToSrgb_upper' {y : ℝ} (hy : 0.0031308 < y) : linearToSrgb y = 1.055 * powG y - 0.055 :=
  linearToSrgb_upper hy

theorem linearToSrgb_lipschitz (y y' : ℝ) :
    |linearToSrgb y' - linearToSrgb y| ≤ 12.92 * |y' - y| + 3 / 100000000 := by
  have hT : (0 : ℝ) < 0.0031308 := by norm_num
  have key : ∀ a b : ℝ, a ≤ b → |linearToSrgb b - linearToSrgb a| ≤ 12.92 * |b - a| + 3 / 100000000 := by
    intro a b hab
    have hba : |b - a| = b - a := abs_of_nonneg (sub_nonneg.mpr hab)
    by_cases hb : b ≤ 0.0031308
    · rw [linearToSrgb_lower hb, linearToSrgb_lower (hab.trans hb), ← mul_sub, abs_mul, abs_of_pos (by norm_num : (0 : ℝ) < 12.92)]
      linarith
    · have hb' : 0.0031308 < b := not_le.mp hb
      by_cases ha : 0.0031308 < a
      · rw [linearToSrgb_upper' hb', linearToSrgb_upper' ha]
        have h := powG_lipschitz hT ha.le hb'.le
        have e : 1.055 * powG b - 0.055 - (1.055 * powG a - 0.055) = 1.055 * (powG b - powG a) := by ring
        rw [e, abs_mul, abs_of_pos (by norm_num : (0 : ℝ) < 1.055)]
        have h2 : 1.055 * |powG b - powG a| ≤ 1.055 * (1 / 2.4 * (powG 0.0031308 / 0.0031308)) * |b - a| := by
          rw [mul_assoc]; exact mul_le_mul_of_nonneg_left h (by norm_num)
        have h3 := mul_le_mul_of_nonneg_right knee_slope (abs_nonneg (b - a))
        linarith
      · have ha' : a ≤ 0.0031308 := not_lt.mp ha
        rw [linearToSrgb_upper' hb', linearToSrgb_lower ha']
        have h := powG_lipschitz hT le_rfl hb'.le
        rw [abs_of_nonneg (by linarith : (0 : ℝ) ≤ b - 0.0031308)] at h
        have h2 : 1.055 * |powG b - powG 0.0031308| ≤ 12.92 * (b - 0.0031308) := by
          have := mul_le_mul_of_nonneg_left h (by norm_num : (0 : ℝ) ≤ 1.055)
          have h3 := mul_le_mul_of_nonneg_right knee_slope (by linarith : (0 : ℝ) ≤ b - 0.0031308)
          nlinarith
        have hj := knee_jump
        have e : 1.055 * powG b - 0.055 - 12.92 * a =
            1.055 * (powG b - powG 0.0031308) + (1.055 * powG 0.0031308 - 0.055 - 12.92 * 0.0031308) + 12.92 * (0.0031308 - a) := by ring
        rw [e, hba]
        have t1 := abs_add_le (1.055 * (powG b - powG 0.0031308) + (1.055 * powG 0.0031308 - 0.055 - 12.92 * 0.0031308)) (12.92 * (0.0031308 - a))
        have t2 := abs_add_le (1.055 * (powG b - powG 0.0031308)) (1.055 * powG 0.0031308 - 0.055 - 12.92 * 0.0031308)
        rw [abs_mul, abs_of_pos (by norm_num : (0 : ℝ) < 1.055)] at t2
        rw [abs_of_nonneg (by nlinarith : (0 : ℝ) ≤ 12.92 * (0.0031308 - a))] at t1
        linarith
  rcases le_total y y' with h | h
  · exact key y y' h
  · rw [abs_sub_comm (linearToSrgb y'), abs_sub_comm y']; exact key y' y h

/-! ### `linear_rgb_to_rgb ∘ rgb_to_linear_rgb` -/

theorem srgbToLinear_above_knee {c : ℝ} (hc : 0.04045 < c) : 0.0031308 < srgbToLinear c := by
  rw [srgbToLinear_upper hc]
  have hk : (0 : ℝ) < (0.04045 + 0.055) / 1.055 := by norm_num
  have hlo : (0.0031308 : ℝ) < Real.exp (2.4 * Real.log ((0.04045 + 0.055) / 1.055)) :=
    rpow_model_gt_of_pow 5 12 hk (by norm_num) (by norm_num)
  have hmono : Real.exp (2.4 * Real.log ((0.04045 + 0.055) / 1.055)) < Real.exp (2.4 * Real.log ((c + 0.055) / 1.055)) :=
    rpow_model_lt (by norm_num) hk (div_lt_div_of_pos_right (by linarith) (by norm_num))
  linarith

/-- sRGB → linear → sRGB returns the value, except on the sliver between the two knees where it is within `1.6·10⁻⁷` -/
theorem srgb_roundtrip_error (c : ℝ) : |linearToSrgb (srgbToLinear c) - c| ≤ 16 / 100000000 := by
  by_cases h1 : c ≤ 12.92 * 0.0031308
  · have hx' : c ≤ 0.04045 := by norm_num at h1 ⊢; linarith
    rw [srgbToLinear_lower hx']
    have hy : c / 12.92 ≤ 0.0031308 := by rw [div_le_iff₀ (by norm_num)]; linarith
    rw [linearToSrgb_lower hy]
    have : 12.92 * (c / 12.92) - c = 0 := by field_simp; ring
    rw [this]; norm_num
  · have h1' : 12.92 * 0.0031308 < c := not_le.mp h1
    by_cases h2 : 0.04045 < c
    · have hy := srgbToLinear_above_knee h2
      rw [linearToSrgb_upper hy, srgbToLinear_upper h2]
      have hr : (0 : ℝ) < (c + 0.055) / 1.055 := by apply div_pos _ (by norm_num); norm_num at h2 ⊢; linarith
      rw [rpow_model_inv (by norm_num) hr]
      have : 1.055 * ((c + 0.055) / 1.055) - 0.055 - c = 0 := by field_simp; ring
      rw [this]; norm_num
    · have h2' : c ≤ 0.04045 := not_lt.mp h2
      rw [srgbToLinear_lower h2']
      have hl : 0.0031308 < c / 12.92 := by rw [lt_div_iff₀ (by norm_num)]; linarith
      have hl2 : c / 12.92 - 0.0031308 ≤ 5 / 1000000000 := by
        have : c / 12.92 ≤ 0.04045 / 12.92 := div_le_div_of_nonneg_right h2' (by norm_num)
        norm_num at this ⊢; linarith
      have h := linearToSrgb_lipschitz 0.0031308 (c / 12.92)
      rw [linearToSrgb_lower le_rfl, abs_of_nonneg (by linarith : (0 : ℝ) ≤ c / 12.92 - 0.0031308)] at h
      have e : linearToSrgb (c / 12.92) - c = (linearToSrgb (c / 12.92) - 12.92 * 0.0031308) - 12.92 * (c / 12.92 - 0.0031308) := by
        field_simp; ring
      rw [e]
      have t := abs_sub (linearToSrgb (c / 12.92) - 12.92 * 0.0031308) (12.92 * (c / 12.92 - 0.0031308))
      rw [abs_of_nonneg (by nlinarith : (0 : ℝ) ≤ 12.92 * (c / 12.92 - 0.0031308))] at t
      linarith

end Odak
