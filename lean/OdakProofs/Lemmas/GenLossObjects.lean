import OdakProofs.Lemmas.ObjHeap
import OdakModel.LossObjectsTie

/-!
  # Tie theorems: the OBJECTS `multiplane_loss` and `perceptual_multiplane_loss` regenerated from the Python source

  `OdakModel/Generated/LossObjects.lean` is rewritten on every run by `harness/translate/lossobjects.py` from the current
  `odak/learn/wave/loss.py`.  For the regenerated step functions on a constructed object `o.toSelf`:

  * `get_targets` stores nothing, writes nothing, and returns three VALUES - copies of the contents of `targets`, `focus_target` and of
    `target_depth` divided by the divider - never the attributes themselves;
  * `__call__` stores nothing, writes nothing, and its value is computed from the attributes and the arguments of this call;
  * `multiplane_loss.__init__` builds exactly the object `mplInit` lists: four new objects from `set_targets`, a fifth from
    `add_defocus_blur`; hence for every list of calls every value is the value computed from the constructor arguments alone.

  A tuple memoised on `self`, an attribute handed out without `clone`, a loss kept from the previous call: the generated text (the field
  list, the kinds of the returned components) changes and these equalities stop compiling.
-/
set_option linter.unusedVariables false
set_option linter.unusedSimpArgs false
set_option linter.unusedSectionVars false

namespace Odak
open Gen
variable {T R : Type} [DecidableEq R]

theorem gen_mplFields_eq : mplFields = mplObjFields := rfl
theorem gen_pmplFields_eq : pmplFields = pmplObjFields := rfl

/-! ### `multiplane_loss` -/

theorem gen_mplSetTargetsG_eq (E : LossObjOps T R) (s : MultiplaneLossAttrs T R) (h : Heap T) {dl il : Nat} {n : Int} {dv iv : T}
    (h1 : s.target_depth = some dl) (h2 : s.number_of_planes = some n) (h3 : s.target_image = some il) (h4 : h.get dl = some dv)
    (h5 : h.get il = some iv) :
    mplSetTargetsG E s h = some (
      { s with target_depth := some h.size, targets := some (h.size + 1), focus_target := some (h.size + 2), masks := some (h.size + 3) },
      ((((h.alloc (E.sliceTargets dv n iv).1).1.alloc (E.sliceTargets dv n iv).2.1).1.alloc (E.sliceTargets dv n iv).2.2.1).1.alloc
        (E.sliceTargets dv n iv).2.2.2).1, (), ["target_depth", "targets", "focus_target", "masks"]) := by
  simp [mplSetTargetsG, h1, h2, h3, h4, h5]

theorem gen_mplAddDefocusBlurG_eq (E : LossObjOps T R) (s : MultiplaneLossAttrs T R) (h : Heap T) {b n : Int} {il tl ml : Nat} {r m : R}
    {iv tv mv : T} (h1 : s.target_blur_size = some b) (h2 : s.target_image = some il) (h3 : s.targets = some tl)
    (h4 : s.number_of_planes = some n) (h5 : s.blur_ratio = some r) (h6 : s.masks = some ml) (h7 : s.multiplier = some m)
    (g1 : h.get il = some iv) (g2 : h.get tl = some tv) (g3 : h.get ml = some mv) :
    mplAddDefocusBlurG E s h = some ({ s with targets := some h.size },
      ((h.set tl (E.defocusTargets b iv tv n r mv m).1).alloc (E.defocusTargets b iv tv n r mv m).2).1, (), ["targets[]", "targets"]) := by
  simp [mplAddDefocusBlurG, h1, h2, h3, h4, h5, h6, h7, g1, g2, g3]

/-- **`multiplane_loss.__init__`** builds the object `mplInit` describes -/
theorem gen_mplInitG_eq (E : LossObjOps T R) (a : MplArgs R) (h : Heap T) (o : MplObj T R) (h' : Heap T)
    (hi : mplInit E a h = some (o, h')) : mplInitCall E a h = some (o.toSelf, h', (), mplInitLog a) := by
  obtain ⟨ti, td, br, tbs, n, w, m, sch, red⟩ := a
  unfold mplInit at hi
  simp only [Option.bind_eq_bind, MplArgs.blurSize] at hi
  cases hti : h.get ti with
  | none => simp [hti] at hi
  | some iv =>
  cases htd : h.get td with
  | none => simp [hti, htd] at hi
  | some dv =>
  simp only [hti, htd, Option.bind_some] at hi
  have hlt1 := Heap.get_eq_some_lt hti
  have hlt2 := Heap.get_eq_some_lt htd
  simp only [mplInitCall, mplInitG, MultiplaneLossAttrs.empty, Option.bind_eq_bind, Option.bind_some, Option.pure_def]
  by_cases hb : tbs % 2 = 0
  · simp only [hb, decide_true, if_true, Option.bind_some] at hi ⊢
    rw [gen_mplSetTargetsG_eq E _ h (dl := td) (n := n) (il := ti) (dv := dv) (iv := iv) rfl rfl rfl htd hti]
    simp only [Option.bind_some]
    by_cases hs : sch = "defocus"
    · simp only [hs, decide_true, if_true] at hi ⊢
      rw [gen_mplAddDefocusBlurG_eq E _ _ (b := tbs + 1) (n := n) (il := ti) (tl := h.size + 1) (ml := h.size + 3) (r := br) (m := m)
        (iv := iv) (tv := (E.sliceTargets dv n iv).2.1) (mv := (E.sliceTargets dv n iv).2.2.2) rfl rfl rfl rfl rfl rfl rfl
        (Heap.get_alloc_of_some (Heap.get_alloc_of_some (Heap.get_alloc_of_some (Heap.get_alloc_of_some hti _) _) _) _) (by simp [Heap.get_alloc]) (by simp [Heap.get_alloc])]
      simp only [Option.some.injEq, Prod.mk.injEq] at hi
      obtain ⟨rfl, rfl⟩ := hi
      simp [MplObj.toSelf, mplInitLog, hb]
    · simp only [hs, decide_false, if_false, Bool.false_eq_true] at hi ⊢
      simp only [Option.some.injEq, Prod.mk.injEq] at hi
      obtain ⟨rfl, rfl⟩ := hi
      simp [MplObj.toSelf, mplInitLog, hb, hs]
  · simp only [hb, decide_false, if_false, Bool.false_eq_true, Option.bind_some] at hi ⊢
    rw [gen_mplSetTargetsG_eq E _ h (dl := td) (n := n) (il := ti) (dv := dv) (iv := iv) rfl rfl rfl htd hti]
    simp only [Option.bind_some]
    by_cases hs : sch = "defocus"
    · simp only [hs, decide_true, if_true] at hi ⊢
      rw [gen_mplAddDefocusBlurG_eq E _ _ (b := tbs) (n := n) (il := ti) (tl := h.size + 1) (ml := h.size + 3) (r := br) (m := m)
        (iv := iv) (tv := (E.sliceTargets dv n iv).2.1) (mv := (E.sliceTargets dv n iv).2.2.2) rfl rfl rfl rfl rfl rfl rfl
        (Heap.get_alloc_of_some (Heap.get_alloc_of_some (Heap.get_alloc_of_some (Heap.get_alloc_of_some hti _) _) _) _) (by simp [Heap.get_alloc]) (by simp [Heap.get_alloc])]
      simp only [Option.some.injEq, Prod.mk.injEq] at hi
      obtain ⟨rfl, rfl⟩ := hi
      simp [MplObj.toSelf, mplInitLog, hb]
    · simp only [hs, decide_false, if_false, Bool.false_eq_true] at hi ⊢
      simp only [Option.some.injEq, Prod.mk.injEq] at hi
      obtain ⟨rfl, rfl⟩ := hi
      simp [MplObj.toSelf, mplInitLog, hb, hs]

/-- `get_targets` on a constructed object: nothing stored, nothing written, three VALUES -/
theorem gen_mplGetTargetsG_eq (E : LossObjOps T R) (o : MplObj T R) (h : Heap T) (tv fv dv mv : T) (inv : MplInv o h tv fv dv mv) :
    mplGetTargetsG E o.toSelf h = some (o.toSelf, h, mplTargets E o tv fv dv, []) := by
  by_cases hn : o.number_of_planes - 1 = 0 <;>
    simp [mplGetTargetsG, MplObj.toSelf, mplTargets, inv.ht, inv.hf, inv.hd, hn]

/-- `__call__` on a constructed object: nothing stored, nothing written; the value is `mplLoss` of the masks and the arguments -/
theorem gen_mplCallG_eq (E : LossObjOps T R) (o : MplObj T R) (h : Heap T) (tv fv dv mv : T) (inv : MplInv o h tv fv dv mv)
    (image target : T) (plane : Option Int) :
    mplCallG E o.toSelf h image target plane = (mplLoss E o mv image target plane).map fun v => (o.toSelf, h, v, []) := by
  unfold mplLoss
  cases h0 : o.weights[0]? with
  | none => cases plane <;> simp [mplCallG, MplObj.toSelf, h0, inv.hm]
  | some w0 =>
  cases h1 : o.weights[1]? with
  | none => cases plane <;> simp [mplCallG, MplObj.toSelf, h0, h1, inv.hm]
  | some w1 =>
  cases h2 : o.weights[2]? with
  | none => cases plane <;> simp [mplCallG, MplObj.toSelf, h0, h1, h2, inv.hm]
  | some w2 => cases plane <;> simp [mplCallG, MplObj.toSelf, h0, h1, h2, inv.hm]

/-- the constructed object satisfies the invariant, its four (five) objects are new, the caller's objects are untouched -/
theorem mplInit_inv (E : LossObjOps T R) (a : MplArgs R) (h : Heap T) (o : MplObj T R) (h' : Heap T) (hi : mplInit E a h = some (o, h')) :
    ∃ tv fv dv mv, MplInv o h' tv fv dv mv ∧ h.size ≤ o.targets ∧ h.size ≤ o.focus_target ∧ h.size ≤ o.target_depth ∧ h.size ≤ o.masks ∧
      o.target_image = a.target_image ∧ ∀ l, l < h.size → h'.get l = h.get l := by
  unfold mplInit at hi
  simp only [Option.bind_eq_bind] at hi
  cases hti : h.get a.target_image with
  | none => simp [hti] at hi
  | some iv =>
  cases htd : h.get a.target_depth with
  | none => simp [hti, htd] at hi
  | some dv =>
  simp only [hti, htd, Option.bind_some] at hi
  generalize E.sliceTargets dv a.number_of_planes iv = r at hi
  by_cases hs : a.scheme = "defocus"
  · simp only [hs, if_true, Option.some.injEq, Prod.mk.injEq] at hi
    generalize E.defocusTargets a.blurSize iv r.2.1 a.number_of_planes a.blur_ratio r.2.2.2 a.multiplier = r2 at hi
    obtain ⟨rfl, rfl⟩ := hi
    refine ⟨r2.2, r.2.2.1, r.1, r.2.2.2, ⟨?_, ?_, ?_, ?_⟩, by simp, by simp, by simp, by simp, rfl, ?_⟩
    · simp [Heap.get_alloc, Heap.get_set]
    · simp [Heap.get_alloc, Heap.get_set]
    · have e1 : h.size ≠ h.size + 1 + 1 + 1 + 1 := by omega
      have e2 : h.size ≠ h.size + 1 + 1 + 1 := by omega
      have e3 : h.size ≠ h.size + 1 + 1 := by omega
      simp [Heap.get_alloc, Heap.get_set, e1, e2, e3]
    · simp [Heap.get_alloc, Heap.get_set]
    · intro l hl
      have e1 : l ≠ h.size + 1 + 1 + 1 + 1 := by omega
      have e2 : h.size + 1 ≠ l := by omega
      have e3 : l ≠ h.size + 1 + 1 + 1 := by omega
      have e4 : l ≠ h.size + 1 + 1 := by omega
      have e5 : l ≠ h.size + 1 := by omega
      have e6 : l ≠ h.size := by omega
      simp [Heap.get_alloc, Heap.get_set, e1, e2, e3, e4, e5, e6]
  · simp only [hs, if_false, Option.some.injEq, Prod.mk.injEq] at hi
    obtain ⟨rfl, rfl⟩ := hi
    refine ⟨r.2.1, r.2.2.1, r.1, r.2.2.2, ⟨?_, ?_, ?_, ?_⟩, by simp, by simp, by simp, by simp, rfl, ?_⟩
    · simp [Heap.get_alloc]
    · simp [Heap.get_alloc]
    · have e2 : h.size ≠ h.size + 1 + 1 + 1 := by omega
      have e3 : h.size ≠ h.size + 1 + 1 := by omega
      simp [Heap.get_alloc, e2, e3]
    · simp [Heap.get_alloc]
    · intro l hl
      have e3 : l ≠ h.size + 1 + 1 + 1 := by omega
      have e4 : l ≠ h.size + 1 + 1 := by omega
      have e5 : l ≠ h.size + 1 := by omega
      have e6 : l ≠ h.size := by omega
      simp [Heap.get_alloc, e3, e4, e5, e6]

theorem MplInv.set_other {o : MplObj T R} {h : Heap T} {tv fv dv mv : T} (inv : MplInv o h tv fv dv mv) (l : Nat) (v : T)
    (h1 : l ≠ o.targets) (h2 : l ≠ o.focus_target) (h3 : l ≠ o.target_depth) (h4 : l ≠ o.masks) : MplInv o (h.set l v) tv fv dv mv :=
  ⟨by rw [Heap.get_set_ne h1, inv.ht], by rw [Heap.get_set_ne h2, inv.hf], by rw [Heap.get_set_ne h3, inv.hd], by rw [Heap.get_set_ne h4, inv.hm]⟩

/-- **every list of calls on a `multiplane_loss`** (`get_targets`, `__call__`, and the caller writing into any tensor that is not one of the
    four the loss created for itself - in particular into everything `get_targets` handed out, which are copies): every value is the value
    computed from the constructed object and the arguments of that call alone -/
theorem mpl_run (E : LossObjOps T R) (o : MplObj T R) (tv fv dv mv : T) (xs : List (LCall T)) (h : Heap T) (inv : MplInv o h tv fv dv mv)
    (hv : ∀ x ∈ xs, x.valid o) (zs : List (LRet T)) (href : runSteps (mplRefStep E o tv fv dv mv) () xs = some ((), zs)) :
    ∃ h', runSteps (mplStep E) (o.toSelf, h) xs = some ((o.toSelf, h'), zs) ∧ MplInv o h' tv fv dv mv := by
  obtain ⟨s', ys, e, ev, ⟨e1, inv'⟩, -⟩ := runSteps_track (mplStep E) (mplRefStep E o tv fv dv mv) id
    (fun (s : MultiplaneLossAttrs T R × Heap T) (_ : Unit) => s.1 = o.toSelf ∧ MplInv o s.2 tv fv dv mv) (LCall.valid o) (fun _ _ => True)
    (fun _ => trivial) (fun _ _ _ _ _ => trivial)
    (by
      intro s g x g' z hr hvx hrf
      obtain ⟨s1, h1⟩ := s
      obtain ⟨e1, inv1⟩ := hr
      simp only at e1 inv1
      subst e1
      cases x with
      | getTargets =>
        simp only [mplRefStep, Option.some.injEq, Prod.mk.injEq] at hrf
        obtain ⟨-, rfl⟩ := hrf
        exact ⟨(o.toSelf, h1), _, by simp [mplStep, gen_mplGetTargetsG_eq E o h1 tv fv dv mv inv1], rfl, ⟨rfl, inv1⟩, trivial⟩
      | call i t p =>
        simp only [mplRefStep] at hrf
        cases hl : mplLoss E o mv i t p with
        | none => simp [hl] at hrf
        | some v =>
          simp only [hl, Option.map_some, Option.some.injEq, Prod.mk.injEq] at hrf
          obtain ⟨-, rfl⟩ := hrf
          exact ⟨(o.toSelf, h1), _, by simp [mplStep, gen_mplCallG_eq E o h1 tv fv dv mv inv1, hl], rfl, ⟨rfl, inv1⟩, trivial⟩
      | scribble l v =>
        simp only [mplRefStep, Option.some.injEq, Prod.mk.injEq] at hrf
        obtain ⟨-, rfl⟩ := hrf
        obtain ⟨a1, a2, a3, a4⟩ := hvx
        exact ⟨(o.toSelf, h1.set l v), _, rfl, rfl, ⟨rfl, inv1.set_other l v a1 a2 a3 a4⟩, trivial⟩)
    xs (o.toSelf, h) () () zs ⟨rfl, inv⟩ hv href
  obtain ⟨s1, h1⟩ := s'
  simp only at e1
  subst e1
  exact ⟨h1, by simpa using e.trans (by rw [← ev]; simp), inv'⟩

/-! ### `perceptual_multiplane_loss` -/

structure PmplInv (o : PmplObj T R) (h : Heap T) (tv fv dv mv : T) : Prop where
  ht : h.get o.targets = some tv
  hf : h.get o.focus_target = some fv
  hd : h.get o.target_depth = some dv
  hm : h.get o.masks = some mv

theorem gen_pmplGetTargetsG_eq (E : LossObjOps T R) (o : PmplObj T R) (h : Heap T) (tv fv dv mv : T) (inv : PmplInv o h tv fv dv mv) :
    pmplGetTargetsG E o.toSelf h = some (o.toSelf, h, pmplTargets E o tv fv dv, []) := by
  by_cases hn : o.number_of_planes - 1 = 0 <;>
    simp [pmplGetTargetsG, PmplObj.toSelf, pmplTargets, inv.ht, inv.hf, inv.hd, hn]

/-- `perceptual_multiplane_loss.__call__` stores nothing and writes nothing; its value is a function of the attributes it reads (weights,
    masks, loss modules, the metric modules that were built) and the arguments of this call -/
theorem gen_pmplCallG_eq (E : LossObjOps T R) (o : PmplObj T R) (h : Heap T) (tv fv dv mv : T) (inv : PmplInv o h tv fv dv mv)
    (image target : T) (plane : Option Int) :
    pmplCallG E o.toSelf h image target plane = some (o.toSelf, h, pmplLoss E o mv image target plane, []) := by
  simp [pmplCallG, PmplObj.toSelf, pmplLoss, inv.hm]

theorem PmplInv.set_other {o : PmplObj T R} {h : Heap T} {tv fv dv mv : T} (inv : PmplInv o h tv fv dv mv) (l : Nat) (v : T)
    (h1 : l ≠ o.targets) (h2 : l ≠ o.focus_target) (h3 : l ≠ o.target_depth) (h4 : l ≠ o.masks) : PmplInv o (h.set l v) tv fv dv mv :=
  ⟨by rw [Heap.get_set_ne h1, inv.ht], by rw [Heap.get_set_ne h2, inv.hf], by rw [Heap.get_set_ne h3, inv.hd], by rw [Heap.get_set_ne h4, inv.hm]⟩

/-- **every list of calls on a `perceptual_multiplane_loss`** -/
theorem pmpl_run (E : LossObjOps T R) (o : PmplObj T R) (tv fv dv mv : T) (xs : List (LCall T)) (h : Heap T) (inv : PmplInv o h tv fv dv mv)
    (hv : ∀ x ∈ xs, x.validP o) (zs : List (LRet T)) (href : runSteps (pmplRefStep E o tv fv dv mv) () xs = some ((), zs)) :
    ∃ h', runSteps (pmplStep E) (o.toSelf, h) xs = some ((o.toSelf, h'), zs) ∧ PmplInv o h' tv fv dv mv := by
  obtain ⟨s', ys, e, ev, ⟨e1, inv'⟩, -⟩ := runSteps_track (pmplStep E) (pmplRefStep E o tv fv dv mv) id
    (fun (s : PerceptualMultiplaneLossAttrs T R × Heap T) (_ : Unit) => s.1 = o.toSelf ∧ PmplInv o s.2 tv fv dv mv) (LCall.validP o)
    (fun _ _ => True) (fun _ => trivial) (fun _ _ _ _ _ => trivial)
    (by
      intro s g x g' z hr hvx hrf
      obtain ⟨s1, h1⟩ := s
      obtain ⟨e1, inv1⟩ := hr
      simp only at e1 inv1
      subst e1
      cases x with
      | getTargets =>
        simp only [pmplRefStep, Option.some.injEq, Prod.mk.injEq] at hrf
        obtain ⟨-, rfl⟩ := hrf
        exact ⟨(o.toSelf, h1), _, by simp [pmplStep, gen_pmplGetTargetsG_eq E o h1 tv fv dv mv inv1], rfl, ⟨rfl, inv1⟩, trivial⟩
      | call i t p =>
        simp only [pmplRefStep, Option.some.injEq, Prod.mk.injEq] at hrf
        obtain ⟨-, rfl⟩ := hrf
        exact ⟨(o.toSelf, h1), _, by simp [pmplStep, gen_pmplCallG_eq E o h1 tv fv dv mv inv1], rfl, ⟨rfl, inv1⟩, trivial⟩
      | scribble l v =>
        simp only [pmplRefStep, Option.some.injEq, Prod.mk.injEq] at hrf
        obtain ⟨-, rfl⟩ := hrf
        obtain ⟨a1, a2, a3, a4⟩ := hvx
        exact ⟨(o.toSelf, h1.set l v), _, rfl, rfl, ⟨rfl, inv1.set_other l v a1 a2 a3 a4⟩, trivial⟩)
    xs (o.toSelf, h) () () zs ⟨rfl, inv⟩ hv href
  obtain ⟨s1, h1⟩ := s'
  simp only at e1
  subst e1
  exact ⟨h1, by simpa using e.trans (by rw [← ev]; simp), inv'⟩

end Odak
