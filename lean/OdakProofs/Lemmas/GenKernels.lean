import OdakProofs.RealInst
import OdakProofs.Lemmas.Kernels
import OdakModel.Kernels
import OdakModel.Polar
import OdakModel.Generated.WaveKernels
import OdakProofs.Lemmas.GenPolar

/-! # Tie theorems: the kernels and field utilities REGENERATED from the Python source are the hand-written model

  `OdakModel/Generated/WaveKernels.lean` is rewritten on every run by `harness/translate/wavekernels.py` from the current
  `odak/learn/wave/{classical,util}.py` and `odak/wave/{classical,utils,__init__}.py`.  Every theorem below says that a
  regenerated definition EQUALS the definition of `OdakModel/Kernels.lean` / `OdakModel/Polar.lean` that the property
  theorems (C01, C02, C03, C04, C06, C09 …) are about.  A sign flip, a changed constant, exchanged axes or a different
  frequency grid in the source changes the generated text and one of these equalities stops compiling.

  * the amplitude/phase utilities and `wavenumber` are in `GenPolar.lean` (equal for EVERY scalar instantiation, `rfl`);
  * the grid kernels are equal at `α = ℝ` (the instantiation the theorems are about): the generated text writes the
    literals `1`, `2` as `Num.ofNat 1`, `Num.ofNat 2` and `(FX * λ)²` where the hand model has `(λ * FX)²`, so the
    proofs normalise numerals and, where needed, ring-normalise. -/
set_option linter.unreachableTactic false
set_option linter.unusedTactic false

namespace Odak
open Gen

/-! ## grid kernels at `α = ℝ` -/

/-- torch `get_angular_spectrum_kernel(nu = n, nv = m, …)` is `asKernel n m` (rows follow `fx`/`nu`, columns `fy`/`nv`) -/
theorem gen_asKernelT_eq (n m : Nat) (dx lam z : ℝ) : asKernelT n m dx lam z = asKernel n m dx lam z := by
  apply Grid.ext_get; intro i j
  simp only [asKernelT, asKernel, Grid.get_ofFn, asPhase, freq, asRadicand, num_two, num_ofNat, Nat.cast_one, Nat.cast_ofNat]
    <;> ring_nf

/-- torch `get_transfer_function_fresnel_kernel` is `tfKernel` with `k = wavenumber λ` -/
theorem gen_tfKernelT_eq (n m : Nat) (dx lam z : ℝ) : tfKernelT n m dx lam z = tfKernel n m dx lam (wavenumber lam) z := by
  apply Grid.ext_get; intro i j
  simp only [tfKernelT, tfKernel, Grid.get_ofFn, tfPhase, freq, gen_wavenumberT_eq, num_two, num_ofNat, Nat.cast_one,
    Nat.cast_ofNat]
    <;> ring_nf

/-- torch `get_band_limited_angular_spectrum_kernel` is `blKernel` (same shifted grid, same mask pairing, same phase) -/
theorem gen_blKernelT_eq (n m : Nat) (dx lam z : ℝ) : blKernelT n m dx lam z = blKernel n m dx lam z := by
  apply Grid.ext_get; intro i j
  simp only [blKernelT, blKernel, Grid.get_ofFn, blMask, blPhase, blFreq, blLimit, gen_genFieldT_eq, genField, num_two,
    num_half, num_ofNat, Nat.cast_one, Nat.cast_ofNat, num_ofSci]
  norm_num

/-- the kernel built inside NumPy `angular_spectrum` (`nv, nu = field.shape`, default `meshgrid` indexing) is `npAsKernel` -/
theorem gen_asKernelN_eq (n m : Nat) (dx lam k z : ℝ) : asKernelN n m dx lam k z = npAsKernel n m dx lam k z := by
  apply Grid.ext_get; intro i j
  simp only [asKernelN, npAsKernel, Grid.get_ofFn, freq, asRadicand, num_two, num_ofNat, Nat.cast_one, Nat.cast_ofNat]
  ring_nf

/-- the kernel built inside NumPy `transfer_function_fresnel` is `tfKernel` with the caller's `k` (what `npTF` shifts) -/
theorem gen_tfKernelN_eq (n m : Nat) (dx lam k z : ℝ) : tfKernelN n m dx lam k z = tfKernel n m dx lam k z := by
  apply Grid.ext_get; intro i j
  simp only [tfKernelN, tfKernel, Grid.get_ofFn, tfPhase, freq, num_two, num_ofNat, Nat.cast_one, Nat.cast_ofNat]
    <;> ring_nf

/-- the kernel built inside NumPy `band_limited_angular_spectrum` is `npBlKernel` -/
theorem gen_blKernelN_eq (n m : Nat) (dx lam k z : ℝ) : blKernelN n m dx lam k z = npBlKernel n m dx lam k z := by
  apply Grid.ext_get; intro i j
  simp only [blKernelN, npBlKernel, Grid.get_ofFn, npBlMask, blLimit, freq, asRadicand, num_two, num_ofNat, Nat.cast_one,
    Nat.cast_ofNat]
  ring_nf

/-- the spatial impulse response `h` built inside NumPy `impulse_response_fresnel` is `npIrKernel` -/
theorem gen_irKernelN_eq (n m : Nat) (dx lam k z : ℝ) : irKernelN n m dx lam k z = npIrKernel n m dx lam k z := by
  apply Grid.ext_get; intro i j
  simp only [irKernelN, npIrKernel, Grid.get_ofFn, num_two, num_ofNat, Nat.cast_one, Nat.cast_ofNat]
    <;> ring_nf

/-- the spatial part `h` of torch `get_impulse_response_fresnel_kernel` (scale = 1; the four aperture-sample loops) is `irSpatial` -/
theorem gen_irSpatialT_eq (n m : Nat) (dx lam z : ℝ) (s0 s1 s2 s3 : Nat) :
    irSpatialT n m dx lam z s0 s1 s2 s3 = irSpatial n m dx lam z s0 s1 s2 s3 := by
  apply Grid.ext_get; intro i j
  simp only [irSpatialT, irSpatial, Grid.get_ofFn, gen_wavenumberT_eq, num_two, num_ofNat, Nat.cast_one, Nat.cast_ofNat]
    <;> ring_nf

end Odak
