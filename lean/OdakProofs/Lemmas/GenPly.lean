import OdakProofs.Lemmas.GenSamplersMore
import OdakProofs.Props.C13
import OdakModel.Generated.PlyGen
import OdakModel.Ply
import Mathlib.Tactic.Ring
import Mathlib.Tactic.Linarith
import Mathlib.Data.List.Nodup

/-!
  Tie theorems: the definitions of `Generated/PlyGen.lean` (regenerated from `odak/tools/asset.py` on every run by
  `harness/translate/plygen.py`) EQUAL the hand-written model of `OdakModel/Ply.lean` / `OdakModel/Codec.lean`, and the facts about
  that model the C19 corollaries need (rows of the vertex table, index range / distinctness / position of the faces, what `read_PLY`
  returns for a table `write_PLY_from_points` / `write_PLY` stored).
  A face stride `samples[0]` where the row stride `samples[1]` of the vertex table belongs (finding F43), a wrong corner in one of the
  two triangles of a cell, exchanged loops in the vertex table, another face entry in `read_PLY`, `offset` handed to `rotate_point` as
  `origin`: each changes the generated text and one of these proofs stops compiling.
-/
namespace Odak
open Odak.Gen

/-! ### lists built by nested loops -/

theorem length_flatMap_range_const {β : Type} (f : Nat → List β) (k : Nat) (hlen : ∀ i, (f i).length = k) (a : Nat) :
    ((List.range a).flatMap f).length = a * k := by
  induction a with
  | zero => simp
  | succ a ih => rw [List.range_succ, List.flatMap_append, List.length_append, ih]; simp [hlen]; ring

/-- entry `i·k + r` of the concatenation of the blocks `f 0, f 1, …` of common length `k` is entry `r` of block `i` -/
theorem getElem?_flatMap_range_const {β : Type} (f : Nat → List β) (k : Nat) (hlen : ∀ i, (f i).length = k) (a i r : Nat)
    (hi : i < a) (hr : r < k) : ((List.range a).flatMap f)[i * k + r]? = (f i)[r]? := by
  induction a with
  | zero => omega
  | succ a ih =>
    rw [List.range_succ, List.flatMap_append]
    have hl := length_flatMap_range_const f k hlen a
    by_cases h : i < a
    · have : i * k + r < ((List.range a).flatMap f).length := by
        rw [hl]; calc i * k + r < i * k + k := by omega
          _ = (i + 1) * k := by ring
          _ ≤ a * k := Nat.mul_le_mul_right k (by omega)
      rw [List.getElem?_append_left this]; exact ih h
    · have hia : i = a := by omega
      subst hia
      rw [List.getElem?_append_right (by rw [hl]; omega), hl]
      simp

/-! ### ties -/

theorem plyPointsVertices_eq (m n : Nat) :
    plyPointsVertices m n = (plyGridVertices m n).map fun c => [(c.1, c.2, 0), (c.1, c.2, 1), (c.1, c.2, 2)] := by
  simp only [plyPointsVertices, plyGridVertices, pyRange_zero, flatMap_single, List.map_flatMap, List.map_map, Function.comp_def]

theorem plyPointsFaces_eq (m n : Nat) : (plyPointsFaces m n).map (·.1) = plyGridFaces m n := by
  simp only [plyPointsFaces, plyGridFaces, plyGridCells, pyRange_zero, List.map_flatMap, List.flatMap_assoc, List.flatMap_map, List.map_append,
    List.map_cons, List.map_nil, plyCellFaceA, plyCellFaceB, plyCellCornersA, plyCellCornersB, plyGridRow]
  apply List.flatMap_congr; intro i _
  apply List.flatMap_congr; intro j _
  simp only [List.cons_append, List.nil_append, List.cons.injEq, and_true]
  refine ⟨⟨by ring, by ring, by ring⟩, by ring, by ring, by ring⟩

/-! ### the vertex table -/

theorem length_plyGridVertices (m n : Nat) : (plyGridVertices m n).length = m * n := by
  simp only [plyGridVertices]
  exact length_flatMap_range_const _ n (fun i => by simp) m

/-- grid point `(i, j)` sits in row `i·n + j` of the vertex table -/
theorem plyGridVertices_row (m n i j : Nat) (hi : i < m) (hj : j < n) :
    (plyGridVertices m n)[plyGridRow n i j]? = some (i, j) := by
  simp only [plyGridVertices, plyGridRow]
  rw [getElem?_flatMap_range_const _ n (fun i => by simp) m i j hi hj]
  simp [hj]

/-! ### the faces -/

theorem mem_plyGridCells (m n : Nat) (c : Nat × Nat) : c ∈ plyGridCells m n ↔ c.1 < m - 1 ∧ c.2 < n - 1 := by
  simp only [plyGridCells, List.mem_flatMap, List.mem_map, List.mem_range]
  constructor
  · rintro ⟨i, hi, j, hj, rfl⟩; exact ⟨hi, hj⟩
  · rintro ⟨h1, h2⟩; exact ⟨c.1, h1, c.2, h2, rfl⟩

theorem mem_plyGridFaces (m n : Nat) (f : List Nat) :
    f ∈ plyGridFaces m n ↔ ∃ i j, i < m - 1 ∧ j < n - 1 ∧ (f = plyCellFaceA n i j ∨ f = plyCellFaceB n i j) := by
  simp only [plyGridFaces, List.mem_flatMap, mem_plyGridCells, List.mem_cons, List.mem_nil_iff, or_false]
  constructor
  · rintro ⟨c, ⟨h1, h2⟩, h⟩; exact ⟨c.1, c.2, h1, h2, h⟩
  · rintro ⟨i, j, h1, h2, h⟩; exact ⟨(i, j), ⟨h1, h2⟩, h⟩

theorem length_plyGridCells (m n : Nat) : (plyGridCells m n).length = (m - 1) * (n - 1) := by
  simp only [plyGridCells]
  exact length_flatMap_range_const _ (n - 1) (fun i => by simp) (m - 1)

theorem length_plyGridFaces (m n : Nat) : (plyGridFaces m n).length = (m - 1) * (n - 1) * 2 := by
  simp only [plyGridFaces, List.length_flatMap, List.length_cons, List.length_nil, List.map_const', List.sum_replicate, length_plyGridCells,
    smul_eq_mul]

/-- every index a face names is a row of the vertex table -/
theorem plyGridFaces_in_range (m n : Nat) (f : List Nat) (hf : f ∈ plyGridFaces m n) (v : Nat) (hv : v ∈ f) : v < m * n := by
  obtain ⟨i, j, hi, hj, h⟩ := (mem_plyGridFaces m n f).mp hf
  have key : ∀ a b, a < m → b < n → a * n + b < m * n := by
    intro a b ha hb
    calc a * n + b < a * n + n := by omega
      _ = (a + 1) * n := by ring
      _ ≤ m * n := Nat.mul_le_mul_right n (by omega)
  rcases h with rfl | rfl <;>
    simp only [plyCellFaceA, plyCellFaceB, plyCellCornersA, plyCellCornersB, plyGridRow, List.map_cons, List.map_nil, List.mem_cons,
      List.mem_nil_iff, or_false] at hv <;>
    rcases hv with rfl | rfl | rfl <;> apply key <;> omega

theorem plyGridCells_nodup (m n : Nat) : (plyGridCells m n).Nodup := by
  simp only [plyGridCells]
  rw [List.nodup_flatMap]
  refine ⟨fun i _ => ?_, ?_⟩
  · exact (List.nodup_range).map (fun a b h => by simpa using h)
  · refine List.Pairwise.imp ?_ (List.nodup_range (n := m - 1))
    intro a b hab
    simp only [Function.onFun, List.disjoint_left, List.mem_map, List.mem_range]
    rintro c ⟨j, _, rfl⟩ ⟨j', _, h⟩
    simp at h; exact hab h.1.symm

/-- a face of a grid with `n ≥ 2` columns determines its cell and which of the two triangles it is: all faces are distinct -/
theorem plyGridFaces_nodup (m n : Nat) : (plyGridFaces m n).Nodup := by
  simp only [plyGridFaces]
  rw [List.nodup_flatMap]
  refine ⟨fun c hc => ?_, ?_⟩
  · have hj := ((mem_plyGridCells m n c).mp hc).2
    simp only [List.nodup_cons, List.mem_cons, or_false, List.not_mem_nil, not_false_eq_true, List.nodup_nil, and_true]
    intro h
    simp only [plyCellFaceA, plyCellFaceB, plyCellCornersA, plyCellCornersB, plyGridRow, List.map_cons, List.map_nil, List.cons.injEq,
      and_true] at h
    omega
  · have hp : (plyGridCells m n).Pairwise fun a b => a ≠ b ∧ a ∈ plyGridCells m n ∧ b ∈ plyGridCells m n := by
      have h0 : (plyGridCells m n).Pairwise fun a b => a ≠ b := plyGridCells_nodup m n
      exact List.Pairwise.and_mem.mp h0 |>.imp fun ⟨ha, hb, hab⟩ => ⟨hab, ha, hb⟩
    refine List.Pairwise.imp ?_ hp
    rintro ⟨i, j⟩ ⟨i', j'⟩ ⟨hne, ha, hb⟩
    have hj := ((mem_plyGridCells m n _).mp ha).2
    have hj' := ((mem_plyGridCells m n _).mp hb).2
    simp only at hj hj'
    simp only [Function.onFun, List.disjoint_left, List.mem_cons, List.mem_nil_iff, or_false]
    intro f hf hf'
    apply hne
    -- the first entry of a face is (i+1)·n + j with j < n - 1: it determines (i, j)
    have h1 : f.getD 0 0 = (i + 1) * n + j := by
      rcases hf with rfl | rfl <;> simp [plyCellFaceA, plyCellFaceB, plyCellCornersA, plyCellCornersB, plyGridRow]
    have h2 : f.getD 0 0 = (i' + 1) * n + j' := by
      rcases hf' with rfl | rfl <;> simp [plyCellFaceA, plyCellFaceB, plyCellCornersA, plyCellCornersB, plyGridRow]
    have e : (i + 1) * n + j = (i' + 1) * n + j' := h1.symm.trans h2
    have hn : 0 < n := by omega
    have d1 : ((i + 1) * n + j) / n = i + 1 := by
      rw [Nat.add_comm, Nat.add_mul_div_right _ _ hn, Nat.div_eq_of_lt (by omega)]; simp
    have d2 : ((i' + 1) * n + j') / n = i' + 1 := by
      rw [Nat.add_comm, Nat.add_mul_div_right _ _ hn, Nat.div_eq_of_lt (by omega)]; simp
    have hi : i = i' := by rw [e] at d1; omega
    subst hi
    have : j = j' := by omega
    subst this; rfl

/-! ### reading back -/

/-- entry `i·k + r` of the concatenation of the blocks `f c` (`c` running through ANY list, common block length `k`) -/
theorem getElem?_flatMap_const {β γ : Type} (f : γ → List β) (k : Nat) (hlen : ∀ c, (f c).length = k) :
    ∀ (l : List γ) (i r : Nat), r < k → (l.flatMap f)[i * k + r]? = (l[i]?).bind fun c => (f c)[r]?
  | [], i, r, _ => by simp
  | a :: l, 0, r, hr => by
    rw [List.flatMap_cons, Nat.zero_mul, Nat.zero_add, List.getElem?_append_left (by rw [hlen]; exact hr)]; simp
  | a :: l, i + 1, r, hr => by
    rw [List.flatMap_cons, List.getElem?_append_right (by rw [hlen]; nlinarith), hlen,
      show (i + 1) * k + r - k = i * k + r by rw [Nat.add_mul, Nat.one_mul]; omega, getElem?_flatMap_const f k hlen l i r hr]
    simp

theorem plyGridCells_index (m n i j : Nat) (hi : i < m - 1) (hj : j < n - 1) :
    (plyGridCells m n)[i * (n - 1) + j]? = some (i, j) := by
  simp only [plyGridCells]
  rw [getElem?_flatMap_range_const _ (n - 1) (fun i => by simp) (m - 1) i j hi hj]
  simp [hj]

/-- the two triangles of cell `(i, j)` are the faces number `2 (i (n - 1) + j)` and the next one -/
theorem plyGridFaces_index (m n i j : Nat) (hi : i < m - 1) (hj : j < n - 1) :
    (plyGridFaces m n)[(i * (n - 1) + j) * 2]? = some (plyCellFaceA n i j) ∧
    (plyGridFaces m n)[(i * (n - 1) + j) * 2 + 1]? = some (plyCellFaceB n i j) := by
  simp only [plyGridFaces]
  have h := getElem?_flatMap_const (fun c : Nat × Nat => [plyCellFaceA n c.1 c.2, plyCellFaceB n c.1 c.2]) 2 (fun _ => rfl)
    (plyGridCells m n) (i * (n - 1) + j)
  constructor
  · have := h 0 (by omega); rw [Nat.add_zero] at this; rw [this, plyGridCells_index m n i j hi hj]; rfl
  · rw [h 1 (by omega), plyGridCells_index m n i j hi hj]; rfl

theorem plyRowPoint_of_refs (A : Nat → Nat → Nat → ℝ) (rows : List (List (Nat × Nat × Nat))) (r a b : Nat)
    (h : rows[r]? = some [(a, b, 0), (a, b, 1), (a, b, 2)]) : plyRowPoint (plyStoredRows A rows) r = plyPoint A a b := by
  simp only [plyRowPoint, plyStoredRows, plyPoint, List.getD_eq_getElem?_getD, List.getElem?_map, h]
  simp

/-- reading row `i·n + j` of the table `write_PLY_from_points` stores gives the grid point `points[i, j, :]` -/
theorem plyPoints_vertex (m n : Nat) (A : Nat → Nat → Nat → ℝ) (i j : Nat) (hi : i < m) (hj : j < n) :
    plyRowPoint (plyStoredRows A (plyPointsVertices m n)) (plyGridRow n i j) = plyPoint A i j := by
  apply plyRowPoint_of_refs
  rw [plyPointsVertices_eq, List.getElem?_map, plyGridVertices_row m n i j hi hj]; rfl

theorem modeOrder_npPoint_XYZ : modeOrder npRotatePointModes "XYZ" = some [.z, .y, .x] := by decide

/-- NumPy `rotate_point(p, angles = a, offset = c)` (mode "XYZ", origin 0: the defaults of its signature): rotate about the origin, THEN
    add the offset -/
theorem npRotatePointCall_default (a c p : Vec3 ℝ) :
    npRotatePointCall "XYZ" a (⟨Num.ofNat 0, Num.ofNat 0, Num.ofNat 0⟩ : Vec3 ℝ) c p =
      (rotFromOrder .np [.z, .y, .x] a).mulVec p + c := by
  simp only [npRotatePointCall, modeOrder_npPoint_XYZ, Option.getD_some, rotatePoint, vec3_ofNat_zero]
  apply Vec3.ext' <;> simp only [Vec3.add_def, Vec3.sub_def, Vec3.add, Vec3.sub, Mat3.mulVec] <;> ring

theorem npRotatePointCall_zero (p : Vec3 ℝ) :
    npRotatePointCall "XYZ" (⟨0, 0, 0⟩ : Vec3 ℝ) (⟨Num.ofNat 0, Num.ofNat 0, Num.ofNat 0⟩ : Vec3 ℝ) ⟨0, 0, 0⟩ p = p := by
  rw [npRotatePointCall_default, rotFromOrder_zero, Mat3.one_mulVec]
  apply Vec3.ext' <;> simp [Vec3.add_def, Vec3.add]

/-- `read_PLY` of any table: one triangle per face, corners in the order of the face entries, each looked up in the vertex table and handed
    to `rotate_point` -/
theorem plyReadTriangles_eq (offset angles : Vec3 ℝ) (vertex : Nat → Vec3 ℝ) (faces : List (List Nat)) :
    plyReadTriangles offset angles vertex faces =
      faces.map fun ids => [0, 1, 2].map fun c => (rotFromOrder .np [.z, .y, .x] angles).mulVec (vertex (ids.getD c 0)) + offset := by
  simp only [plyReadTriangles, flatMap_single, npRotatePointCall_default, List.map_cons, List.map_nil]

/-- `read_PLY(write_PLY_from_points(points))` -/
theorem plyRead_points (m n : Nat) (A : Nat → Nat → Nat → ℝ) (offset angles : Vec3 ℝ) :
    plyReadTriangles offset angles (plyRowPoint (plyStoredRows A (plyPointsVertices m n))) ((plyPointsFaces m n).map (·.1)) =
      (plyGridCells m n).flatMap fun c =>
        [(plyCellCornersA c.1 c.2).map fun q => (rotFromOrder .np [.z, .y, .x] angles).mulVec (plyPoint A q.1 q.2) + offset,
         (plyCellCornersB c.1 c.2).map fun q => (rotFromOrder .np [.z, .y, .x] angles).mulVec (plyPoint A q.1 q.2) + offset] := by
  rw [plyReadTriangles_eq, plyPointsFaces_eq, plyGridFaces, List.map_flatMap]
  apply List.flatMap_congr
  rintro ⟨i, j⟩ hc
  obtain ⟨hi, hj⟩ := (mem_plyGridCells m n _).mp hc
  simp only at hi hj
  have v := fun a b (ha : a < m) (hb : b < n) => plyPoints_vertex m n A a b ha hb
  simp only [plyCellFaceA, plyCellFaceB, plyCellCornersA, plyCellCornersB, List.map_cons, List.map_nil, List.getD_cons_zero,
    List.getD_cons_succ]
  rw [v (i + 1) j (by omega) (by omega), v i j (by omega) (by omega), v i (j + 1) (by omega) (by omega),
    v (i + 1) (j + 1) (by omega) (by omega)]

/-! ### `write_PLY`: a list of `k` triangles -/

theorem plyWriteFaces_eq (k : Nat) : (plyWriteFaces k).map (·.1) = (List.range k).map plyFace := by
  simp only [plyWriteFaces, pyRange_zero, flatMap_single, List.map_map, Function.comp_def]
  rfl

theorem plyWriteVertices_eq (k : Nat) :
    plyWriteVertices k = (List.range k).flatMap fun t => (List.range 3).map fun c => [(t, c, 0), (t, c, 1), (t, c, 2)] := by
  simp only [plyWriteVertices, pyRange_zero, flatMap_single]

/-- corner `c` of triangle `t` is stored in row `plyVertexRow t c = 3 t + c` -/
theorem plyWrite_vertex (k : Nat) (T : Nat → Nat → Nat → ℝ) (t c : Nat) (ht : t < k) (hc : c < 3) :
    plyRowPoint (plyStoredRows T (plyWriteVertices k)) (plyVertexRow t c) = plyPoint T t c := by
  apply plyRowPoint_of_refs
  rw [plyWriteVertices_eq, show plyVertexRow t c = t * 3 + c by simp [plyVertexRow, Nat.mul_comm],
    getElem?_flatMap_range_const _ 3 (fun i => by simp) k t c ht hc]
  simp [hc]

/-- `read_PLY(write_PLY(triangles))`: triangle `t` comes back as its own three corners, in order -/
theorem plyRead_write (k : Nat) (T : Nat → Nat → Nat → ℝ) (offset angles : Vec3 ℝ) :
    plyReadTriangles offset angles (plyRowPoint (plyStoredRows T (plyWriteVertices k))) ((plyWriteFaces k).map (·.1)) =
      (List.range k).map fun t => [0, 1, 2].map fun c => (rotFromOrder .np [.z, .y, .x] angles).mulVec (plyPoint T t c) + offset := by
  rw [plyReadTriangles_eq, plyWriteFaces_eq, List.map_map]
  apply List.map_congr_left
  intro t ht
  have ht' := List.mem_range.mp ht
  have v := fun c (hc : c < 3) => plyWrite_vertex k T t c ht' hc
  simp only [Function.comp_def, plyFace, List.map_cons, List.map_nil, List.getD_cons_zero, List.getD_cons_succ]
  have e0 : 3 * t = plyVertexRow t 0 := rfl
  have e1 : 3 * t + 1 = plyVertexRow t 1 := rfl
  have e2 : 3 * t + 2 = plyVertexRow t 2 := rfl
  rw [e1, e2, e0, v 0 (by omega), v 1 (by omega), v 2 (by omega)]
end Odak
