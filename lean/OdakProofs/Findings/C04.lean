import OdakProofs.Props.C04
import Mathlib.Analysis.Real.Pi.Bounds

/-! Refutation for C04 on the current tree: the Fresnel transfer function of both APIs is the complex
    conjugate of the forward paraxial kernel (it propagates towards -z). -/
namespace Odak

/-- full-strength statement that does NOT hold: "the Fresnel transfer function equals the forward
    paraxial kernel `exp(i z (k - π λ ρ))`" – witness `z = 1`, `k = 1`, `ρ = 0` (a 1×1 grid) -/
theorem C04_tf_matches_paraxial_refuted :
    ¬ (∀ (n m : Nat) (dx lam k z : ℝ) (i : Fin n) (j : Fin m),
        (tfKernel n m dx lam k z).get i j
          = Cx.expi (paraxialPhase lam k z (Num.sq (freq dx m j) + Num.sq (freq dx n i)))) := by
  intro h
  have h1 := h 1 1 1 0 1 1 ⟨0, by norm_num⟩ ⟨0, by norm_num⟩
  rw [C04_tf_kernel_is_paraxial_kernel_of_minus_z] at h1
  simp only [paraxialPhase, mul_zero, zero_mul, sub_zero, mul_one] at h1
  have him := congrArg Cx.im h1
  simp only [Cx.expi, num_sin, Real.sin_neg] at him
  have hpos : 0 < Real.sin 1 := Real.sin_pos_of_pos_of_lt_pi (by norm_num) (by linarith [Real.pi_gt_three])
  linarith

end Odak
